// Package emit writes correspondence cases as Coq source shards plus a stats file.
package emit

import (
	"encoding/json"
	"fmt"
	"os"
	"path/filepath"
	"sort"
	"strconv"
	"strings"
)

// Rand is SplitMix64: every random choice of a driver derives from one state.
type Rand struct{ s uint64 }

func NewRand(seed uint64) *Rand { return &Rand{s: seed*0x9E3779B97F4A7C15 + 0x1234567} }
func (r *Rand) U64() uint64 {
	r.s += 0x9E3779B97F4A7C15
	z := r.s
	z = (z ^ (z >> 30)) * 0xBF58476D1CE4E5B9
	z = (z ^ (z >> 27)) * 0x94D049BB133111EB
	return z ^ (z >> 31)
}
func (r *Rand) Intn(n int) int {
	if n <= 0 {
		return 0
	}
	return int(r.U64() % uint64(n))
}
func (r *Rand) Bool() bool          { return r.U64()&1 == 1 }
func (r *Rand) Chance(pct int) bool { return r.Intn(100) < pct }

func B(b bool) string {
	if b {
		return "true"
	}
	return "false"
}
func N(x uint64) string       { return strconv.FormatUint(x, 10) }
func Z(x int64) string        { return fmt.Sprintf("(%d)%%Z", x) }
func Nat(x int) string        { return fmt.Sprintf("%d%%nat", x) }
func List(xs []string) string { return "[" + strings.Join(xs, "; ") + "]" }
func Some(x string) string    { return "(Some " + x + ")" }
func Pair(a, b string) string { return "(" + a + ", " + b + ")" }

func Seed() uint64 {
	if s := os.Getenv("VERIF_SEED"); s != "" {
		if v, err := strconv.ParseUint(s, 10, 64); err == nil {
			return v
		}
	}
	return 1
}
func Thorough() bool { return os.Getenv("VERIF_TIER") == "thorough" }

// Only returns the case index selected for replay, or -1.
func Only() int {
	if s := os.Getenv("VERIF_ONLY"); s != "" {
		if v, err := strconv.Atoi(s); err == nil {
			return v
		}
	}
	return -1
}

// Writer collects cases and writes them as shards cases_<k>.v.
type Writer struct {
	dir        string
	imports    string // e.g. "Oracle.C01"
	caseType   string
	chk        string
	perShard   int
	cases      []string
	descr      []any
	classes    map[string]int
	nontriv    map[string]bool
	hist       map[string]map[string]int
	Rule       string
	Exhaustive bool
	Extra      map[string]any
}

func NewWriter(imports, caseType, chk string) *Writer {
	dir := os.Getenv("VERIF_OUT")
	if dir == "" {
		dir = "."
	}
	return &Writer{dir: dir, imports: imports, caseType: caseType, chk: chk, perShard: 400,
		classes: map[string]int{}, nontriv: map[string]bool{}, hist: map[string]map[string]int{}, Extra: map[string]any{}}
}

func (w *Writer) PerShard(n int) { w.perShard = n }

// Add records one case: its Coq term, a JSON-able description (for samples and
// replays), a class key (distinctness) and whether it is non-trivial.
func (w *Writer) Add(term string, descr any, class string, nontrivial bool) int {
	w.cases = append(w.cases, term)
	w.descr = append(w.descr, descr)
	w.classes[class]++
	if nontrivial {
		w.nontriv[class] = true
	}
	w.progress(descr)
	return len(w.cases) - 1
}

// progress records how far the driver got, so that when the process dies inside the
// implementation (a panic in a library goroutine, a deadlock, the test timeout) the
// check can name the case that was running: the one after the last completed case.
func (w *Writer) progress(last any) {
	b, err := json.Marshal(map[string]any{"completed": len(w.cases), "seed": Seed(), "last_completed_case": last})
	if err != nil {
		b, _ = json.Marshal(map[string]any{"completed": len(w.cases), "seed": Seed()})
	}
	_ = os.WriteFile(filepath.Join(w.dir, "progress.json"), b, 0o644)
}

func (w *Writer) Count(hist, key string) {
	m := w.hist[hist]
	if m == nil {
		m = map[string]int{}
		w.hist[hist] = m
	}
	m[key]++
}

func (w *Writer) Len() int { return len(w.cases) }

func (w *Writer) Flush() error {
	if err := os.MkdirAll(w.dir, 0o755); err != nil {
		return err
	}
	var shards []string
	only := Only()
	for k, off := 0, 0; off < len(w.cases); k, off = k+1, off+w.perShard {
		end := off + w.perShard
		if end > len(w.cases) {
			end = len(w.cases)
		}
		var sb strings.Builder
		fmt.Fprintf(&sb, "From GH Require Import Base.Prelude %s.\nOpen Scope N_scope.\n", w.imports)
		fmt.Fprintf(&sb, "Definition cases : list %s := [\n", w.caseType)
		first := true
		for i := off; i < end; i++ {
			if only >= 0 && i != only {
				continue
			}
			if !first {
				sb.WriteString(";\n")
			}
			first = false
			sb.WriteString(" ")
			sb.WriteString(w.cases[i])
		}
		start := off
		if only >= 0 {
			if only < off || only >= end {
				continue
			}
			start = only
		}
		fmt.Fprintf(&sb, "\n].\nDefinition R := Eval vm_compute in bad_cases %s %d cases.\nPrint R.\n", w.chk, start)
		name := fmt.Sprintf("cases_%03d.v", k)
		if err := os.WriteFile(filepath.Join(w.dir, name), []byte(sb.String()), 0o644); err != nil {
			return err
		}
		shards = append(shards, name)
	}
	nt := 0
	for range w.nontriv {
		nt++
	}
	samples := []any{}
	for i := 0; i < len(w.descr) && len(samples) < 3; i += 1 + len(w.descr)/3 {
		samples = append(samples, map[string]any{"index": i, "case": w.descr[i], "term": w.cases[i]})
	}
	keys := make([]string, 0, len(w.classes))
	for k := range w.classes {
		keys = append(keys, k)
	}
	sort.Strings(keys)
	st := map[string]any{
		"evaluations":         len(w.cases),
		"distinct_classes":    len(w.classes),
		"distinct_nontrivial": nt,
		"rule":                w.Rule,
		"samples":             samples,
		"histograms":          w.hist,
		"exhaustive":          w.Exhaustive,
		"shards":              shards,
		"seed":                Seed(),
		"extra":               w.Extra,
	}
	b, _ := json.MarshalIndent(st, "", " ")
	if err := os.WriteFile(filepath.Join(w.dir, "stats.json"), b, 0o644); err != nil {
		return err
	}
	// full descriptions, for replays
	d, _ := json.Marshal(map[string]any{"descr": w.descr, "terms": w.cases})
	return os.WriteFile(filepath.Join(w.dir, "cases.json"), d, 0o644)
}
