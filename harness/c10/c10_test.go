//go:build verif

package c10

import (
	"context"
	"errors"
	"fmt"
	"io"
	"strings"
	"sync"
	"testing"
	"testing/synctest"
	"time"

	"github.com/ipfs/go-datastore"
	dsq "github.com/ipfs/go-datastore/query"
	dssync "github.com/ipfs/go-datastore/sync"
	"github.com/libp2p/go-libp2p/core/host"
	"github.com/libp2p/go-libp2p/core/protocol"
	mocknet "github.com/libp2p/go-libp2p/p2p/net/mock"

	"github.com/celestiaorg/go-libp2p-messenger/serde"

	header "github.com/celestiaorg/go-header"
	"github.com/celestiaorg/go-header/p2p"
	p2p_pb "github.com/celestiaorg/go-header/p2p/pb"
	"github.com/celestiaorg/go-header/store"

	"verifharness/emit"
	"verifharness/vhdr"
)

type H = *vhdr.Header

const (
	networkID = "c10"
	protoID   = protocol.ID("/" + networkID + "/header-ex/v0.0.3")
	maxU      = ^uint64(0)
)

// ---------------------------------------------------------------- recording proxy

type call struct {
	kind     string // hasat head get getrange getbyheight getrangebyheight tail height has | append deleterange ondelete
	a, b     uint64 // arguments (heights)
	hash     []byte
	returned int // number of headers handed back to the server
	failed   bool
}

// recStore is the header.Store handed to NewExchangeServer: it forwards to a real
// store.Store and logs every call. faults: one mode per kind of context-taking read
// (kHead, kRange, kGet): 0 none, 1 the read blocks until the request context ends and
// returns its error, 2 the read fails at once. HasAt returns a bare bool and is not faulted.
type recStore struct {
	inner header.Store[H]
	mu    sync.Mutex
	log   []call
	faults [3]int
	// crashed: a call would have taken the process down (panic inside the store, or a span
	// so large that the store's make([]H, to-from) panics or exhausts memory); the proxy
	// keeps the driver alive, records the call and reports the request as OPanic
	crashed bool
	// hook: after the first call of kind hookKind returned, run hookFn once
	hookKind  string
	hookFn    func()
	hookFired bool
}

var errCrash = errors.New("c10: store call would crash the process")

const hugeSpan = 1 << 20

const (
	kHead = iota
	kRange
	kGet
)

var errInjected = errors.New("c10: injected store failure")

// rec logs a call that has just returned from the real store; when the armed hook names
// its kind, the store is changed now, i.e. before the server makes its next call.
func (r *recStore) rec(c call) {
	r.mu.Lock()
	r.log = append(r.log, c)
	k := c.kind
	if k == "getrangebyheight" || k == "getbyheight" {
		k = "getrange"
	}
	fn := r.hookFn
	fire := fn != nil && r.hookKind == k
	if fire {
		r.hookFn = nil
		r.hookFired = true
	}
	r.mu.Unlock()
	if fire {
		fn()
	}
}

func (r *recStore) take() []call {
	r.mu.Lock()
	defer r.mu.Unlock()
	l := r.log
	r.log = nil
	return l
}

// faulty reports the injected error for a read call (nil = forward to the real store).
func (r *recStore) faulty(ctx context.Context, kind int) error {
	switch r.faults[kind] {
	case 1:
		<-ctx.Done()
		return ctx.Err()
	case 2:
		return errInjected
	}
	return nil
}

func (r *recStore) Head(ctx context.Context, opts ...header.HeadOption[H]) (H, error) {
	if err := r.faulty(ctx, kHead); err != nil {
		r.rec(call{kind: "head", failed: true})
		return nil, err
	}
	h, err := r.inner.Head(ctx, opts...)
	c := call{kind: "head", failed: err != nil}
	if err == nil {
		c.returned = 1
	}
	r.rec(c)
	return h, err
}

func (r *recStore) Get(ctx context.Context, hash header.Hash) (H, error) {
	if err := r.faulty(ctx, kGet); err != nil {
		r.rec(call{kind: "get", hash: hash, failed: true})
		return nil, err
	}
	h, err := r.inner.Get(ctx, hash)
	c := call{kind: "get", hash: append([]byte(nil), hash...), failed: err != nil}
	if err == nil {
		c.returned = 1
	}
	r.rec(c)
	return h, err
}

func (r *recStore) GetByHeight(ctx context.Context, height uint64) (H, error) {
	if err := r.faulty(ctx, kRange); err != nil {
		r.rec(call{kind: "getbyheight", a: height, failed: true})
		return nil, err
	}
	h, err := r.inner.GetByHeight(ctx, height)
	c := call{kind: "getbyheight", a: height, failed: err != nil}
	if err == nil {
		c.returned = 1
	}
	r.rec(c)
	return h, err
}

func (r *recStore) GetRangeByHeight(ctx context.Context, from H, to uint64) (hs []H, err error) {
	if err := r.faulty(ctx, kRange); err != nil {
		r.rec(call{kind: "getrangebyheight", a: from.Height() + 1, b: to, failed: true})
		return nil, err
	}
	return r.guarded("getrangebyheight", from.Height()+1, to, func() ([]H, error) { return r.inner.GetRangeByHeight(ctx, from, to) })
}

func (r *recStore) GetRange(ctx context.Context, from, to uint64) ([]H, error) {
	if err := r.faulty(ctx, kRange); err != nil {
		r.rec(call{kind: "getrange", a: from, b: to, failed: true})
		return nil, err
	}
	return r.guarded("getrange", from, to, func() ([]H, error) { return r.inner.GetRange(ctx, from, to) })
}

func (r *recStore) guarded(kind string, from, to uint64, f func() ([]H, error)) (hs []H, err error) {
	if to > from && to-from > hugeSpan {
		r.crashed = true
		r.rec(call{kind: kind, a: from, b: to, failed: true})
		return nil, errCrash
	}
	defer func() {
		if p := recover(); p != nil {
			r.crashed = true
			hs, err = nil, errCrash
		}
		r.rec(call{kind: kind, a: from, b: to, failed: err != nil, returned: len(hs)})
	}()
	return f()
}

func (r *recStore) Tail(ctx context.Context) (H, error) {
	h, err := r.inner.Tail(ctx)
	r.rec(call{kind: "tail"})
	return h, err
}

func (r *recStore) Height() uint64 {
	h := r.inner.Height()
	r.rec(call{kind: "height"})
	return h
}

func (r *recStore) Has(ctx context.Context, hash header.Hash) (bool, error) {
	ok, err := r.inner.Has(ctx, hash)
	r.rec(call{kind: "has", hash: append([]byte(nil), hash...)})
	return ok, err
}

func (r *recStore) HasAt(ctx context.Context, height uint64) bool {
	ok := r.inner.HasAt(ctx, height)
	r.rec(call{kind: "hasat", a: height})
	return ok
}

func (r *recStore) Append(ctx context.Context, hs ...H) error {
	r.rec(call{kind: "append", returned: len(hs)})
	return r.inner.Append(ctx, hs...)
}

func (r *recStore) DeleteRange(ctx context.Context, from, to uint64) error {
	r.rec(call{kind: "deleterange", a: from, b: to})
	return r.inner.DeleteRange(ctx, from, to)
}

func (r *recStore) OnDelete(fn func(ctx context.Context, height uint64) error) {
	r.rec(call{kind: "ondelete"})
	r.inner.OnDelete(fn)
}

var _ header.Store[H] = (*recStore)(nil)

// ---------------------------------------------------------------- recording datastore

// recDS sits under the real store.Store and logs the keys read while a request is served.
type recDS struct {
	datastore.Batching
	mu   sync.Mutex
	on     bool
	paused bool
	keys   []string
	found  []bool
}

func (d *recDS) note(k datastore.Key, found bool) {
	d.mu.Lock()
	if d.on && !d.paused {
		d.keys = append(d.keys, k.String())
		d.found = append(d.found, found)
	}
	d.mu.Unlock()
}

func (d *recDS) Get(ctx context.Context, k datastore.Key) ([]byte, error) {
	b, err := d.Batching.Get(ctx, k)
	d.note(k, err == nil)
	return b, err
}

func (d *recDS) Has(ctx context.Context, k datastore.Key) (bool, error) {
	ok, err := d.Batching.Has(ctx, k)
	d.note(k, ok && err == nil)
	return ok, err
}

func (d *recDS) GetSize(ctx context.Context, k datastore.Key) (int, error) {
	n, err := d.Batching.GetSize(ctx, k)
	d.note(k, err == nil)
	return n, err
}

func (d *recDS) Query(ctx context.Context, q dsq.Query) (dsq.Results, error) {
	d.note(datastore.NewKey("query/"+q.Prefix), false)
	return d.Batching.Query(ctx, q)
}

// pause suspends logging while the driver itself changes the store.
func (d *recDS) pause(p bool) {
	d.mu.Lock()
	d.paused = p
	d.mu.Unlock()
}

func (d *recDS) start() {
	d.mu.Lock()
	d.on, d.keys, d.found = true, nil, nil
	d.mu.Unlock()
}

func (d *recDS) stop() ([]string, []bool) {
	d.mu.Lock()
	defer d.mu.Unlock()
	d.on = false
	return d.keys, d.found
}

// ---------------------------------------------------------------- store configurations

// cfg describes one store: a chain first..last is appended, then [first, tail) is deleted
// from the tail side; extra headers (not adjacent to the head) are appended afterwards.
type cfg struct {
	name        string
	first, last uint64 // appended chain (last < first: nothing appended, empty store)
	tail        uint64 // tail after pruning (== first: no DeleteRange)
	extraGap    uint64 // 0: none; else extras start at last+1+extraGap
	extraN      int
	batch       int // write batch size
	noSync      bool // leave the appended headers in the write batch (no Sync, no pruning possible)
	cache       int  // store cache size (0 = default)
	reserve     int  // further headers of the same chain, appended while requests are served
	// server configuration: p2p.WithMetrics(), a non-default RequestTimeout (0 = the default, 10 s)
	metrics    bool
	reqTimeout time.Duration
	faultsOnly bool // serve only the fault grids (the rest of the request classes ran on the twin configuration)
}

type world struct {
	cfg    cfg
	st     *store.Store[H]
	rec    *recStore
	srv    *p2p.ExchangeServer[H]
	net    mocknet.Mocknet
	client host.Host
	server host.Host
	chain  []H // the store's contiguous run tail..head, read back from the real store
	extra  []H
	gone   []H // pruned headers (below the tail)
	reg    *vhdr.Registry
	stTerm string
	ds     *recDS
	keyHt  map[string]uint64 // datastore key -> height of the header it belongs to
	tl, hd uint64            // Tail/Head heights (0, 0 for the empty store), from the store's pointers
	expect []H               // the chain Tail..Head as constructed (only used to pick requests)
	all    []H               // the whole constructed chain from cfg.first on, including the reserve
	pend   []pending         // observations, rendered once the store content has been read back
}

type pending struct {
	raw     []byte
	fault   [3]int
	el      time.Duration
	class   string
	rp      reply
	log     []call
	disk    []string
	reqTerm string
	reqKind string
}

func (w *world) tail() uint64 { return w.tl }

// requestTimeout is the RequestTimeout the server was configured with.
func (w *world) requestTimeout() time.Duration { return w.srv.Params.RequestTimeout }
func (w *world) head() uint64 { return w.hd }

func build(t *testing.T, c cfg, reg *vhdr.Registry) *world {
	ctx, cancel := context.WithTimeout(context.Background(), time.Hour)
	defer cancel()
	ds := &recDS{Batching: dssync.MutexWrap(datastore.NewMapDatastore())}
	opts := []store.Option{}
	if c.batch > 0 {
		opts = append(opts, store.WithWriteBatchSize(c.batch))
	}
	if c.cache > 0 {
		opts = append(opts, store.WithStoreCacheSize(c.cache), store.WithIndexCacheSize(c.cache))
	}
	st, err := store.NewStore[H](ds, opts...)
	if err != nil {
		t.Fatal(err)
	}
	if err := st.Start(ctx); err != nil {
		t.Fatal(err)
	}
	w := &world{cfg: c, st: st, reg: reg, ds: ds, keyHt: map[string]uint64{}}
	known := func(hs []H, prev []byte) {
		if len(hs) > 0 {
			w.keyHt["/headers/"+header.Hash(prev).String()] = hs[0].H - 1
		}
		for _, h := range hs {
			w.keyHt["/headers/"+h.Hash().String()] = h.H
			w.keyHt[fmt.Sprintf("/headers/%d", h.H)] = h.H
		}
	}
	var all []H
	if c.last >= c.first {
		prev := []byte(fmt.Sprintf("parent-of-%s-%d", c.name, c.first))
		all = vhdr.Chain("c10", c.first, int(c.last-c.first+1)+c.reserve, 1_000_000, 1000, prev)
		w.all = all
		// number the hashes in chain order (lets the store be rendered compactly)
		reg.ID(prev)
		for _, h := range all {
			reg.ID(h.Hash())
		}
		known(all, prev)
		now := all[:c.last-c.first+1]
		for off := 0; off < len(now); off += 37 {
			end := min(off+37, len(now))
			if err := st.Append(ctx, all[off:end]...); err != nil {
				t.Fatal(err)
			}
		}
		if c.noSync {
			synctest.Wait()
		} else if err := st.Sync(ctx); err != nil {
			t.Fatal(err)
		}
		if c.tail > c.first {
			if err := st.DeleteRange(ctx, c.first, c.tail); err != nil {
				t.Fatal(err)
			}
			w.gone = all[:c.tail-c.first]
		}
		if c.extraN > 0 {
			// a second run, not adjacent to the head: stored, but outside Tail..Head
			exPrev := []byte("parent-of-extra-" + c.name)
			ex := vhdr.Chain("c10", c.last+1+c.extraGap, c.extraN, 9_000_000, 1000, exPrev)
			reg.ID(exPrev)
			for _, h := range ex {
				reg.ID(h.Hash())
			}
			known(ex, exPrev)
			if err := st.Append(ctx, ex...); err != nil {
				t.Fatal(err)
			}
			if err := st.Sync(ctx); err != nil {
				t.Fatal(err)
			}
			w.extra = ex
		}
	}
	if hd, err := st.Head(ctx); err == nil {
		tl, err := st.Tail(ctx)
		if err != nil {
			t.Fatal(err)
		}
		w.tl, w.hd = tl.Height(), hd.Height()
		if w.tl >= c.first && w.hd <= c.last && w.tl <= w.hd {
			w.expect = all[w.tl-c.first : w.hd-c.first+1]
		}
	}
	w.rec = &recStore{inner: st}
	w.net, err = mocknet.FullMeshConnected(2)
	if err != nil {
		t.Fatal(err)
	}
	hosts := w.net.Hosts()
	w.server, w.client = hosts[0], hosts[1]
	sopts := []p2p.Option[p2p.ServerParameters]{p2p.WithNetworkID[p2p.ServerParameters](networkID)}
	if c.metrics {
		sopts = append(sopts, p2p.WithMetrics[p2p.ServerParameters]())
	}
	if c.reqTimeout > 0 {
		sopts = append(sopts, p2p.WithRequestTimeout[p2p.ServerParameters](c.reqTimeout))
	}
	w.srv, err = p2p.NewExchangeServer[H](w.server, w.rec, sopts...)
	if err != nil {
		t.Fatal(err)
	}
	if err := w.srv.Start(ctx); err != nil {
		t.Fatal(err)
	}
	return w
}

func (w *world) close(t *testing.T) {
	ctx, cancel := context.WithTimeout(context.Background(), time.Hour)
	defer cancel()
	_ = w.srv.Stop(ctx)
	_ = w.net.Close()
	if err := w.st.Stop(ctx); err != nil {
		t.Fatal(err)
	}
}

// readBack reads the store's content Tail..Head from the real store: this, not the
// construction recipe, is the store view the model is run on. It is done after the requests
// so that they meet the store's caches as the construction left them.
func (w *world) readBack(t *testing.T) {
	ctx, cancel := context.WithTimeout(context.Background(), time.Hour)
	defer cancel()
	hd, err := w.st.Head(ctx)
	if err != nil {
		return
	}
	tl, err := w.st.Tail(ctx)
	if err != nil {
		t.Fatal(err)
	}
	if tl.Height() != w.tl || hd.Height() != w.hd {
		t.Fatalf("cfg %s: the store changed while serving requests", w.cfg.name)
	}
	for h := tl.Height(); ; h++ {
		x, err := w.st.GetByHeight(ctx, h)
		if err != nil {
			t.Fatalf("cfg %s: reading back height %d: %v", w.cfg.name, h, err)
		}
		w.chain = append(w.chain, x)
		if h == hd.Height() {
			break
		}
	}
}

// runTerm renders a list of headers as a Gallina [list hdr]: compactly as (mk_run ...) when it
// is a hash-linked run whose hashes were numbered consecutively, else element by element.
func (w *world) runTerm(hs []H) string {
	if len(hs) == 0 {
		return "[]"
	}
	compact := len(hs) < 400
	id0 := w.reg.ID(hs[0].Hash())
	spacing := int64(0)
	if len(hs) > 1 {
		spacing = hs[1].T - hs[0].T
	}
	for i, h := range hs {
		if h.Bad || h.Chain != hs[0].Chain || h.H != hs[0].H+uint64(i) || h.T != hs[0].T+int64(i)*spacing ||
			w.reg.ID(h.Hash()) != id0+uint64(i) || (i > 0 && w.reg.ID(h.Prev) != id0+uint64(i-1)) {
			compact = false
			break
		}
	}
	if compact {
		return fmt.Sprintf("(mk_run %d %d %d%%nat (%d)%%Z (%d)%%Z %d %d)", w.reg.ChainNo(hs[0].Chain), hs[0].H, len(hs),
			hs[0].T, spacing, id0, w.reg.ID(hs[0].Prev))
	}
	out := make([]string, len(hs))
	for i, h := range hs {
		out[i] = w.reg.Term(h)
	}
	return emit.List(out)
}

// storeTerm renders the store view as the Gallina [store].
func (w *world) storeTerm() string {
	if w.stTerm == "" {
		w.stTerm = fmt.Sprintf("(Store %s %s)", w.runTerm(w.chain), w.runTerm(w.extra))
	}
	return w.stTerm
}

// ---------------------------------------------------------------- raw client

type reply struct {
	term   string // Gallina [oreply]
	kind   string
	frames int
}

// exchange opens a stream, writes raw bytes, half-closes and reads response frames until
// EOF or reset.
func (w *world) exchange(raw []byte) reply {
	ctx, cancel := context.WithTimeout(context.Background(), 10*time.Minute)
	defer cancel()
	s, err := w.client.NewStream(ctx, w.server.ID(), protoID)
	if err != nil {
		return reply{term: "OGarbage", kind: "nostream"}
	}
	defer s.Reset() //nolint:errcheck
	if len(raw) > 0 {
		if _, err := s.Write(raw); err != nil {
			return reply{term: "OGarbage", kind: "writefail"}
		}
	}
	_ = s.CloseWrite()

	type frame struct {
		code p2p_pb.StatusCode
		body []byte
	}
	var frames []frame
	var endErr error
	done := make(chan struct{})
	go func() {
		defer close(done)
		for {
			resp := new(p2p_pb.HeaderResponse)
			_, err := serde.Read(s, resp)
			if err != nil {
				endErr = err
				return
			}
			frames = append(frames, frame{resp.StatusCode, resp.Body})
			if len(frames) > 4096 {
				endErr = errors.New("too many frames")
				return
			}
		}
	}()
	select {
	case <-done:
	case <-ctx.Done():
		// nothing within 10 virtual minutes (ReadDeadline 1m + RequestTimeout 10s + WriteDeadline 8s)
		s.Reset() //nolint:errcheck
		<-done
		return reply{term: "OHang", kind: "hang", frames: len(frames)}
	}
	if !errors.Is(endErr, io.EOF) {
		if len(frames) == 0 {
			return reply{term: "OReset", kind: "reset"}
		}
		return reply{term: "OGarbage", kind: "reset-after-frames", frames: len(frames)}
	}
	if len(frames) == 1 && frames[0].code == p2p_pb.StatusCode_NOT_FOUND && len(frames[0].body) == 0 {
		return reply{term: "ONotFound", kind: "notfound", frames: 1}
	}
	ids := make([]string, 0, len(frames))
	for _, f := range frames {
		if f.code != p2p_pb.StatusCode_OK {
			return reply{term: "OGarbage", kind: "mixed-status", frames: len(frames)}
		}
		h := new(vhdr.Header)
		if err := h.UnmarshalBinary(f.body); err != nil {
			return reply{term: "OGarbage", kind: "undecodable-body", frames: len(frames)}
		}
		ids = append(ids, emit.N(w.reg.ID(h.Hash())))
	}
	return reply{term: "(OOk " + emit.List(ids) + ")", kind: fmt.Sprintf("ok%d", len(ids)), frames: len(frames)}
}

func encode(req *p2p_pb.HeaderRequest) []byte {
	buf := make([]byte, req.Size()+10)
	n, err := serde.Marshal(req, buf)
	if err != nil {
		panic(err)
	}
	return buf[:n]
}

// classify says how the server must see raw bytes: the Gallina [req] term.
// It mirrors serde.Read (uvarint length prefix, body, protobuf decoding) on the driver side.
func (w *world) classify(raw []byte) (string, string) {
	req := new(p2p_pb.HeaderRequest)
	size, n := uvarint(raw)
	if n <= 0 || size > serde.MaxMessageSize || uint64(len(raw)-n) < size {
		return "RInvalid", "undecodable"
	}
	if err := req.Unmarshal(raw[n : n+int(size)]); err != nil {
		return "RInvalid", "undecodable"
	}
	switch d := req.Data.(type) {
	case *p2p_pb.HeaderRequest_Origin:
		return fmt.Sprintf("(ROrigin %d %d)", d.Origin, req.Amount), "origin"
	case *p2p_pb.HeaderRequest_Hash:
		return fmt.Sprintf("(RHash %d %d)", w.reg.ID(d.Hash), req.Amount), "hash"
	}
	return "RInvalid", "nodata"
}

func uvarint(b []byte) (uint64, int) {
	var x uint64
	var s uint
	for i, c := range b {
		if i == 10 {
			return 0, -1
		}
		if c < 0x80 {
			if i == 9 && c > 1 {
				return 0, -1
			}
			return x | uint64(c)<<s, i + 1
		}
		x |= uint64(c&0x7f) << s
		s += 7
	}
	return 0, 0
}

// ---------------------------------------------------------------- one case

func (w *world) one(em *emit.Writer, raw []byte, fault int, class string) {
	w.pend = append(w.pend, w.observe(raw, [3]int{fault, fault, fault}, class))
}

// oneK: a fault mode per call kind (Head, GetRange, Get)
func (w *world) oneK(em *emit.Writer, raw []byte, faults [3]int, class string) {
	w.pend = append(w.pend, w.observe(raw, faults, class))
}

// observe serves one request and collects everything observable about it.
func (w *world) observe(raw []byte, fault [3]int, class string) pending {
	reqTerm, reqKind := w.classify(raw)
	w.rec.take()
	w.rec.faults = fault
	w.ds.start()
	t0 := time.Now()
	rp := w.exchange(raw)
	synctest.Wait() // the handler has returned (or is parked for good)
	el := time.Since(t0)
	keys, found := w.ds.stop()
	log := w.rec.take()
	w.rec.faults = [3]int{}
	if w.rec.crashed {
		w.rec.crashed = false
		rp.term, rp.kind = "OPanic", "panic"
	}
	if el > 30*time.Second && rp.term != "OHang" {
		// answered, but only after more than RequestTimeout + WriteDeadline
		rp.term, rp.kind = "OHang", "late"
	}
	disk := make([]string, len(keys))
	for i, k := range keys {
		// height of the header the key belongs to (0: a key of no header of this chain), and whether it was there
		disk[i] = fmt.Sprintf("(%d, %s)", w.keyHt[k], emit.B(found[i]))
	}
	return pending{raw: raw, fault: fault, el: el, class: class, rp: rp, log: log, disk: disk, reqTerm: reqTerm, reqKind: reqKind}
}

// emitAll renders the collected observations of a quiescent store as cases.
func (w *world) emitAll(em *emit.Writer) {
	for _, p := range w.pend {
		w.render(em, p, w.storeTerm(), "KGet", "None", nil)
	}
}

// render turns one observation into a case. hook/st2: the store change during the request.
func (w *world) render(em *emit.Writer, p pending, st1, hook, st2 string, extra map[string]any) {
	var ranges, gets, disk []string
	o1, other := 0, 0
	for _, c := range p.log {
		switch c.kind {
		case "getrange", "getrangebyheight":
			ranges = append(ranges, fmt.Sprintf("(%d, %d, %d)", c.a, c.b, c.returned))
		case "getbyheight":
			ranges = append(ranges, fmt.Sprintf("(%d, %d, %d)", c.a, c.a+1, c.returned))
		case "get":
			gets = append(gets, emit.N(w.reg.ID(c.hash)))
		case "hasat", "head", "tail", "height", "has":
			o1++
		default:
			other++
		}
		em.Count("store_call", c.kind)
	}
	disk = p.disk
	fn := []string{"FNone", "FSlow", "FErr"}
	faultTerm := fmt.Sprintf("(KModes %s %s %s)", fn[p.fault[kHead]], fn[p.fault[kRange]], fn[p.fault[kGet]])
	term := fmt.Sprintf("Case10 %s %s %s %s %s %s %s %d %d %s %s %d %d", st1, faultTerm, p.reqTerm, p.rp.term,
		emit.List(ranges), emit.List(gets), emit.List(disk), o1, other, hook, st2,
		w.requestTimeout().Milliseconds(), p.el.Milliseconds())
	nontriv := p.rp.frames > 0 || len(ranges) > 0 || len(gets) > 0
	d := map[string]any{"cfg": w.cfg.name, "tail": w.tl, "head": w.hd, "req": p.reqTerm, "raw": fmt.Sprintf("%x", p.raw),
		"fault": faultTerm, "request_timeout_ms": w.requestTimeout().Milliseconds(), "elapsed_ms": p.el.Milliseconds(), "reply": p.rp.term, "ranges": ranges, "gets": gets, "disk_reads": disk, "class": p.class}
	for k, v := range extra {
		d[k] = v
	}
	em.Add(term, d, w.cfg.name+"/"+p.class+"/"+p.rp.kind, nontriv)
	em.Count("reply", p.rp.kind)
	em.Count("request", p.reqKind)
	em.Count("fault", faultTerm)
	em.Count("server_config", fmt.Sprintf("metrics=%v/RequestTimeout=%s", w.cfg.metrics, w.requestTimeout()))
	switch {
	case p.el == 0:
		em.Count("reply_instant", "at-once")
	case p.el == w.requestTimeout():
		em.Count("reply_instant", "at-RequestTimeout")
	default:
		em.Count("reply_instant", "other:"+p.el.String())
	}
	if strings.HasPrefix(p.class, "kgrid") {
		path := "none"
		var ks []string
		for _, c := range p.log {
			ks = append(ks, c.kind)
		}
		if len(ks) > 0 {
			path = strings.Join(ks, ">")
		}
		em.Count("fault_grid_cell", fmt.Sprintf("head=%s/getrange=%s/%s/%s", fn[p.fault[kHead]], fn[p.fault[kRange]], path, p.rp.kind))
	}
	em.Count("range_calls", fmt.Sprint(len(ranges)))
	dk := "0"
	switch n := len(p.disk); {
	case n > 64:
		dk = ">64"
	case n > 8:
		dk = "9-64"
	case n > 0:
		dk = "1-8"
	}
	em.Count("datastore_reads", dk)
}

// ---------------------------------------------------------------- the store changes during a request

// mutation of the real store, applied by the proxy between two of the server's calls
type mutation struct {
	name   string
	grow   uint64 // append this many headers above the head (and Sync)
	prune  uint64 // then move the tail up by this many heights ...
	pruneP bool   // ... or, if set, to (old head + prune): everything the request could have seen is gone
	shrink uint64 // or: delete this many headers from the head side
}

func (w *world) snapshot(t *testing.T) []H {
	ctx, cancel := context.WithTimeout(context.Background(), time.Hour)
	defer cancel()
	hd, err := w.st.Head(ctx)
	if err != nil {
		w.tl, w.hd = 0, 0
		return nil
	}
	tl, err := w.st.Tail(ctx)
	if err != nil {
		t.Fatal(err)
	}
	w.tl, w.hd = tl.Height(), hd.Height()
	out := make([]H, 0, w.hd-w.tl+1)
	for h := w.tl; h <= w.hd; h++ {
		x, err := w.st.GetByHeight(ctx, h)
		if err != nil {
			t.Fatalf("cfg %s: snapshot at height %d: %v", w.cfg.name, h, err)
		}
		out = append(out, x)
	}
	return out
}

// at returns the constructed header of the given height (the chain the store is fed from).
func (w *world) at(h uint64) H { return w.all[h-w.cfg.first] }

func (w *world) apply(m mutation) error {
	ctx, cancel := context.WithTimeout(context.Background(), time.Hour)
	defer cancel()
	tl, hd := w.tl, w.hd
	if m.grow > 0 {
		hs := make([]H, 0, m.grow)
		for h := hd + 1; h <= hd+m.grow; h++ {
			hs = append(hs, w.at(h))
		}
		if err := w.st.Append(ctx, hs...); err != nil {
			return err
		}
		if err := w.st.Sync(ctx); err != nil {
			return err
		}
	}
	if m.prune > 0 {
		to := tl + m.prune
		if m.pruneP {
			to = hd + m.prune
		}
		if err := w.st.DeleteRange(ctx, tl, to); err != nil {
			return err
		}
	}
	if m.shrink > 0 {
		if err := w.st.DeleteRange(ctx, hd-m.shrink+1, hd+1); err != nil {
			return err
		}
	}
	return nil
}

// dynStep serves one request while the store is changed right after the first call of
// kind hook returned to the server.
func (w *world) dynStep(t *testing.T, em *emit.Writer, hook string, m mutation, raw []byte, class string) {
	st1 := w.snapshot(t)
	var merr error
	w.rec.hookKind, w.rec.hookFired = hook, false
	w.rec.hookFn = func() {
		w.ds.pause(true)
		merr = w.apply(m)
		w.ds.pause(false)
	}
	p := w.observe(raw, [3]int{}, class)
	fired := w.rec.hookFired
	w.rec.hookFn = nil
	if merr != nil {
		t.Fatalf("cfg %s: changing the store (%s) failed: %v", w.cfg.name, m.name, merr)
	}
	tl1, hd1 := w.tl, w.hd
	st1Term := fmt.Sprintf("(Store %s [])", w.runTerm(st1))
	hookTerm := map[string]string{"hasat": "KHasAt", "head": "KHead", "tail": "KTail", "getrange": "KGetRange", "get": "KGet"}[hook]
	extra := map[string]any{"hook": hook, "change": m.name, "fired": fired, "tail": tl1, "head": hd1}
	if !fired {
		em.Count("store_change", "not-reached")
		w.render(em, p, st1Term, "KGet", "None", extra)
		return
	}
	st2 := w.snapshot(t)
	extra["tail_after"], extra["head_after"] = w.tl, w.hd
	em.Count("store_change", hook+"/"+m.name)
	w.render(em, p, st1Term, hookTerm, fmt.Sprintf("(Some (Store %s []))", w.runTerm(st2)), extra)
}

// runDyn drives one world through requests during which the store changes.
func (w *world) runDyn(t *testing.T, em *emit.Writer, rng *emit.Rand, full bool, nrand int) {
	muts := []mutation{
		{name: "grow1", grow: 1}, {name: "grow2", grow: 2}, {name: "grow3", grow: 3}, {name: "grow63", grow: 63},
		{name: "grow64", grow: 64}, {name: "grow65", grow: 65}, {name: "grow80", grow: 80},
		{name: "prune1", prune: 1}, {name: "prune2", prune: 2}, {name: "prune30", prune: 30}, {name: "prune-to-head"},
		{name: "grow2prune1", grow: 2, prune: 1}, {name: "grow80prune40", grow: 80, prune: 40},
		{name: "grow5prune-past-old-head", grow: 5, prune: 2, pruneP: true},
		{name: "shrink1", shrink: 1}, {name: "shrink2", shrink: 2}, {name: "shrink5", shrink: 5},
	}
	reqs := func(m mutation) [][2]uint64 {
		tl, hd := w.tl, w.hd
		hd2, tl2 := hd+m.grow-m.shrink, tl+m.prune
		if m.pruneP {
			tl2 = hd + m.prune
		}
		mid := tl + (hd-tl)/2
		return [][2]uint64{
			{hd, 2}, {hd, 1}, {hd, 3}, {hd - 1, 3}, {hd - 1, 2}, {hd + 1, 1}, {hd + 1, 2}, {hd, 64}, {hd, 65},
			{hd2, 1}, {hd2 - 1, 2}, {hd2 - 1, 3}, {hd2 + 1, 1}, {hd - 1, hd2 - hd + 2}, {hd - 1, hd2 - hd + 3},
			{tl, 1}, {tl, 2}, {tl - 1, 2}, {tl2, 1}, {tl2, 2}, {tl2 - 1, 2}, {tl2 - 1, 3},
			{mid, hd - mid + 1}, {mid, hd - mid + 2}, {mid, 64}, {hd - 62, 64}, {hd - 63, 64}, {hd - 64, 64},
			{hd2 - 62, 64}, {hd2 - 63, 64}, {0, 1},
		}
	}
	usable := func(m mutation) bool {
		// keep at least one header, and only delete what exists
		size := w.hd - w.tl + 1
		if m.shrink >= size || (!m.pruneP && m.prune >= size+m.grow) {
			return false
		}
		return w.hd+m.grow+200 < w.cfg.first+uint64(len(w.all))
	}
	upkeep := func() bool {
		// keep the window between 80 and 160 headers so that every request class exists
		w.snapshot(t)
		var m mutation
		switch size := w.hd - w.tl + 1; {
		case size < 80:
			m = mutation{grow: 120 - size}
		case size > 160:
			m = mutation{prune: size - 100}
		default:
			return true
		}
		if !usable(m) {
			return false
		}
		if err := w.apply(m); err != nil {
			t.Fatal(err)
		}
		w.snapshot(t)
		return true
	}
	step := func(hook string, m mutation, idx int, class string) bool {
		if !upkeep() || !usable(m) {
			return false
		}
		if m.name == "prune-to-head" {
			m.prune = w.hd - w.tl
		}
		rs := reqs(m) // relative to the store as it is now
		if idx < 0 {
			idx = rng.Intn(len(rs))
		}
		w.dynStep(t, em, hook, m, originReq(rs[idx][0], rs[idx][1]), class)
		return true
	}
	if full {
		n := len(reqs(muts[0]))
		for _, hook := range []string{"hasat", "head"} {
			for _, m := range muts {
				for i := 0; i < n; i++ {
					if !step(hook, m, i, "dyn") {
						return
					}
				}
			}
		}
	}
	hooks := []string{"hasat", "head", "getrange", "tail", "hasat", "head"}
	for i := 0; i < nrand; i++ {
		if !step(hooks[rng.Intn(len(hooks))], muts[rng.Intn(len(muts))], -1, "dyn-random") {
			return
		}
	}
	// a hash request and a head request while the store changes, and the wipe as the last change
	if upkeep() {
		w.dynStep(t, em, "get", mutation{name: "grow2", grow: 2}, hashReq(w.at(w.hd).Hash(), 1), "dyn-hash")
		w.snapshot(t)
		w.dynStep(t, em, "head", mutation{name: "grow2", grow: 2}, originReq(0, 1), "dyn-head")
		w.snapshot(t)
		w.dynStep(t, em, "hasat", mutation{name: "wipe", prune: w.hd - w.tl + 1}, originReq(w.hd, 2), "dyn-wipe")
	}
}

func originReq(o, a uint64) []byte {
	return encode(&p2p_pb.HeaderRequest{Data: &p2p_pb.HeaderRequest_Origin{Origin: o}, Amount: a})
}

func hashReq(h []byte, a uint64) []byte {
	return encode(&p2p_pb.HeaderRequest{Data: &p2p_pb.HeaderRequest_Hash{Hash: h}, Amount: a})
}

func TestC10(t *testing.T) {
	rng := emit.NewRand(emit.Seed())
	em := emit.NewWriter("Model.Server Oracle.C10", "case10", "chk10")
	em.PerShard(400)
	thorough := emit.Thorough()
	em.Rule = "real p2p.ExchangeServer on libp2p mocknet (synctest bubble) in front of a recording proxy around a real store.Store, per store " +
		"configuration (pruned tail > 1, unpruned, single header, empty, headers above a gap, unflushed write batch, heights next to 2^64): the full " +
		"grid origin {0,1,tail-1,tail,mid,head,head+1,2^64-1,...} x amount {0,1,2,63,64,65,2^64-1,...}, random (origin, amount) near the boundaries and " +
		"wrapping sums, hash requests (stored, pruned, above-gap, unknown, empty), malformed byte streams (random bytes, truncations, bad length " +
		"prefixes, no oneof field, trailing garbage), a sample of all of them under the proxy's fault modes (reads block until the request deadline / fail); " +
		"distinct by (configuration, request class, reply kind); non-trivial when the reply carries frames or the store was read"
	reg := vhdr.NewRegistry()
	top := maxU
	cfgs := []cfg{
		{name: "t200h300", first: 1, last: 300, tail: 200},
		{name: "t5h9", first: 1, last: 9, tail: 5, batch: 4},
		{name: "t20h90c4", first: 1, last: 90, tail: 20, cache: 4}, // nearly cache-less: reads reach the datastore
		{name: "t1h70", first: 1, last: 70, tail: 1},
		{name: "single7", first: 3, last: 7, tail: 7},
		{name: "empty", first: 1, last: 0},
		{name: "from50gap", first: 50, last: 60, tail: 53, extraGap: 2, extraN: 3},
		{name: "pending", first: 1, last: 12, tail: 1, batch: 2048, noSync: true},
		{name: "top", first: top - 20, last: top - 1, tail: top - 9},
		// the server configured differently: WithMetrics() and RequestTimeout 7 s / 250 ms instead of the default 10 s
		{name: "t200h300m7s", first: 1, last: 300, tail: 200, metrics: true, reqTimeout: 7 * time.Second, faultsOnly: true},
		{name: "t5h9m250ms", first: 1, last: 9, tail: 5, batch: 4, metrics: true, reqTimeout: 250 * time.Millisecond, faultsOnly: true},
		{name: "t20h90t13s", first: 1, last: 90, tail: 20, cache: 4, reqTimeout: 13 * time.Second, faultsOnly: true},
	}
	if thorough {
		cfgs = append(cfgs,
			cfg{name: "t2h3", first: 1, last: 3, tail: 2},
			cfg{name: "t64h130c4", first: 40, last: 130, tail: 64, cache: 4, batch: 1},
			// (a head AT 2^64-1 is not built: store.heightSub.SetHeight(MaxUint64) never returns)
			cfg{name: "top2", first: top - 130, last: top - 1, tail: top - 100},
			cfg{name: "t1000h1200gap", first: 900, last: 1200, tail: 1000, extraGap: 1, extraN: 70},
		)
	}
	for _, c := range cfgs {
		synctest.Test(t, func(t *testing.T) {
			w := build(t, c, reg)
			defer w.close(t)
			if c.faultsOnly {
				// server configuration varied: the fault grids again
				var hashes [][]byte
				for i, h := range w.expect {
					if i < 2 || i == len(w.expect)-1 {
						hashes = append(hashes, h.Hash())
					}
				}
				hashes = append(hashes, []byte("no such header"))
				w.runFaults(em, hashes)
				for _, b := range [][]byte{{}, {0}, originReq(w.tl, 2), originReq(0, 1)} {
					w.one(em, b, 0, "config-healthy")
				}
			} else {
				w.run(em, rng, thorough)
			}
			w.readBack(t)
			w.emitAll(em)
		})
	}
	// the store changes while a request is served
	dyn := []cfg{
		{name: "dynA", first: 1, last: 140, tail: 40, reserve: 60000},
		{name: "dynB", first: 7, last: 120, tail: 30, reserve: 30000, cache: 4, batch: 8},
	}
	for i, c := range dyn {
		synctest.Test(t, func(t *testing.T) {
			w := build(t, c, reg)
			defer w.close(t)
			nrand := 120
			if thorough {
				nrand = 600
			}
			w.runDyn(t, em, rng, i == 0 || thorough, nrand)
		})
	}
	if thorough {
		em.Exhaustive = true // the t5h9 / t2h3 sub-grids origin 0..head+3 x amount 0..head+3 are swept completely
	}
	if err := em.Flush(); err != nil {
		t.Fatal(err)
	}
	t.Logf("emitted %d cases", em.Len())
}

func uniq(xs []uint64) []uint64 {
	seen := map[uint64]bool{}
	var out []uint64
	for _, x := range xs {
		if !seen[x] {
			seen[x] = true
			out = append(out, x)
		}
	}
	return out
}

// run sends every request class to one world.
func (w *world) run(em *emit.Writer, rng *emit.Rand, thorough bool) {
	tl, hd := w.tail(), w.head()
	mid := tl + (hd-tl)/2
	origins := uniq([]uint64{0, 1, 2, tl - 1, tl, tl + 1, mid, hd - 1, hd, hd + 1, hd + 2, maxU - 64, maxU - 1, maxU})
	amounts := uniq([]uint64{0, 1, 2, 3, 63, 64, 65, 66, maxU - 64, maxU - 1, maxU})
	for _, e := range w.extra {
		origins = append(origins, e.H-1, e.H)
	}
	origins = uniq(origins)
	// 1. the grid
	for _, o := range origins {
		for _, a := range amounts {
			w.one(em, originReq(o, a), 0, "grid")
		}
	}
	// 2. amounts that make the range end exactly at / next to tail and head, and wrapping sums
	for _, o := range origins {
		var as []uint64
		for _, end := range []uint64{tl - 1, tl, tl + 1, hd - 1, hd, hd + 1, hd + 2} {
			as = append(as, end-o, end-o+1) // wraps when end < o: exercised on purpose
		}
		as = append(as, -o, -o-1, -o+1, maxU-o, maxU-o+1)
		for _, a := range uniq(as) {
			w.one(em, originReq(o, a), 0, "ends")
		}
	}
	// 3. complete sweep of a small box (thorough, small stores)
	if thorough && hd != 0 && hd < 16 {
		for o := uint64(0); o <= hd+3; o++ {
			for a := uint64(0); a <= hd+3; a++ {
				w.one(em, originReq(o, a), 0, "box")
			}
		}
	}
	// 4. random requests around the boundaries
	nr := 60
	if thorough {
		nr = 400
	}
	pick := func() uint64 {
		base := []uint64{0, tl, hd, mid, maxU, 64, 1 << 32, 1 << 63}[rng.Intn(8)]
		switch rng.Intn(4) {
		case 0:
			return base + uint64(rng.Intn(70))
		case 1:
			return base - uint64(rng.Intn(70))
		case 2:
			return rng.U64()
		}
		return base
	}
	for i := 0; i < nr; i++ {
		o, a := pick(), pick()
		if rng.Chance(50) {
			a = uint64(rng.Intn(70))
		}
		if rng.Chance(40) && hd >= tl && hd != 0 {
			o = tl - 3 + uint64(rng.Intn(int(min(hd-tl, 200))+7))
		}
		w.one(em, originReq(o, a), 0, "random")
	}
	// 5. hash requests
	var hashes [][]byte
	add := func(hs []H, n int) {
		for i, h := range hs {
			if i < n || i >= len(hs)-n {
				hashes = append(hashes, h.Hash())
			}
		}
	}
	add(w.expect, 3)
	add(w.extra, 2)
	add(w.gone, 2)
	if len(w.expect) > 0 {
		hashes = append(hashes, w.expect[0].Prev, w.expect[rng.Intn(len(w.expect))].Hash())
	}
	hashes = append(hashes, []byte{}, []byte{0}, []byte("no such header"), make([]byte, 32), make([]byte, 4096))
	for i := 0; i < 3; i++ {
		b := make([]byte, 32)
		for j := range b {
			b[j] = byte(rng.U64())
		}
		hashes = append(hashes, b)
	}
	for _, h := range hashes {
		w.one(em, hashReq(h, []uint64{0, 1, 2, 65, maxU}[rng.Intn(5)]), 0, "hash")
	}
	// 6. malformed streams
	valid := originReq(tl, 2)
	vh := hashReq([]byte("0123456789abcdef0123456789abcdef"), 1)
	mal := [][]byte{
		{},                       // nothing at all
		{0},                      // empty message: no oneof field
		{0x80},                   // unterminated length prefix
		{0xff, 0xff, 0xff, 0xff, 0xff, 0xff, 0xff, 0xff, 0xff, 0x7f}, // length prefix overflows uint64
		{0xff, 0xff, 0xff, 0x7f}, // 256 MiB announced: over serde.MaxMessageSize
		{0x80, 0x80, 0x40},       // exactly 1 MiB announced, nothing follows
		{2, 0x18, 5},             // only the amount field
		{5, 0x18, 5, 0x20, 1, 9}, // amount + unknown varint field 4, then a stray byte
		{2, 0x08},                // truncated varint inside the message
		{3, 0x12, 0x05, 1},       // hash field longer than the message
		{2, 0x0f, 0x00},          // field 1 with wire type 7
		{4, 0x08, 7, 0x10, 1},    // field 2 with the wrong wire type
		{6, 0x08, 7, 0x12, 2, 1, 2}, // origin then hash: the last oneof member wins
		{6, 0x12, 2, 1, 2, 0x08, 0}, // hash then origin 0: a head request
		append(append([]byte{}, valid...), 0xde, 0xad, 0xbe, 0xef), // a valid request followed by garbage
		valid[:len(valid)-1],                    // truncated
		vh[:len(vh)-7],
		append([]byte{byte(len(valid) + 3)}, valid[1:]...), // length prefix larger than the body
		append(append([]byte{}, valid...), valid...),       // two requests on one stream
	}
	nm := 25
	if thorough {
		nm = 150
	}
	for i := 0; i < nm; i++ {
		var b []byte
		switch rng.Intn(4) {
		case 0: // random bytes
			b = make([]byte, rng.Intn(24))
			for j := range b {
				b[j] = byte(rng.U64())
			}
		case 1: // a valid request with one byte flipped
			src := [][]byte{valid, vh, originReq(hd, 64), originReq(maxU, maxU)}[rng.Intn(4)]
			b = append([]byte{}, src...)
			b[rng.Intn(len(b))] ^= byte(1 << rng.Intn(8))
		case 2: // a correct length prefix before random protobuf-looking fields
			n := rng.Intn(12)
			body := make([]byte, n)
			for j := range body {
				body[j] = []byte{0x08, 0x12, 0x18, 0x00, 0x01, 0x7f, 0x80, 0xff, 0x02, 0x20}[rng.Intn(10)]
			}
			b = append([]byte{byte(n)}, body...)
		default: // a valid request cut anywhere
			src := [][]byte{valid, vh}[rng.Intn(2)]
			b = append([]byte{}, src[:rng.Intn(len(src)+1)]...)
		}
		mal = append(mal, b)
	}
	for _, b := range mal {
		w.one(em, b, 0, "malformed")
	}
	w.runFaults(em, hashes)
}

// runFaults: the store fails.
func (w *world) runFaults(em *emit.Writer, hashes [][]byte) {
	tl, hd := w.tail(), w.head()
	mid := tl + (hd-tl)/2
	// 7. a sample of every class, under both fault modes applied to every call kind
	for _, f := range []int{1, 2} {
		for _, o := range []uint64{0, tl - 1, tl, mid, hd, hd + 1} {
			for _, a := range []uint64{0, 1, 2, 64, 65, hd - o + 2} {
				w.one(em, originReq(o, a), f, "fault-grid")
			}
		}
		for _, h := range hashes[:min(4, len(hashes))] {
			w.one(em, hashReq(h, 1), f, "fault-hash")
		}
		w.one(em, []byte{0}, f, "fault-malformed")
	}
	// 8. a mode per call kind: the full grid Head-mode x GetRange-mode (HasAt is context-free) over the
	// request shapes: HasAt true -> GetRange; HasAt false -> Head -> GetRange (the partial range past the
	// head); HasAt false -> Head -> NOT_FOUND (above the head / below the tail); straddling the tail; the
	// head request; an oversized and an empty request (no store call)
	shapes := [][2]uint64{{mid, 2}, {hd, 1}, {hd - 1, 5}, {hd, 64}, {tl, hd - tl + 2}, {hd + 1, 1}, {tl - 1, 1}, {tl - 1, 3}, {0, 1}, {mid, 65}, {mid, 0}}
	for hm := 0; hm < 3; hm++ {
		for rm := 0; rm < 3; rm++ {
			for _, s := range shapes {
				w.oneK(em, originReq(s[0], s[1]), [3]int{hm, rm, 0}, "kgrid")
			}
		}
	}
	// the Get mode against the two others: a hash request only depends on Get's, a range request never does
	for gm := 1; gm < 3; gm++ {
		for _, other := range []int{0, 3 - gm} {
			for _, h := range hashes[:min(2, len(hashes))] {
				w.oneK(em, hashReq(h, 1), [3]int{other, other, gm}, "kgrid-hash")
				w.oneK(em, hashReq(h, 1), [3]int{gm, gm, other}, "kgrid-hash")
			}
			w.oneK(em, originReq(hd-1, 5), [3]int{other, other, gm}, "kgrid-get-unused")
		}
	}
}
