//go:build verif

package xprobe3

import (
	"context"
	"testing"
	"testing/synctest"
	"time"

	"github.com/ipfs/go-datastore"
	contextds "github.com/ipfs/go-datastore/context"

	"github.com/celestiaorg/go-header/store"

	"verifharness/storeh"
	"verifharness/vhdr"
)

func TestRetryCtx(t *testing.T) {
	for _, ctxf := range []bool{true, false} {
		synctest.Test(t, func(t *testing.T) {
			rec := storeh.NewRecDS()
			var ds datastore.Batching = rec
			if ctxf {
				ds = contextds.WrapDatastore(rec).(datastore.Batching)
			}
			s, _ := store.NewStore[*vhdr.Header](ds, store.WithWriteBatchSize(64))
			ctx := context.Background()
			_ = s.Start(ctx)
			chain := vhdr.Chain("a", 1, 16, time.Now().UnixNano(), 1000, nil)
			_ = s.Append(ctx, chain[:6]...)
			_ = s.Append(ctx, chain[:6]...)
			time.Sleep(time.Minute)
			synctest.Wait()
			failing := true
			s.OnDelete(func(ctx context.Context, h uint64) error {
				if failing && h == 2 {
					panic("boom")
				}
				return nil
			})
			err1 := s.DeleteRange(ctx, 1, 5)
			time.Sleep(time.Minute)
			synctest.Wait()
			failing = false
			tl, terr := s.Tail(ctx)
			var th uint64
			if terr == nil {
				th = tl.Height()
			}
			err2 := s.DeleteRange(ctx, 2, 5)
			tl2, _ := s.Tail(ctx)
			t.Logf("RESULT ctxf=%v err1nil=%v tail=%d terr=%v retry_err2=%v tail_after=%d", ctxf, err1 == nil, th, terr, err2, tl2.Height())
			_ = s.Stop(ctx)
		})
	}
}
