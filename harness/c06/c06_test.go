//go:build verif

package c06

import (
	"fmt"
	"testing"

	"verifharness/emit"
	"verifharness/storeh"
)

// TestC06: histories over the recording datastore; every (quick: a random subset of the) prefix
// of the recorded write log is turned into a datastore image on which a fresh Store is started,
// probed, fed the continuation of the chain and probed again.
func TestC06(t *testing.T) {
	rng := emit.NewRand(emit.Seed())
	w := emit.NewWriter("Model.Store Model.StoreSpec Model.StoreCrash Oracle.StoreCase Oracle.C06", "ccase", "chk06")
	w.PerShard(12)
	w.Rule = "append/delete/restart histories (3..14 ops) over a 16-header chain on a recording datastore whose log has one entry per direct " +
		"write and per batch commit; clean Restart/Reopen steps inside the history; then for write-log prefixes k (quick: 10 random per history, " +
		"thorough: all) the image of the first k entries is reopened by a fresh Store: Start result, full probe, append of the chain continuation, " +
		"full probe. The recorded log is also compared entry by entry with the model's log. A third of the histories run with N in {1,2,5} consecutive failing flush commits (transient write failures, retried by the flush loop); restarts include Stop racing a concurrent Sync and Stop directly after Append. distinct by (config, ops); non-trivial when the log " +
		"has >= 4 entries"
	n, crash := 36, 10
	if emit.Thorough() {
		n, crash = 400, -1
		w.Exhaustive = true // all prefixes of each explored history
	}
	run := func(cfg storeh.Config, maxOps int, gen storeh.Gen, class string) {
		res := storeh.Run(t, rng, cfg, maxOps, gen)
		w.Add(res.CrashTerm, res.Descr, class+fmt.Sprint(res.Descr["ops"]), res.LogLen >= 4)
		w.Count("log_len", fmt.Sprint(res.LogLen/10*10))
		w.Count("crash_points", fmt.Sprint(res.CrashPts/10*10))
		w.Count("batch", fmt.Sprint(cfg.Batch))
		w.Count("injected_commit_failures", fmt.Sprint(res.CommitFailures))
		w.Count("appends_not_followed_by_quiescence", fmt.Sprint(res.Rushed))
	}
	for _, cc := range storeh.Corpus {
		if cc.Faulty() { // failing writes inside DeleteRange: an [fcase], run by the C08 / C14 drivers (storeh.FaultCases)
			continue
		}
		cfg := storeh.Config{Batch: cc.Batch, Cache: 4, ICache: 4, U: 16, NH: 0, ProbeEvery: false, Ranges: 0, Crash: -1}
		run(cfg, len(cc.Ops), storeh.Scripted(cc.Ops), "corpus/"+cc.Name)
	}
	// clean Stop racing a Sync while a batch is in flight (the loop's choice between the sync request and
	// the queued stop signal is random: several rounds)
	for i := 0; i < 8; i++ {
		ops := []storeh.Op{storeh.A(1, 2, 3), {Kind: storeh.StopSync, Heights: []uint64{4, 5}}, storeh.A(6), {Kind: storeh.StopSync, Heights: []uint64{7}}}
		run(storeh.Config{Batch: []int{64, 5}[i%2], Cache: 4, ICache: 4, U: 16, Crash: 4}, len(ops), storeh.Scripted(ops), fmt.Sprintf("stopsync/%d/", i))
	}
	// long runs of failing flush commits (a bounded retry loop would give up and drop the batch): the headers
	// of an Append that returned must still be there when the datastore recovers
	for i, nf := range []int{8, 9, 13, 21} {
		ops := []storeh.Op{storeh.A(1, 2, 3), storeh.A(4, 5), storeh.R(), storeh.A(6), storeh.O()}
		run(storeh.Config{Batch: []int{1, 2, 64, 3}[i], Cache: 4, ICache: 4, U: 16, Crash: 4, FailHdrFrom: i % 2, FailHdrN: nf}, len(ops), storeh.Scripted(ops), fmt.Sprintf("longfail/%d/", nf))
	}
	for i := 0; i < n; i++ {
		cfg := storeh.Config{Batch: []int{1, 2, 3, 5, 64}[rng.Intn(5)], Cache: []int{4, 8, 512}[rng.Intn(3)], ICache: []int{4, 2048}[rng.Intn(2)],
			U: 16, NH: 0, ProbeEvery: false, Ranges: 0, Crash: crash}
		if i%3 == 0 { // transient datastore write failures: N consecutive failing flush commits
			cfg.FailHdrFrom, cfg.FailHdrN = rng.Intn(4), []int{1, 2, 5, 9, 13}[rng.Intn(5)]
		}
		gen := storeh.RandomGen(rng, cfg, storeh.Weights{Append: 62, Delete: 23, Restart: 15, InvalidDelete: 15})
		run(cfg, 3+rng.Intn(12), gen, "rand/")
	}
	if err := w.Flush(); err != nil {
		t.Fatal(err)
	}
}
