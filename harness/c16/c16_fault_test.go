//go:build verif

package c16

// Extra driver of C16: faults of the environment inside subjectiveTail. The k-th getter call
// (Get / GetByHeight of the new tail, then the GetRangeByHeight chunks of the downward doSync) or the
// k-th store write (Append / DeleteRange reaching the underlying store) made while subjectiveTail is
// on the call stack fails; one case = one Start() of a freshly configured Syncer with one such fault.

import (
	"context"
	"errors"
	"fmt"
	"runtime"
	"strings"
	"sync"
	"testing"
	"testing/synctest"
	"time"

	"github.com/ipfs/go-datastore"
	dssync "github.com/ipfs/go-datastore/sync"
	logging "github.com/ipfs/go-log/v2"

	header "github.com/celestiaorg/go-header"
	"github.com/celestiaorg/go-header/store"
	hsync "github.com/celestiaorg/go-header/sync"

	"verifharness/emit"
	"verifharness/vhdr"
)

var errInjected = errors.New("injected fault")

// inTail reports whether (*Syncer).subjectiveTail is on the caller's stack.
func inTail() bool {
	var pcs [96]uintptr
	n := runtime.Callers(2, pcs[:])
	frames := runtime.CallersFrames(pcs[:n])
	for {
		fr, more := frames.Next()
		if strings.Contains(fr.Function, "subjectiveTail") {
			return true
		}
		if !more {
			return false
		}
	}
}

type faultPlan struct {
	mu      sync.Mutex
	kind    string // "none", "get", "write"
	k       int
	gets    int // getter calls seen inside subjectiveTail
	writes  int // store writes seen inside subjectiveTail
	fired   bool
	getLog  []string // every getter call inside subjectiveTail
	reqs    []string // Get(hash) and GetRangeByHeight calls inside subjectiveTail as greq terms
	outside int      // calls outside subjectiveTail
}

func (f *faultPlan) get(what, term string) error {
	if !inTail() {
		f.mu.Lock()
		f.outside++
		f.mu.Unlock()
		return nil
	}
	f.mu.Lock()
	defer f.mu.Unlock()
	i := f.gets
	f.gets++
	f.getLog = append(f.getLog, what)
	if term != "" {
		f.reqs = append(f.reqs, term)
	}
	if f.kind == "get" && i == f.k {
		f.fired = true
		return errInjected
	}
	return nil
}

func (f *faultPlan) write() error {
	if !inTail() {
		return nil
	}
	f.mu.Lock()
	defer f.mu.Unlock()
	i := f.writes
	f.writes++
	if f.kind == "write" && i == f.k {
		f.fired = true
		return errInjected
	}
	return nil
}

func (f *faultPlan) term() string {
	switch f.kind {
	case "get":
		return fmt.Sprintf("(FGet %d)", f.k)
	case "write":
		return fmt.Sprintf("(FWrite %d)", f.k)
	}
	return "FNone"
}

type faultGetter struct {
	*chainGetter
	plan *faultPlan
}

func (g *faultGetter) Get(ctx context.Context, hash header.Hash) (*vhdr.Header, error) {
	var at uint64
	for _, h := range g.chain[:g.vis] {
		if string(h.Hash()) == string(hash) {
			at = h.Height()
		}
	}
	if err := g.plan.get("hash", fmt.Sprintf("GHash %d", at)); err != nil {
		return nil, err
	}
	return g.chainGetter.Get(ctx, hash)
}

func (g *faultGetter) GetByHeight(ctx context.Context, height uint64) (*vhdr.Header, error) {
	if err := g.plan.get(fmt.Sprintf("height %d", height), ""); err != nil {
		g.mu.Lock()
		g.req = append(g.req, height) // the request was made
		g.mu.Unlock()
		return nil, err
	}
	return g.chainGetter.GetByHeight(ctx, height)
}

func (g *faultGetter) GetRangeByHeight(ctx context.Context, from *vhdr.Header, to uint64) ([]*vhdr.Header, error) {
	if err := g.plan.get(fmt.Sprintf("range %d %d", from.Height(), to), fmt.Sprintf("GRange %d %d", from.Height(), to)); err != nil {
		return nil, err
	}
	return g.chainGetter.GetRangeByHeight(ctx, from, to)
}

type faultStore struct {
	*syncedStore
	plan *faultPlan
}

func (s *faultStore) Append(ctx context.Context, hs ...*vhdr.Header) error {
	if err := s.plan.write(); err != nil {
		return err
	}
	return s.syncedStore.Append(ctx, hs...)
}

func (s *faultStore) DeleteRange(ctx context.Context, from, to uint64) error {
	if err := s.plan.write(); err != nil {
		return err
	}
	return s.syncedStore.DeleteRange(ctx, from, to)
}

// faultCase is one Start() over a pre-populated store with one fault.
type faultCase struct {
	Name    string
	Gaps    []int64
	Adv     int64
	PreTail uint64
	PreHead uint64
	P       params
	Kind    string
	K       int
}

type faultResult struct {
	term   string
	descr  map[string]any
	class  string
	fired  bool
	out    string
	gets   int
	writes int
	shape  string
}

func runFault(t *testing.T, fc faultCase) (res faultResult) {
	synctest.Test(t, func(t *testing.T) {
		ctx, cancel := context.WithTimeout(context.Background(), 100000*time.Hour)
		defer cancel()
		start := time.Now().UnixNano()
		var span int64
		for _, g := range fc.Gaps {
			span += g
		}
		t1 := start - fc.Adv - span
		var chain []*vhdr.Header
		var times []int64
		var prev []byte
		push := func(tm int64) {
			h := &vhdr.Header{Chain: "c16", H: uint64(len(chain) + 1), T: tm, Prev: prev}
			chain = append(chain, h)
			times = append(times, tm)
			prev = h.Hash()
		}
		push(t1)
		for _, g := range fc.Gaps {
			push(times[len(times)-1] + g)
		}
		foreign := &vhdr.Header{Chain: "c16", H: 7, T: t1, Nonce: 99}
		ds := dssync.MutexWrap(datastore.NewMapDatastore())
		raw, err := store.NewStore[*vhdr.Header](ds, store.WithWriteBatchSize(1))
		if err != nil {
			t.Fatal(err)
		}
		if err := raw.Start(ctx); err != nil {
			t.Fatal(err)
		}
		st := &syncedStore{raw}
		if fc.PreTail != 0 {
			if err := st.Append(ctx, chain[fc.PreTail-1:fc.PreHead]...); err != nil {
				t.Fatal(err)
			}
		}
		plan := &faultPlan{kind: fc.Kind, k: fc.K}
		g := &faultGetter{chainGetter: &chainGetter{chain: chain, vis: len(chain)}, plan: plan}
		fs := &faultStore{syncedStore: st, plan: plan}
		synctest.Wait()
		now := time.Now().UnixNano()
		before := snapshot(raw, len(chain))
		out := "OOk"
		var live *hsync.Syncer[*vhdr.Header]
		func() {
			defer func() {
				if r := recover(); r != nil {
					out = "OPanic"
				}
			}()
			var err error
			live, err = hsync.NewSyncer[*vhdr.Header](g, fs, &fakeSub{}, fc.P.options(chain, foreign)...)
			if err != nil {
				out = "OInvalid"
				live = nil
				return
			}
			if err := live.Start(ctx); err != nil {
				out = "OErr"
			}
		}()
		synctest.Wait()
		if live != nil {
			func() {
				defer func() { _ = recover() }()
				_ = live.Stop(ctx)
			}()
			synctest.Wait()
		}
		_ = raw.Sync(ctx)
		after := snapshot(raw, len(chain))
		req := make([]string, len(g.req))
		for i, r := range g.req {
			req[i] = emit.N(r)
		}
		var u int64
		for i := 1; i < len(times); i++ {
			u = gcd(u, times[i]-times[i-1])
		}
		if u == 0 {
			u = 1
		}
		gs := make([]string, 0, len(times))
		for i := 1; i < len(times); i++ {
			gs = append(gs, emit.Z((times[i]-times[i-1])/u))
		}
		res.term = fmt.Sprintf("Case16f %s "+emit.List(plan.reqs)+" (Case16 %s (times_of %s %s %s) %s %s (Obs %s %s %s))", plan.term(), fc.P.term(), emit.Z(times[0]), emit.Z(u), emit.List(gs),
			emit.Z(now), before.term(), out, emit.List(req), after.term())
		shape := "wf"
		switch {
		case after.Tail == 0 && before.Tail != 0:
			shape = "emptied"
		case len(after.Extra) > 0 && after.Extra[0] < after.Tail:
			shape = "island-below"
		case len(after.Extra) > 0:
			shape = "detached-above"
		}
		mode := "window"
		if fc.P.HashKind != hashNone {
			mode = "hash"
		} else if fc.P.From != 0 {
			mode = "height"
		}
		res.descr = map[string]any{"name": fc.Name, "fault": plan.term(), "fired": plan.fired, "params": fc.P, "now": now, "net_head": len(chain),
			"before": before, "after": after, "out": out, "getter_by_height": append([]uint64(nil), g.req...), "getter_calls_in_tail": plan.getLog,
			"writes_in_tail": plan.writes}
		res.class = fmt.Sprintf("fault/%s/%s/%s/fired%v/%s/g%d/w%d", mode, fc.Kind, out, plan.fired, shape, plan.gets, plan.writes)
		res.fired, res.out, res.gets, res.writes, res.shape = plan.fired, out, plan.gets, plan.writes, shape
		sctx, scancel := context.WithTimeout(context.Background(), time.Hour)
		if err := raw.Stop(sctx); err != nil {
			t.Log("store stop:", err)
		}
		scancel()
	})
	return res
}

// faultBases: the shapes of a tail move (down by 1 / one chunk / several chunks, up inside the store,
// up to head+1, restart above head+1, first initialisation; by height, by hash, by window).
func faultBases() []faultCase {
	big := 10000 * hour
	hp := func(from uint64) params {
		return params{Window: 337 * hour, From: from, Trusting: big, Block: sec, BlockSet: true, Recency: ns}
	}
	hh := func(at uint64) params {
		return params{Window: 337 * hour, HashKind: hashAt, HashAt: at, Trusting: big, Block: sec, BlockSet: true, Recency: ns}
	}
	wp := func(w, b int64) params { return params{Window: w, Trusting: big, Block: b, BlockSet: true, Recency: ns} }
	var out []faultCase
	add := func(name string, n int, gap int64, tl, hd uint64, p params) {
		out = append(out, faultCase{Name: name, Gaps: rep(gap, n-1), Adv: ns, PreTail: tl, PreHead: hd, P: p})
	}
	add("down-1-height", 100, sec, 90, 95, hp(89))
	add("down-2-height", 100, sec, 90, 95, hp(88))
	add("down-64-height", 100, sec, 90, 95, hp(26))
	add("down-65-height", 100, sec, 90, 95, hp(25))
	add("down-66-height", 100, sec, 90, 95, hp(24))
	add("down-129-height", 150, sec, 140, 141, hp(11))
	add("down-to-1-height", 160, sec, 140, 150, hp(1))
	add("down-single-header-store", 100, sec, 90, 90, hp(20))
	add("down-3-hash", 100, sec, 90, 95, hh(87))
	add("down-70-hash", 110, sec, 90, 100, hh(20))
	add("up-inside-height", 100, sec, 10, 60, hp(30))
	add("up-inside-hash", 100, sec, 10, 60, hh(30))
	add("up-to-head-height", 100, sec, 10, 60, hp(60))
	add("up-to-head-plus-1-height", 100, sec, 10, 60, hp(61))
	add("restart-head-plus-2-height", 100, sec, 10, 60, hp(62))
	add("restart-far-height", 100, sec, 1, 50, hp(80))
	add("restart-far-hash", 100, sec, 1, 50, hh(80))
	add("restart-to-net-head", 100, sec, 1, 50, hp(100))
	add("init-height", 50, sec, 0, 0, hp(20))
	add("init-hash", 50, sec, 0, 0, hh(20))
	add("init-estimate", 50, sec, 0, 0, params{Window: 337 * hour, Trusting: 30 * sec, Block: sec, BlockSet: true, Recency: ns})
	add("window-up-far", 61, 10*ns, 1, 60, wp(100*ns, 10*ns))
	add("window-up-close", 61, 10*ns, 45, 60, wp(100*ns, 10*ns))
	add("window-lagging-store", 200, 10*ns, 1, 50, wp(200*ns, 10*ns))
	add("window-unchanged", 30, sec, 1, 30, wp(1000*sec, sec))
	add("fetch-outside-chain", 50, sec, 10, 20, hp(70))
	return out
}

func randomFault(rng *emit.Rand, i int) faultCase {
	n := 2 + rng.Intn(160)
	unit := []int64{ns, 10 * ns, sec}[rng.Intn(3)]
	gaps := make([]int64, n-1)
	for j := range gaps {
		gaps[j] = unit
		if rng.Chance(20) {
			gaps[j] = unit / 2
		}
	}
	fc := faultCase{Name: fmt.Sprintf("rf%d", i), Gaps: gaps, Adv: ns}
	if rng.Chance(85) {
		a, b := 1+rng.Intn(n), 1+rng.Intn(n)
		if a > b {
			a, b = b, a
		}
		fc.PreTail, fc.PreHead = uint64(a), uint64(b)
	}
	p := params{Window: []int64{3, 10, 40, 1000}[rng.Intn(4)] * unit, Trusting: 10000 * hour, Block: unit, BlockSet: true, Recency: ns}
	switch r := rng.Intn(100); {
	case r < 25:
	case r < 70:
		p.From = pickHeight(rng, fc.PreTail, fc.PreHead, n)
	default:
		p.HashKind, p.HashAt = hashAt, pickHeight(rng, fc.PreTail, fc.PreHead, n)
		if p.HashAt > uint64(n) {
			p.HashAt = 0
		}
	}
	fc.P = p
	fc.Kind = []string{"get", "write", "get", "write", "none"}[rng.Intn(5)]
	fc.K = rng.Intn(4)
	return fc
}

func TestC16Fault(t *testing.T) {
	_ = logging.SetLogLevel("*", "fatal")
	rng := emit.NewRand(emit.NewRand(emit.Seed()).U64() ^ (emit.Seed() * 0x9E3779B97F4A7C15))
	w := emit.NewWriter("Model.Tail Oracle.C16", "case16f", "chk16f")
	w.PerShard(150)
	w.Rule = "one case = one Start() of a freshly configured Syncer over a pre-populated real store.Store with ONE injected fault: the k-th getter call (Get/GetByHeight of the new tail, " +
		"GetRangeByHeight chunks of the downward doSync) or the k-th store write (Append/DeleteRange reaching the underlying store) made while subjectiveTail is on the call stack fails; " +
		"for each of 26 base shapes of a tail move (down by 1/2/64/65/66/129 headers, to height 1, from a single-header store, by hash; up inside the store, to head, to head+1; restart above head+1; " +
		"first initialisation; window mode far/close/lagging/unchanged; fetch outside the chain) EVERY k from 0 to one past the last call of either kind, plus random shapes with random faults"
	var cases []faultCase
	for _, b := range faultBases() {
		// the unfaulted run tells how many calls there are
		b.Kind = "none"
		r := runFault(t, b)
		cases = append(cases, b)
		for k := 0; k <= r.gets; k++ {
			c := b
			c.Kind, c.K = "get", k
			cases = append(cases, c)
		}
		for k := 0; k <= r.writes; k++ {
			c := b
			c.Kind, c.K = "write", k
			cases = append(cases, c)
		}
	}
	nrand := 250
	if emit.Thorough() {
		nrand = 3000
	}
	for i := 0; i < nrand; i++ {
		cases = append(cases, randomFault(rng, i))
	}
	for _, fc := range cases {
		r := runFault(t, fc)
		w.Add(r.term, r.descr, r.class, r.fired)
		w.Count("outcome", r.out)
		w.Count("fault_kind", fc.Kind)
		w.Count("fired", fmt.Sprint(r.fired))
		w.Count("store_after", r.shape)
		if r.fired {
			w.Count("fired_outcome", r.out)
		}
	}
	if err := w.Flush(); err != nil {
		t.Fatal(err)
	}
	t.Logf("emitted %d fault cases", w.Len())
}
