//go:build verif

package c16

// Extra driver of C16: the gossip verifier closure registered by Start (sync/syncer.go:
// incomingNetworkHead(h), then subjectiveTail(h) whose error is only logged), and the
// scenarios with extreme magnitudes shared with the main driver.

import (
	"fmt"
	"math"
	"testing"

	logging "github.com/ipfs/go-log/v2"

	"verifharness/emit"
)

// extremeScenarios: window / trusting period / block time in {2^61-1, 2^61, 2^61+1, 2^62, MaxInt64}
// over chains whose header times are up to 2^62 ns apart (time.Sub saturation, int64 wrap of
// blockTime*3, uint64 conversions of huge quotients).
func extremeScenarios() []scenario {
	p61 := int64(1) << 61
	mags := []int64{p61 - 1, p61, p61 + 1, int64(1) << 62, math.MaxInt64}
	chains := [][]int64{
		{1, 1, 1, 1, 1, 1, 1, 1, 1},
		{sec, p61, sec, sec, p61 - 1, sec, sec},
		{p61 + 1, 1, 1 << 62, 1, 1, 5},
		{1 << 62, p61, 1, 1},
		{hour, p61, p61, p61, hour, hour},
		{sec, -p61, sec, sec, 1, 1},          // header times going backwards by 2^61 ns
		{-(1 << 62), sec, -p61, sec, 1, 1}, // the head far older than the tail: expected tail time - tail time below -2^63
	}
	var out []scenario
	i := 0
	for ci, gaps := range chains {
		for _, w := range mags {
			for _, tp := range []int64{mags[(i+1)%len(mags)], 10000 * hour} {
				for _, b := range []int64{mags[(i+2)%len(mags)], sec, 1} {
					i++
					n := len(gaps) + 1
					pre := uint64(1 + i%n)
					p := params{Window: w, Trusting: tp, Block: b, BlockSet: true, Recency: int64(i % 2)}
					out = append(out, scenario{Name: fmt.Sprintf("x%d-%d", ci, i), Kind: "extreme", Gaps0: gaps[:len(gaps)-2], Adv0: []int64{0, 1, sec}[i%3], Batch: 1,
						PreTail: 1, PreHead: pre % uint64(n-2+1),
						Next: fixedSteps(step{P: p}, step{Grow: gaps[len(gaps)-2 : len(gaps)-1], P: p, ViaHead: i%2 == 0}, step{Grow: gaps[len(gaps)-1:], Advance: []int64{0, 1, 1000 * hour}[i%3], P: p})})
				}
			}
		}
	}
	// a window of ordinary size against extreme header spacing, and an extreme window against ordinary spacing
	out = append(out,
		scenario{Name: "x-window-small-gaps-huge", Kind: "extreme", Gaps0: []int64{p61, 1, 1 << 62}, Adv0: 1, Batch: 1, PreTail: 1, PreHead: 3,
			Next: fixedSteps(step{P: params{Window: 10, Trusting: math.MaxInt64, Block: 1, BlockSet: true, Recency: 1}})},
		scenario{Name: "x-window-max-gaps-small", Kind: "extreme", Gaps0: rep(sec, 40), Adv0: 1, Batch: 1, PreTail: 1, PreHead: 30,
			Next: fixedSteps(step{P: params{Window: math.MaxInt64, Trusting: math.MaxInt64, Block: math.MaxInt64, BlockSet: true, Recency: 1}})},
	)
	for k := range out {
		if out[k].PreHead == 0 {
			out[k].PreTail = 0
		}
	}
	return out
}

// gossipScenario: Start once, then 2-6 heads delivered one by one to the verifier closure.
func gossipScenario(rng *emit.Rand, idx int) scenario {
	unit := units[rng.Intn(len(units))]
	kind := chainKinds[rng.Intn(len(chainKinds))]
	gen := gapGen(rng, kind, unit)
	n0 := 2 + rng.Intn(60)
	gaps0 := make([]int64, n0-1)
	for i := range gaps0 {
		gaps0[i] = gen()
	}
	sc := scenario{Name: fmt.Sprintf("g%d-%s", idx, kind), Kind: kind, Gaps0: gaps0, Batch: 1, Adv0: []int64{0, ns, unit}[rng.Intn(3)]}
	if rng.Chance(80) {
		a, b := 1+rng.Intn(n0), 1+rng.Intn(n0)
		if a > b {
			a, b = b, a
		}
		sc.PreTail, sc.PreHead = uint64(a), uint64(b)
	}
	block := unit
	if rng.Chance(15) {
		block = 0
	}
	wk := []int64{1, 2, 3, 5, 10, 20, 50}
	p := params{Window: wk[rng.Intn(len(wk))] * unit, Trusting: 10000 * hour, Block: block, BlockSet: block != 0 || rng.Chance(50), Recency: ns}
	if unit >= sec {
		p.Trusting = 1000000 * unit
	}
	switch r := rng.Intn(100); {
	case r < 70:
	case r < 85:
		p.From = pickHeight(rng, sc.PreTail, sc.PreHead, n0)
	default:
		p.HashKind, p.HashAt = hashAt, pickHeight(rng, sc.PreTail, sc.PreHead, n0)
		if p.HashAt > uint64(n0) {
			p.HashAt = 0
		}
	}
	nsteps := 3 + rng.Intn(5)
	sc.Next = func(v view) (step, bool) {
		if v.Step >= nsteps {
			return step{}, false
		}
		if v.Step == 0 {
			return step{P: p}, true
		}
		return step{Grow: []int64{gen()}, Advance: []int64{0, ns, unit}[rng.Intn(3)], P: p, ViaGossip: true}, true
	}
	return sc
}

func TestC16Gossip(t *testing.T) {
	_ = logging.SetLogLevel("*", "fatal")
	rng := emit.NewRand(emit.NewRand(emit.Seed()).U64() ^ (emit.Seed() * 0xC2B2AE3D27D4EB4F))
	w := emit.NewWriter("Model.Tail Oracle.C16", "case16g", "chk16g")
	w.PerShard(150)
	w.Rule = "one case = one network head delivered to the verifier closure that Start registered with the Subscriber (incomingNetworkHead, then subjectiveTail, error only logged), " +
		"on the Syncer left running by a Start(); heads adjacent to the store's head only (a farther one is handed to the sync loop, which would run beside subjectiveTail); " +
		"random chains (all kinds of the main driver) x window / SyncFromHeight / SyncFromHash; outcome = the closure's result, store and requests as in the main driver"
	n := 150
	if emit.Thorough() {
		n = 1500
	}
	for i := 0; i < n; i++ {
		sc := gossipScenario(rng, i)
		for _, r := range runScenario(t, sc) {
			if !r.gossip {
				continue
			}
			w.Add(r.term, r.descr, r.class, r.nontriv)
			w.Count("outcome", r.out)
			w.Count("tail_move", r.moved)
			w.Count("chain_kind", sc.Kind)
		}
	}
	if err := w.Flush(); err != nil {
		t.Fatal(err)
	}
	t.Logf("emitted %d gossip cases", w.Len())
}
