//go:build verif

// Package c16 drives the real sync.Syncer (tail selection and pruning) over the
// real store.Store with a scripted getter in virtual time and emits, per
// Start() of a freshly configured Syncer, the inputs and the projected
// observation as a Coq [case16] term (Oracle/C16.v).
package c16

import (
	"context"
	"encoding/hex"
	"fmt"
	"sort"
	"strings"
	"sync"
	"testing"
	"testing/synctest"
	"time"

	"github.com/ipfs/go-datastore"
	dssync "github.com/ipfs/go-datastore/sync"
	logging "github.com/ipfs/go-log/v2"

	header "github.com/celestiaorg/go-header"
	"github.com/celestiaorg/go-header/store"
	hsync "github.com/celestiaorg/go-header/sync"

	"verifharness/emit"
	"verifharness/vhdr"
)

// ---------------------------------------------------------------- scripted network

// chainGetter serves a prefix [1..vis] of one generated chain.
type chainGetter struct {
	mu    sync.Mutex
	chain []*vhdr.Header // index i = height i+1
	vis   int            // heights 1..vis are visible (the network head is vis)
	req   []uint64       // heights asked through GetByHeight
}

var _ header.Getter[*vhdr.Header] = (*chainGetter)(nil)

func (g *chainGetter) Head(context.Context, ...header.HeadOption[*vhdr.Header]) (*vhdr.Header, error) {
	g.mu.Lock()
	defer g.mu.Unlock()
	if g.vis == 0 {
		return nil, header.ErrNotFound
	}
	return g.chain[g.vis-1], nil
}

func (g *chainGetter) Get(_ context.Context, hash header.Hash) (*vhdr.Header, error) {
	g.mu.Lock()
	defer g.mu.Unlock()
	for _, h := range g.chain[:g.vis] {
		if string(h.Hash()) == string(hash) {
			return h, nil
		}
	}
	return nil, header.ErrNotFound
}

func (g *chainGetter) GetByHeight(_ context.Context, height uint64) (*vhdr.Header, error) {
	g.mu.Lock()
	defer g.mu.Unlock()
	g.req = append(g.req, height)
	if height == 0 || height > uint64(g.vis) {
		return nil, header.ErrNotFound
	}
	return g.chain[height-1], nil
}

func (g *chainGetter) GetRangeByHeight(_ context.Context, from *vhdr.Header, to uint64) ([]*vhdr.Header, error) {
	g.mu.Lock()
	defer g.mu.Unlock()
	lo := from.Height() + 1
	if to > uint64(g.vis)+1 {
		to = uint64(g.vis) + 1
	}
	if lo >= to {
		return nil, header.ErrNotFound
	}
	return append([]*vhdr.Header(nil), g.chain[lo-1:to-1]...), nil
}

// fakeSub only records the verifier.
type fakeSub struct {
	verifier func(context.Context, *vhdr.Header) error
}

func (s *fakeSub) Subscribe() (header.Subscription[*vhdr.Header], error) { return nil, nil }
func (s *fakeSub) SetVerifier(f func(context.Context, *vhdr.Header) error) error {
	s.verifier = f
	return nil
}

// syncedStore makes Append synchronous (Append + Sync): the value of Height()
// seen by the tail computation is then determined by the calls made so far.
type syncedStore struct {
	*store.Store[*vhdr.Header]
}

func (s *syncedStore) Append(ctx context.Context, hs ...*vhdr.Header) error {
	if err := s.Store.Append(ctx, hs...); err != nil {
		return err
	}
	return s.Store.Sync(ctx)
}

// ---------------------------------------------------------------- parameters

type hashKind int

const (
	hashNone hashKind = iota
	hashBadHex
	hashAt
)

type params struct {
	Window   int64
	From     uint64
	HashKind hashKind
	HashAt   uint64 // height of the chain header whose hash is configured (0 or > N: a hash outside the chain)
	Trusting int64
	Block    int64
	BlockSet bool // WithBlockTime passed at all
	Recency  int64
}

func (p params) term() string {
	hs := "HNone"
	switch p.HashKind {
	case hashBadHex:
		hs = "HBadHex"
	case hashAt:
		hs = fmt.Sprintf("(HAt %d)", p.HashAt)
	}
	return fmt.Sprintf("(Params %s %d %s %s %s %s)", emit.Z(p.Window), p.From, hs, emit.Z(p.Trusting), emit.Z(p.Block), emit.Z(p.Recency))
}

func (p params) options(chain []*vhdr.Header, foreign *vhdr.Header) []hsync.Option {
	opts := []hsync.Option{hsync.WithPruningWindow(time.Duration(p.Window)), hsync.WithTrustingPeriod(time.Duration(p.Trusting))}
	if p.BlockSet {
		opts = append(opts, hsync.WithBlockTime(time.Duration(p.Block)))
	}
	if p.Recency != 0 {
		opts = append(opts, hsync.WithRecencyThreshold(time.Duration(p.Recency)))
	}
	if p.From != 0 {
		opts = append(opts, hsync.WithSyncFromHeight(p.From))
	}
	switch p.HashKind {
	case hashBadHex:
		opts = append(opts, hsync.WithSyncFromHash("zz-not-hex"))
	case hashAt:
		h := foreign
		if p.HashAt >= 1 && p.HashAt <= uint64(len(chain)) {
			h = chain[p.HashAt-1]
		}
		opts = append(opts, hsync.WithSyncFromHash(strings.ToUpper(hex.EncodeToString(h.Hash()))))
	}
	return opts
}

// ---------------------------------------------------------------- store observation

type storeObs struct {
	Tail, Head uint64
	Extra      []uint64
}

func (s storeObs) term() string {
	xs := make([]string, len(s.Extra))
	for i, e := range s.Extra {
		xs[i] = emit.N(e)
	}
	return fmt.Sprintf("(Store %d %d %s)", s.Tail, s.Head, emit.List(xs))
}

func snapshot(st *store.Store[*vhdr.Header], upto int) storeObs {
	var o storeObs
	ctx := context.Background()
	if t, err := st.Tail(ctx); err == nil {
		o.Tail = t.Height()
	}
	if h, err := st.Head(ctx); err == nil {
		o.Head = h.Height()
	}
	done, cancel := context.WithCancel(ctx)
	cancel() // a lookup above Height() must not wait
	for h := uint64(1); h <= uint64(upto); h++ {
		if got, err := st.GetByHeight(done, h); err == nil && got != nil && got.Height() == h {
			if o.Tail != 0 && h >= o.Tail && h <= o.Head {
				continue
			}
			o.Extra = append(o.Extra, h)
		} else if o.Tail != 0 && h >= o.Tail && h <= o.Head {
			// a hole inside [Tail, Head]: report it as an impossible extra 0 marker
			o.Extra = append(o.Extra, 0)
		}
	}
	sort.Slice(o.Extra, func(i, j int) bool { return o.Extra[i] < o.Extra[j] })
	return o
}

// ---------------------------------------------------------------- one scenario

// step is one Start() of a freshly configured Syncer.
type step struct {
	Grow    []int64 // time gaps of the headers that appear in the network before this step
	Advance int64   // the clock is moved to (time of the network head + Advance) if that is later than now
	P       params
	ViaHead bool // drive the recomputation through Head() of the Syncer left running by the previous step (same parameters)
	// ViaGossip: deliver the new network head to the verifier closure the running Syncer registered with the
	// Subscriber (incomingNetworkHead, then subjectiveTail whose error is only logged); only for a head adjacent to the store's head
	ViaGossip bool
}

// view is what a scenario's step generator may look at.
type view struct {
	Step       int
	Tail, Head uint64 // the store before the step (0,0 = empty)
	Vis        int    // network head height before growth
	Times      []int64 // header times of the network chain before growth
	LastOut    string
	Running    bool    // the previous step left a started Syncer behind (Start succeeded)
	LastP      params
}

type scenario struct {
	Name    string
	Kind    string
	Gaps0   []int64 // gaps of the initial chain: header 1 at t1, header i+1 at t(i)+Gaps0[i]; len = N0-1
	Adv0    int64   // the bubble starts at (time of header N0 + Adv0)
	PreTail uint64  // pre-populated store [PreTail..PreHead]; 0 = empty
	PreHead uint64
	Batch   int
	Next    func(v view) (step, bool)
	Witness string
}

func fixedSteps(steps ...step) func(view) (step, bool) {
	return func(v view) (step, bool) {
		if v.Step >= len(steps) {
			return step{}, false
		}
		return steps[v.Step], true
	}
}

type result struct {
	term    string
	descr   map[string]any
	class   string
	nontriv bool
	out     string
	moved   string
	mode    string
	via     string
	gossip  bool
}

func runScenario(t *testing.T, sc scenario) []result {
	var results []result
	synctest.Test(t, func(t *testing.T) {
		ctx, cancel := context.WithTimeout(context.Background(), 100000*time.Hour)
		defer cancel()
		start := time.Now().UnixNano()
		var span0 int64
		for _, g := range sc.Gaps0 {
			span0 += g
		}
		t1 := start - sc.Adv0 - span0
		var chain []*vhdr.Header
		var times []int64
		var prev []byte
		push := func(tm int64) {
			h := &vhdr.Header{Chain: "c16", H: uint64(len(chain) + 1), T: tm, Prev: prev}
			chain = append(chain, h)
			times = append(times, tm)
			prev = h.Hash()
		}
		push(t1)
		for _, g := range sc.Gaps0 {
			push(times[len(times)-1] + g)
		}
		foreign := &vhdr.Header{Chain: "c16", H: 7, T: t1, Nonce: 99}

		ds := dssync.MutexWrap(datastore.NewMapDatastore())
		raw, err := store.NewStore[*vhdr.Header](ds, store.WithWriteBatchSize(sc.Batch))
		if err != nil {
			t.Fatal(err)
		}
		if err := raw.Start(ctx); err != nil {
			t.Fatal(err)
		}
		st := &syncedStore{raw}
		if sc.PreTail != 0 {
			if err := st.Append(ctx, chain[sc.PreTail-1:sc.PreHead]...); err != nil {
				t.Fatal(err)
			}
		}
		g := &chainGetter{}
		lastOut := ""
		var live *hsync.Syncer[*vhdr.Header]
		var liveSub *fakeSub
		var lastP params
		stopLive := func() {
			if live != nil {
				func() {
					defer func() { _ = recover() }()
					_ = live.Stop(ctx)
				}()
				live = nil
				synctest.Wait()
			}
		}
		for si := 0; ; si++ {
			cur := snapshot(raw, len(chain))
			s, more := sc.Next(view{Step: si, Tail: cur.Tail, Head: cur.Head, Vis: len(chain), Times: times, LastOut: lastOut,
				Running: live != nil, LastP: lastP})
			if !more {
				break
			}
			if s.ViaHead && live == nil {
				s.ViaHead = false
			}
			if s.ViaGossip && (live == nil || liveSub == nil || liveSub.verifier == nil || s.ViaHead) {
				s.ViaGossip = false
			}
			if !s.ViaHead && !s.ViaGossip {
				stopLive()
			}
			for _, gap := range s.Grow {
				push(times[len(times)-1] + gap)
			}
			g.mu.Lock()
			g.chain, g.vis, g.req = chain, len(chain), nil
			g.mu.Unlock()
			target := times[len(times)-1] + s.Advance
			if d := target - time.Now().UnixNano(); d > 0 {
				time.Sleep(time.Duration(d))
			}
			synctest.Wait()
			now := time.Now().UnixNano()
			before := snapshot(raw, len(chain))
			if s.ViaHead {
				// Head() on a running Syncer is only driven where it cannot race with the sync loop: the new
				// head is adjacent to the store's head (written at once, no sync), or the local head is
				// expired (the tail is recomputed before anything is handed to the sync loop)
				expiredLocal := before.Head != 0 && now-(times[before.Head-1]+s.P.Trusting) > 0
				if !(expiredLocal || uint64(len(chain)) <= before.Head+1) {
					s.ViaHead = false
					stopLive()
				}
			}
			if s.ViaGossip && uint64(len(chain)) != before.Head+1 {
				// a head further away is handed to the sync loop, which would run beside subjectiveTail
				s.ViaGossip = false
				stopLive()
			}
			out := "OOk"
			func() {
				defer func() {
					if r := recover(); r != nil {
						out = "OPanic"
					}
				}()
				if s.ViaGossip {
					if err := liveSub.verifier(ctx, chain[len(chain)-1]); err != nil {
						out = "OErr"
					}
					return
				}
				if s.ViaHead {
					if _, err := live.Head(ctx); err != nil {
						out = "OErr"
					}
					return
				}
				var err error
				liveSub = &fakeSub{}
				live, err = hsync.NewSyncer[*vhdr.Header](g, st, liveSub, s.P.options(chain, foreign)...)
				if err != nil {
					out = "OInvalid"
					live = nil
					return
				}
				if err := live.Start(ctx); err != nil {
					out = "OErr"
				}
			}()
			synctest.Wait()
			if out != "OOk" && !s.ViaGossip {
				stopLive() // only a Syncer whose Start/Head succeeded is kept for a following Head() step
			}
			lastP = s.P
			_ = raw.Sync(ctx)
			after := snapshot(raw, len(chain))
			lastOut = out
			req := make([]string, len(g.req))
			for i, r := range g.req {
				req[i] = emit.N(r)
			}
			// the chain as (time of header 1, common divisor of the gaps, gaps in that unit): small literals
			var u int64
			for i := 1; i < len(times); i++ {
				u = gcd(u, times[i]-times[i-1])
			}
			if u == 0 {
				u = 1
			}
			gs := make([]string, 0, len(times))
			for i := 1; i < len(times); i++ {
				gs = append(gs, emit.Z((times[i]-times[i-1])/u))
			}
			if s.ViaGossip {
				s.ViaHead = false
			}
			term := fmt.Sprintf("Case16 %s (times_of %s %s %s) %s %s (Obs %s %s %s)", s.P.term(), emit.Z(times[0]), emit.Z(u), emit.List(gs),
				emit.Z(now), before.term(), out, emit.List(req), after.term())
			moved := "same"
			switch {
			case before.Tail == 0 && after.Tail != 0:
				moved = "init"
			case after.Tail > before.Tail:
				moved = "up"
			case after.Tail < before.Tail:
				moved = "down"
			}
			mode := "window"
			if s.P.HashKind != hashNone {
				mode = "hash"
			} else if s.P.From != 0 {
				mode = "height"
			}
			results = append(results, result{
				term: term,
				descr: map[string]any{"scenario": sc.Name, "kind": sc.Kind, "step": si, "via_head": s.ViaHead, "witness": sc.Witness, "params": s.P, "now": now,
					"net_head": len(chain), "times": append([]int64(nil), times...),
					"before": before, "after": after, "out": out, "getter_by_height": append([]uint64(nil), g.req...)},
				class: fmt.Sprintf("%s/%s/%s/%s/b%d/e%v/x%d/r%d/h%v", sc.Kind, mode, out, moved, sign(s.P.Block), before.Tail == 0, len(after.Extra), len(g.req), s.ViaHead),
				nontriv: out == "OOk" && moved != "same",
				out:     out, moved: mode + "-" + moved, mode: mode, via: map[bool]string{false: "Start", true: "Head"}[s.ViaHead],
				gossip: s.ViaGossip,
			})
			if s.ViaGossip {
				r := &results[len(results)-1]
				r.term = "Case16g (" + r.term + ")"
				r.via = "Gossip"
				r.class = "gossip/" + r.class
				r.descr["via_gossip"] = true
			}
		}
		stopLive()
		// a wedged step may have used up ctx: the store is stopped with a context of its own, and a failing
		// Stop is not the driver's business (the steps' own observations are what the oracle judges)
		sctx, scancel := context.WithTimeout(context.Background(), time.Hour)
		if err := raw.Stop(sctx); err != nil {
			t.Log("store stop:", err)
		}
		scancel()
	})
	return results
}

func gcd(a, b int64) int64 {
	if a < 0 {
		a = -a
	}
	if b < 0 {
		b = -b
	}
	for b != 0 {
		a, b = b, a%b
	}
	return a
}

func sign(x int64) int {
	switch {
	case x < 0:
		return -1
	case x > 0:
		return 1
	}
	return 0
}

// ---------------------------------------------------------------- generators

func rep(g int64, n int) []int64 {
	out := make([]int64, n)
	for i := range out {
		out[i] = g
	}
	return out
}

const (
	ns   = int64(1)
	sec  = int64(time.Second)
	hour = int64(time.Hour)
)

// witnesses are always generated: all repaired findings (they must pass the oracle now)
// and the boundary cases the property text names.
func witnesses() []scenario {
	big := 10000 * hour
	wp := func(w, b int64) params { return params{Window: w, Trusting: big, Block: b, BlockSet: true, Recency: ns} }
	return []scenario{
		{Name: "w-default-params-empty-store", Witness: "fixed:F8", Gaps0: rep(sec, 9), Adv0: sec, Batch: 1,
			Next: fixedSteps(step{P: params{Window: 337 * hour, Trusting: 336 * hour}})},
		{Name: "w-default-params-old-tail", Witness: "fixed:F8", Gaps0: rep(hour, 9), Adv0: sec, Batch: 1, PreTail: 1, PreHead: 5,
			Next: fixedSteps(step{P: params{Window: 2 * hour, Trusting: 336 * hour}})},
		{Name: "w-tail-above-store-head", Witness: "fixed:F9a", Gaps0: rep(10*ns, 199), Adv0: ns, Batch: 1, PreTail: 1, PreHead: 50,
			Next: fixedSteps(step{P: wp(200*ns, 10*ns)}, step{P: wp(200*ns, 10*ns)})},
		{Name: "w-expired-restart-wedge", Witness: "fixed:F9a", Gaps0: append(append(rep(sec, 49), 5000*sec), rep(sec, 149)...), Adv0: ns, Batch: 1, PreTail: 1, PreHead: 50,
			Next: fixedSteps(step{P: params{Window: 20 * sec, Trusting: 1000 * sec, Block: sec, BlockSet: true}},
				step{P: params{Window: 20 * sec, Trusting: 1000 * sec, Block: sec, BlockSet: true}},
				step{Grow: rep(sec, 5), P: params{Window: 20 * sec, Trusting: 1000 * sec, Block: sec, BlockSet: true}})},
		{Name: "w-sync-from-height-above-store-head", Witness: "fixed:F9a", Gaps0: rep(sec, 99), Adv0: ns, Batch: 1, PreTail: 1, PreHead: 50,
			Next: fixedSteps(step{P: params{Window: 337 * hour, From: 80, Trusting: big, Block: sec, BlockSet: true, Recency: ns}})},
		{Name: "w-halted-chain-wrap", Witness: "fixed:F9b", Gaps0: append(rep(sec, 29), 1000*sec), Adv0: ns, Batch: 1, PreTail: 1, PreHead: 30,
			Next: fixedSteps(step{P: wp(70*sec, sec)}, step{Grow: rep(sec, 1), P: wp(70*sec, sec)}, step{Grow: rep(sec, 1), P: wp(70*sec, sec)})},
		{Name: "w-halted-chain-zero", Witness: "fixed:F9b", Gaps0: append(rep(sec, 29), 1000*sec), Adv0: ns, Batch: 1, PreTail: 1, PreHead: 30,
			Next: fixedSteps(step{P: wp(31*sec, sec)})},
		{Name: "w-fast-blocks", Witness: "fixed:F9c", Gaps0: rep(5*ns, 60), Adv0: ns, Batch: 1, PreTail: 1, PreHead: 60,
			Next: fixedSteps(step{P: wp(100*ns, 10*ns)})},
		{Name: "w-fast-blocks-estimate-above-store-head", Witness: "fixed:F9c", Gaps0: rep(5*ns, 60), Adv0: ns, Batch: 1, PreTail: 1, PreHead: 50,
			Next: fixedSteps(step{P: wp(100*ns, 10*ns)})},
		{Name: "w-lagging-store-fast-blocks", Witness: "fixed:F9a", Gaps0: []int64{2, 3, 2, 3, 2, 3, 3, 2, 2, 3, 2, 3, 2, 3, 2, 3, 2, 2, 2, 5, 2, 5, 2, 2, 5, 2, 3, 2}, Adv0: ns, Batch: 1, PreTail: 15, PreHead: 23,
			Next: fixedSteps(step{P: wp(19*ns, 10*ns)}, step{Grow: []int64{2}, P: wp(19*ns, 10*ns)})},
		{Name: "w-exact-blocks-far", Gaps0: rep(10*ns, 60), Adv0: ns, Batch: 1, PreTail: 1, PreHead: 60,
			Next: fixedSteps(step{P: wp(100*ns, 10*ns)})},
		{Name: "w-exact-blocks-close", Gaps0: rep(10*ns, 60), Adv0: ns, Batch: 1, PreTail: 45, PreHead: 60,
			Next: fixedSteps(step{P: wp(100*ns, 10*ns)})},
		{Name: "w-close-overshoot", Witness: "fixed:F9d", Gaps0: []int64{10 * ns, 140 * ns}, Adv0: ns, Batch: 1, PreTail: 1, PreHead: 2,
			Next: fixedSteps(step{P: wp(100*ns, ns)})},
		{Name: "w-down-from-single-header", Witness: "fixed:F9f", Gaps0: rep(sec, 69), Adv0: ns, Batch: 1, PreTail: 62, PreHead: 62,
			Next: fixedSteps(step{P: params{Window: 337 * hour, HashKind: hashAt, HashAt: 61, Trusting: big, Block: sec, BlockSet: true, Recency: ns}},
				step{P: params{Window: 337 * hour, HashKind: hashAt, HashAt: 61, Trusting: big, Block: sec, BlockSet: true, Recency: ns}})},
		{Name: "w-down-65-from-single-header", Witness: "fixed:F9f", Gaps0: rep(sec, 99), Adv0: ns, Batch: 1, PreTail: 90, PreHead: 90,
			Next: fixedSteps(step{P: params{Window: 337 * hour, From: 25, Trusting: big, Block: sec, BlockSet: true, Recency: ns}})},
		{Name: "w-down-64-from-single-header", Gaps0: rep(sec, 99), Adv0: ns, Batch: 1, PreTail: 90, PreHead: 90,
			Next: fixedSteps(step{P: params{Window: 337 * hour, From: 26, Trusting: big, Block: sec, BlockSet: true, Recency: ns}})},
		{Name: "w-negative-window", Witness: "fixed:F9e", Gaps0: rep(sec, 20), Adv0: ns, Batch: 1, PreTail: 1, PreHead: 20,
			Next: fixedSteps(step{P: wp(-5*sec, sec)})},
		{Name: "w-negative-blocktime", Witness: "fixed:F9e", Gaps0: rep(sec, 20), Adv0: ns, Batch: 1, PreTail: 1, PreHead: 20,
			Next: fixedSteps(step{P: wp(5*sec, -sec)})},
	}
}

var units = []int64{ns, 10 * ns, 1000 * ns, sec, hour}

// gapGen returns the generator of header time gaps of one chain kind.
func gapGen(rng *emit.Rand, kind string, unit int64) func() int64 {
	haltAt := 1 + rng.Intn(60)
	haltLen := []int64{20, 100, 1000, 5000}[rng.Intn(4)] * unit
	i := 0
	return func() int64 {
		i++
		switch kind {
		case "exact":
			return unit
		case "fast":
			return unit / int64(2+rng.Intn(4)) // 0 for unit = 1ns
		case "slow":
			return unit * int64(2+rng.Intn(2))
		case "halted":
			if i == haltAt {
				return haltLen
			}
			return unit
		case "jitter": // within the configured block time
			return int64(rng.U64() % uint64(unit+1))
		case "irregular": // beyond it
			if rng.Chance(15) {
				return unit * int64(3+rng.Intn(40))
			}
			return int64(rng.U64() % uint64(2*unit+1))
		case "same":
			return 0
		case "unordered": // header times going backwards now and then
			return int64(rng.U64()%uint64(2*unit+1)) - unit/2 - unit/4
		}
		return unit
	}
}

var chainKinds = []string{"exact", "exact", "fast", "fast", "slow", "halted", "halted", "jitter", "jitter", "irregular", "irregular", "same", "unordered"}

// pickHeight picks a height in a meaningful position relative to the store [tail..head] and the network head n.
func pickHeight(rng *emit.Rand, tail, head uint64, n int) uint64 {
	N := uint64(n)
	cands := []uint64{1, N, N + 1, N + 1 + uint64(rng.Intn(20)), 1 + rng.U64()%N}
	if tail != 0 {
		cands = append(cands, tail, head, head+1, head+2, head+2+uint64(rng.Intn(10)), tail+uint64(rng.Intn(int(head-tail)+1)))
		if tail > 1 {
			cands = append(cands, tail-1, 1+rng.U64()%(tail-1))
		}
	}
	return cands[rng.Intn(len(cands))]
}

func randomScenario(rng *emit.Rand, idx int) scenario {
	unit := units[rng.Intn(len(units))]
	kind := chainKinds[rng.Intn(len(chainKinds))]
	gen := gapGen(rng, kind, unit)
	n0 := 1 + rng.Intn(70)
	gaps0 := make([]int64, n0-1)
	for i := range gaps0 {
		gaps0[i] = gen()
	}
	sc := scenario{Name: fmt.Sprintf("r%d-%s", idx, kind), Kind: kind, Gaps0: gaps0, Batch: []int{1, 1, 4, 64}[rng.Intn(4)]}
	if rng.Chance(65) {
		a := 1 + rng.Intn(n0)
		b := 1 + rng.Intn(n0)
		if a > b {
			a, b = b, a
		}
		sc.PreTail, sc.PreHead = uint64(a), uint64(b)
	}
	// scenario-wide parameter basis
	block := unit
	blockSet := true
	switch r := rng.Intn(20); {
	case r < 3:
		block, blockSet = 0, false
	case r == 3:
		block = 0 // WithBlockTime(0)
	case r == 4:
		block = -unit
	case r == 5:
		block = 2 * unit
	case r == 6 && unit > 1:
		block = unit / 2
	}
	wk := []int64{1, 2, 3, 5, 10, 20, 50, 100, 1000}
	window := wk[rng.Intn(len(wk))] * unit
	trusting := 10000 * unit
	if unit < sec {
		trusting = 10000 * hour
	}
	if rng.Chance(30) {
		trusting = []int64{5, 30, 100}[rng.Intn(3)] * unit
	}
	recency := int64(0)
	if rng.Chance(60) {
		recency = ns
	}
	advs := []int64{0, ns, unit, 4 * unit, 4 * unit, trusting + unit}
	sc.Adv0 = advs[rng.Intn(5)]
	nsteps := 1 + rng.Intn(4)
	sc.Next = func(v view) (step, bool) {
		if v.Step >= nsteps {
			return step{}, false
		}
		var s step
		grow := []int{0, 1, 1, 2, 3, 5, 10, 30, 64, 70}[rng.Intn(10)]
		if v.Step == 0 {
			grow = 0
		}
		if v.Running && rng.Chance(45) {
			// Head() on the running Syncer: one new (adjacent) header, or any growth once the local head is expired
			s.ViaHead = true
			expire := rng.Chance(25)
			if !expire {
				grow = 1
			}
			for i := 0; i < grow; i++ {
				s.Grow = append(s.Grow, gen())
			}
			s.Advance = advs[rng.Intn(len(advs)-1)]
			if expire {
				s.Advance = trusting + unit
			}
			s.P = v.LastP
			return s, true
		}
		for i := 0; i < grow; i++ {
			s.Grow = append(s.Grow, gen())
		}
		if v.Step > 0 {
			s.Advance = advs[rng.Intn(len(advs))]
		}
		p := params{Window: window, Trusting: trusting, Block: block, BlockSet: blockSet, Recency: recency}
		if rng.Chance(25) {
			p.Window = wk[rng.Intn(len(wk))]*unit + int64(rng.Intn(3)-1)
		}
		if rng.Chance(4) {
			p.Window = -p.Window
		}
		n := v.Vis + grow
		if v.Tail != 0 && rng.Chance(35) {
			// aim the window at a boundary of findTailHeight: tailTimeDiff in {-1,0,1}, {window-1,window,window+1},
			// or the expected tail time exactly at / next to the time of a stored header
			tH := v.Times[len(v.Times)-1]
			for _, gp := range s.Grow {
				tH += gp
			}
			span := tH - v.Times[v.Tail-1]
			hh := v.Tail + uint64(rng.Intn(int(v.Head-v.Tail)+1))
			cands := []int64{span - 1, span, span + 1, span / 2, span/2 - 1, span/2 + 1, (span + 1) / 2,
				tH - v.Times[hh-1], tH - v.Times[hh-1] - 1, tH - v.Times[hh-1] + 1}
			p.Window = cands[rng.Intn(len(cands))]
		}
		switch r := rng.Intn(100); {
		case r < 55: // window mode
		case r < 80:
			p.From = pickHeight(rng, v.Tail, v.Head, n)
		case r < 97:
			p.HashKind, p.HashAt = hashAt, pickHeight(rng, v.Tail, v.Head, n)
			if p.HashAt > uint64(n) {
				p.HashAt = 0 // a hash of no header of the chain, also after the chain has grown
			}
			if rng.Chance(30) {
				p.From = pickHeight(rng, v.Tail, v.Head, n)
			}
		default:
			p.HashKind = hashBadHex
		}
		switch r := rng.Intn(100); {
		case r < 3:
			p.Trusting = 0
		case r < 5:
			p.Window = 0
		case r < 6:
			p.Trusting = -p.Trusting
		case r < 7:
			p.Recency = -1
		}
		s.P = p
		return s, true
	}
	return sc
}

// estimateScenarios: empty store, network head around trustingPeriod/blockTime (the young-chain test of estimateTailHeight).
func estimateScenarios() []scenario {
	var out []scenario
	for _, unit := range []int64{ns, sec} {
		for _, k := range []int{1, 2, 5, 30} {
			for _, extra := range []int64{0, unit - 1, unit / 2} {
				for dn := -1; dn <= 2; dn++ {
					n := k + dn
					if n < 1 {
						continue
					}
					tp := int64(k)*unit + extra
					out = append(out, scenario{Name: fmt.Sprintf("e-%d-%d-%d-%d", unit, k, extra, n), Kind: "estimate", Gaps0: rep(unit/2, n-1), Adv0: 0, Batch: 1,
						Next: fixedSteps(step{P: params{Window: 5 * unit, Trusting: tp, Block: unit, BlockSet: true}})})
				}
			}
		}
	}
	return out
}

// sweepScenarios enumerates a small scope completely: chains of n headers with every
// gap pattern over a small alphabet, every store [t..h] below the network head, a range of windows.
func sweepScenarios(n int, gapsAlpha []int64, windows []int64, block int64) []scenario {
	var out []scenario
	var rec func(prefix []int64)
	rec = func(prefix []int64) {
		if len(prefix) == n-1 {
			gaps := append([]int64(nil), prefix...)
			for tl := 1; tl < n; tl++ {
				for hd := tl; hd < n; hd++ {
					for _, w := range windows {
						out = append(out, scenario{Name: fmt.Sprintf("s%d-%v-%d-%d-%d", n, gaps, tl, hd, w), Kind: "sweep", Gaps0: gaps, Adv0: ns, Batch: 1,
							PreTail: uint64(tl), PreHead: uint64(hd),
							Next: fixedSteps(step{P: params{Window: w, Trusting: 10000 * hour, Block: block, BlockSet: true, Recency: ns}})})
					}
				}
			}
			return
		}
		for _, g := range gapsAlpha {
			rec(append(prefix, g))
		}
	}
	rec(nil)
	return out
}

func TestC16(t *testing.T) {
	_ = logging.SetLogLevel("*", "fatal")
	// consecutive seeds of emit.NewRand give streams shifted by one draw: spread them first
	rng := emit.NewRand(emit.NewRand(emit.Seed()).U64() ^ (emit.Seed() * 0xD6E8FEB86659FD93))
	w := emit.NewWriter("Model.Tail Oracle.C16", "case16", "chk16")
	w.PerShard(150)
	w.Rule = "one case = one recomputation of the tail through the public API: Start() of a freshly configured Syncer (restart / reconfiguration), or " +
		"Head() of the Syncer left running by the previous step where that cannot race with the sync loop (new head adjacent to the store head, or local head expired); " +
		"real sync.Syncer over the real store.Store (in-memory datastore, Append made synchronous) and a scripted getter serving a generated chain, in synctest virtual time; " +
		"scenarios chain 1-4 such steps on one store while the network chain grows and the clock advances; generators: 18 witness scenarios (always: repaired findings F8/F9a/F9b/F9c/F9d/F9e/F9f, boundary cases), random scenarios over " +
		"{exact, fast, slow, halted, jitter, irregular, same-time, unordered} chains x units 1ns..1h x blockTime {unset, 0, unit, 2*unit, unit/2, negative} x window multiples and " +
		"boundary-aimed windows (tailTimeDiff in {-1,0,1}, {window-1,window,window+1}, expected tail time at a stored header's time +-1) x trusting period (large / small: expiry) x " +
		"SyncFromHeight / SyncFromHash at positions around tail, head, head+1, network head and beyond x invalid parameter sets; the young-chain boundary of estimateTailHeight; " +
		"a complete small-scope sweep of findTailHeight; a class is (chain kind, tail mode, outcome, direction the tail moved, sign of blockTime, empty store, orphans left, " +
		"network lookups, driven through Start or Head); non-trivial = the call succeeded and the tail moved"
	var scs []scenario
	scs = append(scs, witnesses()...)
	nrand := 400
	if emit.Thorough() {
		nrand = 4000
	}
	for i := 0; i < nrand; i++ {
		scs = append(scs, randomScenario(rng, i))
	}
	scs = append(scs, estimateScenarios()...)
	// small-scope sweep (block time 2ns; gaps 0..5ns; windows 1..9ns)
	if emit.Thorough() {
		scs = append(scs, sweepScenarios(5, []int64{0, 1, 2, 5}, []int64{1, 2, 4, 5, 7}, 2)...)
		w.Extra["sweep"] = "complete: chains of 5 headers, gaps in {0,1,2,5}ns, every store [t..h] with h < 5, windows {1,2,4,5,7}ns, blockTime 2ns"
	} else {
		scs = append(scs, sweepScenarios(4, []int64{0, 2, 5}, []int64{1, 2, 4, 7}, 2)...)
		w.Extra["sweep"] = "complete: chains of 4 headers, gaps in {0,2,5}ns, every store [t..h] with h < 4, windows {1,2,4,7}ns, blockTime 2ns"
	}
	scs = append(scs, extremeScenarios()...)
	for _, sc := range scs {
		if sc.Kind == "" {
			sc.Kind = "witness"
		}
		for _, r := range runScenario(t, sc) {
			if r.gossip {
				continue // emitted by TestC16Gossip
			}
			w.Add(r.term, r.descr, r.class, r.nontriv)
			w.Count("outcome", r.out)
			w.Count("tail_move", r.moved)
			w.Count("chain_kind", sc.Kind)
			w.Count("outcome_by_mode", r.mode+"/"+r.out)
			w.Count("driven_through", r.via)
		}
	}
	if err := w.Flush(); err != nil {
		t.Fatal(err)
	}
	t.Logf("emitted %d cases", w.Len())
}
