//go:build verif

package c02

import (
	"fmt"
	"testing"
	"testing/synctest"
	"time"

	header "github.com/celestiaorg/go-header"

	"verifharness/emit"
	"verifharness/hv"
	"verifharness/vhdr"
)

// TestC02L: VerifyRange under the header type's hash-link policy (vhdr.LinkPolicy, Gallina twin
// vlink_tv): the type-level check depends on the trusted header it is handed, so the ROLLING
// trusted header is observed.
func TestC02L(t *testing.T) {
	rng := emit.NewRand(emit.Seed())
	w := emit.NewWriter("Model.Verify Oracle.C01", "case02l", "chk02l")
	w.Rule = "hash-linked ranges of length 0..L under vhdr.LinkPolicy(trust in {0,3,60}), first element adjacent or not, one defect " +
		"(none, gap, gap with preserved parent, dup, reorder, nil, wrong chain, past, future, bad parent link with the rest re-linked, time between trusted and predecessor) " +
		"at every position, long ranges, random double defects; distinct by (length, position, defect, firstGap, trust)"
	maxLen, extra := 6, 150
	if emit.Thorough() {
		maxLen, extra = 9, 3000
		w.Exhaustive = true
	}
	ldefects := []string{"none", "gap", "gaplinked", "dup", "reorder", "nil", "wrongchain", "past", "future", "badlink", "past_vs_prev"}
	reg := vhdr.NewRegistry()
	synctest.Test(t, func(t *testing.T) {
		drift := header.VerifClockDrift()
		one := func(trust uint64, tr *vhdr.Header, els []elem, class string, nontriv bool) {
			now := time.Now()
			in := make([]*vhdr.Header, len(els))
			ins := make([]string, len(els))
			for i, e := range els {
				in[i] = e.h
				ins[i] = reg.Term(e.h)
			}
			vhdr.SetPolicy(vhdr.LinkPolicy(trust))
			var res []*vhdr.Header
			var err error
			panicked := false
			func() {
				defer func() {
					if r := recover(); r != nil {
						err = fmt.Errorf("PANIC %v", r)
						panicked = true
					}
				}()
				res, err = header.VerifyRange(tr, in)
			}()
			ids := make([]string, len(res))
			for i, h := range res {
				if h == nil {
					ids[i] = "0"
				} else {
					ids[i] = emit.N(reg.ID(h.Hash()))
				}
			}
			obs := hv.Observe(err)
			if panicked {
				obs = "OOther"
			}
			term := fmt.Sprintf("Case02l %s %s %d %s %s %s %s", emit.Z(now.UnixNano()), emit.Z(int64(drift)), trust, reg.Term(tr),
				emit.List(ins), emit.List(ids), obs)
			w.Add(term, map[string]any{"class": class, "returned": len(res), "err": obs, "len": len(els), "trust": trust}, class, nontriv)
			w.Count("error", obs)
			w.Count("returned_len", fmt.Sprint(len(res)))
		}
		now := time.Now()
		trusts := []uint64{0, 3, 60}
		k := 0
		for n := 0; n <= maxLen; n++ {
			for _, fg := range []bool{false, true} {
				for _, d := range ldefects {
					for pos := 0; pos < n || pos == 0; pos++ {
						tr, els := build(rng, now, n, pos, d, fg)
						trust := trusts[k%3]
						k++
						one(trust, tr, els, fmt.Sprintf("n%d/p%d/%s/fg%v/t%d", n, pos, d, fg, trust), n >= 2)
						w.Count("defect", d)
						if d == "none" {
							break
						}
					}
				}
			}
		}
		for _, n := range []int{int(header.MaxRangeRequestSize) - 1, int(header.MaxRangeRequestSize) + 1, 2*int(header.MaxRangeRequestSize) + 3} {
			tr, els := build(rng, now, n, 0, "none", rng.Bool())
			one(0, tr, els, fmt.Sprintf("long/n%d/none", n), true)
			for _, pos := range []int{1, int(header.MaxRangeRequestSize), n - 1} {
				if pos < 0 || pos >= n {
					continue
				}
				d := []string{"badlink", "past_vs_prev", "gaplinked", "dup"}[rng.Intn(4)]
				tr, els := build(rng, now, n, pos, d, rng.Bool())
				one(trusts[rng.Intn(3)], tr, els, fmt.Sprintf("long/n%d/p%d/%s", n, pos, d), true)
			}
		}
		_, els := build(rng, now, 3, 0, "none", false)
		one(0, nil, els, "niltrusted", false)
		for i := 0; i < extra; i++ {
			n := 2 + rng.Intn(maxLen+3)
			p1, p2 := rng.Intn(n), rng.Intn(n)
			d1, d2 := ldefects[rng.Intn(len(ldefects))], ldefects[rng.Intn(len(ldefects))]
			tr, els := build(rng, now, n, p1, d1, rng.Bool())
			if p2 < len(els) && els[p2].h != nil {
				switch d2 {
				case "nil":
					els[p2].h = nil
				case "wrongchain":
					els[p2].h.Chain = "b"
				case "gap":
					els[p2].h.H += 7
				case "badlink":
					els[p2].h.Prev = tr.Hash()
					relink(els, p2+1)
				case "past_vs_prev":
					els[p2].h.T = tr.T
					relink(els, p2+1)
				}
			}
			one(trusts[rng.Intn(3)], tr, els, fmt.Sprintf("rand/n%d/%d%s/%d%s", n, p1, d1, p2, d2), true)
		}
	})
	vhdr.SetPolicy(nil)
	if err := w.Flush(); err != nil {
		t.Fatal(err)
	}
	t.Logf("emitted %d cases", w.Len())
}
