//go:build verif

package c02

import (
	"fmt"
	"testing"
	"testing/synctest"
	"time"

	header "github.com/celestiaorg/go-header"

	"verifharness/hv"
	"verifharness/emit"
	"verifharness/vhdr"
)

// defect kinds injected at a position of an otherwise valid adjacent range
var defects = []string{"none", "typeerr", "gap", "gaplinked", "tvpanic", "dup", "reorder", "nil", "wrongchain", "past", "future", "softerr"}

type elem struct {
	h  *vhdr.Header
	tv int // index into TVs
}

func build(rng *emit.Rand, now time.Time, n int, pos int, defect string, firstGap bool) (*vhdr.Header, []elem) {
	base := 10 + rng.U64()%1000
	t0 := now.UnixNano() - int64(1000+n)
	tr := &vhdr.Header{Chain: "a", H: base, T: t0}
	start := base + 1
	if firstGap {
		start = base + 2 + rng.U64()%50
	}
	var out []elem
	prev := tr.Hash()
	for i := 0; i < n; i++ {
		h := &vhdr.Header{Chain: "a", H: start + uint64(i), T: t0 + int64(i) + 1, Nonce: uint64(i + 1), Prev: prev}
		out = append(out, elem{h: h})
		prev = h.Hash()
	}
	if pos < n {
		e := &out[pos]
		switch defect {
		case "tvpanic":
			e.tv = 6
		case "typeerr":
			e.tv = 1 + rng.Intn(2) // plain or hard verr
		case "softerr":
			e.tv = 3 + 2*rng.Intn(2)
		case "gap", "gaplinked":
			for j := pos; j < n; j++ {
				out[j].h.H += 1 + rng.U64()%3
			}
			if defect == "gaplinked" {
				// the header after the hole names the header before the hole as its parent
				p := tr.Hash()
				for j := 0; j < n; j++ {
					if j >= pos {
						out[j].h.Prev = p
					}
					p = out[j].h.Hash()
				}
			}
		case "dup":
			if pos > 0 {
				c := *out[pos-1].h
				e.h = &c
			}
		case "reorder":
			if pos+1 < n {
				out[pos], out[pos+1] = out[pos+1], out[pos]
			}
		case "nil":
			e.h = nil
		case "wrongchain":
			e.h.Chain = "b"
		case "past":
			e.h.T = t0 - 5
		case "future":
			e.h.T = now.Add(header.VerifClockDrift()).UnixNano() + 1
		case "badlink":
			// right height, right time, but another parent: only the type-level check against the
			// PREDECESSOR (the rolling trusted header) can see it; the rest of the range is linked to it
			e.h.Prev = (&vhdr.Header{Chain: "a", H: e.h.H - 1, T: t0, Nonce: 777 + rng.U64()%1000}).Hash()
			relink(out, pos+1)
		case "past_vs_prev":
			// not before the original trusted header, but before its predecessor
			if pos > 0 {
				e.h.T = t0 + int64(rng.Intn(pos))
				relink(out, pos+1)
			}
		}
	}
	return tr, out
}

// relink re-points the parent hashes of out[from:] at their (changed) predecessors
func relink(out []elem, from int) {
	for j := from; j < len(out); j++ {
		if j > 0 && out[j].h != nil && out[j-1].h != nil {
			out[j].h.Prev = out[j-1].h.Hash()
		}
	}
}

func TestC02(t *testing.T) {
	rng := emit.NewRand(emit.Seed())
	w := emit.NewWriter("Model.Verify Oracle.C01", "case02", "chk02")
	w.Rule = "ranges of length 0..L built as a valid adjacent run (first element adjacent or not to trusted) with one defect kind " +
		"(none, type error hard/soft, gap, duplicate, reorder, nil, wrong chain, past, future) injected at every position, plus random double defects; " +
		"distinct by (length, position, defect, firstGap); non-trivial when length >= 2"
	maxLen := 6
	extra := 150
	if emit.Thorough() {
		maxLen = 9
		extra = 3000
		w.Exhaustive = true
	}
	reg := vhdr.NewRegistry()
	tvs := append(hv.TVs(), hv.TV{Term: "(TVPlain 99)", F: func() error { panic("scripted panic in the header type's Verify") }})
	synctest.Test(t, func(t *testing.T) {
		drift := header.VerifClockDrift()
		one := func(tr *vhdr.Header, els []elem, class string, nontriv bool) {
			now := time.Now()
			in := make([]*vhdr.Header, len(els))
			script := map[*vhdr.Header]int{}
			byHash := map[string]int{}
			for i, e := range els {
				in[i] = e.h
				if e.h != nil {
					script[e.h] = e.tv
					if _, ok := byHash[string(e.h.Hash())]; !ok {
						byHash[string(e.h.Hash())] = e.tv
					}
				}
			}
			// type-level result is scripted per untrusted header (by hash, as the model's tv_of does)
			vhdr.SetPolicy(func(_, u *vhdr.Header) error { return tvs[byHash[string(u.Hash())]].F() })
			var res []*vhdr.Header
			var err error
			panicked := false
			func() {
				defer func() {
					if r := recover(); r != nil {
						err = fmt.Errorf("PANIC %v", r)
						panicked = true
					}
				}()
				res, err = header.VerifyRange(tr, in)
			}()
			ids := make([]string, len(res))
			for i, h := range res {
				if h == nil {
					ids[i] = "0"
				} else {
					ids[i] = emit.N(reg.ID(h.Hash()))
				}
			}
			ins := make([]string, len(els))
			for i, e := range els {
				tv := 0
				if e.h != nil {
					tv = byHash[string(e.h.Hash())]
				}
				ins[i] = emit.Pair(reg.Term(e.h), tvs[tv].Term)
			}
			obs := hv.Observe(err)
			if panicked {
				// a panic of the type-level Verify propagates to the caller: nothing was accepted, and the
				// model has no panic outcome - the case is only emitted when the panic was swallowed
				w.Count("type_level_panic", "propagated")
				return
			}
			term := fmt.Sprintf("Case02 %s %s %s %s %s %s", emit.Z(now.UnixNano()), emit.Z(int64(drift)), reg.Term(tr),
				emit.List(ins), emit.List(ids), obs)
			w.Add(term, map[string]any{"class": class, "returned": len(res), "err": obs, "len": len(els)}, class, nontriv)
			w.Count("error", obs)
			w.Count("returned_len", fmt.Sprint(len(res)))
		}
		now := time.Now()
		for n := 0; n <= maxLen; n++ {
			for _, fg := range []bool{false, true} {
				for _, d := range defects {
					for pos := 0; pos < n || pos == 0; pos++ {
						tr, els := build(rng, now, n, pos, d, fg)
						one(tr, els, fmt.Sprintf("n%d/p%d/%s/fg%v", n, pos, d, fg), n >= 2)
						if d == "none" {
							break
						}
					}
				}
			}
		}
		// long ranges: lengths around the library's request-size constant and beyond (nothing in VerifyRange
		// may depend on them), clean and with one defect just before / at / after those indices and at the end
		for _, n := range []int{int(header.MaxRangeRequestSize) - 1, int(header.MaxRangeRequestSize), int(header.MaxRangeRequestSize) + 1, 2*int(header.MaxRangeRequestSize) + 3} {
			tr, els := build(rng, now, n, 0, "none", rng.Bool())
			one(tr, els, fmt.Sprintf("long/n%d/none", n), true)
			for _, pos := range []int{int(header.MaxRangeRequestSize) - 1, int(header.MaxRangeRequestSize), int(header.MaxRangeRequestSize) + 1, n - 1} {
				if pos < 0 || pos >= n {
					continue
				}
				d := []string{"typeerr", "gap", "gaplinked", "dup", "wrongchain", "future", "nil", "softerr"}[rng.Intn(8)]
				tr, els := build(rng, now, n, pos, d, rng.Bool())
				one(tr, els, fmt.Sprintf("long/n%d/p%d/%s", n, pos, d), true)
			}
		}
		// nil trusted header
		_, els := build(rng, now, 3, 0, "none", false)
		one(nil, els, "niltrusted", false)
		// random double defects
		for i := 0; i < extra; i++ {
			n := 2 + rng.Intn(maxLen+3)
			p1, p2 := rng.Intn(n), rng.Intn(n)
			d1, d2 := defects[rng.Intn(len(defects))], defects[rng.Intn(len(defects))]
			tr, els := build(rng, now, n, p1, d1, rng.Bool())
			if p2 < len(els) && els[p2].h != nil {
				switch d2 {
				case "typeerr":
					els[p2].tv = 1 + rng.Intn(5)
				case "nil":
					els[p2].h = nil
				case "wrongchain":
					els[p2].h.Chain = "b"
				case "gap":
					els[p2].h.H += 7
				}
			}
			one(tr, els, fmt.Sprintf("rand/n%d/%d%s/%d%s", n, p1, d1, p2, d2), true)
		}
	})
	vhdr.SetPolicy(nil)
	if err := w.Flush(); err != nil {
		t.Fatal(err)
	}
	t.Logf("emitted %d cases", w.Len())
}
