//go:build verif

// Package c12: correspondence driver for C12 (GetByHeight waits and wakes).
// The real store.Store runs inside testing/synctest bubbles over a datastore
// wrapper whose Get of a height-index key can be held at a gate: this parks a
// reader between its first lookup and heightSub.Wait, and the flush goroutine
// between Notify and advanceHead's SetHeight, without any source hook.
// Every macro operation of a scenario is followed by synctest.Wait(), so the
// observation "still blocked" is exact; the scenario is expanded into the
// model's fine-grained schedule (Rd/RdCtx/Cancel/Wr/Enq events).
package c12

import (
	"context"
	"errors"
	"fmt"
	"os"
	"runtime"
	"strconv"
	"strings"
	"sync"
	"sync/atomic"
	"testing"
	"testing/synctest"
	"time"

	header "github.com/celestiaorg/go-header"
	"github.com/celestiaorg/go-header/store"
	"github.com/ipfs/go-datastore"
	dssync "github.com/ipfs/go-datastore/sync"

	"verifharness/emit"
	"verifharness/vhdr"
)

type ridKey struct{}

// gateDS holds Get calls for height-index keys at one-shot gates.
type gateDS struct {
	datastore.Batching
	mu    sync.Mutex
	rgate map[int]map[int]chan struct{} // reader id -> number of its index Get (1, 2) -> armed gate
	rgets map[int]int                   // reader id -> index Gets so far
	at    map[int]int                   // reader id -> the gate it is held at (0 = none)
	wgate chan struct{}                 // armed gate for the flush goroutine's next index Get
}

func newGateDS() *gateDS {
	return &gateDS{Batching: dssync.MutexWrap(datastore.NewMapDatastore()),
		rgate: map[int]map[int]chan struct{}{}, rgets: map[int]int{}, at: map[int]int{}}
}

func (g *gateDS) arm(rid, k int) chan struct{} {
	ch := make(chan struct{})
	g.mu.Lock()
	if g.rgate[rid] == nil {
		g.rgate[rid] = map[int]chan struct{}{}
	}
	g.rgate[rid][k] = ch
	g.mu.Unlock()
	return ch
}

func (g *gateDS) heldAt(rid int) int {
	g.mu.Lock()
	defer g.mu.Unlock()
	return g.at[rid]
}

func isHeightKey(k datastore.Key) bool {
	n := k.BaseNamespace()
	if len(n) == 0 || len(n) > 20 {
		return false
	}
	for _, c := range n {
		if c < '0' || c > '9' {
			return false
		}
	}
	return true
}

// Get: a reader held at a gate has ALREADY done the underlying read and will return that (by then
// possibly stale) answer when released: a slow datastore read. So a held lookup is linearised at
// its arrival, whatever is committed meanwhile (any WriteBatchSize, Sync). The flush goroutine is
// held before its read.
func (g *gateDS) Get(ctx context.Context, k datastore.Key) ([]byte, error) {
	if !isHeightKey(k) {
		return g.Batching.Get(ctx, k)
	}
	rid, isReader := ctx.Value(ridKey{}).(int)
	if isReader && rid < 0 {
		return g.Batching.Get(ctx, k) // the cancel probe: never held
	}
	if isReader {
		val, err := g.Batching.Get(ctx, k)
		var ch chan struct{}
		g.mu.Lock()
		g.rgets[rid]++
		n := g.rgets[rid]
		if ch = g.rgate[rid][n]; ch != nil {
			delete(g.rgate[rid], n)
			g.at[rid] = n
		}
		g.mu.Unlock()
		if ch != nil {
			<-ch
			g.mu.Lock()
			g.at[rid] = 0
			g.mu.Unlock()
		}
		return val, err
	}
	var ch chan struct{}
	g.mu.Lock()
	if g.wgate != nil {
		ch = g.wgate
		g.wgate = nil
	}
	g.mu.Unlock()
	if ch != nil {
		<-ch
	}
	return g.Batching.Get(ctx, k)
}

// macro operations of a scenario
const (
	SG   = "SG"   // start reader I with its first index read held at a gate (G2: also its second one)
	SU   = "SU"   // start reader I, first index read not held (G2: its second one is: the re-lookup after registering)
	REL  = "REL"  // release the gate reader I is held at
	B    = "B"    // Append(Hs), flush runs to completion
	BG   = "BG"   // Append(Hs), flush held in advanceHead's first index read (after Notify)
	WREL = "WREL" // release the flush goroutine
	CAN  = "CAN"  // cancel reader I's context
	SYNC = "SYNC" // Store.Sync: the pending batch is written to the datastore and reset
)

type op struct {
	K  string   `json:"k"`
	I  int      `json:"i,omitempty"`
	G2 bool     `json:"g2,omitempty"`
	Hs []uint64 `json:"hs,omitempty"`
}

type scen struct {
	Name  string   `json:"name"`
	Ns    []uint64 `json:"ns"`
	Ops   []op     `json:"ops"`
	Batch int      `json:"batch"` // WriteBatchSize
	Pre   []uint64 `json:"pre,omitempty"` // heights stored by an earlier Store on the same datastore (Append, Stop): the Store under test loads them in Start
}

type result struct {
	term    string
	descr   map[string]any
	blocked int
	probeOK bool
	kinds   []string
	late    bool
}

const universe = 24

type world struct {
	hs  []*vhdr.Header // hs[h] = the header of height h (1..universe)
	reg *vhdr.Registry
}

func newWorld() *world {
	w := &world{reg: vhdr.NewRegistry()}
	ch := vhdr.Chain("c12", 1, universe, 1_000_000, 10, nil)
	w.hs = append([]*vhdr.Header{nil}, ch...)
	for _, h := range ch {
		w.reg.ID(h.Hash())
	}
	return w
}

func (w *world) hid(h uint64) string {
	return emit.Pair(emit.N(h), emit.N(w.reg.ID(w.hs[h].Hash())))
}

func kindOf(o string) string {
	switch {
	case strings.HasPrefix(o, "ODone (RFound"):
		return "found"
	case o == "ODone RNotFound":
		return "notfound"
	case o == "ODone RCtx":
		return "ctx"
	case o == "ODone RZero":
		return "zero"
	case o == "OBlocked":
		return "blocked"
	}
	return "other"
}

func rep(e string, k int) []string {
	out := make([]string, k)
	for i := range out {
		out[i] = e
	}
	return out
}

func classify(w *world, n uint64, h *vhdr.Header, err error) string {
	switch {
	case err == nil && h != nil:
		return fmt.Sprintf("ODone (RFound %d)", w.reg.ID(h.Hash()))
	case err == nil:
		return "OOther"
	case errors.Is(err, header.ErrNotFound):
		return "ODone RNotFound"
	case errors.Is(err, context.Canceled) || errors.Is(err, context.DeadlineExceeded):
		return "ODone RCtx"
	case n == 0:
		return "ODone RZero"
	}
	return "OOther"
}

// runScenario executes the scenario on the real store and renders the case.
func runScenario(t *testing.T, w *world, sc scen) (res result) {
	synctest.Test(t, func(t *testing.T) {
		gds := newGateDS()
		bg, bgCancel := context.WithTimeout(context.Background(), time.Hour)
		defer bgCancel()
		// a store loaded by Start (heightSub.Init(head), tail above 1): a first Store writes sc.Pre and stops
		initTerm := "None None []"
		if len(sc.Pre) > 0 {
			st0, err := store.NewStore[*vhdr.Header](gds, store.WithWriteBatchSize(sc.Batch))
			if err != nil {
				t.Fatal(err)
			}
			if err := st0.Start(bg); err != nil {
				t.Fatal(err)
			}
			hdrs := make([]*vhdr.Header, len(sc.Pre))
			ids := make([]string, len(sc.Pre))
			for k, h := range sc.Pre {
				hdrs[k] = w.hs[h]
				ids[k] = w.hid(h)
			}
			if err := st0.Append(bg, hdrs...); err != nil {
				t.Fatal(err)
			}
			if err := st0.Stop(bg); err != nil {
				t.Fatal(err)
			}
			synctest.Wait()
			initTerm = fmt.Sprintf("%s %s %s", emit.Some(w.hid(sc.Pre[len(sc.Pre)-1])), emit.Some(w.hid(sc.Pre[0])), emit.List(ids))
		}
		st, err := store.NewStore[*vhdr.Header](gds, store.WithWriteBatchSize(sc.Batch))
		if err != nil {
			t.Fatal(err)
		}
		if err := st.Start(bg); err != nil {
			t.Fatal(err)
		}
		nr := len(sc.Ns)
		type rd struct {
			started bool
			gated   int // 0: not held; 1: held in its first index read; 2: in its second one
			gates   [3]chan struct{}
			ret     int  // length of the schedule emitted when first seen returned (-1: not yet)
			probed  bool // the cancel probe has been run while this reader was held in its second index read
			done    atomic.Bool
			out     string
			cancel  context.CancelFunc
			ctx     context.Context
		}
		rs := make([]*rd, nr)
		for i := range rs {
			r := &rd{ret: -1}
			c := context.WithValue(bg, ridKey{}, i)
			r.ctx, r.cancel = context.WithCancel(c)
			rs[i] = r
		}
		var ev []string
		var wgate chan struct{}
		// the select's choice when the sub is closed AND the context has ended is Go's (random): it is
		// read off the result -- RdCtx differs from Rd only in that one situation
		rdn := func(i, k int) {
			e := "Rd"
			if rs[i].done.Load() && rs[i].out == "ODone RCtx" {
				e = "RdCtx"
			}
			ev = append(ev, rep(fmt.Sprintf("%s %d", e, i), k)...)
		}
		running := func(except int) {
			for j, r := range rs {
				// a reader woken meanwhile may have run into its armed second gate (final lookup)
				if r.started && r.gated == 0 && !r.done.Load() {
					r.gated = gds.heldAt(j)
				}
				if j != except && r.started && r.gated == 0 {
					rdn(j, 2)
				}
			}
		}
		// after reader i was (re)started with `before` own steps already emitted: where is it now?
		settle := func(i int, fromGate int) {
			r := rs[i]
			switch {
			case r.done.Load() || gds.heldAt(i) == 0:
				// ran to its return or into the select
				r.gated = 0
				switch fromGate {
				case 0:
					rdn(i, 7) // lookup, check, lock+register, re-lookup, (deregister | select), lookup, done
				case 1:
					rdn(i, 6)
				case 2:
					rdn(i, 4)
				}
			case gds.heldAt(i) == 1:
				r.gated = 1
				rdn(i, 1) // the first lookup has read head, tail and pending
			case gds.heldAt(i) == 2:
				// held in its second index read: the re-lookup after registering, or (Height() >= n
				// meanwhile) the final lookup; either way that lookup has read head, tail and pending
				r.gated = 2
				switch fromGate {
				case 0:
					rdn(i, 4)
				case 1:
					rdn(i, 3)
				}
			}
		}
		start := func(i int, g1, g2 bool) {
			r := rs[i]
			if r.started {
				return
			}
			r.started = true
			if g1 {
				r.gates[1] = gds.arm(i, 1)
			}
			if g2 && !g2Disabled.Load() {
				r.gates[2] = gds.arm(i, 2)
			}
			n := sc.Ns[i]
			go func() {
				out := "OOther"
				defer func() {
					if p := recover(); p != nil {
						out = "OOther"
					}
					r.out = out
					r.done.Store(true)
				}()
				h, err := st.GetByHeight(r.ctx, n)
				out = classify(w, n, h, err)
			}()
			synctest.Wait()
			settle(i, 0)
		}
		release := func(i int) {
			r := rs[i]
			if !r.started || r.gated == 0 {
				return
			}
			from := r.gated
			close(r.gates[from])
			synctest.Wait()
			settle(i, from)
			running(i)
		}
		wrelease := func() {
			if wgate == nil {
				return
			}
			close(wgate)
			wgate = nil
			synctest.Wait()
			ev = append(ev, rep("Wr", 6)...)
			running(-1)
		}
		batch := func(hs []uint64, gated bool) {
			wrelease()
			if len(hs) == 0 {
				return
			}
			_, herr := st.Head(bg)
			first := herr != nil
			hdrs := make([]*vhdr.Header, len(hs))
			ids := make([]string, len(hs))
			for k, h := range hs {
				hdrs[k] = w.hs[h]
				ids[k] = w.hid(h)
			}
			if gated {
				wgate = make(chan struct{})
				gds.mu.Lock()
				gds.wgate = wgate
				gds.mu.Unlock()
			}
			if err := st.Append(bg, hdrs...); err != nil {
				t.Fatal(err)
			}
			synctest.Wait()
			ev = append(ev, "Enq "+emit.List(ids))
			if gated {
				// receive, pending.Append, ensureInit (head CAS [, Init store, Init notify, tail CAS]), Notify
				k := 4
				if first {
					k = 7
				}
				ev = append(ev, rep("Wr", k)...)
			} else {
				ev = append(ev, rep("Wr", 12)...)
			}
			running(-1)
		}
		probeOK := true
		// cancel probe: while some call is held inside a datastore read of WaitFor, a call whose context
		// has already ended must still return (real-time bound: a goroutine stuck on a mutex is not
		// "durably blocked", so synctest.Wait would hang instead of reporting it)
		probe := func() {
			need := false
			for _, r := range rs {
				if r.gated == 2 && !r.probed {
					r.probed, need = true, true
				}
			}
			if !need {
				return
			}
			pctx, pc := context.WithCancel(context.WithValue(bg, ridKey{}, -1))
			pc()
			var pd atomic.Bool
			go func() {
				defer func() { _ = recover(); pd.Store(true) }()
				_, _ = st.GetByHeight(pctx, 1<<40)
			}()
			t0 := realTicks.Load()
			for !pd.Load() && realTicks.Load()-t0 < 400 { // 2 s of real time
				runtime.Gosched()
			}
			if !pd.Load() {
				probeOK = false
				// one concrete failing case is enough: do not hold readers inside WaitFor any more in
				// this run (every such hold would cost the bound again, or hang a later operation)
				g2Disabled.Store(true)
				for i, r := range rs {
					if r.gated == 2 {
						release(i) // let the holder go, or nothing else in the store can move
					}
				}
			}
			synctest.Wait()
		}
		checkpoint := func() {
			for _, r := range rs {
				if r.ret < 0 && r.done.Load() {
					r.ret = len(ev)
				}
			}
			probe()
		}
		for _, o := range sc.Ops {
			switch o.K {
			case SG:
				start(o.I, true, o.G2)
			case SU:
				start(o.I, false, o.G2)
			case REL:
				release(o.I)
			case B:
				batch(o.Hs, false)
			case BG:
				batch(o.Hs, true)
			case WREL:
				wrelease()
			case SYNC:
				wrelease()
				sctx, c := context.WithTimeout(bg, time.Minute)
				if err := st.Sync(sctx); err != nil {
					t.Fatal(err)
				}
				c()
				synctest.Wait()
				running(-1)
			case CAN:
				r := rs[o.I]
				r.cancel()
				synctest.Wait()
				ev = append(ev, fmt.Sprintf("Cancel %d", o.I))
				if r.started && r.gated == 0 {
					rdn(o.I, 1)
				}
				running(o.I)
			}
			checkpoint()
		}
		// let every flush finish and every held reader go
		wrelease()
		checkpoint()
		for round := 0; round < 3; round++ {
			for i := range rs {
				release(i)
				checkpoint()
			}
			running(-1)
			checkpoint()
		}
		synctest.Wait()
		obs := make([]string, nr)
		for i, r := range rs {
			if r.done.Load() {
				obs[i] = r.out
			} else {
				obs[i] = "OBlocked"
				res.blocked++
			}
			res.kinds = append(res.kinds, kindOf(obs[i]))
		}
		height := st.Height()
		var head uint64
		if h, err := st.Head(bg); err == nil {
			head = h.Height()
		}
		ns := make([]string, nr)
		for i, n := range sc.Ns {
			ns[i] = emit.N(n)
		}
		rets := make([]string, nr)
		for i, r := range rs {
			if r.ret < 0 {
				r.ret = len(ev)
			}
			rets[i] = emit.Nat(r.ret)
		}
		res.term = fmt.Sprintf("Case12 %s %s %s %s %d %d %s %s", initTerm, emit.List(ns), emit.List(ev), emit.List(obs), height, head, emit.List(rets), emit.B(probeOK))
		res.probeOK = probeOK
		res.descr = map[string]any{"scenario": sc, "obs": obs, "height": height, "head": head, "returned_at": rets, "cancel_probe_released": probeOK}
		// cleanup: nothing may outlive the bubble (open every gate still armed, end every context)
		gds.mu.Lock()
		for _, m := range gds.rgate {
			for k, ch := range m {
				close(ch)
				delete(m, k)
			}
		}
		gds.mu.Unlock()
		for _, r := range rs {
			r.cancel()
		}
		synctest.Wait()
		sctx, c := context.WithTimeout(context.Background(), time.Minute)
		defer c()
		if err := st.Stop(sctx); err != nil {
			t.Fatal(err)
		}
	})
	return res
}

// merges enumerates all interleavings of two sequences
func merges(a, b []op) [][]op {
	if len(a) == 0 {
		return [][]op{append([]op(nil), b...)}
	}
	if len(b) == 0 {
		return [][]op{append([]op(nil), a...)}
	}
	var out [][]op
	for _, m := range merges(a[1:], b) {
		out = append(out, append([]op{a[0]}, m...))
	}
	for _, m := range merges(a, b[1:]) {
		out = append(out, append([]op{b[0]}, m...))
	}
	return out
}

func insertAt(ops []op, p int, o op) []op {
	out := append([]op(nil), ops[:p]...)
	out = append(out, o)
	return append(out, ops[p:]...)
}

// corpus: the schedule that lost the wake-up before 33d75f6 (former finding F5): Head = 1, reader for
// 3 held after its failed first lookup, header 3 (not adjacent to Head) appended and announced,
// reader released: it registers after Notify(3) -- and must now find 3 in its re-lookup.
func corpus() []scen {
	return []scen{
		{Name: "corpus/F5-lost-wakeup", Ns: []uint64{3}, Batch: 64,
			Ops: []op{{K: B, Hs: []uint64{1}}, {K: SG, I: 0}, {K: B, Hs: []uint64{3}}, {K: REL, I: 0}}},
		{Name: "corpus/F5-lost-wakeup-2-readers", Ns: []uint64{3, 3}, Batch: 64,
			Ops: []op{{K: B, Hs: []uint64{1}}, {K: SG, I: 0}, {K: SU, I: 1}, {K: B, Hs: []uint64{3}}, {K: REL, I: 0}}},
		{Name: "corpus/F5-fill-later", Ns: []uint64{4}, Batch: 64,
			Ops: []op{{K: B, Hs: []uint64{1}}, {K: SG, I: 0}, {K: B, Hs: []uint64{4}}, {K: REL, I: 0}, {K: B, Hs: []uint64{2, 3}}}},
		// the same with the header already written to the datastore (pending batch reset) when the reader
		// is released: the re-lookup must go through the datastore, not only through pending
		{Name: "corpus/F5-on-disk-batch1", Ns: []uint64{3}, Batch: 1,
			Ops: []op{{K: B, Hs: []uint64{1}}, {K: SG, I: 0}, {K: B, Hs: []uint64{3}}, {K: REL, I: 0}}},
		{Name: "corpus/F5-on-disk-batch2", Ns: []uint64{4}, Batch: 2,
			Ops: []op{{K: B, Hs: []uint64{1, 2}}, {K: SG, I: 0}, {K: B, Hs: []uint64{4, 5}}, {K: REL, I: 0}}},
		{Name: "corpus/F5-on-disk-sync", Ns: []uint64{3}, Batch: 64,
			Ops: []op{{K: B, Hs: []uint64{1}}, {K: SG, I: 0}, {K: B, Hs: []uint64{3}}, {K: SYNC}, {K: REL, I: 0}}},
		{Name: "corpus/F5-on-disk-sync-2-readers", Ns: []uint64{5, 5}, Batch: 64,
			Ops: []op{{K: B, Hs: []uint64{1, 2}}, {K: SG, I: 0}, {K: SG, I: 1, G2: true}, {K: B, Hs: []uint64{5}}, {K: SYNC}, {K: REL, I: 0}, {K: REL, I: 1}}},
		// a first lookup that missed and is still inside its datastore read while the header is appended
		// adjacent to Head and Head advances to it: the call must look again, not answer with the stale miss
		{Name: "corpus/stale-first-lookup-contiguous", Ns: []uint64{2}, Batch: 64,
			Ops: []op{{K: B, Hs: []uint64{1}}, {K: SG, I: 0}, {K: B, Hs: []uint64{2}}, {K: REL, I: 0}}},
		{Name: "corpus/stale-first-lookup-contiguous-sync", Ns: []uint64{2}, Batch: 64,
			Ops: []op{{K: B, Hs: []uint64{1}}, {K: SG, I: 0}, {K: B, Hs: []uint64{2}}, {K: SYNC}, {K: REL, I: 0}}},
		{Name: "corpus/stale-first-lookup-later-heights", Ns: []uint64{3, 2}, Batch: 2,
			Ops: []op{{K: B, Hs: []uint64{1}}, {K: SG, I: 0}, {K: SG, I: 1}, {K: B, Hs: []uint64{2, 3, 4}}, {K: B, Hs: []uint64{6}}, {K: REL, I: 0}, {K: REL, I: 1}}},
		{Name: "corpus/stale-first-lookup-first-batch", Ns: []uint64{5}, Batch: 1,
			Ops: []op{{K: SG, I: 0}, {K: B, Hs: []uint64{5, 6}}, {K: REL, I: 0}}},
		// a call held inside the re-lookup's datastore read must not keep other calls from being released
		{Name: "corpus/held-in-relookup-other-cancelled", Ns: []uint64{3, 4}, Batch: 64,
			Ops: []op{{K: B, Hs: []uint64{1}}, {K: SU, I: 0, G2: true}, {K: SU, I: 1}, {K: CAN, I: 1}, {K: REL, I: 0}}},
		// held in the re-lookup (registered, pending read done, not yet in the select) while the header arrives
		{Name: "corpus/held-in-relookup", Ns: []uint64{3}, Batch: 64,
			Ops: []op{{K: B, Hs: []uint64{1}}, {K: SU, I: 0, G2: true}, {K: B, Hs: []uint64{3}}, {K: REL, I: 0}}},
	}
}

// realTicks advances every 5 ms of REAL time (the goroutine lives outside every synctest bubble)
var realTicks atomic.Int64

// g2Disabled is set once a cancel probe was not released: see probe()
var g2Disabled atomic.Bool

func TestC12(t *testing.T) {
	go func() {
		for {
			time.Sleep(5 * time.Millisecond)
			realTicks.Add(1)
		}
	}()
	rng := emit.NewRand(emit.Seed())
	out := emit.NewWriter("Model.HeightSub Oracle.C12", "case12", "chk12")
	out.PerShard(500)
	thorough := emit.Thorough()
	out.Rule = "scenario = readers (requested heights) + macro operations {start reader, optionally held in the height-index read of its first lookup and/or of its " +
		"second one (the re-lookup after registering); release; Append batch with the flush free / held after Notify in advanceHead's index read; release flush; " +
		"cancel reader}; each macro op is followed by synctest.Wait and expanded into the model's schedule; corpus (former lost wake-up F5 and variants) first; " +
		"sweep: prefix {empty, [1,2]} x batch shape {contiguous 1, contiguous 2, gapped, unordered, with hole} x requested height {each appended, below, beyond, stored, 0} x " +
		"4 reader hold modes x 2 flush hold modes x {WriteBatchSize 64, 1, 2, explicit Sync after the Append: header on disk, pending reset} x all merges of the reader's and the flush's macro sequences x cancel position (sampled in quick, all in thorough) + gap-filling " +
		"batch; plus random scenarios with 2-3 readers, 1-4 batches, WriteBatchSize {1,2,64}; plus free-running race rounds (long batches, spinning gates, header-method hook) " +
		"whose model outcome is schedule-independent; distinct by scenario; non-trivial when a reader or the flush was held, a context cancelled, or a race round"
	w := newWorld()
	var curPre []uint64 // the initial store of the scenarios being added (nil: fresh and empty)
	add := func(sc scen) {
		if sc.Pre == nil {
			sc.Pre = curPre
		}
		if sc.Pre != nil {
			sc.Name += "/pre"
		}
		r := runScenario(t, w, sc)
		key := fmt.Sprintf("%v/%v/%d/%v", sc.Ns, sc.Ops, sc.Batch, sc.Pre)
		nontriv := false
		for _, o := range sc.Ops {
			if o.K == SG || o.K == BG || o.K == CAN || o.K == SYNC || o.G2 {
				nontriv = true
			}
		}
		out.Add(r.term, r.descr, key, nontriv)
		out.Count("readers", fmt.Sprint(len(sc.Ns)))
		out.Count("initial_store", fmt.Sprint(sc.Pre))
		out.Count("write_batch_size", fmt.Sprint(sc.Batch))
		out.Count("blocked_at_end", fmt.Sprint(r.blocked))
		out.Count("cancel_probe_released", fmt.Sprint(r.probeOK))
		for _, k := range r.kinds {
			out.Count("result", k)
		}
		for _, o := range sc.Ops {
			out.Count("macro_op", o.K)
		}
	}
	for _, sc := range corpus() {
		add(sc)
		out.Count("corpus", sc.Name)
	}
	raceOnly := os.Getenv("VERIF_C12_RACE_ONLY") != "" // experiments: only the witness and the race rounds

	// --- sweep: one reader x one flush
	type shape struct {
		name string
		hs   func(base uint64) []uint64
	}
	shapes := []shape{
		{"contig1", func(b uint64) []uint64 { return []uint64{b} }},
		{"contig2", func(b uint64) []uint64 { return []uint64{b, b + 1} }},
		{"gapped", func(b uint64) []uint64 { return []uint64{b + 2} }},
		{"unordered", func(b uint64) []uint64 { return []uint64{b + 1, b} }},
		{"hole", func(b uint64) []uint64 { return []uint64{b, b + 2} }},
	}
	type sweepCfg struct {
		pre, prefix []uint64
	}
	// the third sweep starts from a store loaded by Start: an earlier Store appended 3..6 and stopped, so
	// Head = 6 = Height(), Tail = 3 (heights 1, 2 are at or below Height() and never stored)
	for _, cfg := range []sweepCfg{{nil, nil}, {nil, []uint64{1, 2}}, {[]uint64{3, 4, 5, 6}, nil}} {
		if raceOnly {
			break
		}
		prefix := cfg.prefix
		curPre = cfg.pre
		base := uint64(5)
		if prefix != nil {
			base = 3
		}
		if cfg.pre != nil {
			base = 7
		}
		for _, sh := range shapes {
			if !thorough && (prefix != nil || cfg.pre != nil) && (sh.name == "contig2" || sh.name == "unordered") {
				continue // quick: the full shape list only on the fresh store
			}
			hs := sh.hs(base)
			extra := uint64(3) // below the first header, never stored
			if prefix != nil {
				extra = 2 // stored by the prefix
			}
			heightsAsked := []uint64{base, base + 1, base + 2, base + 3, extra, 0}
			if cfg.pre != nil {
				heightsAsked = []uint64{base, base + 1, base + 2, base + 3, 2, 4, 0} // 2: below Tail, never stored; 4: loaded by Start
			}
			for _, n := range heightsAsked {
				if n == 0 && sh.name != "contig1" {
					continue
				}
				for rmode := 0; rmode < 4; rmode++ {
					for _, wg := range []bool{true, false} {
						var ra, wa []op
						g2 := rmode&2 != 0
						if rmode&1 != 0 {
							ra = []op{{K: SG, I: 0, G2: g2}, {K: REL, I: 0}}
						} else {
							ra = []op{{K: SU, I: 0, G2: g2}}
						}
						if g2 {
							ra = append(ra, op{K: REL, I: 0})
						}
						if wg {
							wa = []op{{K: BG, Hs: hs}, {K: WREL}}
						} else {
							wa = []op{{K: B, Hs: hs}}
						}
						for mi, m := range merges(ra, wa) {
							var pre []op
							if prefix != nil {
								pre = []op{{K: B, Hs: prefix}}
							}
							ops := append(pre, m...)
							name := fmt.Sprintf("sweep/p%d/%s/n%d/r%d/wg%v/m%d", len(prefix), sh.name, n, rmode, wg, mi)
							if !thorough && rng.Chance(60) {
								continue // quick: a seed-dependent 40% sample of the sweep; thorough: all of it
							}
							add(scen{Name: name, Ns: []uint64{n}, Ops: ops, Batch: 64})
							// the same schedule with the header(s) written out to the datastore and pending reset:
							// WriteBatchSize 1 / 2, or an explicit Sync after the Append
							if rmode != 0 {
								var alts []scen
								alts = append(alts, scen{Name: name + "/bs1", Ns: []uint64{n}, Ops: ops, Batch: 1},
									scen{Name: name + "/bs2", Ns: []uint64{n}, Ops: ops, Batch: 2})
								for p, o := range ops {
									if o.K == B || o.K == WREL {
										alts = append(alts, scen{Name: name + "/sync", Ns: []uint64{n}, Ops: insertAt(ops, p+1, op{K: SYNC}), Batch: 64})
									}
								}
								if thorough {
									for _, a := range alts {
										add(a)
									}
								} else {
									add(alts[rng.Intn(len(alts))])
								}
							}
							// cancellation at every / one position
							var ps []int
							if thorough {
								for p := len(pre); p <= len(ops); p++ {
									ps = append(ps, p)
								}
							} else if mi%3 == 0 {
								ps = []int{len(pre) + rng.Intn(len(m)+1)}
							}
							for _, p := range ps {
								add(scen{Name: fmt.Sprintf("%s/c%d", name, p), Ns: []uint64{n}, Ops: insertAt(ops, p, op{K: CAN, I: 0}),
									Batch: []int{64, 64, 1, 2}[rng.Intn(4)]})
							}
							// a later batch that fills the gap (SetHeight reaches n as well)
							if (sh.name == "gapped" || sh.name == "hole") && (thorough || mi%2 == 1) {
								fill := []uint64{base, base + 1}
								add(scen{Name: name + "/fill", Ns: []uint64{n}, Ops: append(append([]op(nil), ops...), op{K: B, Hs: fill}),
									Batch: []int{64, 1, 2}[rng.Intn(3)]})
							}
						}
					}
				}
			}
		}
	}
	out.Exhaustive = thorough
	curPre = nil

	// --- random scenarios: 2-3 readers, several batches, cancellations; interleaved with the
	// free-running race rounds (so that their big cases spread over the shards)
	nrand := 250
	rounds := 30
	if thorough {
		nrand = 6000
		rounds = 90
	}
	if raceOnly {
		nrand = 0
	}
	if v, err := strconv.Atoi(os.Getenv("VERIF_C12_RACE_ONLY")); err == nil && v > 0 {
		rounds = v
	}
	race := func(k int) {
		for _, r := range raceRound(t, w, rng, k) {
			out.Add(r.term, r.descr, fmt.Sprintf("race/%d/%v", k, r.descr["kind"]), true)
			out.Count("race_round", fmt.Sprint(r.descr["kind"]))
			for _, kd := range r.kinds {
				out.Count("result", kd)
			}
		}
	}
	every := 1
	if rounds > 0 && nrand/rounds > 1 {
		every = nrand / rounds
	}
	kr := 0
	for k := 0; k < nrand; k++ {
		curPre = nil
		if k%4 == 3 {
			curPre = []uint64{3, 4, 5, 6}
		}
		add(randomScenario(rng, k))
		curPre = nil
		if k%every == every-1 && kr < rounds {
			race(kr)
			kr++
		}
	}
	for ; kr < rounds; kr++ {
		race(kr)
	}
	if err := out.Flush(); err != nil {
		t.Fatal(err)
	}
	t.Logf("emitted %d cases", out.Len())
}

func randomScenario(rng *emit.Rand, k int) scen {
	nr := 2 + rng.Intn(2)
	bs := []int{64, 64, 64, 1, 2}[rng.Intn(5)]
	gates := true // a held lookup has already read the datastore, so any WriteBatchSize may be combined with gates
	// batches over heights 1..9
	nb := 1 + rng.Intn(4)
	var batches [][]uint64
	next := uint64(1 + rng.Intn(3))
	var pool []uint64
	for b := 0; b < nb; b++ {
		var hs []uint64
		switch rng.Intn(6) {
		case 0, 1, 2: // contiguous run
			for i := 0; i < 1+rng.Intn(3); i++ {
				hs = append(hs, next)
				next++
			}
		case 3: // gap of one or two, then a run
			next += 1 + uint64(rng.Intn(2))
			for i := 0; i < 1+rng.Intn(2); i++ {
				hs = append(hs, next)
				next++
			}
		case 4: // out of order: a height skipped earlier or a re-append
			if len(pool) > 0 {
				h := pool[rng.Intn(len(pool))]
				if h > 1 && rng.Bool() {
					h--
				}
				hs = append(hs, h)
			} else {
				hs = append(hs, next)
				next++
			}
		default: // unordered pair
			hs = append(hs, next+1, next)
			next += 2
		}
		if next > universe-2 {
			next = universe - 2
		}
		pool = append(pool, hs...)
		batches = append(batches, hs)
	}
	ns := make([]uint64, nr)
	same := rng.Chance(50)
	for i := range ns {
		switch {
		case i > 0 && same:
			ns[i] = ns[0]
		case rng.Chance(75):
			ns[i] = pool[rng.Intn(len(pool))]
			if rng.Chance(15) && ns[i] > 1 {
				ns[i]--
			}
		default:
			ns[i] = uint64(1 + rng.Intn(12))
		}
	}
	// per-thread macro sequences, then a random merge
	seqs := make([][]op, 0, nr+1)
	var wseq []op
	for _, hs := range batches {
		if gates && rng.Chance(40) {
			wseq = append(wseq, op{K: BG, Hs: hs}, op{K: WREL})
		} else {
			wseq = append(wseq, op{K: B, Hs: hs})
		}
		if rng.Chance(20) {
			wseq = append(wseq, op{K: SYNC})
		}
	}
	seqs = append(seqs, wseq)
	for i := 0; i < nr; i++ {
		var s []op
		g2 := gates && rng.Chance(35)
		if gates && rng.Chance(50) {
			s = []op{{K: SG, I: i, G2: g2}, {K: REL, I: i}}
		} else {
			s = []op{{K: SU, I: i, G2: g2}}
		}
		if g2 {
			s = append(s, op{K: REL, I: i})
		}
		if rng.Chance(35) {
			p := rng.Intn(len(s) + 1)
			s = insertAt(s, p, op{K: CAN, I: i})
		}
		seqs = append(seqs, s)
	}
	var ops []op
	for {
		var live []int
		for i, s := range seqs {
			if len(s) > 0 {
				live = append(live, i)
			}
		}
		if len(live) == 0 {
			break
		}
		i := live[rng.Intn(len(live))]
		ops = append(ops, seqs[i][0])
		seqs[i] = seqs[i][1:]
	}
	// cancellations late in the run as well
	if rng.Chance(30) {
		ops = append(ops, op{K: CAN, I: rng.Intn(nr)})
	}
	return scen{Name: fmt.Sprintf("rand/%d", k), Ns: ns, Ops: ops, Batch: bs}
}

// raceRound runs readers and the flush goroutine freely (no gates between the
// racing steps) with batches big enough to stretch the critical sections, so
// that the windows the gates cannot reach (Wait's unlocked check -> lock;
// Notify -> pending) are hit by real scheduling. For these scenarios every
// schedule of the model gives the same result (the header is contiguous, or
// the reader is registered before the append), so the linearisation emitted
// is one of them and the observation must agree with it.
func raceRound(t *testing.T, w *world, rng *emit.Rand, k int) []result {
	var out []result
	kind := k % 3
	if kind == 2 {
		return raceLock(t, rng, k)
	}
	if kind == 1 {
		return raceNotify(t, rng, k)
	}
	const big = 3000
	bw := bigWorld(big)
	synctest.Test(t, func(t *testing.T) {
		gds := newGateDS()
		st, err := store.NewStore[*vhdr.Header](gds, store.WithWriteBatchSize(1<<20))
		if err != nil {
			t.Fatal(err)
		}
		bg, bgCancel := context.WithTimeout(context.Background(), time.Hour)
		defer bgCancel()
		if err := st.Start(bg); err != nil {
			t.Fatal(err)
		}
		nr := 24
		if kind == 0 {
			nr = envInt("C12_NR", 160)
		}
		top := big // highest height appended
		if kind == 0 {
			top = envInt("C12_TOP", 400)
		}
		outs := make([]string, nr)
		done := make([]atomic.Bool, nr)
		ns := make([]uint64, nr)
		var ev []string
		if err := st.Append(bg, bw.hs[1]); err != nil {
			t.Fatal(err)
		}
		synctest.Wait()
		ev = append(ev, "Enq "+emit.List([]string{bw.hid(1)}))
		ev = append(ev, rep("Wr", 12)...)
		batch := bw.hs[2 : top+1]
		ids := make([]string, len(batch))
		for i, h := range batch {
			ids[i] = bw.hid(h.Height())
		}
		for i, h := range batch {
			if ids[i] != emit.Pair(emit.N(h.Height()), emit.N(h.Height())) {
				t.Fatal("registry ids of the big world are expected to equal heights")
			}
		}
		gates := make([]chan struct{}, nr)
		startReader := func(i int, gated bool) {
			ctx := context.WithValue(bg, ridKey{}, i)
			if gated {
				gates[i] = gds.arm(i, 1)
			}
			n := ns[i]
			go func() {
				o := "OOther"
				defer func() {
					if p := recover(); p != nil {
						o = "OOther"
					}
					outs[i] = o
					done[i].Store(true)
				}()
				h, err := st.GetByHeight(ctx, n)
				o = classify(bw, n, h, err)
			}()
		}
		switch kind {
		case 0:
			// readers held after their failed first lookup; the flush of 2..big held after Notify;
			// everything released at once: Wait's two Height() checks race with SetHeight's CAS and
			// its long notify loop (big-1 iterations under the lock)
			for i := range ns {
				ns[i] = uint64(top - i%(top-2)) // distinct heights: every registration allocates a sub
				startReader(i, true)
			}
			synctest.Wait()
			wg := make(chan struct{})
			gds.mu.Lock()
			gds.wgate = wg
			gds.mu.Unlock()
			if err := st.Append(bg, batch...); err != nil {
				t.Fatal(err)
			}
			synctest.Wait()
			for i := range ns {
				ev = append(ev, fmt.Sprintf("Rd %d", i))
			}
			ev = append(ev, fmt.Sprintf("Enq (hid_range 2 %d)", top-1))
			ev = append(ev, rep("Wr", 4)...)
			// the flush is released somewhere in the middle of the readers, so that its CAS
			// lands while readers contend for heightSubsLk between their two Height() checks
			at := rng.Intn(nr)
			if v := envInt("C12_AT", -1); v >= 0 {
				at = v * nr / 100
			}
			for i := range gates {
				if i == at {
					close(wg)
				}
				close(gates[i])
			}
			synctest.Wait()
			ev = append(ev, rep("Wr", 6)...)
			for i := range ns {
				ev = append(ev, rep(fmt.Sprintf("Rd %d", i), 7)...)
			}
		case 1:
			// readers parked on the first heights of a big batch: Notify's loop over the whole batch
			// wakes them long before it returns; their second lookup must already see the headers
			for i := range ns {
				ns[i] = uint64(2 + rng.Intn(3))
				startReader(i, false)
			}
			synctest.Wait()
			for i := range ns {
				ev = append(ev, rep(fmt.Sprintf("Rd %d", i), 7)...)
			}
			// a gap: heights 3..big, head stays 1, so only Notify wakes the readers of 3 and 4
			gb := bw.hs[3 : big+1]
			if err := st.Append(bg, gb...); err != nil {
				t.Fatal(err)
			}
			synctest.Wait()
			ev = append(ev, fmt.Sprintf("Enq (hid_range 3 %d)", big-2))
			ev = append(ev, rep("Wr", 12)...)
			for i := range ns {
				ev = append(ev, rep(fmt.Sprintf("Rd %d", i), 2)...)
			}
		}
		obs := make([]string, nr)
		var r result
		for i := range obs {
			if done[i].Load() {
				obs[i] = outs[i]
			} else {
				obs[i] = "OBlocked"
			}
			r.kinds = append(r.kinds, kindOf(obs[i]))
		}
		height := st.Height()
		var head uint64
		if h, err := st.Head(bg); err == nil {
			head = h.Height()
		}
		nst := make([]string, nr)
		for i, n := range ns {
			nst[i] = emit.N(n)
		}
		r.term = fmt.Sprintf("Case12 None None [] %s %s %s %d %d", emit.List(nst), emit.List(ev), emit.List(obs), height, head)+" [] true"
		r.descr = map[string]any{"kind": []string{"release-all-vs-setheight", "notify-loop-vs-pending", "lock-held-by-notify"}[kind], "readers": nr, "batch": big, "obs": obs, "height": height, "head": head}
		out = append(out, r)
		if os.Getenv("VERIF_C12_RACE_ONLY") != "" {
			nb := 0
			for _, o := range obs {
				if o != "OBlocked" && !strings.HasPrefix(o, "ODone (RFound") || (o == "OBlocked" && kind != 1) {
					nb++
				}
			}
			t.Logf("race round %d kind %d: %d suspicious of %d", k, kind, nb, nr)
		}
		bgCancel()
		synctest.Wait()
		sctx, c := context.WithTimeout(context.Background(), time.Minute)
		defer c()
		_ = st.Stop(sctx)
	})
	return out
}

func envInt(k string, d int) int {
	if v, err := strconv.Atoi(os.Getenv(k)); err == nil {
		return v
	}
	return d
}

var (
	bigOnce sync.Once
	bigW    *world
)

func bigWorld(n int) *world {
	bigOnce.Do(func() {
		w := &world{reg: vhdr.NewRegistry()}
		ch := vhdr.Chain("c12big", 1, n, 1_000_000, 10, nil)
		w.hs = append([]*vhdr.Header{nil}, ch...)
		for _, h := range ch {
			w.reg.ID(h.Hash())
		}
		bigW = w
	})
	return bigW
}

// rhdr is vhdr.Header with a hook in Height(): the header type's methods are
// code of the caller's that the flush goroutine runs at known places
// (getHeights runs between pending.Append and heightSub.Notify).
type rhdr struct {
	vhdr.Header
	hash     header.Hash
	onHeight func()
}

func (h *rhdr) New() *rhdr   { return new(rhdr) }
func (h *rhdr) IsZero() bool { return h == nil }
func (h *rhdr) Height() uint64 {
	if f := h.onHeight; f != nil {
		f()
	}
	return h.H
}
func (h *rhdr) Hash() header.Hash {
	if h.hash == nil {
		h.hash = h.Header.Hash()
	}
	return h.hash
}
func (h *rhdr) Verify(u *rhdr) error { return nil }

var _ header.Header[*rhdr] = (*rhdr)(nil)

// spinDS holds height-index reads of readers first at a channel, then at a spin flag:
// a spinning goroutine is on a CPU and continues within nanoseconds of the release.
type spinDS struct {
	datastore.Batching
	ch   chan struct{}
	flag atomic.Bool
	on   atomic.Bool
}

func (g *spinDS) Get(ctx context.Context, k datastore.Key) ([]byte, error) {
	if _, ok := ctx.Value(ridKey{}).(int); ok && isHeightKey(k) && g.on.Load() {
		<-g.ch
		for !g.flag.Load() {
		}
	}
	return g.Batching.Get(ctx, k)
}

// raceLock: Head = 1; readers for height 2 are held after their failed first lookup. The batch
// [2, far, far+1, ...] makes Notify hold heightSubsLk for its whole loop (no sub matches) while
// the contiguous run is just [2]. The readers are released from getHeights (i.e. after
// pending.Append, just before Notify takes the lock): they pass Wait's unlocked Height() test
// (still 1), queue on the lock behind Notify, and SetHeight(2) with its notify overtakes them.
// Only the second Height() test under the lock keeps them from registering too late.
// Every schedule of the model returns the header of 2 to every reader (2 is contiguous).
func raceLock(t *testing.T, rng *emit.Rand, k int) []result {
	const far, farLen = 4000, 24000
	const nr = 7
	var out []result
	synctest.Test(t, func(t *testing.T) {
		gds := &spinDS{Batching: dssync.MutexWrap(datastore.NewMapDatastore()), ch: make(chan struct{})}
		st, err := store.NewStore[*rhdr](gds, store.WithWriteBatchSize(1<<20))
		if err != nil {
			t.Fatal(err)
		}
		bg, bgCancel := context.WithTimeout(context.Background(), time.Hour)
		defer bgCancel()
		if err := st.Start(bg); err != nil {
			t.Fatal(err)
		}
		mk := func(h uint64) *rhdr {
			return &rhdr{Header: vhdr.Header{Chain: "c12lock", H: h, T: int64(1_000_000 + h)}}
		}
		var ev []string
		h1, h2 := mk(1), mk(2)
		if err := st.Append(bg, h1); err != nil {
			t.Fatal(err)
		}
		synctest.Wait()
		ev = append(ev, "Enq [(1, 1)]")
		ev = append(ev, rep("Wr", 12)...)
		outs := make([]string, nr)
		done := make([]atomic.Bool, nr)
		gds.on.Store(true)
		for i := 0; i < nr; i++ {
			ctx := context.WithValue(bg, ridKey{}, i)
			go func() {
				o := "OOther"
				defer func() {
					if p := recover(); p != nil {
						o = "OOther"
					}
					outs[i] = o
					done[i].Store(true)
				}()
				h, err := st.GetByHeight(ctx, 2)
				switch {
				case err == nil && h == h2:
					o = "ODone (RFound 2)"
				case err == nil:
					o = "OOther"
				case errors.Is(err, header.ErrNotFound):
					o = "ODone RNotFound"
				case errors.Is(err, context.Canceled) || errors.Is(err, context.DeadlineExceeded):
					o = "ODone RCtx"
				}
			}()
		}
		synctest.Wait()
		for i := 0; i < nr; i++ {
			ev = append(ev, fmt.Sprintf("Rd %d", i))
		}
		fb := make([]*rhdr, 0, farLen+1)
		fb = append(fb, h2)
		for i := 0; i < farLen; i++ {
			fb = append(fb, mk(far+uint64(i)))
		}
		last := fb[len(fb)-1]
		last.onHeight = func() {
			var pcs [8]uintptr
			n := runtime.Callers(2, pcs[:])
			fr := runtime.CallersFrames(pcs[:n])
			for {
				f, more := fr.Next()
				if strings.HasSuffix(f.Function, "getHeights") || strings.Contains(f.Function, "getHeights[") {
					gds.flag.Store(true)
					return
				}
				if !more {
					return
				}
			}
		}
		if err := st.Append(bg, fb...); err != nil {
			t.Fatal(err)
		}
		close(gds.ch) // the readers now spin while pending.Append hashes the batch
		// fallback should getHeights disappear in a refactoring: release once the batch is readable
		for i := 0; !gds.flag.Load(); i++ {
			if ok, _ := st.Has(bg, last.Hash()); ok && i > 1<<16 {
				gds.flag.Store(true)
			}
		}
		synctest.Wait()
		ev = append(ev, fmt.Sprintf("Enq ((2, 2) :: hid_range %d %d)", far, farLen))
		ev = append(ev, rep("Wr", 12)...)
		for i := 0; i < nr; i++ {
			ev = append(ev, rep(fmt.Sprintf("Rd %d", i), 7)...)
		}
		obs := make([]string, nr)
		var r result
		nb := 0
		for i := range obs {
			if done[i].Load() {
				obs[i] = outs[i]
			} else {
				obs[i] = "OBlocked"
			}
			if obs[i] != "ODone (RFound 2)" {
				nb++
			}
			r.kinds = append(r.kinds, kindOf(obs[i]))
		}
		height := st.Height()
		var head uint64
		if h, err := st.Head(bg); err == nil {
			head = h.Height()
		}
		r.term = fmt.Sprintf("Case12 None None [] %s %s %s %d %d [] true", emit.List(rep("2", nr)), emit.List(ev), emit.List(obs), height, head)
		r.descr = map[string]any{"kind": "lock-held-by-notify", "readers": nr, "batch": farLen + 1, "obs": obs, "height": height, "head": head}
		out = append(out, r)
		if os.Getenv("VERIF_C12_RACE_ONLY") != "" {
			t.Logf("race round %d kind 2: %d suspicious of %d", k, nb, nr)
		}
		bgCancel()
		synctest.Wait()
		sctx, c := context.WithTimeout(context.Background(), time.Minute)
		defer c()
		_ = st.Stop(sctx)
	})
	return out
}

// raceNotify: Head = 1; readers are parked (registered) on the first heights of a long batch
// [far, far+1, ...] that is not adjacent to Head, so only Notify wakes them. Notify's loop over
// the whole batch keeps running long after it has closed their subs: the woken readers do their
// second lookup while the flush goroutine is still inside Notify. The headers must already be in
// pending at that point (pending.Append before Notify). Every schedule of the model returns the
// header to every reader (they are registered before the append).
func raceNotify(t *testing.T, rng *emit.Rand, k int) []result {
	far, farLen := uint64(4000), envInt("C12_NLEN", 150000)
	const nr = 6
	var out []result
	synctest.Test(t, func(t *testing.T) {
		st, err := store.NewStore[*rhdr](dssync.MutexWrap(datastore.NewMapDatastore()), store.WithWriteBatchSize(1<<20))
		if err != nil {
			t.Fatal(err)
		}
		bg, bgCancel := context.WithTimeout(context.Background(), time.Hour)
		defer bgCancel()
		if err := st.Start(bg); err != nil {
			t.Fatal(err)
		}
		mk := func(h uint64) *rhdr {
			return &rhdr{Header: vhdr.Header{Chain: "c12notify", H: h, T: int64(1_000_000 + h)}}
		}
		var ev []string
		if err := st.Append(bg, mk(1)); err != nil {
			t.Fatal(err)
		}
		synctest.Wait()
		ev = append(ev, "Enq [(1, 1)]")
		ev = append(ev, rep("Wr", 12)...)
		fb := make([]*rhdr, 0, farLen)
		for i := 0; i < farLen; i++ {
			fb = append(fb, mk(far+uint64(i)))
		}
		ns := make([]uint64, nr)
		outs := make([]string, nr)
		done := make([]atomic.Bool, nr)
		for i := 0; i < nr; i++ {
			ns[i] = far + uint64(rng.Intn(3))
			n := ns[i]
			go func() {
				o := "OOther"
				defer func() {
					if p := recover(); p != nil {
						o = "OOther"
					}
					outs[i] = o
					done[i].Store(true)
				}()
				h, err := st.GetByHeight(bg, n)
				switch {
				case err == nil && h == fb[n-far]:
					o = fmt.Sprintf("ODone (RFound %d)", n)
				case err == nil:
					o = "OOther"
				case errors.Is(err, header.ErrNotFound):
					o = "ODone RNotFound"
				case errors.Is(err, context.Canceled) || errors.Is(err, context.DeadlineExceeded):
					o = "ODone RCtx"
				}
			}()
		}
		synctest.Wait()
		for i := 0; i < nr; i++ {
			ev = append(ev, rep(fmt.Sprintf("Rd %d", i), 7)...)
		}
		if err := st.Append(bg, fb...); err != nil {
			t.Fatal(err)
		}
		synctest.Wait()
		ev = append(ev, fmt.Sprintf("Enq (hid_range %d %d)", far, farLen))
		ev = append(ev, rep("Wr", 12)...)
		for i := 0; i < nr; i++ {
			ev = append(ev, rep(fmt.Sprintf("Rd %d", i), 2)...)
		}
		obs := make([]string, nr)
		nst := make([]string, nr)
		var r result
		nb := 0
		for i := range obs {
			if done[i].Load() {
				obs[i] = outs[i]
			} else {
				obs[i] = "OBlocked"
			}
			if !strings.HasPrefix(obs[i], "ODone (RFound") {
				nb++
			}
			nst[i] = emit.N(ns[i])
			r.kinds = append(r.kinds, kindOf(obs[i]))
		}
		height := st.Height()
		var head uint64
		if h, err := st.Head(bg); err == nil {
			head = h.Height()
		}
		r.term = fmt.Sprintf("Case12 None None [] %s %s %s %d %d", emit.List(nst), emit.List(ev), emit.List(obs), height, head)+" [] true"
		r.descr = map[string]any{"kind": "notify-loop-vs-pending", "readers": nr, "batch": farLen, "obs": obs, "height": height, "head": head}
		out = append(out, r)
		if os.Getenv("VERIF_C12_RACE_ONLY") != "" {
			t.Logf("race round %d kind 1: %d suspicious of %d", k, nb, nr)
		}
		bgCancel()
		synctest.Wait()
		sctx, c := context.WithTimeout(context.Background(), time.Minute)
		defer c()
		_ = st.Stop(sctx)
	})
	return out
}
