//go:build verif

// Package c15 is the correspondence driver of property C15 (bifurcation).
// It delivers candidate network heads to a real sync.Syncer through the
// verifier the Syncer registers with its Subscriber, with a scripted Getter and
// a type-level trust policy, and emits (inputs, projected observation) cases
// for Oracle/C15.v.
package c15

import (
	"bytes"
	"context"
	"errors"
	"fmt"
	"math/big"
	"math/bits"
	"sort"
	"strings"
	gosync "sync"
	"testing"
	"testing/synctest"
	"time"

	"github.com/ipfs/go-datastore"
	dssync "github.com/ipfs/go-datastore/sync"

	header "github.com/celestiaorg/go-header"
	"github.com/celestiaorg/go-header/store"
	hsync "github.com/celestiaorg/go-header/sync"

	"verifharness/emit"
	"verifharness/vhdr"
)

type H = *vhdr.Header

// ---- the type-level trust policy (Gallina twin: Oracle/C15.v pol_tv) ----

type polSpec struct {
	Range         uint64
	A, B, C, M, K uint64
	Forged        []H // no non-adjacent verification accepts these
	AdjSoft       bool
}

func (p *polSpec) trusts(t, u uint64) bool {
	if u-t <= p.Range {
		return true
	}
	return p.M != 0 && (p.A*(t%p.M)+p.B*(u%p.M)+p.C)%p.M < p.K
}

func (p *polSpec) policy() vhdr.Policy {
	forged := map[string]bool{}
	for _, f := range p.Forged {
		forged[string(f.Hash())] = true
	}
	return func(t, u *vhdr.Header) error {
		if u.H == t.H+1 {
			if bytes.Equal(u.Prev, t.Hash()) {
				return nil
			}
			if p.AdjSoft {
				return &header.VerifyError{Reason: &vhdr.TypeErr{ID: 1}, SoftFailure: true}
			}
			return &vhdr.TypeErr{ID: 1}
		}
		if forged[string(u.Hash())] {
			return &vhdr.TypeErr{ID: 3}
		}
		if p.trusts(t.H, u.H) {
			return nil
		}
		return &vhdr.TypeErr{ID: 2}
	}
}

func (p *polSpec) term(reg *vhdr.Registry) string {
	ids := make([]string, len(p.Forged))
	for i, f := range p.Forged {
		ids[i] = emit.N(reg.ID(f.Hash()))
	}
	return fmt.Sprintf("(Policy %d %d %d %d %d %d %s %s)", p.Range, p.A, p.B, p.C, p.M, p.K, emit.List(ids), emit.B(p.AdjSoft))
}

// ---- fakes ----

type fakeSub struct {
	verifier func(context.Context, H) error
}

func (f *fakeSub) Subscribe() (header.Subscription[H], error) {
	return nil, errors.New("c15: no subscription")
}
func (f *fakeSub) SetVerifier(v func(context.Context, H) error) error { f.verifier = v; return nil }

var errFetch = errors.New("c15: scripted getter failure")
var errSoftHead = errors.New("c15: head not verifiable against the trusted head")

// a failing getter answers with a plain error or, every other time, with ErrNotFound (a peer
// that does not have the height): both must end the bifurcation
func (g *getter) fail() error {
	if g.n%2 == 0 {
		return fmt.Errorf("c15: scripted getter failure: %w", header.ErrNotFound)
	}
	return errFetch
}

type resp struct {
	err bool
	h   H
}

type call struct {
	h      uint64
	headID uint64
}

// scripted Getter: an honest chain on [lo, hi], overrides by asked height, and
// a request budget; records every GetByHeight with Syncer.Head() at that moment.
type getter struct {
	mu     gosync.Mutex
	chain  []H // chain[h] for 1 <= h < len
	lo, hi uint64
	over   map[uint64]resp
	budget int
	n      int
	calls  []call
	syncer *hsync.Syncer[H]
	reg    *vhdr.Registry
	// head request script
	armed     bool
	candidate H
	trusted   H
	headReqs  int
}

// Head is the head request of networkHead. Once armed it answers (candidate, soft *VerifyError), as an
// Exchange does whose trusted peers serve a head it could not verify against the given trusted head;
// otherwise it fails (and the Syncer keeps its subjective head).
func (g *getter) Head(_ context.Context, opts ...header.HeadOption[H]) (H, error) {
	g.mu.Lock()
	defer g.mu.Unlock()
	g.headReqs++
	if g.armed {
		g.armed = false
		var p header.HeadParams[H]
		for _, o := range opts {
			o(&p)
		}
		g.trusted = p.TrustedHead
		return g.candidate, &header.VerifyError{Reason: errSoftHead, SoftFailure: true}
	}
	return nil, errors.New("c15: no network head")
}
func (g *getter) Get(context.Context, header.Hash) (H, error) { return nil, header.ErrNotFound }
func (g *getter) GetRangeByHeight(ctx context.Context, _ H, _ uint64) ([]H, error) {
	<-ctx.Done() // the sync loop parks here until the Syncer is stopped
	return nil, ctx.Err()
}
func (g *getter) GetByHeight(ctx context.Context, h uint64) (H, error) {
	var id uint64
	if hd, err := g.syncer.Head(ctx); err == nil && hd != nil {
		id = g.reg.ID(hd.Hash())
	}
	g.mu.Lock()
	defer g.mu.Unlock()
	i := g.n
	g.n++
	g.calls = append(g.calls, call{h, id})
	if i >= g.budget {
		return nil, g.fail()
	}
	if r, ok := g.over[h]; ok {
		if r.err {
			return nil, g.fail()
		}
		return r.h, nil
	}
	if g.lo <= h && h <= g.hi {
		return g.chain[h], nil
	}
	return nil, g.fail()
}

// ---- observation ----

var sentinels = []struct {
	e    error
	name string
}{{header.ErrZeroHeader, "EZero"}, {header.ErrWrongChainID, "EWrongChain"}, {header.ErrKnownHeader, "EKnown"},
	{header.ErrUnorderedTime, "EUnordered"}, {header.ErrFromFuture, "EFuture"}}

// observe maps the verifier's error to the Coq [vobs] term: nil, the class of
// the *VerifyError found by errors.As (soft flag + sentinel / type error id), or VOther.
func observe(err error) string {
	if err == nil {
		return "VAccept"
	}
	var ve *header.VerifyError
	if !errors.As(err, &ve) {
		return "VOther"
	}
	for _, s := range sentinels {
		if errors.Is(ve, s.e) {
			return fmt.Sprintf("(VRefuse (OSent %s %s))", s.name, emit.B(ve.SoftFailure))
		}
	}
	var te *vhdr.TypeErr
	if errors.As(ve.Reason, &te) {
		return fmt.Sprintf("(VRefuse (OType %d %s))", te.ID, emit.B(ve.SoftFailure))
	}
	return "(VRefuse OOther)"
}

// ---- one scenario ----

type scen struct {
	S      uint64 // height of the store head (the store holds 1..S)
	Pre    uint64 // if > S: chain[Pre] is delivered (and must be accepted directly) first, so that the
	// subjective head is a pending sync target above the store head when the candidate arrives
	Pol    polSpec
	New    H
	Over   map[uint64]resp
	Budget int
	Class  string
	Kind   string
	Head   bool // deliver the candidate as the soft-failing answer of the head request made by Syncer.Head()
}

func (sc *scen) subj() uint64 {
	if sc.Pre > sc.S {
		return sc.Pre
	}
	return sc.S
}

type outcome struct {
	verdict     string
	ret         uint64 // head path: id of the header Syncer.Head() answered with
	calls       []call
	headID      uint64
	storeBefore H
	subjBefore  H // Syncer.Head() right before the delivery
	storeAfter  uint64
	now         time.Time
}

type world struct {
	t      *testing.T
	reg    *vhdr.Registry
	chain  []H
	t0, dt int64
	drift  time.Duration
}

const maxBudget = 4000

// bound is Model/Bifurcate.v [bound]: (D+1) * (bits(D)+1)
func bound(D uint64) int { return int((D + 1) * uint64(bits.Len64(D)+1)) }

func (w *world) run(sc *scen) outcome {
	return w.runSeq(sc.S, sc.Pre, []*scen{sc})[0]
}

// runSeq delivers the candidates of the given steps, in order, to ONE Syncer whose Store holds 1..S
// (after the optional prelude candidate chain[pre]); the getter's fault script (overrides, request
// budget, request counter) is that of the current step. Every delivery is observed on its own:
// subjective head and Store head before, verdict / answer, requests, heads afterwards.
func (w *world) runSeq(S, pre uint64, steps []*scen) []outcome {
	t := w.t
	ctx, cancel := context.WithTimeout(context.Background(), 100*time.Hour)
	defer cancel()
	st, err := store.NewStore[H](dssync.MutexWrap(datastore.NewMapDatastore()))
	if err != nil {
		t.Fatal(err)
	}
	if err := st.Start(ctx); err != nil {
		t.Fatal(err)
	}
	if err := st.Append(ctx, w.chain[1:S+1]...); err != nil {
		t.Fatal(err)
	}
	if err := st.Sync(ctx); err != nil {
		t.Fatal(err)
	}
	subj0 := S
	if pre > S {
		subj0 = pre
	}
	g := &getter{chain: w.chain, lo: 1, hi: uint64(len(w.chain) - 1), budget: 0, reg: w.reg}
	sub := &fakeSub{}
	recency := 1000 * time.Hour
	anyHead := false
	for _, sc := range steps {
		anyHead = anyHead || sc.Head
	}
	if anyHead {
		// the subjective head (and everything below) is not recent, every header above it is:
		// Syncer.Head() then asks the getter for the network head, and only then. Later deliveries
		// move the (virtual) clock forward by as much as the subjective head has moved up.
		recency = time.Now().Sub(time.Unix(0, w.chain[subj0].T)) - 500*time.Millisecond
	}
	sy, err := hsync.NewSyncer[H](g, st, sub,
		hsync.WithBlockTime(time.Second),
		hsync.WithTrustingPeriod(1000*time.Hour),
		hsync.WithRecencyThreshold(recency),
		hsync.WithSyncFromHeight(1),
	)
	if err != nil {
		t.Fatal(err)
	}
	g.syncer = sy
	vhdr.SetPolicy(steps[0].Pol.policy())
	if err := sy.Start(ctx); err != nil {
		t.Fatal(err)
	}
	if sub.verifier == nil {
		t.Fatal("Syncer did not register a verifier with its Subscriber")
	}
	if hd, err := sy.Head(ctx); err != nil || hd.H != S {
		t.Fatalf("subjective head before delivery: %v %v", hd, err)
	}
	if pre > S {
		if err := sub.verifier(ctx, w.chain[pre]); err != nil {
			t.Fatalf("prelude candidate %d not accepted directly: %v", pre, err)
		}
		if hd, err := sy.Head(ctx); err != nil || hd.H != pre {
			t.Fatalf("subjective head after prelude: %v %v", hd, err)
		}
	}
	if len(g.calls) != 0 {
		t.Fatalf("getter used before delivery: %v", g.calls)
	}
	outs := make([]outcome, 0, len(steps))
	for _, sc := range steps {
		vhdr.SetPolicy(sc.Pol.policy())
		sbj, err := sy.Head(ctx)
		if err != nil || sbj == nil {
			t.Fatalf("%s: subjective head before delivery: %v", sc.Class, err)
		}
		if sc.Head {
			// make the current subjective head the newest header that is not recent
			if d := time.Duration(sbj.T+int64(recency)+int64(500*time.Millisecond)) - time.Duration(time.Now().UnixNano()); d > 0 {
				time.Sleep(d)
			}
		}
		g.mu.Lock()
		g.over, g.budget, g.n, g.calls = sc.Over, sc.Budget, 0, nil
		g.mu.Unlock()
		if err := st.Sync(ctx); err != nil {
			t.Fatal(err)
		}
		sb, err := st.Head(ctx)
		if err != nil {
			t.Fatal(err)
		}
		out := outcome{now: time.Now(), storeBefore: sb, subjBefore: sbj}
		func() {
			defer func() {
				if r := recover(); r != nil {
					out.verdict = "VPanic"
					t.Logf("delivery panicked on %s: %v", sc.Class, r)
				}
			}()
			if sc.Head {
				g.mu.Lock()
				g.armed, g.candidate, g.trusted = true, sc.New, nil
				g.mu.Unlock()
				out.verdict = "VOther" // not observable on this path
				hd, err := sy.Head(ctx)
				if err != nil || hd == nil {
					t.Logf("Syncer.Head failed on %s: %v", sc.Class, err)
					out.verdict = "VPanic"
				} else {
					out.ret = w.reg.ID(hd.Hash())
				}
				if g.armed || g.trusted != sbj {
					t.Fatalf("%s: head request not made with the subjective head as trusted head", sc.Class)
				}
			} else {
				out.verdict = observe(sub.verifier(ctx, sc.New))
			}
		}()
		g.mu.Lock()
		out.calls = append([]call(nil), g.calls...)
		g.calls = nil
		g.budget = 0
		g.mu.Unlock()
		if hd, err := sy.Head(ctx); err == nil && hd != nil {
			out.headID = w.reg.ID(hd.Hash())
		}
		if err := st.Sync(ctx); err == nil {
			if sh, err := st.Head(ctx); err == nil && sh != nil {
				out.storeAfter = w.reg.ID(sh.Hash())
			}
		}
		outs = append(outs, out)
	}
	_ = sy.Stop(ctx)
	_ = st.Stop(ctx)
	cancel()
	synctest.Wait()
	return outs
}

func (w *world) gspecTerm(sc *scen) string {
	keys := make([]uint64, 0, len(sc.Over))
	for k := range sc.Over {
		keys = append(keys, k)
	}
	sort.Slice(keys, func(i, j int) bool { return keys[i] < keys[j] })
	ov := make([]string, len(keys))
	for i, k := range keys {
		r := sc.Over[k]
		if r.err {
			ov[i] = emit.Pair(emit.N(k), "None")
		} else {
			ov[i] = emit.Pair(emit.N(k), emit.Some(w.reg.Term(r.h)))
		}
	}
	return fmt.Sprintf("(GSpec 1 %d %s %s %s)", len(w.chain)-1, emit.Z(w.t0), emit.Z(w.dt), emit.List(ov))
}

func TestC15(t *testing.T) {
	rng := emit.NewRand(emit.Seed())
	wr := emit.NewWriter("Model.Verify Model.Bifurcate Oracle.C01 Oracle.C15", "case15", "chk15")
	thorough := emit.Thorough()
	if thorough {
		wr.PerShard(400)
	} else {
		wr.PerShard(150)
	}
	wr.Rule = "a real Syncer (real Store with heads 1..S, scripted Getter) receives a candidate at distance D -- through the captured subscriber verifier, or as the (candidate, soft VerifyError) answer of the head request made by Syncer.Head() -- under a " +
		"type-level trust policy (adjacent: hash link; non-adjacent: gap <= trustRange or a modular predicate; forged ids never trusted non-adjacently); " +
		"valid / forged / malformed candidates; getter failing from request k on; getter answers replaced by wrong-height, nil, wrong-chain, " +
		"future, unordered or forked headers at a requested height; a getter answering every request with one far-away header (the F30 witness; the request budget turns a spin into an over-long request log); distinct by (D, trust policy, candidate kind, fault); non-trivial when bifurcation ran"
	reg := vhdr.NewRegistry()
	const chainLen = 420
	synctest.Test(t, func(t *testing.T) {
		spacing := int64(time.Second)
		base := time.Now().Add(-2 * time.Hour).UnixNano()
		hs := vhdr.Chain("a", 1, chainLen, base, spacing, nil)
		chain := make([]H, chainLen+1)
		for i, h := range hs {
			chain[i+1] = h
			if reg.ChainNo(h.Chain) != 1 || reg.ID(h.Hash()) != h.H {
				t.Fatalf("registry numbering: header %d has id %d", h.H, reg.ID(h.Hash()))
			}
		}
		w := &world{t: t, reg: reg, chain: chain, t0: base - spacing, dt: spacing, drift: header.VerifClockDrift()}

		emitCase := func(sc *scen, o outcome) {
			cs := make([]string, len(o.calls))
			for i, c := range o.calls {
				if c.headID >= 1000000 {
					t.Fatalf("hash id %d too large for the call encoding", c.headID)
				}
				cs[i] = new(big.Int).Add(new(big.Int).Mul(new(big.Int).SetUint64(c.h), big.NewInt(1000000)), new(big.Int).SetUint64(c.headID)).String()
			}
			term := fmt.Sprintf("Case15 %s %s %s %s %s %s %s %s %d %s %d %s %d %d",
				emit.Z(o.now.UnixNano()), emit.Z(int64(w.drift)), sc.Pol.term(reg), emit.B(sc.Head), reg.Term(o.storeBefore),
				reg.Term(o.subjBefore), reg.Term(sc.New), w.gspecTerm(sc), sc.Budget, o.verdict, o.ret, emit.List(cs), o.headID, o.storeAfter)
			var newH uint64
			if sc.New != nil {
				newH = sc.New.H
			}
			wr.Add(term, map[string]any{"class": sc.Class, "kind": sc.Kind, "store_head": o.storeBefore.H, "subj": o.subjBefore.H, "new_height": newH, "trust_range": sc.Pol.Range,
				"modular": []uint64{sc.Pol.A, sc.Pol.B, sc.Pol.C, sc.Pol.M, sc.Pol.K}, "adj_soft": sc.Pol.AdjSoft, "budget": sc.Budget,
				"overrides": len(sc.Over), "head_request_path": sc.Head, "answer": o.ret, "store_head_after": o.storeAfter, "verdict": o.verdict, "requests": len(o.calls), "head_after": o.headID}, sc.Class, len(o.calls) > 0)
			wr.Count("verdict", strings.NewReplacer("(", "", ")", "").Replace(o.verdict))
			wr.Count("kind", sc.Kind)
			if sc.Head {
				wr.Count("path", "head request (networkHead, soft answer)")
				switch {
				case sc.New != nil && o.headID == reg.ID(sc.New.Hash()):
					wr.Count("head_path_outcome", "candidate became the head")
				case o.headID == reg.ID(o.subjBefore.Hash()):
					wr.Count("head_path_outcome", "head unchanged")
				default:
					wr.Count("head_path_outcome", "an intermediate became the head")
				}
			} else {
				wr.Count("path", "subscriber verifier")
			}
			wr.Count("requests", bucket(len(o.calls)))
			wr.Count("distance", bucket(int(newH)-int(o.subjBefore.H)))
			if o.subjBefore.H > o.storeBefore.H {
				wr.Count("subjective_head", "pending target above the store head")
			} else {
				wr.Count("subjective_head", "store head")
			}
			outside := 0
			for _, c := range o.calls {
				if c.h <= o.subjBefore.H || c.h >= newH {
					outside++
				}
			}
			wr.Count("requests_not_strictly_between_the_heads", bucket(outside))
			prom := map[uint64]bool{}
			for _, c := range o.calls {
				prom[c.headID] = true
			}
			wr.Count("distinct_subjective_heads_during_search", bucket(len(prom)))
		}

		forge := func(h uint64, nonce uint64) H {
			// right height, time and chain, wrong hash link
			prev := []byte{1}
			if h >= 2 {
				prev = chain[h-1].Hash()[:16]
			}
			return &vhdr.Header{Chain: "a", H: h, T: chain[h].T, Prev: prev, Nonce: nonce}
		}

		// the same scenario with the candidate arriving as the soft-failing answer of Syncer.Head()'s head request
		headPath := func(sc *scen) {
			h := *sc
			h.Head = true
			h.Class += "/head"
			emitCase(&h, w.run(&h))
		}
		// fault variants take the two delivery paths in turn
		alt := 0
		alternate := func(f *scen) {
			alt++
			if alt%2 == 0 {
				f.Head = true
				f.Class += "/head"
			}
			emitCase(f, w.run(f))
		}
		// base scenario + its faults
		explore := func(S0, pre, D uint64, pol polSpec, kind string, faultBudget, malformed int) {
			S := S0
			if pre > S0 {
				S = pre // the subjective head the candidate is verified against
			}
			n := S + D
			// the getter stops answering a few requests after the proved bound: a search that
			// needs more is cut off there (and the excess shows in the observation)
			sc := &scen{S: S0, Pre: pre, Pol: pol, Budget: bound(D) + 3, Kind: kind}
			switch kind {
			case "valid":
				sc.New = chain[n]
			case "forged": // never trusted non-adjacently, broken link adjacently
				sc.New = forge(n, 7)
				sc.Pol.Forged = []H{sc.New}
			case "forged_unlisted": // broken link, but the type trusts it at a distance
				sc.New = forge(n, 9)
			}
			pdesc := fmt.Sprintf("tr%d", pol.Range)
			if pol.M != 0 {
				pdesc += fmt.Sprintf("+mod(%d,%d,%d,%d,%d)", pol.A, pol.B, pol.C, pol.M, pol.K)
			}
			if pol.AdjSoft {
				pdesc += "+adjsoft"
			}
			sc.Class = fmt.Sprintf("D%d/%s/%s", D, pdesc, kind)
			o := w.run(sc)
			emitCase(sc, o)
			headPath(sc)
			L := len(o.calls)
			// getter failing from request k on
			ks := map[int]bool{}
			if faultBudget < 0 || faultBudget >= L {
				for k := 0; k < L; k++ {
					ks[k] = true
				}
			} else if L > 0 {
				ks[0], ks[L-1], ks[L/2] = true, true, true
				for len(ks) < faultBudget && len(ks) < L {
					ks[rng.Intn(L)] = true
				}
			}
			kl := make([]int, 0, len(ks))
			for k := range ks {
				kl = append(kl, k)
			}
			sort.Ints(kl)
			for _, k := range kl {
				f := *sc
				f.Budget = k
				f.Kind = kind + "+getterfail"
				f.Class = fmt.Sprintf("%s/fail@%d", sc.Class, k)
				alternate(&f)
			}
			// malformed stream: replace the answer to one of the requests of the base run
			for m := 0; m < malformed && L > 0; m++ {
				j := rng.Intn(L)
				at := o.calls[j].h
				f := *sc
				f.Budget = 60 + rng.Intn(200)
				f.Over = map[uint64]resp{}
				mk := []string{"err", "nil", "above_new", "below_subj", "at_subj", "between", "wrongchain", "future", "unordered", "fork", "far_above"}[rng.Intn(11)]
				var r resp
				switch mk {
				case "err":
					r = resp{err: true}
				case "nil":
					r = resp{}
				case "above_new":
					r = resp{h: chain[n+1+uint64(rng.Intn(20))]}
				case "below_subj":
					r = resp{h: chain[1+uint64(rng.Intn(int(S)))]}
				case "at_subj":
					r = resp{h: chain[S]}
				case "between":
					r = resp{h: chain[S+1+uint64(rng.Intn(int(D)))]}
				case "wrongchain":
					c := *chain[at]
					c.Chain = "b"
					r = resp{h: &c}
				case "future":
					c := *chain[at]
					c.T = o.now.Add(w.drift).Add(time.Hour).UnixNano()
					r = resp{h: &c}
				case "unordered":
					c := *chain[at]
					c.T = chain[1].T - int64(time.Hour)
					r = resp{h: &c}
				case "fork":
					r = resp{h: forge(at, 11)}
				case "far_above":
					r = resp{h: &vhdr.Header{Chain: "a", H: ^uint64(0) - uint64(rng.Intn(3)), T: chain[n].T, Nonce: 5}}
				}
				f.Over[at] = r
				if rng.Chance(30) { // a second fault
					j2 := rng.Intn(L)
					if o.calls[j2].h != at {
						f.Over[o.calls[j2].h] = resp{h: chain[S+uint64(rng.Intn(int(D)+3))]}
					}
				}
				f.Kind = kind + "+malformed:" + mk
				f.Class = fmt.Sprintf("%s/%s@%d", sc.Class, mk, j)
				alternate(&f)
			}
		}

		kinds := []string{"valid", "forged", "forged_unlisted"}
		if thorough {
			wr.Exhaustive = true
			// every distance <= 64 x every trust range, valid and forged; every getter failure position for D <= 16
			for D := uint64(1); D <= 64; D++ {
				for tr := uint64(1); tr <= D; tr++ {
					for _, kind := range kinds[:2] {
						fb, mal := 0, 0
						if D <= 16 {
							fb = -1
						} else if tr%7 == 1 {
							fb, mal = 3, 1
						}
						explore(1+D%3, 0, D, polSpec{Range: tr}, kind, fb, mal)
					}
				}
			}
		}
		// structured sweep: boundary distances x boundary trust ranges x candidate kinds
		ds := []uint64{1, 2, 3, 4, 5, 6, 7, 8, 9, 12, 15, 16, 17, 31, 32, 33, 63, 64, 65, 100, 128, 256, 300}
		if thorough {
			ds = append(ds, 127, 129, 200, 255, 257, 299)
		}
		for _, D := range ds {
			trs := map[uint64]bool{1: true, 2: true, 3: true, D / 4: true, D / 2: true, D - 1: true, D: true, D + 1: true}
			tl := make([]uint64, 0, len(trs))
			for tr := range trs {
				if tr >= 1 {
					tl = append(tl, tr)
				}
			}
			sort.Slice(tl, func(i, j int) bool { return tl[i] < tl[j] })
			for _, tr := range tl {
				if !thorough && D > 130 && tr == 1 && D != 300 {
					continue // D*log D requests each; one of them (D=300) is enough in the quick tier
				}
				for ki, kind := range kinds {
					pol := polSpec{Range: tr, AdjSoft: (D+tr+uint64(ki))%5 == 0}
					fb, mal := 3, 1
					if thorough {
						fb, mal = 6, 3
					}
					S0 := 1 + uint64(rng.Intn(4))
					pre := uint64(0)
					if (D+tr)%3 == 0 {
						pre = S0 + 1 + uint64(rng.Intn(int(min(tr, 4)))) // within the trust range: accepted directly
					}
					explore(S0, pre, D, pol, kind, fb, mal)
				}
			}
		}
		// random distances, non-monotone (modular) trust predicates
		extra := 110
		if thorough {
			extra = 1500
		}
		for i := 0; i < extra; i++ {
			D := 1 + uint64(rng.Intn(300))
			if rng.Chance(50) {
				D = 1 + uint64(rng.Intn(40))
			}
			m := 2 + uint64(rng.Intn(12))
			pol := polSpec{Range: 1 + uint64(rng.Intn(int(D)/3+2)), A: uint64(rng.Intn(7)), B: 1 + uint64(rng.Intn(7)), C: uint64(rng.Intn(5)),
				M: m, K: uint64(rng.Intn(int(m))), AdjSoft: rng.Chance(20)}
			if rng.Chance(25) {
				pol.Range = 1 // only the predicate decides
			}
			S0 := 1 + uint64(rng.Intn(4))
			pre := uint64(0)
			if rng.Chance(40) {
				pre = S0 + 1 + uint64(rng.Intn(int(min(pol.Range, 4))))
			}
			explore(S0, pre, D, pol, kinds[rng.Intn(3)], 2, 2)
		}
		// uint64 wrap-around: a getter that answers with trusted headers ABOVE the candidate. Each is promoted,
		// the candidate then fails with ErrKnownHeader, diff = new - subj wraps, and the next requested height
		// is computed with wrapped arithmetic (answered again, a few times, then the getter fails).
		for _, D := range []uint64{2, 3, 5, 16, 33, 100} {
			for _, k := range []uint64{1, 2, 5, 8} {
				S := uint64(3)
				n := S + D
				nh := forge(n, 40+k)
				sc := &scen{S: S, Pol: polSpec{Range: 1000, Forged: []H{nh}}, New: nh, Over: map[uint64]resp{}, Budget: 40,
					Kind: "wrap", Class: fmt.Sprintf("wrap/D%d/k%d", D, k)}
				cur := n + k
				sc.Over[S+D/2] = resp{h: chain[cur]}
				for j := uint64(0); j < 3; j++ {
					diff := n - cur // wraps
					at := cur + diff/2
					cur = cur + 1 + j
					sc.Over[at] = resp{h: chain[cur]}
				}
				emitCase(sc, w.run(sc))
				headPath(sc)
			}
		}
		// finding F30 (fixed by the height check in verifyBifurcating): a getter that answers EVERY request with
		// the same far-away header of the chain (rejected softly each time: not trusted at that distance). The
		// unfixed loop halves diff down to 0 and then asks for the subjective head's own height for ever; here the
		// getter fails after Budget requests, so the spin shows as a request log longer than the proved bound
		// instead of a hang. With the check the first answer (not of the asked height) ends the search: one request.
		// The first case is the witness of Props/C15.v C15_ex_wrong_height_getter_refused (subj 10, candidate 30,
		// trust range 3), delivered on both paths.
		for _, sp := range []struct{ S, D, far, tr uint64 }{{10, 20, 400, 3}, {3, 2, 9, 1}, {5, 7, 100, 2}, {4, 64, 70, 1}, {2, 300, 419, 8}, {7, 33, 3, 4}, {6, 16, 6, 2}} {
			n := sp.S + sp.D
			sc := &scen{S: sp.S, Pol: polSpec{Range: sp.tr}, New: chain[n], Over: map[uint64]resp{}, Budget: bound(sp.D) + 40,
				Kind: "wrong_height_everywhere", Class: fmt.Sprintf("spin/S%d/D%d/far%d", sp.S, sp.D, sp.far)}
			for d := sp.D; ; d /= 2 {
				sc.Over[sp.S+d/2] = resp{h: chain[sp.far]}
				if d == 0 {
					break
				}
			}
			emitCase(sc, w.run(sc))
			headPath(sc)
		}
		// several deliveries to ONE Syncer, the getter's fault script changing in between: each delivery must be
		// judged on its own (against the subjective head the earlier ones left) -- the Syncer keeps no memory of
		// earlier candidates. In particular a candidate refused only because an intermediate could not be
		// fetched must be accepted when it comes again and the getter serves the intermediates.
		seqDs := []uint64{2, 3, 5, 9, 16, 33, 64}
		if thorough {
			seqDs = []uint64{2, 3, 4, 5, 6, 7, 8, 9, 12, 16, 17, 31, 33, 64, 65, 100, 200}
		}
		seqNo := 0
		for _, D := range seqDs {
			for _, tr := range []uint64{1, 2, D/3 + 1} {
				if tr >= D {
					continue
				}
				S := 1 + uint64(rng.Intn(3))
				pre := uint64(0)
				if (D+tr)%4 == 0 {
					pre = S + 1
				}
				s0 := max(S, pre)
				n := s0 + D
				pol := polSpec{Range: tr, AdjSoft: (D+tr)%5 == 0}
				fg := forge(n, 60)
				fg2 := forge(s0+(D+1)/2, 61) // a forged candidate half way: its refusal leaves the head below n
				polF := pol
				polF.Forged = []H{fg, fg2}
				big := bound(D+8) + 3
				mk := func(kind string, nw H, budget int, head bool) *scen {
					return &scen{S: S, Pre: pre, Pol: polF, New: nw, Budget: budget, Kind: "seq:" + kind, Head: head}
				}
				// requests of a single healthy delivery, to place the getter failure
				L := len(w.run(mk("probe", chain[n], big, false)).calls)
				ks := []int{0}
				if L > 1 {
					ks = append(ks, L-1)
				}
				if L > 2 {
					ks = append(ks, L/2)
				}
				if thorough && D <= 12 {
					ks = ks[:0]
					for k := 0; k < L; k++ {
						ks = append(ks, k)
					}
				}
				var seqs [][]*scen
				for _, k := range ks {
					seqNo++
					h1, h2 := seqNo%2 == 1, (seqNo/2)%2 == 1
					// refused for a fetch failure, then the same candidate again with a healthy getter
					seqs = append(seqs, []*scen{mk(fmt.Sprintf("valid+getterfail@%d", k), chain[n], k, h1), mk("same_again", chain[n], big, h2)})
					// ... with a forged candidate refused in between
					seqs = append(seqs, []*scen{mk(fmt.Sprintf("valid+getterfail@%d", k), chain[n], k, h2), mk("forged_between", fg2, big, h1),
						mk("same_again", chain[n], big, !h1)})
					// the forged candidate: fetch failure, then refused for real, then the valid one at its height
					seqs = append(seqs, []*scen{mk(fmt.Sprintf("forged+getterfail@%d", k), fg, k, h1), mk("forged_again", fg, big, !h2), mk("valid_after", chain[n], big, h2)})
				}
				// a fetch failure, then a different (further) candidate, then the first one again (known by then)
				seqs = append(seqs, []*scen{mk("valid+getterfail@0", chain[n], 0, false), mk("other_valid", chain[n+4], big, true), mk("first_again", chain[n], big, false)})
				// the same forged candidate twice, a valid further one afterwards
				seqs = append(seqs, []*scen{mk("forged", fg, big, true), mk("forged_again", fg, big, false), mk("valid_after", chain[n+2], big, true)})
				// accepted, then delivered again
				seqs = append(seqs, []*scen{mk("valid", chain[n], big, false), mk("same_again", chain[n], big, true)})
				for si, steps := range seqs {
					outs := w.runSeq(S, pre, steps)
					for i, o := range outs {
						path := "v"
						if steps[i].Head {
							path = "h"
						}
						steps[i].Class = fmt.Sprintf("seq/D%d/tr%d/%d/#%d:%s/%s", D, tr, si, i, strings.TrimPrefix(steps[i].Kind, "seq:"), path)
						emitCase(steps[i], o)
						wr.Count("delivery_number_on_the_same_syncer", fmt.Sprint(i+1))
					}
				}
			}
		}
		// candidates that fail the direct verification hard, or are accepted directly: no getter use at all
		for i, mk := range []string{"known", "equal", "wrongchain", "future", "unordered", "adjacent_valid", "adjacent_forged", "adjacent_forged_soft"} {
			S := uint64(3)
			sc := &scen{S: S, Pol: polSpec{Range: 2}, Budget: maxBudget, Kind: "direct:" + mk, Class: "direct/" + mk}
			c := *chain[S+10]
			switch mk {
			case "known":
				sc.New = chain[S-1]
			case "equal":
				sc.New = chain[S]
			case "wrongchain":
				c.Chain = "b"
				sc.New = &c
			case "future":
				c.T = time.Now().Add(w.drift).Add(time.Hour).UnixNano()
				sc.New = &c
			case "unordered":
				c.T = chain[1].T - 5
				sc.New = &c
			case "adjacent_valid":
				sc.New = chain[S+1]
			case "adjacent_forged":
				sc.New = forge(S+1, uint64(20+i))
			case "adjacent_forged_soft":
				sc.New = forge(S+1, uint64(20+i))
				sc.Pol.AdjSoft = true
			}
			emitCase(sc, w.run(sc))
			headPath(sc)
		}
	})
	vhdr.SetPolicy(nil)
	if err := wr.Flush(); err != nil {
		t.Fatal(err)
	}
	t.Logf("emitted %d cases", wr.Len())
}

func bucket(n int) string {
	switch {
	case n <= 0:
		return "0"
	case n <= 3:
		return fmt.Sprint(n)
	case n <= 8:
		return "4-8"
	case n <= 16:
		return "9-16"
	case n <= 64:
		return "17-64"
	case n <= 256:
		return "65-256"
	default:
		return ">256"
	}
}
