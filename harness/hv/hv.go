// Package hv holds helpers shared by the Verify/VerifyRange drivers.
package hv

import (
	"errors"
	"fmt"

	header "github.com/celestiaorg/go-header"

	"verifharness/emit"
	"verifharness/vhdr"
)

var sentinels = []struct {
	e    error
	name string
}{{header.ErrZeroHeader, "EZero"}, {header.ErrWrongChainID, "EWrongChain"}, {header.ErrKnownHeader, "EKnown"},
	{header.ErrUnorderedTime, "EUnordered"}, {header.ErrFromFuture, "EFuture"}}

// Observe maps an error of Verify/VerifyRange to the Coq [eobs] term.
func Observe(err error) string {
	if err == nil {
		return "ONil"
	}
	var ve *header.VerifyError
	if !errors.As(err, &ve) {
		return "OOther"
	}
	// the statement: every rejection IS a *VerifyError (not merely wraps one)
	if _, ok := err.(*header.VerifyError); !ok {
		return "OOther"
	}
	for _, s := range sentinels {
		if errors.Is(err, s.e) {
			return fmt.Sprintf("(OSent %s %s)", s.name, emit.B(ve.SoftFailure))
		}
	}
	if errors.Is(err, header.ErrEmptyRange) {
		return fmt.Sprintf("(OEmptyRange %s)", emit.B(ve.SoftFailure))
	}
	if errors.Is(err, header.ErrNonAdjacentRange) {
		return fmt.Sprintf("(ONonAdj %s)", emit.B(ve.SoftFailure))
	}
	var te *vhdr.TypeErr
	if errors.As(err, &te) {
		return fmt.Sprintf("(OType %d %s)", te.ID, emit.B(ve.SoftFailure))
	}
	return "OOther"
}

type TV struct {
	Term string
	F    func() error
}

func TVs() []TV {
	return []TV{
		{"TVOk", func() error { return nil }},
		{"(TVPlain 7)", func() error { return &vhdr.TypeErr{ID: 7} }},
		{"(TVVerr false 8)", func() error { return &header.VerifyError{Reason: &vhdr.TypeErr{ID: 8}} }},
		{"(TVVerr true 9)", func() error { return &header.VerifyError{Reason: &vhdr.TypeErr{ID: 9}, SoftFailure: true} }},
		{"(TVWrapped false 10)", func() error { return fmt.Errorf("w: %w", &header.VerifyError{Reason: &vhdr.TypeErr{ID: 10}}) }},
		{"(TVWrapped true 11)", func() error {
			return fmt.Errorf("w: %w", &header.VerifyError{Reason: &vhdr.TypeErr{ID: 11}, SoftFailure: true})
		}},
	}
}


// ---- extension (audit follow-up C01): type-level results as Go objects ----

// Wrap is a wrapper error with an identity (errors.As finds it while it is part of a chain).
type Wrap struct {
	ID  uint64
	Err error
}

func (w *Wrap) Error() string { return fmt.Sprintf("wrap %d: %v", w.ID, w.Err) }
func (w *Wrap) Unwrap() error { return w.Err }

// Mark is the identity of a fmt.Errorf("%w | %w", &Mark{ID}, inner) wrapper.
type Mark struct{ ID uint64 }

func (m *Mark) Error() string { return fmt.Sprintf("mark %d", m.ID) }

// WrapErr wraps inner under the identity id: a struct wrapper for odd ids, fmt.Errorf with %w for even ones.
func WrapErr(id uint64, inner error) error {
	if id%2 == 0 {
		return fmt.Errorf("%w | %w", &Mark{ID: id}, inner)
	}
	return &Wrap{ID: id, Err: inner}
}

// WrapperOf reports the wrapper identity still reachable from err.
func WrapperOf(err error) (uint64, bool) {
	var w *Wrap
	if errors.As(err, &w) {
		return w.ID, true
	}
	var m *Mark
	if errors.As(err, &m) {
		return m.ID, true
	}
	return 0, false
}

// ObserveX maps the outcome of one Verify call to the Coq [xobs] term.
func ObserveX(err error, panicked bool) string {
	if panicked {
		return "XOPanic"
	}
	if err == nil {
		return "XONil"
	}
	ve, isVE := err.(*header.VerifyError)
	if !isVE {
		// the statement: every rejection IS a *VerifyError (not merely wraps one)
		return "XOOther"
	}
	if ve == nil {
		return "XONilPtr"
	}
	for _, s := range sentinels {
		if errors.Is(err, s.e) {
			return fmt.Sprintf("(XOSent %s %s)", s.name, emit.B(ve.SoftFailure))
		}
	}
	var te *vhdr.TypeErr
	if errors.As(err, &te) {
		via := "None"
		if id, ok := WrapperOf(err); ok {
			via = fmt.Sprintf("(Some %d)", id)
		}
		return fmt.Sprintf("(XOType %d %s %s)", te.ID, emit.B(ve.SoftFailure), via)
	}
	return "XOOther"
}
