// Package hv holds helpers shared by the Verify/VerifyRange drivers.
package hv

import (
	"errors"
	"fmt"

	header "github.com/celestiaorg/go-header"

	"verifharness/emit"
	"verifharness/vhdr"
)

var sentinels = []struct {
	e    error
	name string
}{{header.ErrZeroHeader, "EZero"}, {header.ErrWrongChainID, "EWrongChain"}, {header.ErrKnownHeader, "EKnown"},
	{header.ErrUnorderedTime, "EUnordered"}, {header.ErrFromFuture, "EFuture"}}

// Observe maps an error of Verify/VerifyRange to the Coq [eobs] term.
func Observe(err error) string {
	if err == nil {
		return "ONil"
	}
	var ve *header.VerifyError
	if !errors.As(err, &ve) {
		return "OOther"
	}
	// the statement: every rejection IS a *VerifyError (not merely wraps one)
	if _, ok := err.(*header.VerifyError); !ok {
		return "OOther"
	}
	for _, s := range sentinels {
		if errors.Is(err, s.e) {
			return fmt.Sprintf("(OSent %s %s)", s.name, emit.B(ve.SoftFailure))
		}
	}
	if errors.Is(err, header.ErrEmptyRange) {
		return fmt.Sprintf("(OEmptyRange %s)", emit.B(ve.SoftFailure))
	}
	if errors.Is(err, header.ErrNonAdjacentRange) {
		return fmt.Sprintf("(ONonAdj %s)", emit.B(ve.SoftFailure))
	}
	var te *vhdr.TypeErr
	if errors.As(err, &te) {
		return fmt.Sprintf("(OType %d %s)", te.ID, emit.B(ve.SoftFailure))
	}
	return "OOther"
}

type TV struct {
	Term string
	F    func() error
}

func TVs() []TV {
	return []TV{
		{"TVOk", func() error { return nil }},
		{"(TVPlain 7)", func() error { return &vhdr.TypeErr{ID: 7} }},
		{"(TVVerr false 8)", func() error { return &header.VerifyError{Reason: &vhdr.TypeErr{ID: 8}} }},
		{"(TVVerr true 9)", func() error { return &header.VerifyError{Reason: &vhdr.TypeErr{ID: 9}, SoftFailure: true} }},
		{"(TVWrapped false 10)", func() error { return fmt.Errorf("w: %w", &header.VerifyError{Reason: &vhdr.TypeErr{ID: 10}}) }},
		{"(TVWrapped true 11)", func() error {
			return fmt.Errorf("w: %w", &header.VerifyError{Reason: &vhdr.TypeErr{ID: 11}, SoftFailure: true})
		}},
	}
}

