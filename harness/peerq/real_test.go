//go:build verif

package peerq

import (
	"context"

	"github.com/celestiaorg/go-header/p2p"
)

func init() {
	newQueue = func(ctx context.Context, ids []string, scores []float32) pq {
		return p2p.VerifNewPeerQueue(ctx, ids, scores)
	}
}
