//go:build verif

// Package peerq drives the session's peerQueue (p2p/peer_stats.go) through the accessor
// p2p/peerq_verif.go and emits what it saw as Coq cases (PQSeq / PQConc).
package peerq

import (
	"context"
	"encoding/json"
	"fmt"
	"math"
	"os"
	"path/filepath"
	"runtime"
	"sync"
	"sync/atomic"
	"testing"
	"testing/synctest"
	"time"

	"verifharness/emit"
)

// fixEmptyShards rewrites stats.json of a run without cases so that "shards" is an empty list.
func fixEmptyShards() error {
	dir := os.Getenv("VERIF_OUT")
	if dir == "" {
		dir = "."
	}
	p := filepath.Join(dir, "stats.json")
	b, err := os.ReadFile(p)
	if err != nil {
		return err
	}
	var st map[string]any
	if err := json.Unmarshal(b, &st); err != nil {
		return err
	}
	if st["shards"] == nil {
		st["shards"] = []string{}
	}
	if b, err = json.MarshalIndent(st, "", " "); err != nil {
		return err
	}
	return os.WriteFile(p, b, 0o644)
}

// pq is the part of p2p.VerifPeerQueue the driver uses.
type pq interface {
	Push(id string, score float32)
	PushBack(id string) bool
	WaitPop(ctx context.Context) (id string, score float32, ok bool)
	UpdateStats(id string, amount int, d time.Duration) (float32, bool)
	DecreaseScore(id string) (float32, bool)
	Len() int
	Tokens() int
	Cap() int
	Snapshot() (ids []string, scores []float32)
}

// newQueue is set by real_test.go (build tag peerqhook); nil means the accessor is not compiled in.
var newQueue func(ctx context.Context, ids []string, scores []float32) pq

const unknownID = 999999

var palette = []float32{0, float32(math.Copysign(0, -1)), 1, 1, 1, 2.5, -1, -3.5, 10, 0.001, 100, 7, 7}
var amounts = []int{0, 1, 100, 4096}
var durs = []time.Duration{0, time.Millisecond, 3 * time.Millisecond, 250 * time.Millisecond}

// key embeds a finite float32 into Z, preserving the order; -0 and 0 both map to 0.
func key(f float32) int64 {
	if f == 0 {
		return 0
	}
	bits := math.Float32bits(f)
	if bits&0x80000000 == 0 {
		return int64(bits)
	}
	return -int64(bits & 0x7fffffff)
}

func idStr(n int) string { return fmt.Sprintf("p%d", n) }

func idNum(id string) uint64 {
	var n uint64
	if _, err := fmt.Sscanf(id, "p%d", &n); err != nil || fmt.Sprintf("p%d", n) != id {
		return unknownID
	}
	return n
}

func entry(id string, score float32) string { return emit.Pair(emit.N(idNum(id)), emit.Z(key(score))) }

func entries(ids []string, scores []float32) []string {
	out := make([]string, len(ids))
	for i := range ids {
		out[i] = entry(ids[i], scores[i])
	}
	return out
}

func drawScore(rng *emit.Rand) float32 {
	if rng.Chance(15) {
		return float32(rng.Intn(2_000_001)-1_000_000) / 1000
	}
	return palette[rng.Intn(len(palette))]
}

// change is a score change of one peerStat: "" (none), "dec" (decreaseScore), "upd" (updateStats).
type change struct {
	kind   string
	amount int
	dur    time.Duration
}

func drawChange(rng *emit.Rand) change {
	if rng.Bool() {
		return change{kind: "dec"}
	}
	return change{kind: "upd", amount: amounts[rng.Intn(len(amounts))], dur: durs[rng.Intn(len(durs))]}
}

func (c change) String() string {
	switch c.kind {
	case "dec":
		return "dec"
	case "upd":
		return fmt.Sprintf("upd(%d,%s)", c.amount, c.dur)
	}
	return "none"
}

func applyChange(q pq, id string, c change) (float32, bool) {
	switch c.kind {
	case "dec":
		return q.DecreaseScore(id)
	case "upd":
		return q.UpdateStats(id, c.amount, c.dur)
	}
	return 0, false
}

// ---------------------------------------------------------------------------------------------
// sequential cases

type opSpec struct {
	kind   string  // pop | push_fresh | push_back | env
	score  float32 // push_fresh
	target string  // push_back: an id that is out ("" = first out); env: an id inside ("last" = last array element)
	ch     change  // push_back: change while out (may be none); env: the change
}

type seqState struct {
	q        pq
	inside   []string // ids in the heap (including those whose pusher still waits for a slot)
	out      []string // ids popped and not pushed back, in pop order
	outScore map[string]float32
	next     int // next fresh id
}

func remove(xs []string, x string) []string {
	for i, y := range xs {
		if y == x {
			return append(xs[:i:i], xs[i+1:]...)
		}
	}
	return xs
}

func contains(xs []string, x string) bool {
	for _, y := range xs {
		if y == x {
			return true
		}
	}
	return false
}

func safePop(q pq, ctx context.Context) (id string, score float32, ok, panicked bool) {
	defer func() {
		if r := recover(); r != nil {
			panicked = true
		}
	}()
	id, score, ok = q.WaitPop(ctx)
	return
}

// runSeq runs one sequential case in its own bubble and emits it.
func runSeq(t *testing.T, w *emit.Writer, kind string, scores []float32, sub uint64, gen func(*seqState) (opSpec, bool)) {
	n := len(scores)
	synctest.Test(t, func(t *testing.T) {
		ctx, cancel := context.WithCancel(context.Background())
		ids := make([]string, n)
		for i := range ids {
			ids[i] = idStr(i)
		}
		q := newQueue(ctx, ids, scores)
		st := &seqState{q: q, inside: append([]string(nil), ids...), outScore: map[string]float32{}, next: n}
		init := entries(ids, scores)

		var panicked atomic.Bool
		var blocked []chan struct{}
		settle := func() {
			synctest.Wait()
			keep := blocked[:0]
			for _, d := range blocked {
				select {
				case <-d:
				default:
					keep = append(keep, d)
				}
			}
			blocked = keep
		}
		// push runs f like a session goroutine returning a peer; it reports whether f came back.
		push := func(f func()) string {
			done := make(chan struct{})
			go func() {
				defer close(done)
				defer func() {
					if r := recover(); r != nil {
						panicked.Store(true)
					}
				}()
				f()
			}()
			synctest.Wait()
			select {
			case <-done:
				return "ODone"
			default:
				blocked = append(blocked, done)
				return "OBlocked"
			}
		}

		var ops, obs, opNames []string
		hasEnv, sawBlockedPush, sawBlockedPop := false, false, false
		for {
			sp, more := gen(st)
			if !more {
				break
			}
			var opTerm, ob string
			switch sp.kind {
			case "pop":
				opTerm = "SPop"
				opNames = append(opNames, "pop")
				pctx, pcancel := context.WithTimeout(ctx, time.Second)
				id, sc, ok, pan := safePop(q, pctx)
				pcancel()
				switch {
				case pan:
					panicked.Store(true)
					ob = "OPanic"
				case ok:
					ob = fmt.Sprintf("(OPopped %s %s)", emit.N(idNum(id)), emit.Z(key(sc)))
					st.inside = remove(st.inside, id)
					if !contains(st.out, id) {
						st.out = append(st.out, id)
					}
					st.outScore[id] = sc
				default:
					ob = "OBlocked"
					sawBlockedPop = true
					if l := q.Len(); l > 0 {
						w.Count("odd", "seq: a pop timed out although the heap held peers")
					}
				}
			case "push_fresh":
				id := idStr(st.next)
				st.next++
				opTerm = fmt.Sprintf("(SPush %s %s)", emit.N(idNum(id)), emit.Z(key(sp.score)))
				opNames = append(opNames, fmt.Sprintf("push_fresh %s %v", id, sp.score))
				st.inside = append(st.inside, id)
				ob = push(func() { q.Push(id, sp.score) })
				if ob == "OBlocked" {
					sawBlockedPush = true
				}
			case "push_back":
				id := sp.target
				if id == "" {
					id = st.out[0]
				}
				sc := st.outScore[id]
				if ns, ok := applyChange(q, id, sp.ch); ok {
					sc = ns
				}
				opTerm = fmt.Sprintf("(SPush %s %s)", emit.N(idNum(id)), emit.Z(key(sc)))
				opNames = append(opNames, fmt.Sprintf("push_back %s %s -> %v", id, sp.ch, sc))
				st.out = remove(st.out, id)
				delete(st.outScore, id)
				st.inside = append(st.inside, id)
				ob = push(func() { q.PushBack(id) })
				if ob == "OBlocked" {
					sawBlockedPush = true
				}
			case "env":
				id := sp.target
				if id == "last" {
					sids, _ := q.Snapshot()
					id = sids[len(sids)-1]
				}
				ns, _ := applyChange(q, id, sp.ch)
				opTerm = fmt.Sprintf("(SEnv %s %s)", emit.N(idNum(id)), emit.Z(key(ns)))
				opNames = append(opNames, fmt.Sprintf("env %s %s -> %v", id, sp.ch, ns))
				ob = "ODone"
				hasEnv = true
			default:
				t.Fatalf("unknown op kind %q", sp.kind)
			}
			settle()
			if panicked.Load() {
				ob = "OPanic"
			}
			ops = append(ops, opTerm)
			obs = append(obs, ob)
			w.Count("op", sp.kind)
			if len(ob) > 8 && ob[:8] == "(OPopped" {
				w.Count("obs", "OPopped")
			} else {
				w.Count("obs", sp.kind+"/"+ob)
			}
			if ob == "OPanic" {
				break
			}
		}
		settle()
		fids, fscores := q.Snapshot()
		tok := q.Tokens()
		pend := len(blocked)
		term := fmt.Sprintf("(PQSeq %s %s %s %s %s %s)", emit.List(init), emit.List(ops), emit.List(obs),
			emit.List(entries(fids, fscores)), emit.N(uint64(tok)), emit.N(uint64(pend)))
		class := fmt.Sprintf("seq/n%d/len%d/env%v/blockedpush%v/blockedpop%v", n, len(ops)/8, hasEnv, sawBlockedPush, sawBlockedPop)
		w.Add(term, map[string]any{"kind": kind, "n": n, "ops": opNames, "seed": emit.Seed(), "subseed": sub}, class, len(ops) > 0)
		beat.Add(1)
		w.Count("family", kind)
		w.Count("n", fmt.Sprint(n))
		w.Count("pend", fmt.Sprint(pend))
		if hasEnv {
			w.Count("seq_kind", "with_env")
		} else {
			w.Count("seq_kind", "no_env")
		}
		if q.Len() > 0 && tok == 0 && pend == 0 {
			w.Count("odd", "seq: peers in the heap, no token, no pending pusher")
		}

		// let the blocked pushers go, so that the bubble can end
		for i := 0; len(blocked) > 0 && i < 4*(len(fids)+4); i++ {
			pctx, pcancel := context.WithTimeout(ctx, time.Second)
			safePop(q, pctx)
			pcancel()
			settle()
		}
		cancel()
		synctest.Wait()
	})
}

// scripted replays a fixed op list.
func scripted(ops []opSpec) func(*seqState) (opSpec, bool) {
	i := 0
	return func(*seqState) (opSpec, bool) {
		if i >= len(ops) {
			return opSpec{}, false
		}
		i++
		return ops[i-1], true
	}
}

// randomOps draws up to maxOps ops; phases (drain and pop once more / fill beyond the capacity and pop)
// make blocked pops and blocked pushes regular.
func randomOps(rng *emit.Rand, maxOps int, withEnv bool) func(*seqState) (opSpec, bool) {
	L := rng.Intn(maxOps + 1)
	count := 0
	var forced []string
	return func(st *seqState) (opSpec, bool) {
		if count >= L {
			return opSpec{}, false
		}
		count++
		kind := ""
		if len(forced) == 0 {
			switch r := rng.Intn(100); {
			case r < 10: // drain completely and pop once more
				for i := 0; i < len(st.inside)+1; i++ {
					forced = append(forced, "pop")
				}
			case r < 20: // fill the channel, push 1-3 more, then pop
				free := st.q.Cap() - st.q.Tokens()
				extra := 1 + rng.Intn(3)
				for i := 0; i < free+extra; i++ {
					forced = append(forced, "push_any")
				}
				for i, m := 0, 1+rng.Intn(extra+1); i < m; i++ {
					forced = append(forced, "pop")
				}
			case r < 48:
				forced = append(forced, "pop_r")
			case r < 72:
				forced = append(forced, "push_back")
			case r < 82:
				forced = append(forced, "push_fresh")
			default:
				forced = append(forced, "env")
			}
		}
		kind, forced = forced[0], forced[1:]
		if kind == "pop_r" {
			kind = "pop"
			if len(st.inside) == 0 && rng.Chance(70) { // pops on the empty queue come from the drain phase already
				kind = "push_any"
			}
		}
		if kind == "push_any" {
			if len(st.out) > 0 && rng.Chance(60) {
				kind = "push_back"
			} else {
				kind = "push_fresh"
			}
		}
		if kind == "env" && (!withEnv || len(st.inside) == 0) {
			kind = "pop"
		}
		if kind == "push_back" && len(st.out) == 0 {
			if len(st.inside) > 0 {
				kind = "pop"
			} else {
				kind = "push_fresh"
			}
		}
		sp := opSpec{kind: kind}
		switch kind {
		case "push_fresh":
			sp.score = drawScore(rng)
		case "push_back":
			sp.target = st.out[rng.Intn(len(st.out))]
			if rng.Bool() {
				sp.ch = drawChange(rng)
			}
		case "env":
			sp.target = st.inside[rng.Intn(len(st.inside))]
			sp.ch = drawChange(rng)
		}
		return sp, true
	}
}

func boundaryCases() []struct {
	scores []float32
	ops    []opSpec
} {
	pop := opSpec{kind: "pop"}
	pops := func(k int) []opSpec {
		out := make([]opSpec, k)
		for i := range out {
			out[i] = pop
		}
		return out
	}
	fresh := func(s float32) opSpec { return opSpec{kind: "push_fresh", score: s} }
	back := opSpec{kind: "push_back"}
	negz := float32(math.Copysign(0, -1))
	type bc = struct {
		scores []float32
		ops    []opSpec
	}
	return []bc{
		{nil, []opSpec{pop}},
		{nil, []opSpec{fresh(1), pop}},
		{nil, []opSpec{fresh(1), fresh(7), pop, pop, pop}},
		{[]float32{1}, []opSpec{pop, pop, back, pop}},
		{[]float32{1, 1, 1}, pops(3)},
		{[]float32{0, negz, 0}, pops(3)},
		{[]float32{7, 7, 7, 7, 7, 7, 7}, pops(7)},
		{[]float32{1, 2, 3, 4, 5}, pops(5)},
		{[]float32{5, 4, 3, 2, 1}, pops(5)},
		{[]float32{10, 7, 2.5, 1}, []opSpec{{kind: "env", target: "last", ch: change{kind: "upd", amount: 4096}}, pop, pop}},
		{[]float32{10, 7, 2.5, 1}, []opSpec{{kind: "env", target: "p0", ch: change{kind: "dec"}}, {kind: "env", target: "p0", ch: change{kind: "dec"}}, pop, pop}},
		{[]float32{1, 2}, append([]opSpec{fresh(7), fresh(0.001)}, pops(4)...)},
	}
}

// ---------------------------------------------------------------------------------------------
// concurrent cases

func u64s(xs []uint64) string {
	out := make([]string, len(xs))
	for i, x := range xs {
		out[i] = emit.N(x)
	}
	return emit.List(out)
}

func runConc(t *testing.T, w *emit.Writer, rng *emit.Rand, hammer bool) {
	sub := rng.U64()
	rng = emit.NewRand(sub)
	var n, k, rounds int
	if hammer {
		n, k, rounds = 1+rng.Intn(3), 8+rng.Intn(9), 200
	} else {
		n, k, rounds = 1+rng.Intn(6), 1+rng.Intn(8), 3+rng.Intn(10)
	}
	ids := make([]string, n)
	scores := make([]float32, n)
	for i := range ids {
		ids[i] = idStr(i)
		scores[i] = drawScore(rng)
	}
	grngs := make([]*emit.Rand, k)
	for g := range grngs {
		grngs[g] = emit.NewRand(rng.U64())
	}
	synctest.Test(t, func(t *testing.T) {
		ctx, cancel := context.WithCancel(context.Background())
		q := newQueue(ctx, ids, scores)

		var mu sync.Mutex // guards everything below
		logs := make([][]uint64, k)
		var dropped []uint64
		var blocked []chan struct{}
		panicked, lostwake, pushblocked := false, false, false
		timeouts := 0

		var wg sync.WaitGroup
		for g := 0; g < k; g++ {
			wg.Add(1)
			go func(g int, grng *emit.Rand) {
				defer wg.Done()
				defer func() {
					if r := recover(); r != nil {
						mu.Lock()
						panicked = true
						mu.Unlock()
					}
				}()
				for r := 0; r < rounds; r++ {
					to := 5 * time.Millisecond
					if !hammer {
						to = time.Duration(10*(1+grng.Intn(5))+5) * time.Millisecond
					}
					pctx, pcancel := context.WithTimeout(ctx, to)
					id, _, ok := q.WaitPop(pctx)
					pcancel()
					if !ok {
						tk := q.Tokens()
						mu.Lock()
						timeouts++
						if tk > 0 {
							lostwake = true // gave up although a peer was announced
						}
						mu.Unlock()
						if !hammer {
							// back to the 10ms grid: pops and pushes happen at multiples of 10ms,
							// timeouts at odd multiples of 5ms, so the check above races with no push
							time.Sleep(5 * time.Millisecond)
						}
						continue
					}
					mu.Lock()
					logs[g] = append(logs[g], idNum(id))
					mu.Unlock()
					back := true
					if !hammer {
						if s := grng.Intn(4); s == 0 {
							runtime.Gosched()
						} else {
							time.Sleep(time.Duration(s) * 10 * time.Millisecond)
						}
						switch c := grng.Intn(10); {
						case c < 3:
							q.DecreaseScore(id)
						case c < 5:
							q.UpdateStats(id, amounts[grng.Intn(len(amounts))], durs[grng.Intn(len(durs))])
						}
						back = grng.Chance(80)
					}
					if !back {
						mu.Lock()
						dropped = append(dropped, idNum(id))
						mu.Unlock()
						continue
					}
					done := make(chan struct{})
					go func() {
						defer close(done)
						defer func() {
							if r := recover(); r != nil {
								mu.Lock()
								panicked = true
								mu.Unlock()
							}
						}()
						q.PushBack(id)
					}()
					tm := time.NewTimer(time.Hour)
					select {
					case <-done:
						tm.Stop()
					case <-tm.C:
						mu.Lock()
						pushblocked = true
						blocked = append(blocked, done)
						mu.Unlock()
						return
					}
				}
			}(g, grngs[g])
		}
		wg.Wait()
		synctest.Wait()

		mu.Lock()
		fids, _ := q.Snapshot()
		tok := q.Tokens()
		final := make([]uint64, len(fids))
		for i, id := range fids {
			final[i] = idNum(id)
		}
		logTerms := make([]string, k)
		total := 0
		for g := range logs {
			total += len(logs[g])
			l := logs[g]
			if hammer && len(l) > 20 {
				l = l[:20]
			}
			logTerms[g] = u64s(l)
		}
		term := fmt.Sprintf("(PQConc %s %s %s %s %s %s %s %s %s)", emit.List(entries(ids, scores)), emit.N(uint64(k)),
			emit.List(logTerms), u64s(dropped), u64s(final), emit.N(uint64(tok)), emit.B(panicked), emit.B(lostwake), emit.B(pushblocked))
		fam, class := "conc", fmt.Sprintf("conc/n%d/k%d/drop%v", n, k, len(dropped) > 0)
		if hammer {
			fam, class = "hammer", fmt.Sprintf("hammer/n%d/k%d", n, k)
		}
		w.Add(term, map[string]any{"kind": fam, "n": n, "k": k, "rounds": rounds, "pops": total, "timeouts": timeouts,
			"dropped": len(dropped), "seed": emit.Seed(), "subseed": sub}, class, true)
		beat.Add(1)
		w.Count("family", fam)
		w.Count(fam+"_n", fmt.Sprint(n))
		w.Count(fam+"_k", fmt.Sprint(k))
		w.Count(fam+"_flags", fmt.Sprintf("panicked=%v lostwake=%v pushblocked=%v", panicked, lostwake, pushblocked))
		if timeouts > 0 {
			w.Count(fam+"_timeouts", "some")
		} else {
			w.Count(fam+"_timeouts", "none")
		}
		if len(fids) != tok {
			w.Count("odd", fam+": tokens differ from the heap length at rest")
		}
		if len(fids)+len(dropped) != n {
			w.Count("odd", fam+": final + dropped is not the initial peer set")
		}

		blockedNow := append([]chan struct{}(nil), blocked...)
		mu.Unlock()

		// let blocked pushers go
		for i := 0; i < 4*(n+4); i++ {
			left := 0
			for _, d := range blockedNow {
				select {
				case <-d:
				default:
					left++
				}
			}
			if left == 0 {
				break
			}
			pctx, pcancel := context.WithTimeout(ctx, time.Second)
			safePop(q, pctx)
			pcancel()
			synctest.Wait()
		}
		cancel()
		synctest.Wait()
	})
}

// ---------------------------------------------------------------------------------------------

// beat counts finished cases. A queue call that dies while it holds statsLk leaves every later call
// parked on a sync.Mutex, which is not a durable block: the bubble neither advances its clock nor
// reports a deadlock. The watchdog (outside every bubble, real time) turns that into a crash that
// names the case, instead of a silent wait for the test timeout.
var beat atomic.Int64

func watchdog(w *emit.Writer, limit time.Duration) (stop func()) {
	quit := make(chan struct{})
	go func() {
		last, since := beat.Load(), time.Now()
		tick := time.NewTicker(500 * time.Millisecond)
		defer tick.Stop()
		for {
			select {
			case <-quit:
				return
			case <-tick.C:
			}
			if b := beat.Load(); b != last {
				last, since = b, time.Now()
			} else if time.Since(since) > limit {
				panic(fmt.Sprintf("peerq: case %d made no progress for %v of real time: the queue is wedged "+
					"(a goroutine parked on a lock that is never released?)", b, limit))
			}
		}
	}()
	return func() { close(quit) }
}

func TestPeerQ(t *testing.T) {
	w := emit.NewWriter("Model.PeerQueue Oracle.PeerQueue", "casePQ", "chkPQ")
	if newQueue == nil {
		w.Rule = "SKIPPED: p2p/peerq_verif.go accessor hook not compiled in (build tag peerqhook)"
		if err := w.Flush(); err != nil {
			t.Fatal(err)
		}
		// emit.Flush leaves "shards": null when there is no case; check iterates over it
		if err := fixEmptyShards(); err != nil {
			t.Fatal(err)
		}
		t.Log("peerq: accessor hook not compiled in (build tag peerqhook); no cases emitted")
		return
	}
	w.Rule = "session peerQueue (container/heap by score descending + token channel of capacity = initial peers) through the accessor p2p/peerq_verif.go. " +
		"PQSeq: one bubble per case, 0-8 initial peers with scores from a palette full of ties (0, -0, 1, 1, 1, 2.5, -1, -3.5, 10, 0.001, 100, 7, 7, sometimes a random float in (-1000,1000)), " +
		"then 0-40 (thorough 0-120) ops: pop (WaitPop with a 1s virtual timeout: OPopped id score / OBlocked), push of a fresh peer, push back of a popped peer (its score possibly changed by " +
		"decreaseScore / updateStats while out), both run in a goroutine and observed after synctest.Wait (ODone / OBlocked = no free slot in the channel), and in about a third of the cases " +
		"score changes of peers inside the heap (SEnv); phases drain the queue and pop once more, or fill the channel and push 1-3 peers beyond it; a panic of a queue call ends the case (OPanic); " +
		"the case carries the final heap array, the tokens in the channel and the pushers still blocked. Fixed boundary cases first (empty queue, unbuffered channel, one peer, all ties, ascending / descending, " +
		"stale root after a score raise, pushes beyond the capacity). " +
		"PQConc: 1-6 peers, 1-8 goroutines, 3-12 rounds each of pop (timeout 15..55ms) / sleep 0-30ms virtual / maybe a score change / push back (80%) or drop; " +
		"flags: a panic, a waiter that timed out while a token was in the channel, a push back blocked for 1h; plus a hammer family (1-3 peers, 8-16 goroutines, 200 rounds of pop / push back without sleeps, logs cut to 20). " +
		"Distinct by (n, length/8, env, blocked push seen, blocked pop seen) resp. (n, k, drops); non-trivial = at least one op"
	rng := emit.NewRand(emit.Seed())
	nSeq, maxOps, nConc, nHammer := 300, 40, 60, 20
	if emit.Thorough() {
		nSeq, maxOps, nConc, nHammer = 3000, 120, 600, 200
	}
	start := time.Now()
	defer watchdog(w, 45*time.Second)()
	for _, b := range boundaryCases() {
		runSeq(t, w, "seq_boundary", b.scores, 0, scripted(b.ops))
	}
	for i := 0; i < nSeq; i++ {
		sub := rng.U64()
		r := emit.NewRand(sub)
		n := r.Intn(9)
		switch r.Intn(20) { // n=0 and n=1 often
		case 0, 1:
			n = 0
		case 2, 3, 4:
			n = 1
		}
		scores := make([]float32, n)
		for j := range scores {
			scores[j] = drawScore(r)
		}
		withEnv := r.Intn(5) < 2 // short cases draw no env op: about a third end up with one
		runSeq(t, w, "seq", scores, sub, randomOps(r, maxOps, withEnv))
	}
	tSeq := time.Since(start)
	for i := 0; i < nConc; i++ {
		runConc(t, w, rng, false)
	}
	tConc := time.Since(start) - tSeq
	for i := 0; i < nHammer; i++ {
		runConc(t, w, rng, true)
	}
	tHammer := time.Since(start) - tSeq - tConc
	w.Extra["wall_ms"] = map[string]int64{"seq": tSeq.Milliseconds(), "conc": tConc.Milliseconds(), "hammer": tHammer.Milliseconds()}
	if err := w.Flush(); err != nil {
		t.Fatal(err)
	}
	t.Logf("emitted %d cases (seq %v, conc %v, hammer %v)", w.Len(), tSeq, tConc, tHammer)
}
