//go:build verif

// Package c11 is the correspondence driver of property C11: the gossipsub
// topic validator of p2p.Subscriber (verifyMessage / extractHeader / Broadcast)
// and Subscription.NextHeader, run on gossipsub nodes over libp2p mocknet
// inside testing/synctest bubbles:
//
//	A1..Ak (plain publishers) --- B (p2p.Subscriber, raw tracer, peer score) --- C (plain subscriber)
//	             P (prober) -----/
//
// Ai publishes raw payload bytes (wire path) or B itself publishes (local path,
// ValidatorData handed to the validator). Observed on B: the tracer's
// Deliver/Reject(reason) event (wire) or the result of Publish (local),
// Subscription.NextHeader, the header the verifier was called with, Ai's
// invalid-message counter in B's peer score; on C: whether the payload arrived
// (only if B relays); and whether the process survived. Cases run in child
// processes so that a panic escaping the validator goroutine is an
// observation (OCrash) rather than the end of the run.
//
// A "unit" is a set of cases sharing one network: the complete verdict table
// runs as one case per network; random batches put several messages (one
// sender each) through one node at the same instant.
package c11

import (
	"bufio"
	"bytes"
	"context"
	"crypto/sha256"
	"encoding/hex"
	"encoding/json"
	"errors"
	"fmt"
	"os"
	"os/exec"
	"reflect"
	"strconv"
	"strings"
	"sync"
	"testing"
	"testing/synctest"
	"time"

	header "github.com/celestiaorg/go-header"
	"github.com/celestiaorg/go-header/p2p"
	pubsub "github.com/libp2p/go-libp2p-pubsub"
	pb "github.com/libp2p/go-libp2p-pubsub/pb"
	"github.com/libp2p/go-libp2p/core/host"
	"github.com/libp2p/go-libp2p/core/peer"
	"github.com/libp2p/go-libp2p/core/protocol"
	mocknet "github.com/libp2p/go-libp2p/p2p/net/mock"

	"verifharness/emit"
	"verifharness/vhdr"
)

const networkID = "c11"

func msgID(m *pb.Message) string {
	s := sha256.Sum256(m.Data)
	return string(s[:])
}

// ---------------------------------------------------------------- inputs

// payload of the message under test
type payload struct {
	Name  string
	Bytes []byte
	Hdr   *vhdr.Header // the header the bytes are meant to encode (nil: whatever the codec says)
}

// ValidatorData attached by a local publisher
type vdKind int

const (
	vdNone         vdKind = iota // nothing attached (every wire message)
	vdHdr                        // a *vhdr.Header
	vdNilHdr                     // a typed nil *vhdr.Header (Validate panics)
	vdOther                      // a value of another type
	vdViaBroadcast               // Subscriber.Broadcast(hdr): the library attaches the header itself
)

type verOutcome struct {
	Name string
	F    func() error // nil F = panic
}

type mode int

const (
	setBefore mode = iota // SetVerifier before the message arrives
	setLate               // SetVerifier while the validator is already waiting
	neverSet              // the node's context ends first
)

func (m mode) String() string { return [...]string{"SetBefore", "SetLate", "NeverSet"}[m] }

type spec struct {
	Local bool
	VD    vdKind
	VDHdr *vhdr.Header
	P     payload
	Ver   int // index into verOutcomes
	Mode  mode
	Batch int // 0 = alone on its network, k = member of random batch k
	// Metrics: the receiving Subscriber is built with WithSubscriberMetrics(). Not an input of
	// the model: instrumentation must not influence any verdict (that is the property).
	Metrics bool
}

// unit: cases that share one network (all of the same mode)
type unit struct {
	Mode    mode
	Metrics bool
	Idx     []int
}

type someErr struct{ n int }

func (e *someErr) Error() string { return "some error " + strconv.Itoa(e.n) }

var plain = &someErr{1}

func soft() *header.VerifyError { return &header.VerifyError{Reason: plain, SoftFailure: true} }
func hard() *header.VerifyError { return &header.VerifyError{Reason: plain} }

var verOutcomes = []verOutcome{
	{"nil", func() error { return nil }},
	{"soft_bare", func() error { return soft() }},
	{"soft_wrapped", func() error { return fmt.Errorf("w: %w", soft()) }},
	{"soft_wrapped2", func() error { return fmt.Errorf("x: %w", fmt.Errorf("w: %w", soft())) }},
	{"hard_bare", func() error { return hard() }},
	{"hard_wrapped", func() error { return fmt.Errorf("w: %w", hard()) }},
	{"plain", func() error { return plain }},
	{"ctx_err", func() error { return context.DeadlineExceeded }},
	{"hard_over_soft", func() error { return &header.VerifyError{Reason: soft()} }},
	{"soft_over_hard", func() error { return &header.VerifyError{Reason: hard(), SoftFailure: true} }},
	{"wrapped_hard_over_soft", func() error { return fmt.Errorf("w: %w", &header.VerifyError{Reason: soft()}) }},
	{"join_plain_soft", func() error { return errors.Join(plain, soft()) }},
	{"join_hard_soft", func() error { return errors.Join(hard(), soft()) }},
	{"soft_reason_nil", func() error { return &header.VerifyError{SoftFailure: true} }},
	{"panic", nil},
}

// chainOf flattens an error into the order errors.As visits it (depth-first
// through Unwrap() error / Unwrap() []error), each node classified as
// *VerifyError (Some soft) or anything else (None).
func chainOf(err error) []string {
	var out []string
	var walk func(e error)
	walk = func(e error) {
		if e == nil {
			return
		}
		if ve, ok := e.(*header.VerifyError); ok {
			out = append(out, "Some "+emit.B(ve.SoftFailure))
		} else {
			out = append(out, "None")
		}
		switch x := e.(type) {
		case interface{ Unwrap() error }:
			walk(x.Unwrap())
		case interface{ Unwrap() []error }:
			for _, c := range x.Unwrap() {
				walk(c)
			}
		}
	}
	walk(err)
	return out
}

func verTerm(v verOutcome) string {
	if v.F == nil {
		return "VerPanic"
	}
	err := v.F()
	if err == nil {
		return "VerNil"
	}
	return "(VerErr " + emit.List(chainOf(err)) + ")"
}

func enc(h *vhdr.Header) []byte {
	b, err := h.MarshalBinary()
	if err != nil {
		panic(err)
	}
	return b
}

func randBytes(rng *emit.Rand, n int) []byte {
	b := make([]byte, n)
	for i := range b {
		b[i] = byte(rng.U64())
	}
	return b
}

func randHeader(rng *emit.Rand) *vhdr.Header {
	h := &vhdr.Header{Chain: "c11", H: rng.U64() % 1000, T: int64(rng.U64() % 1_000_000), Nonce: rng.U64()}
	if rng.Chance(70) {
		h.Prev = randBytes(rng, 32)
	}
	switch rng.Intn(8) {
	case 0:
		h.Chain = ""
	case 1:
		h.Chain = strings.Repeat("q", 1+rng.Intn(60))
	case 2:
		h.H = ^uint64(0) - uint64(rng.Intn(2))
	case 3:
		h.T = -int64(rng.U64() % 1000)
	}
	return h
}

// the fixed payload variants of the complete table
func payloads(rng *emit.Rand, thorough bool) []payload {
	prev := sha256.Sum256([]byte("prev"))
	good := func(i uint64) *vhdr.Header {
		return &vhdr.Header{Chain: "c11", H: 10 + i, T: 1_000_000 + int64(i), Prev: prev[:], Nonce: rng.U64()}
	}
	var ps []payload
	add := func(name string, b []byte, h *vhdr.Header) { ps = append(ps, payload{name, b, h}) }
	h := good(0)
	add("valid", enc(h), h)
	h = &vhdr.Header{Chain: "", H: 0, T: 0, Nonce: rng.U64()}
	add("valid_minimal", enc(h), h)
	h = good(2)
	h.Bad = true
	add("valid_encoding_bad_flag", enc(h), h)
	// decodes; Validate() on the decoded header PANICS (vhdr wire flag 2): row VdNone x DecOk x ValPanic
	h = good(11)
	h.VPanic = true
	add("validate_panics", enc(h), h)
	h = good(3)
	b := enc(h)
	add("truncated_last", b[:len(b)-1], nil)
	h = good(4)
	b = enc(h)
	add("trailing_garbage", append(append([]byte{}, b...), 0x00), nil)
	add("panic_byte", []byte{vhdr.PanicByte}, nil)
	rb := randBytes(rng, 1+rng.Intn(80))
	if rb[0] == vhdr.PanicByte {
		rb[0] = 0x01
	}
	add("random", rb, nil)
	add("empty", []byte{}, nil)
	if thorough {
		h = &vhdr.Header{Chain: strings.Repeat("z", 300), H: ^uint64(0), T: -5, Prev: bytes.Repeat([]byte{7}, 64), Nonce: rng.U64()}
		add("valid_extreme", enc(h), h)
		h = &vhdr.Header{Chain: "c11", H: 1, T: 1, Nonce: rng.U64(), Bad: true}
		add("bad_flag_minimal", enc(h), h)
		h = good(5)
		b = enc(h)
		add("truncated_1", b[:1], nil)
		add("truncated_half", b[:len(b)/2], nil)
		add("truncated_random", b[:1+rng.Intn(len(b)-1)], nil)
		h = good(6)
		b = enc(h)
		b[0] ^= 0xFF
		add("bad_magic", b, nil)
		h = good(7)
		b = enc(h)
		b[len(b)-1] = 3
		add("flag_byte_3", b, nil)
		h = &vhdr.Header{Chain: "", H: 0, T: 0, Nonce: rng.U64(), VPanic: true}
		add("validate_panics_minimal", enc(h), h)
		h = good(8)
		b = enc(h)
		b[2]++ // chain length field lies
		add("length_lies", b, nil)
		h = good(9)
		add("panic_byte_then_valid", append([]byte{vhdr.PanicByte}, enc(h)...), nil)
		h = good(10)
		b = enc(h)
		b[rng.Intn(len(b))] ^= byte(1 << rng.Intn(8)) // one flipped bit: decodes to another header, or not at all
		add("bitflip", b, nil)
		for k := 0; k < 3; k++ {
			rb := randBytes(rng, rng.Intn(200))
			if len(rb) > 0 && rb[0] == vhdr.PanicByte {
				rb[0] = 0x02
			}
			if rng.Chance(40) && len(rb) > 0 {
				rb[0] = 0xA7 // right magic, junk after
			}
			add(fmt.Sprintf("random%d", k), rb, nil)
		}
	}
	return ps
}

// a random payload for the batches (mostly valid; a malformed stream beside it)
func randPayload(rng *emit.Rand) payload {
	h := randHeader(rng)
	b := enc(h)
	switch k := rng.Intn(100); {
	case k < 45:
		return payload{"r_valid", b, h}
	case k < 54:
		h.Bad = true
		return payload{"r_bad_flag", enc(h), h}
	case k < 58:
		h.VPanic = true
		return payload{"r_validate_panics", enc(h), h}
	case k < 65:
		return payload{"r_truncated", b[:rng.Intn(len(b))], nil}
	case k < 71:
		return payload{"r_trailing", append(append([]byte{}, b...), randBytes(rng, 1+rng.Intn(4))...), nil}
	case k < 78:
		b[rng.Intn(len(b))] ^= byte(1 << rng.Intn(8))
		return payload{"r_bitflip", b, nil}
	case k < 86:
		return payload{"r_random", randBytes(rng, rng.Intn(120)), nil}
	case k < 94:
		return payload{"r_panic_byte", append([]byte{vhdr.PanicByte}, randBytes(rng, rng.Intn(40))...), nil}
	default:
		return payload{"r_magic_junk", append([]byte{0xA7}, randBytes(rng, rng.Intn(60))...), nil}
	}
}

func randVer(rng *emit.Rand) int {
	if rng.Chance(40) {
		return 0
	}
	return rng.Intn(len(verOutcomes))
}

// decodeClass runs the header type's own codec on the bytes: the decode outcome
// is an INPUT of the model (the codec is a parameter of the theorems).
func decodeClass(b []byte) (cls string, h *vhdr.Header) {
	defer func() {
		if r := recover(); r != nil {
			cls, h = "DecPanic", nil
		}
	}()
	x := new(vhdr.Header)
	if err := x.UnmarshalBinary(b); err != nil {
		return "DecErr", nil
	}
	return "DecOk", x
}

type localVariant struct {
	name string
	vd   vdKind
	mk   func(rng *emit.Rand) (vdh *vhdr.Header, bytes []byte, meant *vhdr.Header)
}

var localVariants = []localVariant{
	{"broadcast_valid", vdViaBroadcast, func(r *emit.Rand) (*vhdr.Header, []byte, *vhdr.Header) {
		h := randHeader(r)
		return h, enc(h), h
	}},
	{"broadcast_bad", vdViaBroadcast, func(r *emit.Rand) (*vhdr.Header, []byte, *vhdr.Header) {
		h := randHeader(r)
		h.Bad = true
		return h, enc(h), h
	}},
	{"vd_other_type", vdOther, func(r *emit.Rand) (*vhdr.Header, []byte, *vhdr.Header) {
		h := randHeader(r)
		return nil, enc(h), h
	}},
	{"vd_nil_header", vdNilHdr, func(r *emit.Rand) (*vhdr.Header, []byte, *vhdr.Header) {
		h := randHeader(r)
		return nil, enc(h), h
	}},
	{"vd_header_junk_bytes", vdHdr, func(r *emit.Rand) (*vhdr.Header, []byte, *vhdr.Header) {
		return randHeader(r), append([]byte{1, 2, 3}, randBytes(r, 8)...), nil
	}},
	{"vd_header_panic_bytes", vdHdr, func(r *emit.Rand) (*vhdr.Header, []byte, *vhdr.Header) {
		return randHeader(r), append([]byte{vhdr.PanicByte}, randBytes(r, 8)...), nil
	}},
	{"vd_bad_header_valid_bytes", vdHdr, func(r *emit.Rand) (*vhdr.Header, []byte, *vhdr.Header) {
		h, g := randHeader(r), randHeader(r)
		h.Bad = true
		return h, enc(g), g
	}},
	{"local_no_vd_valid", vdNone, func(r *emit.Rand) (*vhdr.Header, []byte, *vhdr.Header) {
		h := randHeader(r)
		return nil, enc(h), h
	}},
	{"local_no_vd_bad", vdNone, func(r *emit.Rand) (*vhdr.Header, []byte, *vhdr.Header) {
		h := randHeader(r)
		h.Bad = true
		return nil, enc(h), h
	}},
	{"local_no_vd_junk", vdNone, func(r *emit.Rand) (*vhdr.Header, []byte, *vhdr.Header) {
		return nil, append([]byte{1, 2, 3}, randBytes(r, 8)...), nil
	}},
	{"local_no_vd_panic", vdNone, func(r *emit.Rand) (*vhdr.Header, []byte, *vhdr.Header) {
		return nil, append([]byte{vhdr.PanicByte}, randBytes(r, 8)...), nil
	}},
}

func localSpec(rng *emit.Rand, l localVariant, vi int, m mode) spec {
	vdh, b, meant := l.mk(rng)
	return spec{Local: true, VD: l.vd, VDHdr: vdh, P: payload{l.name, b, meant}, Ver: vi, Mode: m}
}

func buildSpecs(seed uint64, thorough bool) ([]spec, []unit) {
	rng := emit.NewRand(seed)
	var specs []spec
	var units []unit
	single := func(s spec) {
		specs = append(specs, s)
		units = append(units, unit{Mode: s.Mode, Metrics: s.Metrics, Idx: []int{len(specs) - 1}})
	}
	// the same case again on a Subscriber with metrics enabled: quick repeats the rows of
	// five verifier outcomes (nil, soft, hard, plain, panic), thorough the whole table
	withMetrics := func(s spec) {
		switch verOutcomes[s.Ver].Name {
		case "nil", "soft_bare", "hard_bare", "plain", "panic":
		default:
			if !thorough {
				return
			}
		}
		s.Metrics = true
		single(s)
	}
	modes := []mode{setBefore, setLate, neverSet}
	// wire path: complete table payload x verifier outcome x mode
	for _, p := range payloads(rng, thorough) {
		for vi := range verOutcomes {
			for _, m := range modes {
				if m == neverSet && vi > 1 && !thorough {
					continue // the verifier never runs in this mode; quick keeps two rows
				}
				single(spec{P: p, Ver: vi, Mode: m})
				withMetrics(spec{P: p, Ver: vi, Mode: m})
			}
		}
	}
	// local path: B itself publishes
	for _, l := range localVariants {
		for vi := range verOutcomes {
			for _, m := range modes {
				if !thorough && (m == setLate || (m == neverSet && vi > 0)) {
					continue
				}
				ls := localSpec(rng, l, vi, m)
				single(ls)
				withMetrics(ls)
			}
		}
	}
	// random batches: several messages in flight through one node at once
	nb := 40
	if thorough {
		nb = 1200
	}
	for k := 1; k <= nb; k++ {
		m := modes[rng.Intn(3)]
		if rng.Chance(50) {
			m = setLate // all validations wait together, then proceed concurrently
		}
		n := 2 + rng.Intn(7)
		u := unit{Mode: m, Metrics: k%2 == 1}
		seen := map[string]bool{}
		for len(u.Idx) < n {
			var s spec
			if rng.Chance(15) {
				s = localSpec(rng, localVariants[rng.Intn(len(localVariants))], randVer(rng), m)
			} else {
				s = spec{P: randPayload(rng), Ver: randVer(rng), Mode: m}
			}
			if seen[string(s.P.Bytes)] {
				continue // the message id is the hash of the bytes
			}
			seen[string(s.P.Bytes)] = true
			s.Batch = k
			s.Metrics = u.Metrics
			specs = append(specs, s)
			u.Idx = append(u.Idx, len(specs)-1)
		}
		units = append(units, u)
	}
	return specs, units
}

// the header the validator is meant to work on (ValidatorData first, else the decoded bytes)
func carriedHeader(sp spec) *vhdr.Header {
	switch sp.VD {
	case vdHdr, vdViaBroadcast:
		return sp.VDHdr
	case vdNone:
		_, h := decodeClass(sp.P.Bytes)
		return h
	}
	return nil
}

// ---------------------------------------------------------------- observation

type result struct {
	Idx       int
	Events    []string // tracer events on B for the message under test, in order
	Delivered []string // hex hashes returned by B's Subscription.NextHeader attributed to this message
	Delivered2 []string // the same for B's second (live) Subscription
	DeliveredC []string // the same for B's third Subscription, cancelled before the messages were published
	Relayed   bool     // C received the payload of the message under test
	Penalised bool     // the sender's InvalidMessageDeliveries counter at B is > 0
	VCalls    []string // hex hashes of headers the verifier was called with for this message
	Pending   bool     // no verdict yet when the verifier was set late / the context was cancelled
	PubErr    string   // error class of the local publish
	Probe     string   // "", "alive", "dead"
	Stray     int      // deliveries / verifier calls in this unit that belong to no message of the unit (or went to the decoy verifier)
	Sets      []bool   // "returned nil" of the two SetVerifier calls
	Arrived   bool     // the message had entered B's validation when the verifier was set late / the context cancelled
	Crashed   bool
	CrashMsg  string
	UnitSize  int
}

type tracer struct {
	mu  sync.Mutex
	evs map[string][]string
}

func (t *tracer) add(m *pubsub.Message, e string) {
	t.mu.Lock()
	defer t.mu.Unlock()
	id := msgID(m.Message)
	t.evs[id] = append(t.evs[id], e)
}
func (t *tracer) get(data []byte) []string {
	t.mu.Lock()
	defer t.mu.Unlock()
	s := sha256.Sum256(data)
	return append([]string(nil), t.evs[string(s[:])]...)
}

var _ pubsub.RawTracer = rawTracer{}

type rawTracer struct{ *tracer }

func (rawTracer) AddPeer(p peer.ID, proto protocol.ID)             {}
func (rawTracer) RemovePeer(p peer.ID)                             {}
func (rawTracer) OnNewOutboundStream(p peer.ID, proto protocol.ID) {}
func (rawTracer) OnClosedOutboundStream(p peer.ID)                 {}
func (rawTracer) Join(topic string)                                {}
func (rawTracer) Leave(topic string)                               {}
func (rawTracer) Graft(p peer.ID, topic string)                    {}
func (rawTracer) Prune(p peer.ID, topic string)                    {}
func (r rawTracer) ValidateMessage(m *pubsub.Message)              { r.add(m, "validate") }
func (r rawTracer) DeliverMessage(m *pubsub.Message)               { r.add(m, "deliver") }
func (r rawTracer) RejectMessage(m *pubsub.Message, reason string) {
	r.add(m, "reject:"+reason)
}
func (r rawTracer) DuplicateMessage(m *pubsub.Message)   { r.add(m, "duplicate") }
func (rawTracer) ThrottlePeer(p peer.ID)                 {}
func (rawTracer) RecvRPC(rpc *pubsub.RPC)                {}
func (rawTracer) SendRPC(rpc *pubsub.RPC, p peer.ID)     {}
func (rawTracer) DropRPC(rpc *pubsub.RPC, p peer.ID)     {}
func (rawTracer) UndeliverableMessage(m *pubsub.Message) {}

func must(t *testing.T, err error) {
	t.Helper()
	if err != nil {
		t.Fatalf("setup: %v", err)
	}
}

func hx(b []byte) string { return hex.EncodeToString(b) }

// runUnit runs the cases of one unit on a fresh network in its own bubble.
func runUnit(t *testing.T, u unit, specs []spec) []result {
	n := len(u.Idx)
	res := make([]result, n)
	for i := range res {
		res[i] = result{Idx: u.Idx[i], UnitSize: n}
	}
	synctest.Test(t, func(t *testing.T) {
		ctx, cancel := context.WithCancel(context.Background())
		ctxB, cancelB := context.WithCancel(ctx)
		mn := mocknet.New()
		gen := func() host.Host {
			h, err := mn.GenPeer()
			must(t, err)
			return h
		}
		hB, hC, hP := gen(), gen(), gen()
		link := func(a, b host.Host) {
			_, err := mn.LinkPeers(a.ID(), b.ID())
			must(t, err)
		}
		link(hB, hC)
		link(hP, hB)

		topicID := p2p.PubsubTopicID(networkID)
		tr := &tracer{evs: map[string][]string{}}
		var scoreMu sync.Mutex
		penalised := map[peer.ID]bool{}
		topicScore := p2p.GossibSubScore // the repository's recommended parameters
		common := []pubsub.Option{
			pubsub.WithMessageSignaturePolicy(pubsub.StrictNoSign),
			pubsub.WithMessageIdFn(msgID),
		}
		optsB := append(append([]pubsub.Option{}, common...),
			pubsub.WithRawTracer(rawTracer{tr}),
			pubsub.WithPeerScore(&pubsub.PeerScoreParams{
				Topics:           map[string]*pubsub.TopicScoreParams{topicID: &topicScore},
				AppSpecificScore: func(peer.ID) float64 { return 0 },
				DecayInterval:    time.Hour,
				DecayToZero:      0.01,
			}, &pubsub.PeerScoreThresholds{
				GossipThreshold: -1e12, PublishThreshold: -1e12, GraylistThreshold: -1e12,
				AcceptPXThreshold: 1e12, OpportunisticGraftThreshold: 1e12,
			}),
			pubsub.WithPeerScoreInspect(pubsub.ExtendedPeerScoreInspectFn(func(m map[peer.ID]*pubsub.PeerScoreSnapshot) {
				scoreMu.Lock()
				defer scoreMu.Unlock()
				for p, s := range m {
					if ts := s.Topics[topicID]; ts != nil && ts.InvalidMessageDeliveries > 0 {
						penalised[p] = true
					}
				}
			}), 100*time.Millisecond),
		)
		psB, err := pubsub.NewGossipSub(ctxB, hB, optsB...)
		must(t, err)
		psC, err := pubsub.NewGossipSub(ctx, hC, common...)
		must(t, err)
		psP, err := pubsub.NewGossipSub(ctx, hP, common...)
		must(t, err)

		// one sender per wire message
		senders := make([]host.Host, n)
		topics := make([]*pubsub.Topic, n)
		for i, ci := range u.Idx {
			if specs[ci].Local {
				continue
			}
			senders[i] = gen()
			link(senders[i], hB)
			ps, err := pubsub.NewGossipSub(ctx, senders[i], common...)
			must(t, err)
			topics[i], err = ps.Join(topicID)
			must(t, err)
		}

		subOpts := []p2p.SubscriberOption{p2p.WithSubscriberNetworkID(networkID)}
		if u.Metrics {
			subOpts = append(subOpts, p2p.WithSubscriberMetrics())
		}
		sub, err := p2p.NewSubscriber[*vhdr.Header](psB, msgID, subOpts...)
		must(t, err)
		must(t, sub.Start(ctx))
		subB, err := sub.Subscribe()
		must(t, err)
		// two more Subscribe() calls on the receiving node: one stays live, one is cancelled before the message
		subB2, err := sub.Subscribe()
		must(t, err)
		subB3, err := sub.Subscribe()
		must(t, err)
		topicP, err := psP.Join(topicID)
		must(t, err)
		topicC, err := psC.Join(topicID)
		must(t, err)
		subC, err := topicC.Subscribe()
		must(t, err)

		conn := func(a, b host.Host) {
			_, err := mn.ConnectPeers(a.ID(), b.ID())
			must(t, err)
		}
		conn(hB, hC)
		conn(hP, hB)
		for _, s := range senders {
			if s != nil {
				conn(s, hB)
			}
		}
		time.Sleep(3 * time.Second) // subscriptions announced, mesh B<->C grafted
		synctest.Wait()
		subB3.Cancel()
		synctest.Wait()

		// the probe: a valid header the verifier always accepts, sent after the
		// messages under test to see that the node still validates and delivers
		probe := &vhdr.Header{Chain: "probe", H: 999, T: 42, Nonce: uint64(u.Idx[0])}
		probeBytes := enc(probe)
		probeHash := string(probe.Hash())

		// the verifier is scripted per header (by hash)
		owner := map[string]int{}
		for i, ci := range u.Idx {
			if h := carriedHeader(specs[ci]); h != nil {
				owner[string(h.Hash())] = i
			}
		}
		var vmu sync.Mutex
		stray := 0
		verifier := func(_ context.Context, h *vhdr.Header) error {
			hash := string(h.Hash())
			if hash == probeHash {
				return nil
			}
			vmu.Lock()
			i, ok := owner[hash]
			if !ok {
				stray++
				if n == 1 {
					res[0].VCalls = append(res[0].VCalls, hx(h.Hash()))
				}
				vmu.Unlock()
				return errors.New("unknown header")
			}
			res[i].VCalls = append(res[i].VCalls, hx(h.Hash()))
			vmu.Unlock()
			vo := verOutcomes[specs[u.Idx[i]].Ver]
			if vo.F == nil {
				panic("scripted verifier panic")
			}
			return vo.F()
		}
		// a second SetVerifier must be refused; its verifier would decide the opposite way
		decoy := func(_ context.Context, h *vhdr.Header) error {
			hash := string(h.Hash())
			if hash == probeHash {
				return nil
			}
			vmu.Lock()
			stray++
			i, ok := owner[hash]
			vmu.Unlock()
			if ok && specs[u.Idx[i]].Ver == 0 {
				return plain
			}
			return nil
		}
		var sets []bool
		register := func() {
			sets = append(sets, sub.SetVerifier(verifier) == nil)
			sets = append(sets, sub.SetVerifier(decoy) == nil)
		}
		if u.Mode == setBefore {
			register()
		}

		// publish the messages under test, all at the same instant
		pubDone := make([]chan error, n)
		for i, ci := range u.Idx {
			sp := specs[ci]
			pubDone[i] = make(chan error, 1)
			go func() {
				pctx, pcancel := context.WithTimeout(ctx, time.Minute)
				defer pcancel()
				switch {
				case !sp.Local:
					pubDone[i] <- topics[i].Publish(pctx, sp.P.Bytes)
				case sp.VD == vdViaBroadcast:
					pubDone[i] <- sub.Broadcast(pctx, sp.VDHdr)
				default:
					var opts []pubsub.PubOpt
					switch sp.VD {
					case vdHdr:
						opts = append(opts, pubsub.WithValidatorData(sp.VDHdr))
					case vdNilHdr:
						opts = append(opts, pubsub.WithValidatorData((*vhdr.Header)(nil)))
					case vdOther:
						opts = append(opts, pubsub.WithValidatorData("not a header"))
					}
					//nolint:staticcheck // the deprecated API is the only way to reach the joined topic from outside
					pubDone[i] <- psB.Publish(topicID, sp.P.Bytes, opts...)
				}
			}()
		}
		synctest.Wait()

		pubErr := func(i int) string {
			select {
			case err := <-pubDone[i]:
				pubDone[i] <- err
				var ve pubsub.ValidationError
				switch {
				case err == nil:
					return "nil"
				case errors.As(err, &ve):
					return ve.Reason
				default:
					return "other"
				}
			default:
				return "blocked"
			}
		}
		verdictSeen := func(i int) bool {
			sp := specs[u.Idx[i]]
			if sp.Local {
				return pubErr(i) != "blocked"
			}
			for _, e := range tr.get(sp.P.Bytes) {
				if e == "deliver" || strings.HasPrefix(e, "reject:") {
					return true
				}
			}
			return false
		}
		arrived := func(i int) bool {
			sp := specs[u.Idx[i]]
			return sp.Local || len(tr.get(sp.P.Bytes)) > 0
		}
		allArrived := func() bool {
			for i := range res {
				if !arrived(i) {
					return false
				}
			}
			return true
		}
		// no virtual time is needed for a message to cross the mock network; should that
		// change, give it a little (a late registration must come after the arrival)
		for k := 0; k < 100 && !allArrived(); k++ {
			time.Sleep(10 * time.Millisecond)
			synctest.Wait()
		}
		for i := range res {
			res[i].Arrived = arrived(i)
		}
		switch u.Mode {
		case setLate:
			// register while the validators are waiting, at the very instant of arrival
			for i := range res {
				res[i].Pending = !verdictSeen(i)
			}
			register()
		case neverSet:
			time.Sleep(time.Second) // nothing happens by itself ...
			synctest.Wait()
			for i := range res {
				res[i].Pending = !verdictSeen(i)
			}
			cancelB() // ... until the node's context ends
		}
		time.Sleep(time.Second)
		synctest.Wait()
		if u.Mode == neverSet {
			register() // too late to matter; still first accepted, second refused
		}
		for i := range res {
			res[i].PubErr = pubErr(i)
		}

		// probe (not when B's pubsub was shut down)
		probeRes := ""
		if u.Mode != neverSet {
			pctx, pcancel := context.WithTimeout(ctx, time.Minute)
			_ = topicP.Publish(pctx, probeBytes)
			pcancel()
			time.Sleep(time.Second)
			synctest.Wait()
			probeRes = "dead"
		}

		for i, ci := range u.Idx {
			res[i].Events = tr.get(specs[ci].P.Bytes)
		}
		// what B's Subscription hands out
		for {
			nctx, ncancel := context.WithTimeout(ctx, time.Second)
			h, err := subB.NextHeader(nctx)
			ncancel()
			if err != nil {
				break
			}
			hash := string(h.Hash())
			if hash == probeHash {
				probeRes = "alive"
				continue
			}
			if i, ok := owner[hash]; ok {
				res[i].Delivered = append(res[i].Delivered, hx(h.Hash()))
			} else {
				stray++
				if n == 1 {
					res[0].Delivered = append(res[0].Delivered, hx(h.Hash()))
				}
			}
		}
		// what B's other Subscriptions hand out: the second live one, and the cancelled one
		drain := func(s header.Subscription[*vhdr.Header], into func(r *result, hash string)) {
			for {
				nctx, ncancel := context.WithTimeout(ctx, time.Second)
				h, err := s.NextHeader(nctx)
				ncancel()
				if err != nil {
					return
				}
				hash := string(h.Hash())
				if hash == probeHash {
					continue
				}
				if i, ok := owner[hash]; ok {
					into(&res[i], hx(h.Hash()))
				} else {
					stray++
					if n == 1 {
						into(&res[0], hx(h.Hash()))
					}
				}
			}
		}
		drain(subB2, func(r *result, hash string) { r.Delivered2 = append(r.Delivered2, hash) })
		drain(subB3, func(r *result, hash string) { r.DeliveredC = append(r.DeliveredC, hash) })
		// what reached C
		for {
			nctx, ncancel := context.WithTimeout(ctx, time.Second)
			m, err := subC.Next(nctx)
			ncancel()
			if err != nil {
				break
			}
			for i, ci := range u.Idx {
				if bytes.Equal(m.Data, specs[ci].P.Bytes) {
					res[i].Relayed = true
				}
			}
		}
		scoreMu.Lock()
		for i, s := range senders {
			if s != nil {
				res[i].Penalised = penalised[s.ID()]
			}
		}
		scoreMu.Unlock()
		for i := range res {
			res[i].Probe = probeRes
			res[i].Stray = stray
			res[i].Sets = sets
		}

		// teardown: every goroutine must be gone before the bubble ends
		subB.Cancel()
		subB2.Cancel()
		subC.Cancel()
		sctx, scancel := context.WithTimeout(context.Background(), time.Second)
		_ = sub.Stop(sctx)
		scancel()
		cancelB()
		cancel()
		_ = mn.Close()
		time.Sleep(10 * time.Second)
		synctest.Wait()
	})
	return res
}

// ---------------------------------------------------------------- child / parent

type unitDone struct {
	Unit    int
	Results []result
}

// child: run the units of the plan file in order, one JSON line per finished unit.
func runChild(t *testing.T) {
	var plan []unit
	b, err := os.ReadFile(os.Getenv("C11_PLAN"))
	if err != nil {
		t.Fatal(err)
	}
	if err := json.Unmarshal(b, &plan); err != nil {
		t.Fatal(err)
	}
	f, err := os.OpenFile(os.Getenv("C11_RESULTS"), os.O_APPEND|os.O_WRONLY|os.O_CREATE, 0o644)
	if err != nil {
		t.Fatal(err)
	}
	defer f.Close()
	specs, _ := buildSpecs(emit.Seed(), emit.Thorough())
	for k, u := range plan {
		r := runUnit(t, u, specs)
		line, _ := json.Marshal(unitDone{Unit: k, Results: r})
		if _, err := f.Write(append(line, '\n')); err != nil {
			t.Fatal(err)
		}
	}
}

func readResults(path string) []unitDone {
	f, err := os.Open(path)
	if err != nil {
		return nil
	}
	defer f.Close()
	var out []unitDone
	sc := bufio.NewScanner(f)
	sc.Buffer(make([]byte, 1<<20), 1<<26)
	for sc.Scan() {
		var r unitDone
		if json.Unmarshal(sc.Bytes(), &r) == nil {
			out = append(out, r)
		}
	}
	return out
}

func panicLine(out string) string {
	for _, l := range strings.Split(out, "\n") {
		if strings.HasPrefix(l, "panic:") {
			if len(l) > 200 {
				l = l[:200]
			}
			return l
		}
	}
	return ""
}

func TestC11(t *testing.T) {
	if os.Getenv("C11_CHILD") == "1" {
		runChild(t)
		return
	}
	specs, plan := buildSpecs(emit.Seed(), emit.Thorough())
	if only := emit.Only(); only >= 0 && only < len(specs) {
		plan = []unit{{Mode: specs[only].Mode, Metrics: specs[only].Metrics, Idx: []int{only}}} // replay: that case alone on its network
	}
	dir := os.Getenv("VERIF_OUT")
	if dir == "" {
		dir = t.TempDir()
	}
	_ = os.MkdirAll(dir, 0o755)
	resPath, planPath := dir+"/c11_results.jsonl", dir+"/c11_plan.json"
	results := make([]result, len(specs))
	ran := make([]bool, len(specs))
	crashes, splits, units := 0, 0, 0
	start := time.Now()
	for len(plan) > 0 {
		_ = os.Remove(resPath)
		pb, _ := json.Marshal(plan)
		if err := os.WriteFile(planPath, pb, 0o644); err != nil {
			t.Fatal(err)
		}
		cmd := exec.Command(os.Args[0], "-test.run=^TestC11$", "-test.timeout=1700s", "-test.count=1")
		cmd.Env = append(os.Environ(), "C11_CHILD=1", "C11_PLAN="+planPath, "C11_RESULTS="+resPath)
		var outb bytes.Buffer
		cmd.Stdout, cmd.Stderr = &outb, &outb
		err := cmd.Run()
		done := readResults(resPath)
		for _, d := range done {
			for _, r := range d.Results {
				results[r.Idx], ran[r.Idx] = r, true
			}
		}
		units += len(done)
		if len(done) >= len(plan) {
			break
		}
		if err == nil {
			t.Fatalf("child exited cleanly after %d of %d units:\n%s", len(done), len(plan), tail(outb.String(), 2000))
		}
		// the child died while running unit len(done)
		msg := panicLine(outb.String())
		if msg == "" {
			t.Fatalf("child failed without a panic in unit %d: %v\n%s", len(done), err, tail(outb.String(), 3000))
		}
		dead := plan[len(done)]
		rest := plan[len(done)+1:]
		if len(dead.Idx) == 1 {
			// that is the observation of this case
			results[dead.Idx[0]], ran[dead.Idx[0]] = result{Idx: dead.Idx[0], Crashed: true, CrashMsg: msg, UnitSize: 1}, true
			crashes++
			plan = rest
		} else {
			// find the culprit: re-run every member alone
			splits++
			var singles []unit
			for _, i := range dead.Idx {
				singles = append(singles, unit{Mode: dead.Mode, Metrics: dead.Metrics, Idx: []int{i}})
			}
			plan = append(singles, rest...)
		}
		if crashes > 2000 {
			t.Fatalf("too many crashes (%d); last: %s", crashes, msg)
		}
	}
	t.Logf("ran %d units / %d cases in %s; %d crashed child runs, %d batches split", units, len(specs), time.Since(start).Round(time.Millisecond), crashes, splits)
	emitCases(t, specs, results, ran, crashes, splits)
}

func tail(s string, n int) string {
	if len(s) > n {
		return s[len(s)-n:]
	}
	return s
}

// ---------------------------------------------------------------- emission

func optN(reg *vhdr.Registry, hexs []string) string {
	if len(hexs) == 0 {
		return "None"
	}
	b, _ := hex.DecodeString(hexs[0])
	return emit.Some(emit.N(reg.ID(b)))
}

func idList(reg *vhdr.Registry, hexs []string) string {
	xs := make([]string, len(hexs))
	for i, x := range hexs {
		b, _ := hex.DecodeString(x)
		xs[i] = emit.N(reg.ID(b))
	}
	return emit.List(xs)
}

func emitCases(t *testing.T, specs []spec, results []result, ran []bool, crashes, splits int) {
	w := emit.NewWriter("Model.Subscriber Oracle.C11", "case11s", "chk11s")
	w.Rule = "complete table: payload variant (valid shapes, Bad flag, Validate-panics flag, truncations, trailing garbage, bad magic/flag/length, bit flip, random bytes, decode-panic byte, empty) " +
		"x verifier outcome (nil, soft bare/wrapped/doubly wrapped/joined, hard bare/wrapped, plain, context error, hard-over-soft, soft-over-hard, panic) " +
		"x verifier set before / set late / never set (node context ends), on the wire path A->B->C, one fresh gossipsub network per case; the same for the local path " +
		"(Broadcast, foreign / typed-nil / mismatching ValidatorData); table rows repeated with WithSubscriberMetrics() on the receiving Subscriber (quick: 5 verifier outcomes, thorough: all; half of the batches); plus seeded random batches of 2-8 messages (one sender each, mostly valid + malformed stream) in flight through one node at once. " +
		"A class is (path, ValidatorData kind, decode class, Validate, verifier outcome, mode, alone/batch); non-trivial = accepted or ignored"
	w.Exhaustive = true
	reg := vhdr.NewRegistry()
	only := emit.Only()
	for i, sp := range specs {
		r := results[i]
		if !ran[i] {
			if only >= 0 {
				// replay of one case: keep the numbering, nothing was observed for the others
				w.Add("Case11s (Case11 PWire VdNone DecErr false VerNil VerNil SetBefore OReject None false true None None [true; false]) []", map[string]any{"skipped": true}, "skipped", false)
				continue
			}
			t.Fatalf("case %d was not run", i)
		}
		// inputs
		cls, dh := decodeClass(sp.P.Bytes)
		if sp.P.Hdr != nil && (cls != "DecOk" || !reflect.DeepEqual(dh, sp.P.Hdr)) {
			t.Fatalf("case %d (%s): payload meant to encode %+v decodes as %s %+v", i, sp.P.Name, sp.P.Hdr, cls, dh)
		}
		dec := cls
		if cls == "DecOk" {
			dec = "(DecOk " + reg.Term(dh) + ")"
		}
		vd := "VdNone"
		valpanic := false
		switch sp.VD {
		case vdHdr, vdViaBroadcast:
			vd = "(VdHdr " + reg.Term(sp.VDHdr) + ")"
		case vdNilHdr:
			vd, valpanic = "(VdHdr hdr_nil)", true
		case vdOther:
			vd = "VdOther"
		}
		if h := carriedHeader(sp); h != nil && h.VPanic {
			valpanic = true // Validate() panics on the header the validator works on (scripted: vhdr wire flag 2)
		}
		w.Count("validate_panics", emit.B(valpanic))
		path := "PWire"
		if sp.Local {
			path = "PLocal"
		}
		// observation
		verdict := "ONoVerdict"
		nverdicts := 0
		for _, e := range r.Events {
			switch e {
			case "deliver":
				verdict = "OAccept"
				nverdicts++
			case "reject:" + pubsub.RejectValidationIgnored:
				verdict = "OIgnore"
				nverdicts++
			case "reject:" + pubsub.RejectValidationFailed:
				verdict = "OReject"
				nverdicts++
			default:
				if strings.HasPrefix(e, "reject:") {
					nverdicts += 2 // dropped for another reason
				}
			}
		}
		if nverdicts > 1 {
			verdict = "OOtherDrop"
		}
		if sp.Local {
			// raw tracers are not told about a node's own messages: the verdict of the
			// synchronous local validation is what Publish / Broadcast returns
			if nverdicts != 0 {
				verdict = "OOtherDrop"
			} else {
				switch r.PubErr {
				case "nil":
					verdict = "OAccept"
				case pubsub.RejectValidationIgnored:
					verdict = "OIgnore"
				case pubsub.RejectValidationFailed:
					verdict = "OReject"
				case "blocked":
					verdict = "ONoVerdict"
				default:
					verdict = "OOtherDrop"
				}
			}
		}
		if len(r.Delivered) > 1 || len(r.VCalls) > 1 || r.Stray > 0 {
			verdict = "OOtherDrop" // delivered / verified more than once, or something that is nobody's header
		}
		if r.Crashed {
			verdict = "OCrash"
		}
		probe := "None"
		switch r.Probe {
		case "alive":
			probe = "(Some true)"
		case "dead":
			probe = "(Some false)"
		}
		decoyTerm := "VerNil"
		if sp.Ver == 0 {
			decoyTerm = "(VerErr [None])"
		}
		var sets []string
		for _, b := range r.Sets {
			sets = append(sets, emit.B(b))
		}
		term := fmt.Sprintf("Case11 %s %s %s %s %s %s %s %s %s %s %s %s %s %s", path, vd, dec, emit.B(valpanic),
			verTerm(verOutcomes[sp.Ver]), decoyTerm, sp.Mode, verdict, optN(reg, r.Delivered), emit.B(r.Relayed), emit.B(r.Penalised),
			optN(reg, r.VCalls), probe, emit.List(sets))
		// the node's three Subscriptions: two live, one cancelled before the message
		term = fmt.Sprintf("Case11s (%s) [SubObs false %s; SubObs false %s; SubObs true %s]", term, idList(reg, r.Delivered), idList(reg, r.Delivered2), idList(reg, r.DeliveredC))
		w.Count("second live subscription got", fmt.Sprint(len(r.Delivered2)))
		w.Count("cancelled subscription got", fmt.Sprint(len(r.DeliveredC)))
		vdk := [...]string{"none", "hdr", "nilhdr", "other", "broadcast"}[sp.VD]
		valid := "-"
		if h := carriedHeader(sp); h != nil {
			valid = emit.B(!h.Bad)
		}
		alone := "alone"
		if sp.Batch > 0 {
			alone = "batch"
		}
		if sp.Metrics {
			alone += "+metrics"
		}
		class := fmt.Sprintf("%s/%s/%s/valid=%s/%s/%s/%s", path, vdk, cls, valid, verOutcomes[sp.Ver].Name, sp.Mode, alone)
		w.Add(term, map[string]any{"payload": sp.P.Name, "bytes": hx(sp.P.Bytes), "local": sp.Local, "vdata": vdk, "vdata_header": sp.VDHdr,
			"verifier": verOutcomes[sp.Ver].Name, "mode": sp.Mode.String(), "batch": sp.Batch, "subscriber_metrics": sp.Metrics, "result": r}, class, verdict == "OAccept" || verdict == "OIgnore")
		w.Count("verdict", verdict)
		w.Count("payload", sp.P.Name)
		w.Count("verifier", verOutcomes[sp.Ver].Name)
		w.Count("mode", sp.Mode.String())
		w.Count("path", path+"/"+alone)
		w.Count("decode_class", cls)
		w.Count("subscriber_metrics", emit.B(sp.Metrics))
		w.Count("relayed", emit.B(r.Relayed))
		w.Count("penalised", emit.B(r.Penalised))
		w.Count("probe", r.Probe)
		w.Count("unit_size", strconv.Itoa(r.UnitSize))
		if sp.Local {
			w.Count("local_publish_error", r.PubErr)
		}
		if sp.Mode != setBefore {
			w.Count("pending_until_set_or_cancel", emit.B(r.Pending))
			w.Count("arrived_before_set_or_cancel", emit.B(r.Arrived))
		}
	}
	w.Extra["child_crashes"] = crashes
	w.Extra["batches_split_after_crash"] = splits
	if err := w.Flush(); err != nil {
		t.Fatal(err)
	}
	t.Logf("emitted %d cases", w.Len())
}
