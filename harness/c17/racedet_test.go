//go:build verif

// The race-detector leg of C17 (checks.d/C17.json: extra_drivers "race", run by check with -race).
//
// The free-running modes 1 and 2 of c17_test.go (2-4 writer goroutines, 1-2 polling readers, optionally a
// tail-side deleter; all real goroutines on real threads inside a synctest bubble) are run in a CHILD process
// of the same -race test binary.  The child emits the cases (judged by the same oracle chk17x); the parent
// reads the child's stderr: every "WARNING: DATA RACE" report fails the leg.  The frames of the code under
// test are printed at the start of a line, which is where check's crash_site looks for them, and the parent
// then panics, so that the verdict names the racing functions of go-header instead of "driver failed".
package c17

import (
	"fmt"
	"os"
	"os/exec"
	"strings"
	"testing"

	"verifharness/emit"
)

const raceChildEnv = "VERIF_C17_RACE_CHILD"

func raceInner(t *testing.T) {
	rng := emit.NewRand(emit.Seed() ^ 0x5ace)
	w := emit.NewWriter("Model.Store Model.StoreSpec Model.StoreConc Model.StoreDelConc Oracle.StoreCase Oracle.C17Del Oracle.C17", "xcase17", "chk17x")
	w.PerShard(10)
	w.Rule = "race-detector leg: the free-running modes 1 (2-4 writers + 1-2 polling readers) and 2 (plus a tail-side DeleteRange) of TestC17, " +
		"batch sizes 1,2,3,5,64, plain and context-aware datastore, built and run with -race in a child process; a detector report fails the leg " +
		"(frames of go-header printed for the verdict); the emitted cases are judged by chk17x like those of the main driver"
	n := 24
	if emit.Thorough() {
		n = 200
	}
	for i := 0; i < n; i++ {
		batch := []int{1, 2, 3, 5, 64}[rng.Intn(5)]
		term, d, nobs := free(t, rng, batch, i%2 == 1)
		w.Add("X17 ("+term+")", d, fmt.Sprint(d), nobs >= 3)
		w.Count("mode", fmt.Sprint(d["mode"]))
		w.Count("batch", fmt.Sprint(batch))
		w.Count("writers", fmt.Sprint(d["writers"]))
	}
	if err := w.Flush(); err != nil {
		t.Fatal(err)
	}
}

// raceReports splits the detector's reports out of the child's output.
func raceReports(out string) []string {
	var reps []string
	parts := strings.Split(out, "==================")
	for _, p := range parts {
		if strings.Contains(p, "WARNING: DATA RACE") {
			reps = append(reps, strings.TrimSpace(p))
		}
	}
	return reps
}

func TestC17Race(t *testing.T) {
	if os.Getenv(raceChildEnv) == "1" {
		raceInner(t)
		return
	}
	if !raceEnabled {
		t.Fatal("TestC17Race must be built with -race (checks.d/C17.json: extra_drivers race:true)")
	}
	cmd := exec.Command(os.Args[0], "-test.run=^TestC17Race$", "-test.count=1", "-test.timeout=240s")
	cmd.Env = append(os.Environ(), raceChildEnv+"=1", "GORACE=halt_on_error=0 history_size=3")
	raw, err := cmd.CombinedOutput()
	out := string(raw)
	reps := raceReports(out)
	if len(reps) > 0 {
		// the frames of the code under test, at the start of a line (check: crash_site)
		seen := map[string]bool{}
		var inRepo []string
		for _, r := range reps {
			lines := strings.Split(r, "\n")
			for i, l := range lines {
				l = strings.TrimSpace(l)
				if strings.HasPrefix(l, "github.com/celestiaorg/go-header/") {
					if i+1 < len(lines) {
						loc := strings.TrimSpace(lines[i+1])
						if k := strings.Index(loc, " +0x"); k > 0 {
							loc = loc[:k]
						}
						l += " (" + loc + ")"
					}
					if !seen[l] {
						seen[l] = true
						inRepo = append(inRepo, l)
					}
				}
			}
		}
		fmt.Printf("race detector: %d report(s); first report:\n%s\n", len(reps), reps[0])
		fmt.Println("frames of the code under test in the reports:")
		for _, l := range inRepo {
			fmt.Println(l)
		}
		if len(inRepo) > 0 {
			panic(fmt.Sprintf("DATA RACE reported by the Go race detector inside the code under test (%d report(s)); racing accesses: %s",
				len(reps), strings.Join(inRepo[:min(4, len(inRepo))], " | ")))
		}
		t.Fatalf("DATA RACE reported in the harness itself (no go-header frame): fix the driver")
	}
	if err != nil {
		if len(out) > 4000 {
			out = out[len(out)-4000:]
		}
		t.Fatalf("race child failed: %v\n%s", err, out)
	}
}
