//go:build verif

// Gate-driven interleavings of a tail-side DeleteRange with Appends at the head (C17's last clause),
// compared step by step with Model/StoreDelConc.v through Oracle/C17Del.v.
package c17

import (
	"bytes"
	"context"
	"encoding/hex"
	"encoding/json"
	"fmt"
	"runtime"
	"strings"
	"sync"
	"testing"
	"testing/synctest"
	"time"

	"github.com/ipfs/go-datastore"
	contextds "github.com/ipfs/go-datastore/context"

	"github.com/celestiaorg/go-header/store"

	"verifharness/emit"
	"verifharness/storeh"
	"verifharness/vhdr"
)

// where: is the calling goroutine the flush goroutine, the deleter, and is it inside setTail (which
// holds ptrMu from its tailHeader.Store on)?
func where() (flush, deleter, inSetTail bool) {
	buf := make([]byte, 32768)
	n := runtime.Stack(buf, false)
	b := buf[:n]
	return bytes.Contains(b, []byte("flushLoop")), bytes.Contains(b, []byte(").DeleteRange(")), bytes.Contains(b, []byte(").setTail("))
}

func (r *race) parkD(inSetTail bool) {
	r.dg.mu.Lock()
	r.dSection = inSetTail
	r.dg.mu.Unlock()
	r.dg.park()
}

func (r *race) parkF(atCommit bool) {
	r.fg.mu.Lock()
	r.fLock = atCommit
	r.fg.mu.Unlock()
	r.fg.park()
}

// deleterInSection: the deleter is parked inside setTail; flushHoldsLock: the flush goroutine is parked
// before its Commit
func (r *race) deleterInSection() bool {
	r.dg.mu.Lock()
	defer r.dg.mu.Unlock()
	return r.dg.parked && r.dSection
}
func (r *race) flushHoldsLock() bool {
	r.fg.mu.Lock()
	defer r.fg.mu.Unlock()
	return r.fg.parked && r.fLock
}

// gate parks one actor at its yield points.
type gate struct {
	mu     sync.Mutex
	armed  bool
	parked bool
	ch     chan struct{}
}

func newGate() *gate { return &gate{ch: make(chan struct{})} }
func (g *gate) park() {
	g.mu.Lock()
	if !g.armed {
		g.mu.Unlock()
		return
	}
	g.parked = true
	g.mu.Unlock()
	<-g.ch
}
func (g *gate) arm(b bool) { g.mu.Lock(); g.armed = b; g.mu.Unlock() }
func (g *gate) isParked() bool {
	g.mu.Lock()
	defer g.mu.Unlock()
	return g.parked
}
func (g *gate) release() {
	g.mu.Lock()
	g.parked = false
	g.mu.Unlock()
	g.ch <- struct{}{}
}

type race struct {
	t     *testing.T
	rec   *storeh.RecDS
	ds    datastore.Batching
	s     *store.Store[*vhdr.Header]
	chain []*vhdr.Header
	reg   *vhdr.Registry
	batch int
	ctxf  bool
	dg    *gate // the deleter
	fg    *gate // the flush goroutine
	// where the parked actor sits (guarded by the gate's mutex)
	dSection, fLock bool
}

func (r *race) hdrs(ns []uint64) []*vhdr.Header {
	hs := make([]*vhdr.Header, len(ns))
	for i, n := range ns {
		hs[i] = r.chain[n-1]
	}
	return hs
}

func (r *race) chainTerms() string {
	ts := make([]string, len(r.chain))
	for i, h := range r.chain {
		ts[i] = r.reg.Term(h)
	}
	return emit.List(ts)
}

func (r *race) newStore() {
	s, err := store.NewStore[*vhdr.Header](r.ds, store.WithWriteBatchSize(r.batch), store.WithStoreCacheSize(4), store.WithIndexCacheSize(4))
	if err != nil {
		r.t.Fatal(err)
	}
	r.s = s
}

func newRace(t *testing.T, batch int, ctxf bool) *race {
	r := &race{t: t, rec: storeh.NewRecDS(), reg: vhdr.NewRegistry(), batch: batch, ctxf: ctxf, dg: newGate(), fg: newGate()}
	r.chain = vhdr.Chain("a", 1, U, time.Now().UnixNano(), 1000, nil)
	r.ds = r.rec
	if ctxf {
		r.ds = contextds.WrapDatastore(r.rec).(datastore.Batching)
	}
	r.newStore()
	// the deleter yields at its datastore writes, inside its OnDelete handler (which only reads) and at
	// failed height lookups (there is none on the tail-side path of the code as it is); the flush goroutine
	// yields at the failed height lookups that end advanceHead and recedeTail and at its batch commit
	r.rec.OnWrite = func() {
		if fl, del, st := where(); !fl && del {
			r.parkD(st)
		}
	}
	r.rec.OnGet = func(key string, found bool) {
		if found || !isHeightKey(key) {
			return
		}
		if fl, del, st := where(); fl {
			r.parkF(false)
		} else if del {
			r.parkD(st)
		}
	}
	r.rec.OnCommit = func() {
		if fl, _, _ := where(); fl {
			r.parkF(true)
		}
	}
	r.s.OnDelete(func(ctx context.Context, h uint64) error {
		c2, cancel := context.WithTimeout(ctx, time.Second)
		_, _ = r.s.GetByHeight(c2, h)
		cancel()
		r.parkD(false)
		return nil
	})
	if err := r.s.Start(context.Background()); err != nil {
		t.Fatal(err)
	}
	return r
}

func (r *race) rawPtr(key string) string {
	v, err := r.rec.Get(context.Background(), datastore.NewKey("/headers/"+key))
	if err != nil {
		return "None"
	}
	var s string
	if json.Unmarshal(v, &s) != nil {
		return "(Some 0)"
	}
	b, _ := hex.DecodeString(s)
	return fmt.Sprintf("(Some %d)", r.reg.ID(b))
}

// observe renders a [dobs17]: what a reader sees now.
func (r *race) observe(to uint64) string {
	ctx, cancel := context.WithTimeout(context.Background(), time.Second)
	defer cancel()
	tail := "None"
	if tl, err := r.s.Tail(ctx); err == nil {
		tail = fmt.Sprintf("(Some (%d, %d))", tl.Height(), r.reg.ID(tl.Hash()))
	}
	hd, err := r.s.Head(ctx)
	if err != nil {
		return fmt.Sprintf("DObs17 (RObs17 None %d true true) %s true %s %s", r.s.Height(), tail, r.rawPtr("head"), r.rawPtr("tail"))
	}
	hgt := r.s.Height()
	byH, e1 := r.s.GetByHeight(ctx, hd.Height())
	byHash, e2 := r.s.Get(ctx, hd.Hash())
	ok1 := e1 == nil && byH != nil && string(byH.Hash()) == string(hd.Hash()) && byH.Height() == hd.Height()
	ok2 := e2 == nil && byHash != nil && byHash.Height() == hd.Height() && string(byHash.Hash()) == string(hd.Hash())
	chain := true
	for n := to; n <= hd.Height(); n++ {
		want := r.chain[n-1]
		g, ge := r.s.GetByHeight(ctx, n)
		h, he := r.s.Get(ctx, want.Hash())
		if ge != nil || g == nil || g.Height() != n || string(g.Hash()) != string(want.Hash()) ||
			he != nil || h == nil || h.Height() != n || string(h.Hash()) != string(want.Hash()) {
			chain = false
		}
	}
	return fmt.Sprintf("DObs17 (RObs17 (Some (%d, %d)) %d %s %s) %s %s %s %s",
		hd.Height(), r.reg.ID(hd.Hash()), hgt, emit.B(ok1), emit.B(ok2), tail, emit.B(chain), r.rawPtr("head"), r.rawPtr("tail"))
}

// spin lets the other goroutines run until they block, without synctest.Wait: a goroutine waiting for a
// sync.Mutex is not "durably blocked", so Wait would never return while an actor waits for ptrMu
func spinUntil(done func() bool) {
	for i := 0; i < 1500000; i++ {
		if i%64 == 0 && done() {
			return
		}
		runtime.Gosched()
	}
}

type scenario struct {
	batch   int
	ctxf    bool
	init    []uint64
	presync bool
	to      uint64
	queue   [][]uint64
	// script: "D" deleter to its next park, "F" flush goroutine to its next park, "A" a whole Append;
	// nil: random
	script []string
	name   string
}

// deleter parks in order (kinds): per height "hand" [, "delh", "deli"], then ["commit"], "putT", "putH"
func deleterParks(from, to uint64, ctxf bool) []string {
	var ps []string
	for n := from; n < to; n++ {
		ps = append(ps, "hand")
		if !ctxf {
			ps = append(ps, "delh", "deli")
		}
	}
	if ctxf {
		ps = append(ps, "commit")
	}
	return append(ps, "putT", "putH")
}

func runRace(t *testing.T, rng *emit.Rand, sc scenario) (string, map[string]any, int) {
	var term string
	var nobs int
	descr := map[string]any{}
	synctest.Test(t, func(t *testing.T) {
		r := newRace(t, sc.batch, sc.ctxf)
		ctx := context.Background()
		_ = r.s.Append(ctx, r.hdrs(sc.init)...)
		if sc.presync {
			_ = r.s.Sync(ctx)
		}
		synctest.Wait()
		from := sc.init[0]
		const (
			idle = iota // not started (deleter) / between two Appends (flush goroutine)
			parked
			blocked // waiting for ptrMu
			done    // DeleteRange returned
		)
		dState, fState := idle, idle
		// the pending write batch, to know whether a flush will commit (and take ptrMu)
		pend := map[uint64]bool{}
		if !sc.presync && len(sc.init) < sc.batch {
			for _, n := range sc.init {
				pend[n] = true
			}
		}
		commits, curArmed := false, false // the Append in flight: ends with a commit; has its parks armed
		nextBatch := 0
		delDone := make(chan error, 1)
		var derr error
		var script, did, surprises []string
		noteD := func() {
			switch {
			case r.dg.isParked():
				dState = parked
			case len(delDone) > 0:
				derr = <-delDone
				dState = done
			default:
				dState = blocked
			}
		}
		obs := func() string { nobs++; return "(Some (" + r.observe(sc.to) + "))" }
		fname := func() string {
			if curArmed {
				return "MF"
			}
			return "MFall"
		}
		canD := func() bool {
			return dState != done && dState != blocked && !(dState == idle && fState != idle)
		}
		canF := func() bool {
			return fState != blocked && !(fState == idle && nextBatch >= len(sc.queue))
		}
		step := func(a string) bool {
			switch a {
			case "D":
				if !canD() {
					return false
				}
				r.dg.arm(true)
				lockBusy := r.flushHoldsLock()
				if dState == idle {
					pend = map[uint64]bool{} // its Sync writes the pending batch out
					go func() { delDone <- r.s.DeleteRange(ctx, from, sc.to) }()
				} else {
					r.dg.release()
				}
				if lockBusy || fState == blocked {
					// the flush goroutine is parked holding ptrMu (the deleter may end up waiting for it) or is
					// itself waiting for it: synctest.Wait cannot see a goroutine that waits for a mutex
					spinUntil(func() bool { return r.dg.isParked() || len(delDone) > 0 })
				} else {
					synctest.Wait()
				}
				noteD()
				if fState == blocked && !r.deleterInSection() {
					// the flush goroutine was waiting for ptrMu: it goes on by itself
					synctest.Wait()
					script = append(script, "(MD, None)")
					if r.fg.isParked() {
						fState = parked
					} else {
						fState, pend = idle, map[uint64]bool{}
						r.fg.arm(false)
					}
					script = append(script, fmt.Sprintf("(%s, %s)", fname(), obs()))
					did = append(did, "D", "f")
					return true
				}
				script = append(script, fmt.Sprintf("(MD, %s)", obs()))
				did = append(did, "D")
				return true
			case "F", "A":
				if !canF() {
					return false
				}
				lockBusy := r.deleterInSection()
				wasLock := r.flushHoldsLock()
				curArmed = a == "F"
				r.fg.arm(curArmed)
				if fState == idle {
					b := sc.queue[nextBatch]
					for _, h := range b {
						pend[h] = true
					}
					commits = len(pend) >= sc.batch
					_ = r.s.Append(ctx, r.hdrs(b)...)
					nextBatch++
				} else {
					r.fg.release()
				}
				before := r.flushCommits()
				if lockBusy {
					spinUntil(func() bool { return r.fg.isParked() || (commits && r.flushCommits() > before) })
					if commits && r.flushCommits() > before {
						synctest.Wait() // it got the lock after all (only if the code does not take it)
					}
				} else {
					synctest.Wait()
				}
				switch {
				case r.fg.isParked():
					fState = parked
				case lockBusy && commits && r.flushCommits() == before:
					fState = blocked
				default:
					fState = idle
					if commits {
						pend = map[uint64]bool{}
					}
					r.fg.arm(false)
				}
				if wasLock && dState == blocked {
					// the deleter was waiting for ptrMu: it goes on to its next park by itself
					script = append(script, fmt.Sprintf("(%s, None)", fname()))
					noteD()
					script = append(script, fmt.Sprintf("(MD, %s)", obs()))
					did = append(did, a, "d")
					return true
				}
				script = append(script, fmt.Sprintf("(%s, %s)", fname(), obs()))
				did = append(did, a)
				return true
			}
			return false
		}
		if sc.script != nil {
			for _, a := range sc.script {
				if a == "D*" { // the deleter as far as it gets: to the end, or until it waits for ptrMu
					for canD() && step("D") {
					}
					continue
				}
				if a == "D@setTail" { // the deleter up to its first park inside setTail
					for canD() && !r.deleterInSection() && step("D") {
					}
					continue
				}
				if !step(a) {
					surprises = append(surprises, fmt.Sprintf("step %s not possible (deleter %d, flush %d)", a, dState, fState))
				}
			}
		} else {
			n := 6 + rng.Intn(3*len(deleterParks(from, sc.to, sc.ctxf))+8)
			for i := 0; i < n; i++ {
				var cand []string
				if canD() {
					cand = append(cand, "D", "D")
				}
				if canF() {
					cand = append(cand, "F", "F", "A")
				}
				if len(cand) == 0 {
					break
				}
				step(cand[rng.Intn(len(cand))])
			}
		}
		// both to the end, the remaining Appends, Sync
		r.dg.arm(false)
		r.fg.arm(false)
		if r.fg.isParked() {
			r.fg.release()
		}
		if r.dg.isParked() {
			r.dg.release()
		}
		if dState == idle {
			synctest.Wait()
			go func() { delDone <- r.s.DeleteRange(ctx, from, sc.to) }()
		}
		if dState != done {
			derr = <-delDone
		}
		for ; nextBatch < len(sc.queue); nextBatch++ {
			_ = r.s.Append(ctx, r.hdrs(sc.queue[nextBatch])...)
		}
		_ = r.s.Sync(ctx)
		synctest.Wait()
		r.rec.OnWrite, r.rec.OnGet, r.rec.OnCommit = nil, nil, nil
		final := storeh.ProbeOf(r.s, r.chain, r.reg, U)
		dh, dt := r.rawPtr("head"), r.rawPtr("tail")
		_ = r.s.Stop(ctx)
		r.newStore()
		if err := r.s.Start(ctx); err != nil {
			t.Fatal("reopen:", err)
		}
		synctest.Wait()
		reopen := storeh.ProbeOf(r.s, r.chain, r.reg, U)
		_ = r.s.Stop(ctx)
		var qs []string
		for _, b := range sc.queue {
			qs = append(qs, heights(b))
		}
		term = fmt.Sprintf("D17 (DCase17 %s %d %s %s %s %d %d %s %s %s %s %s %s)", emit.B(sc.ctxf), sc.batch, r.chainTerms(), heights(sc.init), emit.B(sc.presync),
			from, sc.to, emit.List(qs), emit.List(script), final, dh, dt, reopen)
		descr["mode"], descr["name"], descr["ctxds"], descr["batch"], descr["init"], descr["presync"], descr["delete_to"], descr["queue"], descr["script"], descr["delete_err"] =
			"race", sc.name, sc.ctxf, sc.batch, sc.init, sc.presync, sc.to, sc.queue, strings.Join(did, ""), fmt.Sprint(derr)
		if len(surprises) > 0 {
			descr["unexpected"] = surprises
		}
	})
	return term, descr, nobs
}

// flushCommits counts the datastore commits that carry headers (the flushes of the write batch)
func (r *race) flushCommits() int {
	n := 0
	for _, e := range r.rec.Log {
		for _, w := range e {
			if !w.Del && !strings.HasSuffix(w.Key, "/head") && !strings.HasSuffix(w.Key, "/tail") {
				n++
				break
			}
		}
	}
	return n
}

func randScenario(rng *emit.Rand) scenario {
	sc := scenario{batch: []int{1, 1, 2, 3, 64}[rng.Intn(5)], ctxf: rng.Bool(), presync: rng.Chance(70)}
	base := uint64(1 + rng.Intn(3))
	k := base + uint64(2+rng.Intn(5))
	for n := base; n <= k; n++ {
		sc.init = append(sc.init, n)
	}
	sc.to = base + 1 + uint64(rng.Intn(int(k-base)))
	if rng.Chance(30) {
		sc.to = k // everything below the head
	}
	next := k + 1
	for i := 0; i < 1+rng.Intn(3) && next <= U; i++ {
		var b []uint64
		start := next
		if rng.Chance(20) && next+2 <= U {
			start = next + 1 // a gap, filled by the next batch
		}
		for j := 0; j < 1+rng.Intn(3) && start+uint64(j) <= U; j++ {
			b = append(b, start+uint64(j))
		}
		if rng.Chance(15) && len(b) > 1 {
			b[0], b[len(b)-1] = b[len(b)-1], b[0]
		}
		sc.queue = append(sc.queue, b)
		if start != next {
			var fill []uint64
			for h := next; h < start; h++ {
				fill = append(fill, h)
			}
			if rng.Chance(50) {
				fill = append(fill, b[0]) // a repeat
			}
			sc.queue = append(sc.queue, fill)
		}
		next = start + uint64(len(b))
	}
	sc.name = "random"
	return sc
}

func rep(s string, n int) []string {
	out := make([]string, n)
	for i := range out {
		out[i] = s
	}
	return out
}

// the two schedules of findings F27 / F28 (fixed by repo commit 923f13e): with ptrMu the rival actor
// waits for the lock instead of persisting a stale pointer
func witnesses() []scenario {
	var out []scenario
	for _, ctxf := range []bool{false, true} {
		np := len(deleterParks(1, 3, ctxf))
		// F27: the deleter parked at its Put(head key) while a whole Append is flushed
		a := append(rep("D", np), "A", "D")
		out = append(out, scenario{batch: 1, ctxf: ctxf, init: []uint64{1, 2, 3, 4, 5, 6}, presync: true, to: 3,
			queue: [][]uint64{{7, 8}}, script: a, name: "F27-stale-head-key"})
		// F28: the flush goroutine parked before its Commit while setTail runs
		b := append(rep("D", np-2), "F", "F", "F", "D*", "F", "D*")
		out = append(out, scenario{batch: 1, ctxf: ctxf, init: []uint64{1, 2, 3, 4, 5, 6}, presync: true, to: 3,
			queue: [][]uint64{{7}}, script: b, name: "F28-stale-tail-key"})
		// everything below the head is deleted while the head moves on: the Append is taken in (advanceHead is
		// outside ptrMu) while the deleter sits between setTail's two pointer writes
		out = append(out, scenario{batch: 1, ctxf: ctxf, init: []uint64{1, 2, 3, 4, 5, 6}, presync: true, to: 6,
			queue: [][]uint64{{7, 8}, {9}}, script: []string{"D@setTail", "D", "A", "D*", "A"}, name: "trim-up-to-head"})
	}
	return out
}
