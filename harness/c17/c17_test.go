//go:build verif

package c17

import (
	"context"
	"errors"
	"fmt"
	"strconv"
	"strings"
	"sync"
	"testing"
	"testing/synctest"
	"time"

	"github.com/ipfs/go-datastore"
	contextds "github.com/ipfs/go-datastore/context"

	"github.com/celestiaorg/go-header/store"

	"verifharness/emit"
	"verifharness/storeh"
	"verifharness/vhdr"
)

type env struct {
	t     *testing.T
	ds    *storeh.RecDS
	s     *store.Store[*vhdr.Header]
	chain []*vhdr.Header
	reg   *vhdr.Registry
}

func (e *env) observe() string {
	ctx, cancel := context.WithTimeout(context.Background(), time.Second)
	defer cancel()
	hd, err := e.s.Head(ctx)
	if err != nil {
		return fmt.Sprintf("RObs17 None %d true true", e.s.Height())
	}
	hgt := e.s.Height()
	byH, e1 := e.s.GetByHeight(ctx, hd.Height())
	byHash, e2 := e.s.Get(ctx, hd.Hash())
	ok1 := e1 == nil && byH != nil && string(byH.Hash()) == string(hd.Hash())
	ok2 := e2 == nil && byHash != nil && byHash.Height() == hd.Height()
	return fmt.Sprintf("RObs17 (Some (%d, %d)) %d %s %s", hd.Height(), e.reg.ID(hd.Hash()), hgt, emit.B(ok1), emit.B(ok2))
}

func heights(ns []uint64) string {
	ss := make([]string, len(ns))
	for i, n := range ns {
		ss[i] = emit.N(n)
	}
	return emit.List(ss)
}

func (e *env) hdrs(ns []uint64) []*vhdr.Header {
	hs := make([]*vhdr.Header, len(ns))
	for i, n := range ns {
		hs[i] = e.chain[n-1]
	}
	return hs
}

func isHeightKey(k string) bool {
	k = strings.TrimPrefix(k, "/headers/")
	_, err := strconv.ParseUint(k, 10, 64)
	return err == nil && len(k) < 20
}

const U = 24

// dims: the dimensions of a mode 0/1/2 case besides the write batch size: the datastore flavour (plain, or
// context-aware: go-datastore/context over the recording datastore, as in the race cases) and the size of
// the two caches (0 = the library's default)
type dims struct {
	ctxf  bool
	cache int
}

func randDims(rng *emit.Rand) dims {
	return dims{ctxf: rng.Chance(40), cache: []int{4, 4, 2, 16, 0}[rng.Intn(5)]}
}

func setup(t *testing.T, batch int, dm dims) *env {
	e := &env{t: t, ds: storeh.NewRecDS(), reg: vhdr.NewRegistry()}
	e.chain = vhdr.Chain("a", 1, U, time.Now().UnixNano(), 1000, nil)
	var ds datastore.Batching = e.ds
	if dm.ctxf {
		ds = contextds.WrapDatastore(e.ds).(datastore.Batching)
	}
	opts := []store.Option{store.WithWriteBatchSize(batch)}
	if dm.cache > 0 {
		opts = append(opts, store.WithStoreCacheSize(dm.cache), store.WithIndexCacheSize(dm.cache))
	}
	s, err := store.NewStore[*vhdr.Header](ds, opts...)
	if err != nil {
		t.Fatal(err)
	}
	e.s = s
	if err := s.Start(context.Background()); err != nil {
		t.Fatal(err)
	}
	return e
}

func (e *env) chainTerms() string {
	ts := make([]string, len(e.chain))
	for i, h := range e.chain {
		ts[i] = e.reg.Term(h)
	}
	return emit.List(ts)
}

// randBatches: batches of chain heights above `from`, mostly contiguous continuation, some gaps/out-of-order/overlap
func randBatches(rng *emit.Rand, from uint64, n int) [][]uint64 {
	var out [][]uint64
	next := from + 1
	for i := 0; i < n && next <= U; i++ {
		k := 1 + rng.Intn(4)
		var b []uint64
		start := next
		if rng.Chance(20) && next+2 <= U {
			start = next + 1 + uint64(rng.Intn(2)) // leave a gap (filled later by another batch)
		}
		for j := 0; j < k && start+uint64(j) <= U; j++ {
			b = append(b, start+uint64(j))
		}
		if len(b) == 0 {
			break
		}
		if rng.Chance(15) {
			b[0], b[len(b)-1] = b[len(b)-1], b[0]
		}
		out = append(out, b)
		if start == next {
			next = start + uint64(len(b))
		} else {
			// the skipped heights come in a later batch
			var fill []uint64
			for h := next; h < start; h++ {
				fill = append(fill, h)
			}
			out = append(out, fill)
			next = start + uint64(len(b))
		}
	}
	return out
}

// gated: one writer at a time, the flush goroutine is parked at its datastore calls and a reader observes.
func gated(t *testing.T, rng *emit.Rand, batch int) (string, map[string]any, int) {
	var term string
	var nobs int
	descr := map[string]any{}
	dm := randDims(rng)
	descr["ctxf"], descr["cache"] = dm.ctxf, dm.cache
	synctest.Test(t, func(t *testing.T) {
		e := setup(t, batch, dm)
		ctx := context.Background()
		var init []uint64
		if rng.Chance(75) {
			for n := uint64(1); n <= uint64(2+rng.Intn(5)); n++ {
				init = append(init, n)
			}
			_ = e.s.Append(ctx, e.hdrs(init)...)
			_ = e.s.Sync(ctx)
			synctest.Wait()
		}
		from := uint64(len(init))
		if len(init) == 0 && rng.Bool() {
			from = uint64(rng.Intn(4))
		}
		queue := randBatches(rng, from, 2+rng.Intn(5))
		var armed bool
		var mu sync.Mutex
		gate := make(chan struct{})
		parked := false
		park := func() {
			mu.Lock()
			if !armed {
				mu.Unlock()
				return
			}
			armed = false
			parked = true
			mu.Unlock()
			<-gate
		}
		e.ds.OnGet = func(key string, found bool) {
			if !found && isHeightKey(key) {
				park()
			}
		}
		e.ds.OnCommit = park
		arm := func() { mu.Lock(); armed = true; parked = false; mu.Unlock() }
		isParked := func() bool { mu.Lock(); defer mu.Unlock(); return parked }
		var obs []string
		var qs []string
		for j, b := range queue {
			qs = append(qs, heights(b))
			arm()
			if err := e.s.Append(ctx, e.hdrs(b)...); err != nil {
				t.Fatal(err)
			}
			// micro-state indices: 1 = after pending.Append (parked in advanceHead's lookup),
			// 2 = after advanceHead (parked in recedeTail's lookup), 3 = before Commit
			for _, m := range []int{1, 2, 3} {
				synctest.Wait()
				if !isParked() {
					break
				}
				if rng.Chance(85) {
					obs = append(obs, fmt.Sprintf("(%d%%nat, %d%%nat, %s)", j, m, e.observe()))
				}
				if m < 3 {
					arm()
				}
				gate <- struct{}{}
			}
			synctest.Wait()
		}
		e.ds.OnGet, e.ds.OnCommit = nil, nil
		_ = e.s.Sync(ctx)
		synctest.Wait()
		final := storeh.ProbeOf(e.s, e.chain, e.reg, U)
		_ = e.s.Stop(ctx)
		nobs = len(obs)
		term = fmt.Sprintf("Case17 0 %d %s %s %s %s [] [] None %s", batch, e.chainTerms(), heights(init), emit.List(qs), emit.List(obs), final)
		descr["mode"], descr["init"], descr["queue"], descr["batch"] = "gated", init, queue, batch
	})
	return term, descr, nobs
}

// fullQueue: the bounded writes channel (16) and Append's blocking path. The flush of the first Append is parked
// at its first datastore call; 16 further Appends fill the channel; the 18th Append blocks in its second select
// until its context ends (virtual time) and must return that context's error WITHOUT storing its header: the
// model's queue holds the 17 accepted batches only (a failed Append is a no-op), the final probe must be the
// sequential result of those, and the failed Append's height must be absent by height and by hash.
func fullQueue(t *testing.T, batch int, dm dims) (string, map[string]any, int) {
	var term string
	var nobs int
	descr := map[string]any{"mode": "gated-full-queue", "batch": batch, "ctxf": dm.ctxf, "cache": dm.cache}
	synctest.Test(t, func(t *testing.T) {
		e := setup(t, batch, dm)
		ctx := context.Background()
		var mu sync.Mutex
		armed, parked := true, false
		gate := make(chan struct{})
		park := func() {
			mu.Lock()
			if !armed {
				mu.Unlock()
				return
			}
			armed, parked = false, true
			mu.Unlock()
			<-gate
		}
		e.ds.OnGet = func(key string, found bool) {
			if !found && isHeightKey(key) {
				park()
			}
		}
		e.ds.OnCommit = park
		var qs, obs, sy []string
		for n := uint64(1); n <= 17; n++ {
			if err := e.s.Append(ctx, e.chain[n-1]); err != nil {
				t.Fatalf("Append %d with a free queue slot: %v", n, err)
			}
			qs = append(qs, heights([]uint64{n}))
			if n == 1 {
				synctest.Wait()
				mu.Lock()
				p := parked
				mu.Unlock()
				if !p {
					t.Fatal("the flush of the first Append did not reach its first datastore call")
				}
				obs = append(obs, fmt.Sprintf("(0%%nat, 1%%nat, %s)", e.observe()))
			}
		}
		// the queue is full (16 batches buffered, one in the parked flush): this Append must wait, and give up with its context
		c18, cancel := context.WithTimeout(ctx, time.Second)
		err18 := e.s.Append(c18, e.chain[17])
		cancel()
		sy = append(sy, emit.B(err18 != nil && (errors.Is(err18, context.DeadlineExceeded) || errors.Is(err18, context.Canceled))))
		obs = append(obs, fmt.Sprintf("(0%%nat, 1%%nat, %s)", e.observe()))
		gate <- struct{}{}
		synctest.Wait()
		e.ds.OnGet, e.ds.OnCommit = nil, nil
		_ = e.s.Sync(ctx)
		synctest.Wait()
		// the refused header is nowhere
		has, _ := e.s.Has(ctx, e.chain[17].Hash())
		_, gerr := e.s.Get(ctx, e.chain[17].Hash())
		sy = append(sy, emit.B(!has && gerr != nil && e.s.Height() == 17))
		final := storeh.ProbeOf(e.s, e.chain, e.reg, U)
		_ = e.s.Stop(ctx)
		nobs = 3
		term = fmt.Sprintf("Case17 0 %d %s [] %s %s [] %s None %s", batch, e.chainTerms(), emit.List(qs), emit.List(obs), emit.List(sy), final)
		descr["append18_err"] = fmt.Sprint(err18)
	})
	return term, descr, nobs
}

// free: writers and readers (and optionally a tail-side deleter) run as free goroutines in virtual time.
func free(t *testing.T, rng *emit.Rand, batch int, withDeleter bool) (string, map[string]any, int) {
	var term string
	var nobs int
	descr := map[string]any{}
	dm := randDims(rng)
	descr["ctxf"], descr["cache"] = dm.ctxf, dm.cache
	synctest.Test(t, func(t *testing.T) {
		e := setup(t, batch, dm)
		ctx := context.Background()
		var init []uint64
		// half of the deleter-free runs start from a store whose first header is not height 1: the heights
		// below arrive later as segments of their own, possibly before the segment that connects them
		base := uint64(1)
		if !withDeleter && rng.Bool() {
			base = uint64(3 + rng.Intn(5))
		}
		for n := base; n <= base+uint64(5+rng.Intn(4)); n++ {
			init = append(init, n)
		}
		_ = e.s.Append(ctx, e.hdrs(init)...)
		_ = e.s.Sync(ctx)
		synctest.Wait()
		// a failed height lookup takes a little virtual time, so the flush goroutine is still busy
		// when a writer continues after Sync returned
		e.ds.OnGet = func(key string, found bool) {
			if !found {
				time.Sleep(time.Microsecond)
			}
		}
		// transient datastore failures while the writers run: a run of N consecutive failing flush commits
		// (the loop retries with a growing pause; whatever was appended before a Sync returned must be readable,
		// and nothing may be dropped when the datastore recovers). The readers then poll at the scale of the
		// retry pauses, and at most 300 times each, so the observation log stays small.
		failing := false
		if rng.Chance(30) {
			nf := []int{2, 5, 9, 13}[rng.Intn(4)]
			e.ds.FailHdrFrom, e.ds.FailHdrN = e.ds.HdrCommits()+rng.Intn(3), nf
			descr["failing_flush_commits"] = nf
			failing = true
		}
		all := randBatches(rng, init[len(init)-1], 8+rng.Intn(6))
		if base > 1 {
			cut := 1 + uint64(rng.Intn(int(base-1))) // [1..cut] and [cut+1..base-1]
			var lo, hi []uint64
			for n := uint64(1); n <= cut; n++ {
				lo = append(lo, n)
			}
			for n := cut + 1; n < base; n++ {
				hi = append(hi, n)
			}
			segs := [][]uint64{lo}
			if len(hi) > 0 && rng.Chance(70) { // otherwise the low segment stays cut off for good
				segs = append(segs, hi)
			}
			for _, sg := range segs {
				at := rng.Intn(len(all) + 1)
				all = append(all[:at], append([][]uint64{sg}, all[at:]...)...)
			}
		}
		nw := 2 + rng.Intn(3) // 2..4 writers
		per := make([][][]uint64, nw)
		for i, b := range all {
			per[i%nw] = append(per[i%nw], b)
		}
		var wg sync.WaitGroup
		done := make(chan struct{})
		synced := make([][]string, nw)
		for wi := 0; wi < nw; wi++ {
			wg.Add(1)
			delays := make([]time.Duration, len(per[wi]))
			for i := range delays {
				delays[i] = time.Duration(rng.Intn(5)) * time.Microsecond
			}
			go func(wi int, bs [][]uint64, delays []time.Duration) {
				defer wg.Done()
				var mine []uint64
				for i, b := range bs {
					if i%3 == 0 {
						time.Sleep(delays[i]) // bursts of up to three Appends back to back, then Sync
					}
					_ = e.s.Append(ctx, e.hdrs(b)...)
					mine = append(mine, b...)
					if i%3 == 2 || i == len(bs)-1 {
						if err := e.s.Sync(ctx); err != nil {
							continue
						}
						// every header whose Append has been followed by Sync is readable (unless the deleter took it)
						for _, n := range mine {
							if withDeleter && n < 10 {
								continue
							}
							// by hash and by height (a stored height is answered at once; the virtual
							// deadline only keeps a wrong answer from parking the writer)
							ok, _ := e.s.Has(ctx, e.chain[n-1].Hash())
							h, err := e.s.Get(ctx, e.chain[n-1].Hash())
							rctx, rcancel := context.WithTimeout(ctx, time.Millisecond)
							g, gerr := e.s.GetByHeight(rctx, n)
							rcancel()
							synced[wi] = append(synced[wi], emit.B(err == nil && h != nil && h.Height() == n && ok &&
								gerr == nil && g != nil && g.Height() == n && string(g.Hash()) == string(e.chain[n-1].Hash())))
						}
					}
				}
			}(wi, per[wi], delays)
		}
		del := "None"
		var delTo uint64
		var delErr error
		if withDeleter {
			wg.Add(1)
			delTo = uint64(2 + rng.Intn(len(init)-2))
			d := time.Duration(rng.Intn(8)) * time.Microsecond
			go func() {
				defer wg.Done()
				time.Sleep(d)
				delErr = e.s.DeleteRange(ctx, 1, delTo)
			}()
			descr["delete_to"] = delTo
		}
		nr := 1 + rng.Intn(2)
		robs := make([][]string, nr)
		var rwg sync.WaitGroup
		for ri := 0; ri < nr; ri++ {
			rwg.Add(1)
			step := time.Duration(1+rng.Intn(3)) * time.Microsecond
			if failing {
				step = time.Duration(1+rng.Intn(3)) * 20 * time.Millisecond
			}
			go func(ri int) {
				defer rwg.Done()
				for {
					if !failing || len(robs[ri]) < 300 {
						robs[ri] = append(robs[ri], e.observe())
					}
					select {
					case <-done:
						return
					case <-time.After(step):
					}
				}
			}(ri)
		}
		wg.Wait()
		_ = e.s.Sync(ctx)
		close(done)
		rwg.Wait()
		synctest.Wait()
		final := storeh.ProbeOf(e.s, e.chain, e.reg, U)
		_ = e.s.Stop(ctx)
		var qs, fs []string
		for _, b := range all {
			qs = append(qs, heights(b))
		}
		for _, r := range robs {
			nobs += len(r)
			fs = append(fs, emit.List(r))
		}
		mode := 1
		if withDeleter {
			mode = 2
			out := "OOk"
			if delErr != nil {
				out = "OFail"
				descr["delete_err"] = delErr.Error()
			}
			del = fmt.Sprintf("(Some (%s, %s))", emit.N(delTo), out)
		}
		var sy []string
		for _, l := range synced {
			sy = append(sy, l...)
		}
		term = fmt.Sprintf("Case17 %d %d %s %s %s [] %s %s %s %s", mode, batch, e.chainTerms(), heights(init), emit.List(qs), emit.List(fs), emit.List(sy), del, final)
		descr["mode"], descr["init"], descr["queue"], descr["batch"], descr["writers"], descr["readers"] = mode, init, all, batch, nw, nr
	})
	return term, descr, nobs
}

func TestC17(t *testing.T) {
	rng := emit.NewRand(emit.Seed())
	w := emit.NewWriter("Model.Store Model.StoreSpec Model.StoreConc Model.StoreDelConc Oracle.StoreCase Oracle.C17Del Oracle.C17", "xcase17", "chk17x")
	w.PerShard(40)
	w.Rule = "mode 0: gate-controlled schedules — each queued batch's flush is parked at its datastore calls (advanceHead lookup, recedeTail lookup, " +
		"batch commit) and a reader observes Head/Height/GetByHeight(head)/Get(head hash) at every park, compared with the model's micro-states; " +
		"mode 1: 2-4 free writer goroutines + 1-2 polling readers in virtual time, final state compared with the sequential model/spec; " +
		"mode 2: mode 1 plus a tail-side DeleteRange racing the appends (oracle only: monotone observations, gap-free final chain); " +
		"mode race (D17 cases): a tail-side DeleteRange(Tail,to) parked at each of its datastore writes and inside its OnDelete handler, racing 1-4 Appends whose " +
		"flush is parked in advanceHead's / recedeTail's last lookup and before its batch commit (plain and context-aware datastore, batch sizes 1..64, gaps and repeats " +
		"in the appended heights); after every release a reader observes Head/Height/Tail, GetByHeight+Get of every height of [to,Head] and the raw head/tail keys; " +
		"the model (Model/StoreDelConc.v) runs the same script and must reproduce every observation, the final probe, the persisted pointers and the probe after a reopen; " +
		"the oracle wants monotone Head/Height, a readable chain [to,Head] at every observation and final = reopen = specification (delete, then the appends). " +
		"The first six cases are scripted: the schedules of the fixed findings F27/F28 (an actor has to wait for ptrMu, detected by a bounded spin) and DeleteRange(Tail, Head) " +
		"with an Append taken in between setTail's two pointer writes, each on both datastore flavours. " +
		"Writers check after every Sync that all they appended is readable. " +
		"distinct by (mode, batch, init, queue); non-trivial when a reader observed at least 3 states"
	n := 120
	if emit.Thorough() {
		n = 2500
	}
	for _, sc := range witnesses() {
		term, d, nobs := runRace(t, rng, sc)
		w.Add(term, d, fmt.Sprint(d), nobs >= 3)
		w.Count("mode", "race")
		w.Count("race-scenario", sc.name)
	}
	for _, fq := range []struct {
		batch int
		dm    dims
	}{{1, dims{false, 4}}, {64, dims{true, 0}}, {3, dims{false, 2}}} {
		term, d, nobs := fullQueue(t, fq.batch, fq.dm)
		w.Add("X17 ("+term+")", d, fmt.Sprint(d), nobs >= 3)
		w.Count("mode", "gated-full-queue")
	}
	for i := 0; i < n; i++ {
		batch := []int{1, 2, 3, 5, 64}[rng.Intn(5)]
		var term string
		var d map[string]any
		var nobs int
		switch {
		case i%6 < 2:
			term, d, nobs = gated(t, rng, batch)
		case i%6 == 2:
			term, d, nobs = free(t, rng, batch, false)
		case i%6 == 3:
			term, d, nobs = free(t, rng, batch, true)
		default:
			sc := randScenario(rng)
			term, d, nobs = runRace(t, rng, sc)
			batch = sc.batch
			w.Count("race-scenario", sc.name)
			w.Count("race-flavour", fmt.Sprint(sc.ctxf))
		}
		if !strings.HasPrefix(term, "D17 ") {
			term = "X17 (" + term + ")"
		}
		w.Add(term, d, fmt.Sprint(d), nobs >= 3)
		w.Count("mode", fmt.Sprint(d["mode"]))
		w.Count("observations", fmt.Sprint(nobs/5*5))
		w.Count("batch", fmt.Sprint(batch))
		if _, ok := d["ctxf"]; ok {
			w.Count("datastore-ctxf", fmt.Sprint(d["ctxf"]))
			w.Count("cache", fmt.Sprint(d["cache"]))
		}
		if nw, ok := d["writers"]; ok {
			w.Count("writers", fmt.Sprint(nw))
		}
	}
	if err := w.Flush(); err != nil {
		t.Fatal(err)
	}
}
