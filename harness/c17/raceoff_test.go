//go:build verif && !race

package c17

const raceEnabled = false
