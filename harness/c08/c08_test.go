//go:build verif

package c08

import (
	"fmt"
	"testing"

	"verifharness/emit"
	"verifharness/storeh"
)

// TestC08: stores built by append histories with any mix of flushed and unflushed headers,
// then DeleteRange over a grid of (from, to), followed by continuation appends and restarts.
func TestC08(t *testing.T) {
	rng := emit.NewRand(emit.Seed())
	w := emit.NewWriter("Model.Store Model.StoreSpec Oracle.StoreCase Oracle.C14", "case14", "chk14")
	w.PerShard(40)
	w.Rule = "stores built by 1..4 random appends (batch sizes above and below the number of headers, so flushed and unflushed headers mix), " +
		"then one DeleteRange(from,to) from a grid over [0,Head+2]^2 (thorough: the complete grid for stores of <= 8 headers), then continuation " +
		"appends, a second delete, Restart/Reopen, each followed by a full probe; the raw datastore dump is compared at the end. distinct by " +
		"(config, ops); non-trivial when the first delete is accepted"
	type plan struct{ from, to uint64 }
	one := func(cfg storeh.Config, build int, del *plan, class string) {
		stage := 0
		base := storeh.RandomGen(rng, cfg, storeh.Weights{Append: 60, Delete: 25, Restart: 15, InvalidDelete: 20, FailPct: 10})
		appendOnly := storeh.RandomGen(rng, cfg, storeh.Weights{Append: 100})
		gen := func(step int, tail, head uint64) (storeh.Op, bool) {
			switch {
			case step < build:
				return appendOnly(step, tail, head)
			case step == build && del != nil:
				stage = 1
				return storeh.Op{Kind: storeh.Delete, From: del.from, To: del.to}, true
			default:
				_ = stage
				return base(step, tail, head)
			}
		}
		res := storeh.Run(t, rng, cfg, build+1+rng.Intn(8), gen)
		w.Add("CSeq ("+res.Term+")", res.Descr, class+fmt.Sprint(res.Descr["ops"]), res.DelOK > 0)
		w.Count("batch", fmt.Sprint(cfg.Batch))
		w.Count("datastore_flavour_ctxds", fmt.Sprint(cfg.CtxDS))
		w.Count("deletes_ok", fmt.Sprint(res.DelOK))
		w.Count("deletes", fmt.Sprint(res.Deletes))
	}
	cfgOf := func(u int) storeh.Config {
		return storeh.Config{Batch: []int{1, 2, 3, 5, 64}[rng.Intn(5)], Cache: []int{4, 8, 512}[rng.Intn(3)], ICache: []int{4, 2048}[rng.Intn(2)],
			U: u, NH: rng.Intn(3), ProbeEvery: true, Ranges: 2, CtxDS: rng.Bool(), DuringPct: 30}
	}
	n := 110
	if emit.Thorough() {
		n = 1500
		// complete (from,to) grid over small stores
		for _, batch := range []int{1, 3, 64} {
			for from := uint64(0); from <= 10; from++ {
				for to := uint64(0); to <= 11; to++ {
					cfg := cfgOf(10)
					cfg.Batch = batch
					one(cfg, 2, &plan{from, to}, "grid/")
				}
			}
		}
		w.Exhaustive = true
	}
	for i := 0; i < n; i++ {
		cfg := cfgOf(24)
		var p *plan
		if rng.Chance(50) {
			p = &plan{uint64(rng.Intn(14)), uint64(rng.Intn(16))}
		}
		one(cfg, 1+rng.Intn(4), p, "rand/")
	}
	// ranges reaching below the tail / above the head of a chain that has detached headers
	// stored around it (headers appended across a gap, below the tail or above the head)
	for _, a := range []uint64{4, 9} {
		for _, d := range []uint64{1, a - 2} {
			b := a + 6
			for _, del := range [][2]uint64{{d + 1, b + 1}, {d, b + 1}, {d + 1, b}, {a, b + 3}, {a - 1, a + 2}} {
				cfg := cfgOf(24)
				chain := make([]uint64, 0, 8)
				for h := a; h <= b; h++ {
					chain = append(chain, h)
				}
				ops := []storeh.Op{storeh.A(chain...), storeh.A(d), storeh.A(b + 2), storeh.D(del[0], del[1]), storeh.A(b + 1), storeh.O()}
				res := storeh.Run(t, rng, cfg, len(ops), storeh.Scripted(ops))
				w.Add("CSeq ("+res.Term+")", res.Descr, fmt.Sprintf("detached/%d/%d/%v/", a, d, del)+fmt.Sprint(cfg.Batch), true)
				w.Count("detached_header_scenarios", "1")
			}
		}
	}
	// a deletion that fails part-way (handler error or panic at height k) and its retry, then a restart:
	// both datastore flavours (with the context-aware one the deletions sit in a write batch until the
	// end of the sequential pass), both sides, flushed and unflushed headers
	for _, ctxds := range []bool{false, true} {
		for _, side := range []string{"tail", "head"} {
			for _, batch := range []int{1, 64} {
				for _, pnc := range []bool{false, true} {
					cfg := cfgOf(24)
					cfg.CtxDS, cfg.Batch, cfg.NH, cfg.DuringPct = ctxds, batch, 1+rng.Intn(2), 0
					from, to, k := uint64(1), uint64(8), uint64(3+rng.Intn(4))
					retry := storeh.D(k, to)
					if side == "head" {
						from, to = 5, 13
						k = uint64(6 + rng.Intn(6))
						retry = storeh.D(from, k+1) // the head stayed at k
					}
					fail := storeh.D(from, to)
					fail.Fails = []storeh.Fail{{Handler: rng.Intn(cfg.NH), Height: k, Panic: pnc}}
					ops := []storeh.Op{storeh.A(1, 2, 3, 4, 5, 6, 7, 8, 9, 10), storeh.A(11, 12), fail, retry, storeh.R(), storeh.A(13), storeh.O()}
					if side == "head" {
						ops[5] = storeh.A(k, k+1) // the deleted heights may come back only by a new Append
					}
					res := storeh.Run(t, rng, cfg, len(ops), storeh.Scripted(ops))
					w.Add("CSeq ("+res.Term+")", res.Descr, fmt.Sprintf("partial/%v/%s/%d/%v/%d", ctxds, side, batch, pnc, k), true)
					w.Count("partial_failure_then_retry", side)
				}
			}
		}
	}
	// the parallel deletion path with a failing handler and the retry (relational oracle)
	np := 6
	if emit.Thorough() {
		np = 60
	}
	for i := 0; i < np; i++ {
		cfg := cfgOf(30)
		if cfg.NH == 0 {
			cfg.NH = 1
		}
		cfg.CtxDS = false
		k := uint64(12 + rng.Intn(16))
		to := uint64(6 + rng.Intn(int(k)-6))
		f := storeh.Fail{Handler: rng.Intn(cfg.NH), Height: uint64(1 + rng.Intn(int(to)-1)), Panic: rng.Chance(30)}
		fs := []storeh.Fail{f}
		if rng.Bool() { // a second failing height, so that two workers fail in the same deletion
			fs = append(fs, storeh.Fail{Handler: rng.Intn(cfg.NH), Height: uint64(1 + rng.Intn(int(to)-1)), Panic: rng.Chance(30)})
		}
		term, d := storeh.RunPar(t, rng, cfg, k, to, fs...)
		w.Add(term, d, fmt.Sprint(d), true)
		w.Count("parallel_path", "1")
	}
	// failing datastore writes inside DeleteRange (finding F29): corpus witnesses, every single-failure placement on
	// both sides and the whole store with both datastore flavours, random placements at the end of random histories;
	// each followed by the retry, a continuation and a reopen (Oracle/StoreFault.v)
	nf := 40
	if emit.Thorough() {
		nf *= 10
	}
	storeh.FaultCases(t, rng, []int{4, 64}, []int{0, 1}, nf, func(res storeh.Result, class string) {
		if res.FaultTerm == "" { // no operation with failing writes was reached
			w.Add("CSeq ("+res.Term+")", res.Descr, class+fmt.Sprint(res.Descr["ops"]), false)
			return
		}
		w.Add("CFault ("+res.FaultTerm+")", res.Descr, class+fmt.Sprint(res.Descr["ops"]), res.WFailed > 0)
		w.Count("failing_writes_in_delete", fmt.Sprint(res.WFailed))
		w.Count("write_attempts_in_faulty_delete", fmt.Sprint(res.WAttempts))
	})
	if err := w.Flush(); err != nil {
		t.Fatal(err)
	}
}
