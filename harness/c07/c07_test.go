//go:build verif

// Driver for C07: a real sync.Syncer (real store.Store, scripted getter,
// captured gossip verifier) inside synctest bubbles. The script is generated
// adaptively: at every quiescence the driver looks whether the sync loop is
// blocked in a range request and chooses the next action (answer with a prefix
// of some length / an error, deliver a new valid head - adjacent, skipping,
// stale - while the request is outstanding or not, let Head() learn a head).
// After each action the bubble settles and the observables are recorded.
package c07

import (
	"context"
	"fmt"
	"testing"
	"testing/synctest"
	"time"

	logging "github.com/ipfs/go-log/v2"

	header "github.com/celestiaorg/go-header"

	"verifharness/emit"
	"verifharness/syncfx"
	"verifharness/vhdr"
)

type runner struct {
	f      *syncfx.Fixture
	w      *emit.Writer
	acts   []string
	newest uint64 // newest accepted head
	nacts  int
	kinds  map[string]int
	errs   int
	// SyncWait probes (driver TestC07Wait only): a SyncWait started at a quiescence inside the script
	waitMode bool
	waits    []*waiter
}

// waiter is one SyncWait call started after action number idx (1-based count of recorded actions).
type waiter struct {
	idx    int
	before bool // it had returned nil at that very quiescence
	after  bool // it had returned nil when the script was over
	done   chan error
	cancel context.CancelFunc
}

// probeWait starts SyncWait in a goroutine and records whether it returns without anything else happening.
func (r *runner) probeWait(kind string) {
	if !r.waitMode {
		return
	}
	ctx, cancel := context.WithCancel(context.Background())
	wt := &waiter{idx: r.nacts, done: make(chan error, 1), cancel: cancel}
	go func() { wt.done <- r.f.Syncer.SyncWait(ctx) }()
	synctest.Wait()
	select {
	case err := <-wt.done:
		wt.before, wt.after = err == nil, err == nil
		wt.done = nil
		cancel()
	default:
	}
	r.waits = append(r.waits, wt)
	r.w.Count("sync_wait_probe", fmt.Sprintf("%s/returned_at_once=%v", kind, wt.before))
}

// finishWaits collects the SyncWait calls still blocked when the script is over.
func (r *runner) finishWaits() string {
	synctest.Wait()
	var out []string
	for _, wt := range r.waits {
		if wt.done != nil {
			select {
			case err := <-wt.done:
				wt.after = err == nil
			default:
				wt.cancel()
				<-wt.done
			}
			wt.cancel()
		}
		r.w.Count("sync_wait_result", fmt.Sprintf("before=%v/after=%v", wt.before, wt.after))
		out = append(out, fmt.Sprintf("(%d, %s, %s)", wt.idx, emit.B(wt.before), emit.B(wt.after)))
	}
	return emit.List(out)
}

func (r *runner) rec(act string, ret int, kind string) syncfx.Obs {
	o := r.f.Observe(ret)
	r.acts = append(r.acts, emit.Pair(act, o.Term()))
	r.nacts++
	r.kinds[kind]++
	r.w.Count("action", kind)
	return o
}

func (r *runner) deliverHdr(h *vhdr.Header, kind string) {
	now := time.Now().UnixNano()
	i := r.f.Deliver(h)
	ret := r.f.Results[i]
	if ret == 0 {
		ret = 3
	}
	skipping := ret == 1 && h.Height() > r.newest+1
	if ret == 1 && h.Height() > r.newest {
		r.newest = h.Height()
	}
	r.w.Count("deliver_ret", fmt.Sprint(ret))
	r.rec(fmt.Sprintf("(DDeliver %s %s (Bif [] false))", r.f.Reg.Term(h), emit.Z(now)), ret, kind)
	if skipping {
		r.probeWait("after_skipping_delivery")
	} else {
		r.probeWait("after_other_delivery")
	}
}

func (r *runner) deliver(n uint64, kind string) bool {
	h := r.f.At(n)
	if h == nil {
		return false
	}
	r.deliverHdr(h, kind)
	return true
}

func (r *runner) headLearn(n uint64) bool {
	h := r.f.At(n)
	if h == nil {
		return false
	}
	r.f.HeadCall(h)
	if h.Height() > r.newest {
		r.newest = h.Height()
	}
	r.rec(fmt.Sprintf("(DHead (Some %s))", r.f.Reg.Term(h)), 0, "head_learn")
	return true
}

// answer the outstanding request with the first k headers of the range (k <= 0: all)
func (r *runner) answer(k int) bool {
	req := r.f.Getter.Outstanding()
	if req == nil {
		return false
	}
	size := int(req.To - req.From.Height() - 1)
	if k <= 0 || k > size {
		k = size
	}
	var hs []*vhdr.Header
	for i := 0; i < k; i++ {
		h := r.f.At(req.From.Height() + 1 + uint64(i))
		if h == nil {
			break
		}
		hs = append(hs, h)
	}
	r.f.Getter.Answer(hs, nil)
	kind := "answer_full"
	if k < size {
		kind = "answer_partial"
	}
	r.w.Count("prefix_len", fmt.Sprint(k))
	r.w.Count("req_size", fmt.Sprint(size))
	r.rec(fmt.Sprintf("(DAnswer (APrefix %d))", k), 0, kind)
	if k < size {
		r.probeWait("after_partial_answer")
	} else {
		r.probeWait("after_full_answer")
	}
	return true
}

func (r *runner) answerErr() bool {
	if r.f.Getter.Outstanding() == nil {
		return false
	}
	k := r.errs % len(syncfx.ErrKinds) // the kind of error must not matter
	r.f.Getter.Answer(nil, syncfx.ErrKinds[k])
	r.w.Count("getter_error_kind", syncfx.ErrKindNames[k])
	r.errs++
	r.rec("(DAnswer AErr)", 0, "answer_err")
	r.probeWait("after_getter_error")
	return true
}

func (r *runner) drain() {
	for i := 0; i < 400 && r.f.Getter.Outstanding() != nil; i++ {
		r.answer(0)
	}
}

type scenario struct {
	class  string
	tail   uint64
	nInit  int
	nChain int
	batch  int
	script func(r *runner, rng *emit.Rand)
	wait   bool // probe SyncWait inside the script (TestC07Wait)
}

func runScenario(t *testing.T, w *emit.Writer, sc scenario, rng *emit.Rand) {
	synctest.Test(t, func(t *testing.T) {
		f, err := syncfx.NewFixture(sc.tail, sc.nInit, sc.nChain, sc.batch)
		if err != nil {
			t.Fatalf("fixture: %v", err)
		}
		r := &runner{f: f, w: w, kinds: map[string]int{}, newest: f.Init[len(f.Init)-1].Height(), waitMode: sc.wait}
		sc.script(r, rng)
		waits := ""
		if sc.wait {
			waits = r.finishWaits()
		}
		wait := f.SyncWaitReturns()
		probe, _ := f.Probe()
		reqs := len(f.Getter.Log)
		f.Close()
		term := fmt.Sprintf("Case07 %s %d %s %s %s %s %s", emit.Z(int64(header.VerifClockDrift())), sc.tail,
			f.GenChainTerm(sc.tail, sc.nInit, 1), f.GenChainTerm(sc.tail+uint64(sc.nInit), sc.nChain, uint64(sc.nInit)+1),
			emit.List(r.acts), emit.B(wait), probe)
		if sc.wait {
			term = fmt.Sprintf("Case07w (%s) %s", term, waits)
		}
		w.Add(term, map[string]any{"class": sc.class, "tail": sc.tail, "init": sc.nInit, "chain": sc.nChain, "actions": r.nacts,
			"kinds": r.kinds, "requests": reqs, "newest": r.newest}, sc.class, reqs > 0)
		w.Count("actions_per_case", fmt.Sprint(r.nacts/5*5))
		w.Count("requests_per_case", fmt.Sprint(reqs))
		w.Count("class", sc.class)
	})
}

// nextHead picks the height of a new valid head above newest
func nextHead(r *runner, rng *emit.Rand, mode int) uint64 {
	top := r.f.Top()
	if r.newest >= top {
		return 0
	}
	var n uint64
	switch mode {
	case 0: // adjacent
		n = r.newest + 1
	case 1: // small skip
		n = r.newest + 2 + uint64(rng.Intn(5))
	default: // big skip, around the request-size boundary
		n = r.newest + uint64([]int{2, 3, 63, 64, 65, 66, 70, 100, 127, 128, 129, 130, 131}[rng.Intn(13)])
	}
	if n > top {
		n = top
	}
	return n
}

func randomScript(maxActs int, errPct int, headPct int) func(r *runner, rng *emit.Rand) {
	return func(r *runner, rng *emit.Rand) {
		for r.nacts < maxActs {
			if req := r.f.Getter.Outstanding(); req != nil {
				c := rng.Intn(100)
				switch {
				case c < errPct:
					r.answerErr()
				case c < errPct+25: // a head arrives while the sync runs
					n := nextHead(r, rng, rng.Intn(3))
					if n == 0 || !r.deliver(n, "deliver_during_sync") {
						r.answer(0)
					}
				case c < errPct+25+headPct:
					n := nextHead(r, rng, rng.Intn(3))
					if n == 0 || !r.headLearn(n) {
						r.answer(0)
					}
				default:
					size := int(req.To - req.From.Height() - 1)
					k := size
					if rng.Chance(60) {
						k = 1 + rng.Intn(size)
					}
					r.answer(k)
				}
				continue
			}
			c := rng.Intn(100)
			switch {
			case c < 8:
				// stale or duplicate head: must be refused
				lo := r.f.Tail
				n := lo + uint64(rng.Intn(int(r.newest-lo)+1))
				r.deliver(n, "deliver_stale")
			case c < 8+headPct:
				n := nextHead(r, rng, rng.Intn(3))
				if n == 0 || !r.headLearn(n) {
					return
				}
			case c < 20+headPct:
				if r.nacts > 3 {
					return
				}
				fallthrough
			default:
				n := nextHead(r, rng, rng.Intn(3))
				if n == 0 {
					return
				}
				r.deliver(n, "deliver_idle")
			}
		}
		r.drain()
	}
}

func TestC07(t *testing.T) {
	_ = logging.SetLogLevel("*", "fatal")
	rng := emit.NewRand(emit.Seed())
	w := emit.NewWriter("Model.Verify Model.Ranges Model.Syncer Oracle.C07", "case07", "chk07")
	w.PerShard(40)
	w.Rule = "scripts over a real Syncer+Store in virtual time, generated adaptively at each quiescence: valid heads delivered adjacent / skipping 2..131 / stale, " +
		"while idle or while a range request is outstanding (bursts, gapped pending), Head()-learned heads, answers = prefix of length 1..requested or error runs (errors of every kind: plain, wrapping ErrNotFound / context.Canceled / DeadlineExceeded); " +
		"every script ends by draining with full answers; distinct by scenario class; non-trivial when at least one range request was made"
	nRandom := 110
	if emit.Thorough() {
		nRandom = 900
	}
	var scs []scenario

	// fixed shapes named by the property
	fixed := []struct {
		name string
		f    func(r *runner, rng *emit.Rand)
	}{
		{"adjacent_heads", func(r *runner, rng *emit.Rand) {
			for i := 0; i < 6; i++ {
				r.deliver(r.newest+1, "deliver_idle")
			}
		}},
		{"skip_full", func(r *runner, rng *emit.Rand) { r.deliver(r.newest+100, "deliver_idle"); r.drain() }},
		{"skip_partial_each", func(r *runner, rng *emit.Rand) {
			r.deliver(r.newest+70, "deliver_idle")
			for r.f.Getter.Outstanding() != nil {
				r.answer(1 + rng.Intn(9))
			}
		}},
		{"burst_adjacent_during_sync", func(r *runner, rng *emit.Rand) {
			r.deliver(r.newest+10, "deliver_idle")
			for i := 0; i < 4; i++ {
				r.deliver(r.newest+1, "deliver_during_sync")
			}
			r.drain()
		}},
		{"gapped_pending", func(r *runner, rng *emit.Rand) {
			r.deliver(r.newest+5, "deliver_idle")
			r.deliver(r.newest+4, "deliver_during_sync")
			r.deliver(r.newest+1, "deliver_during_sync")
			r.deliver(r.newest+70, "deliver_during_sync")
			r.answer(2)
			r.deliver(r.newest+2, "deliver_during_sync")
			r.drain()
		}},
		{"adjacent_head_while_filling_earlier_gap", func(r *runner, rng *emit.Rand) {
			// two pending ranges [a],[T] left by an aborted attempt; the next attempt (target T) is filling the gap
			// in front of [a] when T+1 arrives: the last range is [T, T+1] when the loop takes T out of it
			r.deliver(r.newest+5, "deliver_idle")
			r.deliver(r.newest+15, "deliver_during_sync")
			r.answerErr()
			r.deliver(r.newest+1, "deliver_during_sync")
			r.answer(2)
			r.deliver(r.newest+1, "deliver_during_sync")
			r.drain()
		}},
		{"prefixes_then_error", func(r *runner, rng *emit.Rand) {
			// short prefixes are stored as they come: an error later in the same attempt loses none of them
			r.deliver(r.newest+40, "deliver_idle")
			r.answer(3)
			r.answer(1)
			r.answer(5)
			r.answerErr()
			r.deliver(r.newest+1, "deliver_idle")
			r.answer(2)
			r.answerErr()
			r.deliver(r.newest+3, "deliver_idle")
			r.drain()
		}},
		{"error_kinds_then_completing_sync", func(r *runner, rng *emit.Rand) {
			// an error of each kind aborts one attempt; the next learned head completes the sync
			for k := 0; k < len(syncfx.ErrKinds); k++ {
				r.deliver(r.newest+9, "deliver_idle")
				r.answer(3)
				r.answerErr()
				r.deliver(r.newest+1, "deliver_idle")
				r.drain()
			}
		}},
		{"error_then_next_head", func(r *runner, rng *emit.Rand) {
			r.deliver(r.newest+20, "deliver_idle")
			r.answer(7)
			r.answerErr()
			r.deliver(r.newest+1, "deliver_idle")
			r.drain()
		}},
		{"error_runs", func(r *runner, rng *emit.Rand) {
			r.deliver(r.newest+30, "deliver_idle")
			for i := 0; i < 4; i++ {
				r.answerErr()
				r.deliver(r.newest+1+uint64(rng.Intn(3)), "deliver_idle")
				r.answer(1 + rng.Intn(5))
			}
			r.drain()
		}},
		{"error_left_unresolved", func(r *runner, rng *emit.Rand) {
			r.deliver(r.newest+9, "deliver_idle")
			r.answer(3)
			r.answerErr()
		}},
		{"error_with_head_during_attempt", func(r *runner, rng *emit.Rand) {
			r.deliver(r.newest+9, "deliver_idle")
			r.deliver(r.newest+3, "deliver_during_sync")
			r.answerErr()
			r.drain()
		}},
		{"head_learned", func(r *runner, rng *emit.Rand) {
			r.headLearn(r.newest + 40)
			r.answer(5)
			r.headLearn(r.newest + 1)
			r.drain()
		}},
		{"exactly_64_65_66", func(r *runner, rng *emit.Rand) {
			r.deliver(r.newest+64, "deliver_idle")
			r.drain()
			r.deliver(r.newest+65, "deliver_idle")
			r.drain()
			r.deliver(r.newest+66, "deliver_idle")
			r.drain()
		}},
	}
	for _, fx := range fixed {
		for _, b := range []int{1, 64} {
			scs = append(scs, scenario{class: fmt.Sprintf("%s/b%d", fx.name, b), tail: 1 + rng.U64()%30, nInit: 1 + rng.Intn(3), nChain: 215, batch: b, script: fx.f})
		}
	}
	for i := 0; i < nRandom; i++ {
		errPct := []int{0, 0, 10, 25}[rng.Intn(4)]
		headPct := []int{0, 0, 8}[rng.Intn(3)]
		maxActs := 6 + rng.Intn(22)
		scs = append(scs, scenario{class: fmt.Sprintf("random/e%d/h%d/a%d", errPct, headPct, maxActs/7*7), tail: 1 + rng.U64()%40,
			nInit: 1 + rng.Intn(4), nChain: 40 + rng.Intn(260), batch: []int{1, 4, 64}[rng.Intn(3)], script: randomScript(maxActs, errPct, headPct)})
	}
	if emit.Thorough() {
		// every cut position of the first answer, for target distances around the request size
		w.Exhaustive = true
		for _, d := range []int{1, 2, 3, 63, 64, 65, 66, 127, 128, 129, 130, 131} {
			maxCut := d
			if maxCut > 64 {
				maxCut = 64
			}
			for cut := 1; cut <= maxCut; cut++ {
				d, cut := d, cut
				scs = append(scs, scenario{class: fmt.Sprintf("cut/d%d", d), tail: 3, nInit: 2, nChain: d + 2, batch: 64,
					script: func(r *runner, rng *emit.Rand) {
						r.deliver(r.newest+uint64(d), "deliver_idle")
						r.answer(cut)
						r.drain()
					}})
			}
		}
	}
	// always first: the two schedules with delayed Head() calls that defeated the interleaved form before /repo 7d16f07
	for _, kind := range []string{"range", "answer", "lock", "slowwrite", "failwrite_loop", "failwrite_gossip"} {
		run, ok, err := syncfx.RunStraddle(kind)
		if err != nil {
			t.Fatalf("corpus straddle/%s: %v", kind, err)
		}
		if !ok {
			t.Logf("corpus case straddle/%s: the Head() calls did not park inside networkHead (call site changed); case not generated", kind)
			continue
		}
		class := "corpus/straddle_" + kind
		if kind == "lock" {
			class = "corpus/append_lock"
		}
		if kind == "slowwrite" {
			class = "corpus/slow_store_write"
		}
		if kind == "failwrite_loop" || kind == "failwrite_gossip" {
			class = "corpus/" + kind
		}
		term := fmt.Sprintf("Case07 %s %d %s %s %s %s %s", emit.Z(run.Drift), run.Tail, run.Init, run.Chain, emit.List(run.Acts), emit.B(run.Wait), emit.List(run.Probe))
		w.Add(term, map[string]any{"class": class, "what": run.Note}, class, true)
		w.Count("class", class)
	}
	// random scripts over the slow underlying store (every Store.Append parked, then released or failed): real time
	nSlow, slowActs := 10, 16
	if emit.Thorough() {
		nSlow, slowActs = 60, 24
	}
	slowRuns, slowStats, err := syncfx.RunSlowScripts(emit.Seed()+77, nSlow, slowActs)
	if err != nil {
		t.Fatalf("slow-store scripts: %v", err)
	}
	for k, v := range slowStats {
		for i := 0; i < v; i++ {
			w.Count("slow_store_action", k)
		}
	}
	for _, run := range slowRuns {
		term := fmt.Sprintf("Case07 %s %d %s %s %s %s %s", emit.Z(run.Drift), run.Tail, run.Init, run.Chain, emit.List(run.Acts), emit.B(run.Wait), emit.List(run.Probe))
		w.Add(term, map[string]any{"class": "random/slow_store", "what": run.Note}, "random/slow_store", len(run.Acts) >= 4)
		w.Count("class", "random/slow_store")
	}
	for _, sc := range scs {
		runScenario(t, w, sc, rng)
	}
	if err := w.Flush(); err != nil {
		t.Fatal(err)
	}
	t.Logf("emitted %d cases", w.Len())
}
