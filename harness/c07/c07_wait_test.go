//go:build verif

package c07

// Extra driver of C07: SyncWait started INSIDE the scripts (right after a skipping delivery, a getter
// error or a partial answer), not only after the final drain: whether it returned at once, and whether
// it had returned when the script was over.

import (
	"fmt"
	"testing"

	logging "github.com/ipfs/go-log/v2"

	"verifharness/emit"
)

func TestC07Wait(t *testing.T) {
	_ = logging.SetLogLevel("*", "fatal")
	rng := emit.NewRand(emit.Seed() ^ 0x5DEECE66D)
	w := emit.NewWriter("Model.Verify Model.Ranges Model.Syncer Oracle.C07", "case07w", "chk07w")
	w.PerShard(40)
	w.Rule = "the scripts of the main C07 driver (fixed shapes + random), with Syncer.SyncWait started in a goroutine right after every skipping delivery, every getter error and every partial answer; " +
		"recorded per call: returned nil at that very quiescence (before any answer) / had returned nil when the script was over; compared with sync_wait_returns of the model's configuration at that observation"
	fixed := []struct {
		name string
		f    func(r *runner, rng *emit.Rand)
	}{
		{"skip_then_full", func(r *runner, rng *emit.Rand) { r.deliver(r.newest+100, "deliver_idle"); r.drain() }},
		{"skip_partial_each", func(r *runner, rng *emit.Rand) {
			r.deliver(r.newest+70, "deliver_idle")
			for r.f.Getter.Outstanding() != nil {
				r.answer(1 + rng.Intn(9))
			}
		}},
		{"skip_error_left", func(r *runner, rng *emit.Rand) {
			r.deliver(r.newest+9, "deliver_idle")
			r.answer(3)
			r.answerErr()
		}},
		{"skip_error_next_head", func(r *runner, rng *emit.Rand) {
			r.deliver(r.newest+20, "deliver_idle")
			r.answer(7)
			r.answerErr()
			r.deliver(r.newest+1, "deliver_idle")
			r.drain()
		}},
		{"two_skips", func(r *runner, rng *emit.Rand) {
			r.deliver(r.newest+5, "deliver_idle")
			r.deliver(r.newest+70, "deliver_during_sync")
			r.answer(2)
			r.drain()
		}},
		{"skip_2", func(r *runner, rng *emit.Rand) { r.deliver(r.newest+2, "deliver_idle"); r.drain() }},
		{"one_header_short", func(r *runner, rng *emit.Rand) {
			// the answer stops one header below the target: SyncWait must still block
			for _, d := range []uint64{2, 5, 64, 65, 70} {
				r.deliver(r.newest+d, "deliver_idle")
				for {
					req := r.f.Getter.Outstanding()
					if req == nil {
						break
					}
					size := int(req.To - req.From.Height() - 1)
					if size > 1 {
						r.answer(size - 1)
					} else {
						r.answer(0)
					}
				}
			}
		}},
		{"adjacent_only", func(r *runner, rng *emit.Rand) {
			r.deliver(r.newest+1, "deliver_idle")
			r.deliver(r.newest+2, "deliver_idle")
			r.answerErr()
		}},
	}
	var scs []scenario
	for _, fx := range fixed {
		for _, b := range []int{1, 64} {
			scs = append(scs, scenario{class: fmt.Sprintf("wait/%s/b%d", fx.name, b), tail: 1 + rng.U64()%30, nInit: 1 + rng.Intn(3), nChain: 215, batch: b, script: fx.f, wait: true})
		}
	}
	nRandom := 60
	if emit.Thorough() {
		nRandom = 600
	}
	for i := 0; i < nRandom; i++ {
		errPct := []int{0, 10, 25}[rng.Intn(3)]
		headPct := []int{0, 0, 8}[rng.Intn(3)]
		maxActs := 6 + rng.Intn(22)
		scs = append(scs, scenario{class: fmt.Sprintf("wait/random/e%d/h%d/a%d", errPct, headPct, maxActs/7*7), tail: 1 + rng.U64()%40,
			nInit: 1 + rng.Intn(4), nChain: 40 + rng.Intn(260), batch: []int{1, 4, 64}[rng.Intn(3)], script: randomScript(maxActs, errPct, headPct), wait: true})
	}
	for _, sc := range scs {
		runScenario(t, w, sc, rng)
	}
	if err := w.Flush(); err != nil {
		t.Fatal(err)
	}
	t.Logf("emitted %d cases", w.Len())
}
