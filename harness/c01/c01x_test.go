//go:build verif

package c01

import (
	"fmt"
	"strings"
	"testing"
	"testing/synctest"
	"time"

	header "github.com/celestiaorg/go-header"

	"verifharness/emit"
	"verifharness/hv"
	"verifharness/vhdr"
)

// shape of what the header type's own Verify answers: the Go twin of Model/Verify.v [tvx]
type shape struct {
	kind string // ok plain verr wrapped typednil shared
	soft bool
	e    uint64
	w    uint64 // wrapper identity (wrapped; shared when hasW)
	hasW bool
	cell uint64
}

func (s shape) term() string {
	switch s.kind {
	case "ok":
		return "XOk"
	case "plain":
		return fmt.Sprintf("(XPlain %d)", s.e)
	case "verr":
		return fmt.Sprintf("(XVerr %s %d)", emit.B(s.soft), s.e)
	case "wrapped":
		return fmt.Sprintf("(XWrapped %d %s %d)", s.w, emit.B(s.soft), s.e)
	case "typednil":
		return "XTypedNil"
	case "shared":
		w := "None"
		if s.hasW {
			w = fmt.Sprintf("(Some %d)", s.w)
		}
		return fmt.Sprintf("(XShared %s %d %d)", w, s.cell, s.e)
	}
	panic("shape")
}

// world: the *VerifyError instances the header type keeps (one per cell), as a package-level
// `var errX = &header.VerifyError{...}` of a real header type would be
type world struct {
	kept map[uint64]*header.VerifyError
	soft []uint64 // cells the TYPE created soft
}

func newWorld() *world { return &world{kept: map[uint64]*header.VerifyError{}} }

func (w *world) cell(c uint64, e uint64, soft bool) {
	w.kept[c] = &header.VerifyError{Reason: &vhdr.TypeErr{ID: e}, SoftFailure: soft}
	if soft {
		w.soft = append(w.soft, c)
	}
}

func (w *world) result(s shape) error {
	switch s.kind {
	case "ok":
		return nil
	case "plain":
		return &vhdr.TypeErr{ID: s.e}
	case "verr":
		return &header.VerifyError{Reason: &vhdr.TypeErr{ID: s.e}, SoftFailure: s.soft}
	case "wrapped":
		return hv.WrapErr(s.w, &header.VerifyError{Reason: &vhdr.TypeErr{ID: s.e}, SoftFailure: s.soft})
	case "typednil":
		var p *header.VerifyError
		return p
	case "shared":
		if s.hasW {
			return hv.WrapErr(s.w, w.kept[s.cell])
		}
		return w.kept[s.cell]
	}
	panic("shape")
}

type xcall struct {
	t, u *vhdr.Header
}

// TestC01X: sequences of header.Verify calls against a type-level verifier that depends on BOTH
// arguments (a lookup table on the two nonces) and answers with Go objects: wrappers with an
// identity, a typed-nil *VerifyError, *VerifyError instances the type keeps and returns again.
func TestC01X(t *testing.T) {
	rng := emit.NewRand(emit.Seed())
	w := emit.NewWriter("Model.Verify Oracle.C01", "case01x", "chk01x")
	w.Rule = "sequences of 1-3 Verify calls on one set of kept *VerifyError instances: (A) every ordered pair of distinct result shapes for (trusted,untrusted) and (untrusted,trusted) " +
		"plus distinct shapes for (trusted,trusted) and (untrusted,untrusted), adjacent and far; (B) every sequence of length 2 and 3 over {far, adjacent, far with a failing mandatory check, " +
		"adjacent with one, far on another instance} x {bare, fmt.Errorf-wrapped, struct-wrapped instance} x {created hard, created soft}; (C) typed nil behind every mandatory failure; " +
		"(D) seeded random tables and sequences; distinct by family and parameters"
	reg := vhdr.NewRegistry()
	thorough := emit.Thorough()
	synctest.Test(t, func(t *testing.T) {
		drift := header.VerifClockDrift()
		// one case: the table (by nonce pair), the kept instances, the calls
		one := func(class string, wd *world, tab map[[2]uint64]shape, order [][2]uint64, hs map[uint64]*vhdr.Header, calls []xcall) {
			vhdr.SetPolicy(func(tr, un *vhdr.Header) error {
				s, ok := tab[[2]uint64{tr.Nonce, un.Nonce}]
				if !ok {
					return nil
				}
				return wd.result(s)
			})
			var terms []string
			var obsl []string
			for _, c := range calls {
				now := time.Now()
				var err error
				panicked := false
				func() {
					defer func() {
						if r := recover(); r != nil {
							panicked = true
						}
					}()
					err = header.Verify(c.t, c.u)
				}()
				obs := hv.ObserveX(err, panicked)
				obsl = append(obsl, obs)
				terms = append(terms, fmt.Sprintf("XCall %s %s %s %s", emit.Z(now.UnixNano()), reg.Term(c.t), reg.Term(c.u), obs))
				w.Count("observation", strings.Fields(strings.Trim(obs, "()"))[0])
				time.Sleep(time.Duration(1+rng.Intn(5)) * time.Millisecond)
			}
			var tt []string
			for _, k := range order {
				tt = append(tt, fmt.Sprintf("(%d, %d, %s)", reg.ID(hs[k[0]].Hash()), reg.ID(hs[k[1]].Hash()), tab[k].term()))
			}
			var soft []string
			for _, c := range wd.soft {
				soft = append(soft, emit.N(c))
			}
			term := fmt.Sprintf("Case01x %s %s %s %s", emit.Z(int64(drift)), emit.List(tt), emit.List(soft), emit.List(terms))
			w.Add(term, map[string]any{"class": class, "obs": obsl, "calls": len(calls)}, class, true)
			w.Count("family", strings.SplitN(class, "/", 2)[0])
		}
		mk := func(nonce, h uint64, dt int64) *vhdr.Header {
			return &vhdr.Header{Chain: "a", H: h, T: time.Now().UnixNano() + dt, Nonce: nonce}
		}

		// (A) the verifier depends on both arguments, in that order
		shapes := []shape{{kind: "ok"}, {kind: "plain", e: 7}, {kind: "verr", e: 8}, {kind: "verr", soft: true, e: 9},
			{kind: "wrapped", w: 3, e: 10}, {kind: "wrapped", w: 4, soft: true, e: 11}, {kind: "typednil"},
			{kind: "shared", cell: 1, e: 12}, {kind: "shared", cell: 2, e: 13, hasW: true, w: 6}}
		for _, far := range []bool{false, true} {
			for i, r1 := range shapes {
				for j, r2 := range shapes {
					if i == j {
						continue
					}
					base := 2 + rng.U64()%1_000_000
					uh := base + 1
					if far {
						uh = base + 2 + rng.U64()%1000
					}
					a, c := mk(1, base, -2000), mk(2, uh, -1000)
					wd := newWorld()
					wd.cell(1, 12, false)
					wd.cell(2, 13, rng.Bool())
					r3, r4 := shapes[(i+1+rng.Intn(len(shapes)-1))%len(shapes)], shapes[(j+1+rng.Intn(len(shapes)-1))%len(shapes)]
					tab := map[[2]uint64]shape{{1, 2}: r1, {2, 1}: r2, {1, 1}: r3, {2, 2}: r4}
					one(fmt.Sprintf("A/far%v/%d/%d", far, i, j), wd, tab, [][2]uint64{{1, 2}, {2, 1}, {1, 1}, {2, 2}},
						map[uint64]*vhdr.Header{1: a, 2: c}, []xcall{{a, c}})
				}
			}
		}

		// (B) kept instances over sequences of calls. The witness of F32 (fixed by /repo dd31b07; it must pass) is B/bare/soft0=false/far,adj.
		kinds := []string{"far", "adj", "farmand", "adjmand", "far2"}
		var seqs [][]string
		for _, k1 := range kinds {
			for _, k2 := range kinds {
				seqs = append(seqs, []string{k1, k2})
				for _, k3 := range kinds {
					seqs = append(seqs, []string{k1, k2, k3})
				}
			}
		}
		for _, wrap := range []uint64{0, 4, 5} { // 0: bare; even: fmt.Errorf("%w | %w"); odd: struct wrapper
			for _, soft0 := range []bool{false, true} {
				for _, sq := range seqs {
					base := 2 + rng.U64()%1_000_000
					wd := newWorld()
					wd.cell(1, 21, soft0)
					wd.cell(2, 22, false)
					tr := mk(1, base, -5000)
					adj, farh := mk(2, base+1, -1000), mk(3, base+2+rng.U64()%500, -1000)
					// mandatory failures: the untrusted header is older than the trusted one
					adjm, farm := mk(4, base+1, -9000), mk(5, base+7, -9000)
					far2 := mk(6, base+3+rng.U64()%500, -500)
					s1 := shape{kind: "shared", cell: 1, e: 21, hasW: wrap != 0, w: wrap}
					s2 := shape{kind: "shared", cell: 2, e: 22}
					tab := map[[2]uint64]shape{{1, 2}: s1, {1, 3}: s1, {1, 4}: s1, {1, 5}: s1, {1, 6}: s2}
					hs := map[uint64]*vhdr.Header{1: tr, 2: adj, 3: farh, 4: adjm, 5: farm, 6: far2}
					var calls []xcall
					for _, k := range sq {
						calls = append(calls, xcall{tr, map[string]*vhdr.Header{"far": farh, "adj": adj, "farmand": farm, "adjmand": adjm, "far2": far2}[k]})
					}
					name := map[uint64]string{0: "bare", 4: "errorf", 5: "struct"}[wrap]
					one(fmt.Sprintf("B/%s/soft0=%v/%s", name, soft0, strings.Join(sq, ",")), wd, tab,
						[][2]uint64{{1, 2}, {1, 3}, {1, 4}, {1, 5}, {1, 6}}, hs, calls)
				}
			}
		}

		// (C) typed nil: reached only when every mandatory check passed
		for _, far := range []bool{false, true} {
			for _, m := range []string{"none", "chain", "known", "eq", "past", "future", "futureedge", "nilu", "nilt", "edge"} {
				base := 2 + rng.U64()%1_000_000
				uh := base + 1
				if far {
					uh = base + 2 + rng.U64()%1000
				}
				a, c := mk(1, base, -2000), mk(2, uh, -1000)
				switch m {
				case "chain":
					c.Chain = "b"
				case "known":
					c.H = base - 1
				case "eq":
					c.H = base
				case "past":
					c.T = a.T - 1
				case "future":
					c.T = time.Now().Add(drift).UnixNano() + 1
				case "futureedge":
					c.T = time.Now().Add(drift).UnixNano()
				case "edge":
					a.H, c.H = ^uint64(0)-1, ^uint64(0)
					if far {
						a.H = ^uint64(0) - 5
					}
				}
				tab := map[[2]uint64]shape{{1, 2}: {kind: "typednil"}}
				calls := []xcall{{a, c}}
				if m == "nilu" {
					calls = []xcall{{a, nil}}
				}
				if m == "nilt" {
					calls = []xcall{{nil, c}}
				}
				one(fmt.Sprintf("C/far%v/%s", far, m), newWorld(), tab, [][2]uint64{{1, 2}}, map[uint64]*vhdr.Header{1: a, 2: c}, calls)
			}
		}

		// (D) seeded random: up to 4 headers, a random table over all ordered pairs, 1-4 calls
		nD := 150
		if thorough {
			nD = 4000
		}
		for i := 0; i < nD; i++ {
			base := 2 + rng.U64()%1_000_000
			wd := newWorld()
			wd.cell(1, 31, rng.Chance(30))
			wd.cell(2, 32, rng.Chance(30))
			nh := 2 + rng.Intn(3)
			hs := map[uint64]*vhdr.Header{}
			for n := 1; n <= nh; n++ {
				hs[uint64(n)] = mk(uint64(n), base+uint64(rng.Intn(4)), int64(rng.Intn(5))*1000-4000)
				if rng.Chance(5) {
					hs[uint64(n)].Chain = "b"
				}
			}
			tab := map[[2]uint64]shape{}
			var order [][2]uint64
			for x := 1; x <= nh; x++ {
				for y := 1; y <= nh; y++ {
					if rng.Chance(70) {
						s := shapes[rng.Intn(len(shapes))]
						if s.kind == "shared" {
							s.e = 30 + s.cell
							if rng.Bool() {
								s.hasW, s.w = true, uint64(3+rng.Intn(4))
							} else {
								s.hasW = false
							}
						}
						tab[[2]uint64{uint64(x), uint64(y)}] = s
						order = append(order, [2]uint64{uint64(x), uint64(y)})
					}
				}
			}
			var calls []xcall
			for k := 1 + rng.Intn(4); k > 0; k-- {
				calls = append(calls, xcall{hs[uint64(1+rng.Intn(nh))], hs[uint64(1+rng.Intn(nh))]})
			}
			one(fmt.Sprintf("D/%d", i), wd, tab, order, hs, calls)
		}
	})
	vhdr.SetPolicy(nil)
	if err := w.Flush(); err != nil {
		t.Fatal(err)
	}
	t.Logf("emitted %d cases", w.Len())
}
