//go:build verif

package c01

import (
	"fmt"
	"testing"
	"testing/synctest"
	"time"

	header "github.com/celestiaorg/go-header"

	"verifharness/emit"
	"verifharness/hv"
	"verifharness/vhdr"
)

func TestC01(t *testing.T) {
	rng := emit.NewRand(emit.Seed())
	w := emit.NewWriter("Model.Verify Oracle.C01", "case01", "chk01")
	w.Rule = "exhaustive product of abstract classes (trusted nil, untrusted nil, chain eq/ne, 6 height relations incl. the 2^64-1 edge, " +
		"3 time-vs-trusted relations, 3 offsets of +-1ns around now+clockDrift, 6 shapes of type-level result), each with seeded concrete values; " +
		"a class is distinct by its tuple and non-trivial when both headers are non-nil"
	w.Exhaustive = true
	draws := 1
	if emit.Thorough() {
		draws = 12
	}
	reg := vhdr.NewRegistry()
	synctest.Test(t, func(t *testing.T) {
		drift := header.VerifClockDrift()
		tvs := append(hv.TVs(), hv.TV{Term: "(TVPlain 99)", F: func() error { panic("scripted panic in the header type's Verify") }})
		type hrel struct {
			name string
			t, u func(base uint64) (uint64, uint64)
		}
		hrels := []struct {
			name string
			f    func(base uint64) (uint64, uint64)
		}{
			{"lt", func(b uint64) (uint64, uint64) { return b, b - 1 }},
			{"eq", func(b uint64) (uint64, uint64) { return b, b }},
			{"adj", func(b uint64) (uint64, uint64) { return b, b + 1 }},
			{"far", func(b uint64) (uint64, uint64) { return b, b + 2 + b%1000 }},
			{"edge_adj", func(b uint64) (uint64, uint64) { return ^uint64(0) - 1, ^uint64(0) }},
			{"edge_wrap", func(b uint64) (uint64, uint64) { return ^uint64(0), 0 }},
		}
		for d := 0; d < draws; d++ {
			for _, tnil := range []bool{false, true} {
				for _, unil := range []bool{false, true} {
					for _, samechain := range []bool{true, false} {
						for _, hr := range hrels {
							for _, dt := range []int64{-1, 0, 1} {
								for _, dn := range []int64{-1, 0, 1} {
									for _, tv := range tvs {
										now := time.Now()
										base := 2 + rng.U64()%1_000_000
										th, uh := hr.f(base)
										ut := now.Add(drift).UnixNano() + dn*int64(1+rng.Intn(3)*int(d%2)*1000)
										if dn != 0 && d > 0 && rng.Bool() {
											ut = now.Add(drift).UnixNano() + dn
										}
										step := int64(1)
										if d > 0 {
											step = 1 + int64(rng.Intn(1_000_000))
										}
										tt := ut - dt*step
										var tr, un *vhdr.Header
										if !tnil {
											tr = &vhdr.Header{Chain: "a", H: th, T: tt}
										}
										if !unil {
											c := "a"
											if !samechain {
												c = "b"
											}
											un = &vhdr.Header{Chain: c, H: uh, T: ut, Nonce: 1}
										}
										f := tv.F
										vhdr.SetPolicy(func(_, _ *vhdr.Header) error { return f() })
										var err error
										panicked := false
										func() {
											defer func() {
												if r := recover(); r != nil {
													err = fmt.Errorf("PANIC %v", r)
													panicked = true
												}
											}()
											err = header.Verify(tr, un)
										}()
										if panicked && tv.Term == "(TVPlain 99)" {
											// the scripted panic of the type-level Verify propagated: nothing was accepted;
											// the case is only emitted (as a rejection the model expects) when it was swallowed
											w.Count("type_level_panic", "propagated")
											continue
										}
										obs := hv.Observe(err)
										term := fmt.Sprintf("Case01 %s %s %s %s %s %s", emit.Z(now.UnixNano()), emit.Z(int64(drift)),
											tv.Term, reg.Term(tr), reg.Term(un), obs)
										class := fmt.Sprintf("%v/%v/%v/%s/%d/%d/%s", tnil, unil, samechain, hr.name, dt, dn, tv.Term)
										w.Add(term, map[string]any{"class": class, "obs": obs, "trusted": tr, "untrusted": un}, class, !tnil && !unil)
										w.Count("observation", obs)
									}
								}
							}
						}
					}
				}
			}
		}
	})
	vhdr.SetPolicy(nil)
	if err := w.Flush(); err != nil {
		t.Fatal(err)
	}
	t.Logf("emitted %d cases", w.Len())
}
