// Package sess holds what the C05 and C18 drivers share: a mocknet world with the
// real p2p.Exchange as client, peers that are either scripted raw stream handlers
// (Byzantine catalogue) or recording proxies in front of real ExchangeServers, the
// event log of (peer, request, frames answered), and the rendering of all of it as
// Gallina terms of GH.Model.Session / GH.Oracle.C05.
package sess

import (
	"context"
	"errors"
	"fmt"
	"io"
	"os"
	"sort"
	"strings"
	"sync"
	"testing"
	"time"

	"github.com/ipfs/go-datastore"
	dssync "github.com/ipfs/go-datastore/sync"
	"github.com/libp2p/go-libp2p/core/host"
	"github.com/libp2p/go-libp2p/core/network"
	"github.com/libp2p/go-libp2p/core/peer"
	"github.com/libp2p/go-libp2p/core/protocol"
	mocknet "github.com/libp2p/go-libp2p/p2p/net/mock"
	"github.com/libp2p/go-libp2p/p2p/net/conngater"

	"github.com/celestiaorg/go-libp2p-messenger/serde"

	header "github.com/celestiaorg/go-header"
	"github.com/celestiaorg/go-header/p2p"
	p2p_pb "github.com/celestiaorg/go-header/p2p/pb"

	"verifharness/emit"
	"verifharness/vhdr"
)

type H = *vhdr.Header

const NetworkID = "sess"

var ProtoID = protocol.ID("/" + NetworkID + "/header-ex/v0.0.3")

// MaxCap is the largest capacity make([]*T, 0, n) accepts on a 64-bit Go runtime
// (maxAlloc = 2^48 bytes, 8-byte elements); above it makeslice panics. It is an
// input of the model (the drivers only probe far above and far below it).
const MaxCap = uint64(1) << 45

// ---------------------------------------------------------------- frames and events

type FrameKind int

const (
	FHdr         FrameKind = iota // status OK, body decodes to H (Validate fails iff H.Bad)
	FNotFound                     // status NOT_FOUND
	FUnknown                      // any other status code
	FUndecodable                  // status OK, body is not a header encoding
	FPanic                        // status OK, decoding the body panics
	FValPanic                     // status OK, body decodes to H, H.Validate() panics (H.VPanic)
)

// isValPanic: the frame carries a header on which Validate panics
func (f Frame) isValPanic() bool {
	return f.Kind == FValPanic || (f.Kind == FHdr && f.H != nil && f.H.VPanic)
}

type Frame struct {
	Kind FrameKind
	H    H
	raw  *p2p_pb.HeaderResponse // proxies forward the server's own message
}

// Tail says how the stream ends after the frames.
type Tail int

const (
	TClose   Tail = iota // clean close (EOF)
	TReset               // stream reset at once
	THang                // nothing more until the request timeout, then reset
	TGarbage             // bytes that are not a HeaderResponse, then close
)

type Reply struct {
	Frames []Frame
	Tail   Tail
}

// Event is one request as the answering peer saw it, with what it answered.
type Event struct {
	Peer     int
	Now      int64
	Origin   uint64
	Amount   uint64
	ByHash   bool
	Frames   []Frame
	Tail     Tail
	Behave   string
	NoStream bool
	Avail    uint64 // proxies: head of the server's store when it answered
	TailH    uint64 // proxies: tail of the server's store when it answered (ProxyHooks.Tail)
}

// Watchdog: a session whose only usable peers keep answering NOT_FOUND re-sends at once, for ever,
// without virtual time moving. After this many requests a peer answers only after a virtual minute,
// so that the caller's deadline ends such a run.
const Watchdog = 150

func (w *World) slowDown(att int) {
	if att >= Watchdog {
		select {
		case <-time.After(time.Minute):
		case <-w.done:
		}
	}
}

// Behaviour decides the reply of a scripted peer; attempt counts the requests that peer got.
type Behaviour func(w *World, peer int, origin, amount uint64, attempt int) (Reply, string)

// ---------------------------------------------------------------- world

type World struct {
	T          *testing.T
	Net        mocknet.Mocknet
	Client     host.Host
	Peers      []host.Host
	Ex         *p2p.Exchange[H]
	Gater      *conngater.BasicConnectionGater
	ReqTimeout time.Duration
	Chunk      uint64

	Backends []host.Host

	mu       sync.Mutex
	log      []Event
	attempts []int
	done     chan struct{}
	wg       sync.WaitGroup

	// Gate, when non-nil, parks every scripted handler after it has read its request until the driver
	// sends one token (one answer at a time, in the order the driver releases them); once Ended is set
	// (EndGate) the parked and all later handlers reset their stream without recording anything.
	Gate    chan struct{}
	ended   bool
	stopped bool
}

// ExtraClientOpts are appended to the Exchange options of every world built while it is set
// (e.g. p2p.WithMetrics).
var ExtraClientOpts []p2p.Option[p2p.ClientParameters]

// NewWorld builds client + n peer hosts, links and connects them, starts the real
// Exchange and waits until its peer tracker has seen every peer.
// Must be called inside a synctest bubble; wait is synctest.Wait.
func NewWorld(t *testing.T, n int, chunk uint64, reqTimeout time.Duration, chainID string, wait func()) *World {
	return newWorld(t, n, chunk, reqTimeout, chainID, wait, false)
}

// NewWorldDL is NewWorld with a client host whose streams honour the deadline that sendMessage puts
// on them (DLHost), as every real transport does and mocknet does not.
func NewWorldDL(t *testing.T, n int, chunk uint64, reqTimeout time.Duration, chainID string, wait func()) *World {
	return newWorld(t, n, chunk, reqTimeout, chainID, wait, true)
}

func newWorld(t *testing.T, n int, chunk uint64, reqTimeout time.Duration, chainID string, wait func(), dl bool) *World {
	w := &World{T: t, ReqTimeout: reqTimeout, Chunk: chunk, done: make(chan struct{}), attempts: make([]int, n)}
	var err error
	w.Net, err = mocknet.FullMeshLinked(n + 1)
	if err != nil {
		t.Fatal(err)
	}
	hosts := w.Net.Hosts()
	w.Client, w.Peers = hosts[0], hosts[1:]
	w.Gater, err = conngater.NewBasicConnectionGater(dssync.MutexWrap(datastore.NewMapDatastore()))
	if err != nil {
		t.Fatal(err)
	}
	ids := make(peer.IDSlice, 0, n)
	for _, p := range w.Peers {
		ids = append(ids, p.ID())
	}
	opts := []p2p.Option[p2p.ClientParameters]{
		p2p.WithNetworkID[p2p.ClientParameters](NetworkID),
		p2p.WithChainID(chainID),
		p2p.WithMaxHeadersPerRangeRequest(chunk),
		p2p.WithRequestTimeout[p2p.ClientParameters](reqTimeout),
	}
	opts = append(opts, ExtraClientOpts...)
	var ch host.Host = w.Client
	if dl {
		ch = DLHost{w.Client}
	}
	w.Ex, err = p2p.NewExchange[H](ch, ids, w.Gater, opts...)
	if err != nil {
		t.Fatal(err)
	}
	for _, p := range w.Peers {
		if _, err := w.Net.ConnectPeers(w.Client.ID(), p.ID()); err != nil {
			t.Fatal(err)
		}
	}
	if err := w.Ex.Start(context.Background()); err != nil {
		t.Fatal(err)
	}
	wait()
	return w
}

// ---------------------------------------------------------------- deadlines

// mocknet streams ignore SetDeadline. DLHost wraps the client's host so that the streams it opens
// honour read deadlines in the bubble's virtual time and fail with os.ErrDeadlineExceeded, like
// yamux's "i/o deadline reached" (same construction as harness/c13's dlHost).
type DLHost struct{ host.Host }

func (h DLHost) NewStream(ctx context.Context, p peer.ID, pids ...protocol.ID) (network.Stream, error) {
	s, err := h.Host.NewStream(ctx, p, pids...)
	if err != nil {
		return nil, err
	}
	return &dlStream{Stream: s}, nil
}

type readRes struct {
	data []byte
	err  error
}

// dlStream is used by one goroutine at a time (sendMessage).
type dlStream struct {
	network.Stream
	deadline time.Time
	pending  chan readRes // an underlying Read in flight
	left     []byte       // data received but not yet handed out
	err      error        // error that came with the last data
}

// the transport notices a deadline a moment after the context it was copied from
const deadlineSlack = 10 * time.Millisecond

func (s *dlStream) SetDeadline(t time.Time) error {
	s.deadline = t
	if !t.IsZero() {
		s.deadline = t.Add(deadlineSlack)
	}
	return nil
}
func (s *dlStream) SetReadDeadline(t time.Time) error { return s.SetDeadline(t) }

func (s *dlStream) Read(b []byte) (int, error) {
	if len(b) == 0 {
		return 0, nil
	}
	if len(s.left) > 0 {
		n := copy(b, s.left)
		s.left = s.left[n:]
		return n, nil
	}
	if s.err != nil {
		err := s.err
		s.err = nil
		return 0, err
	}
	if s.pending == nil {
		ch := make(chan readRes, 1)
		n := len(b)
		go func() {
			buf := make([]byte, n)
			k, err := s.Stream.Read(buf)
			ch <- readRes{buf[:k], err}
		}()
		s.pending = ch
	}
	var expired <-chan time.Time
	if !s.deadline.IsZero() {
		d := time.Until(s.deadline)
		if d <= 0 {
			return 0, os.ErrDeadlineExceeded
		}
		t := time.NewTimer(d)
		defer t.Stop()
		expired = t.C
	}
	select {
	case r := <-s.pending:
		s.pending = nil
		n := copy(b, r.data)
		s.left = r.data[n:]
		if n > 0 {
			s.err = r.err
			return n, nil
		}
		return 0, r.err
	case <-expired:
		// the reader goroutine ends when the caller resets the stream (sendMessage does)
		return 0, os.ErrDeadlineExceeded
	}
}

// AddBackend creates one more host, linked and connected to peer i only (the client never sees it).
func (w *World) AddBackend(i int) host.Host {
	b, err := w.Net.GenPeer()
	if err != nil {
		w.T.Fatal(err)
	}
	if _, err := w.Net.LinkPeers(w.Peers[i].ID(), b.ID()); err != nil {
		w.T.Fatal(err)
	}
	if _, err := w.Net.ConnectPeers(w.Peers[i].ID(), b.ID()); err != nil {
		w.T.Fatal(err)
	}
	for len(w.Backends) <= i {
		w.Backends = append(w.Backends, nil)
	}
	w.Backends[i] = b
	return b
}

// Script installs a scripted (possibly Byzantine) peer.
func (w *World) Script(i int, b Behaviour) {
	w.Peers[i].SetStreamHandler(ProtoID, func(s network.Stream) {
		w.wg.Add(1)
		defer w.wg.Done()
		req := new(p2p_pb.HeaderRequest)
		if _, err := serde.Read(s, req); err != nil {
			s.Reset() //nolint:errcheck
			return
		}
		w.mu.Lock()
		att := w.attempts[i]
		w.attempts[i]++
		w.mu.Unlock()
		_, byHash := req.Data.(*p2p_pb.HeaderRequest_Hash)
		if w.Gate != nil && !w.passGate() {
			s.Reset() //nolint:errcheck
			return
		}
		w.slowDown(att)
		rep, name := b(w, i, req.GetOrigin(), req.Amount, att)
		w.record(Event{Peer: i, Now: time.Now().UnixNano(), Origin: req.GetOrigin(), Amount: req.Amount, ByHash: byHash,
			Frames: rep.Frames, Tail: rep.Tail, Behave: name})
		w.answer(s, rep)
	})
}

func (w *World) record(e Event) {
	w.mu.Lock()
	w.log = append(w.log, e)
	w.mu.Unlock()
}

func (w *World) answer(s network.Stream, rep Reply) {
	for _, f := range rep.Frames {
		msg := f.raw
		if msg == nil {
			msg = f.wire()
		}
		if _, err := serde.Write(s, msg); err != nil {
			s.Reset() //nolint:errcheck
			return
		}
	}
	switch rep.Tail {
	case TClose:
		s.Close() //nolint:errcheck
	case TReset:
		if len(rep.Frames) > 0 {
			// a reset discards what the reader has not consumed yet: let the client read the frames
			// first (virtual time only moves once every goroutine is blocked), so the log is what was delivered
			time.Sleep(time.Millisecond)
		}
		s.Reset() //nolint:errcheck
	case THang:
		// mocknet streams have no deadlines: the peer stays silent for the client's request
		// timeout, then the stream dies, which is what the client's stream deadline does on a real transport
		select {
		case <-time.After(w.ReqTimeout):
		case <-w.done:
		}
		s.Reset() //nolint:errcheck
	case TGarbage:
		// length prefix 6, then bytes no protobuf parser accepts (field 0 / wire type 7)
		s.Write([]byte{6, 0xFF, 0xFF, 0xFF, 0xFF, 0xFF, 0xFF}) //nolint:errcheck
		s.Close()                                              //nolint:errcheck
	}
}

func (f Frame) wire() *p2p_pb.HeaderResponse {
	switch f.Kind {
	case FHdr:
		b, _ := f.H.MarshalBinary()
		return &p2p_pb.HeaderResponse{Body: b, StatusCode: p2p_pb.StatusCode_OK}
	case FValPanic:
		h := *f.H
		h.Bad, h.VPanic = false, true
		b, _ := h.MarshalBinary()
		return &p2p_pb.HeaderResponse{Body: b, StatusCode: p2p_pb.StatusCode_OK}
	case FNotFound:
		return &p2p_pb.HeaderResponse{StatusCode: p2p_pb.StatusCode_NOT_FOUND}
	case FUnknown:
		return &p2p_pb.HeaderResponse{Body: []byte{1, 2, 3}, StatusCode: p2p_pb.StatusCode(7)}
	case FUndecodable:
		return &p2p_pb.HeaderResponse{Body: []byte{0xA7, 0, 9, 1, 2}, StatusCode: p2p_pb.StatusCode_OK}
	default:
		return &p2p_pb.HeaderResponse{Body: []byte{vhdr.PanicByte, 1}, StatusCode: p2p_pb.StatusCode_OK}
	}
}

// ProxyHooks: Before runs before a request is forwarded (e.g. to let the server's store grow),
// Fault may cut the answer short (benign faults: timeout / disconnect = a prefix of the server's
// answer, then silence or reset), Avail reports the head of the server's store.
type ProxyHooks struct {
	Before func(attempt int)
	Fault  func(attempt int, n int) (keep int, tail Tail, name string)
	Avail  func() uint64
	Tail   func() uint64 // optional: the tail of the server's store (pruned servers)
}

// Proxy makes peer i a recording proxy in front of a real ExchangeServer running on its own
// host (linked to the proxy only).
func (w *World) Proxy(i int, backend host.Host, hooks ProxyHooks) {
	fault := hooks.Fault
	w.Peers[i].SetStreamHandler(ProtoID, func(s network.Stream) {
		w.wg.Add(1)
		defer w.wg.Done()
		req := new(p2p_pb.HeaderRequest)
		if _, err := serde.Read(s, req); err != nil {
			s.Reset() //nolint:errcheck
			return
		}
		w.mu.Lock()
		att := w.attempts[i]
		w.attempts[i]++
		w.mu.Unlock()
		_, byHash := req.Data.(*p2p_pb.HeaderRequest_Hash)
		w.slowDown(att)
		if hooks.Before != nil {
			hooks.Before(att)
		}
		ev := Event{Peer: i, Now: time.Now().UnixNano(), Origin: req.GetOrigin(), Amount: req.Amount, ByHash: byHash, Behave: "server"}
		if hooks.Avail != nil {
			ev.Avail = hooks.Avail()
		}
		if hooks.Tail != nil {
			ev.TailH = hooks.Tail()
		}
		ctx, cancel := context.WithTimeout(context.Background(), time.Hour)
		defer cancel()
		bs, err := w.Peers[i].NewStream(ctx, backend.ID(), ProtoID)
		if err != nil {
			ev.Tail, ev.Behave = TReset, "backend-unreachable"
			w.record(ev)
			s.Reset() //nolint:errcheck
			return
		}
		defer bs.Reset() //nolint:errcheck
		if _, err := serde.Write(bs, req); err != nil {
			ev.Tail, ev.Behave = TReset, "backend-write"
			w.record(ev)
			s.Reset() //nolint:errcheck
			return
		}
		bs.CloseWrite() //nolint:errcheck
		var frames []Frame
		tail := TClose
		for {
			resp := new(p2p_pb.HeaderResponse)
			if _, err := serde.Read(bs, resp); err != nil {
				if !errors.Is(err, io.EOF) {
					tail = TReset
				}
				break
			}
			frames = append(frames, classify(resp))
		}
		name := "server"
		if fault != nil {
			keep, t2, n2 := fault(att, len(frames))
			if n2 != "" {
				if keep < len(frames) {
					frames = frames[:keep]
				}
				tail, name = t2, n2
			}
		}
		ev.Frames, ev.Tail, ev.Behave = frames, tail, name
		w.record(ev)
		w.answer(s, Reply{Frames: frames, Tail: tail})
	})
}

func classify(r *p2p_pb.HeaderResponse) Frame {
	f := Frame{raw: r}
	switch r.StatusCode {
	case p2p_pb.StatusCode_OK:
		h := new(vhdr.Header)
		if err := h.UnmarshalBinary(r.Body); err != nil {
			f.Kind = FUndecodable
			return f
		}
		f.Kind, f.H = FHdr, h
		if h.VPanic {
			f.Kind = FValPanic
		}
	case p2p_pb.StatusCode_NOT_FOUND:
		f.Kind = FNotFound
	default:
		f.Kind = FUnknown
	}
	return f
}

// TakeLog returns the events recorded so far, in arrival order, and clears the log.
func (w *World) TakeLog() []Event {
	w.mu.Lock()
	defer w.mu.Unlock()
	l := w.log
	w.log = nil
	return l
}

// Close stops everything; afterwards no goroutine of the world is left.
func (w *World) Close() {
	close(w.done)
	ctx, cancel := context.WithTimeout(context.Background(), time.Hour)
	defer cancel()
	if !w.stopped {
		_ = w.Ex.Stop(ctx)
	}
	_ = w.Net.Close()
	w.wg.Wait()
}

// passGate parks a gated handler until the driver releases it; false = the gate was ended.
func (w *World) passGate() bool {
	select {
	case <-w.Gate:
	case <-w.done:
		return false
	}
	w.mu.Lock()
	defer w.mu.Unlock()
	return !w.ended
}

// EndGate releases every parked and later handler without an answer (stream reset, nothing recorded).
func (w *World) EndGate() {
	w.mu.Lock()
	already := w.ended
	w.ended = true
	w.mu.Unlock()
	if !already {
		close(w.Gate)
	}
}

// StopExchange calls Exchange.Stop now (Close will not call it again).
func (w *World) StopExchange() {
	ctx, cancel := context.WithTimeout(context.Background(), time.Hour)
	defer cancel()
	w.stopped = true
	_ = w.Ex.Stop(ctx)
}

// ---------------------------------------------------------------- observation

// Obs is the projected result of GetRangeByHeight.
type Obs struct {
	Kind    string // ok rangemixup ctx other panic
	Headers []H
	Detail  string
}

// Call runs GetRangeByHeight under a deadline, converting a panic of the calling goroutine.
func (w *World) Call(from H, to uint64, deadline time.Duration) (o Obs) {
	ctx, cancel := context.WithTimeout(context.Background(), deadline)
	defer cancel()
	return w.CallCtx(ctx, from, to)
}

// CallCtx is Call under the caller's own context.
func (w *World) CallCtx(ctx context.Context, from H, to uint64) (o Obs) {
	defer func() {
		if r := recover(); r != nil {
			o = Obs{Kind: "panic", Detail: fmt.Sprint(r)}
		}
	}()
	hs, err := w.Ex.GetRangeByHeight(ctx, from, to)
	switch {
	case err == nil:
		return Obs{Kind: "ok", Headers: hs}
	case errors.Is(err, header.ErrRangeMixUp):
		return Obs{Kind: "rangemixup", Detail: err.Error()}
	case errors.Is(err, context.DeadlineExceeded), errors.Is(err, context.Canceled):
		return Obs{Kind: "ctx", Detail: err.Error()}
	default:
		return Obs{Kind: "other", Detail: err.Error()}
	}
}

func (o Obs) Term(reg *vhdr.Registry) string {
	switch o.Kind {
	case "ok":
		xs := make([]string, len(o.Headers))
		for i, h := range o.Headers {
			xs[i] = reg.Term(h)
		}
		return "(OOk " + emit.List(xs) + ")"
	case "rangemixup":
		return "ORangeMixUp"
	case "ctx":
		return "OCtx"
	case "panic":
		return "OPanic"
	default:
		return "OOther"
	}
}

// ---------------------------------------------------------------- Gallina rendering

func FrameTerm(reg *vhdr.Registry, f Frame) string {
	if f.isValPanic() {
		return "FValidatePanic"
	}
	switch f.Kind {
	case FHdr:
		return "(FHdr " + reg.Term(f.H) + ")"
	case FNotFound:
		return "FNotFound"
	case FUnknown:
		return "FUnknown"
	case FUndecodable:
		return "FUndecodable"
	default:
		return "FDecodePanic"
	}
}

// EventTerm renders one logged request as the pair of model events it stands for:
// the request is handed to the peer, then the peer's answer is processed.
func EventTerm(reg *vhdr.Registry, e Event) string {
	fs := make([]string, len(e.Frames))
	for i, f := range e.Frames {
		fs[i] = FrameTerm(reg, f)
	}
	return fmt.Sprintf("(LogEv %d %s %d %d %s)", e.Peer, emit.Z(e.Now), e.Origin, e.Amount, emit.List(fs))
}

func LogTerm(reg *vhdr.Registry, l []Event) string {
	xs := make([]string, len(l))
	for i, e := range l {
		xs[i] = EventTerm(reg, e)
	}
	return emit.List(xs)
}

// Summary is a compact description for replays / samples.
func Summary(l []Event) []string {
	out := make([]string, len(l))
	for i, e := range l {
		ks := make([]string, len(e.Frames))
		for j, f := range e.Frames {
			switch f.Kind {
			case FHdr:
				ks[j] = fmt.Sprint(f.H.H)
				if f.H.Bad {
					ks[j] += "!"
				}
			case FNotFound:
				ks[j] = "NF"
			case FUnknown:
				ks[j] = "ST?"
			case FUndecodable:
				ks[j] = "UNDEC"
			default:
				ks[j] = "PANIC"
			}
		}
		out[i] = fmt.Sprintf("p%d %s (%d,%d) -> [%s] tail%d", e.Peer, e.Behave, e.Origin, e.Amount, strings.Join(ks, " "), e.Tail)
	}
	return out
}

// SortedKinds returns the distinct behaviour names used in a log (for class keys).
func SortedKinds(l []Event) string {
	m := map[string]bool{}
	for _, e := range l {
		m[e.Behave] = true
	}
	ks := make([]string, 0, len(m))
	for k := range m {
		ks = append(ks, k)
	}
	sort.Strings(ks)
	return strings.Join(ks, ",")
}
