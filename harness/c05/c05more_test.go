//go:build verif

package c05

// TestC05More: the second correspondence driver of C05 (case type case05m / chk05m of Oracle/C05.v):
// worlds with one real Exchange and one to three GetRangeByHeight calls made one after the other,
// answers released ONE AT A TIME by the driver (sess.World.Gate), so that the caller's context can
// be cancelled / Exchange.Stop can be called exactly after the k-th answer has been processed, while
// further requests are in flight (parked at the gate). It adds: end markers (ECtxDone / EStop of the
// model), a universe whose chain lives just below 2^64, an Exchange with metrics enabled, several
// calls per world (peers blocked by an earlier call are not asked again) and a world without peers.

import (
	"context"
	"fmt"
	"runtime"
	"strings"
	"sync"
	"testing"
	"testing/synctest"
	"time"

	header "github.com/celestiaorg/go-header"
	"github.com/celestiaorg/go-header/p2p"

	"verifharness/emit"
	"verifharness/sess"
	"verifharness/vhdr"
)

const maxU64 = ^uint64(0)

type callSpec struct {
	from     H
	to       uint64
	plan     plan
	endAfter int    // -1: the call is left alone; k: ended once k answers have been released and processed
	end      string // "ctx" | "stop"
}

type worldSpec struct {
	name    string
	u       *universe
	peers   int
	chunk   uint64
	trust   uint64
	metrics bool
	calls   []callSpec
}

type callRes struct {
	log   []sess.Event
	obs   sess.Obs
	ended string // the end marker that was placed ("" = none: the call returned by itself)
}

// behaviours that make Verify / Validate panic stay with the main driver (it probes them in a child process)
func safeKinds(ks []string) []string {
	var out []string
	for _, k := range ks {
		switch k {
		case "verifypanic", "panicadj", "valpanic", "valpanicend":
		default:
			out = append(out, k)
		}
	}
	return out
}

func runWorld(t *testing.T, ws worldSpec) []callRes {
	var out []callRes
	synctest.Test(t, func(t *testing.T) {
		vhdr.SetPolicy(panicPolicy(ws.trust))
		if ws.metrics {
			sess.ExtraClientOpts = []p2p.Option[p2p.ClientParameters]{p2p.WithMetrics[p2p.ClientParameters]()}
		}
		wd := sess.NewWorld(t, ws.peers, ws.chunk, reqTO, "a", synctest.Wait)
		sess.ExtraClientOpts = nil
		wd.Gate = make(chan struct{})
		var mu sync.Mutex
		var cur *callSpec
		att := make([]int, ws.peers)
		for i := 0; i < ws.peers; i++ {
			wd.Script(i, func(_ *sess.World, p int, origin, amount uint64, _ int) (sess.Reply, string) {
				mu.Lock()
				cs, a := cur, att[p]
				att[p]++
				mu.Unlock()
				b := cs.plan.at(p, a)
				return b.reply(ws.u, origin, amount), b.kind
			})
		}
		for ci := range ws.calls {
			cs := &ws.calls[ci]
			mu.Lock()
			cur = cs
			for i := range att {
				att[i] = 0
			}
			mu.Unlock()
			ws.u.start = cs.from.H + 1
			ctx, cancel := context.WithTimeout(context.Background(), deadline)
			done := make(chan sess.Obs, 1)
			go func() { done <- wd.CallCtx(ctx, cs.from, cs.to) }()
			var res callRes
			released, finished := 0, false
			for !finished {
				synctest.Wait()
				select {
				case res.obs = <-done:
					finished = true
					continue
				default:
				}
				if cs.endAfter >= 0 && released >= cs.endAfter {
					if cs.end == "ctx" {
						cancel()
					} else {
						wd.StopExchange()
					}
					res.ended = cs.end
					synctest.Wait()
					select {
					case res.obs = <-done:
					case <-time.After(time.Hour):
						res.obs = sess.Obs{Kind: "panic", Detail: "HANG: the call did not return within an hour after " + cs.end}
					}
					finished = true
					break
				}
				select {
				case wd.Gate <- struct{}{}:
					released++
				case res.obs = <-done:
					finished = true
				}
			}
			cancel()
			synctest.Wait()
			res.log = wd.TakeLog()
			out = append(out, res)
			if res.ended != "" {
				break // an ended call is the last one of its world (requests are still parked at the gate)
			}
		}
		wd.EndGate()
		synctest.Wait()
		wd.Close()
	})
	vhdr.SetPolicy(nil)
	return out
}

func endTerm(e string) string {
	switch e {
	case "ctx":
		return "(Some EndCtx)"
	case "stop":
		return "(Some EndStop)"
	}
	return "None"
}

func emitWorld(w *emit.Writer, reg *vhdr.Registry, ws worldSpec, rs []callRes, drift time.Duration) {
	peers := make([]string, ws.peers)
	for i := range peers {
		peers[i] = emit.N(uint64(i))
	}
	var calls, obsKinds, ends, descr []string
	kinds := map[string]bool{}
	blockedSeen, events := false, 0
	for i, r := range rs {
		cs := ws.calls[i]
		calls = append(calls, fmt.Sprintf("(Call05 %s %d %s %s %s)", reg.Term(cs.from), cs.to, sess.LogTerm(reg, r.log), endTerm(r.ended), r.obs.Term(reg)))
		obsKinds = append(obsKinds, r.obs.Kind)
		if r.ended != "" {
			ends = append(ends, fmt.Sprintf("%s@%d", r.ended, len(r.log)))
		}
		for _, e := range r.log {
			kinds[e.Behave] = true
		}
		events += len(r.log)
		descr = append(descr, fmt.Sprintf("call %d: from %d to %d end=%q after %d answers -> %s (%s) log %v", i, cs.from.H, cs.to, r.ended, len(r.log), r.obs.Kind, r.obs.Detail, sess.Summary(r.log)))
		w.Count("observation", r.obs.Kind)
		if r.ended != "" {
			w.Count("end marker", fmt.Sprintf("%s after %d answers", r.ended, min(len(r.log), 8)))
		}
		if i > 0 && len(r.log) == 0 && r.obs.Kind == "ctx" {
			blockedSeen = true
		}
	}
	term := fmt.Sprintf("Case05m %s %d %d %d %s %s", emit.Z(int64(drift)), ws.trust, sess.MaxCap, ws.chunk, emit.List(peers), emit.List(calls))
	var ks []string
	for k := range kinds {
		ks = append(ks, k)
	}
	sortStrings(ks)
	high := ws.u.base > 1<<60
	class := fmt.Sprintf("m/p%d/c%d/high%v/metrics%v/%s/%s/%s", ws.peers, ws.chunk, high, ws.metrics, strings.Join(ks, ","), strings.Join(obsKinds, ","), strings.Join(ends, ","))
	nontrivial := len(ends) > 0 || len(rs) > 1 || high || ws.metrics
	w.Add(term, map[string]any{"scenario": ws.name, "peers": ws.peers, "chunk": ws.chunk, "trust": ws.trust, "metrics": ws.metrics, "calls": descr}, class, nontrivial)
	w.Count("calls per world", fmt.Sprint(len(rs)))
	w.Count("peers", fmt.Sprint(ws.peers))
	w.Count("universe", map[bool]string{false: "heights 1..", true: "heights 2^64-90.."}[high])
	w.Count("metrics", fmt.Sprint(ws.metrics))
	w.Count("events", fmt.Sprint(min(events, 20)))
	if blockedSeen {
		w.Count("later call", "no request sent (every peer blocked / no peer), waited for its context")
	}
}

func sortStrings(xs []string) {
	for i := 1; i < len(xs); i++ {
		for j := i; j > 0 && xs[j] < xs[j-1]; j-- {
			xs[j], xs[j-1] = xs[j-1], xs[j]
		}
	}
}

func stripPanics(p plan) plan {
	fix := func(b beh) beh {
		switch b.kind {
		case "verifypanic", "panicadj":
			b.kind = "forkfrom"
		case "valpanic", "valpanicend":
			b.kind = "invalid"
		}
		return b
	}
	var q plan
	for i := range p.first {
		var fs []beh
		for _, b := range p.first[i] {
			fs = append(fs, fix(b))
		}
		q.first = append(q.first, fs)
		q.deflt = append(q.deflt, fix(p.deflt[i]))
	}
	return q
}

// a random request near the top of the high universe: to in [2^64-6, 2^64-1]
func randomHigh(rng *emit.Rand, low, u *universe, i int) scenario {
	sc := randomScenario(rng, low, i)
	amount := sc.to - sc.from.H - 1
	to := maxU64 - uint64(rng.Intn(6))
	sc.from = u.truth[to-1-amount]
	sc.to = to
	sc.name = fmt.Sprintf("high-rand%d", i)
	return sc
}

func oneCall(sc scenario, endAfter int, end string) []callSpec {
	return []callSpec{{from: sc.from, to: sc.to, plan: stripPanics(sc.plan), endAfter: endAfter, end: end}}
}

func TestC05More(t *testing.T) {
	defer runtime.GOMAXPROCS(runtime.GOMAXPROCS(1))
	rng := emit.NewRand(emit.Seed() + 77)
	w := emit.NewWriter("Model.Verify Model.Session Oracle.C05", "case05m", "chk05m")
	w.PerShard(100)
	w.Rule = "worlds with one real p2p.Exchange (libp2p mocknet, virtual time) and 1-3 GetRangeByHeight calls in a row; the scripted peers' answers are released one at a time, " +
		"so the caller's context is cancelled / Exchange.Stop is called exactly after the k-th processed answer with requests still in flight (every k for the fixed scenarios, random k otherwise); " +
		"a second universe with the chain at heights 2^64-90 .. 2^64-2 (random and single-behaviour scenarios, to up to 2^64-1); the same with p2p.WithMetrics(); " +
		"2-3 calls per world (peers blocked by an earlier call), a world without peers. Case = (parameters, per call: from, to, the peers' log, end marker, result); " +
		"non-trivial = has an end marker, several calls, high heights or metrics"
	nRand := 45
	if emit.Thorough() {
		nRand = 1500
	}
	reg := vhdr.NewRegistry()
	low := newUniverse()
	high := newUniverseAt(maxU64-89, 89, maxU64-1)
	var drift time.Duration
	synctest.Test(t, func(t *testing.T) { drift = header.VerifClockDrift() })
	run := func(ws worldSpec) {
		rs := runWorld(t, ws)
		emitWorld(w, reg, ws, rs, drift)
	}
	hon := beh{kind: "honest"}
	kinds := safeKinds(append(append([]string{}, byzantine...), benign...))

	// ---- 1. end markers: the honest run of 4 sub-requests on 3 peers ended at every position, by both events;
	// every single behaviour ended after 1 and after 3 answers; random scenarios ended at a random position
	for _, end := range []string{"ctx", "stop"} {
		for k := 0; k <= 5; k++ {
			sc := scenario{peers: 3, chunk: 2, from: low.truth[5], to: 5 + 1 + 7, plan: uniform(3, nil, hon)}
			run(worldSpec{name: fmt.Sprintf("end-%s-after%d-honest", end, k), u: low, peers: 3, chunk: 2, calls: oneCall(sc, k, end)})
		}
		// one peer, one sub-request: ended before any answer, while the only request is in flight
		sc := scenario{peers: 1, chunk: 8, from: low.truth[5], to: 5 + 1 + 4, plan: uniform(1, nil, hon)}
		run(worldSpec{name: "end-" + end + "-single-request-in-flight", u: low, peers: 1, chunk: 8, calls: oneCall(sc, 0, end)})
	}
	for i, k := range kinds {
		p := uniform(3, []beh{{kind: k, d: 3, j: 1}}, hon)
		p.first[2] = nil
		sc := scenario{peers: 3, chunk: 3, from: low.truth[5], to: 5 + 1 + 7, plan: p}
		end := []string{"ctx", "stop"}[i%2]
		run(worldSpec{name: "end-" + end + "-single-" + k, u: low, peers: 3, chunk: 3, calls: oneCall(sc, 1+2*((i/2)%2), end)})
	}
	for i := 0; i < nRand; i++ {
		sc := randomScenario(rng, low, i)
		run(worldSpec{name: fmt.Sprintf("end-rand%d", i), u: low, peers: sc.peers, chunk: sc.chunk, trust: sc.trust,
			calls: oneCall(sc, rng.Intn(7), []string{"ctx", "stop"}[rng.Intn(2)])})
	}

	// ---- 2. heights just below 2^64
	top := maxU64
	for _, c := range []struct {
		from, to, chunk uint64
	}{{top - 11, top, 3}, {top - 11, top, 4}, {top - 2, top, 3}, {top - 1, top, 3}, {top - 1, top - 1, 3}, {top - 1, 0, 3}, {top - 5, top - 1, 1}, {top - 9, top, 8}} {
		sc := scenario{peers: 2, chunk: c.chunk, from: high.truth[c.from], to: c.to, plan: uniform(2, nil, hon)}
		run(worldSpec{name: fmt.Sprintf("high-from-top-%d-to-top-%d-chunk%d", top-c.from, top-c.to, c.chunk), u: high, peers: 2, chunk: c.chunk, calls: oneCall(sc, -1, "")})
	}
	for _, k := range kinds {
		p := uniform(3, []beh{{kind: k, d: 3, j: 1}}, hon)
		p.first[2] = nil
		sc := scenario{peers: 3, chunk: 3, from: high.truth[top-11], to: top, plan: p}
		run(worldSpec{name: "high-single-" + k, u: high, peers: 3, chunk: 3, calls: oneCall(sc, -1, "")})
	}
	for i := 0; i < nRand; i++ {
		sc := randomHigh(rng, low, high, i)
		endAfter := -1
		if rng.Chance(25) {
			endAfter = rng.Intn(5)
		}
		run(worldSpec{name: sc.name, u: high, peers: sc.peers, chunk: sc.chunk, trust: sc.trust,
			calls: oneCall(sc, endAfter, []string{"ctx", "stop"}[rng.Intn(2)])})
	}

	// ---- 3. the Exchange with metrics enabled: every single behaviour, an ended call of each kind
	for i, k := range kinds {
		p := uniform(3, []beh{{kind: k, d: 3, j: 1}}, hon)
		p.first[2] = nil
		u, from, to := low, low.truth[5], uint64(5+1+7)
		if i%3 == 2 {
			u, from, to = high, high.truth[top-11], top-3
		}
		sc := scenario{peers: 3, chunk: 3, from: from, to: to, plan: p}
		run(worldSpec{name: "metrics-single-" + k, u: u, peers: 3, chunk: 3, metrics: true, calls: oneCall(sc, -1, "")})
	}
	for _, end := range []string{"ctx", "stop"} {
		sc := scenario{peers: 2, chunk: 2, from: low.truth[5], to: 5 + 1 + 6, plan: uniform(2, nil, hon)}
		run(worldSpec{name: "metrics-end-" + end, u: low, peers: 2, chunk: 2, metrics: true, calls: oneCall(sc, 2, end)})
	}
	degen := scenario{peers: 2, chunk: 4, from: low.truth[7], to: 8, plan: uniform(2, nil, hon)}
	run(worldSpec{name: "metrics-degenerate", u: low, peers: 2, chunk: 4, metrics: true, calls: oneCall(degen, -1, "")})

	// ---- 5. several calls per world
	// no peer at all: the call waits for its context
	sc0 := scenario{from: low.truth[5], to: 5 + 1 + 4}
	run(worldSpec{name: "zero-peers", u: low, peers: 0, chunk: 3, calls: oneCall(sc0, -1, "")})
	run(worldSpec{name: "zero-peers-degenerate", u: low, peers: 0, chunk: 3, calls: oneCall(scenario{from: low.truth[5], to: 6}, -1, "")})
	run(worldSpec{name: "zero-peers-stop", u: low, peers: 0, chunk: 3, calls: oneCall(sc0, 0, "stop")})
	// every peer refused (blocked) in the first call: the second call has nobody to ask
	for _, k := range []string{"invalid", "shift", "undecodable", "unknown", "forgedlink"} {
		bad := uniform(2, nil, beh{kind: k, d: 3, j: 1})
		cs := []callSpec{{from: low.truth[5], to: 5 + 1 + 4, plan: bad, endAfter: -1}, {from: low.truth[5], to: 5 + 1 + 4, plan: uniform(2, nil, hon), endAfter: -1}}
		run(worldSpec{name: "all-blocked-by-" + k, u: low, peers: 2, chunk: 4, calls: cs})
	}
	// one Byzantine answer of one peer in the first call, then two honest calls: the refused peer is not asked again;
	// NOT_FOUND / empty / silent answers do not block
	for _, k := range kinds {
		p := uniform(3, nil, hon)
		p.first[0] = []beh{{kind: k, d: 3, j: 1}}
		cs := []callSpec{{from: low.truth[5], to: 5 + 1 + 7, plan: p, endAfter: -1},
			{from: low.truth[12], to: 12 + 1 + 6, plan: uniform(3, nil, hon), endAfter: -1},
			{from: low.truth[18], to: 18 + 1 + 5, plan: uniform(3, nil, hon), endAfter: -1}}
		run(worldSpec{name: "three-calls-first-" + k, u: low, peers: 3, chunk: 2, calls: cs})
	}
	for i := 0; i < nRand; i++ {
		a, b, c := randomScenario(rng, low, i), randomScenario(rng, low, i), randomScenario(rng, low, i)
		peers := a.peers
		fit := func(s scenario) plan {
			p := stripPanics(s.plan)
			for len(p.first) < peers {
				p.first = append(p.first, nil)
				p.deflt = append(p.deflt, hon)
			}
			return p
		}
		cs := []callSpec{{from: a.from, to: a.to, plan: fit(a), endAfter: -1}, {from: b.from, to: b.to, plan: fit(b), endAfter: -1}}
		if rng.Bool() {
			last := callSpec{from: c.from, to: c.to, plan: fit(c), endAfter: -1}
			if rng.Chance(40) {
				last.endAfter, last.end = rng.Intn(4), []string{"ctx", "stop"}[rng.Intn(2)]
			}
			cs = append(cs, last)
		}
		run(worldSpec{name: fmt.Sprintf("multi-rand%d", i), u: low, peers: peers, chunk: a.chunk, trust: a.trust, calls: cs})
	}
	if err := w.Flush(); err != nil {
		t.Fatal(err)
	}
	t.Logf("emitted %d cases", w.Len())
}
