//go:build verif

package c05

import (
	"fmt"
	"os"
	"os/exec"
	"runtime"
	"sort"
	"strings"
	"sync"
	"testing"
	"testing/synctest"
	"time"

	header "github.com/celestiaorg/go-header"

	"verifharness/emit"
	"verifharness/sess"
	"verifharness/vhdr"
)

type H = *vhdr.Header

const (
	chainLen = 80
	farPast  = int64(1_000_000)               // header times: 1970 + 1 ms
	future   = int64(4_102_444_800) * 1e9     // year 2100: beyond any virtual clock reading + drift
	reqTO    = 3 * time.Second
	deadline = 10 * time.Minute
)

// universe: the true chain, forks of it, and the request under test
type universe struct {
	mu    sync.Mutex
	truth map[uint64]H
	forks map[uint64]map[uint64]H // fork diverging at f: heights f.. (fork[f].Prev = hash(truth[f-1]))
	marked map[uint64]map[uint64]H
	start uint64                  // from.Height()+1
	base  uint64                  // lowest height of the true chain
	last  uint64                  // highest height of the forks
}

func newUniverse() *universe {
	return newUniverseAt(1, chainLen, chainLen+8)
}

// newUniverseAt: the true chain holds the heights base .. base+n-1, forks reach up to last
func newUniverseAt(base uint64, n int, last uint64) *universe {
	u := &universe{truth: map[uint64]H{}, forks: map[uint64]map[uint64]H{}, marked: map[uint64]map[uint64]H{}, base: base, last: last}
	for _, h := range vhdr.Chain("a", base, n, farPast, 10, nil) {
		u.truth[h.H] = h
	}
	return u
}

func (u *universe) fork(f uint64) map[uint64]H {
	u.mu.Lock()
	defer u.mu.Unlock()
	if m, ok := u.forks[f]; ok {
		return m
	}
	m := map[uint64]H{}
	var prev []byte
	if p, ok := u.truth[f-1]; ok {
		prev = p.Hash()
	}
	for h := f; h <= u.last && h >= f; h++ {
		x := &vhdr.Header{Chain: "a", H: h, T: farPast + int64(h-u.base+1)*10, Prev: prev, Nonce: 1000 + f}
		m[h] = x
		prev = x.Hash()
	}
	u.forks[f] = m
	return m
}

// beh is one scripted behaviour with its parameters drawn in advance
type beh struct {
	kind string
	d    uint64
	j    int
}

// Type-level Verify used by this driver: vhdr.LinkPolicy, except that it PANICS on marked headers
// (the mark is in the timestamp, which the Gallina twin vhdr_tvp sees): T%10 == 7: for every
// trusted header; T%10 == 3: only when the marked header is adjacent to the trusted one.
func panicPolicy(trust uint64) vhdr.Policy {
	lp := vhdr.LinkPolicy(trust)
	return func(t, u *vhdr.Header) error {
		switch u.T % 10 {
		case 7:
			panic("vhdr: scripted verify panic")
		case 3:
			if u.H == t.H+1 {
				panic("vhdr: scripted verify panic (adjacent)")
			}
		}
		return lp(t, u)
	}
}

// markedFork: like fork(f), but its first header carries the "panics when verified adjacently" mark
func (u *universe) markedFork(f uint64) map[uint64]H {
	u.mu.Lock()
	defer u.mu.Unlock()
	if m, ok := u.marked[f]; ok {
		return m
	}
	m := map[uint64]H{}
	var prev []byte
	if p, ok := u.truth[f-1]; ok {
		prev = p.Hash()
	}
	for h := f; h <= u.last && h >= f; h++ {
		x := &vhdr.Header{Chain: "a", H: h, T: farPast + int64(h-u.base+1)*10, Prev: prev, Nonce: 5000 + f}
		if h == f {
			x.T += 3
		}
		m[h] = x
		prev = x.Hash()
	}
	u.marked[f] = m
	return m
}

var byzantine = []string{"forkearlier", "verifypanic", "panicadj", "shift", "shiftback", "dup", "reorder", "forkfrom", "forkmid", "forgedlink", "wrongchain", "invalid",
	"future", "gap", "nfafter", "unknown", "undecodable", "decpanic", "valpanic", "valpanicend", "garbage", "hang", "reset", "empty", "garbage0", "hang0"}
var benign = []string{"honest", "partial", "overlong", "notfound"}

func hdrFrames(hs []H) []sess.Frame {
	out := make([]sess.Frame, 0, len(hs))
	for _, h := range hs {
		out = append(out, sess.Frame{Kind: sess.FHdr, H: h})
	}
	return out
}

func (u *universe) honest(o, a uint64) []H {
	var out []H
	for h := o; h < o+a && h >= o; h++ {
		if x, ok := u.truth[h]; ok {
			out = append(out, x)
		}
	}
	return out
}

func clone(h H) H { c := *h; return &c }

func (b beh) reply(u *universe, o, a uint64) sess.Reply {
	hon := u.honest(o, a)
	if len(hon) == 0 {
		// nothing to build on (origin 0 or beyond the chain): the scripted peer says NOT_FOUND
		return sess.Reply{Frames: []sess.Frame{{Kind: sess.FNotFound}}}
	}
	j := b.j % len(hon)
	j1 := j // a position >= 1 where possible
	if j1 == 0 && len(hon) > 1 {
		j1 = 1
	}
	switch b.kind {
	case "honest":
		return sess.Reply{Frames: hdrFrames(hon)}
	case "shift":
		return sess.Reply{Frames: hdrFrames(u.honest(o+b.d, a))}
	case "shiftback":
		if o > b.d {
			return sess.Reply{Frames: hdrFrames(u.honest(o-b.d, a))}
		}
		return sess.Reply{Frames: hdrFrames(u.honest(1, a))}
	case "dup":
		return sess.Reply{Frames: hdrFrames(u.honest(u.start, a))}
	case "reorder":
		hs := append([]H(nil), hon...)
		if len(hs) >= 2 {
			k := j % (len(hs) - 1)
			hs[k], hs[k+1] = hs[k+1], hs[k]
		}
		return sess.Reply{Frames: hdrFrames(hs)}
	case "forkfrom":
		f := u.fork(o)
		var hs []H
		for h := o; h < o+a; h++ {
			hs = append(hs, f[h])
		}
		return sess.Reply{Frames: hdrFrames(hs)}
	case "forkearlier":
		// a fork that diverged one height before the requested origin: consistent in itself, starts at the
		// origin, but its first header does not link to the true header below the origin
		var f map[uint64]H
		if o > u.start {
			f = u.fork(o - 1)
		} else {
			f = u.fork(o)
		}
		var hs []H
		for h := o; h < o+a; h++ {
			hs = append(hs, f[h])
		}
		return sess.Reply{Frames: hdrFrames(hs)}
	case "verifypanic":
		// the header at position j makes the type-level Verify panic whatever it is verified against
		hs := append([]H(nil), hon...)
		c := clone(hs[j])
		c.T += 7
		hs[j] = c
		return sess.Reply{Frames: hdrFrames(hs)}
	case "panicadj":
		// a linked fork whose first header makes the type-level Verify panic only when it is verified
		// against the header directly below it
		f := u.markedFork(o)
		var hs []H
		for h := o; h < o+a; h++ {
			hs = append(hs, f[h])
		}
		return sess.Reply{Frames: hdrFrames(hs)}
	case "forkmid":
		f := u.fork(o + uint64(j1))
		hs := append([]H(nil), hon[:j1]...)
		for h := o + uint64(j1); h < o+a; h++ {
			if x, ok := f[h]; ok {
				hs = append(hs, x)
			}
		}
		return sess.Reply{Frames: hdrFrames(hs)}
	case "forgedlink":
		// from position j1 on, headers of a fork that diverged earlier: the hash link at j1 is broken
		f := u.fork(o)
		hs := append([]H(nil), hon[:j1]...)
		for h := o + uint64(j1); h < o+a; h++ {
			hs = append(hs, f[h])
		}
		return sess.Reply{Frames: hdrFrames(hs)}
	case "wrongchain":
		hs := append([]H(nil), hon...)
		c := clone(hs[j])
		c.Chain = "b"
		hs[j] = c
		return sess.Reply{Frames: hdrFrames(hs)}
	case "invalid":
		hs := append([]H(nil), hon...)
		c := clone(hs[j])
		c.Bad = true
		hs[j] = c
		return sess.Reply{Frames: hdrFrames(hs)}
	case "future":
		hs := append([]H(nil), hon...)
		c := clone(hs[j])
		c.T = future
		hs[j] = c
		return sess.Reply{Frames: hdrFrames(hs)}
	case "gap":
		hs := append([]H(nil), hon[:j1]...)
		hs = append(hs, u.honest(o+uint64(j1)+1, a)...)
		return sess.Reply{Frames: hdrFrames(hs)}
	case "partial":
		k := 1 + j%len(hon)
		return sess.Reply{Frames: hdrFrames(hon[:k])}
	case "overlong":
		return sess.Reply{Frames: hdrFrames(u.honest(o, a+1+b.d))}
	case "notfound":
		return sess.Reply{Frames: []sess.Frame{{Kind: sess.FNotFound}}}
	case "nfafter":
		return sess.Reply{Frames: append(hdrFrames(hon[:j]), sess.Frame{Kind: sess.FNotFound})}
	case "unknown":
		return sess.Reply{Frames: append(hdrFrames(hon[:j]), sess.Frame{Kind: sess.FUnknown})}
	case "undecodable":
		return sess.Reply{Frames: append(hdrFrames(hon[:j]), sess.Frame{Kind: sess.FUndecodable})}
	case "decpanic":
		return sess.Reply{Frames: append(hdrFrames(hon[:j]), sess.Frame{Kind: sess.FPanic})}
	case "valpanic":
		// the true headers, except that Validate() PANICS on the one at position j (wire flag 2)
		fs := hdrFrames(hon)
		fs[j] = sess.Frame{Kind: sess.FValPanic, H: hon[j]}
		return sess.Reply{Frames: fs}
	case "valpanicend":
		// a Validate panic as last frame after j true headers
		return sess.Reply{Frames: append(hdrFrames(hon[:j]), sess.Frame{Kind: sess.FValPanic, H: hon[j]})}
	case "garbage":
		return sess.Reply{Frames: hdrFrames(hon[:j1]), Tail: sess.TGarbage}
	case "garbage0":
		return sess.Reply{Tail: sess.TGarbage}
	case "hang":
		return sess.Reply{Frames: hdrFrames(hon[:j1]), Tail: sess.THang}
	case "hang0":
		return sess.Reply{Tail: sess.THang}
	case "reset":
		return sess.Reply{Frames: hdrFrames(hon[:j]), Tail: sess.TReset}
	case "empty":
		return sess.Reply{}
	}
	panic("unknown behaviour " + b.kind)
}

// plan: per peer the behaviours of its first attempts, then its default behaviour
type plan struct {
	first [][]beh
	deflt []beh
}

func (p plan) at(peer, attempt int) beh {
	if attempt < len(p.first[peer]) {
		return p.first[peer][attempt]
	}
	return p.deflt[peer]
}

func (p plan) kinds() string {
	m := map[string]bool{}
	for i := range p.first {
		for _, b := range p.first[i] {
			m[b.kind] = true
		}
		m[p.deflt[i].kind] = true
	}
	ks := make([]string, 0, len(m))
	for k := range m {
		ks = append(ks, k)
	}
	sort.Strings(ks)
	return strings.Join(ks, ",")
}

type scenario struct {
	name   string
	peers  int
	chunk  uint64
	trust  uint64
	from   H
	to     uint64
	plan   plan
	expect string // for the always-generated witnesses
}

func drawBeh(rng *emit.Rand, kinds []string) beh {
	return beh{kind: kinds[rng.Intn(len(kinds))], d: 1 + uint64(rng.Intn(9)), j: rng.Intn(8)}
}

func randomScenario(rng *emit.Rand, u *universe, i int) scenario {
	peers := 1 + rng.Intn(4)
	chunk := uint64(1 + rng.Intn(8))
	fromH := uint64(1 + rng.Intn(12))
	amount := uint64(1 + rng.Intn(int(3*chunk)+2))
	sc := scenario{name: fmt.Sprintf("rand%d", i), peers: peers, chunk: chunk, from: u.truth[fromH], to: fromH + 1 + amount}
	if rng.Chance(12) {
		sc.trust = uint64(2 + rng.Intn(10))
	}
	byzLevel := rng.Intn(4) // 0: benign only ... 3: mostly Byzantine
	for p := 0; p < peers; p++ {
		var fs []beh
		n := rng.Intn(4)
		for k := 0; k < n; k++ {
			if rng.Intn(4) < byzLevel {
				fs = append(fs, drawBeh(rng, byzantine))
			} else {
				fs = append(fs, drawBeh(rng, benign))
			}
		}
		d := beh{kind: "honest"}
		switch {
		case rng.Chance(10 * byzLevel):
			d = drawBeh(rng, byzantine)
		case rng.Chance(25):
			d = drawBeh(rng, benign[:3])
		}
		sc.plan.first = append(sc.plan.first, fs)
		sc.plan.deflt = append(sc.plan.deflt, d)
	}
	return sc
}

func uniform(peers int, first []beh, deflt beh) plan {
	var p plan
	for i := 0; i < peers; i++ {
		p.first = append(p.first, first)
		p.deflt = append(p.deflt, deflt)
	}
	return p
}

// fixed scenarios: degenerate (from, to) pairs, the known-finding witnesses, past defects
func fixedScenarios(u *universe) []scenario {
	hon := beh{kind: "honest"}
	var out []scenario
	f := u.truth[7]
	for _, to := range []uint64{0, 1, 3, 6, 7, 8} {
		out = append(out, scenario{name: fmt.Sprintf("degenerate-to%d", to), peers: 2, chunk: 4, from: f, to: to,
			plan: uniform(2, nil, hon), expect: "rangemixup"})
	}
	out = append(out, scenario{name: "minimal-range", peers: 2, chunk: 4, from: f, to: 9, plan: uniform(2, nil, hon), expect: "ok"})
	// F6/F7 of the design round (fixed in the tree): shifted answers must not be returned
	out = append(out, scenario{name: "F7-shift10", peers: 2, chunk: 4, from: u.truth[3], to: 12,
		plan: uniform(2, nil, beh{kind: "shift", d: 10}), expect: "ctx"})
	// from at the largest height: every to is degenerate (fixed by f61b090: before, to >= 1 waited for the context)
	top := &vhdr.Header{Chain: "a", H: ^uint64(0), T: farPast}
	for _, to := range []uint64{0, 1, 5, ^uint64(0)} {
		out = append(out, scenario{name: fmt.Sprintf("from-maxheight-to%d", to), peers: 2, chunk: 4, from: top, to: to,
			plan: uniform(2, nil, hon), expect: "rangemixup"})
	}
	// outside the property (the caller's own absurd range): longer than any slice, the call panics.
	// Kept only to tie the model's capacity limit to the code; far above the limit (just above it the
	// runtime tries to allocate for real)
	for _, to := range []uint64{^uint64(0)} {
		for _, chunk := range []uint64{1, 8} {
			out = append(out, scenario{name: fmt.Sprintf("huge-to%d-chunk%d", to, chunk), peers: 1, chunk: chunk, from: f, to: to,
				plan: uniform(1, nil, hon)})
		}
	}
	// two sub-requests, each answered from the fork that diverges at its own origin: the second chunk links
	// to the true chain, not to the first chunk (fixed by 30b80c8: before, the unlinked range was returned)
	out = append(out, scenario{name: "unlinked-chunk-boundary", peers: 2, chunk: 3, from: u.truth[5], to: 5 + 1 + 6,
		plan: uniform(2, nil, beh{kind: "forkfrom"}), expect: "other"})
	// the same with three chunks, and with an honest first chunk followed by a fork chunk
	out = append(out, scenario{name: "unlinked-chunk-boundary-3", peers: 3, chunk: 2, from: u.truth[5], to: 5 + 1 + 6,
		plan: uniform(3, nil, beh{kind: "forkfrom"}), expect: "other"})
	mixed := uniform(2, nil, hon)
	mixed.deflt[1] = beh{kind: "forkfrom"}
	out = append(out, scenario{name: "true-then-fork-chunk", peers: 2, chunk: 3, from: u.truth[5], to: 5 + 1 + 6, plan: mixed})
	// a chunk answered only partially, its remainder served by another peer from a fork that starts at the
	// remainder's origin, is consistent in itself but does not link to the partial answer: the boundary lies
	// INSIDE a requested chunk. Peer 0: the cut answer, then nothing (dropped); peer 1: NOT_FOUND once (so that
	// peer 0 goes first whatever the queue order), then the fork.
	for _, chunk := range []uint64{4, 5, 8} {
		for cut := 1; cut < int(chunk); cut++ {
			for _, extra := range []uint64{0, 3} {
				p := plan{first: [][]beh{{{kind: "partial", j: cut - 1}}, {{kind: "notfound"}}},
					deflt: []beh{{kind: "empty"}, {kind: "forkearlier"}}}
				out = append(out, scenario{name: fmt.Sprintf("partial-then-fork-c%d-cut%d+%d", chunk, cut, extra), peers: 2, chunk: chunk,
					from: u.truth[3], to: 3 + 1 + chunk + extra, plan: p, expect: "other"})
			}
		}
	}
	// a header on which the type-level Verify panics: inside a chunk (recovered by session.processResponses:
	// a failed request), and as first header of a non-first chunk (verified adjacently only by the boundary check)
	for _, chunk := range []uint64{1, 3} {
		p := uniform(3, []beh{{kind: "verifypanic", j: 1}}, hon)
		p.first[2] = nil
		out = append(out, scenario{name: "verify-panics-in-chunk", peers: 3, chunk: chunk, from: u.truth[5], to: 5 + 1 + 7, plan: p, expect: "ok"})
	}
	pa := uniform(2, nil, hon)
	pa.deflt[1] = beh{kind: "panicadj"}
	// (fixed by 1b6d0f8: before, the panic reached the caller; now the call fails with an error - or succeeds,
	// when the honest peer happens to serve every chunk; several instances, as the assignment is not controlled)
	for k := 0; k < 4; k++ {
		out = append(out, scenario{name: fmt.Sprintf("verify-panics-at-boundary-%d", k), peers: 2, chunk: 3, from: u.truth[5], to: 5 + 1 + 9, plan: pa})
	}
	pb := uniform(3, nil, beh{kind: "panicadj"})
	pb.deflt[0] = hon
	out = append(out, scenario{name: "verify-panics-at-boundary-3peers", peers: 3, chunk: 2, from: u.truth[5], to: 5 + 1 + 8, plan: pb})
	// every single behaviour on the first attempt of every peer, one honest peer as fallback
	for _, k := range append(append([]string{}, byzantine...), benign...) {
		for _, chunk := range []uint64{1, 3} {
			p := uniform(3, []beh{{kind: k, d: 3, j: 1}}, hon)
			p.first[2] = nil
			out = append(out, scenario{name: "single-" + k, peers: 3, chunk: chunk, from: u.truth[5], to: 5 + 1 + 7, plan: p})
		}
	}
	return out
}

func runScenario(t *testing.T, w *emit.Writer, reg *vhdr.Registry, u *universe, sc scenario, drift time.Duration) {
	var o sess.Obs
	var log []sess.Event
	u.start = sc.from.H + 1
	synctest.Test(t, func(t *testing.T) {
		vhdr.SetPolicy(panicPolicy(sc.trust))
		wd := sess.NewWorld(t, sc.peers, sc.chunk, reqTO, "a", synctest.Wait)
		for i := 0; i < sc.peers; i++ {
			wd.Script(i, func(_ *sess.World, p int, origin, amount uint64, att int) (sess.Reply, string) {
				b := sc.plan.at(p, att)
				return b.reply(u, origin, amount), b.kind
			})
		}
		o = wd.Call(sc.from, sc.to, deadline)
		synctest.Wait()
		log = wd.TakeLog()
		wd.Close()
	})
	vhdr.SetPolicy(nil)
	if sc.expect != "" && o.Kind != sc.expect {
		// not fatal: the oracle decides; but say so in the driver log
		t.Logf("scenario %s: observed %s (%s), the unchanged tree gives %s", sc.name, o.Kind, o.Detail, sc.expect)
	}
	peers := make([]string, sc.peers)
	for i := range peers {
		peers[i] = emit.N(uint64(i))
	}
	term := fmt.Sprintf("Case05 %s %d %d %d %s %d %s %s %s", emit.Z(int64(drift)), sc.trust, sess.MaxCap, sc.chunk,
		reg.Term(sc.from), sc.to, emit.List(peers), sess.LogTerm(reg, log), o.Term(reg))
	used := sess.SortedKinds(log)
	amount := sc.to - sc.from.H - 1
	bucket := "deg"
	switch {
	case sc.to <= sc.from.H+1 || sc.from.H == ^uint64(0):
	case amount <= sc.chunk:
		bucket = "le1chunk"
	case amount <= 2*sc.chunk:
		bucket = "le2chunk"
	case amount > 1<<40:
		bucket = "huge"
	default:
		bucket = "gt2chunk"
	}
	class := fmt.Sprintf("p%d/c%d/%s/%s/%s", sc.peers, sc.chunk, bucket, used, o.Kind)
	mixed := false
	for _, h := range o.Headers {
		if h != nil && h.Nonce != 0 {
			mixed = true
		}
	}
	nontrivial := o.Kind == "ok" && used != "honest" && used != ""
	w.Add(term, map[string]any{"scenario": sc.name, "peers": sc.peers, "chunk": sc.chunk, "trust": sc.trust, "from": sc.from.H, "to": sc.to,
		"plan": sc.plan.kinds(), "log": sess.Summary(log), "obs": o.Kind, "detail": o.Detail, "returned": len(o.Headers)}, class, nontrivial)
	w.Count("observation", o.Kind)
	w.Count("chunk", fmt.Sprint(sc.chunk))
	w.Count("peers", fmt.Sprint(sc.peers))
	w.Count("range", bucket)
	w.Count("events", fmt.Sprint(min(len(log), 20)))
	if mixed {
		w.Count("result", "contains-fork-headers")
	}
	for _, e := range log {
		w.Count("behaviour", e.Behave)
	}
}

// ---- the verify-panic probe: a panic of the type-level Verify outside the session's recover happens on a
// request goroutine and kills the whole process; it can only be observed from outside

func probeScenario(u *universe) scenario { return probeScenarioKind(u, "verifypanic") }

// probeScenarioKind: one peer whose first answer carries, in second position, a header on which the
// type-level Verify ("verifypanic") or Validate ("valpanic") panics
func probeScenarioKind(u *universe, kind string) scenario {
	p := uniform(1, []beh{{kind: kind, j: 1}}, beh{kind: "honest"})
	name := "probe-verify-panics-in-chunk"
	if kind != "verifypanic" {
		name = "probe-" + kind + "-in-chunk"
	}
	return scenario{name: name, peers: 1, chunk: 4, from: u.truth[5], to: 5 + 1 + 3, plan: p}
}

// TestC05VerifyPanicChild is the child side of the probe (skipped unless started by probeVerifyPanic).
func TestC05VerifyPanicChild(t *testing.T) {
	if os.Getenv("VERIF_C05_PANIC_CHILD") == "" {
		t.Skip("child side of the verify-panic probe")
	}
	u := newUniverse()
	sc := probeScenarioKind(u, os.Getenv("VERIF_C05_PANIC_CHILD"))
	u.start = sc.from.H + 1
	synctest.Test(t, func(t *testing.T) {
		vhdr.SetPolicy(panicPolicy(0))
		wd := sess.NewWorld(t, sc.peers, sc.chunk, reqTO, "a", synctest.Wait)
		wd.Script(0, func(_ *sess.World, p int, origin, amount uint64, att int) (sess.Reply, string) {
			b := sc.plan.at(p, att)
			return b.reply(u, origin, amount), b.kind
		})
		o := wd.Call(sc.from, sc.to, time.Minute)
		synctest.Wait()
		fmt.Println("C05-CHILD-SURVIVED", o.Kind)
		wd.Close()
	})
}

func probeVerifyPanic(t *testing.T) bool { return probePanic(t, "verifypanic") }

// probePanic runs the probe scenario of the given kind in a child process and says whether the client survived
func probePanic(t *testing.T, kind string) bool {
	cmd := exec.Command(os.Args[0], "-test.run=^TestC05VerifyPanicChild$", "-test.timeout=120s")
	cmd.Env = append(os.Environ(), "VERIF_C05_PANIC_CHILD="+kind)
	out, err := cmd.CombinedOutput()
	switch {
	case strings.Contains(string(out), "C05-CHILD-SURVIVED"):
		return true
	case err != nil && (strings.Contains(string(out), "scripted verify panic") || strings.Contains(string(out), vhdr.ValidatePanicMsg)):
		lines := strings.SplitN(string(out), "\n", 12)
		t.Logf("the client process is killed by a response on which the header type's %s panics:\n%s", kind, strings.Join(lines[:min(len(lines), 10)], "\n"))
		return false
	default:
		t.Fatalf("inconclusive verify-panic probe (%v):\n%s", err, out)
		return false
	}
}

func (p plan) panics() bool { return p.uses("verifypanic", "panicadj") }

func (p plan) valPanics() bool { return p.uses("valpanic", "valpanicend") }

func (p plan) uses(kinds ...string) bool {
	is := func(k string) bool {
		for _, x := range kinds {
			if x == k {
				return true
			}
		}
		return false
	}
	for i := range p.first {
		for _, b := range p.first[i] {
			if is(b.kind) {
				return true
			}
		}
		if is(p.deflt[i].kind) {
			return true
		}
	}
	return false
}

func TestC05(t *testing.T) {
	defer runtime.GOMAXPROCS(runtime.GOMAXPROCS(1)) // fewer schedules: reruns of a seed give the same log far more often
	rng := emit.NewRand(emit.Seed())
	w := emit.NewWriter("Model.Verify Model.Session Oracle.C05", "case05", "chk05")
	w.PerShard(120)
	w.Rule = "one GetRangeByHeight of the real p2p.Exchange on a libp2p mocknet (virtual time) against 1-4 scripted peers; per (peer, attempt) a behaviour " +
		"from the catalogue {honest, partial, overlong, NOT_FOUND | shifted +/-, duplicate of the first chunk, reordered, whole-chunk fork, fork inside chunk, forged link, " +
		"wrong chain, invalid, future-dated, gap, NOT_FOUND after headers, unknown status, undecodable, decode panic, Validate panic (inside / at the end of the answer), garbage bytes, silent, reset, empty}; chunk 1-8, " +
		"range 1..3*chunk+2, trust range unlimited or 2-11; plus degenerate (from,to) pairs, from at height 2^64-1, ranges beyond the slice limit, every behaviour alone. " +
		"Case = (parameters, the peers' log of (request, frames) in arrival order, result); distinct by (peers, chunk, range bucket, behaviours seen, result kind); " +
		"non-trivial = headers returned although some answer was not honest"
	n := 260
	if emit.Thorough() {
		n = 9000
	}
	reg := vhdr.NewRegistry()
	u := newUniverse()
	var drift time.Duration
	var epoch int64
	synctest.Test(t, func(t *testing.T) { drift = header.VerifClockDrift(); epoch = time.Now().UnixNano() })
	// a Verify panic that kills the process cannot be observed in-process: probe it once in a child; if the
	// client does not survive, report that scenario as the observed panic and keep such answers out of this process
	panicSafe := probeVerifyPanic(t)
	w.Extra["client_survives_verify_panic_in_response"] = panicSafe
	if !panicSafe {
		sc := probeScenario(u)
		u.start = sc.from.H + 1
		rep := sc.plan.at(0, 0).reply(u, sc.from.H+1, sc.to-sc.from.H-1)
		log := []sess.Event{{Peer: 0, Now: epoch, Origin: sc.from.H + 1, Amount: sc.to - sc.from.H - 1, Frames: rep.Frames, Behave: "verifypanic"}}
		term := fmt.Sprintf("Case05 %s 0 %d %d %s %d [0] %s OPanic", emit.Z(int64(drift)), sess.MaxCap, sc.chunk,
			reg.Term(sc.from), sc.to, sess.LogTerm(reg, log))
		w.Add(term, map[string]any{"scenario": sc.name, "peers": 1, "chunk": sc.chunk, "from": sc.from.H, "to": sc.to, "log": sess.Summary(log),
			"obs": "panic", "detail": "observed in a child process: the whole client process died (panic on a request goroutine)"}, "probe/verifypanic", false)
		w.Count("observation", "process killed by verify panic")
	}
	// the same for a header on which Validate() panics (recovered by the same deferred function of
	// session.processResponses, but earlier: inside the package-level processResponses)
	valPanicSafe := probePanic(t, "valpanic")
	w.Extra["client_survives_validate_panic_in_response"] = valPanicSafe
	if !valPanicSafe {
		sc := probeScenarioKind(u, "valpanic")
		u.start = sc.from.H + 1
		rep := sc.plan.at(0, 0).reply(u, sc.from.H+1, sc.to-sc.from.H-1)
		log := []sess.Event{{Peer: 0, Now: epoch, Origin: sc.from.H + 1, Amount: sc.to - sc.from.H - 1, Frames: rep.Frames, Behave: "valpanic"}}
		term := fmt.Sprintf("Case05 %s 0 %d %d %s %d [0] %s OPanic", emit.Z(int64(drift)), sess.MaxCap, sc.chunk,
			reg.Term(sc.from), sc.to, sess.LogTerm(reg, log))
		w.Add(term, map[string]any{"scenario": sc.name, "peers": 1, "chunk": sc.chunk, "from": sc.from.H, "to": sc.to, "log": sess.Summary(log),
			"obs": "panic", "detail": "observed in a child process: the whole client process died (Validate panic on a request goroutine)"}, "probe/valpanic", false)
		w.Count("observation", "process killed by validate panic")
	}
	run := func(sc scenario) {
		if !panicSafe && sc.plan.panics() {
			w.Count("skipped", "would kill the driver: verify panic")
			return
		}
		if !valPanicSafe && sc.plan.valPanics() {
			w.Count("skipped", "would kill the driver: validate panic")
			return
		}
		runScenario(t, w, reg, u, sc, drift)
	}
	for _, sc := range fixedScenarios(u) {
		run(sc)
	}
	if emit.Thorough() {
		// exhaustive small scope: every pair of first-attempt behaviours of two peers (third peer honest),
		// three sub-requests (2, 2, 1 headers)
		w.Exhaustive = true
		all := append(append([]string{}, byzantine...), benign...)
		for _, k0 := range all {
			for _, k1 := range all {
				p := plan{first: [][]beh{{{kind: k0, d: 2, j: 1}}, {{kind: k1, d: 2, j: 1}}, nil},
					deflt: []beh{{kind: "honest"}, {kind: "honest"}, {kind: "honest"}}}
				run(scenario{name: "pair-" + k0 + "-" + k1, peers: 3, chunk: 2, from: u.truth[4], to: 4 + 1 + 5, plan: p})
			}
		}
	}
	for i := 0; i < n; i++ {
		run(randomScenario(rng, u, i))
	}
	if err := w.Flush(); err != nil {
		t.Fatal(err)
	}
	t.Logf("emitted %d cases", w.Len())
}
