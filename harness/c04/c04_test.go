//go:build verif

package c04

import (
	"fmt"
	"testing"

	"verifharness/emit"
	"verifharness/storeh"
)

func TestC04(t *testing.T) {
	rng := emit.NewRand(emit.Seed())
	w := emit.NewWriter("Model.Store Model.StoreSpec Oracle.StoreCase", "scase", "chk_store")
	w.PerShard(40)
	w.Rule = "random operation histories (5..40 ops) over a 24-header chain: appends in any order with gaps, repeats and small batches, " +
		"valid and invalid DeleteRange, Restart (same object) and Reopen (new Store on the datastore); configuration drawn from batch {1,2,3,5,64} x " +
		"store cache {4,5,8,512} x index cache {4,6,2048} (2Q caches reject sizes below 4); after every step a probe reads Head/Tail/Height and GetByHeight/Get/Has/HasAt for every " +
		"height 0..U+2 plus random GetRange; the raw datastore is dumped at the end. distinct by (config, op sequence); non-trivial when >= 3 ops"
	n := 150
	if emit.Thorough() {
		n = 3000
	}
	for _, cc := range storeh.Corpus {
		if cc.Faulty() { // failing writes inside DeleteRange: an [fcase], run by the C08 / C14 drivers (storeh.FaultCases)
			continue
		}
		cfg := storeh.Config{Batch: cc.Batch, Cache: 4, ICache: 4, U: 24, NH: 1, ProbeEvery: true, Ranges: 2}
		res := storeh.Run(t, rng, cfg, len(cc.Ops), storeh.Scripted(cc.Ops))
		w.Add(res.Term, res.Descr, "corpus/"+cc.Name, true)
		w.Count("corpus", cc.Name)
	}
	for i := 0; i < n; i++ {
		cfg := storeh.Config{
			Batch: []int{1, 2, 3, 5, 64}[rng.Intn(5)], Cache: []int{4, 5, 8, 512}[rng.Intn(4)], ICache: []int{4, 6, 2048}[rng.Intn(3)],
			U: 24, NH: rng.Intn(3), ProbeEvery: true, Ranges: 3, CtxDS: rng.Bool(), DuringPct: 15,
		}
		cfg.Par = cfg.NH == 0 && rng.Bool()
		maxOps := 5 + rng.Intn(36)
		gen := storeh.RandomGen(rng, cfg, storeh.Weights{Append: 70, Delete: 18, Restart: 12, InvalidDelete: 25, FailPct: 25})
		res := storeh.Run(t, rng, cfg, maxOps, gen)
		class := fmt.Sprintf("b%d/c%d/i%d/%v", cfg.Batch, cfg.Cache, cfg.ICache, res.Descr["ops"])
		w.Add(res.Term, res.Descr, class, res.NonTriv)
		w.Count("batch", fmt.Sprint(cfg.Batch))
		w.Count("datastore_flavour_ctxds", fmt.Sprint(cfg.CtxDS))
		w.Count("parallel_delete_path", fmt.Sprint(cfg.Par))
		w.Count("ops", fmt.Sprint(res.Ops/10*10))
		w.Count("deletes_ok", fmt.Sprint(res.DelOK))
		w.Count("gapped_appends", fmt.Sprint(res.Gapped))
	}
	if err := w.Flush(); err != nil {
		t.Fatal(err)
	}
}
