//go:build verif

// Package keys is the correspondence driver for the byte-level datastore layout of the Store
// (Model/Keys.v, Oracle/Keys.v): header.Hash codecs, datastore.NewKey, and the keys / values a real
// store.Store writes and reads back, observed through a recording datastore (no source hook).
package keys

import (
	"context"
	"encoding/binary"
	"encoding/hex"
	"errors"
	"fmt"
	"strconv"
	"strings"
	"testing"
	"testing/synctest"
	"time"

	"github.com/ipfs/go-datastore"

	header "github.com/celestiaorg/go-header"
	"github.com/celestiaorg/go-header/store"

	"verifharness/emit"
	"verifharness/storeh"
)

// KH is a header whose hash and height are chosen freely by the driver.
type KH struct {
	Hsh []byte
	Ht  uint64
}

var _ header.Header[*KH] = (*KH)(nil)

const khMagic = 0xA7

var errKHDecode = errors.New("keys: malformed header encoding")

func (h *KH) New() *KH                { return new(KH) }
func (h *KH) IsZero() bool            { return h == nil }
func (h *KH) ChainID() string         { return "k" }
func (h *KH) Hash() header.Hash       { return append([]byte{}, h.Hsh...) }
func (h *KH) Height() uint64          { return h.Ht }
func (h *KH) LastHeader() header.Hash { return nil }
func (h *KH) Time() time.Time         { return time.Unix(0, 0) }
func (h *KH) Verify(*KH) error        { return nil }
func (h *KH) Validate() error         { return nil }
func (h *KH) MarshalBinary() ([]byte, error) {
	b := []byte{khMagic}
	b = binary.BigEndian.AppendUint64(b, h.Ht)
	b = binary.BigEndian.AppendUint16(b, uint16(len(h.Hsh)))
	return append(b, h.Hsh...), nil
}
func (h *KH) UnmarshalBinary(b []byte) error {
	if len(b) < 11 || b[0] != khMagic {
		return errKHDecode
	}
	n := int(binary.BigEndian.Uint16(b[9:]))
	if len(b) != 11+n {
		return errKHDecode
	}
	h.Ht = binary.BigEndian.Uint64(b[1:])
	h.Hsh = append([]byte{}, b[11:]...)
	return nil
}

func bt(b []byte) string {
	xs := make([]string, len(b))
	for i, c := range b {
		xs[i] = strconv.Itoa(int(c))
	}
	return "(B " + emit.List(xs) + ")"
}

func dresTerm(h header.Hash, err error) (string, string) {
	var ib hex.InvalidByteError
	switch {
	case err == nil:
		return "(DOk " + bt(h) + ")", "ok"
	case errors.Is(err, hex.ErrLength):
		return "DErrLen", "len"
	case errors.As(err, &ib):
		return fmt.Sprintf("(DErrByte (Nb %d))", byte(ib)), "byte"
	default:
		return "DErrQuote", "quote"
	}
}

type tamper struct {
	kind int // 0 none, 1 delete, 2 set
	v    []byte
}

func (tp tamper) term() string {
	switch tp.kind {
	case 1:
		return "TDelete"
	case 2:
		return "(TSet " + bt(tp.v) + ")"
	}
	return "TNone"
}

type sobs struct {
	startErr bool
	head     []byte
	hasHead  bool
	kept     bool
	byHash   bool
	byHeight bool
}

func (o sobs) term() string {
	hd := "None"
	if o.hasHead {
		hd = emit.Some(bt(o.head))
	}
	return fmt.Sprintf("(SObs %s %s %s %s %s)", emit.B(o.startErr), hd, emit.B(o.kept), emit.B(o.byHash), emit.B(o.byHeight))
}

// runStore: a fresh real Store over a recording datastore, one header appended + synced + stopped;
// the head pointer tampered with; a NEW Store started on the same datastore and read.
func runStore(t *testing.T, prefixOpt *string, hash []byte, height uint64, tp tamper) (prefix string, bin []byte, log [][2][]byte, o sobs) {
	synctest.Test(t, func(t *testing.T) {
		ctx := context.Background()
		rec := storeh.NewRecDS()
		var opts []store.Option
		prefix = "/headers"
		if prefixOpt != nil {
			opts = append(opts, store.WithStorePrefix(*prefixOpt))
			prefix = datastore.NewKey(*prefixOpt).String()
		}
		s, err := store.NewStore[*KH](rec, opts...)
		if err != nil {
			t.Fatal(err)
		}
		if err := s.Start(ctx); err != nil {
			t.Fatal(err)
		}
		h := &KH{Hsh: append([]byte{}, hash...), Ht: height}
		bin, _ = h.MarshalBinary()
		c1, cancel := context.WithTimeout(ctx, time.Minute)
		if err := s.Append(c1, h); err != nil {
			t.Fatal(err)
		}
		if err := s.Sync(c1); err != nil {
			t.Fatal(err)
		}
		if err := s.Stop(c1); err != nil {
			t.Fatal(err)
		}
		cancel()
		headKey := ""
		for _, e := range rec.Log {
			for _, w := range e {
				k := w.Key
				if w.Del {
					k += "#DEL"
				}
				log = append(log, [2][]byte{[]byte(k), w.Value})
				if strings.HasSuffix(w.Key, "head") && headKey == "" {
					headKey = w.Key
				}
			}
		}
		if headKey == "" {
			headKey = strings.TrimSuffix(prefix, "/") + "/head"
		}
		switch tp.kind {
		case 1:
			_ = rec.Delete(ctx, datastore.NewKey(headKey))
		case 2:
			_ = rec.Put(ctx, datastore.NewKey(headKey), tp.v)
		}
		s2, err := store.NewStore[*KH](rec, opts...)
		if err != nil {
			t.Fatal(err)
		}
		c2, cancel2 := context.WithTimeout(ctx, time.Minute)
		defer cancel2()
		serr := s2.Start(c2)
		o.startErr = serr != nil
		if hd, err := s2.Head(c2); err == nil && hd != nil {
			o.hasHead, o.head = true, hd.Hash()
		}
		o.kept, _ = rec.Has(ctx, datastore.NewKey(headKey))
		same := func(g *KH, err error) bool {
			return err == nil && g != nil && g.Ht == height && string(g.Hsh) == string(hash)
		}
		c3, cancel3 := context.WithTimeout(ctx, time.Second)
		o.byHash = same(s2.Get(c3, hash))
		cancel3()
		c4, cancel4 := context.WithTimeout(ctx, time.Second)
		o.byHeight = same(s2.GetByHeight(c4, height))
		cancel4()
		if serr == nil {
			c5, cancel5 := context.WithTimeout(ctx, time.Minute)
			_ = s2.Stop(c5)
			cancel5()
		}
	})
	return
}

func allDigits(s string) bool {
	for _, c := range s {
		if c < '0' || c > '9' {
			return false
		}
	}
	return true
}

func TestKeys(t *testing.T) {
	rng := emit.NewRand(emit.Seed())
	w := emit.NewWriter("Model.Keys Oracle.Keys", "kcase", "chkKeys")
	w.Rule = "real header.Hash.String/MarshalJSON on random byte strings (len 0..40), all 1-byte hashes, 2-byte hashes with all-digit hex; " +
		"real Hash.UnmarshalJSON on valid values, every single-byte corruption (x 14 replacement bytes), every truncation, case variants, missing quotes, random bytes; " +
		"real datastore.NewKey on the strings the store uses and on dotted / slashed strings; real store.Store over a recording datastore: one header with a chosen " +
		"hash (random, short all-digit, empty) and height (0, 1, 9, 10, 2^32, 2^63, 2^64-1, the decimal reading of the hash) appended, the recorded batch, then the head " +
		"pointer kept / deleted / overwritten (valid, lower case, corrupted, truncated, dangling, pointing at the height key) and a new Store started and read. " +
		"distinct by kind and input; non-trivial unless the input is empty"
	thorough := emit.Thorough()
	rbytes := func(n int) []byte {
		b := make([]byte, n)
		for i := range b {
			b[i] = byte(rng.U64())
		}
		return b
	}

	// ---- String / MarshalJSON
	var hashes [][]byte
	hashes = append(hashes, []byte{}, []byte{0x12}, []byte{0xab}, []byte{0x00}, []byte{0xff}, []byte{0x09, 0x99}, []byte{0x18, 0x44, 0x67, 0x44, 0x07, 0x37, 0x09, 0x55, 0x16, 0x15})
	for i := 0; i < 256; i++ {
		hashes = append(hashes, []byte{byte(i)})
	}
	nr := 150
	if thorough {
		nr = 1500
	}
	for i := 0; i < nr; i++ {
		hashes = append(hashes, rbytes(rng.Intn(41)))
	}
	for a := 0; a < 100; a++ {
		for b := 0; b < 100; b++ {
			if thorough || rng.Intn(40) == 0 || (a%33 == 0 && b%33 == 0) {
				hashes = append(hashes, []byte{byte(a/10<<4 | a%10), byte(b/10<<4 | b%10)})
			}
		}
	}
	for _, h := range hashes {
		hh := header.Hash(h)
		js, err := hh.MarshalJSON()
		if err != nil {
			t.Fatal(err)
		}
		w.Add(fmt.Sprintf("(KStr %s %s %s)", bt(h), bt([]byte(hh.String())), bt(js)),
			map[string]any{"kind": "str", "hash": hex.EncodeToString(h)}, "str/"+string(h), len(h) > 0)
		w.Count("kind", "str")
		w.Count("str_len", fmt.Sprint(len(h)/10*10))
	}

	// ---- UnmarshalJSON
	unm := func(d []byte, why string) {
		var h header.Hash
		err := h.UnmarshalJSON(append([]byte{}, d...))
		term, kind := dresTerm(h, err)
		w.Add(fmt.Sprintf("(KUnm %s %s)", bt(d), term), map[string]any{"kind": "unm", "data": string(d), "why": why}, "unm/"+string(d), len(d) > 0)
		w.Count("kind", "unm")
		w.Count("unm_result", kind)
		w.Count("unm_why", why)
	}
	repl := []byte{'"', 'g', 'G', 'a', 'f', 'A', 'F', '0', '9', '/', ':', '@', '`', 0x00, 0xff, ' ', '\''}
	for _, d := range [][]byte{nil, {'"'}, {'"', '"'}, {'a'}, {'"', 'a'}, {'a', '"'}, {'"', 'a', '"'}, {'"', 'g', '"'}, {'"', 'a', 'g', '"'}, {'"', 'g', 'a', '"'},
		{'"', 'g', 'h', '"'}, {'"', 'a', 'b', 'g', '"'}, {'"', 'a', 'b', 'c', '"'}, {'"', '"', '"'}, {'"', '"', '"', '"'}, []byte(`"aB"`), []byte(`"Ab"`), []byte(`'ab'`), []byte(`ab`), []byte(`"ab`), []byte(`ab"`),
		[]byte(`null`), []byte(`"0x12"`), []byte(` "12"`), []byte(`"12" `), []byte(`"1 2"`), []byte("\"12\"\n")} {
		unm(d, "fixed")
	}
	nv := 6
	if thorough {
		nv = 40
	}
	for i := 0; i < nv; i++ {
		h := header.Hash(rbytes(1 + rng.Intn(12)))
		if i == 0 {
			h = header.Hash{0xab, 0xcd, 0xef, 0x01}
		}
		v, _ := h.MarshalJSON()
		unm(v, "valid")
		unm([]byte(strings.ToLower(string(v))), "lower")
		mixed := []byte(strings.ToLower(string(v)))
		for j := range mixed {
			if rng.Bool() && mixed[j] >= 'a' && mixed[j] <= 'f' {
				mixed[j] -= 32
			}
		}
		unm(mixed, "mixed")
		for p := 0; p < len(v); p++ {
			for _, c := range repl {
				if v[p] == c {
					continue
				}
				d := append([]byte{}, v...)
				d[p] = c
				unm(d, "corrupt")
			}
			unm(v[:p], "prefix")
			unm(v[p:], "suffix")
			d := append(append([]byte{}, v[:p]...), v[p+1:]...)
			unm(d, "drop")
			d = append(append(append([]byte{}, v[:p]...), repl[rng.Intn(len(repl))]), v[p:]...)
			unm(d, "insert")
		}
	}
	for i := 0; i < nr; i++ {
		d := rbytes(rng.Intn(12))
		if rng.Bool() && len(d) >= 2 {
			d[0], d[len(d)-1] = '"', '"'
		}
		unm(d, "random")
		// random strings over the interesting alphabet
		alpha := []byte(`"0189afAFgG/`)
		d = make([]byte, rng.Intn(9))
		for j := range d {
			d[j] = alpha[rng.Intn(len(alpha))]
		}
		unm(append(append([]byte{'"'}, d...), '"'), "alpha")
	}

	// ---- datastore.NewKey
	heights := []uint64{0, 1, 9, 10, 11, 12, 99, 100, 1 << 32, 1<<32 - 1, 1 << 63, 1<<63 - 1, ^uint64(0), ^uint64(0) - 1, 1844674407370955161, 10000000000000000000, 9999999999999999999}
	key := func(s string, why string) {
		k := datastore.NewKey(s).String()
		w.Add(fmt.Sprintf("(KKey %s %s)", bt([]byte(s)), bt([]byte(k))), map[string]any{"kind": "key", "s": s, "why": why}, "key/"+s, len(s) > 0)
		w.Count("kind", "key")
		w.Count("key_why", why)
	}
	for _, s := range []string{"", "head", "tail", "headers", "/", ".", "..", "...", "/.", "/..", "a/..", "a/../..", "a/./b", "a//b", "a/", "/a", "//", "a/b/../c", "..a", "a..", ".a", "a/.../b", "/headers/12", "./a", "../a"} {
		key(s, "fixed")
	}
	for _, n := range heights {
		key(strconv.FormatUint(n, 10), "height")
	}
	for i := 0; i < 40; i++ {
		key(header.Hash(rbytes(rng.Intn(41))).String(), "hash")
	}
	for i := 0; i < nr; i++ {
		alpha := []byte("a1/.")
		d := make([]byte, rng.Intn(10))
		for j := range d {
			d[j] = alpha[rng.Intn(len(alpha))]
		}
		key(string(d), "path")
	}

	// ---- the real Store
	type sc struct {
		prefix *string
		hash   []byte
		height uint64
		tp     tamper
		why    string
	}
	var scs []sc
	str := func(s string) *string { return &s }
	// every boundary height with a 32-byte hash, no tampering
	for _, n := range heights {
		scs = append(scs, sc{nil, rbytes(32), n, tamper{}, "height"})
	}
	// hash lengths 0..40
	for l := 0; l <= 40; l++ {
		if thorough || l <= 12 || l%7 == 0 || l == 32 {
			scs = append(scs, sc{nil, rbytes(l), 1 + rng.U64()%1000, tamper{}, "len"})
		}
	}
	// short all-digit hashes: at their own decimal reading (the collision) and elsewhere
	for _, h := range [][]byte{{0x12}, {0x01}, {0x10}, {0x99}, {0x00}, {0x12, 0x34}, {0x00, 0x01}, {0x18, 0x44, 0x67, 0x44, 0x07, 0x37, 0x09, 0x55, 0x16, 0x15},
		{0x18, 0x44, 0x67, 0x44, 0x07, 0x37, 0x09, 0x55, 0x16, 0x16}, {0x09, 0x99, 0x99, 0x99, 0x99, 0x99, 0x99, 0x99, 0x99, 0x99}, {0x1a}, {0xa1}, {0x12, 0x3b}} {
		hs := header.Hash(h).String()
		if n, err := strconv.ParseUint(hs, 10, 64); err == nil {
			scs = append(scs, sc{nil, h, n, tamper{}, "collide"})
			scs = append(scs, sc{nil, h, n + 1, tamper{}, "near-collide"})
		}
		scs = append(scs, sc{nil, h, 5, tamper{}, "short"})
	}
	nd := 12
	if thorough {
		nd = 100
	}
	for i := 0; i < nd; i++ {
		a, b := rng.Intn(100), rng.Intn(100)
		h := []byte{byte(a/10<<4 | a%10), byte(b/10<<4 | b%10)}
		if rng.Bool() {
			h = h[:1]
		}
		n, _ := strconv.ParseUint(header.Hash(h).String(), 10, 64)
		scs = append(scs, sc{nil, h, n, tamper{}, "collide"})
	}
	// other prefixes
	for _, p := range []string{"", "/", "x", "a/b", "headers", "/headers/"} {
		scs = append(scs, sc{str(p), rbytes(32), 7, tamper{}, "prefix"})
		scs = append(scs, sc{str(p), []byte{}, 7, tamper{}, "prefix-empty-hash"})
		scs = append(scs, sc{str(p), []byte{0x07}, 7, tamper{}, "prefix-collide"})
	}
	// tampered head pointers
	nt := 3
	if thorough {
		nt = 12
	}
	for i := 0; i < nt; i++ {
		h := rbytes([]int{32, 11, 3, 20}[i%4])
		if i%4 == 2 {
			h[0] = 0xab // keep it outside the all-digit region
		}
		n := heights[1+rng.Intn(len(heights)-1)]
		v, _ := header.Hash(h).MarshalJSON()
		add := func(tp tamper, why string) { scs = append(scs, sc{nil, h, n, tp, why}) }
		add(tamper{kind: 1}, "ptr-deleted")
		add(tamper{2, v}, "ptr-same")
		add(tamper{2, []byte(strings.ToLower(string(v)))}, "ptr-lower")
		add(tamper{2, nil}, "ptr-empty")
		add(tamper{2, []byte(`""`)}, "ptr-empty-hash")
		add(tamper{2, []byte(`"`)}, "ptr-one-quote")
		add(tamper{2, v[:len(v)-1]}, "ptr-truncated")
		add(tamper{2, v[1:]}, "ptr-truncated")
		add(tamper{2, v[:len(v)/2]}, "ptr-truncated")
		add(tamper{2, append(append([]byte{}, v[:len(v)-2]...), '"')}, "ptr-odd")
		add(tamper{2, append(append([]byte{}, v[:len(v)-3]...), '"')}, "ptr-shorter-hash")
		add(tamper{2, h}, "ptr-raw-hash")
		add(tamper{2, []byte(header.Hash(h).String())}, "ptr-unquoted")
		other, _ := header.Hash(rbytes(32)).MarshalJSON()
		add(tamper{2, other}, "ptr-dangling")
		// pointing at the height index key of the stored header
		ns := strconv.FormatUint(n, 10)
		if len(ns)%2 == 0 {
			add(tamper{2, []byte(`"` + ns + `"`)}, "ptr-at-height-key")
		} else {
			add(tamper{2, []byte(`"0` + ns + `"`)}, "ptr-near-height-key")
		}
		positions := []int{0, 1, 2, len(v) / 2, len(v) - 2, len(v) - 1}
		if thorough {
			positions = positions[:0]
			for p := range v {
				positions = append(positions, p)
			}
		}
		for _, p := range positions {
			for _, c := range []byte{'"', 'g', 'a', '0', 0x00} {
				if v[p] == c || (!thorough && rng.Intn(2) == 0) {
					continue
				}
				d := append([]byte{}, v...)
				d[p] = c
				add(tamper{2, d}, "ptr-corrupt")
			}
		}
	}
	// pointer at the height key with an even-length height: the deterministic witness
	{
		h := rbytes(32)
		scs = append(scs, sc{nil, h, 12, tamper{2, []byte(`"12"`)}, "ptr-at-height-key"})
		scs = append(scs, sc{nil, h, 1234, tamper{2, []byte(`"1234"`)}, "ptr-at-height-key"})
	}
	for _, c := range scs {
		prefix, bin, log, o := runStore(t, c.prefix, c.hash, c.height, c.tp)
		pterm := bt([]byte(prefix))
		if c.prefix == nil {
			pterm = "default_prefix"
		}
		var lt []string
		for _, kv := range log {
			lt = append(lt, emit.Pair(bt(kv[0]), bt(kv[1])))
		}
		w.Add(fmt.Sprintf("(KStore %s %s %d %s %s %s %s)", pterm, bt(c.hash), c.height, bt(bin), c.tp.term(), emit.List(lt), o.term()),
			map[string]any{"kind": "store", "why": c.why, "prefix": prefix, "hash": hex.EncodeToString(c.hash), "height": c.height, "tamper": c.tp.term(), "obs": o.term()},
			fmt.Sprintf("store/%s/%x/%d/%s", prefix, c.hash, c.height, c.tp.term()), true)
		w.Count("kind", "store")
		w.Count("store_why", c.why)
		w.Count("store_start_err", emit.B(o.startErr))
		w.Count("store_head", emit.B(o.hasHead))
		w.Count("store_by_hash", emit.B(o.byHash))
		w.Count("store_by_height", emit.B(o.byHeight))
	}
	_ = allDigits
	if err := w.Flush(); err != nil {
		t.Fatal(err)
	}
}
