//go:build verif

// Package c13 is the correspondence driver of property C13: the real
// p2p.Exchange (Get / GetByHeight) on a libp2p mocknet inside a synctest
// bubble, against 0..4 trusted peers that are raw stream handlers following a
// byte-level script; the order in which the peers' answers reach the client is
// forced by gates.
package c13

import (
	"bytes"
	"context"
	"encoding/binary"
	"errors"
	"fmt"
	"io"
	"os"
	"os/exec"
	"sort"
	"strings"
	"sync"
	"testing"
	"testing/synctest"
	"time"

	"github.com/ipfs/go-datastore"
	dssync "github.com/ipfs/go-datastore/sync"
	"github.com/libp2p/go-libp2p/core/host"
	"github.com/libp2p/go-libp2p/core/network"
	"github.com/libp2p/go-libp2p/core/peer"
	"github.com/libp2p/go-libp2p/core/protocol"
	libtest "github.com/libp2p/go-libp2p/core/test"
	"github.com/libp2p/go-libp2p/p2p/net/conngater"
	mocknet "github.com/libp2p/go-libp2p/p2p/net/mock"

	"github.com/celestiaorg/go-libp2p-messenger/serde"

	header "github.com/celestiaorg/go-header"
	"github.com/celestiaorg/go-header/p2p"
	p2p_pb "github.com/celestiaorg/go-header/p2p/pb"

	"verifharness/emit"
	"verifharness/vhdr"
)

const (
	networkID  = "test"
	protoID    = protocol.ID("/test/header-ex/v0.0.3")
	reqTimeout = 8 * time.Second
)

// ---------------------------------------------------------------- numbering

// universe numbers hashes and chain ids the way the Coq model expects them:
// hash 0 = empty; chain 0 = ""; chain number = 16*class + variant where two
// strings are in the same class iff they are equal under case folding.
type universe struct {
	ids      map[string]uint64
	classes  map[string]uint64
	variants map[string][]string
}

func newUniverse() *universe {
	return &universe{ids: map[string]uint64{}, classes: map[string]uint64{}, variants: map[string][]string{}}
}

func (u *universe) id(hash []byte) uint64 {
	if len(hash) == 0 {
		return 0
	}
	if v, ok := u.ids[string(hash)]; ok {
		return v
	}
	v := uint64(len(u.ids) + 1)
	u.ids[string(hash)] = v
	return v
}

func (u *universe) chain(s string) uint64 {
	if s == "" {
		return 0
	}
	low := strings.ToLower(s)
	cls, ok := u.classes[low]
	if !ok {
		cls = uint64(len(u.classes) + 1)
		u.classes[low] = cls
	}
	vs := u.variants[low]
	for i, v := range vs {
		if v == s {
			return 16*cls + uint64(i)
		}
	}
	if len(vs) >= 16 {
		panic("too many case variants of one chain id")
	}
	u.variants[low] = append(vs, s)
	return 16*cls + uint64(len(vs))
}

func (u *universe) term(h *vhdr.Header) string {
	if h == nil {
		return "hdr_nil"
	}
	return fmt.Sprintf("(Hdr false %d %d (%d)%%Z %d %d %s)",
		u.chain(h.Chain), h.H, h.T, u.id(h.Hash()), u.id(h.Prev), emit.B(!h.Bad))
}

// ---------------------------------------------------------------- scripts

const (
	finClose = 0
	finReset = 1
)

// answer is what one trusted peer does with the request.
type answer struct {
	kind  string
	bytes []byte // written when the first gate opens
	fin   int    // what happens to the stream when the second gate opens
	late  bool   // "hang": the peer reads the request and stays silent; the client's stream deadline ends the read
	fail  int    // 0 reachable; 1 no handler for the protocol; 2 unknown peer id
}

func frame(status int32, body []byte) []byte {
	resp := &p2p_pb.HeaderResponse{Body: body, StatusCode: p2p_pb.StatusCode(status)}
	var buf bytes.Buffer
	if _, err := serde.Write(&buf, resp); err != nil {
		panic(err)
	}
	return buf.Bytes()
}

func enc(h *vhdr.Header) []byte {
	b, err := h.MarshalBinary()
	if err != nil {
		panic(err)
	}
	return b
}

// maxFrame builds a well-formed frame of exactly `size` payload bytes: the
// header in field 1, status OK, and padding in an unknown protobuf field.
func sizedFrame(h *vhdr.Header, size int) []byte {
	base := &p2p_pb.HeaderResponse{Body: enc(h), StatusCode: p2p_pb.StatusCode_OK}
	pb, err := base.Marshal()
	if err != nil {
		panic(err)
	}
	// unknown field 15, wire type 2 (length-delimited): tag byte 0x7a
	pad := size - len(pb) - 1
	// find a length whose varint size fits
	for l := pad; l >= 0; l-- {
		v := binary.PutUvarint(make([]byte, 10), uint64(l))
		if 1+v+l+len(pb) == size {
			out := append([]byte{}, pb...)
			out = append(out, 0x7a)
			lb := make([]byte, 10)
			n := binary.PutUvarint(lb, uint64(l))
			out = append(out, lb[:n]...)
			out = append(out, make([]byte, l)...)
			pre := make([]byte, 10)
			m := binary.PutUvarint(pre, uint64(len(out)))
			return append(pre[:m], out...)
		}
	}
	panic("sizedFrame")
}

// descr of a parsed stream for the model
type frameD struct {
	status int32
	body   []byte
}

// parse splits the scripted bytes into the well-formed frames a serde reader
// obtains from them and the way the stream ends for that reader (framing and
// protobuf decoding are outside the model; they are exercised, and this
// pre-parse uses the same serde.Read the client uses).
func parse(a answer) (frames []frameD, endErr bool) {
	r := bytes.NewReader(a.bytes)
	for len(frames) < 3 {
		resp := new(p2p_pb.HeaderResponse)
		_, err := serde.Read(r, resp)
		if err == nil {
			frames = append(frames, frameD{int32(resp.StatusCode), resp.Body})
			continue
		}
		if errors.Is(err, io.EOF) {
			// the bytes ran out exactly at a point where the reader reports EOF:
			// a close is a clean end, a reset is an error
			return frames, a.fin == finReset
		}
		return frames, true
	}
	return frames, a.fin == finReset
}

func (u *universe) bodyTerm(b []byte) string {
	h := new(vhdr.Header)
	var err error
	panicked := false
	func() {
		defer func() {
			if r := recover(); r != nil {
				panicked = true
			}
		}()
		err = h.UnmarshalBinary(b)
	}()
	switch {
	case panicked:
		return "DPanic"
	case err != nil:
		return "DErr"
	case h.VPanic:
		// the body decodes; Validate() on the decoded header panics (vhdr wire flag 2)
		return "DValPanic"
	default:
		return "(DHdr " + u.term(h) + ")"
	}
}

func (u *universe) streamTerm(a answer) string {
	if a.fail != 0 {
		return "SFail"
	}
	fr, endErr := parse(a)
	fs := make([]string, len(fr))
	for i, f := range fr {
		fs[i] = fmt.Sprintf("(Frame (%d)%%Z %s)", f.status, u.bodyTerm(f.body))
	}
	e := "EndEOF"
	if endErr {
		e = "EndErr"
	}
	return fmt.Sprintf("(SData %s %s)", emit.List(fs), e)
}

// ---------------------------------------------------------------- deadlines

// mocknet streams ignore SetDeadline, so on plain mocknet a silent peer blocks
// the client's read forever and the client never sees what every real
// transport (yamux, QUIC) shows it when the deadline that sendMessage puts on
// the stream passes: a read error of the timeout class. dlHost wraps the
// client's host so that the streams it opens honour read deadlines in the
// bubble's virtual time and fail with os.ErrDeadlineExceeded (a net.Error with
// Timeout() == true), like yamux's "i/o deadline reached".
type dlHost struct{ host.Host }

func (h dlHost) NewStream(ctx context.Context, p peer.ID, pids ...protocol.ID) (network.Stream, error) {
	s, err := h.Host.NewStream(ctx, p, pids...)
	if err != nil {
		return nil, err
	}
	return &dlStream{Stream: s}, nil
}

type readRes struct {
	data []byte
	err  error
}

// dlStream is used by one goroutine at a time (sendMessage).
type dlStream struct {
	network.Stream
	deadline time.Time
	pending  chan readRes // an underlying Read in flight
	left     []byte       // data received but not yet handed out
	err      error        // error that came with the last data
}

// The deadline sendMessage sets is the request context's; when that is the
// caller's own deadline both expire at the same instant and which of the two the
// client reports is a scheduling race (an error either way). The wrapper lets
// the transport notice it a moment later, so that the order of the events is
// the one the scenario names.
const deadlineSlack = 10 * time.Millisecond

func (s *dlStream) SetDeadline(t time.Time) error {
	s.deadline = t
	if !t.IsZero() {
		s.deadline = t.Add(deadlineSlack)
	}
	return nil
}
func (s *dlStream) SetReadDeadline(t time.Time) error { return s.SetDeadline(t) }

func (s *dlStream) Read(b []byte) (int, error) {
	if len(b) == 0 {
		return 0, nil
	}
	if len(s.left) > 0 {
		n := copy(b, s.left)
		s.left = s.left[n:]
		return n, nil
	}
	if s.err != nil {
		err := s.err
		s.err = nil
		return 0, err
	}
	if s.pending == nil {
		ch := make(chan readRes, 1)
		n := len(b)
		go func() {
			buf := make([]byte, n)
			k, err := s.Stream.Read(buf)
			ch <- readRes{buf[:k], err}
		}()
		s.pending = ch
	}
	var expired <-chan time.Time
	if !s.deadline.IsZero() {
		d := time.Until(s.deadline)
		if d <= 0 {
			return 0, os.ErrDeadlineExceeded
		}
		t := time.NewTimer(d)
		defer t.Stop()
		expired = t.C
	}
	select {
	case r := <-s.pending:
		s.pending = nil
		n := copy(b, r.data)
		s.left = r.data[n:]
		if n > 0 {
			s.err = r.err
			return n, nil
		}
		return 0, r.err
	case <-expired:
		// the reader goroutine ends when the caller resets the stream (sendMessage does)
		return 0, os.ErrDeadlineExceeded
	}
}

// ---------------------------------------------------------------- scenario

type evKind int

const (
	evArrive evKind = iota
	evCtxDeadline
	evCtxCancel
	evStop
)

type event struct {
	kind evKind
	peer int
}

type scenario struct {
	get      bool
	hash     []byte
	height   uint64
	want     string
	answers  []answer // one per trusted peer
	events   []event  // planned order
	class    string
	nontriv  bool
	ctxShort bool // the caller's deadline is before RequestTimeout
}

// withMetrics: the scenarios run while it is set use an Exchange built with p2p.WithMetrics()
var withMetrics bool

type reqSeen struct {
	isHash bool
	hash   string
	origin uint64
	amount uint64
}

type outcome struct {
	h        *vhdr.Header
	err      error
	panicked bool
	blocked  bool
}

// run executes one scenario against the real Exchange inside a fresh bubble.
func run(t *testing.T, sc *scenario) (out outcome, seen []reqSeen) {
	synctest.Test(t, func(t *testing.T) {
		n := len(sc.answers)
		net, err := mocknet.FullMeshConnected(n + 1)
		if err != nil {
			t.Fatal(err)
		}
		hosts := net.Hosts()
		client := hosts[0]
		gate1 := make([]chan struct{}, n)
		gate2 := make([]chan struct{}, n)
		var mu sync.Mutex
		var handlers sync.WaitGroup
		trusted := make([]peer.ID, n)
		for i := 0; i < n; i++ {
			i := i
			a := sc.answers[i]
			gate1[i], gate2[i] = make(chan struct{}), make(chan struct{})
			trusted[i] = hosts[i+1].ID()
			switch a.fail {
			case 1:
				continue // no handler: protocol negotiation fails
			case 2:
				pid, err := libtest.RandPeerID()
				if err != nil {
					t.Fatal(err)
				}
				trusted[i] = pid
				continue
			}
			g1, g2 := gate1[i], gate2[i]
			hosts[i+1].SetStreamHandler(protoID, func(s network.Stream) {
				handlers.Add(1)
				defer handlers.Done()
				req := new(p2p_pb.HeaderRequest)
				if _, err := serde.Read(s, req); err == nil {
					rs := reqSeen{amount: req.Amount}
					switch d := req.Data.(type) {
					case *p2p_pb.HeaderRequest_Hash:
						rs.isHash, rs.hash = true, string(d.Hash)
					case *p2p_pb.HeaderRequest_Origin:
						rs.origin = d.Origin
					default:
						// a nil / empty hash is not put on the wire at all: the request carries no data
						rs.isHash = true
					}
					mu.Lock()
					seen = append(seen, rs)
					mu.Unlock()
				}
				<-g1
				if len(a.bytes) > 0 {
					s.Write(a.bytes) //nolint:errcheck
				}
				<-g2
				if a.fin == finReset {
					s.Reset() //nolint:errcheck
				} else {
					s.Close() //nolint:errcheck
				}
			})
		}
		gater, err := conngater.NewBasicConnectionGater(dssync.MutexWrap(datastore.NewMapDatastore()))
		if err != nil {
			t.Fatal(err)
		}
		exOpts := []p2p.Option[p2p.ClientParameters]{
			p2p.WithNetworkID[p2p.ClientParameters](networkID),
			p2p.WithChainID(sc.want),
			p2p.WithRequestTimeout[p2p.ClientParameters](reqTimeout),
		}
		if withMetrics {
			// the one extra dimension of the second follow-up: the Exchange's metrics are enabled
			exOpts = append(exOpts, p2p.WithMetrics[p2p.ClientParameters]())
		}
		ex, err := p2p.NewExchange[*vhdr.Header](dlHost{client}, trusted, gater, exOpts...)
		if err != nil {
			t.Fatal(err)
		}
		if err := ex.Start(context.Background()); err != nil {
			t.Fatal(err)
		}
		synctest.Wait()

		ctxTimeout := 10 * reqTimeout
		if sc.ctxShort {
			ctxTimeout = reqTimeout / 2
		}
		ctx, cancel := context.WithTimeout(context.Background(), ctxTimeout)
		start := time.Now()
		done := make(chan outcome, 1)
		go func() {
			var o outcome
			defer func() {
				if r := recover(); r != nil {
					o.panicked = true
				}
				done <- o
			}()
			if sc.get {
				o.h, o.err = ex.Get(ctx, sc.hash)
			} else {
				o.h, o.err = ex.GetByHeight(ctx, sc.height)
			}
		}()
		synctest.Wait()
		stopped := false
		finished := false
		poll := func() bool {
			if finished {
				return true
			}
			select {
			case out = <-done:
				finished = true
			default:
			}
			return finished
		}
		for _, ev := range sc.events {
			if poll() {
				break
			}
			switch ev.kind {
			case evArrive:
				a := sc.answers[ev.peer]
				if a.fail != 0 {
					continue // arrived by itself, before every gated answer
				}
				if a.late {
					// a hanging peer stays silent: the client gives up by itself when the
					// deadline it put on the stream (the request timeout) passes
					if el := time.Since(start); el < reqTimeout+time.Second {
						time.Sleep(reqTimeout + time.Second - el)
						synctest.Wait()
					}
					continue // its handler is released at the end of the scenario
				}
				close(gate1[ev.peer])
				synctest.Wait()
				close(gate2[ev.peer])
				synctest.Wait()
				gate1[ev.peer], gate2[ev.peer] = nil, nil
			case evCtxDeadline:
				if el := time.Since(start); el < ctxTimeout {
					time.Sleep(ctxTimeout - el + time.Millisecond)
				}
				synctest.Wait()
			case evCtxCancel:
				cancel()
				synctest.Wait()
			case evStop:
				ex.Stop(context.Background()) //nolint:errcheck
				stopped = true
				synctest.Wait()
			}
		}
		synctest.Wait()
		if !poll() {
			// the call has not returned although every planned event was delivered
			out.blocked = true
			cancel()
			synctest.Wait()
			o := <-done
			out.panicked = o.panicked
		}
		// release everything that is still parked, then shut down
		for i := 0; i < n; i++ {
			if gate1[i] != nil {
				close(gate1[i])
				close(gate2[i])
			}
		}
		cancel()
		synctest.Wait()
		if !stopped {
			sctx, scancel := context.WithTimeout(context.Background(), time.Minute)
			ex.Stop(sctx) //nolint:errcheck
			scancel()
		}
		handlers.Wait()
		net.Close() //nolint:errcheck
		synctest.Wait()
	})
	return out, seen
}

func obsErr(err error) string {
	switch {
	case errors.Is(err, header.ErrNotFound):
		return "XNotFound"
	case errors.Is(err, vhdr.ErrDecode):
		return "XDecode"
	case errors.Is(err, vhdr.ErrInvalid):
		return "XInvalid"
	case errors.Is(err, context.DeadlineExceeded), errors.Is(err, context.Canceled):
		return "XCtx"
	default:
		return "XOther"
	}
}

func (u *universe) obsTerm(o outcome) string {
	switch {
	case o.panicked:
		return "OPanic"
	case o.blocked:
		return "OBlocks"
	case o.h == nil && o.err == nil:
		return "OZeroNil"
	case o.h != nil && o.err != nil:
		return "ORetErr"
	case o.err != nil:
		return "(OErr " + obsErr(o.err) + ")"
	default:
		return "(ORet " + u.term(o.h) + ")"
	}
}

func (u *universe) caseTerm(sc *scenario, o outcome, seen []reqSeen) string {
	op := fmt.Sprintf("(OpByHeight %d)", sc.height)
	if sc.get {
		op = fmt.Sprintf("(OpGet %d)", u.id(sc.hash))
	}
	evs := make([]string, 0, len(sc.events))
	for _, ev := range sc.events {
		switch ev.kind {
		case evArrive:
			evs = append(evs, "(Arrive "+u.streamTerm(sc.answers[ev.peer])+")")
		case evCtxDeadline, evCtxCancel:
			evs = append(evs, "CtxDone")
		case evStop:
			evs = append(evs, "ExStopped")
		}
	}
	rs := map[string]bool{}
	for _, r := range seen {
		if r.isHash {
			rs[fmt.Sprintf("(ReqHash %d %d)", u.id([]byte(r.hash)), r.amount)] = true
		} else {
			rs[fmt.Sprintf("(ReqOrigin %d %d)", r.origin, r.amount)] = true
		}
	}
	reqs := make([]string, 0, len(rs))
	for k := range rs {
		reqs = append(reqs, k)
	}
	sort.Strings(reqs)
	return fmt.Sprintf("Case13 %s %d %s %s %s %s", op, u.chain(sc.want), emit.Nat(len(sc.answers)),
		emit.List(evs), emit.List(reqs), u.obsTerm(o))
}

// ---------------------------------------------------------------- generators

type world struct {
	T, U, V, W, C, E, X, XB *vhdr.Header
	kinds                []string
	mk                   func(kind string, rng *emit.Rand) answer
}

func newWorld() *world {
	w := &world{}
	prev := bytes.Repeat([]byte{7}, 32)
	w.T = &vhdr.Header{Chain: "chainA", H: 7, T: 1000, Prev: prev, Nonce: 1}
	w.U = &vhdr.Header{Chain: "chainA", H: 7, T: 1000, Prev: prev, Nonce: 2}
	w.V = &vhdr.Header{Chain: "chainA", H: 9, T: 1002, Prev: prev, Nonce: 3}
	w.W = &vhdr.Header{Chain: "chainB", H: 7, T: 1000, Prev: prev, Nonce: 1}
	w.C = &vhdr.Header{Chain: "CHAINa", H: 7, T: 1000, Prev: prev, Nonce: 1}
	w.E = &vhdr.Header{Chain: "", H: 7, T: 1000, Prev: prev, Nonce: 1}
	w.X = &vhdr.Header{Chain: "chainA", H: 7, T: 1000, Prev: prev, Nonce: 4, Bad: true}
	w.XB = &vhdr.Header{Chain: "chainB", H: 7, T: 1000, Prev: prev, Nonce: 5, Bad: true}
	ok := int32(p2p_pb.StatusCode_OK)
	nf := int32(p2p_pb.StatusCode_NOT_FOUND)
	w.kinds = []string{
		"T", "U", "V", "W", "C", "E", "X", "XB", "T_reset", "T_garbage", "T_then_U", "U_then_T",
		"notfound", "notfound_body", "status0", "status3", "status_neg", "status_big",
		"empty", "reset", "truncvarint", "truncframe", "lenonly", "zeroframe", "ok_emptybody",
		"oversize", "pbgarbage", "garbagebody", "random", "hang", "nohandler", "unknownpeer",
		"panicbody", "panic_notfound", "T_then_panic", "panic_then_T",
		"valpanic", "valpanic_notfound", "T_then_valpanic", "valpanic_then_T",
	}
	// P: the requested header, except that its Validate() panics
	vp := &vhdr.Header{Chain: "chainA", H: 7, T: 1000, Prev: prev, Nonce: 1, VPanic: true}
	w.mk = func(kind string, rng *emit.Rand) answer {
		a := answer{kind: kind}
		rnd := func(n int) []byte {
			b := make([]byte, n)
			for i := range b {
				b[i] = byte(rng.U64())
			}
			return b
		}
		switch kind {
		case "T":
			a.bytes = frame(ok, enc(w.T))
		case "U":
			a.bytes = frame(ok, enc(w.U))
		case "V":
			a.bytes = frame(ok, enc(w.V))
		case "W":
			a.bytes = frame(ok, enc(w.W))
		case "C":
			a.bytes = frame(ok, enc(w.C))
		case "E":
			a.bytes = frame(ok, enc(w.E))
		case "X":
			a.bytes = frame(ok, enc(w.X))
		case "XB":
			a.bytes = frame(ok, enc(w.XB))
		case "T_reset":
			a.bytes, a.fin = frame(ok, enc(w.T)), finReset
		case "T_garbage":
			a.bytes = append(frame(ok, enc(w.T)), rnd(1+rng.Intn(40))...)
		case "T_then_U":
			a.bytes = append(frame(ok, enc(w.T)), frame(ok, enc(w.U))...)
		case "U_then_T":
			a.bytes = append(frame(ok, enc(w.U)), frame(ok, enc(w.T))...)
		case "notfound":
			a.bytes = frame(nf, nil)
		case "notfound_body":
			a.bytes = frame(nf, enc(w.T))
		case "status0":
			a.bytes = frame(0, enc(w.T))
		case "status3":
			a.bytes = frame(3, enc(w.T))
		case "status_neg":
			a.bytes = frame(-1, enc(w.T))
		case "status_big":
			a.bytes = frame(1<<31-1, enc(w.T))
		case "empty":
		case "reset":
			a.fin = finReset
		case "truncvarint":
			a.bytes = []byte{0x80}
		case "truncframe":
			f := frame(ok, enc(w.T))
			a.bytes = f[:2+rng.Intn(len(f)-3)]
		case "lenonly":
			a.bytes = []byte{0x20}
		case "zeroframe":
			a.bytes = []byte{0x00}
		case "ok_emptybody":
			a.bytes = frame(ok, nil)
		case "oversize":
			b := make([]byte, 10)
			n := binary.PutUvarint(b, serde.MaxMessageSize+1)
			a.bytes = append(b[:n], rnd(64)...)
		case "maxsize":
			a.bytes = sizedFrame(w.T, int(serde.MaxMessageSize))
		case "oversize_full":
			a.bytes = sizedFrame(w.T, int(serde.MaxMessageSize)+1)
		case "pbgarbage":
			// a well-formed length prefix around bytes that are not a protobuf message
			a.bytes = []byte{0x03, 0xff, 0xff, 0xff}
		case "garbagebody":
			a.bytes = frame(ok, rnd(1+rng.Intn(60)))
		case "random":
			a.bytes = rnd(1 + rng.Intn(64))
			if rng.Bool() {
				a.fin = finReset
			}
		case "panicbody":
			// vhdr's UnmarshalBinary panics on this body (scripted decode panic)
			a.bytes = frame(ok, append([]byte{vhdr.PanicByte}, rnd(rng.Intn(8))...))
		case "valpanic":
			// the body decodes, Validate() on the decoded header panics (scripted)
			a.bytes = frame(ok, enc(vp))
		case "valpanic_notfound":
			a.bytes = frame(nf, enc(vp))
		case "T_then_valpanic":
			a.bytes = append(frame(ok, enc(w.T)), frame(ok, enc(vp))...)
		case "valpanic_then_T":
			a.bytes = append(frame(ok, enc(vp)), frame(ok, enc(w.T))...)
		case "panic_notfound":
			// the status is checked before the body is decoded: no panic, NOT_FOUND
			a.bytes = frame(nf, []byte{vhdr.PanicByte})
		case "T_then_panic":
			a.bytes = append(frame(ok, enc(w.T)), frame(ok, []byte{vhdr.PanicByte})...)
		case "panic_then_T":
			a.bytes = append(frame(ok, []byte{vhdr.PanicByte, 1}), frame(ok, enc(w.T))...)
		case "hang":
			// silent until the scenario is over; only then the handler resets the stream
			a.late, a.fin = true, finReset
		case "nohandler":
			a.fail = 1
		case "unknownpeer":
			a.fail = 2
		default:
			panic("unknown kind " + kind)
		}
		return a
	}
	return w
}

type target struct {
	name   string
	get    bool
	hash   []byte
	height uint64
}

func (w *world) targets() []target {
	return []target{
		{"get_T", true, w.T.Hash(), 0},
		{"byheight_7", false, nil, 7},
		{"get_C", true, w.C.Hash(), 0},
		{"get_X", true, w.X.Hash(), 0},
		{"get_W", true, w.W.Hash(), 0},
		{"get_E", true, w.E.Hash(), 0},
		{"get_unknown", true, bytes.Repeat([]byte{0xab}, 32), 0},
		{"get_empty", true, nil, 0},
		{"byheight_0", false, nil, 0},
		{"byheight_max", false, nil, ^uint64(0)},
	}
}

// plan orders the arrivals: unreachable peers first (their failure reaches the
// client before any gate opens), then the prompt peers in the given order, then
// the hanging peers (they are only released after the request timeout); an
// optional context / stop event is inserted before the gated arrival number
// `cut` (cut = number of gated arrivals: after all of them; -1: none).
// short reports whether the caller's deadline must lie before RequestTimeout.
func plan(answers []answer, order []int, cutKind evKind, cut int) (evs []event, shortOK bool) {
	for i, a := range answers {
		if a.fail != 0 {
			evs = append(evs, event{evArrive, i})
		}
	}
	var prompt, late []int
	for _, i := range order {
		a := answers[i]
		switch {
		case a.fail != 0:
		case a.late:
			late = append(late, i)
		default:
			prompt = append(prompt, i)
		}
	}
	gated := append(append([]int{}, prompt...), late...)
	// all silent peers run into the same stream deadline at the same instant, so a
	// context / stop event cannot be placed between them: it goes before the first
	// silent peer or after the last one
	if cut > len(prompt) && cut < len(gated) {
		cut = len(prompt)
	}
	for k, i := range gated {
		if k == cut {
			evs = append(evs, event{cutKind, -1})
		}
		evs = append(evs, event{evArrive, i})
	}
	if cut == len(gated) {
		evs = append(evs, event{cutKind, -1})
	}
	// a deadline of the caller that is to be observed before some peer's answer must
	// lie before the request timeout (otherwise the pending peers time out first)
	return evs, cutKind == evCtxDeadline && cut >= 0 && cut <= len(prompt)
}

func perms(n int) [][]int {
	if n == 0 {
		return [][]int{{}}
	}
	var out [][]int
	var rec func(cur []int, used []bool)
	rec = func(cur []int, used []bool) {
		if len(cur) == n {
			out = append(out, append([]int{}, cur...))
			return
		}
		for i := 0; i < n; i++ {
			if !used[i] {
				used[i] = true
				rec(append(cur, i), used)
				used[i] = false
			}
		}
	}
	rec(nil, make([]bool, n))
	return out
}

// probeCodecPanic runs the scripted decode panic (one trusted peer answering
// Get with a status-OK frame whose body makes UnmarshalBinary panic) in a
// child process and reports whether the client process survives it. A panic on
// a goroutine of performRequest cannot be recovered by the caller, so this is
// the only way to observe it without losing the whole run.
func probeCodecPanic(t *testing.T) (survives bool) { return probePanicChild(t, "1") }

// probePanicChild: "1" = a body on which UnmarshalBinary panics, "val" = a body on whose header Validate panics
func probePanicChild(t *testing.T, which string) (survives bool) {
	cmd := exec.Command(os.Args[0], "-test.run=^TestC13CodecPanicGap$", "-test.timeout=120s")
	cmd.Env = append(os.Environ(), "VERIF_C13_PANIC_CHILD="+which)
	out, err := cmd.CombinedOutput()
	switch {
	case strings.Contains(string(out), "C13-CHILD-SURVIVED"):
		return true
	case err != nil && (strings.Contains(string(out), "scripted decode panic") || strings.Contains(string(out), vhdr.ValidatePanicMsg)):
		t.Logf("the client process is killed by a response body on which the codec panics:\n%s", firstLines(string(out), 14))
		return false
	default:
		t.Fatalf("inconclusive codec-panic probe (%v):\n%s", err, out)
		return false
	}
}

func firstLines(s string, n int) string {
	l := strings.SplitN(s, "\n", n+1)
	if len(l) > n {
		l = l[:n]
	}
	return strings.Join(l, "\n")
}

// decodesPanicBody: would the client decode a panicking body of this answer
// (first frame, status OK)?
func decodesPanicBody(a answer) bool {
	if a.fail != 0 {
		return false
	}
	fr, _ := parse(a)
	return len(fr) > 0 && fr[0].status == int32(p2p_pb.StatusCode_OK) && len(fr[0].body) > 0 && fr[0].body[0] == vhdr.PanicByte
}

// validatePanics: would the client call Validate on a header of this answer on which it panics
// (first frame, status OK, decodes, wire flag 2)?
func validatePanics(a answer) bool {
	if a.fail != 0 {
		return false
	}
	fr, _ := parse(a)
	if len(fr) == 0 || fr[0].status != int32(p2p_pb.StatusCode_OK) || len(fr[0].body) == 0 || fr[0].body[0] == vhdr.PanicByte {
		return false
	}
	h := new(vhdr.Header)
	return h.UnmarshalBinary(fr[0].body) == nil && h.VPanic
}

func valPanicAnswer() answer {
	vp := &vhdr.Header{Chain: "chainA", H: 7, T: 1000, Prev: bytes.Repeat([]byte{7}, 32), Nonce: 1, VPanic: true}
	return answer{kind: "valpanic", bytes: frame(int32(p2p_pb.StatusCode_OK), enc(vp))}
}

func TestC13(t *testing.T) {
	rng := emit.NewRand(emit.Seed())
	wr := emit.NewWriter("Model.Request Oracle.C13", "case13", "chk13")
	wr.Rule = "real p2p.Exchange.Get/GetByHeight on libp2p mocknet in synctest against 0..4 trusted scripted peers; " +
		"each peer's answer drawn from a byte-level grammar (valid / other valid header / other height / wrong chain / case-variant chain / " +
		"Validate-failing / valid then reset / valid then garbage / two frames / NOT_FOUND with and without body / unknown status codes / " +
		"empty stream / reset / truncated varint / truncated frame / length prefix only / zero-length frame / empty body / oversized length / " +
		"1 MiB boundary frames / protobuf garbage / garbage body / body on which the codec panics (alone, under NOT_FOUND, before and after a valid frame) / body that decodes to a header on which Validate() panics (the same four positions) / random bytes / silent until the client's stream deadline (request timeout) expires with a timeout-class read error / no protocol handler / unknown peer); " +
		"arrival order forced by gates (all orders for <= 3 peers); caller deadline, cancel and Exchange.Stop inserted at every position; " +
		"distinct by (target, chain config, multiset of answer kinds in arrival order, cut); non-trivial when some peer answers validly"
	u := newUniverse()
	w := newWorld()
	thorough := emit.Thorough()
	t0 := time.Now()

	// a codec panic that kills the process cannot be observed in-process: probe it once
	// in a child; if the client does not survive, report that scenario as the observed
	// panic and keep the other panic-decoding scenarios out of this process
	panicSafe := probeCodecPanic(t)
	wr.Extra["client_survives_codec_panic"] = panicSafe
	if !panicSafe {
		a := answer{kind: "panicbody", bytes: frame(int32(p2p_pb.StatusCode_OK), []byte{vhdr.PanicByte, 1, 2, 3})}
		sc := &scenario{get: true, hash: w.T.Hash(), want: "chainA", answers: []answer{a}, events: []event{{evArrive, 0}}}
		o := outcome{panicked: true}
		wr.Add(u.caseTerm(sc, o, nil), map[string]any{"target": "get_T", "want": "chainA", "events": []string{"panicbody"},
			"obs": "OPanic", "tag": "probe", "note": "observed in a child process: the whole client process died"}, "probe/panicbody", false)
		wr.Count("outcome", "process killed by codec panic")
	}
	// the same for a body that decodes to a header on which Validate() panics
	valPanicSafe := probePanicChild(t, "val")
	wr.Extra["client_survives_validate_panic"] = valPanicSafe
	if !valPanicSafe {
		sc := &scenario{get: true, hash: w.T.Hash(), want: "chainA", answers: []answer{valPanicAnswer()}, events: []event{{evArrive, 0}}}
		o := outcome{panicked: true}
		wr.Add(u.caseTerm(sc, o, nil), map[string]any{"target": "get_T", "want": "chainA", "events": []string{"valpanic"},
			"obs": "OPanic", "tag": "probe", "note": "observed in a child process: the whole client process died (Validate panic)"}, "probe/valpanic", false)
		wr.Count("outcome", "process killed by validate panic")
	}
	one := func(tg target, want string, answers []answer, order []int, cutKind evKind, cut int, tag string) {
		if !panicSafe {
			for _, a := range answers {
				if decodesPanicBody(a) {
					wr.Count("skipped", "would kill the driver: "+a.kind)
					return
				}
			}
		}
		if !valPanicSafe {
			for _, a := range answers {
				if validatePanics(a) {
					wr.Count("skipped", "would kill the driver: "+a.kind)
					return
				}
			}
		}
		evs, shortOK := plan(answers, order, cutKind, cut)
		short := shortOK
		sc := &scenario{get: tg.get, hash: tg.hash, height: tg.height, want: want, answers: answers, events: evs, ctxShort: short}
		o, seen := run(t, sc)
		ks := make([]string, 0, len(evs))
		for _, ev := range evs {
			switch ev.kind {
			case evArrive:
				ks = append(ks, answers[ev.peer].kind)
			case evCtxDeadline:
				ks = append(ks, "<deadline>")
			case evCtxCancel:
				ks = append(ks, "<cancel>")
			case evStop:
				ks = append(ks, "<stop>")
			}
		}
		class := fmt.Sprintf("%s/%q/%s", tg.name, want, strings.Join(ks, ","))
		if withMetrics {
			class += "/metrics"
		}
		wr.Count("exchange metrics", fmt.Sprint(withMetrics))
		obs := u.obsTerm(o)
		nontriv := o.h != nil && o.err == nil
		wr.Add(u.caseTerm(sc, o, seen), map[string]any{"target": tg.name, "want": want, "events": ks, "obs": obs, "tag": tag}, class, nontriv)
		wr.Count("target", tg.name)
		wr.Count("peers", fmt.Sprint(len(answers)))
		wr.Count("want", fmt.Sprintf("%q", want))
		wr.Count("generator", tag)
		for _, a := range answers {
			wr.Count("answer_kind", a.kind)
		}
		switch {
		case o.panicked:
			wr.Count("outcome", "panic")
		case o.blocked:
			wr.Count("outcome", "blocks")
		case o.err != nil:
			wr.Count("outcome", "error:"+obsErr(o.err))
		default:
			wr.Count("outcome", "header")
		}
	}
	id := func(n int) []int {
		o := make([]int, n)
		for i := range o {
			o[i] = i
		}
		return o
	}
	mk := func(kinds ...string) []answer {
		as := make([]answer, len(kinds))
		for i, k := range kinds {
			as[i] = w.mk(k, rng)
		}
		return as
	}
	targets := w.targets()

	// 0 peers
	for _, tg := range targets[:2] {
		one(tg, "chainA", nil, nil, evArrive, -1, "nopeers")
	}
	// 1 peer: every answer kind x every target x both chain configurations
	for _, tg := range targets {
		for _, want := range []string{"chainA", ""} {
			for _, k := range w.kinds {
				if !thorough && want == "" && tg.name != "get_T" && tg.name != "byheight_7" && tg.name != "get_W" {
					continue
				}
				if !thorough && (tg.name == "get_unknown" || tg.name == "get_empty" || tg.name == "byheight_max") && k != "T" && k != "U" && rng.Intn(3) != 0 {
					continue
				}
				one(tg, want, mk(k), id(1), evArrive, -1, "single")
			}
		}
	}
	// a slice of the above with the Exchange's metrics enabled (p2p.WithMetrics): every answer kind alone,
	// and two peers with the caller's cancel / deadline / Exchange.Stop at every position
	withMetrics = true
	for _, tg := range targets[:2] {
		for _, k := range w.kinds {
			one(tg, "chainA", mk(k), id(1), evArrive, -1, "metrics")
		}
		for _, ck := range []evKind{evCtxDeadline, evCtxCancel, evStop} {
			for cut := 0; cut <= 2; cut++ {
				one(tg, "chainA", mk("notfound", "T"), id(2), ck, cut, "metrics")
			}
		}
	}
	one(targets[0], "chainA", nil, nil, evArrive, -1, "metrics")
	withMetrics = false
	// every trusted peer stays silent until the client's own stream deadline (the
	// request timeout) ends the read, while the caller's context is still alive;
	// and silent peers mixed with peers that answer with an error
	for _, tg := range targets[:2] {
		for n := 2; n <= 4; n++ {
			ks := make([]string, n)
			for i := range ks {
				ks[i] = "hang"
			}
			one(tg, "chainA", mk(ks...), id(n), evArrive, -1, "allhang")
			ks[0] = "notfound"
			one(tg, "chainA", mk(ks...), id(n), evArrive, -1, "allhang")
			ks[0] = "X"
			one(tg, "", mk(ks...), id(n), evArrive, -1, "allhang")
		}
	}
	// the 1 MiB boundary
	for _, k := range []string{"maxsize", "oversize_full"} {
		one(targets[0], "chainA", mk(k), id(1), evArrive, -1, "boundary")
		if thorough {
			one(targets[1], "chainA", mk("hang", k), []int{1, 0}, evArrive, -1, "boundary")
		}
	}
	// configured chain id in another case than the headers'
	for _, want := range []string{"CHAINA", "chaina", "chainB", "ChainB"} {
		for _, k := range []string{"T", "C", "W"} {
			one(targets[1], want, mk(k), id(1), evArrive, -1, "chaincase")
			one(targets[0], want, mk(k), id(1), evArrive, -1, "chaincase")
		}
	}
	// 2 peers: pairs of answer kinds in both arrival orders
	pairKinds := w.kinds
	for _, tg := range targets[:2] {
		for i, k1 := range pairKinds {
			for j, k2 := range pairKinds {
				if j < i {
					continue
				}
				if !thorough && rng.Intn(100) >= 35 {
					continue
				}
				as := mk(k1, k2)
				one(tg, "chainA", as, []int{0, 1}, evArrive, -1, "pair")
				if k1 != k2 {
					one(tg, "chainA", as, []int{1, 0}, evArrive, -1, "pair")
				}
			}
		}
	}
	// 3 peers, thorough: every ordered triple of representative answer kinds
	// (the index order is the arrival order, so every arrival order is covered)
	if thorough {
		rep := []string{"T", "U", "W", "C", "X", "notfound", "status3", "empty", "truncframe", "panicbody", "valpanic", "hang", "nohandler"}
		for _, tg := range targets[:2] {
			for _, k1 := range rep {
				for _, k2 := range rep {
					for _, k3 := range rep {
						one(tg, "chainA", mk(k1, k2, k3), id(3), evArrive, -1, "triple")
					}
				}
			}
		}
		wr.Exhaustive = true
		wr.Extra["exhaustive_subdomains"] = "1 peer: all answer kinds x all targets x {chain configured, not configured}; " +
			"2 peers: all ordered pairs of answer kinds x {Get, GetByHeight}; 3 peers: all ordered triples of 12 representative kinds x {Get, GetByHeight}"
	}
	// context end / stop at every position, 1..3 peers
	cutN := 60
	if thorough {
		cutN = 600
	}
	for c := 0; c < cutN; c++ {
		n := 1 + rng.Intn(3)
		ks := make([]string, n)
		for i := range ks {
			ks[i] = w.pick(rng)
		}
		as := mk(ks...)
		ps := perms(n)
		order := ps[rng.Intn(len(ps))]
		ck := []evKind{evCtxDeadline, evCtxCancel, evStop}[rng.Intn(3)]
		one(targets[rng.Intn(2)], "chainA", as, order, ck, rng.Intn(n+1), "cut")
	}
	// 3 and 4 peers: random multisets, all arrival orders for 3, sampled for 4
	multi := 40
	if thorough {
		multi = 500
	}
	for c := 0; c < multi; c++ {
		n := 3 + rng.Intn(2)
		ks := make([]string, n)
		for i := range ks {
			ks[i] = w.pick(rng)
		}
		as := mk(ks...)
		tg := targets[rng.Intn(2)]
		if rng.Intn(6) == 0 {
			tg = targets[rng.Intn(len(targets))]
		}
		want := "chainA"
		if rng.Intn(8) == 0 {
			want = ""
		}
		ps := perms(n)
		if n == 3 && (thorough || c%4 == 0) {
			for _, p := range ps {
				one(tg, want, as, p, evArrive, -1, "multi")
			}
		} else {
			for r := 0; r < 2; r++ {
				one(tg, want, as, ps[rng.Intn(len(ps))], evArrive, -1, "multi")
			}
		}
	}
	wr.Extra["driver_seconds"] = time.Since(t0).Seconds()
	if err := wr.Flush(); err != nil {
		t.Fatal(err)
	}
	t.Logf("emitted %d cases in %s", wr.Len(), time.Since(t0))
}

// pick draws an answer kind: valid-looking answers are over-represented so
// that mixed good/bad peer sets are the common case.
func (w *world) pick(rng *emit.Rand) string {
	switch rng.Intn(10) {
	case 0, 1:
		return "T"
	case 2:
		return []string{"U", "V", "C", "W", "X", "E", "panicbody", "valpanic"}[rng.Intn(8)]
	default:
		return w.kinds[rng.Intn(len(w.kinds))]
	}
}

// TestC13CodecPanicGap (opt-in: VERIF_C13_PANIC=1) runs the scripted decode
// panic in a child process and reports whether the client process survives.
// Before /repo commit c59f8ee Exchange.request had no recover and the child
// died; the same scenario is now a routine answer kind of TestC13 ("panicbody").
func TestC13CodecPanicGap(t *testing.T) {
	if which := os.Getenv("VERIF_C13_PANIC_CHILD"); which != "" {
		w := newWorld()
		a := answer{kind: "panicbody", bytes: frame(int32(p2p_pb.StatusCode_OK), []byte{vhdr.PanicByte, 1, 2, 3})}
		if which == "val" {
			a = valPanicAnswer()
		}
		sc := &scenario{get: true, hash: w.T.Hash(), want: "chainA", answers: []answer{a}, events: []event{{evArrive, 0}}}
		o, _ := run(t, sc)
		fmt.Printf("C13-CHILD-SURVIVED err=%v panicked=%v\n", o.err, o.panicked)
		return
	}
	if os.Getenv("VERIF_C13_PANIC") != "1" {
		t.Skip("opt-in: set VERIF_C13_PANIC=1")
	}
	cmd := exec.Command(os.Args[0], "-test.run=^TestC13CodecPanicGap$", "-test.timeout=60s")
	cmd.Env = append(os.Environ(), "VERIF_C13_PANIC_CHILD=1")
	out, err := cmd.CombinedOutput()
	crashed := err != nil && strings.Contains(string(out), "scripted decode panic")
	survived := strings.Contains(string(out), "C13-CHILD-SURVIVED")
	t.Logf("child exit: %v; crashed by the codec panic: %v; survived: %v", err, crashed, survived)
	if crashed {
		t.Fatalf("the client process was killed by a response body:\n%s", out)
	}
	if !survived {
		t.Fatalf("inconclusive child run:\n%s", out)
	}
}
