//go:build verif

// Package c09: correspondence driver for C09 (Exchange.Head: quorum / highest /
// trusted head). The real p2p.Exchange runs on a libp2p mocknet inside a
// synctest bubble; the peers are raw stream handlers on the exchange protocol
// id whose answers are gated, so the driver decides the arrival order.
package c09

import (
	"context"
	"errors"
	"fmt"
	"math"
	"sort"
	"strings"
	"sync"
	"testing"
	"testing/synctest"
	"time"

	"github.com/celestiaorg/go-libp2p-messenger/serde"
	"github.com/ipfs/go-datastore"
	dssync "github.com/ipfs/go-datastore/sync"
	"github.com/libp2p/go-libp2p/core/host"
	"github.com/libp2p/go-libp2p/core/network"
	"github.com/libp2p/go-libp2p/core/peer"
	"github.com/libp2p/go-libp2p/core/protocol"
	"github.com/libp2p/go-libp2p/p2p/net/conngater"
	mocknet "github.com/libp2p/go-libp2p/p2p/net/mock"

	header "github.com/celestiaorg/go-header"
	"github.com/celestiaorg/go-header/p2p"
	pb "github.com/celestiaorg/go-header/p2p/pb"

	"verifharness/emit"
	"verifharness/vhdr"
)

type H = *vhdr.Header

const (
	networkID = "test"
	protoID   = protocol.ID("/test/header-ex/v0.0.3")
	mainChain = "a"
)

// ---------------------------------------------------------------- answers

// what a scripted peer does once its gate is released
type act int

const (
	actHeader   act = iota // OK response carrying a header
	actNotFound            // NOT_FOUND status
	actReset               // stream reset
	actEmpty               // stream closed without a response
	actGarbage             // OK status with an undecodable body
	actBadCode             // unknown status code
	actHang                // never answers (released only when the case is over)
)

// type-level verdict scripted for a header (index into tvTerms/tvErr)
var tvTerms = []string{"TVOk", "(TVPlain 7)", "(TVVerr false 8)", "(TVVerr true 9)", "(TVWrapped false 10)", "(TVWrapped true 11)"}

func tvErr(i int) error {
	switch i {
	case 1:
		return &vhdr.TypeErr{ID: 7}
	case 2:
		return &header.VerifyError{Reason: &vhdr.TypeErr{ID: 8}}
	case 3:
		return &header.VerifyError{Reason: &vhdr.TypeErr{ID: 9}, SoftFailure: true}
	case 4:
		return fmt.Errorf("w: %w", &header.VerifyError{Reason: &vhdr.TypeErr{ID: 10}})
	case 5:
		return fmt.Errorf("w: %w", &header.VerifyError{Reason: &vhdr.TypeErr{ID: 11}, SoftFailure: true})
	}
	return nil
}

// an answer kind: a named header variant with a scripted type-level verdict, or a failure
type answer struct {
	name  string
	act   act
	hdr   func(u *universe) *vhdr.Header // for actHeader
	tv    int
	extra []answer // further frames the peer writes after the first one (the head request has Amount 1)
}

// the frames the peer writes, in order
func (a answer) frames() []answer {
	switch a.act {
	case actReset, actEmpty, actHang:
		return nil
	}
	return append([]answer{a}, a.extra...)
}

// over-long answer: a's frame followed by more frames
func long(name string, a answer, more ...answer) answer {
	a.name = name
	a.extra = more
	return a
}

// the per-case header universe, built around the (virtual) clock reading
type universe struct {
	now     time.Time
	trusted *vhdr.Header // height 10
}

// headChain: the chain of the trusted head ("" = the main chain)
func newUniverse(now time.Time, headChain string) *universe {
	if headChain == "" {
		headChain = mainChain
	}
	return &universe{now: now, trusted: &vhdr.Header{Chain: headChain, H: 10, T: now.Add(-100 * time.Second).UnixNano(), Nonce: 99}}
}

// a header whose timestamp is d after (start of the case + clock drift): it is "from the
// future" for a Verify that runs less than d after the start, and fine from then on
func (u *universe) edge(h uint64, nonce uint64, d time.Duration) *vhdr.Header {
	x := u.at(h, nonce)
	x.T = u.now.Add(header.VerifClockDrift() + d).UnixNano()
	return x
}

func (u *universe) at(h uint64, nonce uint64) *vhdr.Header {
	return &vhdr.Header{Chain: mainChain, H: h, T: u.now.Add(-50 * time.Second).UnixNano(), Nonce: nonce, Prev: []byte{1, 2, 3}}
}

func hv(name string, tv int, f func(u *universe) *vhdr.Header) answer {
	return answer{name: name, act: actHeader, hdr: f, tv: tv}
}

var (
	// the reduced alphabet that is enumerated completely
	ansA    = hv("A", 0, func(u *universe) *vhdr.Header { return u.at(12, 1) })                             // the head most peers report
	ansB    = hv("B", 0, func(u *universe) *vhdr.Header { return u.at(12, 2) })                             // conflicting header, same height
	ansCs   = hv("Csoft", 1, func(u *universe) *vhdr.Header { return u.at(15, 3) })                         // higher; soft-fails against a trusted head (non-adjacent type failure)
	ansZh   = hv("Zhard", 2, func(u *universe) *vhdr.Header { return u.at(11, 4) })                         // adjacent to the trusted head, hard type failure; the lowest otherwise
	ansInv  = hv("Invalid", 0, func(u *universe) *vhdr.Header { h := u.at(30, 5); h.Bad = true; return h }) // Validate fails
	ansMiss = answer{name: "NotFound", act: actNotFound}
	ansHang = answer{name: "Hang", act: actHang}

	// the richer alphabet used for sampling
	ansC     = hv("C", 0, func(u *universe) *vhdr.Header { return u.at(15, 23) })
	ansAs    = hv("Asoft", 5, func(u *universe) *vhdr.Header { return u.at(12, 21) })
	ansBs    = hv("Bsoft", 3, func(u *universe) *vhdr.Header { return u.at(12, 22) })
	ansZ     = hv("Z", 0, func(u *universe) *vhdr.Header { return u.at(11, 24) })
	ansZs    = hv("Zsoft", 3, func(u *universe) *vhdr.Header { return u.at(11, 25) })     // adjacent, the type says soft
	ansZp    = hv("Zplain", 1, func(u *universe) *vhdr.Header { return u.at(11, 26) })    // adjacent, plain error: hard
	ansZw    = hv("Zwrapsoft", 5, func(u *universe) *vhdr.Header { return u.at(11, 27) }) // adjacent, wrapped soft
	ansD     = hv("D", 0, func(u *universe) *vhdr.Header { return u.at(15, 6) })          // conflicts with C at the top height
	ansDh    = hv("Dwraphard", 4, func(u *universe) *vhdr.Header { return u.at(15, 28) }) // non-adjacent: soft although the type says hard
	ansWrong = hv("WrongChain", 0, func(u *universe) *vhdr.Header { h := u.at(20, 7); h.Chain = "b"; return h })
	ansKnown = hv("Known", 0, func(u *universe) *vhdr.Header { return u.at(10, 8) })
	ansOld   = hv("Older", 0, func(u *universe) *vhdr.Header { return u.at(9, 9) })
	ansFut   = hv("Future", 0, func(u *universe) *vhdr.Header {
		h := u.at(13, 10)
		h.T = u.now.Add(header.VerifClockDrift() + time.Hour).UnixNano()
		return h
	})
	ansUnord = hv("Unordered", 0, func(u *universe) *vhdr.Header {
		h := u.at(13, 11)
		h.T = u.trusted.T - int64(time.Second)
		return h
	})
	// heights at the other end of uint64: more than 2^63 away from the others (nothing may compute with signed differences)
	ansHuge = hv("Huge", 0, func(u *universe) *vhdr.Header { return u.at(1<<63+100, 31) })
	ansMax  = hv("NearMax", 0, func(u *universe) *vhdr.Header { return u.at(math.MaxUint64-5, 32) })
	// a header of the OTHER chain at the common height (quorums among other-chain answers)
	ansWrongB = hv("WrongChainB", 0, func(u *universe) *vhdr.Header { h := u.at(12, 33); h.Chain = "b"; return h })
	// timestamps at start+drift+d: the verdict depends on WHEN the answer is verified
	ansEdgeA   = hv("EdgeA+5", 0, func(u *universe) *vhdr.Header { return u.edge(12, 41, 5*time.Second) })
	ansEdgeC   = hv("EdgeCsoft+8", 1, func(u *universe) *vhdr.Header { return u.edge(15, 42, 8*time.Second) }) // once not from the future: soft (non-adjacent type failure)
	ansEdgeZ   = hv("EdgeZ+5", 0, func(u *universe) *vhdr.Header { return u.edge(11, 43, 5*time.Second) })     // adjacent
	ansEdge0   = hv("Edge+0", 0, func(u *universe) *vhdr.Header { return u.edge(12, 44, 0) })                  // exactly now+drift at the start: not After
	ansEdge1   = hv("Edge+1ns", 0, func(u *universe) *vhdr.Header { return u.edge(12, 45, 1) })                // one nanosecond too early at the start
	ansReset   = answer{name: "Reset", act: actReset}
	ansEmpty   = answer{name: "Empty", act: actEmpty}
	ansGarbage = answer{name: "Garbage", act: actGarbage}
	ansBadCode = answer{name: "BadCode", act: actBadCode}

	// over-long answers: the client reads one frame; what follows is never read
	ansTwoAB    = long("Two[A,B]", ansA, ansB)              // counts as A
	ansTwoBA    = long("Two[B,A]", ansB, ansA)              // counts as B
	ansTwoMissA = long("Two[NotFound,A]", ansMiss, ansA)    // a failure
	ansTwoInvA  = long("Two[Invalid,A]", ansInv, ansA)      // a failure
	ansTwoAGarb = long("Two[A,Garbage]", ansA, ansGarbage)  // counts as A
	ansTwoCsB   = long("Two[Csoft,B]", ansCs, ansB)         // counts as Csoft
	ansThreeA   = long("Three[A,A,A]", ansA, ansA, ansA)    // counts as ONE A
	ansTwoGarbA = long("Two[Garbage,A]", ansGarbage, ansA)  // a failure
	ansTwoWrA   = long("Two[WrongChain,A]", ansWrong, ansA) // whatever WrongChain alone is
	ansTwoZhA   = long("Two[Zhard,A]", ansZh, ansA)         // whatever Zhard alone is

	small = []answer{ansA, ansB, ansCs, ansZh, ansInv, ansMiss, ansHang}
	// the 7 kinds + an over-long answer + a header of the other chain: enumerated for <= 2 peers
	small9 = []answer{ansA, ansB, ansCs, ansZh, ansInv, ansMiss, ansHang, ansTwoBA, ansWrongB}
	rich   = []answer{ansA, ansA, ansB, ansCs, ansC, ansZh, ansInv, ansMiss, ansHang, ansAs, ansBs, ansZ, ansZs, ansZp, ansZw, ansD, ansDh,
		ansWrong, ansKnown, ansOld, ansFut, ansUnord, ansReset, ansEmpty, ansGarbage, ansBadCode, ansHuge, ansMax,
		ansWrongB, ansTwoAB, ansTwoBA, ansTwoMissA, ansTwoInvA, ansTwoAGarb, ansTwoCsB, ansThreeA, ansTwoGarbA, ansTwoWrA, ansTwoZhA,
		ansEdgeA, ansEdgeC, ansEdgeZ, ansEdge0, ansEdge1}
	// the answers whose verdict depends on the arrival instant, with a few that do not
	timedAlpha = []answer{ansEdgeA, ansEdgeA, ansEdgeA, ansEdgeC, ansEdgeZ, ansEdge0, ansEdge1, ansA, ansCs, ansMiss, long("Two[EdgeA+5,B]", ansEdgeA, ansB)}
)

// ---------------------------------------------------------------- scripted peers

type script struct {
	mu    sync.Mutex
	acts  []answer
	wire  [][][]byte // per peer, per frame: the encoded header (actHeader)
	gates []chan struct{}
	asked []int // peer indices in the order their handlers saw the request
	bad   []string
}

type world struct {
	t       *testing.T
	net     mocknet.Mocknet
	client  host.Host
	peers   []host.Host
	ex      *p2p.Exchange[H]
	stopped bool
	cur     *script
	curMu   sync.Mutex
}

func (w *world) script() *script {
	w.curMu.Lock()
	defer w.curMu.Unlock()
	return w.cur
}

func (w *world) handler(i int) network.StreamHandler {
	return func(s network.Stream) {
		sc := w.script()
		req := new(pb.HeaderRequest)
		if _, err := serde.Read(s, req); err != nil || sc == nil {
			_ = s.Reset()
			return
		}
		sc.mu.Lock()
		if req.GetOrigin() != 0 || req.Amount != 1 || len(req.GetHash()) != 0 {
			sc.bad = append(sc.bad, fmt.Sprintf("peer %d: unexpected request %v", i, req))
		}
		sc.asked = append(sc.asked, i)
		a := sc.acts[i]
		gate := sc.gates[i]
		wire := sc.wire[i]
		sc.mu.Unlock()
		<-gate
		switch a.act {
		case actEmpty:
			_ = s.Close()
		case actReset, actHang: // a hanging peer is released at the end of the case
			_ = s.Reset()
		default:
			for k, f := range a.frames() {
				switch f.act {
				case actHeader:
					_, _ = serde.Write(s, &pb.HeaderResponse{Body: wire[k], StatusCode: pb.StatusCode_OK})
				case actNotFound:
					_, _ = serde.Write(s, &pb.HeaderResponse{StatusCode: pb.StatusCode_NOT_FOUND})
				case actGarbage:
					_, _ = serde.Write(s, &pb.HeaderResponse{Body: []byte{0x01, 0x02, 0x03}, StatusCode: pb.StatusCode_OK})
				case actBadCode:
					_, _ = serde.Write(s, &pb.HeaderResponse{Body: wire[k], StatusCode: pb.StatusCode(7)})
				}
			}
			_ = s.Close()
		}
	}
}

// config of one bubble
type config struct {
	name    string
	nPeers  int  // scripted peers linked to the client
	trusted int  // how many of them are given to NewExchange as trusted peers (the first ones)
	connect bool // connect all peers before the exchange starts (=> they are tracked); otherwise nobody is
	// connected when Head is called (the driver disconnects everybody before each case)
	chainID   string // ClientParameters.chainID ("" = none)
	withHead  bool   // call Head(WithTrustedHead(t))
	maxReq    int    // maxUntrustedHeadRequests (0 = leave the default)
	offline   int    // the last `offline` peers have no link to the client: dialling them fails at once
	headChain string // chain of the trusted head ("" = the main chain): WithTrustedHead on another chain than the configured one
}

func newWorld(t *testing.T, cfg config) *world {
	w := &world{t: t}
	w.net = mocknet.New()
	var err error
	w.client, err = w.net.GenPeer()
	if err != nil {
		t.Fatal(err)
	}
	for i := 0; i < cfg.nPeers; i++ {
		h, err := w.net.GenPeer()
		if err != nil {
			t.Fatal(err)
		}
		h.SetStreamHandler(protoID, w.handler(i))
		w.peers = append(w.peers, h)
	}
	if err := w.net.LinkAll(); err != nil {
		t.Fatal(err)
	}
	for i := cfg.nPeers - cfg.offline; i < cfg.nPeers; i++ {
		if err := w.net.UnlinkPeers(w.client.ID(), w.peers[i].ID()); err != nil {
			t.Fatal(err)
		}
	}
	if cfg.connect {
		for _, p := range w.peers[:cfg.nPeers-cfg.offline] {
			if _, err := w.net.ConnectPeers(w.client.ID(), p.ID()); err != nil {
				t.Fatal(err)
			}
		}
	}
	gater, err := conngater.NewBasicConnectionGater(dssync.MutexWrap(datastore.NewMapDatastore()))
	if err != nil {
		t.Fatal(err)
	}
	var tp peer.IDSlice
	for i := 0; i < cfg.trusted; i++ {
		tp = append(tp, w.peers[i].ID())
	}
	opts := []p2p.Option[p2p.ClientParameters]{p2p.WithNetworkID[p2p.ClientParameters](networkID)}
	if cfg.chainID != "" {
		opts = append(opts, p2p.WithChainID(cfg.chainID))
	}
	w.ex, err = p2p.NewExchange[H](w.client, tp, gater, opts...)
	if err != nil {
		t.Fatal(err)
	}
	if err := w.ex.Start(context.Background()); err != nil {
		t.Fatal(err)
	}
	synctest.Wait()
	return w
}

func (w *world) close() {
	if !w.stopped {
		_ = w.ex.Stop(context.Background())
	}
	_ = w.net.Close()
	synctest.Wait()
}

// ---------------------------------------------------------------- one case

type outcome struct {
	asked []int
	order []int // peers released, in order, until Head returned
	steps int
	h     *vhdr.Header
	err   error
	hung  bool   // Head had not returned although every answer arrived
	pool  bool   // the asked peers are distinct and come from the right pool
	off   int    // peers whose dial failed at once (their zero answer arrived before anything was released)
	ended string // how a call with a hanging peer was ended ("" = Head returned by itself)
	now   time.Time
	at    []time.Time // per released answer: the clock when it was released (= when the peer's goroutine handled it)
}

// runCase scripts the peers with acts (one per peer of the world), calls Head and
// releases the answers in the order given by prio (a permutation of peer indices;
// hanging peers are skipped), one at a time, until Head returns.
// How the call ends when a peer hangs: the caller cancels, the caller's deadline
// passes, or the exchange is stopped.
const (
	endCancel = iota
	endDeadline
	endStop
)

const callTimeout = 120 * time.Second

// gaps: virtual time that passes before each release (nil = the clock stands still while answers arrive)
func (w *world) runCase(cfg config, u *universe, acts []answer, prio []int, end int, gaps []time.Duration) outcome {
	sc := &script{acts: acts, wire: make([][][]byte, len(acts)), gates: make([]chan struct{}, len(acts))}
	tvByHash := map[string]int{}
	for i, a := range acts {
		sc.gates[i] = make(chan struct{})
		for k, f := range a.frames() {
			sc.wire[i] = append(sc.wire[i], nil)
			if f.hdr != nil {
				h := f.hdr(u)
				sc.wire[i][k], _ = h.MarshalBinary()
				if old, ok := tvByHash[string(h.Hash())]; ok && old != f.tv {
					w.t.Fatalf("driver: two verdicts scripted for one header (%s)", a.name)
				}
				tvByHash[string(h.Hash())] = f.tv
			}
		}
	}
	vhdr.SetPolicy(func(_, un *vhdr.Header) error { return tvErr(tvByHash[string(un.Hash())]) })
	if !cfg.connect {
		for _, p := range w.peers {
			_ = w.net.DisconnectPeers(w.client.ID(), p.ID())
		}
		synctest.Wait()
		if n := len(w.client.Network().Conns()); n != 0 {
			w.t.Fatalf("%s: %d connections left before the case", cfg.name, n)
		}
	}
	w.curMu.Lock()
	w.cur = sc
	w.curMu.Unlock()

	ctx, cancel := context.WithCancel(context.Background())
	if end == endDeadline {
		ctx, cancel = context.WithTimeout(context.Background(), callTimeout)
	}
	var out outcome
	out.now = u.now
	done := make(chan struct{})
	go func() {
		defer close(done)
		defer func() {
			if r := recover(); r != nil {
				out.err = fmt.Errorf("PANIC: %v", r)
			}
		}()
		if cfg.withHead {
			out.h, out.err = w.ex.Head(ctx, header.WithTrustedHead[H](u.trusted))
		} else {
			out.h, out.err = w.ex.Head(ctx)
		}
	}()
	isDone := func() bool {
		select {
		case <-done:
			return true
		default:
			return false
		}
	}
	synctest.Wait()
	sc.mu.Lock()
	out.asked = append([]int(nil), sc.asked...)
	sc.mu.Unlock()
	askedSet := map[int]bool{}
	out.pool = true
	for _, i := range out.asked {
		if askedSet[i] {
			out.pool = false // asked twice
		}
		askedSet[i] = true
	}
	if !cfg.withHead || !cfg.connect {
		// exactly the trusted peers (the first cfg.trusted ones) that can be dialled
		for i := range acts {
			if askedSet[i] != (i < cfg.trusted && i < cfg.nPeers-cfg.offline) {
				out.pool = false
			}
			if i < cfg.trusted && i >= cfg.nPeers-cfg.offline {
				out.off++
			}
		}
	} // otherwise: any distinct connected peers (every linked peer is connected)
	sc.mu.Lock()
	if len(sc.bad) > 0 {
		out.pool = false
	}
	sc.mu.Unlock()
	released := map[int]bool{}
	var slept time.Duration
	for _, i := range prio {
		if isDone() {
			break
		}
		if !askedSet[i] || acts[i].act == actHang {
			continue
		}
		if k := len(out.order); k < len(gaps) && gaps[k] > 0 {
			time.Sleep(gaps[k]) // virtual: Head stays parked in its select
			slept += gaps[k]
			synctest.Wait()
			if isDone() {
				break
			}
		}
		close(sc.gates[i])
		released[i] = true
		out.order = append(out.order, i)
		out.at = append(out.at, time.Now())
		synctest.Wait()
	}
	out.steps = out.off + len(out.order)
	if !isDone() {
		hanging := 0
		for i := range askedSet {
			if acts[i].act == actHang {
				hanging++
			}
		}
		if hanging == 0 {
			out.hung = true
		}
		clockMoved := !time.Now().Equal(u.now.Add(slept))
		out.ended = []string{"cancel", "deadline", "exchange stopped"}[end]
		switch end {
		case endStop:
			w.stopped = true
			_ = w.ex.Stop(context.Background())
		case endDeadline:
			time.Sleep(callTimeout + time.Second) // virtual: the deadline passes while Head is parked
		default:
			cancel()
		}
		synctest.Wait()
		if clockMoved {
			u.now = time.Time{}
		}
		if end == endDeadline && isDone() && !errors.Is(out.err, context.DeadlineExceeded) && out.h == nil {
			out.err = fmt.Errorf("DRIVER: deadline passed but Head returned %v", out.err)
		}
	}
	ended := time.Now()
	cancel()
	for i, g := range sc.gates {
		if !released[i] {
			close(g)
		}
	}
	synctest.Wait()
	<-done
	if !isDoneBeforeEnd(out, ended, u, slept) {
		out.err = fmt.Errorf("DRIVER: the virtual clock moved during the case")
	}
	sort.Ints(out.asked)
	return out
}

// the clock moves only where the driver moves it: by the scripted gaps before releases (every
// answer is stamped with the reading at its release) and in the step that ends a call with a hanging peer
func isDoneBeforeEnd(out outcome, ended time.Time, u *universe, slept time.Duration) bool {
	if u.now.IsZero() {
		return false
	}
	return ended.Equal(u.now.Add(slept)) || ended.Equal(u.now.Add(slept+callTimeout+time.Second))
}

// ---------------------------------------------------------------- emission

func errTerm(err error) (string, string) {
	if err == nil {
		return "ENil", "nil"
	}
	if errors.Is(err, context.Canceled) || errors.Is(err, context.DeadlineExceeded) {
		return "ECtx", "ctx"
	}
	if errors.Is(err, header.ErrNotFound) {
		return "ENotFound", "notfound"
	}
	var ve *header.VerifyError
	if errors.As(err, &ve) {
		reason := "ROther"
		var te *vhdr.TypeErr
		switch {
		case errors.As(err, &te):
			reason = fmt.Sprintf("(RType %d)", te.ID)
		case errors.Is(err, header.ErrZeroHeader):
			reason = "(RSent EZero)"
		case errors.Is(err, header.ErrWrongChainID):
			reason = "(RSent EWrongChain)"
		case errors.Is(err, header.ErrKnownHeader):
			reason = "(RSent EKnown)"
		case errors.Is(err, header.ErrUnorderedTime):
			reason = "(RSent EUnordered)"
		case errors.Is(err, header.ErrFromFuture):
			reason = "(RSent EFuture)"
		}
		if reason != "ROther" {
			cl := "hardverr"
			if ve.SoftFailure {
				cl = "softverr"
			}
			return fmt.Sprintf("(EVerr (VErr %s %s))", reason, emit.B(ve.SoftFailure)), cl
		}
	}
	return "EOther", "other"
}

func (w *world) emitCase(em *emit.Writer, reg *vhdr.Registry, cfg config, u *universe, acts []answer, out outcome, gen string) {
	want := "None"
	if cfg.chainID != "" {
		want = emit.Some(emit.N(reg.ChainNo(cfg.chainID)))
	}
	tterm := "hdr_nil"
	if cfg.withHead {
		tterm = reg.Term(u.trusted)
	}
	var arr, names, classNames []string
	tans := func(at time.Time, frames []string, tv string) string {
		return fmt.Sprintf("TAns %s %s %s", emit.Z(at.UnixNano()), emit.List(frames), tv)
	}
	for i := 0; i < out.off; i++ {
		names = append(names, "Offline")
		classNames = append(classNames, "Offline")
		arr = append(arr, tans(out.now, []string{"RFail"}, "TVOk")) // the dial failed when Head was called
	}
	timed := false
	for k, i := range out.order {
		a := acts[i]
		names = append(names, a.name)
		var frames []string
		for _, f := range a.frames() {
			if f.act == actHeader {
				frames = append(frames, "(RGot "+reg.Term(f.hdr(u))+")")
			} else {
				frames = append(frames, "RFail") // NOT_FOUND, unknown status, undecodable body
			}
		}
		if a.act == actReset {
			frames = []string{"RFail"} // the stream fails; actEmpty: no frame at all
		}
		tv := "TVOk"
		if a.act == actHeader {
			tv = tvTerms[a.tv]
		}
		arr = append(arr, tans(out.at[k], frames, tv))
		off := out.at[k].Sub(out.now)
		cn := a.name
		if off != 0 {
			timed = true
			cn = fmt.Sprintf("%s@%v", a.name, off)
		}
		classNames = append(classNames, cn)
		em.Count("frames written by a released peer", fmt.Sprint(len(a.frames())))
		em.Count("arrival offset of released answers", off.String())
		if strings.HasPrefix(a.name, "Edge") && cfg.withHead {
			// what the real clock check says at that instant (informative; the oracle recomputes it)
			if a.hdr(u).Time().After(out.at[k].Add(header.VerifClockDrift())) {
				em.Count("edge answers (timestamp near now+drift)", "from the future at arrival")
			} else {
				em.Count("edge answers (timestamp near now+drift)", "not from the future at arrival")
			}
		}
	}
	if timed {
		em.Count("clock", "moved between answers")
	} else {
		em.Count("clock", "stood still")
	}
	if cfg.withHead {
		hc := "the configured chain"
		if cfg.headChain != "" && cfg.headChain != mainChain {
			hc = "another chain than the answers'"
			if cfg.chainID != "" {
				hc = "another chain than the configured chain id"
			}
		} else if cfg.chainID == "" {
			hc = "main chain, no chain id configured"
		}
		em.Count("trusted head on", hc)
	}
	hang := 0
	for _, i := range out.asked {
		if acts[i].act == actHang {
			hang++
		}
	}
	hterm := "None"
	if out.h != nil {
		hterm = emit.Some(emit.Pair(emit.N(out.h.Height()), emit.N(reg.ID(out.h.Hash()))))
	}
	eterm, ecls := errTerm(out.err)
	if out.hung {
		eterm, ecls = "EOther", "hung"
	}
	tracked := 0
	if cfg.connect {
		tracked = cfg.nPeers - cfg.offline
	}
	nAsked := len(out.asked) + out.off
	term := fmt.Sprintf("Case09 %s %s %s %s %s %s %s %s %s %s %s %s %s", emit.Z(out.now.UnixNano()), emit.Z(int64(header.VerifClockDrift())),
		want, tterm, emit.Nat(cfg.trusted), emit.Nat(tracked), emit.Nat(p2p.VerifMaxUntrustedHeadRequests()),
		emit.Nat(nAsked), emit.B(out.pool), emit.List(arr), emit.Nat(out.steps), hterm, eterm)
	sorted := append([]string(nil), names...)
	sort.Strings(sorted)
	class := fmt.Sprintf("%s|n=%d|hang=%d|%s", cfg.name, nAsked, hang, strings.Join(classNames, ","))
	descr := map[string]any{"config": cfg.name, "gen": gen, "asked": out.asked, "released": names, "hanging": hang,
		"steps": out.steps, "err": fmt.Sprint(out.err), "errclass": ecls}
	if out.h != nil {
		descr["height"] = out.h.Height()
	}
	em.Add(term, descr, class, out.h != nil)
	em.Count("error class", ecls)
	em.Count("asked peers", fmt.Sprint(nAsked))
	em.Count("config", cfg.name)
	em.Count("answers released before return", fmt.Sprint(out.steps))
	em.Count("generator", gen)
	if out.ended != "" {
		em.Count("call with a hanging peer ended by", out.ended)
	}
	for _, n := range names {
		em.Count("answer kinds released", n)
	}
	if out.steps < nAsked-hang {
		em.Count("early return", "yes")
	} else {
		em.Count("early return", "no")
	}
}

// ---------------------------------------------------------------- generators

func seqs(alpha []answer, n int, f func([]answer)) {
	cur := make([]answer, n)
	var rec func(i int)
	rec = func(i int) {
		if i == n {
			f(append([]answer(nil), cur...))
			return
		}
		for _, a := range alpha {
			cur[i] = a
			rec(i + 1)
		}
	}
	rec(0)
}

func identity(n int) []int {
	p := make([]int, n)
	for i := range p {
		p[i] = i
	}
	return p
}

func TestC09(t *testing.T) {
	rng := emit.NewRand(emit.Seed())
	em := emit.NewWriter("Model.Verify Model.HeadQuorum Oracle.C09", "case09", "chk09")
	em.Rule = "real p2p.Exchange.Head on libp2p mocknet in synctest bubbles against scripted peers whose answers are released one at a time in a chosen order; " +
		"a class is (configuration, number of asked peers, number of hanging peers, released answer kinds in arrival order); non-trivial when a header is returned"
	em.PerShard(150)
	reg := vhdr.NewRegistry()
	defer vhdr.SetPolicy(nil)

	type plan struct {
		config
		exhaustive int // enumerate every sequence over the small alphabet for this many peers (0 = no)
		samples    int
		timed      int // cases of the timed generator (configurations with a trusted head)
	}
	thorough := emit.Thorough()
	pick := func(q, th int) int {
		if thorough {
			return th
		}
		return q
	}
	plans := []plan{}
	for n := 0; n <= 6; n++ {
		ex := 0
		if n <= pick(3, 4) {
			ex = n
		}
		// no trusted head: the n trusted peers are asked
		smp := pick(18, 400)
		if n >= 4 {
			smp = pick(50, 600)
		}
		plans = append(plans, plan{config{name: fmt.Sprintf("plain/%d", n), nPeers: n, trusted: n, connect: true, chainID: mainChain}, ex, smp, 0})
		// WithTrustedHead: the n tracked peers are asked (nobody is a trusted peer), every one of them (max 6)
		plans = append(plans, plan{config{name: fmt.Sprintf("head/%d", n), nPeers: n, trusted: 0, connect: true, withHead: true, maxReq: 6}, ex, smp, pick(14, 300)})
	}
	plans = append(plans,
		// no chain id configured: a header of another chain is just a header
		plan{config{name: "plain-nochain/3", nPeers: 3, trusted: 3, connect: true}, 0, pick(30, 300), 0},
		plan{config{name: "plain-nochain/4", nPeers: 4, trusted: 4, connect: true}, 0, pick(30, 300), 0},
		plan{config{name: "head-chain/4", nPeers: 4, trusted: 0, connect: true, withHead: true, chainID: mainChain}, 0, pick(30, 300), 0},
		// trusted peers are a strict subset of the tracked peers: who is asked?
		plan{config{name: "plain-2of6", nPeers: 6, trusted: 2, connect: true, chainID: mainChain}, 0, pick(20, 200), 0},
		plan{config{name: "head-2of6-max4", nPeers: 6, trusted: 2, connect: true, withHead: true}, 0, pick(40, 400), 0},
		plan{config{name: "head-5-max4", nPeers: 5, trusted: 5, connect: true, withHead: true}, 0, pick(30, 300), 0},
		plan{config{name: "head-4-max2", nPeers: 4, trusted: 1, connect: true, withHead: true, maxReq: 2}, 0, pick(20, 200), 0},
		plan{config{name: "head-4-max3", nPeers: 4, trusted: 0, connect: true, withHead: true, maxReq: 3}, 0, pick(20, 200), 0},
		// trusted peers that cannot be dialled: their zero answers arrive first
		plan{config{name: "plain-offline-1of4", nPeers: 4, trusted: 4, connect: true, chainID: mainChain, offline: 1}, 0, pick(20, 200), 0},
		plan{config{name: "plain-offline-2of5", nPeers: 5, trusted: 5, connect: true, chainID: mainChain, offline: 2}, 0, pick(20, 200), 0},
		// nobody tracked: Head(WithTrustedHead) falls back to the trusted peers (and still verifies)
		plan{config{name: "head-fallback-3of4", nPeers: 4, trusted: 3, connect: false, withHead: true, maxReq: 1}, 0, pick(20, 200), pick(8, 80)},
		// the trusted head is on another chain than the configured chain id: an answer passes validateChainID
		// or the trusted head's chain check, never both
		plan{config{name: "head-otherchain/2", nPeers: 2, trusted: 0, connect: true, withHead: true, chainID: mainChain, headChain: "b"}, pick(0, 2), pick(25, 100), 0},
		plan{config{name: "head-otherchain/4", nPeers: 4, trusted: 0, connect: true, withHead: true, chainID: mainChain, headChain: "b"}, 0, pick(25, 300), 0},
		// ... and no chain id configured: the other chain's headers are the ones that verify
		plan{config{name: "head-otherchain-nochain/2", nPeers: 2, trusted: 0, connect: true, withHead: true, headChain: "b"}, 2, pick(10, 100), 0},
		plan{config{name: "head-otherchain-nochain/4", nPeers: 4, trusted: 0, connect: true, withHead: true, headChain: "b"}, 0, pick(30, 400), 0},
		plan{config{name: "head-otherchain-nochain/5", nPeers: 5, trusted: 0, connect: true, withHead: true, headChain: "b", maxReq: 6}, 0, pick(20, 300), 0},
	)
	for _, pl := range plans {
		cfg := pl.config
		synctest.Test(t, func(t *testing.T) {
			old := -1
			if cfg.maxReq != 0 {
				old = p2p.VerifSetMaxUntrustedHeadRequests(cfg.maxReq)
			}
			w := newWorld(t, cfg)
			gapChoice := []time.Duration{0, 0, 2 * time.Second, 3 * time.Second, 5 * time.Second, 5*time.Second - 1}
			run := func(acts []answer, prio []int, gen string) {
				u := newUniverse(time.Now(), cfg.headChain)
				end := endCancel
				switch {
				case gen == "exchange-stopped":
					end = endStop
				case rng.Chance(35):
					end = endDeadline
				}
				// virtual time passes between the answers: always for the timed generator, in a third of the samples
				var gaps []time.Duration
				if gen == "timed" || (gen == "sampled" && rng.Chance(33)) {
					for range acts {
						gaps = append(gaps, gapChoice[rng.Intn(len(gapChoice))])
					}
				}
				out := w.runCase(cfg, u, acts, prio, end, gaps)
				w.emitCase(em, reg, cfg, u, acts, out, gen)
			}
			if pl.exhaustive > 0 || cfg.nPeers == 0 {
				alpha := small
				if cfg.nPeers <= 2 {
					alpha = small9
				}
				seqs(alpha, cfg.nPeers, func(acts []answer) { run(acts, identity(cfg.nPeers), "exhaustive") })
			}
			if cfg.nPeers > 0 {
				for s := 0; s < pl.samples; s++ {
					acts := make([]answer, cfg.nPeers)
					// a population that mostly agrees with a few deviants, two camps, or a uniform mix
					mode := rng.Intn(10)
					camp := []answer{ansA, ansB, ansCs, ansC, ansAs, ansZs, ansTwoBA, ansThreeA}[rng.Intn(8)]
					major := ansA
					if cfg.headChain != "" {
						// the trusted head is on the other chain: the populations are other-chain headers
						major = ansWrongB
						camp = []answer{ansWrong, ansWrongB, ansA, long("Two[WrongChainB,A]", ansWrongB, ansA)}[rng.Intn(4)]
					}
					for i := range acts {
						switch {
						case mode < 4 && !rng.Chance(35):
							acts[i] = major
						case mode >= 4 && mode < 7 && !rng.Chance(30):
							if rng.Chance(55) {
								acts[i] = major
							} else {
								acts[i] = camp
							}
						default:
							acts[i] = rich[rng.Intn(len(rich))]
						}
					}
					prio := identity(cfg.nPeers)
					for i := len(prio) - 1; i > 0; i-- {
						j := rng.Intn(i + 1)
						prio[i], prio[j] = prio[j], prio[i]
					}
					run(acts, prio, "sampled")
				}
			}
			if cfg.nPeers >= 2 && cfg.withHead && cfg.headChain == "" {
				// answers whose timestamp sits at now+drift+d, released while virtual time advances: whether
				// an answer counts depends on the instant ITS Verify runs
				for s := 0; s < pl.timed; s++ {
					acts := make([]answer, cfg.nPeers)
					for i := range acts {
						acts[i] = timedAlpha[rng.Intn(len(timedAlpha))]
					}
					prio := identity(cfg.nPeers)
					for i := len(prio) - 1; i > 0; i-- {
						j := rng.Intn(i + 1)
						prio[i], prio[j] = prio[j], prio[i]
					}
					run(acts, prio, "timed")
				}
			}
			if cfg.nPeers >= 2 && cfg.offline == 0 {
				// no quorum between far-apart heights: the highest one, in either arrival order
				for _, top := range []answer{ansHuge, ansMax} {
					acts := make([]answer, cfg.nPeers)
					for i := range acts {
						acts[i] = []answer{ansA, top, ansC, ansHuge}[i%4]
					}
					prio := identity(cfg.nPeers)
					run(acts, prio, "boundary-heights")
					rev := make([]int, len(prio))
					for i := range prio {
						rev[i] = prio[len(prio)-1-i]
					}
					run(acts, rev, "boundary-heights")
				}
			}
			if cfg.nPeers >= 2 && cfg.offline == 0 {
				// the exchange is stopped while a peer hangs: Head returns the exchange context's error
				acts := make([]answer, cfg.nPeers)
				for i := range acts {
					acts[i] = ansHang
				}
				acts[rng.Intn(cfg.nPeers)] = ansA
				run(acts, identity(cfg.nPeers), "exchange-stopped")
			}
			w.close()
			if old >= 0 {
				p2p.VerifSetMaxUntrustedHeadRequests(old)
			}
		})
	}
	em.Exhaustive = true
	em.Extra["exhaustive_subdomain"] = fmt.Sprintf("every sequence (= every multiset in every arrival order) over the %d-kind alphabet {A, B (conflicting, same height), higher+soft-failing, "+
		"adjacent+hard-failing, invalid, NOT_FOUND, hanging} for 3..%d peers and over the %d-kind alphabet (+ over-long answer [B,A], + a header of the other chain) for 0..2 peers, "+
		"without and with a trusted head, and (2 peers) with a trusted head on the other chain", len(small), pick(3, 4), len(small9))
	if err := em.Flush(); err != nil {
		t.Fatal(err)
	}
	t.Logf("emitted %d cases", em.Len())
}
