// Package vhdr is the header type used by all correspondence drivers.
// It is hash-linked, has a strict binary codec, a scripted Validate and a
// pluggable type-level Verify (the "trust policy").
package vhdr

import (
	"crypto/sha256"
	"encoding/binary"
	"errors"
	"fmt"
	"sync"
	"sync/atomic"
	"time"

	header "github.com/celestiaorg/go-header"
)

type Header struct {
	Chain string
	H     uint64
	T     int64 // unix nanoseconds
	Prev  []byte
	Nonce uint64
	Bad   bool // Validate() fails
	// VPanic: Validate() PANICS (scripted; wire flag byte 2). Bad (wire flag 1) stays ErrInvalid.
	VPanic bool
}

var _ header.Header[*Header] = (*Header)(nil)

// TypeErr is the header type's own verification error, carrying an id the
// drivers can recognise through errors.As.
type TypeErr struct{ ID uint64 }

func (e *TypeErr) Error() string { return fmt.Sprintf("vhdr type error %d", e.ID) }

// ErrInvalid is returned by Validate for headers with Bad set.
var ErrInvalid = errors.New("vhdr: invalid header")

// ErrDecode is returned by UnmarshalBinary for malformed input.
var ErrDecode = errors.New("vhdr: malformed encoding")

// Policy is the type-level Verify: trusted.Verify(untrusted).
type Policy func(trusted, untrusted *Header) error

var policy atomic.Pointer[Policy]

// SetPolicy installs the type-level verification policy (nil restores the default).
func SetPolicy(p Policy) {
	if p == nil {
		policy.Store(nil)
		return
	}
	policy.Store(&p)
}

// LinkPolicy: adjacent headers must be hash-linked (hard failure otherwise);
// non-adjacent verification succeeds iff gap <= trustRange (soft failure is
// set by header.Verify itself for non-adjacent failures). trustRange 0 = unlimited.
func LinkPolicy(trustRange uint64) Policy {
	return func(t, u *Header) error {
		if u.H == t.H+1 {
			if string(u.Prev) != string(t.Hash()) {
				return &TypeErr{ID: 1}
			}
			return nil
		}
		if trustRange != 0 && u.H-t.H > trustRange {
			return &TypeErr{ID: 2}
		}
		return nil
	}
}

func (h *Header) New() *Header  { return new(Header) }
func (h *Header) IsZero() bool  { return h == nil }
func (h *Header) ChainID() string { return h.Chain }
func (h *Header) Height() uint64 { return h.H }
func (h *Header) LastHeader() header.Hash { return h.Prev }
func (h *Header) Time() time.Time { return time.Unix(0, h.T) }
func (h *Header) Validate() error {
	if h.Bad {
		return ErrInvalid
	}
	if h.VPanic {
		panic(ValidatePanicMsg)
	}
	return nil
}

// ValidatePanicMsg is the value Validate panics with on headers that carry VPanic.
const ValidatePanicMsg = "vhdr: scripted Validate panic"

// FlagValidatePanic is the wire flag byte (last byte of an encoding) of a header whose Validate panics.
const FlagValidatePanic = 2

func (h *Header) Hash() header.Hash {
	b, _ := h.MarshalBinary()
	s := sha256.Sum256(b)
	return s[:]
}

func (h *Header) Verify(u *Header) error {
	if p := policy.Load(); p != nil {
		return (*p)(h, u)
	}
	return LinkPolicy(0)(h, u)
}

const magic = 0xA7

// PanicByte as first byte of an encoding makes UnmarshalBinary panic (scripted decode panic).
const PanicByte = 0xEE

func (h *Header) MarshalBinary() ([]byte, error) {
	if h == nil {
		return nil, errors.New("vhdr: marshal of nil header")
	}
	b := make([]byte, 0, 32+len(h.Chain)+len(h.Prev))
	b = append(b, magic)
	b = binary.BigEndian.AppendUint16(b, uint16(len(h.Chain)))
	b = append(b, h.Chain...)
	b = binary.BigEndian.AppendUint64(b, h.H)
	b = binary.BigEndian.AppendUint64(b, uint64(h.T))
	b = binary.BigEndian.AppendUint16(b, uint16(len(h.Prev)))
	b = append(b, h.Prev...)
	b = binary.BigEndian.AppendUint64(b, h.Nonce)
	switch {
	case h.Bad:
		b = append(b, 1)
	case h.VPanic:
		b = append(b, FlagValidatePanic)
	default:
		b = append(b, 0)
	}
	return b, nil
}

func (h *Header) UnmarshalBinary(b []byte) error {
	if len(b) > 0 && b[0] == PanicByte {
		panic("vhdr: scripted decode panic")
	}
	if len(b) < 3 || b[0] != magic {
		return ErrDecode
	}
	p := 1
	cl := int(binary.BigEndian.Uint16(b[p:]))
	p += 2
	if len(b) < p+cl+16+2 {
		return ErrDecode
	}
	chain := string(b[p : p+cl])
	p += cl
	H := binary.BigEndian.Uint64(b[p:])
	p += 8
	T := int64(binary.BigEndian.Uint64(b[p:]))
	p += 8
	pl := int(binary.BigEndian.Uint16(b[p:]))
	p += 2
	if len(b) != p+pl+8+1 {
		return ErrDecode
	}
	prev := append([]byte(nil), b[p:p+pl]...)
	p += pl
	nonce := binary.BigEndian.Uint64(b[p:])
	p += 8
	if b[p] > FlagValidatePanic {
		return ErrDecode
	}
	h.Chain, h.H, h.T, h.Prev, h.Nonce, h.Bad = chain, H, T, prev, nonce, b[p] == 1
	h.VPanic = b[p] == FlagValidatePanic
	if pl == 0 {
		h.Prev = nil
	}
	return nil
}

// Registry numbers distinct hashes (the Coq models use numbers for h_id).
type Registry struct {
	mu  sync.Mutex
	ids map[string]uint64
	chn map[string]uint64
}

func NewRegistry() *Registry {
	return &Registry{ids: map[string]uint64{}, chn: map[string]uint64{}}
}

// ID returns the number of a hash; 0 is reserved for the empty hash.
func (r *Registry) ID(hash []byte) uint64 {
	if len(hash) == 0 {
		return 0
	}
	r.mu.Lock()
	defer r.mu.Unlock()
	if id, ok := r.ids[string(hash)]; ok {
		return id
	}
	id := uint64(len(r.ids) + 1)
	r.ids[string(hash)] = id
	return id
}

func (r *Registry) ChainNo(c string) uint64 {
	r.mu.Lock()
	defer r.mu.Unlock()
	if id, ok := r.chn[c]; ok {
		return id
	}
	id := uint64(len(r.chn) + 1)
	r.chn[c] = id
	return id
}

// Term renders a header as a Gallina [hdr] term.
func (r *Registry) Term(h *Header) string {
	if h == nil {
		return "hdr_nil"
	}
	ok := "true"
	if h.Bad || h.VPanic {
		ok = "false"
	}
	return fmt.Sprintf("(Hdr false %d %d (%d)%%Z %d %d %s)",
		r.ChainNo(h.Chain), h.H, h.T, r.ID(h.Hash()), r.ID(h.Prev), ok)
}

// Chain builds n hash-linked headers at heights from.. with the given spacing.
func Chain(chain string, from uint64, n int, t0 int64, spacing int64, prev []byte) []*Header {
	out := make([]*Header, 0, n)
	for i := 0; i < n; i++ {
		h := &Header{Chain: chain, H: from + uint64(i), T: t0 + int64(i)*spacing, Prev: prev}
		out = append(out, h)
		prev = h.Hash()
	}
	return out
}
