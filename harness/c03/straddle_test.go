//go:build verif

// Stand-alone witnesses on the real code for finding F23 (repaired in /repo
// 7d16f07: on that tree both log "not reproduced"; the same schedules are
// always-generated corpus cases of the C03 and C07 checks, syncfx.RunStraddle)
// and for the still open lost update on the shim's head (TestShimRaceWitness).
//
// F23: the schedule that defeated the full (interleaved learner calls) form of
// C07_reaches_target on /repo dd38a4c.  All inputs are
// honest: true chain headers only, no getter error, every range request served
// in full.  No goroutine is stopped at an unusual place: four Head() calls are
// slow between receiving their network head and using it, and one range
// request is slow.
//
//  1. Store head 17.  Four Head() calls ask the network (subjective head 17) and
//     receive 18, 19, 20, 21 one after the other as the chain grows; each is
//     delayed right after its answer arrived (header type whose Height() parks
//     in networkHead).
//  2. Gossip brings 19 (pending [19], the sync loop requests (17,19) and the
//     getter is slow), then 20, 21, 22: pending = [19 20 21 22].
//  3. The four Head() calls go on: each answer is above the subjective head its
//     call had captured (17) and adjacent to the store head when it is set:
//     stored directly, shim head = store head = 21.
//  4. The getter answers [18].  The loop finishes its sync to 19 (everything
//     below the head is passed through) and starts the next one, 21 -> 22:
//     processHeaders takes [20 21 22] out of pending and hands it to
//     syncStore.Append.  Its first height 20 is below the shim head 21: the list
//     is passed through unchecked and the shim's head pointer is NOT moved.
//  Result - quiescent, nothing pending, no trigger, no error: underlying Store
//  head 22, but Syncer.Head() = State().Height = 21 (Syncer.Head() was 22
//  before that sync), and State().Finished() stays false (ToHeight 22) until
//  some later head happens to arrive.
// Model: Props/C07.v C07_straddling_range_example / C07_straddling_answer_example
// (the same schedules as events of Model/Syncer.v; since 7d16f07 they end reached).
//   go test -tags verif -run '^TestStraddleWitness$' -v ./c03/
package c03

import (
	"context"
	"encoding/hex"
	"testing"
	"time"

	"github.com/ipfs/go-datastore"
	dssync "github.com/ipfs/go-datastore/sync"

	"github.com/celestiaorg/go-header/store"
	"github.com/celestiaorg/go-header/sync"

	"verifharness/syncfx"
	"verifharness/vhdr"
)

func TestStraddleWitness(t *testing.T) {
	settle := func() { time.Sleep(40 * time.Millisecond) }
	vhdr.SetPolicy(vhdr.LinkPolicy(0))
	defer vhdr.SetPolicy(nil)
	start := time.Now()
	raw := vhdr.Chain("a", 15, 10, start.UnixNano()-int64(20*time.Millisecond), int64(time.Millisecond), nil)
	at := func(n uint64) *PH { return &PH{Header: *raw[n-15]} }
	ctx, cancel := context.WithTimeout(context.Background(), time.Minute)
	defer cancel()
	st, err := store.NewStore[*PH](dssync.MutexWrap(datastore.NewMapDatastore()), store.WithWriteBatchSize(1))
	if err != nil {
		t.Fatal(err)
	}
	if err := st.Start(ctx); err != nil {
		t.Fatal(err)
	}
	if err := st.Append(ctx, at(15), at(16), at(17)); err != nil {
		t.Fatal(err)
	}
	if err := st.Sync(ctx); err != nil {
		t.Fatal(err)
	}
	g := &phGetter{}
	sub := &phSub{}
	sy, err := sync.NewSyncer[*PH](g, st, sub,
		sync.WithSyncFromHash(hex.EncodeToString(at(15).Hash())), sync.WithBlockTime(time.Nanosecond),
		sync.WithTrustingPeriod(1000*time.Hour), sync.WithPruningWindow(2000*time.Hour))
	if err != nil {
		t.Fatal(err)
	}
	if err := sy.Start(ctx); err != nil {
		t.Fatal(err)
	}
	settle()
	storeHead := func() uint64 {
		h, err := st.Head(ctx)
		if err != nil {
			t.Fatalf("store head: %v", err)
		}
		return h.Height()
	}
	newGate := func() *hgate { return &hgate{armed: true, parked: make(chan struct{}), rel: make(chan struct{})} }
	parked := func(gt *hgate, what string) {
		select {
		case <-gt.parked:
		case <-time.After(2 * time.Second):
			t.Skipf("%s did not park at the expected call site (the code changed): witness not applicable", what)
		}
	}
	headCall := func(ans *PH) chan error {
		g.mu.Lock()
		g.head = ans
		g.mu.Unlock()
		res := make(chan error, 1)
		go func() { _, err := sy.Head(context.Background()); res <- err }()
		return res
	}

	waitStore := func(n uint64) {
		deadline := time.Now().Add(2 * time.Second)
		for storeHead() != n && time.Now().Before(deadline) {
			time.Sleep(2 * time.Millisecond)
		}
		if storeHead() != n {
			t.Fatalf("store head %d, want %d", storeHead(), n)
		}
		settle()
	}
	// 1. four Head() calls receive 18..21 (each asked with subjective head 17) and are delayed before using them
	var loaded []*PH
	var results []chan error
	for n := uint64(18); n <= 21; n++ {
		x := at(n)
		x.g = newGate()
		x.g.fn, x.g.nth = "networkHead", 1
		results = append(results, headCall(x))
		parked(x.g, "a Head() call with its answer")
		loaded = append(loaded, x)
	}
	// 2. gossip 19: pending [19], the loop requests (17, 19) - the getter is slow; then gossip 20, 21, 22
	for n := uint64(19); n <= 22; n++ {
		if err := sub.v(context.Background(), at(n)); err != nil {
			t.Fatalf("verifier(%d): %v", n, err)
		}
		settle()
	}
	g.mu.Lock()
	ch := g.cur
	g.mu.Unlock()
	if ch == nil {
		t.Fatalf("no range request outstanding")
	}
	lh0, err := sy.Head(ctx)
	if err != nil {
		t.Fatalf("Head: %v", err)
	}
	t.Logf("pending holds 19..22: Syncer.Head() = %d, store head = %d, outstanding request %v", lh0.Height(), storeHead(), g.reqs)
	// 3. the delayed Head() calls go on, one after the other
	for i, x := range loaded {
		close(x.g.rel)
		waitStore(18 + uint64(i))
	}
	t.Logf("the four Head() calls stored their heads: store head = %d, State().Height = %d", storeHead(), sy.State().Height)
	// 4. the range request is served in full
	g.mu.Lock()
	g.cur = nil
	g.mu.Unlock()
	ch <- []*PH{at(18)}
	settle()
	settle()
	for _, r := range results {
		select {
		case <-r:
		case <-time.After(3 * time.Second):
			t.Fatalf("a Head() call did not return")
		}
	}
	settle()
	lh, err := sy.Head(ctx)
	if err != nil {
		t.Fatalf("Head: %v", err)
	}
	state := sy.State()
	sh := storeHead()
	wctx, wcancel := context.WithTimeout(ctx, 200*time.Millisecond)
	werr := sy.SyncWait(wctx)
	wcancel()
	t.Logf("quiescent: Store head = %d, Syncer.Head() = %d, State = {ID %d From %d To %d Height %d Error %q Finished %v}, SyncWait: %v, range requests: %v",
		sh, lh.Height(), state.ID, state.FromHeight, state.ToHeight, state.Height, state.Error, state.Finished(), werr, g.reqs)
	_ = sy.Stop(ctx)
	settle()
	_ = st.Stop(ctx)
	if sh == 22 && lh.Height() < sh {
		t.Logf("WITNESS: every learned head (newest 22) is stored, nothing is pending, no error - but the subjective head and State().Height are %d (<%d) and the sync to %d never reports Finished",
			lh.Height(), sh, state.ToHeight)
	} else {
		t.Logf("not reproduced on this tree")
	}
}

// The same defect met by a range ANSWER instead of a pending range - two delayed Head() calls suffice and the
// sync ends with an error although the getter never failed:
//  1. store head 17; two Head() calls receive 18 and 19 and are delayed;
//  2. gossip 21: pending [21], the loop requests (17, 21) and the getter is slow;
//  3. the two Head() calls go on: shim head = store head = 19;
//  4. the getter answers [18 19 20], exactly what was asked: first height 18 is below the shim head, the list is
//     passed through, the shim's head stays 19 while the Store moves to 20; the cached 21 that follows is then
//     refused by the shim: "sync: non-adjacent: head 19, attempted 21".
// Result - quiescent: State().Error set, 21 pending for good (no trigger), store head 20, until a later head arrives.
//   go test -tags verif -run '^TestStraddleAnswerWitness$' -v ./c03/
func TestStraddleAnswerWitness(t *testing.T) {
	settle := func() { time.Sleep(40 * time.Millisecond) }
	vhdr.SetPolicy(vhdr.LinkPolicy(0))
	defer vhdr.SetPolicy(nil)
	start := time.Now()
	raw := vhdr.Chain("a", 15, 10, start.UnixNano()-int64(20*time.Millisecond), int64(time.Millisecond), nil)
	at := func(n uint64) *PH { return &PH{Header: *raw[n-15]} }
	ctx, cancel := context.WithTimeout(context.Background(), time.Minute)
	defer cancel()
	st, err := store.NewStore[*PH](dssync.MutexWrap(datastore.NewMapDatastore()), store.WithWriteBatchSize(1))
	if err != nil {
		t.Fatal(err)
	}
	if err := st.Start(ctx); err != nil {
		t.Fatal(err)
	}
	if err := st.Append(ctx, at(15), at(16), at(17)); err != nil {
		t.Fatal(err)
	}
	if err := st.Sync(ctx); err != nil {
		t.Fatal(err)
	}
	g := &phGetter{}
	sub := &phSub{}
	sy, err := sync.NewSyncer[*PH](g, st, sub,
		sync.WithSyncFromHash(hex.EncodeToString(at(15).Hash())), sync.WithBlockTime(time.Nanosecond),
		sync.WithTrustingPeriod(1000*time.Hour), sync.WithPruningWindow(2000*time.Hour))
	if err != nil {
		t.Fatal(err)
	}
	if err := sy.Start(ctx); err != nil {
		t.Fatal(err)
	}
	settle()
	storeHead := func() uint64 {
		h, err := st.Head(ctx)
		if err != nil {
			t.Fatalf("store head: %v", err)
		}
		return h.Height()
	}
	newGate := func() *hgate { return &hgate{armed: true, parked: make(chan struct{}), rel: make(chan struct{})} }
	parked := func(gt *hgate, what string) {
		select {
		case <-gt.parked:
		case <-time.After(2 * time.Second):
			t.Skipf("%s did not park at the expected call site (the code changed): witness not applicable", what)
		}
	}
	headCall := func(ans *PH) chan error {
		g.mu.Lock()
		g.head = ans
		g.mu.Unlock()
		res := make(chan error, 1)
		go func() { _, err := sy.Head(context.Background()); res <- err }()
		return res
	}

	waitStore := func(n uint64) {
		deadline := time.Now().Add(2 * time.Second)
		for storeHead() != n && time.Now().Before(deadline) {
			time.Sleep(2 * time.Millisecond)
		}
		if storeHead() != n {
			t.Fatalf("store head %d, want %d", storeHead(), n)
		}
		settle()
	}
	var loaded []*PH
	var results []chan error
	for n := uint64(18); n <= 19; n++ {
		x := at(n)
		x.g = newGate()
		x.g.fn, x.g.nth = "networkHead", 1
		results = append(results, headCall(x))
		parked(x.g, "a Head() call with its answer")
		loaded = append(loaded, x)
	}
	if err := sub.v(context.Background(), at(21)); err != nil {
		t.Fatalf("verifier(21): %v", err)
	}
	settle()
	g.mu.Lock()
	ch := g.cur
	g.mu.Unlock()
	if ch == nil {
		t.Fatalf("no range request outstanding")
	}
	t.Logf("pending holds 21: store head = %d, outstanding request %v", storeHead(), g.reqs)
	for i, x := range loaded {
		close(x.g.rel)
		waitStore(18 + uint64(i))
	}
	g.mu.Lock()
	g.cur = nil
	g.mu.Unlock()
	ch <- []*PH{at(18), at(19), at(20)}
	settle()
	settle()
	for _, r := range results {
		select {
		case <-r:
		case <-time.After(3 * time.Second):
			t.Fatalf("a Head() call did not return")
		}
	}
	settle()
	lh, err := sy.Head(ctx)
	if err != nil {
		t.Fatalf("Head: %v", err)
	}
	state := sy.State()
	sh := storeHead()
	t.Logf("quiescent: Store head = %d, Syncer.Head() = %d, State = {ID %d From %d To %d Height %d Error %q Finished %v}, range requests: %v",
		sh, lh.Height(), state.ID, state.FromHeight, state.ToHeight, state.Height, state.Error, state.Finished(), g.reqs)
	_ = sy.Stop(ctx)
	settle()
	_ = st.Stop(ctx)
	if state.Error != "" {
		t.Logf("WITNESS: the getter never failed and served exactly the requested range, yet the sync to %d ended with %q and %d stays pending", state.ToHeight, state.Error, lh.Height())
	} else {
		t.Logf("not reproduced on this tree")
	}
}

// Finding F24 (a lost update on the shim's head pointer), repaired in /repo 40dc6a8: syncStore.Append used to load
// the head, check the list against it and store the new head later, with nothing in between that excluded another
// Append (the sync loop and every Head() call's setLocalHead append concurrently; incomingMu serialises gossip
// calls only).  Since 40dc6a8 Append holds a lock from the load to the return of Store.Append.
//  1. store head 17; a Head() call receives 18 and is preempted inside syncStore.Append after loading the head 17;
//  2. a second Head() call (18 again) has to WAIT for it - before 40dc6a8 it went through, and so did calls
//     learning 19 and 20, after which the first call put its older head 18 back: Store head 20, Syncer.Head() =
//     State().Height = 18;
//  3. the first call goes on, both return; 19 and 20 are learned: Store head = Syncer.Head() = 20.
// The same run is an always-generated corpus case of the C03 and C07 checks (syncfx.RunStraddle("lock")).
//   go test -tags verif -run '^TestShimRaceWitness$' -v ./c03/
func TestShimRaceWitness(t *testing.T) {
	settle := func() { time.Sleep(40 * time.Millisecond) }
	vhdr.SetPolicy(vhdr.LinkPolicy(0))
	defer vhdr.SetPolicy(nil)
	start := time.Now()
	raw := vhdr.Chain("a", 15, 10, start.UnixNano()-int64(20*time.Millisecond), int64(time.Millisecond), nil)
	at := func(n uint64) *PH { return &PH{Header: *raw[n-15]} }
	ctx, cancel := context.WithTimeout(context.Background(), time.Minute)
	defer cancel()
	st, err := store.NewStore[*PH](dssync.MutexWrap(datastore.NewMapDatastore()), store.WithWriteBatchSize(1))
	if err != nil {
		t.Fatal(err)
	}
	if err := st.Start(ctx); err != nil {
		t.Fatal(err)
	}
	if err := st.Append(ctx, at(15), at(16), at(17)); err != nil {
		t.Fatal(err)
	}
	if err := st.Sync(ctx); err != nil {
		t.Fatal(err)
	}
	g := &phGetter{}
	sub := &phSub{}
	sy, err := sync.NewSyncer[*PH](g, st, sub,
		sync.WithSyncFromHash(hex.EncodeToString(at(15).Hash())), sync.WithBlockTime(time.Nanosecond),
		sync.WithTrustingPeriod(1000*time.Hour), sync.WithPruningWindow(2000*time.Hour))
	if err != nil {
		t.Fatal(err)
	}
	if err := sy.Start(ctx); err != nil {
		t.Fatal(err)
	}
	settle()
	storeHead := func() uint64 {
		h, err := st.Head(ctx)
		if err != nil {
			t.Fatalf("store head: %v", err)
		}
		return h.Height()
	}
	headCall := func(ans *PH) chan error {
		g.mu.Lock()
		g.head = ans
		g.mu.Unlock()
		res := make(chan error, 1)
		go func() { _, err := sy.Head(context.Background()); res <- err }()
		return res
	}
	wait := func(r chan error, d time.Duration) bool {
		select {
		case <-r:
			return true
		case <-time.After(d):
			return false
		}
	}
	x18 := at(18)
	x18.g = &hgate{armed: true, parked: make(chan struct{}), rel: make(chan struct{}), fn: "syncStore", nth: 1}
	rA := headCall(x18)
	select {
	case <-x18.g.parked:
	case <-time.After(2 * time.Second):
		t.Skip("the Head() call did not park inside syncStore.Append (the code changed): witness not applicable")
	}
	rB := headCall(at(18))
	locked := !wait(rB, 150*time.Millisecond)
	if locked {
		t.Logf("a second Head() call waits while the first is inside syncStore.Append (store head %d)", storeHead())
		close(x18.g.rel)
		if !wait(rA, 3*time.Second) || !wait(rB, 3*time.Second) {
			t.Fatalf("the Head() calls did not return after the release")
		}
	}
	for n := uint64(19); n <= 20; n++ {
		if !wait(headCall(at(n)), 3*time.Second) {
			t.Fatalf("Head() learning %d did not return", n)
		}
		settle()
	}
	if !locked {
		close(x18.g.rel)
		if !wait(rA, 3*time.Second) {
			t.Fatalf("the preempted Head() call did not return")
		}
	}
	settle()
	lh, err := sy.Head(ctx)
	if err != nil {
		t.Fatalf("Head: %v", err)
	}
	state := sy.State()
	sh := storeHead()
	t.Logf("quiescent: Store head = %d, Syncer.Head() = %d, State = {ID %d To %d Height %d Error %q}", sh, lh.Height(), state.ID, state.ToHeight, state.Height, state.Error)
	_ = sy.Stop(ctx)
	settle()
	_ = st.Stop(ctx)
	if lh.Height() < sh {
		t.Errorf("WITNESS (F24): the shim's head went back: Syncer.Head() and State().Height are %d, below the Store head %d, with nothing pending", lh.Height(), sh)
	} else if sh != 20 {
		t.Errorf("store head %d, want 20", sh)
	}
}

// Finding F25, repaired in /repo f604e5b: syncStore.Append used to store its new head BEFORE the underlying write; if
// that write then failed (store.Append fails when its write queue is full and the caller's context ends, or the
// store stops), the shim stayed ahead of the Store and the next adjacent headers were written above a hole.
// The run (the corpus case failwrite_loop of the C03 check): the loop's write of 18, 19 fails; gossip 21 restarts the
// sync.  Before f604e5b the loop continued from the shim's head 19: the Store ended with 15..17, 20, 21, ...
//   go test -tags verif -run '^TestFailedWriteWitness$' -v ./c03/
func TestFailedWriteWitness(t *testing.T) {
	for _, kind := range []string{"failwrite_loop", "failwrite_gossip"} {
		run, ok, err := syncfx.RunStraddle(kind)
		if err != nil {
			t.Fatal(err)
		}
		if !ok {
			t.Skipf("%s: the schedule could not be realised on this tree", kind)
		}
		t.Logf("%s: store serves %v; datastore heights %v", kind, run.Probe, run.Heights)
		gap := false
		for i := 1; i < len(run.Heights); i++ {
			if run.Heights[i] != run.Heights[i-1]+1 {
				gap = true
			}
		}
		if gap {
			t.Errorf("WITNESS (F25) %s: the datastore holds %v: a hole below a stored header after a failed write", kind, run.Heights)
		}
	}
}
