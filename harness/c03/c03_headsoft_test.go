//go:build verif

// Extra correspondence leg "headsoft" of C03: ORACLE ONLY (Oracle/C03.v chk03h answers agree = true
// for every case; Model/Syncer.v has no event for this branch).
//
// The branch: Syncer.networkHead asks getter.Head(WithTrustedHead(subjective head)); the answer is a
// header together with a SOFT *header.VerifyError (what p2p.Exchange hands back for a head of the
// tracked peers that it could not verify directly), and networkHead gives it to incomingNetworkHead
// for bifurcation.  While the request is in flight gossip moves the Syncer on: the adjacent next
// header(s) are stored, optionally a far valid header becomes the pending sync target with the sync
// loop stalled (range request gated) or failed (range request answered with an error).  Then the
// request is answered.  Whatever the answer is - forged in several ways, or a true header - at every
// later quiescence the Store must hold true headers only, as one run tail..head, and the subjective
// head must be a true header.
package c03

import (
	"context"
	"errors"
	"fmt"
	"testing"
	"testing/synctest"

	logging "github.com/ipfs/go-log/v2"

	header "github.com/celestiaorg/go-header"

	"verifharness/emit"
	"verifharness/syncfx"
	"verifharness/vhdr"
)

// sigPolicy is vhdr.LinkPolicy plus a "signature": a header with a non-zero nonce fails every
// verification (true chain headers carry nonce 0), so that a forged header is refused at any
// distance - softly when not adjacent (header.Verify), hard when adjacent.
func sigPolicy(trust uint64) vhdr.Policy {
	return func(t, u *vhdr.Header) error {
		if u.H == t.H+1 {
			if string(u.Prev) != string(t.Hash()) {
				return &vhdr.TypeErr{ID: 1}
			}
			if u.Nonce != 0 {
				return &vhdr.TypeErr{ID: 3}
			}
			return nil
		}
		if trust != 0 && u.H-t.H > trust {
			return &vhdr.TypeErr{ID: 2}
		}
		if u.Nonce != 0 {
			return &vhdr.TypeErr{ID: 3}
		}
		return nil
	}
}

type hsScenario struct {
	stall  string // "none": no far target; "gated": far target, range request left outstanding; "failing": range request failed
	trust  uint64 // trust range of the policy (0 = unlimited)
	far    uint64 // distance of the far valid header above the last adjacent one (0 with stall none)
	k      int    // adjacent headers gossip delivers while the request is in flight (1 or 2)
	answer string
	batch  int
}

var hsAnswers = []string{
	"forged_badlink_next", // height N+k+1 (adjacent to the store head), broken hash link
	"forged_fork_next",    // height N+k+1, links to the true store head, bad signature
	"forged_at_head",      // height N+k (the store head's height)
	"forged_below_head",   // height N+1 (below the store head when k = 2; the store head's height when k = 1)
	"forged_at_asked",     // height N (the head the request was made with)
	"forged_far",          // far above everything known
	"forged_between",      // above the store head, below the pending target (stall != none), not adjacent
	"true_next",           // the true header at N+k+1: bifurcation / direct verification succeeds unless it is known already
	"true_stored",         // the true header at N+1 (stored meanwhile)
	"true_target",         // the far valid header itself (stall != none) / N+k+2 (stall none)
	"true_beyond",         // a true header above everything known
}

func hsForged(kind string) bool { return len(kind) > 6 && kind[:6] == "forged" }

func pairOf(f *syncfx.Fixture, h H) string {
	if h == nil {
		return "(0, 0)"
	}
	return fmt.Sprintf("(%d, %d)", h.Height(), f.Reg.ID(h.Hash()))
}

func hsObserve(f *syncfx.Fixture) (string, syncfx.Obs) {
	o := f.Observe(0)
	shead := "(0, 0)"
	upper := f.Top() + 2
	if hd, err := f.Store.Store.Head(context.Background()); err == nil && hd != nil {
		shead = pairOf(f, hd)
		if hd.Height()+2 > upper {
			upper = hd.Height() + 2
		}
	}
	var probe []string
	for n := f.Tail; n <= upper; n++ {
		ctx, cancel := syncfx.ShortCtx()
		h, err := f.Store.Store.GetByHeight(ctx, n)
		cancel()
		if err == nil && h != nil {
			probe = append(probe, fmt.Sprintf("(%d, %d)", h.Height(), f.Reg.ID(h.Hash())))
		}
	}
	return fmt.Sprintf("(Obs03h %s %d %s %s)", pairOf(f, o.LocalHdr), o.StateHeight, shead, emit.List(probe)), o
}

func runHeadSoft(t *testing.T, w *emit.Writer, sc hsScenario, rng *emit.Rand) {
	synctest.Test(t, func(t *testing.T) {
		vhdr.SetPolicy(sigPolicy(sc.trust))
		tail := 1 + rng.U64()%30
		nInit := 1 + rng.Intn(3)
		nChain := 70
		f, err := syncfx.NewFixture(tail, nInit, nChain, sc.batch)
		if err != nil {
			t.Fatalf("fixture: %v", err)
		}
		for n := f.Tail; n <= f.Top(); n++ {
			f.Getter.ByHeight[n] = f.At(n) // bifurcation is served the true chain
		}
		total := uint64(nInit + nChain)
		N := f.Init[len(f.Init)-1].Height() // the subjective head the request is made with
		K := uint64(sc.k)
		target := uint64(0)
		if sc.stall != "none" {
			target = N + K + sc.far
		}
		known := N + K // highest height known when the answer arrives
		if target > known {
			known = target
		}

		var forged []H
		forge := func(n uint64, prev []byte) H {
			tm := f.At(N).T + 1
			if th := f.At(n); th != nil {
				tm = th.T
			}
			h := &vhdr.Header{Chain: "a", H: n, T: tm, Prev: prev, Nonce: 1 + rng.U64()%100000}
			forged = append(forged, h)
			return h
		}
		var ans H
		switch sc.answer {
		case "forged_badlink_next":
			ans = forge(N+K+1, []byte("not-the-parent"))
		case "forged_fork_next":
			ans = forge(N+K+1, f.At(N+K).Hash())
		case "forged_at_head":
			ans = forge(N+K, f.At(N+K-1).Hash())
		case "forged_below_head":
			ans = forge(N+1, []byte("not-the-parent"))
		case "forged_at_asked":
			ans = forge(N, []byte("not-the-parent"))
		case "forged_far":
			ans = forge(known+9+uint64(rng.Intn(12)), []byte("whatever"))
		case "forged_between":
			if target < N+K+3 {
				ans = forge(N+K+2, []byte("whatever"))
			} else {
				ans = forge(N+K+2+uint64(rng.Intn(int(target-N-K-2))), []byte("whatever"))
			}
		case "true_next":
			ans = f.At(N + K + 1)
		case "true_stored":
			ans = f.At(N + 1)
		case "true_target":
			if target != 0 {
				ans = f.At(target)
			} else {
				ans = f.At(N + K + 2)
			}
		case "true_beyond":
			ans = f.At(known + 3 + uint64(rng.Intn(10)))
		}
		if ans == nil {
			t.Fatalf("scenario %+v: no answer header", sc)
		}
		var forgedIDs []string
		for _, h := range forged {
			forgedIDs = append(forgedIDs, fmt.Sprint(f.Reg.ID(h.Hash())))
		}

		// 1. Head(): subjective head N is not recent, the network head request goes out and is parked
		soft := &header.VerifyError{Reason: errors.New("headsoft: not verifiable against the trusted head"), SoftFailure: true}
		f.Getter.ParkNextHead()
		f.Getter.SetHeadAnswerErr(ans, soft)
		type headRes struct {
			h   H
			err error
		}
		done := make(chan headRes, 1)
		go func() {
			h, err := f.Syncer.Head(syncfx.WithWho(context.Background(), 1000))
			done <- headRes{h, err}
		}()
		synctest.Wait()
		f.Getter.ClearPark()
		if !f.Getter.HeadParked() {
			t.Fatalf("scenario %+v: the Head() call did not reach the getter", sc)
		}

		// 2. gossip is faster: the adjacent next header(s) are stored at once ...
		for i := uint64(1); i <= K; i++ {
			f.Deliver(f.At(N + i))
		}
		// ... and a far valid header becomes the sync target; the sync loop does not get anywhere
		if target != 0 {
			f.Deliver(f.At(target))
			if sc.stall == "failing" {
				for i := 0; i < 4 && f.Getter.Outstanding() != nil; i++ {
					f.Getter.Answer(nil, syncfx.ErrKinds[rng.Intn(len(syncfx.ErrKinds))])
					synctest.Wait()
				}
			}
		}
		// a forged header on its own is refused over gossip as well (and must leave no trace)
		if hsForged(sc.answer) && rng.Chance(50) {
			i := f.Deliver(ans)
			w.Count("forged_over_gossip_ret", fmt.Sprint(f.Results[i]))
		}

		// 3. the network answers the Head request: (ans, soft verification error)
		if !f.Getter.ReleaseHead() {
			t.Fatalf("scenario %+v: no parked Head request to release", sc)
		}
		synctest.Wait()
		ret, rhdr := 3, "(0, 0)"
		select {
		case r := <-done:
			if r.err == nil {
				ret, rhdr = 1, pairOf(f, r.h)
			} else {
				ret = 2
			}
		default:
		}
		w.Count("head_ret", fmt.Sprintf("%s/%d", sc.answer, ret))

		var obs []string
		o1, ob := hsObserve(f) // sync loop still stalled / failed
		obs = append(obs, o1)
		if rhdr != "(0, 0)" {
			switch {
			case ret == 1 && ans.Height() > N && rhdr == pairOf(f, ans):
				w.Count("adopted", sc.answer)
			default:
				w.Count("not_adopted", sc.answer)
			}
		}

		// 4. recovery: the next true header over gossip (re-triggers a failed sync), every range request
		// answered with the true chain; observed after each step
		if nx := f.At(ob.Local + 1); nx != nil {
			f.Deliver(nx)
			o2, _ := hsObserve(f)
			obs = append(obs, o2)
		}
		for i := 0; i < 40; i++ {
			req := f.Getter.Outstanding()
			if req == nil {
				break
			}
			var hs []H
			for n := req.From.Height() + 1; n <= req.To; n++ {
				if h := f.At(n); h != nil {
					hs = append(hs, h)
				}
			}
			if len(hs) == 0 {
				f.Getter.Answer(nil, syncfx.ErrScripted)
			} else {
				f.Getter.Answer(hs, nil)
			}
			synctest.Wait()
		}
		o3, _ := hsObserve(f)
		obs = append(obs, o3)
		f.Close()

		class := fmt.Sprintf("%s/%s/t%d/k%d", sc.answer, sc.stall, sc.trust, sc.k)
		term := fmt.Sprintf("Case03h %d %d %s %d %s %s", tail, total, emit.List(forgedIDs), ret, rhdr, emit.List(obs))
		w.Add(term, map[string]any{"class": class, "scenario": fmt.Sprintf("%+v", sc), "tail": tail, "asked_with_head": N, "answer_height": ans.Height(),
			"pending_target": target, "batch": sc.batch}, class, true)
		w.Count("answer", sc.answer)
		w.Count("stall", sc.stall)
	})
	vhdr.SetPolicy(nil)
}

func TestC03HeadSoft(t *testing.T) {
	_ = logging.SetLogLevel("*", "fatal")
	rng := emit.NewRand(emit.Seed() + 77)
	w := emit.NewWriter("Model.Verify Model.Ranges Model.Syncer Oracle.C07 Oracle.C03", "case03h", "chk03h")
	w.PerShard(200)
	w.Rule = "ORACLE ONLY (no model agreement: chk03h answers agree = true for every case; Model/Syncer.v has no event for the soft-answer " +
		"branch of networkHead). Real Syncer over a real Store in virtual time, subjective head N not recent; a Head() call whose getter.Head(WithTrustedHead) " +
		"request is parked; while it is in flight gossip delivers the adjacent header(s) N+1 (N+2) - stored - and optionally a far valid header (pending " +
		"target; the sync loop stalled in a gated range request, or failed by a getter error of any kind; target within the trust range or reached by " +
		"bifurcation); the forged answer is (half of the time) also offered over gossip; then the request is answered with (h, soft *VerifyError), h = forged " +
		"header adjacent to the store head (bad link / linked fork with a bad signature), forged at or below the store head, at the asked head's height, " +
		"between store head and target, far above, or the TRUE header next to the store head / already stored / the target / beyond everything; ByHeight " +
		"serves the true chain; forged headers fail every verification (policy: link when adjacent, signature = zero nonce always, trust range). Observed at the " +
		"quiescence after the answer, after the next true header over gossip, and after all range requests were answered honestly: Head()'s return, " +
		"Syncer.Head(), State().Height, store head, every height the Store serves. Oracle: stored ids are the true chain's at their heights, the store is one " +
		"run tail..head, returned and subjective heads are true headers (never a forged one), State().Height <= Syncer.Head()"
	type st struct {
		stall string
		trust uint64
		far   uint64
	}
	stalls := []st{
		{"none", 0, 0}, {"none", 6, 0},
		{"gated", 0, 8}, {"gated", 6, 5}, {"gated", 4, 11}, // far 11 > trust 4: the target itself is reached by bifurcation
		{"failing", 0, 8}, {"failing", 6, 5}, {"failing", 4, 11},
	}
	batches := []int{1, 64}
	if !emit.Thorough() {
		batches = []int{1}
	}
	var scs []hsScenario
	for _, s := range stalls {
		for _, k := range []int{1, 2} {
			for _, a := range hsAnswers {
				if a == "forged_between" && s.stall == "none" {
					continue
				}
				for _, b := range batches {
					scs = append(scs, hsScenario{stall: s.stall, trust: s.trust, far: s.far, k: k, answer: a, batch: b})
				}
			}
		}
	}
	if !emit.Thorough() { // batch 64 on a sample
		for i := 0; i < 40; i++ {
			sc := scs[rng.Intn(len(scs))]
			sc.batch = 64
			scs = append(scs, sc)
		}
	}
	for _, sc := range scs {
		runHeadSoft(t, w, sc, rng)
	}
	if err := w.Flush(); err != nil {
		t.Fatal(err)
	}
	t.Logf("emitted %d cases", w.Len())
}
