//go:build verif

// Always-generated corpus case of the C03 check: the check-then-act window of
// setLocalHead on the real code (see stale_test.go for the mechanism), emitted
// as a Case03 so that model and oracle judge it: a verifier call for header 19
// is parked right before pending.Add ([DDeliverP]); Head() learns 20; the loop
// syncs 18..20; the parked call resumes ([DRelT]) and adds 19 below the store
// head; the sync it triggers must drop it (77026ec), so that at quiescence the
// subjective head is the store head.
package c03

import (
	"context"
	"encoding/hex"
	"fmt"
	"testing"
	"time"

	"github.com/ipfs/go-datastore"
	"github.com/ipfs/go-datastore/query"
	dssync "github.com/ipfs/go-datastore/sync"

	header "github.com/celestiaorg/go-header"
	"github.com/celestiaorg/go-header/store"
	"github.com/celestiaorg/go-header/sync"

	"verifharness/emit"
	"verifharness/vhdr"
)

// waitFor polls a condition; when it never holds the case goes on and records what it sees
// (model and oracle then judge the deviation) instead of aborting the whole driver.
func waitFor(t *testing.T, what string, cond func() bool) bool {
	deadline := time.Now().Add(3 * time.Second)
	for !cond() {
		if time.Now().After(deadline) {
			t.Logf("corpus case: %s did not happen", what)
			return false
		}
		time.Sleep(2 * time.Millisecond)
	}
	time.Sleep(20 * time.Millisecond) // let the goroutines that were woken settle
	return true
}

func corpusLateAdd(t *testing.T, w *emit.Writer) {
	vhdr.SetPolicy(vhdr.LinkPolicy(0))
	defer vhdr.SetPolicy(nil)
	reg := vhdr.NewRegistry()
	const tail, nInit, nChain = 15, 3, 12
	sp := int64(time.Millisecond)
	t0 := time.Now().UnixNano() - int64(nInit+nChain+10)*sp
	raw := vhdr.Chain("a", tail, nInit+nChain, t0, sp, nil)
	for _, h := range raw {
		reg.ID(h.Hash())
	}
	reg.ChainNo("a")
	at := func(n uint64) *PH { return &PH{Header: *raw[n-tail]} }
	ctx, cancel := context.WithTimeout(context.Background(), time.Minute)
	defer cancel()
	ds := dssync.MutexWrap(datastore.NewMapDatastore())
	st, err := store.NewStore[*PH](ds, store.WithWriteBatchSize(1))
	if err != nil {
		t.Fatal(err)
	}
	if err := st.Start(ctx); err != nil {
		t.Fatal(err)
	}
	if err := st.Append(ctx, at(15), at(16), at(17)); err != nil {
		t.Fatal(err)
	}
	if err := st.Sync(ctx); err != nil {
		t.Fatal(err)
	}
	g := &phGetter{}
	sub := &phSub{}
	sy, err := sync.NewSyncer[*PH](g, st, sub,
		sync.WithSyncFromHash(hex.EncodeToString(at(15).Hash())), sync.WithBlockTime(time.Nanosecond),
		sync.WithTrustingPeriod(1000*time.Hour), sync.WithPruningWindow(2000*time.Hour))
	if err != nil {
		t.Fatal(err)
	}
	if err := sy.Start(ctx); err != nil {
		t.Fatal(err)
	}
	time.Sleep(20 * time.Millisecond)

	storeHead := func() uint64 {
		h, err := st.Head(ctx)
		if err != nil {
			return 0
		}
		return h.Height()
	}
	storeHeadID := func() uint64 {
		h, err := st.Head(ctx)
		if err != nil {
			return 0
		}
		if at, err := st.GetByHeight(ctx, h.Height()); err == nil && at != nil {
			return reg.ID(at.Hash())
		}
		return reg.ID(h.Hash())
	}
	var acts []string
	obs := func(act string, ret int) {
		for try := 0; try < 50; try++ { // let the store's own flush loop catch up (real time); a genuine gap stays
			c2, cancel2 := context.WithTimeout(context.Background(), 5*time.Millisecond)
			a, err2 := st.GetByHeight(c2, storeHead()+1)
			cancel2()
			if err2 != nil || a == nil {
				break
			}
			time.Sleep(20 * time.Millisecond)
		}
		o := fmt.Sprintf("(Obs %d %d ", ret, storeHead())
		lh, err := sy.Head(ctx) // the getter's Head fails: returns the subjective head
		if err != nil || lh == nil {
			t.Fatalf("Head: %v", err)
		}
		s := sy.State()
		req := "None"
		g.mu.Lock()
		if g.cur != nil {
			last := g.reqs[len(g.reqs)-1]
			req = fmt.Sprintf("(Some (%d, %d))", last[0], last[1])
		}
		g.mu.Unlock()
		top := storeHead()
		for k := uint64(1); k <= 4; k++ {
			c2, cancel2 := context.WithTimeout(context.Background(), 5*time.Millisecond)
			if a, err := st.GetByHeight(c2, storeHead()+k); err == nil && a != nil {
				top = storeHead() + k
			}
			cancel2()
		}
		o += fmt.Sprintf("%d %d %d %d %d %s %d %s %d %d)", lh.Height(), reg.ID(lh.Hash()), s.ID, s.FromHeight, s.ToHeight, emit.B(s.Error != ""), s.Height, req, storeHeadID(), top)
		acts = append(acts, emit.Pair(act, o))
	}
	term := func(h *PH) string { return reg.Term(&h.Header) }

	// 0: gossip 19 parks right before pending.Add
	gate := &hgate{armed: true, parked: make(chan struct{}), rel: make(chan struct{})}
	x19 := at(19)
	x19.g = gate
	res19 := make(chan error, 1)
	now := time.Now().UnixNano()
	go func() { res19 <- sub.v(context.Background(), x19) }()
	parkedOK := false
	select {
	case <-gate.parked:
		parkedOK = true
	case <-time.After(2 * time.Second):
	}
	if !parkedOK {
		t.Log("corpus case late_add: the verifier call did not park inside setLocalHead (call site changed); case not generated")
		close(gate.rel)
		<-res19
		_ = sy.Stop(ctx)
		_ = st.Stop(ctx)
		return
	}
	time.Sleep(10 * time.Millisecond)
	obs(fmt.Sprintf("(DDeliverP %s %s (Bif [] false))", term(x19), emit.Z(now)), 3)
	// 1: Head() learns 20
	g.mu.Lock()
	g.head = at(20)
	g.mu.Unlock()
	resHead := make(chan error, 1)
	go func() { _, err := sy.Head(context.Background()); resHead <- err }()
	waitFor(t, "the range request", func() bool { g.mu.Lock(); defer g.mu.Unlock(); return g.cur != nil })
	obs(fmt.Sprintf("(DHead (Some %s))", term(at(20))), 0)
	// 2: the getter serves 18, 19
	g.mu.Lock()
	ch := g.cur
	g.cur = nil
	g.mu.Unlock()
	if ch != nil {
		ch <- []*PH{at(18), at(19)}
		waitFor(t, "store head 20", func() bool { return storeHead() == 20 && sy.State().Height == 20 })
		obs("(DAnswer (APrefix 2))", 0)
	}
	// 3: the parked call resumes: pending.Add(19), wantSync
	close(gate.rel)
	select {
	case <-res19:
	case <-time.After(3 * time.Second):
		t.Logf("corpus case: the parked verifier call did not return")
	}
	select {
	case <-resHead:
	case <-time.After(3 * time.Second):
		t.Logf("corpus case: Head() did not return")
	}
	time.Sleep(40 * time.Millisecond)
	obs("(DRelT 0)", 0)
	// 4: the next head
	now = time.Now().UnixNano()
	err21 := sub.v(context.Background(), at(21))
	time.Sleep(40 * time.Millisecond)
	r21 := 1
	if err21 != nil {
		r21 = 2
	}
	obs(fmt.Sprintf("(DDeliver %s %s (Bif [] false))", term(at(21)), emit.Z(now)), r21)
	// 5: a head that skips heights: the sync it starts resumes from the store head
	now = time.Now().UnixNano()
	err26 := sub.v(context.Background(), at(26))
	r26 := 1
	if err26 != nil {
		r26 = 2
	}
	waitFor(t, "the range request for 22..25", func() bool { g.mu.Lock(); defer g.mu.Unlock(); return g.cur != nil })
	obs(fmt.Sprintf("(DDeliver %s %s (Bif [] false))", term(at(26)), emit.Z(now)), r26)
	// 6: served in full
	g.mu.Lock()
	ch = g.cur
	g.cur = nil
	var last [2]uint64
	if len(g.reqs) > 0 {
		last = g.reqs[len(g.reqs)-1]
	}
	g.mu.Unlock()
	if ch != nil && last[1] > last[0]+1 && last[0] >= tail {
		var hs []*PH
		for n := last[0] + 1; n < last[1] && n < tail+nInit+nChain; n++ {
			hs = append(hs, at(n))
		}
		ch <- hs
		waitFor(t, "store head 26", func() bool { return storeHead() == 26 && sy.State().Height == 26 })
		obs(fmt.Sprintf("(DAnswer (APrefix %d))", len(hs)), 0)
	}

	var probe []string
	for n := uint64(tail); n <= tail+nInit+nChain+1; n++ {
		c2, cancel2 := context.WithTimeout(context.Background(), 5*time.Millisecond)
		h, err := st.GetByHeight(c2, n)
		cancel2()
		if err == nil && h != nil {
			probe = append(probe, fmt.Sprintf("(%d, %d)", h.Height(), reg.ID(h.Hash())))
		}
	}
	_ = sy.Stop(ctx)
	time.Sleep(10 * time.Millisecond)
	_ = st.Stop(ctx)
	var heights []string
	hashes := 0
	res, err := ds.Query(context.Background(), query.Query{KeysOnly: true})
	if err != nil {
		t.Fatal(err)
	}
	var hs []uint64
	for r := range res.Next() {
		k := r.Key[len("/headers/"):]
		if k == "head" || k == "tail" {
			continue
		}
		var n uint64
		if _, e := fmt.Sscanf(k, "%d", &n); e == nil && fmt.Sprint(n) == k {
			hs = append(hs, n)
		} else {
			hashes++
		}
	}
	res.Close()
	for i := range hs {
		for j := i + 1; j < len(hs); j++ {
			if hs[j] < hs[i] {
				hs[i], hs[j] = hs[j], hs[i]
			}
		}
	}
	for _, n := range hs {
		heights = append(heights, fmt.Sprint(n))
	}
	gen := func(from uint64, n int, id uint64) string {
		prev := uint64(0)
		if id > 1 {
			prev = id - 1
		}
		return fmt.Sprintf("(gen_chain 1 %d %d (%d)%%Z (%d)%%Z %d %d)", from, n, t0+int64(from-tail)*sp, sp, id, prev)
	}
	caseTerm := fmt.Sprintf("Case03 %s 0 false %d %s %s %s [1; 1; %d; %d] %s %s %d", emit.Z(int64(header.VerifClockDrift())), tail,
		gen(tail, nInit, 1), gen(tail+nInit, nChain, nInit+1), emit.List(acts), r21, r26, emit.List(probe), emit.List(heights), hashes)
	w.Add(caseTerm, map[string]any{"class": "corpus/late_pending_add", "what": "verifier call parked before pending.Add, Head() learns the next head, loop syncs, late Add"},
		"corpus/late_pending_add", true)
	w.Count("class", "corpus/late_pending_add")
}
