//go:build verif

// Stand-alone witness on the real code for the check-then-act window of
// setLocalHead (Props/C03.v C03_late_add_dropped_example). On trees before
// /repo 77026ec it logs WITNESS (Syncer.Head() stuck below the store head); on
// the repaired tree Head() is 20, then 21. The same schedule is part of the C03
// check as an always-generated corpus case (corpus_test.go).
// A gossip verifier call is parked between
// setLocalHead's "already synced?" comparison and pending.Add by a header type
// whose Height() blocks at that call site; meanwhile Head() learns the next
// head and the sync loop stores everything; the late pending.Add then leaves a
// header BELOW the store head in pending, which nothing ever removes:
// Syncer.Head() keeps reporting it while the store moves on.
// Not part of the C03 check (it needs its own header type); run with
//   go test -tags verif -run '^TestStalePendingWitness$' ./c03/
package c03

import (
	"context"
	"encoding/hex"
	"errors"
	"runtime"
	"strings"
	gosync "sync"
	"testing"
	"time"

	"github.com/ipfs/go-datastore"
	dssync "github.com/ipfs/go-datastore/sync"

	header "github.com/celestiaorg/go-header"
	"github.com/celestiaorg/go-header/store"
	"github.com/celestiaorg/go-header/sync"

	"verifharness/vhdr"
)

type hgate struct {
	mu     gosync.Mutex
	armed  bool
	n      int
	parked chan struct{}
	rel    chan struct{}
	fn     string // park in the nth Height() call made from a function whose name contains fn
	nth    int    // (defaults: "setLocalHead", 2)
	within string // if set: only when some outer frame's function name contains it (e.g. the sync loop's goroutine)
}

func (g *hgate) hit() {
	g.mu.Lock()
	if !g.armed {
		g.mu.Unlock()
		return
	}
	pc := make([]uintptr, 16)
	n := runtime.Callers(3, pc) // 0 Callers, 1 hit, 2 Height, 3 = Height's caller
	fr := runtime.CallersFrames(pc[:n])
	f, more := fr.Next()
	if g.within != "" {
		found := false
		for more {
			var o runtime.Frame
			o, more = fr.Next()
			if strings.Contains(o.Function, g.within) {
				found = true
				break
			}
		}
		if !found {
			g.mu.Unlock()
			return
		}
	}
	fn, nth := g.fn, g.nth
	if fn == "" {
		fn, nth = "setLocalHead", 2
	}
	if !strings.Contains(f.Function, fn) {
		g.mu.Unlock()
		return
	}
	g.n++
	if g.n != nth { // setLocalHead: 1st: metrics argument; 2nd: storeHead.Height() >= netHead.Height()
		g.mu.Unlock()
		return
	}
	g.armed = false
	g.mu.Unlock()
	close(g.parked)
	<-g.rel
}

// PH is vhdr.Header plus a Height() that can park its caller.
type PH struct {
	vhdr.Header
	g  *hgate
	g2 *hgate
}

func (h *PH) New() *PH     { return new(PH) }
func (h *PH) IsZero() bool { return h == nil }
func (h *PH) Height() uint64 {
	if h.g != nil {
		h.g.hit()
	}
	if h.g2 != nil {
		h.g2.hit()
	}
	return h.H
}
func (h *PH) Verify(u *PH) error { return h.Header.Verify(&u.Header) }

var _ header.Header[*PH] = (*PH)(nil)

type phGetter struct {
	mu   gosync.Mutex
	head *PH
	cur  chan []*PH
	reqs [][2]uint64
}

func (g *phGetter) Head(context.Context, ...header.HeadOption[*PH]) (*PH, error) {
	g.mu.Lock()
	defer g.mu.Unlock()
	if g.head == nil {
		return nil, errors.New("no head")
	}
	h := g.head
	g.head = nil
	return h, nil
}
func (g *phGetter) Get(context.Context, header.Hash) (*PH, error)      { return nil, errors.New("no") }
func (g *phGetter) GetByHeight(context.Context, uint64) (*PH, error) { return nil, errors.New("no") }
func (g *phGetter) GetRangeByHeight(ctx context.Context, from *PH, to uint64) ([]*PH, error) {
	ch := make(chan []*PH, 1)
	g.mu.Lock()
	g.cur = ch
	g.reqs = append(g.reqs, [2]uint64{from.Height(), to})
	g.mu.Unlock()
	select {
	case hs := <-ch:
		return hs, nil
	case <-ctx.Done():
		return nil, ctx.Err()
	}
}

type phSub struct{ v func(context.Context, *PH) error }

func (s *phSub) Subscribe() (header.Subscription[*PH], error) { return nil, errors.New("no") }
func (s *phSub) SetVerifier(f func(context.Context, *PH) error) error {
	s.v = f
	return nil
}

// Real time (not a synctest bubble): while the verifier call is parked it holds
// incomingMu, and the Head() call then waits on that mutex, which synctest does
// not count as durably blocked.
func TestStalePendingWitness(t *testing.T) {
	settle := func() { time.Sleep(40 * time.Millisecond) }
	func() {
		start := time.Now()
		raw := vhdr.Chain("a", 15, 8, start.UnixNano()-int64(20*time.Millisecond), int64(time.Millisecond), nil)
		ph := func(i int) *PH { return &PH{Header: *raw[i]} }
		at := func(n uint64) *PH { return ph(int(n - 15)) }
		ctx, cancel := context.WithTimeout(context.Background(), time.Minute)
		defer cancel()
		st, err := store.NewStore[*PH](dssync.MutexWrap(datastore.NewMapDatastore()), store.WithWriteBatchSize(1))
		if err != nil {
			t.Fatal(err)
		}
		if err := st.Start(ctx); err != nil {
			t.Fatal(err)
		}
		if err := st.Append(ctx, at(15), at(16), at(17)); err != nil {
			t.Fatal(err)
		}
		if err := st.Sync(ctx); err != nil {
			t.Fatal(err)
		}
		g := &phGetter{}
		sub := &phSub{}
		sy, err := sync.NewSyncer[*PH](g, st, sub,
			sync.WithSyncFromHash(hex.EncodeToString(at(15).Hash())), sync.WithBlockTime(time.Nanosecond),
			sync.WithTrustingPeriod(1000*time.Hour), sync.WithPruningWindow(2000*time.Hour))
		if err != nil {
			t.Fatal(err)
		}
		if err := sy.Start(ctx); err != nil {
			t.Fatal(err)
		}
		settle()
		localHead := func() uint64 {
			h, err := sy.Head(ctx)
			if err != nil {
				t.Fatalf("Head: %v", err)
			}
			return h.Height()
		}
		storeHead := func() uint64 {
			h, err := st.Head(ctx)
			if err != nil {
				t.Fatalf("store head: %v", err)
			}
			return h.Height()
		}

		// 1. gossip 19 (valid) is verified against 17 and parks inside setLocalHead, right before pending.Add
		gate := &hgate{armed: true, parked: make(chan struct{}), rel: make(chan struct{})}
		x19 := at(19)
		x19.g = gate
		res19 := make(chan error, 1)
		go func() { res19 <- sub.v(context.Background(), x19) }()
		settle()
		select {
		case <-gate.parked:
		default:
			t.Skip("the verifier call did not park at the expected call site (setLocalHead changed): witness not applicable")
		}
		// 2. Head() learns 20 from the trusted getter; the sync loop requests (17, 20)
		g.mu.Lock()
		g.head = at(20)
		g.mu.Unlock()
		resHead := make(chan error, 1)
		go func() { _, err := sy.Head(context.Background()); resHead <- err }()
		settle()
		g.mu.Lock()
		ch := g.cur
		g.mu.Unlock()
		if ch == nil {
			t.Fatalf("no range request outstanding")
		}
		// 3. the honest getter serves 18, 19; the loop appends them and the cached 20 and goes idle
		ch <- []*PH{at(18), at(19)}
		settle()
		if sh := storeHead(); sh != 20 {
			t.Fatalf("store head %d, want 20", sh)
		}
		// 4. the parked call resumes: pending.Add(19) although the store is at 20
		close(gate.rel)
		settle()
		if err := <-res19; err != nil {
			t.Fatalf("verifier(19): %v", err)
		}
		<-resHead
		lh, sh := localHead(), storeHead()
		t.Logf("after the late pending.Add: Syncer.Head() = %d, store head = %d, State = %+v", lh, sh, sy.State())
		// 5. the next head is adjacent to the store head: stored directly, pending keeps 19 forever
		if err := sub.v(context.Background(), at(21)); err != nil {
			t.Fatalf("verifier(21): %v", err)
		}
		settle()
		lh2, sh2 := localHead(), storeHead()
		t.Logf("after the next head:          Syncer.Head() = %d, store head = %d, requests = %v", lh2, sh2, g.reqs)
		_ = sy.Stop(ctx)
		settle()
		_ = st.Stop(ctx)
		settle()
		if lh < sh || lh2 < sh2 {
			t.Logf("WITNESS: the subjective head (%d, then %d) is below the store head (%d, then %d) and stays there", lh, lh2, sh, sh2)
		} else {
			t.Logf("not reproduced on this tree")
		}
	}()
}
