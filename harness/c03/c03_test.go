//go:build verif

// Driver for C03: a real sync.Syncer over the real store.Store behind a
// gate-able wrapper (a Store.Append call can be parked between the shim's cache
// update and the store write), a scripted getter (honest prefixes, errors,
// empty / shifted / over-long / sparse answers) and the captured gossip
// verifier fed with forged, forked, wrong-chain, future-dated, stale,
// out-of-order and duplicate headers, all inside synctest bubbles.
package c03

import (
	"context"
	"errors"
	"fmt"
	"testing"
	"testing/synctest"
	"time"

	logging "github.com/ipfs/go-log/v2"

	header "github.com/celestiaorg/go-header"

	"verifharness/emit"
	"verifharness/syncfx"
	"verifharness/vhdr"
)

type H = *vhdr.Header

type runner struct {
	f     *syncfx.Fixture
	w     *emit.Writer
	acts  []string
	nacts int
	last  syncfx.Obs
	kinds map[string]int
	trust uint64

	errKind  int // getter errors cycle through syncfx.ErrKinds: the kind of error must not matter
	cancelAt int // the next delivery's validation context ends right after this many GetByHeight answers (0 = never)
	headWho  int // learner number of the Head() call parked in the getter's Head (valid while f.Getter.HeadParked())
}

func (r *runner) rec(act string, ret int, kind string) {
	o := r.f.Observe(ret)
	r.last = o
	r.acts = append(r.acts, emit.Pair(act, o.Term()))
	r.nacts++
	r.kinds[kind]++
	r.w.Count("action", kind)
}

func (r *runner) learnerParked() bool {
	for _, p := range r.f.Store.Parked() {
		if p.Who >= 0 {
			return true
		}
	}
	return false
}

func (r *runner) loopParked() bool {
	for _, p := range r.f.Store.Parked() {
		if p.Who < 0 {
			return true
		}
	}
	return false
}

// shadow of verifyBifurcating: which heads the real header.Verify lets it promote, and its verdict
func (r *runner) shadowBif(subj, newHead H, cancelAt int) (promoted []H, ok bool) {
	subjHeight := subj.Height()
	diff := newHead.Height() - subjHeight
	cancelled := false
	for i := 0; i < 10000; i++ {
		if cancelled {
			return promoted, false // the getter refuses the request of an ended context
		}
		if i+1 == cancelAt {
			cancelled = true
		}
		cand, found := r.f.Getter.ByHeight[subjHeight+diff/2]
		if !found {
			return promoted, false
		}
		if err := header.Verify(subj, cand); err != nil {
			var ve *header.VerifyError
			if errors.As(err, &ve) && !ve.SoftFailure {
				return promoted, false
			}
			diff /= 2
			continue
		}
		subj = cand
		promoted = append(promoted, cand)
		if header.Verify(subj, newHead) == nil {
			return promoted, true
		}
		subjHeight = subj.Height()
		diff = newHead.Height() - subjHeight
		if diff <= 1 {
			return promoted, false
		}
	}
	return promoted, false
}

func (r *runner) deliver(h H, kind string) {
	if h == nil || r.learnerParked() {
		return // keep at most one learner call in flight (deterministic quiescent states)
	}
	now := time.Now().UnixNano()
	bif := "(Bif [] false)"
	cancelAt := r.cancelAt
	r.cancelAt = 0
	if subj := r.last.LocalHdr; subj != nil {
		if err := header.Verify(subj, h); err != nil {
			var ve *header.VerifyError
			if errors.As(err, &ve) && ve.SoftFailure {
				pr, ok := r.shadowBif(subj, h, cancelAt)
				n := len(pr)
				if ok {
					n++
				}
				if n >= 2 && r.f.Getter.Outstanding() == nil && !r.loopParked() {
					// several setLocalHead calls (each with its own wantSync) racing an idle sync loop:
					// the quiescent state would depend on the Go scheduler; only done while the loop is parked
					r.w.Count("bifurcation", "skipped_loop_idle")
					return
				}
				terms := make([]string, len(pr))
				for i, p := range pr {
					terms[i] = r.f.Reg.Term(p)
				}
				bif = fmt.Sprintf("(Bif %s %s)", emit.List(terms), emit.B(ok))
				r.w.Count("bifurcation", fmt.Sprintf("promoted%d/%v/cancel%d", len(pr), ok, cancelAt))
			}
		}
	}
	i := r.f.DeliverCancel(h, cancelAt)
	ret := r.f.Results[i]
	if ret == 0 {
		ret = 3
	}
	r.w.Count("deliver_ret", fmt.Sprintf("%s/%d", kind, ret))
	r.rec(fmt.Sprintf("(DDeliver %s %s %s)", r.f.Reg.Term(h), emit.Z(now), bif), ret, "deliver_"+kind)
}

// Head() asks the network only while its subjective head is not recent (C19; with a head dated ahead of the clock it
// answers from what it has): the scripts make Head() calls only when they reach the getter.
func (r *runner) headAsks() bool {
	l := r.local()
	return l != nil && l.T+3 < time.Now().UnixNano()
}

func (r *runner) headLearn(h H) {
	// (Head() calls are single-flight: one made while another's request is parked would just wait for that answer)
	if h == nil || r.learnerParked() || r.f.Getter.HeadParked() || !r.headAsks() {
		return
	}
	r.f.HeadCall(h)
	r.rec(fmt.Sprintf("(DHead (Some %s))", r.f.Reg.Term(h)), 0, "head_learn")
}

// a Head() call whose network head request is slow: Head() has captured its subjective head, the answer h
// arrives when the driver releases it
func (r *runner) headLearnParked(h H, kind string) {
	if h == nil || r.learnerParked() || r.f.Getter.HeadParked() || !r.headAsks() {
		return
	}
	r.headWho = r.f.HeadCallP(h)
	r.rec(fmt.Sprintf("(DHeadP (Some %s))", r.f.Reg.Term(h)), 0, "head_slow_"+kind)
}

func (r *runner) releaseHead() bool {
	// a verifier call parked in the gated Append holds incomingMu, which Head() takes after the answer
	if r.learnerParked() || !r.f.ReleaseHead() {
		return false
	}
	r.rec(fmt.Sprintf("(DRelT %d)", r.headWho), 0, "head_slow_answered")
	return true
}

func (r *runner) answerPrefix(k int) bool {
	req := r.f.Getter.Outstanding()
	if req == nil {
		return false
	}
	size := int(req.To - req.From.Height() - 1)
	if k <= 0 || k > size {
		k = size
	}
	var hs []H
	for i := 0; i < k; i++ {
		h := r.f.At(req.From.Height() + 1 + uint64(i))
		if h == nil {
			break
		}
		hs = append(hs, h)
	}
	if len(hs) == 0 {
		return r.answerErr()
	}
	r.f.Getter.Answer(hs, nil)
	r.rec(fmt.Sprintf("(DAnswer (APrefix %d))", len(hs)), 0, "answer_prefix")
	return true
}

func (r *runner) answerErr() bool {
	if r.f.Getter.Outstanding() == nil {
		return false
	}
	k := r.errKind % len(syncfx.ErrKinds)
	r.errKind++
	r.f.Getter.Answer(nil, syncfx.ErrKinds[k])
	r.w.Count("getter_error_kind", syncfx.ErrKindNames[k])
	r.rec("(DAnswer AErr)", 0, "answer_err")
	return true
}

// two overlapping Head() calls share one slow network head request whose answer comes with an error: a soft
// verification failure that bifurcation cannot confirm, a hard one, or a plain getter error.  Nothing is adopted.
func (r *runner) headSharedRefused(kind int, rng *emit.Rand) {
	if r.learnerParked() || r.f.Getter.HeadParked() || !r.headAsks() {
		return
	}
	l := r.local()
	var h H
	var herr error
	name := ""
	switch kind % 3 {
	case 0: // the trusted peer reports a soft failure; the Syncer's own verification is soft as well (too far), and bifurcation finds no witness
		if r.trust == 0 {
			return
		}
		h = &vhdr.Header{Chain: "a", H: l.Height() + r.trust + 3 + uint64(rng.Intn(10)), T: l.T + 1, Prev: []byte("whatever"), Nonce: rng.U64()}
		for n := range r.f.Getter.ByHeight {
			if n > l.Height() {
				delete(r.f.Getter.ByHeight, n)
			}
		}
		herr = &header.VerifyError{Reason: errors.New("syncfx: not enough information"), SoftFailure: true}
		name = "soft"
	case 1:
		h = &vhdr.Header{Chain: "a", H: l.Height() + 1, T: l.T + 1, Prev: l.Hash(), Nonce: 1 + rng.U64()%1000}
		herr = &header.VerifyError{Reason: errors.New("syncfx: invalid")}
		name = "hard"
	default:
		h = &vhdr.Header{Chain: "a", H: l.Height() + 1, T: l.T + 1, Prev: l.Hash(), Nonce: 1 + rng.U64()%1000}
		herr = syncfx.ErrKinds[kind%len(syncfx.ErrKinds)]
		name = "error"
	}
	r.f.Reg.Term(h) // registers the header's identity (it must not show up anywhere)
	i, j := r.f.HeadCallShared(h, herr)
	r.rec("(DHeadP None)", 0, "head_shared_"+name)
	r.rec("(DHeadP None)", 0, "head_shared_joiner")
	if r.f.ReleaseHead() {
		r.rec(fmt.Sprintf("(DRelT %d)", i), 0, "head_shared_answered")
		r.rec(fmt.Sprintf("(DRelT %d)", j), 0, "head_shared_answered")
	}
}

// contract-breaking answers
func (r *runner) answerRaw(kind string, rng *emit.Rand) bool {
	req := r.f.Getter.Outstanding()
	if req == nil {
		return false
	}
	from := req.From.Height()
	size := int(req.To - from - 1)
	var hs []H
	add := func(n uint64) {
		if h := r.f.At(n); h != nil {
			hs = append(hs, h)
		}
	}
	switch kind {
	case "empty":
	case "shifted":
		for i := 0; i < size; i++ {
			add(from + 2 + uint64(i))
		}
	case "overlong":
		for i := 0; i < size+1+rng.Intn(6); i++ {
			add(from + 1 + uint64(i))
		}
	case "sparse":
		add(from + 1)
		add(from + 3)
		add(from + 4)
	case "lower":
		if from > r.f.Tail {
			add(from)
			add(from + 1)
		}
	case "dup_inside": // a header twice in a row: the shim's walk takes the second as "the head itself again"
		for i := 0; i < size; i++ {
			add(from + 1 + uint64(i))
			if i == 0 || rng.Chance(30) {
				add(from + 1 + uint64(i))
			}
		}
	case "foreign_tail": // starts with the true next header and goes on with headers of nobody's chain at the right
		// heights: the shim looks at heights only, the answer is stored (range answers are the trusted getter's)
		add(from + 1)
		n := 1 + rng.Intn(3)
		for i := 1; len(hs) > 0 && i <= n && i < size; i++ {
			hs = append(hs, &vhdr.Header{Chain: "a", H: from + 1 + uint64(i), T: hs[len(hs)-1].T + 1, Prev: []byte("foreign"), Nonce: rng.U64()})
		}
	case "foreign_gap": // the true next header, then a foreign header two heights on: refused as a whole, nothing of it stored
		add(from + 1)
		if len(hs) == 1 {
			hs = append(hs, &vhdr.Header{Chain: "a", H: from + 3, T: hs[0].T + 1, Prev: []byte("foreign"), Nonce: rng.U64()})
		}
	case "foreign_same": // the true next header, then ANOTHER header of the same height: neither the head again nor head+1
		add(from + 1)
		if len(hs) == 1 {
			hs = append(hs, &vhdr.Header{Chain: "a", H: from + 1, T: hs[0].T + 1, Prev: []byte("foreign"), Nonce: rng.U64()})
		}
	}
	terms := make([]string, len(hs))
	for i, h := range hs {
		terms[i] = r.f.Reg.Term(h)
	}
	r.f.Getter.Answer(hs, nil)
	r.rec(fmt.Sprintf("(DAnswer (ARaw %s))", emit.List(terms)), 0, "answer_"+kind)
	return true
}

func (r *runner) release(who int) bool {
	if !r.f.Store.Release(who) {
		return false
	}
	synctest.Wait()
	r.f.Poll()
	if who < 0 {
		r.rec("DRelL", 0, "release_loop")
	} else {
		r.rec(fmt.Sprintf("(DRelT %d)", who), 0, "release_learner")
	}
	return true
}

func (r *runner) releaseAny(rng *emit.Rand) bool {
	p := r.f.Store.Parked()
	if len(p) == 0 {
		return false
	}
	return r.release(p[rng.Intn(len(p))].Who)
}

func (r *runner) finish(rng *emit.Rand) {
	for i := 0; i < 600; i++ {
		if r.releaseAny(rng) {
			continue
		}
		if r.releaseHead() {
			continue
		}
		if r.f.Getter.Outstanding() != nil {
			r.answerPrefix(0)
			continue
		}
		break
	}
}

// ---- header generators relative to the current subjective head
func (r *runner) local() H { return r.last.LocalHdr }

func (r *runner) gossipOf(kind string, rng *emit.Rand) H {
	l := r.local()
	top := r.f.Top()
	now := time.Now()
	switch kind {
	case "next":
		return r.f.At(l.Height() + 1)
	case "skip":
		n := l.Height() + 2 + uint64(rng.Intn(40))
		if n > top {
			n = top
		}
		return r.f.At(n)
	case "farskip":
		n := l.Height() + 60 + uint64(rng.Intn(80))
		if n > top {
			n = top
		}
		return r.f.At(n)
	case "stale":
		lo := r.f.Tail
		if l.Height() <= lo {
			return r.f.At(lo)
		}
		return r.f.At(lo + uint64(rng.Intn(int(l.Height()-lo)+1)))
	case "duplicate":
		return l
	case "forged_adjacent": // right height, broken hash link
		return &vhdr.Header{Chain: "a", H: l.Height() + 1, T: l.T + 1, Prev: []byte("not-the-parent"), Nonce: rng.U64()}
	case "forged_far": // not checkable without the intermediate headers
		return &vhdr.Header{Chain: "a", H: l.Height() + 2 + uint64(rng.Intn(20)), T: l.T + 1, Prev: []byte("whatever"), Nonce: rng.U64()}
	case "fork": // a sibling of the true next header: links to the subjective head
		return &vhdr.Header{Chain: "a", H: l.Height() + 1, T: l.T + 1, Prev: l.Hash(), Nonce: 1 + rng.U64()%1000}
	case "wrongchain":
		t := r.f.At(l.Height() + 1)
		if t == nil {
			return nil
		}
		c := *t
		c.Chain = "b"
		return &c
	case "future":
		t := r.f.At(l.Height() + 1)
		if t == nil {
			return nil
		}
		c := *t
		c.T = now.Add(header.VerifClockDrift()).UnixNano() + int64(time.Second)
		return &c
	case "ahead": // valid in every respect and at most the clock drift ahead of the subjective head's time - which may be ahead of now already
		t := l.T
		if nw := now.UnixNano(); nw > t {
			t = nw
		}
		return &vhdr.Header{Chain: "a", H: l.Height() + 1, T: t + int64(header.VerifClockDrift())*8/10, Prev: l.Hash(), Nonce: 1 + rng.U64()%1000}
	case "unordered":
		t := r.f.At(l.Height() + 2)
		if t == nil {
			return nil
		}
		c := *t
		c.T = l.T - 5
		return &c
	}
	return nil
}

var gossipKinds = []string{"next", "next", "skip", "skip", "farskip", "stale", "duplicate", "forged_adjacent", "forged_far", "fork",
	"wrongchain", "future", "unordered", "ahead", "ahead"}

type scenario struct {
	class  string
	tail   uint64
	nInit  int
	nChain int
	batch  int
	gate   bool
	trust  uint64
	bifGap bool // GetByHeight misses some heights (bifurcation's getter fails)
	script func(r *runner, rng *emit.Rand)
}

func runScenario(t *testing.T, w *emit.Writer, sc scenario, rng *emit.Rand) {
	synctest.Test(t, func(t *testing.T) {
		vhdr.SetPolicy(vhdr.LinkPolicy(sc.trust))
		f, err := syncfx.NewFixture(sc.tail, sc.nInit, sc.nChain, sc.batch)
		if err != nil {
			t.Fatalf("fixture: %v", err)
		}
		for n := f.Tail; n <= f.Top(); n++ {
			if sc.bifGap && n%7 == 3 {
				continue
			}
			f.Getter.ByHeight[n] = f.At(n)
		}
		f.Store.Gate = sc.gate
		r := &runner{f: f, w: w, kinds: map[string]int{}, trust: sc.trust}
		r.last = f.Observe(0)
		sc.script(r, rng)
		r.finish(rng)
		f.Poll()
		// final observations
		res := make([]string, len(f.Results))
		for i, x := range f.Results {
			if x == 0 {
				x = 3
			}
			res[i] = fmt.Sprint(x)
		}
		var probe []string
		upper := f.Top() + 2
		if hd, err := f.Store.Store.Head(context.Background()); err == nil && hd.Height()+2 > upper {
			upper = hd.Height() + 2
		}
		for n := f.Tail; n <= upper; n++ {
			ctx, cancel := syncfx.ShortCtx()
			h, err := f.Store.Store.GetByHeight(ctx, n)
			cancel()
			if err == nil && h != nil {
				probe = append(probe, fmt.Sprintf("(%d, %d)", h.Height(), f.Reg.ID(h.Hash())))
			}
		}
		reqs := len(f.Getter.Log)
		f.Close()
		heights, hashes, derr := f.DumpKeys()
		if derr != nil {
			t.Fatalf("dump: %v", derr)
		}
		hs := make([]string, len(heights))
		for i, x := range heights {
			hs[i] = fmt.Sprint(x)
		}
		term := fmt.Sprintf("Case03 %s %d %s %d %s %s %s %s %s %s %d", emit.Z(int64(header.VerifClockDrift())), sc.trust, emit.B(sc.gate), sc.tail,
			f.GenChainTerm(sc.tail, sc.nInit, 1), f.GenChainTerm(sc.tail+uint64(sc.nInit), sc.nChain, uint64(sc.nInit)+1),
			emit.List(r.acts), emit.List(res), emit.List(probe), emit.List(hs), hashes)
		w.Add(term, map[string]any{"class": sc.class, "gate": sc.gate, "trust": sc.trust, "actions": r.nacts, "kinds": r.kinds, "requests": reqs},
			sc.class, r.nacts >= 4)
		w.Count("class", sc.class)
		w.Count("actions_per_case", fmt.Sprint(r.nacts/5*5))
	})
	vhdr.SetPolicy(nil)
}

func randomScript(maxActs int) func(r *runner, rng *emit.Rand) {
	return func(r *runner, rng *emit.Rand) {
		for iter := 0; r.nacts < maxActs && iter < 4*maxActs; iter++ {
			parked := len(r.f.Store.Parked()) > 0
			req := r.f.Getter.Outstanding()
			c := rng.Intn(100)
			if r.f.Getter.HeadParked() && rng.Chance(30) && r.releaseHead() {
				continue
			}
			switch {
			case parked && c < 55:
				r.releaseAny(rng)
			case req != nil && c < 75:
				switch d := rng.Intn(100); {
				case d < 12:
					r.answerErr()
				case d < 40:
					r.answerRaw([]string{"empty", "shifted", "overlong", "overlong", "sparse", "lower", "dup_inside", "foreign_tail", "foreign_gap", "foreign_same"}[rng.Intn(10)], rng)
				default:
					size := int(req.To - req.From.Height() - 1)
					k := size
					if rng.Chance(50) {
						k = 1 + rng.Intn(size)
					}
					r.answerPrefix(k)
				}
			case c < 92:
				if r.learnerParked() {
					r.releaseAny(rng)
					continue
				}
				kind := gossipKinds[rng.Intn(len(gossipKinds))]
				h := r.gossipOf(kind, rng)
				if h == nil {
					continue
				}
				if r.trust != 0 && rng.Chance(40) {
					r.cancelAt = 1 + rng.Intn(3) // the validation context ends between two bifurcation rounds
				}
				r.deliver(h, kind)
			default:
				if r.learnerParked() {
					continue
				}
				if r.f.Getter.HeadParked() {
					continue
				}
				if rng.Chance(25) {
					r.headSharedRefused(rng.Intn(12), rng)
					continue
				}
				if rng.Chance(45) {
					// slow network head request: what it answers is compared with the head captured before
					l := r.local()
					switch rng.Intn(3) {
					case 0: // a sibling of the true next header (valid on its own against the captured head)
						r.headLearnParked(&vhdr.Header{Chain: "a", H: l.Height() + 1, T: l.T + 1, Prev: l.Hash(), Nonce: 1 + rng.U64()%1000}, "fork")
					case 1:
						r.headLearnParked(r.f.At(l.Height()+1), "next")
					default:
						r.headLearnParked(r.f.At(l.Height()+2+uint64(rng.Intn(6))), "skip")
					}
					continue
				}
				switch rng.Intn(4) {
				case 0: // the trusted getter answers with something at or below the subjective head: not adopted
					l := r.local()
					n := r.f.Tail + uint64(rng.Intn(int(l.Height()-r.f.Tail)+1))
					r.headLearn(&vhdr.Header{Chain: "a", H: n, T: l.T, Prev: []byte("stale-head"), Nonce: rng.U64()})
				default:
					n := r.local().Height() + 1 + uint64(rng.Intn(30))
					if h := r.f.At(n); h != nil {
						r.headLearn(h)
					}
				}
			}
			if r.nacts == 0 && rng.Chance(5) {
				return
			}
		}
	}
}

func TestC03(t *testing.T) {
	_ = logging.SetLogLevel("*", "fatal")
	rng := emit.NewRand(emit.Seed())
	w := emit.NewWriter("Model.Verify Model.Ranges Model.Syncer Oracle.C07 Oracle.C03", "case03", "chk03")
	w.PerShard(30)
	w.Rule = "scripts over a real Syncer+Store in virtual time, generated adaptively at each quiescence: gossip of true next/skipping heads and of " +
		"forged (bad link), far-forged, forked, wrong-chain, future-dated, time-unordered, stale and duplicate headers; Head()-learned heads; " +
		"Head() calls whose network head request is answered late (after further gossip); two overlapping Head() calls sharing one request whose answer is refused (soft / hard verification failure, getter error); getter errors of every kind (plain, wrapping ErrNotFound / context.Canceled / DeadlineExceeded); sequences of headers each within the clock drift of the previous one; validation contexts ending between two bifurcation rounds; range answers = honest prefix / error / empty / shifted / over-long / sparse / starting below; trust range unlimited or small (soft failures, " +
		"bifurcation with and without getter gaps); three always-generated real-time corpus cases with learner calls parked by a header type (inside " +
		"setLocalHead, inside networkHead, inside syncStore.Append); every script ends by draining; non-trivial when at least 4 actions"
	nRandom := 90
	if emit.Thorough() {
		nRandom = 1000
	}
	var scs []scenario
	fixed := []struct {
		name  string
		gate  bool
		trust uint64
		f     func(r *runner, rng *emit.Rand)
	}{
		{"forged_stream_during_gated_sync", true, 0, func(r *runner, rng *emit.Rand) {
			r.deliver(r.f.At(r.local().Height()+12), "skip")
			r.answerPrefix(4)
			for _, k := range []string{"forged_adjacent", "fork", "wrongchain", "future", "stale", "duplicate", "unordered"} {
				if h := r.gossipOf(k, rng); h != nil {
					r.deliver(h, k)
				}
			}
			r.release(-1)
			r.deliver(r.gossipOf("next", rng), "next")
		}},
		{"gossip_races_loop_append", true, 0, func(r *runner, rng *emit.Rand) {
			// the loop is parked in Store.Append of the cached target; the next head arrives and is adjacent to the updated cache
			r.deliver(r.f.At(r.local().Height()+3), "skip")
			r.answerPrefix(0)
			r.release(-1) // the requested chunk is written; now the cached run is parked
			r.deliver(r.gossipOf("next", rng), "next")
			// release the verifier call first: its header reaches the store before its predecessor
			for _, p := range r.f.Store.Parked() {
				if p.Who >= 0 {
					r.release(p.Who)
				}
			}
			r.release(-1)
		}},
		{"forged_far_becomes_target", false, 0, func(r *runner, rng *emit.Rand) {
			r.deliver(r.gossipOf("forged_far", rng), "forged_far")
			r.finish(rng)
			r.deliver(r.f.At(r.local().Height()+1), "next") // the true successor does not link to the forged head
			r.deliver(r.gossipOf("fork", rng), "fork")
		}},
		{"bifurcation", false, 8, func(r *runner, rng *emit.Rand) {
			r.deliver(r.f.At(r.local().Height()+40), "farskip")
			r.finish(rng)
			r.deliver(r.gossipOf("forged_far", rng), "forged_far")
		}},
		{"bifurcation_getter_gap", false, 5, func(r *runner, rng *emit.Rand) {
			r.deliver(r.f.At(r.local().Height()+33), "farskip")
			r.finish(rng)
		}},
		{"bad_answers", false, 0, func(r *runner, rng *emit.Rand) {
			r.deliver(r.f.At(r.local().Height()+20), "skip")
			for _, k := range []string{"empty", "shifted", "sparse", "lower"} {
				r.answerRaw(k, rng)
				r.deliver(r.gossipOf("next", rng), "next")
			}
			r.answerRaw("overlong", rng)
		}},
		{"foreign_answers", false, 0, func(r *runner, rng *emit.Rand) {
			r.deliver(r.f.At(r.local().Height()+20), "skip")
			for _, k := range []string{"foreign_gap", "foreign_same", "dup_inside"} {
				r.answerRaw(k, rng)
				r.deliver(r.gossipOf("next", rng), "next")
			}
			r.answerPrefix(2)
			r.answerRaw("foreign_tail", rng)
			r.deliver(r.gossipOf("next", rng), "next")
			r.finish(rng)
		}},
		{"overlong_past_cached", true, 0, func(r *runner, rng *emit.Rand) {
			r.deliver(r.f.At(r.local().Height()+6), "skip")
			r.answerRaw("overlong", rng)
			r.finish(rng)
			r.deliver(r.gossipOf("next", rng), "next")
			r.deliver(r.gossipOf("skip", rng), "skip")
		}},
		{"slow_head_answer_after_gossip", false, 0, func(r *runner, rng *emit.Rand) {
			// Head() asks the network with subjective head N-1; gossip brings N meanwhile; the late answer is
			// another header of height N (valid against N-1 on its own)
			l := r.local()
			r.headLearnParked(&vhdr.Header{Chain: "a", H: l.Height() + 1, T: l.T + 1, Prev: l.Hash(), Nonce: 1 + rng.U64()%1000}, "fork")
			r.deliver(r.f.At(l.Height()+1), "next")
			r.releaseHead()
			r.deliver(r.gossipOf("next", rng), "next")
			// and the same with the true header as the late answer, two heights on
			l = r.local()
			r.headLearnParked(r.f.At(l.Height()+2), "skip")
			r.deliver(r.f.At(l.Height()+1), "next")
			r.deliver(r.f.At(l.Height()+2), "next")
			r.releaseHead()
		}},
		{"slow_head_answer_below_head", false, 0, func(r *runner, rng *emit.Rand) {
			// as above, but gossip has moved the store two heights on when the answer arrives: below the head the
			// shim passes everything through
			l := r.local()
			r.headLearnParked(&vhdr.Header{Chain: "a", H: l.Height() + 1, T: l.T + 1, Prev: l.Hash(), Nonce: 1 + rng.U64()%1000}, "fork")
			r.deliver(r.f.At(l.Height()+1), "next")
			r.deliver(r.f.At(l.Height()+2), "next")
			r.releaseHead()
			r.deliver(r.gossipOf("next", rng), "next")
		}},
		{"getter_error_kinds_then_gossip", false, 0, func(r *runner, rng *emit.Rand) {
			// every kind of getter error only aborts the attempt: the target stays the subjective head, what follows is
			// verified against it
			for k := 0; k < len(syncfx.ErrKinds); k++ {
				r.deliver(r.f.At(r.local().Height()+6), "skip")
				r.answerPrefix(2)
				r.answerErr()
				r.deliver(r.gossipOf("unordered", rng), "unordered")
				r.deliver(r.gossipOf("stale", rng), "stale")
				r.deliver(r.gossipOf("next", rng), "next")
				r.finish(rng)
			}
		}},
		{"shared_head_request_refused", false, 8, func(r *runner, rng *emit.Rand) {
			for k := 0; k < 3; k++ {
				r.headSharedRefused(k, rng)
				r.deliver(r.gossipOf("next", rng), "next")
			}
			r.finish(rng)
		}},
		{"future_dated_sequence", false, 0, func(r *runner, rng *emit.Rand) {
			// each header is less than the clock drift ahead of the previous one: only the first is within the drift of now
			for k := 0; k < 4; k++ {
				r.deliver(r.gossipOf("ahead", rng), "ahead")
			}
			r.deliver(r.gossipOf("skip", rng), "skip")
			r.finish(rng)
		}},
		{"bifurcation_context_ends", false, 8, func(r *runner, rng *emit.Rand) {
			// the validation context of the gossip message ends between two bifurcation rounds
			for _, k := range []int{1, 2, 3} {
				r.cancelAt = k
				l := r.local()
				r.deliver(&vhdr.Header{Chain: "a", H: l.Height() + 30 + uint64(rng.Intn(20)), T: l.T + 1, Prev: []byte("whatever"), Nonce: rng.U64()}, "forged_far")
			}
			r.cancelAt = 1
			r.deliver(r.f.At(r.local().Height()+40), "farskip")
			r.finish(rng)
			r.cancelAt = 2
			r.deliver(r.f.At(r.local().Height()+40), "farskip")
			r.finish(rng)
		}},
		{"head_learned_fork", true, 0, func(r *runner, rng *emit.Rand) {
			r.headLearn(r.f.At(r.local().Height() + 9))
			r.answerPrefix(3)
			r.deliver(r.gossipOf("fork", rng), "fork")
			r.deliver(r.gossipOf("next", rng), "next")
		}},
	}
	for _, fx := range fixed {
		for _, b := range []int{1, 64} {
			scs = append(scs, scenario{class: fmt.Sprintf("%s/b%d", fx.name, b), tail: 1 + rng.U64()%30, nInit: 1 + rng.Intn(3), nChain: 200, batch: b,
				gate: false && fx.gate, trust: fx.trust, bifGap: fx.name == "bifurcation_getter_gap", script: fx.f})
		}
	}
	for i := 0; i < nRandom; i++ {
		gate := rng.Chance(65) && false // since /repo 40dc6a8 a gated Store.Append would hold syncStore's lock and block every other Append
		trust := []uint64{0, 0, 0, 6, 25}[rng.Intn(5)]
		maxActs := 8 + rng.Intn(26)
		scs = append(scs, scenario{class: fmt.Sprintf("random/g%v/t%d/a%d", gate, trust, maxActs/8*8), tail: 1 + rng.U64()%40, nInit: 1 + rng.Intn(4),
			nChain: 60 + rng.Intn(200), batch: []int{1, 4, 64}[rng.Intn(3)], gate: gate, trust: trust, bifGap: rng.Chance(20), script: randomScript(maxActs)})
	}
	corpusLateAdd(t, w) // always first: the check-then-act window of setLocalHead on the real code
	// and the two schedules with delayed Head() calls that move the shim head into a list the loop is about to append (F23)
	for _, kind := range []string{"range", "answer", "lock", "slowwrite", "failwrite_loop", "failwrite_gossip"} {
		run, ok, err := syncfx.RunStraddle(kind)
		if err != nil {
			t.Fatalf("corpus straddle/%s: %v", kind, err)
		}
		if !ok {
			t.Logf("corpus case straddle/%s: the Head() calls did not park inside networkHead (call site changed); case not generated", kind)
			continue
		}
		class := "corpus/straddle_" + kind
		if kind == "lock" {
			class = "corpus/append_lock"
		}
		if kind == "slowwrite" {
			class = "corpus/slow_store_write"
		}
		if kind == "failwrite_loop" || kind == "failwrite_gossip" {
			class = "corpus/" + kind
		}
		res := make([]string, len(run.Results))
		for i, x := range run.Results {
			res[i] = fmt.Sprint(x)
		}
		hs := make([]string, len(run.Heights))
		for i, x := range run.Heights {
			hs[i] = fmt.Sprint(x)
		}
		term := fmt.Sprintf("Case03 %s 0 %s %d %s %s %s %s %s %s %d", emit.Z(run.Drift), emit.B(run.Gate), run.Tail, run.Init, run.Chain, emit.List(run.Acts),
			emit.List(res), emit.List(run.Probe), emit.List(hs), run.Hashes)
		w.Add(term, map[string]any{"class": class, "what": run.Note}, class, true)
		w.Count("class", class)
	}
	// random scripts over the slow underlying store (every Store.Append parked, then released or failed): real time
	nSlow, slowActs := 10, 16
	if emit.Thorough() {
		nSlow, slowActs = 60, 24
	}
	slowRuns, slowStats, err := syncfx.RunSlowScripts(emit.Seed(), nSlow, slowActs)
	if err != nil {
		t.Fatalf("slow-store scripts: %v", err)
	}
	for k, v := range slowStats {
		for i := 0; i < v; i++ {
			w.Count("slow_store_action", k)
		}
	}
	for _, run := range slowRuns {
		res := make([]string, len(run.Results))
		for i, x := range run.Results {
			res[i] = fmt.Sprint(x)
		}
		hs := make([]string, len(run.Heights))
		for i, x := range run.Heights {
			hs[i] = fmt.Sprint(x)
		}
		term := fmt.Sprintf("Case03 %s 0 %s %d %s %s %s %s %s %s %d", emit.Z(run.Drift), emit.B(run.Gate), run.Tail, run.Init, run.Chain, emit.List(run.Acts),
			emit.List(res), emit.List(run.Probe), emit.List(hs), run.Hashes)
		w.Add(term, map[string]any{"class": "random/slow_store", "what": run.Note}, "random/slow_store", len(run.Acts) >= 4)
		w.Count("class", "random/slow_store")
	}
	for _, sc := range scs {
		runScenario(t, w, sc, rng)
	}
	if err := w.Flush(); err != nil {
		t.Fatal(err)
	}
	t.Logf("emitted %d cases", w.Len())
}
