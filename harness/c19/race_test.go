//go:build verif

package c19

// A Head() call against the END of a sync round, on the real code and in real
// time.  localHead reads the pending head and the store head one after the
// other; the window between the two reads is opened from outside by holding
// the write lock of the pending ranges: caller 1's network answer is a header
// whose Height() parks its caller inside ranges.Add (which runs under that
// lock), so the next localHead stops at pending.Head() - after its store read
// if the two reads were swapped, before it as the code is - while the sync
// loop stores the range and removes it from pending.  (A header.Store wrapper
// cannot serve as this yield point: syncStore caches the store head in its own
// pointer and asks the underlying Store.Head() only once.)

import (
	"context"
	"fmt"
	"testing"
	"time"

	"github.com/ipfs/go-datastore"
	dssync "github.com/ipfs/go-datastore/sync"

	header "github.com/celestiaorg/go-header"
	"github.com/celestiaorg/go-header/store"
	hsync "github.com/celestiaorg/go-header/sync"

	"verifharness/emit"
	"verifharness/vhdr"
)

func raceWitness(t *testing.T, reg *vhdr.Registry, w *emit.Writer) {
	vhdr.SetPolicy(vhdr.LinkPolicy(0))
	start := time.Now()
	// heights 8..10 are two hours old (a stale subjective head), 11.. are fresh
	raw := map[uint64]*vhdr.Header{}
	var prev []byte
	for h := uint64(8); h <= 24; h++ {
		T := start.UnixNano() - int64(50*time.Millisecond) + int64(h)*int64(time.Millisecond)
		if h <= 10 {
			T -= int64(2 * time.Hour)
		}
		x := &vhdr.Header{Chain: "c", H: h, T: T, Prev: prev}
		raw[h] = x
		prev = x.Hash()
	}
	at := func(n uint64) *PH { return &PH{Header: *raw[n]} }
	ctx, cancel := context.WithTimeout(context.Background(), time.Minute)
	defer cancel()
	st, err := store.NewStore[*PH](dssync.MutexWrap(datastore.NewMapDatastore()), store.WithWriteBatchSize(1))
	if err != nil {
		t.Fatal(err)
	}
	if err := st.Start(ctx); err != nil {
		t.Fatal(err)
	}
	if err := st.Append(ctx, at(8), at(9), at(10)); err != nil {
		t.Fatal(err)
	}
	if err := st.Sync(ctx); err != nil {
		t.Fatal(err)
	}
	g := &phGetter{at: at}
	sub := &phSub{}
	trust, block, recency := 1000*time.Hour, time.Second, time.Hour
	sy, err := hsync.NewSyncer[*PH](g, st, sub, hsync.WithSyncFromHeight(8), hsync.WithBlockTime(block),
		hsync.WithTrustingPeriod(trust), hsync.WithRecencyThreshold(recency))
	if err != nil {
		t.Fatal(err)
	}
	if err := sy.Start(ctx); err != nil { // subjective head 10 is stale, the getter has no head: 10
		t.Fatal(err)
	}
	defer func() {
		_ = sy.Stop(ctx)
		_ = st.Stop(ctx)
	}()
	storeHead := func() uint64 {
		h, err := st.Head(ctx)
		if err != nil {
			return 0
		}
		return h.Height()
	}
	headCall := func() string {
		c, cancel := context.WithTimeout(context.Background(), 20*time.Second)
		defer cancel()
		h, err := sy.Head(c)
		var v *vhdr.Header
		if h != nil {
			v = &h.Header
		}
		return emit.Some(classify(reg, false, v, err, false))
	}

	// 1. caller 1: subjective head 10 is stale, it asks the network and is held in the getter
	g.mu.Lock()
	g.headGate = make(chan struct{})
	g.mu.Unlock()
	r1 := make(chan string, 1)
	go func() { r1 <- headCall() }()
	waitFor(func() bool { g.mu.Lock(); defer g.mu.Unlock(); return g.inHead > 0 })
	// 2. gossip 20: pending [20]; the sync loop asks for the range above 10 and is held
	gerr := sub.v(context.Background(), at(20))
	waitFor(func() bool { g.mu.Lock(); defer g.mu.Unlock(); return g.cur != nil })
	// 3. caller 2: 20 is recent: returned without traffic
	o2 := headCall()
	// 4. caller 1's answer: 15, parked inside pending.Add (holding the lock of the pending ranges)
	gate := newAddGate()
	x15 := at(15)
	x15.g = gate
	g.mu.Lock()
	g.head = x15
	hg := g.headGate
	g.headGate = nil
	g.mu.Unlock()
	close(hg)
	parked := waitFor(func() bool {
		select {
		case <-gate.parked1:
			return true
		default:
			return false
		}
	})
	// 5. caller 3 starts (after caller 2 returned) and stops inside localHead at pending.Head()
	r3 := make(chan string, 1)
	go func() { r3 <- headCall() }()
	time.Sleep(300 * time.Millisecond)
	// 6. the sync loop gets its range, stores 11..20 and removes 20 from pending
	g.mu.Lock()
	cur := g.cur
	g.mu.Unlock()
	if cur != nil {
		var hs []*PH
		for h := cur.from + 1; h < cur.to && h <= 24; h++ {
			hs = append(hs, at(h))
		}
		cur.ch <- hs
	}
	synced := waitFor(func() bool { return storeHead() == 20 })
	time.Sleep(200 * time.Millisecond)
	// 7. caller 1 is released: 15 is below the (former) pending head and ignored; everyone reads on
	close(gate.rel1)
	o1, o3 := "None", "None"
	select {
	case o3 = <-r3:
	case <-time.After(25 * time.Second):
	}
	select {
	case o1 = <-r1:
	case <-time.After(25 * time.Second):
	}
	// 8. a later call
	o4 := headCall()

	tail := "(TOk " + emit.Some(reg.Term(&at(8).Header)) + ")"
	in := fmt.Sprintf("(HIn %s GFail %s %s %s)", emit.Z(int64(20*time.Second)), noBif, tail, noBif)
	params := fmt.Sprintf("(Params %s %s %s %s %s)", emit.Z(int64(trust)), emit.Z(int64(block)), emit.Z(int64(recency)),
		emit.Z(int64(header.VerifClockDrift())), emit.Z(int64(hsync.NetworkHeadRequestTimeout)))
	op := fmt.Sprintf("(KRace %s %s %s %s %s %s %s)", reg.Term(&at(20).Header), reg.Term(&at(15).Header), in, o1, o2, o3, o4)
	term := fmt.Sprintf("Case19 %s 0 false %s %s %s", params, emit.Some(reg.Term(&at(10).Header)), emit.Z(start.UnixNano()), emit.List([]string{op}))
	w.Add(term, map[string]any{"schedule": "Head() against the end of a sync round", "parked_in_pending_Add": parked, "gossip_err": fmt.Sprint(gerr),
		"synced": synced, "results": []string{o1, o2, o3, o4}, "store_head": storeHead()}, fmt.Sprintf("race/%v", parked), true)
	w.Count("op", "race")
	w.Count("race_witness", fmt.Sprintf("parked=%v synced=%v caller1=%s caller2=%s caller3=%s caller4=%s", parked, synced, o1, o2, o3, o4))
}
