//go:build verif

// Package c19: correspondence driver for C19 (Syncer.Head is fresh, monotone and
// never adopts an expired header). Real sync.Syncer + real store.Store + scripted
// getter + capturing subscriber, inside testing/synctest virtual time.
package c19

import (
	"context"
	"errors"
	"fmt"
	"sort"
	"strings"
	gosync "sync"
	"testing"
	"testing/synctest"
	"time"

	"github.com/ipfs/go-datastore"
	dssync "github.com/ipfs/go-datastore/sync"
	logging "github.com/ipfs/go-log/v2"

	header "github.com/celestiaorg/go-header"
	"github.com/celestiaorg/go-header/store"
	hsync "github.com/celestiaorg/go-header/sync"

	"verifharness/emit"
	"verifharness/vhdr"
)

var (
	errHead = errors.New("c19: scripted Head failure")
	errTail = errors.New("c19: scripted GetByHeight failure")
	errRng  = errors.New("c19: scripted GetRangeByHeight failure")
)

type ansKind int

const (
	aOk ansKind = iota
	aSoft
	aFail
	aHang
	aNil
)

type answer struct {
	kind ansKind
	h    *vhdr.Header
	name string
}

type callRec struct{ trusted *vhdr.Header }

// universe: one hash-linked chain, header h has time base + h*spacing
type universe struct {
	base    int64
	spacing int64
	chain   map[uint64]*vhdr.Header
	top     uint64
	first   uint64
}

func (u *universe) at(h uint64) *vhdr.Header {
	if h < u.first {
		return nil
	}
	for u.top < h {
		var prev []byte
		if p := u.chain[u.top]; p != nil {
			prev = p.Hash()
		}
		n := u.top + 1
		u.chain[n] = &vhdr.Header{Chain: "c", H: n, T: u.base + int64(n)*u.spacing, Prev: prev}
		u.top = n
	}
	return u.chain[h]
}

type getter struct {
	mu      gosync.Mutex
	calls   []callRec
	ans     answer
	gate    chan struct{}
	u       *universe
	tailH   uint64
	tailOK  bool
	serve    bool
	blocked  int
	syncGate chan struct{}
}

// armSync holds the sync loop's range requests back until releaseSync.
func (g *getter) armSync() {
	g.mu.Lock()
	g.syncGate = make(chan struct{})
	g.mu.Unlock()
}

func (g *getter) releaseSync() {
	g.mu.Lock()
	gate := g.syncGate
	g.syncGate = nil
	g.mu.Unlock()
	if gate != nil {
		close(gate)
	}
	synctest.Wait()
}

func (g *getter) Head(ctx context.Context, opts ...header.HeadOption[*vhdr.Header]) (*vhdr.Header, error) {
	var p header.HeadParams[*vhdr.Header]
	for _, o := range opts {
		o(&p)
	}
	g.mu.Lock()
	g.calls = append(g.calls, callRec{trusted: p.TrustedHead})
	ans, gate := g.ans, g.gate
	if gate != nil {
		g.blocked++
	}
	g.mu.Unlock()
	if gate != nil {
		select {
		case <-gate:
			g.mu.Lock()
			ans = g.ans
			g.blocked--
			g.mu.Unlock()
		case <-ctx.Done():
			g.mu.Lock()
			g.blocked--
			g.mu.Unlock()
			return nil, ctx.Err()
		}
	}
	switch ans.kind {
	case aOk:
		return ans.h, nil
	case aSoft:
		return ans.h, &header.VerifyError{Reason: errHead, SoftFailure: true}
	case aFail:
		return nil, errHead
	case aNil:
		return nil, nil
	default:
		<-ctx.Done()
		return nil, ctx.Err()
	}
}

func (g *getter) Get(context.Context, header.Hash) (*vhdr.Header, error) {
	return nil, header.ErrNotFound
}

func (g *getter) GetByHeight(_ context.Context, h uint64) (*vhdr.Header, error) {
	g.mu.Lock()
	defer g.mu.Unlock()
	if h == g.tailH && g.tailOK {
		return g.u.at(h), nil
	}
	return nil, errTail
}

// GetRangeByHeight serves the chain (when g.serve) but only once the driver has
// released the current operation's sync gate: the sync loop makes progress
// BETWEEN operations, which is the granularity of the model (sync_done after an
// operation). Races between setLocalHead and a running sync loop are not C19's.
func (g *getter) GetRangeByHeight(ctx context.Context, from *vhdr.Header, to uint64) ([]*vhdr.Header, error) {
	g.mu.Lock()
	gate := g.syncGate
	g.mu.Unlock()
	if gate != nil {
		select {
		case <-gate:
		case <-ctx.Done():
			return nil, ctx.Err()
		}
	}
	g.mu.Lock()
	defer g.mu.Unlock()
	if !g.serve {
		return nil, errRng
	}
	var out []*vhdr.Header
	for h := from.Height() + 1; h < to; h++ {
		out = append(out, g.u.at(h))
	}
	if len(out) == 0 {
		return nil, errRng
	}
	return out, nil
}

func (g *getter) take() []callRec {
	g.mu.Lock()
	defer g.mu.Unlock()
	c := g.calls
	g.calls = nil
	return c
}

type subscriber struct {
	verifier func(context.Context, *vhdr.Header) error
}

func (s *subscriber) SetVerifier(f func(context.Context, *vhdr.Header) error) error {
	s.verifier = f
	return nil
}
func (s *subscriber) Subscribe() (header.Subscription[*vhdr.Header], error) {
	return nil, errors.New("c19: no subscriptions")
}

// classify maps the result of Head()/Start() to the Coq [robs] term.
func classify(reg *vhdr.Registry, start bool, h *vhdr.Header, err error, panicked bool) string {
	switch {
	case panicked:
		return "(BErr RPanic)"
	case err == nil && start:
		return "BNil"
	case err == nil && h == nil:
		return "(BErr REmpty)" // cannot happen: reported as a disagreement
	case err == nil:
		return fmt.Sprintf("(BOk %d %d)", reg.ID(h.Hash()), h.Height())
	case errors.Is(err, errHead):
		return "(BErr RGetter)"
	case errors.Is(err, context.DeadlineExceeded), errors.Is(err, context.Canceled):
		return "(BErr RCtx)"
	case errors.Is(err, errTail):
		return "(BErr RTail)"
	case errors.Is(err, header.ErrEmptyStore):
		return "(BErr REmpty)"
	default:
		return "(BErr RExpired)"
	}
}

func callsTerm(reg *vhdr.Registry, cs []callRec) string {
	var xs []string
	for _, c := range cs {
		if c.trusted == nil {
			xs = append(xs, "None")
		} else {
			xs = append(xs, emit.Some(emit.N(reg.ID(c.trusted.Hash()))))
		}
	}
	return emit.List(xs)
}

func ansTerm(reg *vhdr.Registry, a answer) string {
	switch a.kind {
	case aOk:
		return "(GOk " + reg.Term(a.h) + ")"
	case aSoft:
		return "(GSoft " + reg.Term(a.h) + ")"
	case aFail:
		return "GFail"
	case aNil:
		return "(GOk hdr_nil)"
	default:
		return "GHang"
	}
}

const noBif = "([], false)"

type config struct {
	trust, block, recency time.Duration
	rng                   uint64 // trust range of the link policy
	serve                 bool
	initial               string // empty | recent | stale | expired
}

type world struct {
	t     *testing.T
	reg   *vhdr.Registry
	rng   *emit.Rand
	w     *emit.Writer
	cfg   config
	u     *universe
	g     *getter
	sub   *subscriber
	st    *store.Store[*vhdr.Header]
	sy    *hsync.Syncer[*vhdr.Header]
	start bool // Start() succeeded
	tried bool // Start() was called at least once (Stop needs it)
	est   *vhdr.Header
	ops   []string
	descr []string
	kinds map[string]bool
}

func (wd *world) nowH() uint64 {
	return uint64((time.Now().UnixNano() - wd.u.base) / wd.u.spacing)
}

func (wd *world) storeHeight() uint64 {
	h, err := wd.st.Head(context.Background())
	if err != nil {
		return 0
	}
	return h.Height()
}

func (wd *world) note(h *vhdr.Header) {
	if h != nil && (wd.est == nil || h.Height() > wd.est.Height()) {
		wd.est = h
	}
}

// pickAnswer chooses what the trusted peers / the network answer.
func (wd *world) pickAnswer(force string) answer {
	r := wd.rng
	nowH := wd.nowH()
	now := time.Now().UnixNano()
	estH := uint64(0)
	if wd.est != nil {
		estH = wd.est.Height()
	}
	kind := force
	if kind == "" {
		kinds := []string{"fresh", "fresh", "fresh", "stale", "lower", "equal", "expired", "expired_edge", "fail", "hang", "soft", "soft_low", "nil", "future", "between", "next", "soft_next"}
		kind = kinds[r.Intn(len(kinds))]
	}
	mk := func(k ansKind, h *vhdr.Header) answer { return answer{kind: k, h: h, name: kind} }
	clampH := func(h uint64) uint64 {
		if h < wd.u.first {
			return wd.u.first
		}
		return h
	}
	back := func(d time.Duration) uint64 {
		n := uint64(int64(d) / wd.u.spacing)
		if n+wd.u.first > nowH {
			return wd.u.first
		}
		return nowH - n
	}
	switch kind {
	case "fresh":
		return mk(aOk, wd.u.at(clampH(nowH-uint64(r.Intn(2)))))
	case "stale": // older than the recency threshold, not expired, usually above the subjective head
		return mk(aOk, wd.u.at(clampH(back(4*wd.cfg.block+time.Duration(r.Intn(5))*wd.cfg.block))))
	case "between":
		if estH != 0 && estH+1 < nowH {
			return mk(aOk, wd.u.at(estH+1+uint64(r.Intn(int(nowH-estH-1)))))
		}
		return mk(aOk, wd.u.at(clampH(nowH)))
	case "next", "soft_next":
		// the header right above the subjective head: adjacent to the store head when nothing is
		// pending, so setLocalHead stores it and every further setLocalHead of the same call or of
		// the callers sharing the flight re-delivers the store head (a no-op since /repo 80904e6)
		k := aOk
		if kind == "soft_next" {
			k = aSoft
		}
		if estH != 0 {
			return mk(k, wd.u.at(estH+1))
		}
		return mk(k, wd.u.at(clampH(nowH)))
	case "lower":
		if estH > wd.u.first {
			return mk(aOk, wd.u.at(clampH(estH-1-uint64(r.Intn(3)))))
		}
		return mk(aOk, wd.u.at(wd.u.first))
	case "equal":
		if wd.est != nil {
			return mk(aOk, wd.est)
		}
		return mk(aOk, wd.u.at(clampH(nowH)))
	case "expired":
		return mk(aOk, wd.u.at(clampH(back(wd.cfg.trust+time.Duration(1+r.Intn(4))*wd.cfg.block))))
	case "expired_edge": // header whose expiry instant is now-1, now or now+1 ns
		hh := clampH(back(wd.cfg.trust)) + 1
		p := wd.u.at(hh - 1)
		var prev []byte
		if p != nil {
			prev = p.Hash()
		}
		d := int64(r.Intn(3)) - 1
		return mk(aOk, &vhdr.Header{Chain: "c", H: hh, T: now - int64(wd.cfg.trust) + d, Prev: prev, Nonce: 7})
	case "fail":
		return mk(aFail, nil)
	case "hang":
		return mk(aHang, nil)
	case "soft":
		return mk(aSoft, wd.u.at(clampH(nowH-uint64(r.Intn(2)))))
	case "soft_low":
		if estH > wd.u.first {
			return mk(aSoft, wd.u.at(estH-1))
		}
		return mk(aSoft, wd.u.at(clampH(nowH)))
	case "nil":
		if r.Chance(50) {
			return mk(aNil, nil)
		}
		return mk(aSoft, nil)
	case "future":
		return mk(aOk, wd.u.at(nowH+3+uint64(r.Intn(20))))
	}
	return mk(aFail, nil)
}

type callOut struct {
	h        *vhdr.Header
	err      error
	panicked bool
}

func (wd *world) call(start bool, cto time.Duration) (out callOut) {
	ctx, cancel := context.WithTimeout(context.Background(), cto)
	defer cancel()
	defer func() {
		if r := recover(); r != nil {
			out.panicked = true
		}
	}()
	if start {
		wd.tried = true
		out.err = wd.sy.Start(ctx)
		return out
	}
	out.h, out.err = wd.sy.Head(ctx)
	return out
}

func (wd *world) hin(cto time.Duration, a answer, storeEmpty bool) string {
	tail := "(TOk " + emit.Some(wd.reg.Term(wd.u.at(wd.g.tailH))) + ")"
	if storeEmpty && !wd.g.tailOK {
		tail = "TFail"
	}
	ans := ansTerm(wd.reg, a)
	if a.kind == aSoft && a.h == nil {
		ans = "(GSoft hdr_nil)"
	}
	return fmt.Sprintf("(HIn %s %s %s %s %s)", emit.Z(int64(cto)), ans, noBif, tail, noBif)
}

var ctos = []time.Duration{5 * time.Second, 5 * time.Second, 2 * time.Second, 700 * time.Millisecond, 30 * time.Second}

func (wd *world) opHead(force string) {
	start := !wd.start
	a := wd.pickAnswer(force)
	cto := ctos[wd.rng.Intn(len(ctos))]
	wd.g.mu.Lock()
	wd.g.ans, wd.g.gate = a, nil
	wd.g.tailOK = !wd.rng.Chance(15)
	wd.g.mu.Unlock()
	empty := wd.storeHeight() == 0
	in := wd.hin(cto, a, empty)
	wd.g.armSync()
	t0 := time.Now()
	out := wd.call(start, cto)
	el := time.Since(t0)
	synctest.Wait()
	wd.g.releaseSync()
	if start && out.err == nil && !out.panicked {
		wd.start = true
	}
	res := classify(wd.reg, start, out.h, out.err, out.panicked)
	calls := wd.g.take()
	if out.err == nil {
		wd.note(out.h)
	}
	wd.ops = append(wd.ops, fmt.Sprintf("KHead %s %s %s %s %d %d", emit.B(start), in, res, callsTerm(wd.reg, calls), wd.storeHeight(), int64(el)))
	wd.descr = append(wd.descr, fmt.Sprintf("head(start=%v,ans=%s,cto=%s)->%s calls=%d", start, a.name, cto, res, len(calls)))
	wd.w.Count("op", "head")
	wd.w.Count("answer", a.name)
	wd.w.Count("result", strings.Fields(strings.Trim(res, "()"))[0]+func() string {
		if strings.HasPrefix(res, "(BErr") {
			return " " + strings.Trim(strings.Fields(res)[1], ")")
		}
		return ""
	}())
	wd.w.Count("getter_calls", fmt.Sprintf("%d/%s", len(calls), func() string {
		if len(calls) == 0 {
			return "-"
		}
		if calls[0].trusted == nil {
			return "untrusted"
		}
		return "trusted"
	}()))
	wd.kinds["head:"+a.name+":"+strings.Fields(strings.Trim(res, "()"))[0]] = true
	if a.kind == aSoft && a.h != nil && out.err == nil && out.h != nil && out.h.Height() == a.h.Height() && wd.storeHeight() == a.h.Height() && len(calls) == 1 && calls[0].trusted != nil && a.h.Height() == calls[0].trusted.Height()+1 {
		// incomingNetworkHead stored the header (adjacent), networkHead's own setLocalHead delivered it again
		wd.w.Count("store_head_redelivered", "one call, soft answer")
	}
}

func (wd *world) opTick(force string) {
	r := wd.rng
	kind := force
	if kind == "" {
		kinds := []string{"small", "small", "block", "blocks", "recency_edge", "expiry_edge", "long"}
		kind = kinds[r.Intn(len(kinds))]
	}
	var d time.Duration
	thr := wd.cfg.recency
	if thr == 0 {
		thr = 3 * wd.cfg.block
	}
	now := time.Now().UnixNano()
	switch kind {
	case "small":
		d = time.Duration(1+r.Intn(4000)) * time.Millisecond
	case "block":
		d = wd.cfg.block
	case "blocks":
		d = time.Duration(2+r.Intn(6)) * wd.cfg.block
	case "long":
		d = wd.cfg.trust/2 + time.Duration(r.Intn(int(wd.cfg.trust/time.Second)))*time.Second
	case "before_expiry": // half a second before the subjective head expires
		d = wd.cfg.block
		if wd.est != nil {
			if x := wd.est.T + int64(wd.cfg.trust) - int64(500*time.Millisecond) - now; x > 0 {
				d = time.Duration(x)
			}
		}
	case "recency_edge", "expiry_edge":
		if wd.est == nil {
			d = wd.cfg.block
			break
		}
		edge := wd.est.T + int64(thr)
		if kind == "expiry_edge" {
			edge = wd.est.T + int64(wd.cfg.trust)
		}
		x := edge + int64(r.Intn(3)) - 1 - now
		if x <= 0 {
			x = int64(wd.cfg.block)
		}
		d = time.Duration(x)
	}
	time.Sleep(d)
	synctest.Wait()
	wd.ops = append(wd.ops, fmt.Sprintf("KTick %d", int64(d)))
	wd.descr = append(wd.descr, "tick("+kind+","+d.String()+")")
	wd.w.Count("op", "tick")
	wd.w.Count("tick", kind)
}

func (wd *world) opGossip(force string) {
	r := wd.rng
	kind := force
	if kind == "" {
		kinds := []string{"next", "next", "ahead", "ahead", "lower", "same", "fork_adj", "fork_far", "future", "tip"}
		kind = kinds[r.Intn(len(kinds))]
	}
	base := wd.u.first
	if wd.est != nil {
		base = wd.est.Height()
	}
	var h *vhdr.Header
	switch kind {
	case "next":
		h = wd.u.at(base + 1)
	case "ahead":
		h = wd.u.at(base + 2 + uint64(r.Intn(6)))
	case "tip":
		h = wd.u.at(wd.nowH())
	case "lower":
		if base > wd.u.first {
			h = wd.u.at(base - 1)
		} else {
			h = wd.u.at(base)
		}
	case "same":
		h = wd.u.at(base)
	case "fork_adj":
		c := *wd.u.at(base + 1)
		c.Prev = []byte("not the parent")
		c.Nonce = 99
		h = &c
	case "fork_far":
		c := *wd.u.at(base + 3)
		c.Nonce = 98
		h = &c
	case "future":
		h = wd.u.at(wd.nowH() + 30 + uint64(r.Intn(30)))
	}
	wd.g.armSync()
	ctx, cancel := context.WithTimeout(context.Background(), 5*time.Second)
	err := wd.sub.verifier(ctx, h)
	cancel()
	synctest.Wait()
	wd.g.releaseSync()
	wd.g.take()
	if err == nil {
		wd.note(h)
	}
	tail := "(TOk " + emit.Some(wd.reg.Term(wd.u.at(wd.g.tailH))) + ")"
	wd.ops = append(wd.ops, fmt.Sprintf("KGossip %s %s %s %s %d", wd.reg.Term(h), noBif, tail, emit.B(err == nil), wd.storeHeight()))
	wd.descr = append(wd.descr, fmt.Sprintf("gossip(%s,h=%d)->%v", kind, h.Height(), err == nil))
	wd.w.Count("op", "gossip")
	wd.w.Count("gossip", fmt.Sprintf("%s/%v", kind, err == nil))
}

// opConc: n callers; caller 0 enters first and blocks inside the getter's Head;
// the others arrive while that flight is open; then the answer is released.
func (wd *world) opConc(force string) {
	r := wd.rng
	n := []int{2, 3, 5, 8}[r.Intn(4)]
	a := wd.pickAnswer(force)
	w := r.Chance(25) && a.kind != aHang
	cto := 5 * time.Second
	wcto := cto
	d := time.Duration(r.Intn(3)) * 300 * time.Millisecond
	if w {
		wcto = 400 * time.Millisecond
		d = 1 * time.Second
	}
	gate := make(chan struct{})
	wd.g.mu.Lock()
	wd.g.ans, wd.g.gate = a, gate
	wd.g.tailOK = true
	wd.g.mu.Unlock()
	empty := wd.storeHeight() == 0
	in := wd.hin(cto, a, empty)
	outs := make([]callOut, n)
	var wg gosync.WaitGroup
	wd.g.armSync()
	t0 := time.Now()
	for i := 0; i < n; i++ {
		wg.Add(1)
		c := wcto
		if i == 0 {
			c = cto
		}
		go func(i int, c time.Duration) {
			defer wg.Done()
			outs[i] = wd.call(false, c)
		}(i, c)
		if i == 0 {
			synctest.Wait() // caller 0 is inside the getter (or already returned)
		}
	}
	synctest.Wait()
	if a.kind != aHang {
		time.Sleep(d)
		synctest.Wait()
	}
	close(gate)
	wg.Wait()
	synctest.Wait()
	if a.kind == aHang {
		d = time.Since(t0)
	}
	wd.g.releaseSync()
	var res []string
	for _, o := range outs {
		res = append(res, classify(wd.reg, false, o.h, o.err, o.panicked))
		if o.err == nil {
			wd.note(o.h)
		}
	}
	sort.Slice(res, func(i, j int) bool { return resKey(res[i]) < resKey(res[j]) })
	calls := wd.g.take()
	wd.g.mu.Lock()
	wd.g.gate = nil
	wd.g.mu.Unlock()
	wd.ops = append(wd.ops, fmt.Sprintf("KConc %s %s %s %d %s %s %d", emit.Nat(n), in, emit.B(w), int64(d), emit.List(res), callsTerm(wd.reg, calls), wd.storeHeight()))
	wd.descr = append(wd.descr, fmt.Sprintf("conc(n=%d,ans=%s,w=%v,d=%s)->%v calls=%d", n, a.name, w, d, res, len(calls)))
	wd.w.Count("op", "conc")
	wd.w.Count("conc_answer", a.name)
	wd.w.Count("conc_calls", fmt.Sprintf("n=%d calls=%d", n, len(calls)))
	wd.kinds[fmt.Sprintf("conc:%s:%v:%d", a.name, w, len(calls))] = true
	if a.kind == aOk && a.h != nil && !w && len(calls) == 1 && calls[0].trusted != nil && a.h.Height() == calls[0].trusted.Height()+1 && wd.storeHeight() == a.h.Height() {
		wd.w.Count("store_head_redelivered", fmt.Sprintf("group of %d callers", n))
	}
}

// opSched: a scripted interleaving of callers, gossip heads, clock advances and
// getter answers while the getter's Head is held open on a gate.
func (wd *world) opSched(force string) {
	r := wd.rng
	const maxCallers = 6
	gate := make(chan struct{})
	wd.g.mu.Lock()
	wd.g.gate = gate
	wd.g.tailOK = true
	wd.g.mu.Unlock()
	wd.g.armSync()
	empty := wd.storeHeight() == 0
	in := wd.hin(5*time.Second, answer{kind: aFail}, empty)
	tail := "(TOk " + emit.Some(wd.reg.Term(wd.u.at(wd.g.tailH))) + ")"
	outs := make([]callOut, 0, maxCallers)
	done := make([]chan struct{}, 0, maxCallers)
	var acts, gok, dsc []string
	ncall := 0
	elapsed := time.Duration(0)
	blockedNow := func() int {
		wd.g.mu.Lock()
		defer wd.g.mu.Unlock()
		return wd.g.blocked
	}
	call := func() {
		j := ncall
		ncall++
		outs = append(outs, callOut{})
		ch := make(chan struct{})
		done = append(done, ch)
		go func() {
			defer close(ch)
			o := wd.call(false, 5*time.Second)
			outs[j] = o
		}()
		synctest.Wait()
		acts = append(acts, fmt.Sprintf("ACall %s", emit.Nat(j)))
		dsc = append(dsc, fmt.Sprintf("call%d", j))
	}
	answer := func(kind string) {
		a := wd.pickAnswer(kind)
		for a.kind == aHang {
			a = wd.pickAnswer("")
		}
		wd.g.mu.Lock()
		wd.g.ans = a
		old := wd.g.gate
		wd.g.gate = make(chan struct{})
		wd.g.mu.Unlock()
		close(old)
		synctest.Wait()
		t := ansTerm(wd.reg, a)
		if a.kind == aSoft && a.h == nil {
			t = "(GSoft hdr_nil)"
		}
		acts = append(acts, "AAnswer "+t)
		dsc = append(dsc, "answer("+a.name+")")
		wd.w.Count("sched_answer", a.name)
	}
	gossip := func(kind string) {
		base := wd.u.first
		if wd.est != nil {
			base = wd.est.Height()
		}
		var h *vhdr.Header
		switch kind {
		case "next":
			h = wd.u.at(base + 1)
		case "ahead":
			h = wd.u.at(base + 2 + uint64(r.Intn(3)))
		case "tip":
			h = wd.u.at(wd.nowH())
		default:
			if base > wd.u.first {
				h = wd.u.at(base - 1)
			} else {
				h = wd.u.at(base)
			}
		}
		ctx, cancel := context.WithTimeout(context.Background(), 5*time.Second)
		err := wd.sub.verifier(ctx, h)
		cancel()
		synctest.Wait()
		if err == nil {
			wd.note(h)
		}
		acts = append(acts, fmt.Sprintf("AGossip %s %s %s", wd.reg.Term(h), noBif, tail))
		gok = append(gok, emit.B(err == nil))
		dsc = append(dsc, fmt.Sprintf("gossip(%s,%d)->%v", kind, h.Height(), err == nil))
		wd.w.Count("sched_gossip", fmt.Sprintf("%s/%v/blocked=%v", kind, err == nil, blockedNow() > 0))
	}
	tick := func() {
		d := time.Duration(1+r.Intn(300)) * time.Millisecond
		if elapsed+d > 1500*time.Millisecond {
			return
		}
		elapsed += d
		time.Sleep(d)
		synctest.Wait()
		acts = append(acts, fmt.Sprintf("ATick %d", int64(d)))
		dsc = append(dsc, "tick("+d.String()+")")
	}
	tickD := func(d time.Duration) {
		elapsed += d
		time.Sleep(d)
		synctest.Wait()
		acts = append(acts, fmt.Sprintf("ATick %d", int64(d)))
		dsc = append(dsc, "tick("+d.String()+")")
	}
	gk := []string{"next", "ahead", "tip", "lower"}
	steps := 3 + r.Intn(6)
	if force == "x3a" {
		// candidate finding F31 (Props/C19_more.v): caller 0 opens the flight with the (stale, not yet expired)
		// subjective head as trusted head; the clock passes the expiry while the flight is open; caller 1 decides
		// (re)initialisation and joins that flight; the answer comes and both take it
		steps = 0
		force = "fresh"
		call()
		tickD(time.Second)
		call()
		answer(force)
		wd.w.Count("sched_f31_witness", fmt.Sprintf("callers=%d blocked_after=%d", ncall, blockedNow()))
	} else {
		call()
	}
	for i := 0; i < steps; i++ {
		x := r.Intn(100)
		switch {
		case x < 35 && ncall < maxCallers:
			call()
		case x < 65:
			gossip(gk[r.Intn(len(gk))])
		case x < 75:
			tick()
		default:
			if blockedNow() > 0 {
				answer(force)
				elapsed = 0
			} else if ncall < maxCallers {
				call()
			}
		}
	}
	for blockedNow() > 0 {
		answer(force)
	}
	for _, ch := range done {
		<-ch
	}
	synctest.Wait()
	wd.g.mu.Lock()
	wd.g.gate = nil
	wd.g.mu.Unlock()
	wd.g.releaseSync()
	var res []string
	for _, o := range outs {
		res = append(res, classify(wd.reg, false, o.h, o.err, o.panicked))
		if o.err == nil {
			wd.note(o.h)
		}
	}
	sort.Slice(res, func(i, j int) bool { return resKey(res[i]) < resKey(res[j]) })
	calls := wd.g.take()
	var as []string
	for _, a := range acts {
		as = append(as, "("+a+")")
	}
	wd.ops = append(wd.ops, fmt.Sprintf("KSched %s %s %s %s %s %s %d", emit.Nat(maxCallers), in, emit.List(as), emit.List(res), emit.List(gok), callsTerm(wd.reg, calls), wd.storeHeight()))
	wd.descr = append(wd.descr, fmt.Sprintf("sched(%s)->%v calls=%d", strings.Join(dsc, " "), res, len(calls)))
	wd.w.Count("op", "sched")
	wd.w.Count("sched_shape", fmt.Sprintf("callers=%d flights=%d", ncall, len(calls)))
	wd.kinds[fmt.Sprintf("sched:%d:%d", ncall, len(calls))] = true
}

// resKey mirrors Oracle.C19.robs_key.
func resKey(s string) uint64 {
	f := strings.Fields(strings.Trim(s, "()"))
	switch f[0] {
	case "BOk":
		var id, h uint64
		fmt.Sscan(f[1], &id)
		fmt.Sscan(f[2], &h)
		return 16 + h*4294967296 + id%4294967296
	case "BNil":
		return 8
	}
	switch strings.Trim(f[1], ")") {
	case "RGetter":
		return 1
	case "RCtx":
		return 2
	case "RExpired":
		return 3
	case "RTail":
		return 4
	case "REmpty":
		return 5
	case "RPanic":
		return 6
	}
	return 0
}

func runCase(t *testing.T, reg *vhdr.Registry, rng *emit.Rand, w *emit.Writer, cfg config, script []string, nops int) {
	synctest.Test(t, func(t *testing.T) {
		wd := &world{t: t, reg: reg, rng: rng, w: w, cfg: cfg, kinds: map[string]bool{}}
		now0 := time.Now().UnixNano()
		spacing := int64(cfg.block)
		const H0 = 5000
		first := uint64(H0 - 900 - rng.Intn(50))
		wd.u = &universe{base: now0 - H0*spacing - int64(rng.Intn(int(spacing))), spacing: spacing, chain: map[uint64]*vhdr.Header{}, top: first - 1, first: first}
		vhdr.SetPolicy(vhdr.LinkPolicy(cfg.rng))
		ds := dssync.MutexWrap(datastore.NewMapDatastore())
		st, err := store.NewStore[*vhdr.Header](ds)
		if err != nil {
			t.Fatal(err)
		}
		ctx := context.Background()
		if err := st.Start(ctx); err != nil {
			t.Fatal(err)
		}
		wd.st = st
		thr := cfg.recency
		if thr == 0 {
			thr = 3 * cfg.block
		}
		var head *vhdr.Header
		switch cfg.initial {
		case "recent":
			head = wd.u.at(H0 - uint64(rng.Intn(2)))
		case "stale":
			head = wd.u.at(H0 - uint64(thr/cfg.block) - 2 - uint64(rng.Intn(5)))
		case "expired":
			head = wd.u.at(H0 - uint64(cfg.trust/cfg.block) - 2 - uint64(rng.Intn(5)))
		}
		if head != nil {
			var hs []*vhdr.Header
			from := first
			if head.Height() > first+20 {
				from = head.Height() - 20
				// keep the tail at [first]: store first..head would be long; use a short store whose tail is `from`
			}
			for h := from; h <= head.Height(); h++ {
				hs = append(hs, wd.u.at(h))
			}
			if err := st.Append(ctx, hs...); err != nil {
				t.Fatal(err)
			}
			if err := st.Sync(ctx); err != nil {
				t.Fatal(err)
			}
			first = from
			wd.est = head
		}
		wd.g = &getter{u: wd.u, tailH: first, tailOK: true, serve: cfg.serve}
		wd.sub = &subscriber{}
		sy, err := hsync.NewSyncer[*vhdr.Header](wd.g, st, wd.sub,
			hsync.WithBlockTime(cfg.block), hsync.WithTrustingPeriod(cfg.trust),
			hsync.WithRecencyThreshold(cfg.recency), hsync.WithSyncFromHeight(first))
		if err != nil {
			t.Fatal(err)
		}
		wd.sy = sy
		synctest.Wait()

		for i := 0; i < nops; i++ {
			var op, arg string
			if i < len(script) {
				f := strings.SplitN(script[i], ":", 2)
				op = f[0]
				if len(f) > 1 {
					arg = f[1]
				}
			} else {
				x := rng.Intn(100)
				switch {
				case !wd.start:
					op = "head"
					if x < 25 {
						op = "tick"
					}
				case x < 35:
					op = "head"
				case x < 60:
					op = "tick"
				case x < 78:
					op = "gossip"
				case x < 89:
					op = "conc"
				default:
					op = "sched"
				}
			}
			if cfg.serve && (op == "conc" || op == "sched") {
				// concurrent setLocalHead calls racing with a running sync loop: see pickAnswer
				op = []string{"head", "gossip"}[rng.Intn(2)]
				arg = ""
			}
			if i >= len(script) && wd.start && (op == "conc" || op == "sched") && rng.Chance(60) {
				wd.opTick("blocks") // make the subjective head stale first
			}
			switch op {
			case "head":
				wd.opHead(arg)
			case "tick":
				wd.opTick(arg)
			case "gossip":
				if wd.start {
					wd.opGossip(arg)
				} else {
					wd.opHead("")
				}
			case "conc":
				if wd.start {
					wd.opConc(arg)
				} else {
					wd.opHead(arg)
				}
			case "sched":
				if wd.start {
					wd.opSched(arg)
				} else {
					wd.opHead(arg)
				}
			}
		}
		if wd.tried {
			_ = sy.Stop(ctx)
		}
		synctest.Wait()
		sctx, cancel := context.WithTimeout(ctx, time.Minute)
		_ = st.Stop(sctx)
		cancel()
		synctest.Wait()

		storeT := "None"
		if head != nil {
			storeT = emit.Some(reg.Term(head))
		}
		params := fmt.Sprintf("(Params %s %s %s %s %s)", emit.Z(int64(cfg.trust)), emit.Z(int64(cfg.block)), emit.Z(int64(cfg.recency)),
			emit.Z(int64(header.VerifClockDrift())), emit.Z(int64(hsync.NetworkHeadRequestTimeout)))
		var ops []string
		for _, o := range wd.ops {
			ops = append(ops, "("+o+")")
		}
		term := fmt.Sprintf("Case19 %s %d %s %s %s %s", params, cfg.rng, emit.B(cfg.serve), storeT, emit.Z(now0), emit.List(ops))
		var ks []string
		for k := range wd.kinds {
			ks = append(ks, k)
		}
		sort.Strings(ks)
		class := fmt.Sprintf("%s/%v/%d/%s", cfg.initial, cfg.serve, cfg.rng, strings.Join(ks, ","))
		w.Add(term, map[string]any{"config": fmt.Sprintf("%+v", cfg), "script": script, "ops": wd.descr}, class, len(ks) > 0)
		w.Count("initial", cfg.initial)
		w.Count("ops_per_case", fmt.Sprintf("%d", len(wd.ops)))
	})
}

func TestC19(t *testing.T) {
	_ = logging.SetLogLevel("*", "fatal")
	logging.SetAllLoggers(logging.LevelFatal)
	rng := emit.NewRand(emit.Seed())
	reg := vhdr.NewRegistry()
	w := emit.NewWriter("Model.Verify Model.SyncHead Oracle.C19", "case19", "chk19")
	w.PerShard(50)
	w.Rule = "histories of Start/Head calls, clock advances, gossip heads and groups of concurrent Head callers against the real Syncer+Store in virtual time; " +
		"getter answers drawn from fresh/stale/between/lower/equal/expired/expiry-edge(+-1ns)/fail/hang/soft/nil/future; initial store empty/recent/stale/expired; " +
		"a class is the set of (operation, answer, result) kinds a history reached"
	defer vhdr.SetPolicy(nil)

	initials := []string{"empty", "recent", "stale", "expired"}
	cfgs := func(i int) config {
		c := config{block: 10 * time.Second, trust: 600 * time.Second, recency: 0, rng: 0, serve: i%2 == 0, initial: initials[i%4]}
		switch (i / 4) % 4 {
		case 1:
			c.recency = 25 * time.Second
		case 2:
			c.trust = 3600 * time.Second
		case 3:
			c.rng = 4
		}
		if (i/16)%2 == 1 {
			c.serve = !c.serve
		}
		return c
	}
	// scripted witnesses that are always generated
	scripts := [][]string{
		// recent head: no traffic; stale head: one trusted request; lower answer kept
		{"head:fresh", "head:fresh", "tick:blocks", "head:lower", "head:fresh", "head:fail"},
		// expired stored head, trusted peers answer with an expired head: error
		{"head:expired", "head:expired_edge", "head:fresh", "head:fresh"},
		// expired stored head, fresh trusted head below it: nothing adopted, expired head returned with nil error
		{"head:fresh", "tick:long", "tick:long", "tick:long", "head:lower", "head:fresh"},
		// concurrent callers on a stale head
		{"head:fresh", "tick:blocks", "conc:fresh", "tick:blocks", "conc:fail", "tick:blocks", "conc:hang", "tick:blocks", "conc:soft"},
		// gossip raises the head between calls
		{"head:fresh", "gossip:next", "gossip:ahead", "head:lower", "tick:blocks", "head:between", "gossip:lower", "head:fresh"},
		// expiry while running, then concurrent re-initialisation
		{"head:fresh", "tick:long", "tick:long", "conc:fresh", "conc:expired"},
		// the store head is delivered again: twice by one call (soft answer that verifies), by every
		// caller of a group, and by a later soft answer equal to the head
		{"head:fresh", "tick:blocks", "head:soft_next", "head:fail", "tick:blocks", "conc:next", "head:fail", "tick:blocks", "head:soft_low", "head:equal"},
		{"head:fresh", "tick:blocks", "head:soft_next", "tick:blocks", "head:next", "gossip:same", "head:fail"},
		// callers, gossip and answers interleaved while a flight is open
		{"head:fresh", "tick:blocks", "sched:between", "head:fail", "tick:blocks", "sched:lower", "head:fail", "tick:blocks", "sched:", "head:fail"},
		// candidate finding F31: the subjective head expires while a stale-head flight is open; a second caller
		// (re)initialises off that flight's answer
		{"head:fresh", "tick:before_expiry", "sched:x3a", "head:fail"},
	}
	n := 0
	for _, init := range initials {
		for si, sc := range scripts {
			c := cfgs(n)
			c.initial = init
			c.serve = si%2 == 0 || si == 7 // 7: sequential re-delivery with a synced store
			for _, o := range sc {
				if strings.HasPrefix(o, "conc") || strings.HasPrefix(o, "sched") {
					c.serve = false
				}
			}
			runCase(t, reg, rng, w, c, sc, len(sc))
			n++
		}
	}
	random := 120
	if emit.Thorough() {
		random = 1600
	}
	for i := 0; i < random; i++ {
		c := cfgs(i)
		nops := 6 + rng.Intn(9)
		runCase(t, reg, rng, w, c, nil, nops)
	}
	// the schedule of the former finding F19 is always generated (real time, own header type)
	parkWitness(t, reg, w)
	// a Head() call racing with the end of a sync round (the two reads of localHead)
	raceWitness(t, reg, w)
	if err := w.Flush(); err != nil {
		t.Fatal(err)
	}
	t.Logf("emitted %d cases", w.Len())
}
