//go:build verif

package c19

// Witness of the former finding F19 (fixed by /repo dd38a4c: Head() must now be 20, 20, 20, 20) on the real code (technique of harness/c03's
// TestStalePendingWitness): a header type whose Height() parks its caller at the
// second call made from setLocalHead, i.e. inside
// `storeHead.Height() >= netHead.Height()`, after the store head was read and
// before pending.Add. Runs in real time: while parked the verifier holds
// incomingMu, and a Head() waiting for that mutex is not "durably blocked" for
// a synctest bubble.

import (
	"context"
	"errors"
	"fmt"
	"runtime"
	"strings"
	gosync "sync"
	"testing"
	"time"

	"github.com/ipfs/go-datastore"
	dssync "github.com/ipfs/go-datastore/sync"

	header "github.com/celestiaorg/go-header"
	"github.com/celestiaorg/go-header/store"
	hsync "github.com/celestiaorg/go-header/sync"

	"verifharness/emit"
	"verifharness/vhdr"
)

// hgate parks the goroutine that asks the gated header for its Height():
// stage 1 - the 2nd call made from setLocalHead (the comparison with the store head);
// stage 2 - the first call made from sync() afterwards (its "already synced?" test,
// right before ranges.RemoveUpTo).
type hgate struct {
	mu      gosync.Mutex
	stage   int // 1, 2; 0 = off
	n       int
	parked1 chan struct{}
	rel1    chan struct{}
	parked2 chan struct{}
	rel2    chan struct{}
}

func newGate() *hgate {
	return &hgate{stage: 1, parked1: make(chan struct{}), rel1: make(chan struct{}), parked2: make(chan struct{}), rel2: make(chan struct{})}
}

func (g *hgate) hit() {
	g.mu.Lock()
	if g.stage == 0 {
		g.mu.Unlock()
		return
	}
	pc := make([]uintptr, 6)
	n := runtime.Callers(3, pc) // 0 Callers, 1 hit, 2 Height, 3 = Height's caller
	f, _ := runtime.CallersFrames(pc[:n]).Next()
	switch {
	case g.stage == 1 && strings.Contains(f.Function, "setLocalHead"):
		g.n++
		if g.n != 2 { // 1st: the metrics argument; 2nd: the comparison with the store head
			g.mu.Unlock()
			return
		}
		g.stage = 2
		g.mu.Unlock()
		close(g.parked1)
		<-g.rel1
	case g.stage == 2 && strings.HasSuffix(f.Function, ".sync"):
		g.stage = 0
		g.mu.Unlock()
		close(g.parked2)
		<-g.rel2
	case g.stage == 3 && strings.Contains(f.Function, "ranges") && strings.HasSuffix(f.Function, ".Add"):
		// inside ranges.Add, i.e. under the write lock of the pending ranges
		g.stage = 0
		g.mu.Unlock()
		close(g.parked1)
		<-g.rel1
	default:
		g.mu.Unlock()
	}
}

// newAddGate parks the first Height() asked from ranges.Add (stage 3 only).
func newAddGate() *hgate {
	g := newGate()
	g.stage = 3
	return g
}

// PH is vhdr.Header with a Height() that can park its caller.
type PH struct {
	vhdr.Header
	g *hgate
}

func (h *PH) New() *PH     { return new(PH) }
func (h *PH) IsZero() bool { return h == nil }
func (h *PH) Height() uint64 {
	if h.g != nil {
		h.g.hit()
	}
	return h.H
}
func (h *PH) Verify(u *PH) error { return h.Header.Verify(&u.Header) }

var _ header.Header[*PH] = (*PH)(nil)

type rangeReq struct {
	from, to uint64
	ch       chan []*PH
}

type phGetter struct {
	mu       gosync.Mutex
	head     *PH
	cur      *rangeReq
	at       func(uint64) *PH
	headGate chan struct{} // when set, Head waits for it before answering
	inHead   int           // Head calls waiting at headGate
}

func (g *phGetter) Head(ctx context.Context, _ ...header.HeadOption[*PH]) (*PH, error) {
	g.mu.Lock()
	gate := g.headGate
	if gate != nil {
		g.inHead++
	}
	g.mu.Unlock()
	if gate != nil {
		select {
		case <-gate:
		case <-ctx.Done():
			return nil, ctx.Err()
		}
	}
	g.mu.Lock()
	defer g.mu.Unlock()
	if g.head == nil {
		return nil, errHead
	}
	h := g.head
	g.head = nil
	return h, nil
}
func (g *phGetter) Get(context.Context, header.Hash) (*PH, error)    { return nil, header.ErrNotFound }
func (g *phGetter) GetByHeight(context.Context, uint64) (*PH, error) { return nil, errTail }
func (g *phGetter) GetRangeByHeight(ctx context.Context, from *PH, to uint64) ([]*PH, error) {
	r := &rangeReq{from: from.H, to: to, ch: make(chan []*PH, 1)}
	g.mu.Lock()
	g.cur = r
	g.mu.Unlock()
	select {
	case hs := <-r.ch:
		return hs, nil
	case <-ctx.Done():
		return nil, ctx.Err()
	}
}

type phSub struct {
	v func(context.Context, *PH) error
}

func (s *phSub) Subscribe() (header.Subscription[*PH], error) { return nil, errors.New("c19: no subscriptions") }
func (s *phSub) SetVerifier(f func(context.Context, *PH) error) error {
	s.v = f
	return nil
}

func waitFor(cond func() bool) bool { return waitForD(10*time.Second, cond) }

func waitForD(d time.Duration, cond func() bool) bool {
	deadline := time.Now().Add(d)
	for time.Now().Before(deadline) {
		if cond() {
			return true
		}
		time.Sleep(2 * time.Millisecond)
	}
	return cond()
}

// parkWitness runs the schedule of finding F19 on the real Syncer and emits it as a KPark case.
func parkWitness(t *testing.T, reg *vhdr.Registry, w *emit.Writer) {
	vhdr.SetPolicy(vhdr.LinkPolicy(0))
	start := time.Now()
	raw := vhdr.Chain("c", 15, 8, start.UnixNano()-int64(20*time.Millisecond), int64(time.Millisecond), nil)
	at := func(n uint64) *PH { return &PH{Header: *raw[n-15]} }
	ctx, cancel := context.WithTimeout(context.Background(), time.Minute)
	defer cancel()
	st, err := store.NewStore[*PH](dssync.MutexWrap(datastore.NewMapDatastore()), store.WithWriteBatchSize(1))
	if err != nil {
		t.Fatal(err)
	}
	if err := st.Start(ctx); err != nil {
		t.Fatal(err)
	}
	if err := st.Append(ctx, at(15), at(16), at(17)); err != nil {
		t.Fatal(err)
	}
	if err := st.Sync(ctx); err != nil {
		t.Fatal(err)
	}
	g := &phGetter{at: at}
	sub := &phSub{}
	trust, block := 1000*time.Hour, time.Nanosecond
	sy, err := hsync.NewSyncer[*PH](g, st, sub, hsync.WithSyncFromHeight(15), hsync.WithBlockTime(block), hsync.WithTrustingPeriod(trust))
	if err != nil {
		t.Fatal(err)
	}
	if err := sy.Start(ctx); err != nil {
		t.Fatal(err)
	}
	defer func() {
		_ = sy.Stop(ctx)
		_ = st.Stop(ctx)
	}()
	storeHead := func() uint64 {
		h, err := st.Head(ctx)
		if err != nil {
			return 0
		}
		return h.Height()
	}
	headCall := func() string {
		c, cancel := context.WithTimeout(context.Background(), 5*time.Second)
		defer cancel()
		h, err := sy.Head(c)
		var v *vhdr.Header
		if h != nil {
			v = &h.Header
		}
		return emit.Some(classify(reg, false, v, err, false))
	}

	// 1. gossip 19 is verified against 17 and parks inside setLocalHead
	gate := newGate()
	x19 := at(19)
	x19.g = gate
	res19 := make(chan error, 1)
	go func() { res19 <- sub.v(context.Background(), x19) }()
	parked := false
	var early error
	waitFor(func() bool {
		select {
		case <-gate.parked1:
			parked = true
			return true
		case early = <-res19:
			res19 <- early
			return true
		default:
			return false
		}
	})
	// 2. caller 1 learns 20; the sync loop asks for the range above 17
	g.mu.Lock()
	g.head = at(20)
	g.mu.Unlock()
	r1 := make(chan string, 1)
	go func() { r1 <- headCall() }()
	waitFor(func() bool { g.mu.Lock(); defer g.mu.Unlock(); return g.cur != nil })
	// 3. the honest getter serves exactly the requested range; the loop appends it and the cached headers
	g.mu.Lock()
	cur := g.cur
	g.mu.Unlock()
	if cur != nil {
		var hs []*PH
		for h := cur.from + 1; h < cur.to && h <= 22; h++ {
			hs = append(hs, at(h))
		}
		cur.ch <- hs
	}
	waitFor(func() bool { return storeHead() == 20 })
	// 4. caller 2: the getter fails, the subjective head is returned
	o2 := headCall()
	// 5. the parked verifier call resumes: pending.Add, wantSync; the sync loop is held at its
	//    "already synced?" test; caller 1 finishes
	close(gate.rel1)
	parked2 := false
	if parked {
		// (with localHead reading the store head too, sync() no longer asks the stale pending
		// header for its height, so this second hold is reached only on older code)
		parked2 = waitForD(3*time.Second, func() bool {
			select {
			case <-gate.parked2:
				return true
			default:
				return false
			}
		})
	}
	select {
	case <-res19:
	case <-time.After(10 * time.Second):
	}
	o1 := "None"
	select {
	case o1 = <-r1:
	case <-time.After(10 * time.Second):
	}
	// 6. caller 3 starts after callers 1 and 2 returned
	o3 := headCall()
	// 7. the sync loop drops the stale pending entry; caller 4
	close(gate.rel2)
	gate.mu.Lock()
	gate.stage = 0
	gate.mu.Unlock()
	time.Sleep(50 * time.Millisecond)
	waitFor(func() bool {
		c, cancel := context.WithTimeout(context.Background(), time.Second)
		defer cancel()
		h, err := sy.Head(c)
		return err == nil && h.H >= storeHead()
	})
	o4 := headCall()
	if parked && !parked2 {
		t.Logf("F19 witness: the sync loop did not reach its already-synced test while held (sync() changed?)")
	}

	tail := "(TOk " + emit.Some(reg.Term(&at(15).Header)) + ")"
	in := fmt.Sprintf("(HIn %s GFail %s %s %s)", emit.Z(int64(5*time.Second)), noBif, tail, noBif)
	params := fmt.Sprintf("(Params %s %s %s %s %s)", emit.Z(int64(trust)), emit.Z(int64(block)), emit.Z(0),
		emit.Z(int64(header.VerifClockDrift())), emit.Z(int64(hsync.NetworkHeadRequestTimeout)))
	op := fmt.Sprintf("(KPark %s %s %s %s %s %s %s %s)", emit.B(parked), reg.Term(&at(19).Header), reg.Term(&at(20).Header), in, o1, o2, o3, o4)
	term := fmt.Sprintf("Case19 %s 0 false %s %s %s", params, emit.Some(reg.Term(&at(17).Header)), emit.Z(start.UnixNano()), emit.List([]string{op}))
	w.Add(term, map[string]any{"witness": "F19", "parked": parked, "sync_held": parked2, "results": []string{o1, o2, o3, o4}, "store_head": storeHead()},
		fmt.Sprintf("park/%v", parked), true)
	w.Count("op", "park")
	w.Count("park_witness", fmt.Sprintf("parked=%v sync_held=%v caller1=%s caller2=%s caller3=%s caller4=%s", parked, parked2, o1, o2, o3, o4))
}
