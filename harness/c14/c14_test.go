//go:build verif

package c14

import (
	"fmt"
	"testing"

	"verifharness/emit"
	"verifharness/storeh"
)

// TestC14: deletable ranges with 1..3 OnDelete handlers failing or panicking at every position.
func TestC14(t *testing.T) {
	rng := emit.NewRand(emit.Seed())
	w := emit.NewWriter("Model.Store Model.StoreSpec Oracle.StoreCase Oracle.C14", "case14", "chk14")
	w.PerShard(40)
	w.Rule = "stores with flushed and unflushed headers, 1..3 registered OnDelete handlers; tail-side, head-side and whole-store DeleteRange with a " +
		"scripted handler error or panic at a chosen (handler, height) (thorough: every position of ranges <= 8 x every handler x error/panic), then a " +
		"retry of the same range without failure; each handler records GetByHeight(height) at call time; the handler log is compared with the " +
		"headers that actually disappeared; plus the PARALLEL deletion path (threshold lowered by the verif hook) with a failing/panicking handler and the retry, checked by a relational oracle. distinct by (config, ops); non-trivial when a handler was called"
	run := func(cfg storeh.Config, size int, side int, fail *storeh.Fail, class string) {
		appendOnly := storeh.RandomGen(rng, cfg, storeh.Weights{Append: 100})
		rest := storeh.RandomGen(rng, cfg, storeh.Weights{Append: 50, Delete: 35, Restart: 15, InvalidDelete: 10, FailPct: 50})
		var from, to uint64
		gen := func(step int, tail, head uint64) (storeh.Op, bool) {
			switch step {
			case 0:
				hs := make([]uint64, size)
				for i := range hs {
					hs[i] = uint64(i + 1)
				}
				return storeh.Op{Kind: storeh.Append, Heights: hs}, true
			case 1:
				if rng.Bool() {
					return appendOnly(step, tail, head)
				}
				return storeh.Op{Kind: storeh.Append, Heights: []uint64{head + 1}}, true
			case 2:
				switch side {
				case 0:
					from, to = tail, tail+1+uint64(rng.Intn(int(head-tail)+1))
					if to > head {
						to = head
					}
					if to <= from {
						to = from + 1
					}
				case 1:
					to = head + 1
					from = head - uint64(rng.Intn(int(head-tail)+1))
					if from == tail && head > tail {
						from = tail + 1
					}
				default:
					from, to = tail, head+1
				}
				op := storeh.Op{Kind: storeh.Delete, From: from, To: to}
				if fail != nil {
					f := *fail
					f.Height = from + f.Height%(to-from)
					op.Fails = []storeh.Fail{f}
				}
				return op, true
			case 3: // retry
				if side == 1 {
					return storeh.Op{Kind: storeh.Delete, From: from, To: head + 1}, true
				}
				return storeh.Op{Kind: storeh.Delete, From: tail, To: to}, true
			default:
				return rest(step, tail, head)
			}
		}
		res := storeh.Run(t, rng, cfg, 4+rng.Intn(5), gen)
		w.Add("CSeq ("+res.Term+")", res.Descr, class+fmt.Sprint(res.Descr["ops"]), res.HandlerCalls > 0)
		w.Count("handler_calls", fmt.Sprint(res.HandlerCalls/5*5))
		w.Count("handlers", fmt.Sprint(cfg.NH))
		w.Count("side", fmt.Sprint(side))
	}
	cfgOf := func() storeh.Config {
		return storeh.Config{Batch: []int{1, 2, 3, 5, 64}[rng.Intn(5)], Cache: []int{4, 8, 512}[rng.Intn(3)], ICache: []int{4, 2048}[rng.Intn(2)],
			U: 16, NH: 1 + rng.Intn(3), ProbeEvery: true, Ranges: 1, CtxDS: rng.Bool(), DuringPct: 15}
	}
	if emit.Thorough() {
		w.Exhaustive = true
		for side := 0; side < 3; side++ {
			for nh := 1; nh <= 3; nh++ {
				for k := 0; k < nh; k++ {
					for pos := uint64(0); pos < 8; pos++ {
						for _, pn := range []bool{false, true} {
							cfg := cfgOf()
							cfg.NH = nh
							run(cfg, 8, side, &storeh.Fail{Handler: k, Height: pos, Panic: pn}, "grid/")
						}
					}
				}
			}
		}
	}
	n := 100
	if emit.Thorough() {
		n = 800
	}
	for i := 0; i < n; i++ {
		cfg := cfgOf()
		var f *storeh.Fail
		if rng.Chance(70) {
			f = &storeh.Fail{Handler: rng.Intn(cfg.NH), Height: uint64(rng.Intn(8)), Panic: rng.Chance(40)}
		}
		run(cfg, 3+rng.Intn(8), rng.Intn(3), f, "rand/")
	}
	// the parallel deletion path (threshold lowered through the verif hook) with a failing handler, then the retry
	np := 14
	if emit.Thorough() {
		np = 150
	}
	for i := 0; i < np; i++ {
		cfg := cfgOf()
		cfg.U = 30
		k := uint64(12 + rng.Intn(16))
		to := uint64(6 + rng.Intn(int(k)-6))
		f := storeh.Fail{Handler: rng.Intn(cfg.NH), Height: uint64(1 + rng.Intn(int(to)-1)), Panic: rng.Chance(30)}
		fs := []storeh.Fail{f}
		if rng.Bool() { // a second failing height, so that two workers fail in the same deletion
			fs = append(fs, storeh.Fail{Handler: rng.Intn(cfg.NH), Height: uint64(1 + rng.Intn(int(to)-1)), Panic: rng.Chance(30)})
		}
		term, d := storeh.RunPar(t, rng, cfg, k, to, fs...)
		w.Add(term, d, fmt.Sprint(d), true)
		w.Count("side", "parallel-path")
	}
	// failing datastore writes inside DeleteRange (finding F29): corpus witnesses, every single-failure placement on
	// both sides and the whole store with both datastore flavours, random placements at the end of random histories;
	// each followed by the retry, a continuation and a reopen (Oracle/StoreFault.v)
	nf := 25
	if emit.Thorough() {
		nf *= 10
	}
	storeh.FaultCases(t, rng, []int{4}, []int{1, 2}, nf, func(res storeh.Result, class string) {
		if res.FaultTerm == "" { // no operation with failing writes was reached
			w.Add("CSeq ("+res.Term+")", res.Descr, class+fmt.Sprint(res.Descr["ops"]), false)
			return
		}
		w.Add("CFault ("+res.FaultTerm+")", res.Descr, class+fmt.Sprint(res.Descr["ops"]), res.WFailed > 0)
		w.Count("failing_writes_in_delete", fmt.Sprint(res.WFailed))
		w.Count("write_attempts_in_faulty_delete", fmt.Sprint(res.WAttempts))
	})
	if err := w.Flush(); err != nil {
		t.Fatal(err)
	}
}
