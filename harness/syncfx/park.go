//go:build verif

// Real-time corpus runs with Head() calls that are delayed between receiving
// their network head and using it (a header type whose Height() parks its
// caller inside networkHead).  Two always-generated schedules - the ones that
// defeated the interleaved form of C07 before /repo 7d16f07 (finding F23):
// the shim head is moved into the middle of a pending range ("range") or of a
// range answer ("answer") the sync loop is about to append.
// The drivers of C03 and C07 turn a run into their case terms.
package syncfx

import (
	"context"
	"encoding/hex"
	"errors"
	"fmt"
	"runtime"
	"sort"
	"strings"
	gosync "sync"
	"time"

	"github.com/ipfs/go-datastore"
	"github.com/ipfs/go-datastore/query"
	dssync "github.com/ipfs/go-datastore/sync"

	header "github.com/celestiaorg/go-header"
	"github.com/celestiaorg/go-header/store"
	"github.com/celestiaorg/go-header/sync"

	"verifharness/emit"
	"verifharness/vhdr"
)

// ParkGate parks the first Height() call made from a function whose name contains Fn.
type ParkGate struct {
	mu     gosync.Mutex
	armed  bool
	Fn     string
	Parked chan struct{}
	Rel    chan struct{}
}

func NewParkGate(fn string) *ParkGate {
	return &ParkGate{armed: true, Fn: fn, Parked: make(chan struct{}), Rel: make(chan struct{})}
}

func (g *ParkGate) hit() {
	g.mu.Lock()
	if !g.armed {
		g.mu.Unlock()
		return
	}
	pc := make([]uintptr, 4)
	n := runtime.Callers(3, pc) // 0 Callers, 1 hit, 2 Height, 3 = Height's caller
	fr := runtime.CallersFrames(pc[:n])
	f, _ := fr.Next()
	if !strings.Contains(f.Function, g.Fn) {
		g.mu.Unlock()
		return
	}
	g.armed = false
	g.mu.Unlock()
	close(g.Parked)
	<-g.Rel
}

// ParkHeader is vhdr.Header plus a Height() that can park its caller.
type ParkHeader struct {
	vhdr.Header
	G *ParkGate
}

func (h *ParkHeader) New() *ParkHeader { return new(ParkHeader) }
func (h *ParkHeader) IsZero() bool     { return h == nil }
func (h *ParkHeader) Height() uint64 {
	if h.G != nil {
		h.G.hit()
	}
	return h.H
}
func (h *ParkHeader) Verify(u *ParkHeader) error { return h.Header.Verify(&u.Header) }

var _ header.Header[*ParkHeader] = (*ParkHeader)(nil)

type parkGetter struct {
	mu   gosync.Mutex
	head *ParkHeader
	cur  chan []*ParkHeader
	reqs [][2]uint64
}

func (g *parkGetter) Head(context.Context, ...header.HeadOption[*ParkHeader]) (*ParkHeader, error) {
	g.mu.Lock()
	defer g.mu.Unlock()
	if g.head == nil {
		return nil, errors.New("no head")
	}
	h := g.head
	g.head = nil
	return h, nil
}
func (g *parkGetter) Get(context.Context, header.Hash) (*ParkHeader, error) {
	return nil, errors.New("no")
}
func (g *parkGetter) GetByHeight(context.Context, uint64) (*ParkHeader, error) {
	return nil, errors.New("no")
}
func (g *parkGetter) GetRangeByHeight(ctx context.Context, from *ParkHeader, to uint64) ([]*ParkHeader, error) {
	ch := make(chan []*ParkHeader, 1)
	g.mu.Lock()
	g.cur = ch
	g.reqs = append(g.reqs, [2]uint64{from.Height(), to})
	g.mu.Unlock()
	select {
	case hs := <-ch:
		return hs, nil
	case <-ctx.Done():
		return nil, ctx.Err()
	}
}

type parkSub struct {
	v func(context.Context, *ParkHeader) error
}

func (s *parkSub) Subscribe() (header.Subscription[*ParkHeader], error) {
	return nil, errors.New("no")
}
func (s *parkSub) SetVerifier(f func(context.Context, *ParkHeader) error) error {
	s.v = f
	return nil
}

// slowStore is the header.Store handed to the Syncer: the real store, whose Append calls - while on - park right
// before the write until the driver releases them (err == nil: the write goes on) or fails them.
type slowStore struct {
	*store.Store[*ParkHeader]
	mu     gosync.Mutex
	on     bool
	parked []*slowWrite
}

type slowWrite struct {
	who int // learner call number, -1 = the sync loop
	rel chan error
}

func (s *slowStore) Append(ctx context.Context, hs ...*ParkHeader) error {
	s.mu.Lock()
	if !s.on {
		s.mu.Unlock()
		return s.Store.Append(ctx, hs...)
	}
	w := &slowWrite{who: -1, rel: make(chan error, 1)}
	if v, ok := ctx.Value(whoKey{}).(int); ok {
		w.who = v
	}
	s.parked = append(s.parked, w)
	s.mu.Unlock()
	if err := <-w.rel; err != nil {
		return err
	}
	return s.Store.Append(ctx, hs...)
}

// newest returns (and forgets) the most recently parked write.
func (s *slowStore) newest() *slowWrite {
	s.mu.Lock()
	defer s.mu.Unlock()
	if len(s.parked) == 0 {
		return nil
	}
	w := s.parked[len(s.parked)-1]
	s.parked = s.parked[:len(s.parked)-1]
	return w
}

func (s *slowStore) nparked() int {
	s.mu.Lock()
	defer s.mu.Unlock()
	return len(s.parked)
}

// ParkRun is what a corpus run observed, in the vocabulary of Oracle/C07.v and Oracle/C03.v.
type ParkRun struct {
	Drift   int64
	Tail    uint64
	Init    string   // gen_chain term of the store's initial run
	Chain   string   // gen_chain term of the true chain above it
	Acts    []string // (dact, obs) pairs
	Results []int    // per learner call
	Probe   []string // (height, id) the Store serves
	Heights []uint64 // datastore height index
	Hashes  int
	Wait    bool // SyncWait returned nil
	Gate    bool // the underlying store's writes were parked and released by the driver
	Note    string
}

// RunStraddle performs one of the two schedules on a real Syncer + Store. ok = false: the Head() calls did not
// park where expected (the code changed) - no case.
func RunStraddle(kind string) (run *ParkRun, ok bool, err error) {
	vhdr.SetPolicy(vhdr.LinkPolicy(0))
	defer vhdr.SetPolicy(nil)
	reg := vhdr.NewRegistry()
	const tail, nInit, nChain = 15, 3, 9
	sp := int64(time.Millisecond)
	t0 := time.Now().UnixNano() - int64(nInit+nChain+10)*sp
	raw := vhdr.Chain("a", tail, nInit+nChain, t0, sp, nil)
	for _, h := range raw {
		reg.ID(h.Hash())
	}
	reg.ChainNo("a")
	at := func(n uint64) *ParkHeader { return &ParkHeader{Header: *raw[n-tail]} }
	term := func(h *ParkHeader) string { return reg.Term(&h.Header) }
	ctx, cancel := context.WithTimeout(context.Background(), time.Minute)
	defer cancel()
	ds := dssync.MutexWrap(datastore.NewMapDatastore())
	st, err := store.NewStore[*ParkHeader](ds, store.WithWriteBatchSize(1))
	if err != nil {
		return nil, false, err
	}
	if err := st.Start(ctx); err != nil {
		return nil, false, err
	}
	if err := st.Append(ctx, at(15), at(16), at(17)); err != nil {
		return nil, false, err
	}
	if err := st.Sync(ctx); err != nil {
		return nil, false, err
	}
	g := &parkGetter{}
	sub := &parkSub{}
	gs := &slowStore{Store: st}
	sy, err := sync.NewSyncer[*ParkHeader](g, gs, sub,
		sync.WithSyncFromHash(hex.EncodeToString(at(15).Hash())), sync.WithBlockTime(time.Nanosecond),
		sync.WithTrustingPeriod(1000*time.Hour), sync.WithPruningWindow(2000*time.Hour))
	if err != nil {
		return nil, false, err
	}
	if err := sy.Start(ctx); err != nil {
		return nil, false, err
	}
	stopped := false
	stop := func() {
		if !stopped {
			stopped = true
			_ = sy.Stop(ctx)
			time.Sleep(10 * time.Millisecond)
			_ = st.Stop(ctx)
		}
	}
	defer stop()
	settle := func() { time.Sleep(40 * time.Millisecond) }
	settle()
	waitFor := func(cond func() bool) bool {
		deadline := time.Now().Add(3 * time.Second)
		for !cond() {
			if time.Now().After(deadline) {
				return false
			}
			time.Sleep(2 * time.Millisecond)
		}
		time.Sleep(20 * time.Millisecond)
		return true
	}
	storeHead := func() uint64 {
		h, err := st.Head(ctx)
		if err != nil {
			return 0
		}
		return h.Height()
	}
	run = &ParkRun{Drift: int64(header.VerifClockDrift()), Tail: tail}
	gen := func(from uint64, n int, id uint64) string {
		prev := uint64(0)
		if id > 1 {
			prev = id - 1
		}
		return fmt.Sprintf("(gen_chain 1 %d %d (%d)%%Z (%d)%%Z %d %d)", from, n, t0+int64(from-tail)*sp, sp, id, prev)
	}
	run.Init, run.Chain = gen(tail, nInit, 1), gen(tail+nInit, nChain, nInit+1)
	obs := func(act string, ret int) {
		o := Obs{Ret: ret}
		// the store's flush loop runs on its own (real time): a header handed to it shows up under GetByHeight a
		// moment before Head() has moved over it; a genuine gap stays
		for try := 0; try < 50; try++ {
			h, err := st.Head(ctx)
			if err != nil {
				break
			}
			c2, cancel2 := context.WithTimeout(context.Background(), 5*time.Millisecond)
			a, err2 := st.GetByHeight(c2, h.Height()+1)
			cancel2()
			if err2 != nil || a == nil {
				break
			}
			time.Sleep(20 * time.Millisecond)
		}
		if h, err := st.Head(ctx); err == nil {
			o.Head = h.Height()
			o.HeadID = reg.ID(h.Hash())
			if a, err := st.GetByHeight(ctx, o.Head); err == nil && a != nil {
				o.HeadID = reg.ID(a.Hash())
			}
			o.Top = o.Head
			for k := uint64(1); k <= 4; k++ {
				c2, cancel2 := context.WithTimeout(context.Background(), 5*time.Millisecond)
				if a, err := st.GetByHeight(c2, o.Head+k); err == nil && a != nil {
					o.Top = o.Head + k
				}
				cancel2()
			}
		}
		if lh, err := sy.Head(ctx); err == nil && lh != nil { // the getter's Head fails: the subjective head
			o.Local, o.LocalID = lh.Height(), reg.ID(lh.Hash())
		}
		s := sy.State()
		o.ID, o.From, o.To, o.StateHeight, o.Err = s.ID, s.FromHeight, s.ToHeight, s.Height, s.Error != ""
		g.mu.Lock()
		if g.cur != nil {
			last := g.reqs[len(g.reqs)-1]
			o.Req = &[2]uint64{last[0], last[1]}
		}
		g.mu.Unlock()
		run.Acts = append(run.Acts, emit.Pair(act, o.Term()))
	}
	var results []chan error
	headCallParked := func(x *ParkHeader) bool {
		x.G = NewParkGate("networkHead")
		g.mu.Lock()
		g.head = x
		g.mu.Unlock()
		res := make(chan error, 1)
		results = append(results, res)
		go func() { _, err := sy.Head(context.Background()); res <- err }()
		select {
		case <-x.G.Parked:
		case <-time.After(2 * time.Second):
			return false
		}
		time.Sleep(10 * time.Millisecond)
		obs(fmt.Sprintf("(DHeadP (Some %s))", term(x)), 0)
		return true
	}
	gossip := func(n uint64) {
		now := time.Now().UnixNano()
		res := make(chan error, 1)
		results = append(results, res)
		err := sub.v(context.Background(), at(n))
		res <- err
		settle()
		ret := 1
		if err != nil {
			ret = 2
		}
		obs(fmt.Sprintf("(DDeliver %s %s (Bif [] false))", term(at(n)), emit.Z(now)), ret)
	}
	release := func(i int, x *ParkHeader, want uint64) {
		close(x.G.Rel)
		waitFor(func() bool { return storeHead() == want })
		settle()
		obs(fmt.Sprintf("(DRelT %d)", i), 0)
	}
	answer := func(hs ...*ParkHeader) {
		g.mu.Lock()
		ch := g.cur
		g.cur = nil
		g.mu.Unlock()
		if ch == nil {
			return
		}
		ch <- hs
		settle()
		settle()
		obs(fmt.Sprintf("(DAnswer (APrefix %d))", len(hs)), 0)
	}

	var loaded []*ParkHeader
	switch kind {
	case "range":
		// four Head() calls hold 18..21; gossip 19..22 (the request (17,19) is slow); the calls go on; [18] is served
		for n := uint64(18); n <= 21; n++ {
			x := at(n)
			if !headCallParked(x) {
				return nil, false, nil
			}
			loaded = append(loaded, x)
		}
		for n := uint64(19); n <= 22; n++ {
			gossip(n)
		}
		for i, x := range loaded {
			release(i, x, 18+uint64(i))
		}
		answer(at(18))
		run.Note = "four Head() calls delayed after their answers 18..21; gossip 19..22; the calls go on; the loop appends the pending range [20 21 22] with the shim head at 21"
	case "answer":
		// two Head() calls hold 18, 19; gossip 21 (the request (17,21) is slow); the calls go on; [18 19 20] is served
		for n := uint64(18); n <= 19; n++ {
			x := at(n)
			if !headCallParked(x) {
				return nil, false, nil
			}
			loaded = append(loaded, x)
		}
		gossip(21)
		for i, x := range loaded {
			release(i, x, 18+uint64(i))
		}
		answer(at(18), at(19), at(20))
		run.Note = "two Head() calls delayed after their answers 18, 19; gossip 21; the calls go on; the range answer [18 19 20] arrives with the shim head at 19"
	case "lock":
		// syncStore.Append is one step with respect to other Appends (/repo 40dc6a8): a Head() call learning 18 is
		// preempted INSIDE syncStore.Append; a second Head() call (also 18) has to wait for it.  If it does not (no lock),
		// two more calls learn 19 and 20 before the first goes on and puts its older head back into the shim.
		a := at(18)
		a.G = NewParkGate("syncStore")
		g.mu.Lock()
		g.head = a
		g.mu.Unlock()
		resA := make(chan error, 1)
		results = append(results, resA)
		go func() { _, err := sy.Head(context.Background()); resA <- err }()
		select {
		case <-a.G.Parked:
		case <-time.After(2 * time.Second):
			return nil, false, nil
		}
		time.Sleep(10 * time.Millisecond)
		headCall := func(n uint64) chan error {
			g.mu.Lock()
			g.head = at(n)
			g.mu.Unlock()
			res := make(chan error, 1)
			go func() { _, err := sy.Head(context.Background()); res <- err }()
			return res
		}
		returned := func(res chan error, d time.Duration) bool {
			select {
			case err := <-res:
				res <- err
				return true
			case <-time.After(d):
				return false
			}
		}
		actHead := func(n uint64) string { return fmt.Sprintf("(DHead (Some %s))", term(at(n))) }
		resB := headCall(18)
		results = append(results, resB)
		if !returned(resB, 150*time.Millisecond) {
			// the second call waits: the first goes on, both finish
			close(a.G.Rel)
			returned(resA, 3*time.Second)
			returned(resB, 3*time.Second)
			settle()
			obs(actHead(18), 0)
			obs(actHead(18), 0)
			for n := uint64(19); n <= 20; n++ {
				r := headCall(n)
				results = append(results, r)
				returned(r, 3*time.Second)
				settle()
				obs(actHead(n), 0)
			}
			run.Note = "a Head() call parked inside syncStore.Append; a second one waited for it (lock held); then 19 and 20 are learned"
		} else {
			// no lock: the lost update
			settle()
			obs(actHead(18), 0)
			obs(actHead(18), 0)
			for n := uint64(19); n <= 20; n++ {
				r := headCall(n)
				results = append(results, r)
				returned(r, 3*time.Second)
				settle()
				obs(actHead(n), 0)
			}
			close(a.G.Rel)
			returned(resA, 3*time.Second)
			settle()
			run.Note = "a Head() call parked inside syncStore.Append did NOT exclude other Appends: 18, 19, 20 were learned meanwhile, then it stored its older head"
		}
		gossip(20) // known: refused; its observation shows the final state
	case "slowwrite", "failwrite_loop", "failwrite_gossip":
		// The underlying store is slow: every Store.Append parks right before the write; the driver releases the parked
		// write (it goes on) or FAILS it (as store.Append does when its write queue is full and the caller's context
		// ends, or the store stops).  syncStore.Append keeps its lock across the write (/repo 40dc6a8) and moves its head
		// only after the write succeeded (/repo f604e5b): while a write is parked nobody else can start an Append and
		// nothing has changed; after a failed write nothing has changed either.  The store has no gap at any
		// observation - also those taken WHILE a write is parked.
		run.Gate = true
		gs.mu.Lock()
		gs.on = true
		gs.mu.Unlock()
		finish := func(w *slowWrite, err error) {
			w.rel <- err
			settle()
			settle()
			name := "Rel"
			if err != nil {
				name = "Fail"
			}
			if w.who < 0 {
				obs("D"+name+"L", 0)
			} else {
				obs(fmt.Sprintf("(D%sT %d)", name, w.who), 0)
			}
		}
		relNewest := func() bool {
			w := gs.newest()
			if w == nil {
				return false
			}
			finish(w, nil)
			return true
		}
		failNewest := func() bool {
			w := gs.newest()
			if w == nil {
				return false
			}
			finish(w, errors.New("syncfx: the store's write failed"))
			return true
		}
		// a gossip delivery in its own goroutine (its Append may park in the store)
		agossip := func(n uint64) {
			i := len(results)
			now := time.Now().UnixNano()
			res := make(chan error, 1)
			results = append(results, res)
			x := at(n)
			go func() { res <- sub.v(WithWho(context.Background(), i), x) }()
			time.Sleep(150 * time.Millisecond)
			ret := 3
			select {
			case err := <-res:
				res <- err
				ret = 1
				if err != nil {
					ret = 2
				}
			default:
			}
			obs(fmt.Sprintf("(DDeliver %s %s (Bif [] false))", term(x), emit.Z(now)), ret)
		}
		drain := func() {
			for i := 0; i < 8 && relNewest(); i++ {
			}
		}
		switch kind {
		case "slowwrite":
			// released newest-first; gossip of the adjacent 21 arrives while the loop's write of 20 is parked
			gossip(20) // learner call 0: not adjacent, nothing written; the loop requests (17, 20)
			answer(at(18), at(19))
			if gs.nparked() != 1 {
				return nil, false, nil
			}
			relNewest() // 18, 19 written; the loop parks in the write of the cached 20
			agossip(21)
			drain()
			run.Note = "every Store.Append parked before the write and released newest-first; gossip 21 arrives while the loop's write of 20 is parked"
		case "failwrite_loop":
			// the sync loop's range write fails; more gossip; a later sync succeeds
			gossip(20)
			answer(at(18), at(19))
			if gs.nparked() != 1 {
				return nil, false, nil
			}
			failNewest() // the write of 18, 19 fails: the attempt ends with the error, the shim's head stays 17
			agossip(21)  // adjacent to the pending head: verified, queued, wakes the loop, which requests (17, 20) again
			answer(at(18), at(19))
			drain()
			agossip(22)
			drain()
			run.Note = "the sync loop's write of 18, 19 fails; gossip 21 restarts the sync, which stores 18..21; gossip 22"
		case "failwrite_gossip":
			// a gossip handler's Append of the adjacent header fails
			agossip(18) // learner call 0: adjacent, its write parks
			if gs.nparked() != 1 {
				return nil, false, nil
			}
			failNewest() // 18 is not stored; setLocalHead queues it and wakes the loop, whose write of it parks
			drain()
			agossip(19)
			drain()
			gossip(21)
			answer(at(20))
			drain()
			run.Note = "a gossip handler's write of the adjacent 18 fails; the sync loop stores it; gossip 19 and a skipping 21 follow"
		}
	default:
		return nil, false, fmt.Errorf("unknown kind %q", kind)
	}
	for _, r := range results {
		select {
		case err := <-r:
			if err == nil {
				run.Results = append(run.Results, 1)
			} else {
				run.Results = append(run.Results, 2)
			}
		case <-time.After(3 * time.Second):
			run.Results = append(run.Results, 3)
		}
	}
	wctx, wcancel := context.WithTimeout(ctx, 200*time.Millisecond)
	run.Wait = sy.SyncWait(wctx) == nil
	wcancel()
	for n := uint64(tail); n <= tail+nInit+nChain+1; n++ {
		c2, cancel2 := context.WithTimeout(context.Background(), 5*time.Millisecond)
		h, err := st.GetByHeight(c2, n)
		cancel2()
		if err == nil && h != nil {
			run.Probe = append(run.Probe, fmt.Sprintf("(%d, %d)", h.Height(), reg.ID(h.Hash())))
		}
	}
	stop()
	res, err := ds.Query(context.Background(), query.Query{KeysOnly: true})
	if err != nil {
		return nil, false, err
	}
	for r := range res.Next() {
		k := r.Key[len("/headers/"):]
		if k == "head" || k == "tail" {
			continue
		}
		var n uint64
		if _, e := fmt.Sscanf(k, "%d", &n); e == nil && fmt.Sprint(n) == k {
			run.Heights = append(run.Heights, n)
		} else {
			run.Hashes++
		}
	}
	res.Close()
	sort.Slice(run.Heights, func(i, j int) bool { return run.Heights[i] < run.Heights[j] })
	return run, true, nil
}
