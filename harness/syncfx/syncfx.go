// Package syncfx holds the fixtures shared by the Syncer drivers (C07, C03):
// a real sync.Syncer over a real store.Store (in-memory datastore) behind a
// gate-able header.Store wrapper, a scripted getter whose range requests block
// until the driver answers them, a subscriber that only captures the verifier,
// and the observation taken at each quiescence of the synctest bubble.
package syncfx

import (
	"context"
	"encoding/hex"
	"errors"
	"fmt"
	"sort"
	"strings"
	gosync "sync"
	"testing/synctest"
	"time"

	"github.com/ipfs/go-datastore"
	"github.com/ipfs/go-datastore/query"
	dssync "github.com/ipfs/go-datastore/sync"

	header "github.com/celestiaorg/go-header"
	"github.com/celestiaorg/go-header/store"
	"github.com/celestiaorg/go-header/sync"

	"verifharness/emit"
	"verifharness/vhdr"
)

type H = *vhdr.Header

// BubbleStart is time.Now() at the start of every synctest bubble.
var BubbleStart = time.Date(2000, 1, 1, 0, 0, 0, 0, time.UTC)

var ErrScripted = errors.New("syncfx: scripted getter error")

// ErrKinds are the getter errors the scripts use: what KIND of error a request fails with must not matter to the
// Syncer (any getter error only aborts the current attempt).
var ErrKinds = []error{
	ErrScripted,
	fmt.Errorf("syncfx: nobody has it: %w", header.ErrNotFound),
	fmt.Errorf("syncfx: peer went away: %w", context.Canceled),
	fmt.Errorf("syncfx: peer too slow: %w", context.DeadlineExceeded),
}

// ErrKindName names ErrKinds[i] in the drivers' statistics.
var ErrKindNames = []string{"plain", "not_found", "canceled", "deadline"}

// ---------------------------------------------------------------- getter

type RangeReq struct {
	From H
	To   uint64
	ans  chan rangeAns
}

type rangeAns struct {
	hs  []H
	err error
}

// Getter is the scripted header.Getter handed to the Syncer.
type Getter struct {
	mu       gosync.Mutex
	cur      *RangeReq
	Log      [][2]uint64 // every range request (from height, to)
	headAns  H           // answer of the next Head() call; nil = error
	headErr  error       // returned along with headAns (a refusing answer: soft / hard VerifyError, plain error)
	HeadCall int
	ByHeight map[uint64]H // GetByHeight (bifurcation); missing = error
	ByHLog   []uint64

	headPark bool          // the next Head() call parks (a slow network head request) until ReleaseHead
	headGate chan struct{} // non-nil while a Head() call is parked

	// CancelAt = k > 0: the k-th GetByHeight call from now on calls Cancel right before it returns, i.e. the
	// caller's context ends between that bifurcation round and the next
	CancelAt int
	Cancel   func()
	byHCalls int
}

func NewGetter() *Getter { return &Getter{ByHeight: map[uint64]H{}} }

func (g *Getter) Head(ctx context.Context, _ ...header.HeadOption[H]) (H, error) {
	g.mu.Lock()
	if g.headPark {
		// the request is on its way: the answer is fixed now, but arrives only when the driver releases it
		g.headPark = false
		gate := make(chan struct{})
		g.headGate = gate
		h := g.headAns
		herr := g.headErr
		g.headAns, g.headErr = nil, nil
		g.HeadCall++
		g.mu.Unlock()
		select {
		case <-gate:
		case <-ctx.Done():
			// nobody will release this request: it is not the call the driver meant to park
			g.mu.Lock()
			if g.headGate == gate {
				g.headGate = nil
			}
			g.mu.Unlock()
			return nil, ctx.Err()
		}
		if herr != nil {
			return h, herr
		}
		if h == nil {
			return nil, ErrScripted
		}
		return h, nil
	}
	defer g.mu.Unlock()
	g.HeadCall++
	if g.headErr != nil {
		h, herr := g.headAns, g.headErr
		g.headAns, g.headErr = nil, nil
		return h, herr
	}
	if g.headAns == nil {
		return nil, ErrScripted
	}
	h := g.headAns
	g.headAns = nil
	return h, nil
}

// SetHeadAnswerErr scripts the next Head() call to return h together with err.
func (g *Getter) SetHeadAnswerErr(h H, err error) {
	g.mu.Lock()
	g.headAns, g.headErr = h, err
	g.mu.Unlock()
}

// ParkNextHead makes the next Head() call (which takes its scripted answer at once) wait until ReleaseHead.
func (g *Getter) ParkNextHead() {
	g.mu.Lock()
	g.headPark = true
	g.mu.Unlock()
}

// ClearPark withdraws ParkNextHead when the Head() call it was meant for never asked the getter
// (e.g. because the Syncer considered its subjective head recent).
func (g *Getter) ClearPark() {
	g.mu.Lock()
	g.headPark = false
	g.mu.Unlock()
}

func (g *Getter) HeadParked() bool {
	g.mu.Lock()
	defer g.mu.Unlock()
	return g.headGate != nil
}

func (g *Getter) ReleaseHead() bool {
	g.mu.Lock()
	gate := g.headGate
	g.headGate = nil
	g.mu.Unlock()
	if gate == nil {
		return false
	}
	close(gate)
	return true
}

// ArmCancel scripts the context of the coming verifier call to end right after the k-th GetByHeight answer.
func (g *Getter) ArmCancel(k int, cancel func()) {
	g.mu.Lock()
	g.CancelAt, g.Cancel, g.byHCalls = k, cancel, 0
	g.mu.Unlock()
}

// SetHeadAnswer scripts the answer of the next Head() call (consumed by it).
func (g *Getter) SetHeadAnswer(h H) {
	g.mu.Lock()
	g.headAns = h
	g.mu.Unlock()
}

func (g *Getter) Get(context.Context, header.Hash) (H, error) { return nil, ErrScripted }

func (g *Getter) GetByHeight(ctx context.Context, n uint64) (H, error) {
	g.mu.Lock()
	defer g.mu.Unlock()
	if err := ctx.Err(); err != nil {
		return nil, err
	}
	g.ByHLog = append(g.ByHLog, n)
	g.byHCalls++
	if g.CancelAt > 0 && g.byHCalls == g.CancelAt && g.Cancel != nil {
		g.Cancel()
	}
	if h, ok := g.ByHeight[n]; ok {
		return h, nil
	}
	return nil, ErrScripted
}

func (g *Getter) GetRangeByHeight(ctx context.Context, from H, to uint64) ([]H, error) {
	r := &RangeReq{From: from, To: to, ans: make(chan rangeAns, 1)}
	g.mu.Lock()
	g.cur = r
	g.Log = append(g.Log, [2]uint64{from.Height(), to})
	g.mu.Unlock()
	select {
	case a := <-r.ans:
		return a.hs, a.err
	case <-ctx.Done():
		g.mu.Lock()
		if g.cur == r {
			g.cur = nil
		}
		g.mu.Unlock()
		return nil, ctx.Err()
	}
}

// Outstanding returns the range request the sync loop is blocked in, if any.
func (g *Getter) Outstanding() *RangeReq {
	g.mu.Lock()
	defer g.mu.Unlock()
	return g.cur
}

// Answer releases the outstanding request.
func (g *Getter) Answer(hs []H, err error) {
	g.mu.Lock()
	r := g.cur
	g.cur = nil
	g.mu.Unlock()
	if r != nil {
		r.ans <- rangeAns{hs, err}
	}
}

// ---------------------------------------------------------------- subscriber

type Sub struct {
	Verifier func(context.Context, H) error
}

func (s *Sub) Subscribe() (header.Subscription[H], error) { return nil, errors.New("syncfx: no subscriptions") }
func (s *Sub) SetVerifier(f func(context.Context, H) error) error {
	s.Verifier = f
	return nil
}

// ---------------------------------------------------------------- gated store

type whoKey struct{}

// WithWho tags a context with the learner call number (the sync loop's context carries none).
func WithWho(ctx context.Context, i int) context.Context { return context.WithValue(ctx, whoKey{}, i) }

type GatedAppend struct {
	Who     int // -1 = sync loop
	Heights []uint64
	rel     chan struct{}
}

// GStore wraps the real store; when Gate is set every Append parks until released.
type GStore struct {
	*store.Store[*vhdr.Header]
	mu      gosync.Mutex
	Gate    bool
	parked  []*GatedAppend
	Appends int
}

func (s *GStore) Append(ctx context.Context, hs ...H) error {
	s.mu.Lock()
	s.Appends++
	gate := s.Gate
	var ga *GatedAppend
	if gate {
		who := -1
		if v, ok := ctx.Value(whoKey{}).(int); ok {
			who = v
		}
		ga = &GatedAppend{Who: who, rel: make(chan struct{})}
		for _, h := range hs {
			ga.Heights = append(ga.Heights, h.Height())
		}
		s.parked = append(s.parked, ga)
	}
	s.mu.Unlock()
	if ga != nil {
		<-ga.rel
	}
	return s.Store.Append(ctx, hs...)
}

// Parked lists the Append calls waiting on the gate.
func (s *GStore) Parked() []*GatedAppend {
	s.mu.Lock()
	defer s.mu.Unlock()
	return append([]*GatedAppend(nil), s.parked...)
}

// Release lets the parked Append of the given caller proceed; false if none.
func (s *GStore) Release(who int) bool {
	s.mu.Lock()
	defer s.mu.Unlock()
	for i, ga := range s.parked {
		if ga.Who == who {
			s.parked = append(s.parked[:i], s.parked[i+1:]...)
			close(ga.rel)
			return true
		}
	}
	return false
}

// ReleaseAll opens the gate for good.
func (s *GStore) ReleaseAll() {
	s.mu.Lock()
	s.Gate = false
	for _, ga := range s.parked {
		close(ga.rel)
	}
	s.parked = nil
	s.mu.Unlock()
}

// ---------------------------------------------------------------- fixture

type Fixture struct {
	DS      datastore.Batching
	Store   *GStore
	Getter  *Getter
	Sub     *Sub
	Syncer  *sync.Syncer[*vhdr.Header]
	Reg     *vhdr.Registry
	Init    []H // the store's initial run
	Chain   []H // the true chain above it
	Tail    uint64
	results []chan error
	cancels []context.CancelFunc
	Results []int // per learner call: 0 running, 1 nil, 2 error
}

// Universe describes the generated chain: heights tail..tail+nInit-1 are in
// the store, the next nChain are the true chain above. Header i has time
// BubbleStart - (total-i) ms, so every header is in the past and ordered.
func NewFixture(tail uint64, nInit, nChain int, batch int) (*Fixture, error) {
	total := nInit + nChain
	t0 := BubbleStart.UnixNano() - int64(total+1)*int64(time.Millisecond)
	all := vhdr.Chain("a", tail, total, t0, int64(time.Millisecond), nil)
	f := &Fixture{Reg: vhdr.NewRegistry(), Tail: tail, Init: all[:nInit], Chain: all[nInit:]}
	for _, h := range all { // ids 1..total in height order (gen_chain relies on it)
		f.Reg.ID(h.Hash())
	}
	f.Reg.ChainNo("a")
	f.DS = dssync.MutexWrap(datastore.NewMapDatastore())
	st, err := store.NewStore[*vhdr.Header](f.DS, store.WithWriteBatchSize(batch))
	if err != nil {
		return nil, err
	}
	ctx, cancel := context.WithTimeout(context.Background(), time.Minute)
	defer cancel()
	if err := st.Start(ctx); err != nil {
		return nil, err
	}
	if err := st.Append(ctx, f.Init...); err != nil {
		return nil, err
	}
	if err := st.Sync(ctx); err != nil {
		return nil, err
	}
	f.Store = &GStore{Store: st}
	f.Getter = NewGetter()
	f.Sub = &Sub{}
	// Tail logic quiet: SyncFromHash = the store's tail (renewTail then has nothing to renew).
	// blockTime 1ns: the subjective head is never "recent", so every Head() asks the getter
	// (whose scripted answer is an error unless the driver scripts a head).
	sy, err := sync.NewSyncer[*vhdr.Header](f.Getter, f.Store, f.Sub,
		sync.WithSyncFromHash(hex.EncodeToString(f.Init[0].Hash())),
		sync.WithBlockTime(time.Nanosecond),
		sync.WithTrustingPeriod(1000*time.Hour),
		sync.WithPruningWindow(2000*time.Hour),
	)
	if err != nil {
		return nil, err
	}
	f.Syncer = sy
	if err := sy.Start(ctx); err != nil {
		return nil, err
	}
	synctest.Wait()
	return f, nil
}

// Close stops everything so that the bubble can end.
func (f *Fixture) Close() {
	f.Getter.ReleaseHead()
	f.Store.ReleaseAll()
	defer func() {
		for _, c := range f.cancels {
			c()
		}
	}()
	ctx, cancel := context.WithTimeout(context.Background(), time.Minute)
	defer cancel()
	_ = f.Syncer.Stop(ctx)
	synctest.Wait()
	if r := f.Getter.Outstanding(); r != nil {
		f.Getter.Answer(nil, context.Canceled)
	}
	synctest.Wait()
	_ = f.Store.Store.Stop(ctx)
	synctest.Wait()
}

// At returns the true chain's header at a height (nil outside the universe).
func (f *Fixture) At(n uint64) H {
	if n < f.Tail {
		return nil
	}
	i := int(n - f.Tail)
	if i < len(f.Init) {
		return f.Init[i]
	}
	i -= len(f.Init)
	if i < len(f.Chain) {
		return f.Chain[i]
	}
	return nil
}

func (f *Fixture) Top() uint64 { return f.Tail + uint64(len(f.Init)+len(f.Chain)) - 1 }

// Deliver calls the captured verifier with h in its own goroutine and lets the
// bubble settle. Returns the learner call number.
func (f *Fixture) Deliver(h H) int { return f.DeliverCancel(h, 0) }

// DeliverCancel is Deliver with a validation context that ends right after the cancelAt-th GetByHeight
// answer of the call (0 = never): between two bifurcation rounds.
func (f *Fixture) DeliverCancel(h H, cancelAt int) int {
	i := len(f.results)
	ch := make(chan error, 1)
	f.results = append(f.results, ch)
	f.Results = append(f.Results, 0)
	ctx, cancel := context.WithCancel(WithWho(context.Background(), i))
	f.cancels = append(f.cancels, cancel)
	f.Getter.ArmCancel(cancelAt, cancel)
	go func() { ch <- f.Sub.Verifier(ctx, h) }()
	synctest.Wait()
	f.Getter.ArmCancel(0, nil)
	f.Poll()
	return i
}

// HeadCallP is HeadCall with a slow network head request: it is parked inside getter.Head (after Head() captured
// its subjective head) until ReleaseHead; ans is what the getter answers then.
func (f *Fixture) HeadCallP(ans H) int {
	f.Getter.ParkNextHead()
	i := f.HeadCall(ans)
	f.Getter.ClearPark() // total: a Head() call that never reached the getter must not leave the park armed for a later one
	return i
}

// HeadCallShared makes two overlapping Syncer.Head() calls share one slow network head request, which the getter
// answers (on ReleaseHead) with ans together with err: the first call asks and parks inside the getter, the second
// joins it (syncHead is single-flight).  Returns both learner call numbers.
func (f *Fixture) HeadCallShared(ans H, err error) (int, int) {
	f.Getter.ParkNextHead()
	i := len(f.results)
	ch := make(chan error, 1)
	f.results = append(f.results, ch)
	f.Results = append(f.Results, 0)
	f.Getter.SetHeadAnswerErr(ans, err)
	go func() {
		_, e := f.Syncer.Head(WithWho(context.Background(), i))
		ch <- e
	}()
	synctest.Wait()
	f.Getter.ClearPark()
	j := len(f.results)
	ch2 := make(chan error, 1)
	f.results = append(f.results, ch2)
	f.Results = append(f.Results, 0)
	go func() {
		_, e := f.Syncer.Head(WithWho(context.Background(), j))
		ch2 <- e
	}()
	synctest.Wait()
	f.Poll()
	return i, j
}

func (f *Fixture) ReleaseHead() bool {
	if !f.Getter.ReleaseHead() {
		return false
	}
	synctest.Wait()
	f.Poll()
	return true
}

// HeadCall calls Syncer.Head() with the getter answering ans, in its own goroutine.
func (f *Fixture) HeadCall(ans H) int {
	i := len(f.results)
	ch := make(chan error, 1)
	f.results = append(f.results, ch)
	f.Results = append(f.Results, 0)
	f.Getter.SetHeadAnswer(ans)
	ctx := WithWho(context.Background(), i)
	go func() {
		_, err := f.Syncer.Head(ctx)
		ch <- err
	}()
	synctest.Wait()
	f.Poll()
	return i
}

// Poll collects the results of finished learner calls.
func (f *Fixture) Poll() {
	for i, ch := range f.results {
		if f.Results[i] != 0 {
			continue
		}
		select {
		case err := <-ch:
			if err == nil {
				f.Results[i] = 1
			} else {
				f.Results[i] = 2
			}
		default:
		}
	}
}

// Obs is the observation at a quiescence.
type Obs struct {
	Ret                       int
	Head, Local, LocalID      uint64
	LocalHdr                  H
	ID, From, To, StateHeight uint64
	Err                       bool
	Req                       *[2]uint64
	HeadID                    uint64 // hash identity of the header the real Store serves at its head height
	Top                       uint64 // highest of head+1..head+4 at which the real Store serves a header (head if none)
}

func (f *Fixture) Observe(ret int) Obs {
	synctest.Wait()
	ctx, cancel := context.WithTimeout(context.Background(), time.Second)
	defer cancel()
	o := Obs{Ret: ret}
	if h, err := f.Store.Store.Head(ctx); err == nil {
		o.Head = h.Height()
		o.HeadID = f.Reg.ID(h.Hash())
		// what the Store serves at that height (not the head pointer it keeps in memory)
		if at, err := f.Store.Store.GetByHeight(ctx, o.Head); err == nil && at != nil {
			o.HeadID = f.Reg.ID(at.Hash())
		}
		o.Top = o.Head
		for k := uint64(1); k <= 4; k++ {
			c2, cancel2 := ShortCtx()
			if at, err := f.Store.Store.GetByHeight(c2, o.Head+k); err == nil && at != nil {
				o.Top = o.Head + k
			}
			cancel2()
		}
	}
	f.Getter.SetHeadAnswer(nil)
	if h, err := f.Syncer.Head(ctx); err == nil && h != nil {
		o.Local = h.Height()
		o.LocalID = f.Reg.ID(h.Hash())
		o.LocalHdr = h
	}
	st := f.Syncer.State()
	o.ID, o.From, o.To, o.StateHeight, o.Err = st.ID, st.FromHeight, st.ToHeight, st.Height, st.Error != ""
	if r := f.Getter.Outstanding(); r != nil {
		o.Req = &[2]uint64{r.From.Height(), r.To}
	}
	return o
}

func (o Obs) Term() string {
	req := "None"
	if o.Req != nil {
		req = fmt.Sprintf("(Some (%d, %d))", o.Req[0], o.Req[1])
	}
	return fmt.Sprintf("(Obs %d %d %d %d %d %d %d %s %d %s %d %d)", o.Ret, o.Head, o.Local, o.LocalID, o.ID, o.From, o.To, emit.B(o.Err), o.StateHeight, req, o.HeadID, o.Top)
}

// SyncWaitReturns reports whether SyncWait returns nil within a short virtual deadline.
func (f *Fixture) SyncWaitReturns() bool {
	ctx, cancel := context.WithTimeout(context.Background(), time.Second)
	defer cancel()
	done := make(chan error, 1)
	go func() { done <- f.Syncer.SyncWait(ctx) }()
	return <-done == nil
}

// Probe asks the real store for every height of the universe (plus one above)
// and returns the (height, id) pairs it serves, as a Coq list.
func (f *Fixture) Probe() (string, int) {
	var out []string
	for n := f.Tail; n <= f.Top(); n++ {
		ctx, cancel := context.WithTimeout(context.Background(), time.Millisecond)
		h, err := f.Store.Store.GetByHeight(ctx, n)
		cancel()
		if err == nil && h != nil {
			out = append(out, fmt.Sprintf("(%d, %d)", h.Height(), f.Reg.ID(h.Hash())))
		}
	}
	return emit.List(out), len(out)
}

// Dump returns the raw datastore keys: heights in the height index and the
// number of header (hash) entries, after a Sync that forces nothing (pending
// batch entries are not on disk); used by C03 after the store was stopped.
func (f *Fixture) DumpKeys() (heights []uint64, hashes int, err error) {
	res, err := f.DS.Query(context.Background(), query.Query{KeysOnly: true})
	if err != nil {
		return nil, 0, err
	}
	defer res.Close()
	for r := range res.Next() {
		if r.Error != nil {
			return nil, 0, r.Error
		}
		k := strings.TrimPrefix(r.Key, "/headers/")
		if k == "head" || k == "tail" {
			continue
		}
		var n uint64
		if _, e := fmt.Sscanf(k, "%d", &n); e == nil && fmt.Sprint(n) == k {
			heights = append(heights, n)
		} else {
			hashes++
		}
	}
	sort.Slice(heights, func(i, j int) bool { return heights[i] < heights[j] })
	return heights, hashes, nil
}

// GenChainTerm renders the universe as the Gallina generator expression.
func (f *Fixture) GenChainTerm(from uint64, n int, idFrom uint64) string {
	total := len(f.Init) + len(f.Chain)
	t0 := BubbleStart.UnixNano() - int64(total+1)*int64(time.Millisecond)
	off := int64(from - f.Tail)
	prev := uint64(0)
	if idFrom > 1 {
		prev = idFrom - 1
	}
	return fmt.Sprintf("(gen_chain 1 %d %d (%d)%%Z (%d)%%Z %d %d)", from, n, t0+off*int64(time.Millisecond), int64(time.Millisecond), idFrom, prev)
}

// ShortCtx is a context with a short virtual deadline (for probes that may block).
func ShortCtx() (context.Context, context.CancelFunc) {
	return context.WithTimeout(context.Background(), time.Millisecond)
}
