//go:build verif

// Random scripts over a real Syncer whose underlying Store is slow: EVERY
// Store.Append parks right before the write and the driver releases it (the
// write goes on) or FAILS it.  syncStore.Append holds its lock across the write
// (/repo 40dc6a8): a goroutine waiting for that lock is not durably blocked for
// testing/synctest, so these scripts run in real time and the driver polls for
// quiescence (the observable state has to stay the same over a window).
//
// What the generator chooses at every quiescence: gossip of the next / a
// skipping header, an answer (prefix of random length, error) to the outstanding
// range request - also while a learner call's write is parked, so that the sync
// loop waits for the lock -, release or failure of the parked write, and gossip
// of the header right above the target while the sync loop's write of the cached
// run up to the target is parked (the learner call waits for the lock).
//
// Kept out on purpose (the outcome would depend on the Go scheduler, not on the
// Syncer): two goroutines contending for syncStore's lock at the moment it is
// released (the sync loop going straight on to another Append while a learner
// call waits), and a learner call reaching pending.Add while the sync loop is
// running (a learner call is started while a write is parked only when it is
// going to park in the store itself once it gets the lock).
package syncfx

import (
	"context"
	"encoding/hex"
	"errors"
	"fmt"
	"sort"
	gosync "sync"
	"time"

	"github.com/ipfs/go-datastore"
	"github.com/ipfs/go-datastore/query"
	dssync "github.com/ipfs/go-datastore/sync"

	header "github.com/celestiaorg/go-header"
	"github.com/celestiaorg/go-header/store"
	"github.com/celestiaorg/go-header/sync"

	"verifharness/emit"
	"verifharness/vhdr"
)

type slowAns struct {
	hs  []*ParkHeader
	err error
}

type slowGetter struct {
	mu   gosync.Mutex
	cur  chan slowAns
	reqs [][2]uint64
}

func (g *slowGetter) Head(context.Context, ...header.HeadOption[*ParkHeader]) (*ParkHeader, error) {
	return nil, errors.New("no head")
}
func (g *slowGetter) Get(context.Context, header.Hash) (*ParkHeader, error) {
	return nil, errors.New("no")
}
func (g *slowGetter) GetByHeight(context.Context, uint64) (*ParkHeader, error) {
	return nil, errors.New("no")
}
func (g *slowGetter) GetRangeByHeight(ctx context.Context, from *ParkHeader, to uint64) ([]*ParkHeader, error) {
	ch := make(chan slowAns, 1)
	g.mu.Lock()
	g.cur = ch
	g.reqs = append(g.reqs, [2]uint64{from.Height(), to})
	g.mu.Unlock()
	select {
	case a := <-ch:
		return a.hs, a.err
	case <-ctx.Done():
		return nil, ctx.Err()
	}
}

func (g *slowGetter) outstanding() *[2]uint64 {
	g.mu.Lock()
	defer g.mu.Unlock()
	if g.cur == nil {
		return nil
	}
	last := g.reqs[len(g.reqs)-1]
	return &[2]uint64{last[0], last[1]}
}

// scriptStore: as slowStore, but it also remembers the heights of a parked write.
type scriptStore struct {
	*store.Store[*ParkHeader]
	mu     gosync.Mutex
	parked []*scriptWrite
}

type scriptWrite struct {
	who     int
	heights []uint64
	rel     chan error
}

func (s *scriptStore) Append(ctx context.Context, hs ...*ParkHeader) error {
	w := &scriptWrite{who: -1, rel: make(chan error, 1)}
	if v, ok := ctx.Value(whoKey{}).(int); ok {
		w.who = v
	}
	for _, h := range hs {
		w.heights = append(w.heights, h.H)
	}
	s.mu.Lock()
	s.parked = append(s.parked, w)
	s.mu.Unlock()
	if err := <-w.rel; err != nil {
		return err
	}
	return s.Store.Append(ctx, hs...)
}

func (s *scriptStore) peek(oldest bool) *scriptWrite {
	s.mu.Lock()
	defer s.mu.Unlock()
	if len(s.parked) == 0 {
		return nil
	}
	if oldest {
		return s.parked[0]
	}
	return s.parked[len(s.parked)-1]
}

func (s *scriptStore) take(w *scriptWrite) {
	s.mu.Lock()
	defer s.mu.Unlock()
	for i, x := range s.parked {
		if x == w {
			s.parked = append(s.parked[:i], s.parked[i+1:]...)
			return
		}
	}
}

func (s *scriptStore) sig() string {
	s.mu.Lock()
	defer s.mu.Unlock()
	r := ""
	for _, w := range s.parked {
		r += fmt.Sprintf("%d:%v;", w.who, w.heights)
	}
	return r
}

// RunSlowScript runs one random script (see the package comment of this file).  The caller has installed
// vhdr.LinkPolicy(0).  Stats counts what the script did.
func RunSlowScript(seed uint64, maxActs int) (run *ParkRun, stats map[string]int, err error) {
	rng := emit.NewRand(seed)
	stats = map[string]int{}
	reg := vhdr.NewRegistry()
	tail := uint64(3 + rng.Intn(20))
	nInit := 1 + rng.Intn(3)
	nChain := 30
	sp := int64(time.Millisecond)
	t0 := time.Now().UnixNano() - int64(nInit+nChain+10)*sp
	raw := vhdr.Chain("a", tail, nInit+nChain, t0, sp, nil)
	for _, h := range raw {
		reg.ID(h.Hash())
	}
	reg.ChainNo("a")
	top := tail + uint64(nInit+nChain) - 1
	at := func(n uint64) *ParkHeader { return &ParkHeader{Header: *raw[n-tail]} }
	term := func(h *ParkHeader) string { return reg.Term(&h.Header) }
	ctx, cancel := context.WithTimeout(context.Background(), 2*time.Minute)
	defer cancel()
	ds := dssync.MutexWrap(datastore.NewMapDatastore())
	st, err := store.NewStore[*ParkHeader](ds, store.WithWriteBatchSize([]int{1, 1, 4, 64}[rng.Intn(4)]))
	if err != nil {
		return nil, nil, err
	}
	if err := st.Start(ctx); err != nil {
		return nil, nil, err
	}
	var init []*ParkHeader
	for i := 0; i < nInit; i++ {
		init = append(init, at(tail+uint64(i)))
	}
	if err := st.Append(ctx, init...); err != nil {
		return nil, nil, err
	}
	if err := st.Sync(ctx); err != nil {
		return nil, nil, err
	}
	g := &slowGetter{}
	sub := &parkSub{}
	gs := &scriptStore{Store: st}
	sy, err := sync.NewSyncer[*ParkHeader](g, gs, sub,
		sync.WithSyncFromHash(hex.EncodeToString(at(tail).Hash())), sync.WithBlockTime(time.Nanosecond),
		sync.WithTrustingPeriod(1000*time.Hour), sync.WithPruningWindow(2000*time.Hour))
	if err != nil {
		return nil, nil, err
	}
	if err := sy.Start(ctx); err != nil {
		return nil, nil, err
	}
	stopped := false
	stop := func() {
		if !stopped {
			stopped = true
			_ = sy.Stop(ctx)
			time.Sleep(10 * time.Millisecond)
			_ = st.Stop(ctx)
		}
	}
	defer stop()

	var results []chan error
	returned := func() int {
		n := 0
		for _, r := range results {
			if len(r) > 0 {
				n++
			}
		}
		return n
	}
	sig := func() string {
		s := sy.State()
		hd := uint64(0)
		if h, err := st.Head(ctx); err == nil {
			hd = h.Height()
		}
		g.mu.Lock()
		nr, out := len(g.reqs), g.cur != nil
		g.mu.Unlock()
		return fmt.Sprintf("%s|%d|%v|%d|%d %d %d %d %s|%d", gs.sig(), nr, out, returned(), s.ID, s.FromHeight, s.ToHeight, s.Height, s.Error, hd)
	}
	// quiescence by polling: the observable state stays the same for 12 polls (36 ms)
	quiet := func() {
		time.Sleep(5 * time.Millisecond)
		last, same := sig(), 0
		for i := 0; i < 1500 && same < 12; i++ {
			time.Sleep(3 * time.Millisecond)
			if s := sig(); s == last {
				same++
			} else {
				last, same = s, 0
			}
		}
	}
	quiet()

	run = &ParkRun{Drift: int64(header.VerifClockDrift()), Tail: tail, Gate: true}
	gen := func(from uint64, n int, id uint64) string {
		prev := uint64(0)
		if id > 1 {
			prev = id - 1
		}
		return fmt.Sprintf("(gen_chain 1 %d %d (%d)%%Z (%d)%%Z %d %d)", from, n, t0+int64(from-tail)*sp, sp, id, prev)
	}
	run.Init, run.Chain = gen(tail, nInit, 1), gen(tail+uint64(nInit), nChain, uint64(nInit)+1)

	var lastObs Obs
	nacts := 0
	obs := func(act string, ret int, kind string) {
		o := Obs{Ret: ret}
		// the store's flush loop runs on its own (real time): a header handed to it shows up under GetByHeight a
		// moment before Head() has moved over it; a genuine gap stays
		for try := 0; try < 50; try++ {
			h, err := st.Head(ctx)
			if err != nil {
				break
			}
			c2, cancel2 := context.WithTimeout(context.Background(), 5*time.Millisecond)
			a, err2 := st.GetByHeight(c2, h.Height()+1)
			cancel2()
			if err2 != nil || a == nil {
				break
			}
			time.Sleep(20 * time.Millisecond)
		}
		if h, err := st.Head(ctx); err == nil {
			o.Head = h.Height()
			o.HeadID = reg.ID(h.Hash())
			if a, err := st.GetByHeight(ctx, o.Head); err == nil && a != nil {
				o.HeadID = reg.ID(a.Hash())
			}
			o.Top = o.Head
			for k := uint64(1); k <= 4; k++ {
				c2, cancel2 := context.WithTimeout(context.Background(), 5*time.Millisecond)
				if a, err := st.GetByHeight(c2, o.Head+k); err == nil && a != nil {
					o.Top = o.Head + k
				}
				cancel2()
			}
		}
		if lh, err := sy.Head(ctx); err == nil && lh != nil { // the getter's Head fails: the subjective head
			o.Local, o.LocalID = lh.Height(), reg.ID(lh.Hash())
		}
		s := sy.State()
		o.ID, o.From, o.To, o.StateHeight, o.Err = s.ID, s.FromHeight, s.ToHeight, s.Height, s.Error != ""
		o.Req = g.outstanding()
		run.Acts = append(run.Acts, emit.Pair(act, o.Term()))
		lastObs = o
		nacts++
		stats[kind]++
	}
	obs0 := func() { // the initial observation, not an action
		n := len(run.Acts)
		obs("", 0, "_init")
		run.Acts = run.Acts[:n]
		nacts--
		delete(stats, "_init")
	}
	obs0()

	inflight := func() int { // the learner call that has not returned yet (at most one), -1 = none
		for i, r := range results {
			if len(r) == 0 {
				return i
			}
		}
		return -1
	}
	trigMaybe := false // a learner call may have left a token in triggerSync that the loop has not consumed
	track := func(retBefore int, idBefore uint64) {
		if lastObs.ID > idBefore {
			trigMaybe = false
		} else if returned() > retBefore {
			trigMaybe = true
		}
	}
	gossip := func(n uint64, kind string) {
		retB, idB := returned(), lastObs.ID
		i := len(results)
		now := time.Now().UnixNano()
		res := make(chan error, 1)
		results = append(results, res)
		x := at(n)
		go func() { res <- sub.v(WithWho(context.Background(), i), x) }()
		quiet()
		ret := 3
		select {
		case err := <-res:
			res <- err
			ret = 1
			if err != nil {
				ret = 2
			}
		default:
		}
		obs(fmt.Sprintf("(DDeliver %s %s (Bif [] false))", term(x), emit.Z(now)), ret, fmt.Sprintf("gossip_%s/ret%d", kind, ret))
		track(retB, idB)
	}
	answer := func(k int, fail bool) bool {
		req := g.outstanding()
		if req == nil {
			return false
		}
		retB, idB := returned(), lastObs.ID
		g.mu.Lock()
		ch := g.cur
		g.cur = nil
		g.mu.Unlock()
		if fail {
			ch <- slowAns{err: ErrKinds[rng.Intn(len(ErrKinds))]}
			quiet()
			obs("(DAnswer AErr)", 0, "answer_err")
			track(retB, idB)
			return true
		}
		size := int(req[1] - req[0] - 1)
		if k <= 0 || k > size {
			k = size
		}
		var hs []*ParkHeader
		for i := 0; i < k && req[0]+1+uint64(i) <= top; i++ {
			hs = append(hs, at(req[0]+1+uint64(i)))
		}
		ch <- slowAns{hs: hs}
		quiet()
		kind := "answer_prefix"
		if gs.peek(false) != nil && gs.peek(false).who >= 0 {
			kind = "answer_while_learner_write_parked"
		}
		obs(fmt.Sprintf("(DAnswer (APrefix %d))", len(hs)), 0, kind)
		track(retB, idB)
		return true
	}
	resolve := func(w *scriptWrite, fail bool, order string) {
		retB, idB := returned(), lastObs.ID
		waiter := inflight() >= 0 && inflight() != w.who
		gs.take(w)
		name := "Rel"
		if fail {
			name = "Fail"
			w.rel <- errors.New("syncfx: the store's write failed")
		} else {
			w.rel <- nil
		}
		quiet()
		kind := "write_" + name + "_" + order
		if waiter {
			kind += "_with_waiter"
		}
		if w.who < 0 {
			obs("D"+name+"L", 0, kind+"/loop")
		} else {
			obs(fmt.Sprintf("(D%sT %d)", name, w.who), 0, kind+"/learner")
		}
		track(retB, idB)
	}

	mustRelease := false
	for iter := 0; nacts < maxActs && iter < 6*maxActs; iter++ {
		oldest := rng.Chance(50)
		order := "newest"
		if oldest {
			order = "oldest"
		}
		w := gs.peek(oldest)
		req := g.outstanding()
		local := lastObs.Local
		switch {
		case w != nil:
			// the loop's write of the cached run up to the target is parked: gossip of the header right above the
			// target waits for syncStore's lock and parks in the store itself once the loop's write went on
			overlap := w.who < 0 && inflight() < 0 && !trigMaybe && len(w.heights) > 0 &&
				w.heights[len(w.heights)-1] == lastObs.To && local == lastObs.To && local+1 <= top
			if overlap && rng.Chance(45) {
				gossip(local+1, "waits_for_lock")
				mustRelease = true
				continue
			}
			if inflight() < 0 && rng.Chance(15) && local > tail {
				// known / stale gossip while a write is parked: refused by verification, touches nothing
				gossip(tail+uint64(rng.Intn(int(local-tail)+1)), "stale_while_parked")
				continue
			}
			if req != nil && rng.Chance(40) {
				// (only possible while a learner call's write is parked) the loop's Append waits for the lock
				answer(1+rng.Intn(4), false)
				continue
			}
			fail := rng.Chance(40) && !mustRelease
			resolve(w, fail, order)
			mustRelease = false
		case req != nil && rng.Chance(65):
			switch d := rng.Intn(100); {
			case d < 15:
				answer(0, true)
			case d < 55:
				answer(1+rng.Intn(int(req[1]-req[0]-1)), false)
			default:
				answer(0, false)
			}
		case inflight() < 0:
			if rng.Chance(50) && local+1 <= top {
				gossip(local+1, "next")
			} else if n := local + 2 + uint64(rng.Intn(5)); n <= top {
				gossip(n, "skip")
			}
		}
	}
	// drain: everything parked goes on, every request is answered in full; one more head so that a sync aborted by a
	// failed write is taken up again; drain
	drain := func() {
		for i := 0; i < 60; i++ {
			if w := gs.peek(true); w != nil {
				resolve(w, false, "drain")
				continue
			}
			if answer(0, false) {
				continue
			}
			break
		}
	}
	drain()
	if inflight() < 0 && lastObs.Local+1 <= top {
		gossip(lastObs.Local+1, "final")
		drain()
	}

	for _, r := range results {
		select {
		case err := <-r:
			if err == nil {
				run.Results = append(run.Results, 1)
			} else {
				run.Results = append(run.Results, 2)
			}
		case <-time.After(3 * time.Second):
			run.Results = append(run.Results, 3)
		}
	}
	wctx, wcancel := context.WithTimeout(ctx, 200*time.Millisecond)
	run.Wait = sy.SyncWait(wctx) == nil
	wcancel()
	for n := tail; n <= top+2; n++ {
		c2, cancel2 := context.WithTimeout(context.Background(), 5*time.Millisecond)
		h, err := st.GetByHeight(c2, n)
		cancel2()
		if err == nil && h != nil {
			run.Probe = append(run.Probe, fmt.Sprintf("(%d, %d)", h.Height(), reg.ID(h.Hash())))
		}
	}
	stop()
	res, err := ds.Query(context.Background(), query.Query{KeysOnly: true})
	if err != nil {
		return nil, nil, err
	}
	for r := range res.Next() {
		k := r.Key[len("/headers/"):]
		if k == "head" || k == "tail" {
			continue
		}
		var n uint64
		if _, e := fmt.Sscanf(k, "%d", &n); e == nil && fmt.Sprint(n) == k {
			run.Heights = append(run.Heights, n)
		} else {
			run.Hashes++
		}
	}
	res.Close()
	sort.Slice(run.Heights, func(i, j int) bool { return run.Heights[i] < run.Heights[j] })
	run.Note = fmt.Sprintf("random slow-store script, seed %d, %d actions", seed, nacts)
	return run, stats, nil
}

// RunSlowScripts runs n random slow-store scripts concurrently (each on its own Syncer and Store).
func RunSlowScripts(seed uint64, n, maxActs int) ([]*ParkRun, map[string]int, error) {
	vhdr.SetPolicy(vhdr.LinkPolicy(0))
	defer vhdr.SetPolicy(nil)
	runs := make([]*ParkRun, n)
	errs := make([]error, n)
	sts := make([]map[string]int, n)
	var wg gosync.WaitGroup
	for i := 0; i < n; i++ {
		wg.Add(1)
		go func(i int) {
			defer wg.Done()
			runs[i], sts[i], errs[i] = RunSlowScript(seed*1000003+uint64(i)*7919+1, maxActs)
		}(i)
	}
	wg.Wait()
	total := map[string]int{}
	for i := 0; i < n; i++ {
		if errs[i] != nil {
			return nil, nil, errs[i]
		}
		for k, v := range sts[i] {
			total[k] += v
		}
	}
	return runs, total, nil
}
