//go:build verif

package c18

import (
	"context"
	"fmt"
	"runtime"
	"strings"
	"sync"
	"testing"
	"testing/synctest"
	"time"

	"github.com/ipfs/go-datastore"
	dssync "github.com/ipfs/go-datastore/sync"

	header "github.com/celestiaorg/go-header"
	"github.com/celestiaorg/go-header/p2p"
	"github.com/celestiaorg/go-header/store"

	"verifharness/emit"
	"verifharness/sess"
	"verifharness/vhdr"
)

type H = *vhdr.Header

const (
	farPast  = int64(1_000_000)
	reqTO    = 3 * time.Second
	deadline = 30 * time.Minute
)

// fault injected by a proxy into one answer of its server
type fault struct {
	kind string // "" | timeout | disconnect
	keep int    // frames let through before the fault (taken modulo the answer length)
}

// grow: before answering its attempt-th request the peer's store grows to `to` headers
type grow struct {
	attempt int
	to      uint64
}

type scenario struct {
	name   string
	chunk  uint64
	from   uint64
	amount uint64
	avail  []uint64
	rel    int
	faults [][]fault // per peer, per attempt (beyond: none)
	grows  [][]grow  // per peer
	// gone > 0: a peer leaves after the session took its snapshot of the tracked peers and before it is popped.
	// Every peer asked at the start answers its first request late (2 s) and short (cut headers); when the first of
	// these answers is due, the one peer that has not been asked yet is disconnected and unlinked from the client. It
	// is still in the session's queue, with the default score, ahead of the slow peers: it is popped for the remainder.
	gone int
	cut  int
	// slow honest answers: every answer of every server is delayed by `delay` (virtual time, < RequestTimeout), and
	// (dl) the client's streams honour the deadline sendMessage puts on them, as real transports do. With more chunks
	// than peers a chunk waits for a free peer first; each sub-request has its full timeout from the moment its peer is
	// popped, so every answer arrives in time and the call returns the exact range.
	delay time.Duration
	dl    bool
}

type backend struct {
	st   *store.Store[H]
	srv  *p2p.ExchangeServer[H]
	head uint64
}

func (b *backend) growTo(t *testing.T, chain []H, to uint64) {
	if to <= b.head {
		return
	}
	ctx, cancel := context.WithTimeout(context.Background(), time.Hour)
	defer cancel()
	for off := b.head; off < to; off += 64 {
		end := min(off+64, to)
		if err := b.st.Append(ctx, chain[off:end]...); err != nil {
			t.Fatal(err)
		}
	}
	if err := b.st.Sync(ctx); err != nil {
		t.Fatal(err)
	}
	b.head = to
}

func startBackend(t *testing.T, w *sess.World, i int, chain []H, avail uint64) *backend {
	ctx, cancel := context.WithTimeout(context.Background(), time.Hour)
	defer cancel()
	st, err := store.NewStore[H](dssync.MutexWrap(datastore.NewMapDatastore()))
	if err != nil {
		t.Fatal(err)
	}
	if err := st.Start(ctx); err != nil {
		t.Fatal(err)
	}
	for off := uint64(0); off < avail; off += 64 {
		end := min(off+64, avail)
		if err := st.Append(ctx, chain[off:end]...); err != nil {
			t.Fatal(err)
		}
	}
	if err := st.Sync(ctx); err != nil {
		t.Fatal(err)
	}
	b := w.AddBackend(i)
	srv, err := p2p.NewExchangeServer[H](b, st, p2p.WithNetworkID[p2p.ServerParameters](sess.NetworkID))
	if err != nil {
		t.Fatal(err)
	}
	if err := srv.Start(ctx); err != nil {
		t.Fatal(err)
	}
	return &backend{st: st, srv: srv, head: avail}
}

func (b *backend) stop(t *testing.T) {
	ctx, cancel := context.WithTimeout(context.Background(), time.Hour)
	defer cancel()
	_ = b.srv.Stop(ctx)
	if err := b.st.Stop(ctx); err != nil {
		t.Fatal(err)
	}
}

// chainTerm renders chain[0:n] once; headers of the chain are then referred to as (cn ch h)
func hdrRef(reg *vhdr.Registry, chain []H, n uint64, h H) string {
	if h != nil && h.H >= 1 && h.H <= n && string(chain[h.H-1].Hash()) == string(h.Hash()) {
		return fmt.Sprintf("(cn ch %d)", h.H)
	}
	return reg.Term(h)
}

func logTerm(reg *vhdr.Registry, chain []H, n uint64, l []sess.Event) string {
	evs := make([]string, len(l))
	for i, e := range l {
		fs := make([]string, len(e.Frames))
		for j, f := range e.Frames {
			if f.Kind == sess.FHdr {
				fs[j] = "(FHdr " + hdrRef(reg, chain, n, f.H) + ")"
			} else {
				fs[j] = sess.FrameTerm(reg, f)
			}
		}
		evs[i] = fmt.Sprintf("(LogEv %d %s %d %d %s)", e.Peer, emit.Z(e.Now), e.Origin, e.Amount, emit.List(fs))
	}
	return emit.List(evs)
}

func obsTerm(reg *vhdr.Registry, chain []H, n uint64, o sess.Obs) string {
	if o.Kind != "ok" {
		return o.Term(reg)
	}
	xs := make([]string, len(o.Headers))
	for i, h := range o.Headers {
		xs[i] = hdrRef(reg, chain, n, h)
	}
	return "(OOk " + emit.List(xs) + ")"
}

func runRange(t *testing.T, w *emit.Writer, reg *vhdr.Registry, chain []H, sc scenario, drift time.Duration) {
	var o sess.Obs
	var log []sess.Event
	var gmu sync.Mutex
	asked := map[int]bool{}
	left := -1
	synctest.Test(t, func(t *testing.T) {
		mk := sess.NewWorld
		if sc.dl {
			mk = sess.NewWorldDL
		}
		wd := mk(t, len(sc.avail), sc.chunk, reqTO, "a", synctest.Wait)
		var bs []*backend
		for i := range sc.avail {
			b := startBackend(t, wd, i, chain, sc.avail[i])
			bs = append(bs, b)
			fs := sc.faults[i]
			var gs []grow
			if i < len(sc.grows) {
				gs = sc.grows[i]
			}
			wd.Proxy(i, wd.Backends[i], sess.ProxyHooks{
				Before: func(att int) {
					if sc.delay > 0 {
						time.Sleep(sc.delay)
					}
					if sc.gone > 0 && att == 0 {
						gmu.Lock()
						asked[i] = true
						gmu.Unlock()
						time.Sleep(2 * time.Second)
						gmu.Lock()
						if left < 0 {
							for v := range sc.avail {
								if !asked[v] {
									left = v
									break
								}
							}
							if left >= 0 {
								_ = wd.Net.DisconnectPeers(wd.Client.ID(), wd.Peers[left].ID())
								_ = wd.Net.UnlinkPeers(wd.Client.ID(), wd.Peers[left].ID())
							}
						}
						gmu.Unlock()
					}
					for _, g := range gs {
						if g.attempt == att {
							b.growTo(t, chain, g.to)
						}
					}
				},
				Avail: func() uint64 { return b.head },
				Fault: func(att, n int) (int, sess.Tail, string) {
					if sc.gone > 0 && att == 0 && n > 1 {
						return 1 + sc.cut%(n-1), sess.TClose, "short"
					}
					if att >= len(fs) || fs[att].kind == "" {
						return n, sess.TClose, ""
					}
					keep := 0
					if n > 0 {
						keep = fs[att].keep % n
					}
					if fs[att].kind == "timeout" {
						return keep, sess.THang, "timeout"
					}
					return keep, sess.TReset, "disconnect"
				}})
		}
		synctest.Wait()
		o = wd.Call(chain[sc.from-1], sc.from+1+sc.amount, deadline)
		synctest.Wait()
		log = wd.TakeLog()
		for _, b := range bs {
			b.stop(t)
		}
		wd.Close()
	})
	if sc.gone > 0 {
		// the peer whose answers are never empty: one that was asked at the start
		if len(log) > 0 {
			sc.rel = log[0].Peer
		}
		w.Count("peer_left_before_pop", fmt.Sprintf("peers=%d left=%v result=%s", len(sc.avail), left >= 0, o.Kind))
	}
	top := uint64(0)
	for _, a := range sc.avail {
		top = max(top, a)
	}
	for _, gs := range sc.grows {
		for _, g := range gs {
			top = max(top, g.to)
		}
	}
	ch := make([]string, top)
	for i := uint64(0); i < top; i++ {
		ch[i] = reg.Term(chain[i])
	}
	peers := make([]string, len(sc.avail))
	for i := range peers {
		peers[i] = emit.N(uint64(i))
	}
	av := make([]string, len(log))
	for i, e := range log {
		av[i] = emit.N(e.Avail)
	}
	base := fmt.Sprintf("(Case05 %s 0 %d %d %s %d %s %s %s)", emit.Z(int64(drift)), sess.MaxCap, sc.chunk,
		hdrRef(reg, chain, top, chain[sc.from-1]), sc.from+1+sc.amount, emit.List(peers), logTerm(reg, chain, top, log), obsTerm(reg, chain, top, o))
	term := fmt.Sprintf("(let ch := %s in Range18 %s ch %s %d)", emit.List(ch), base, emit.List(av), sc.rel)
	nf, to, dc, partial := 0, 0, 0, 0
	for _, e := range log {
		switch {
		case e.Behave == "timeout":
			to++
		case e.Behave == "disconnect":
			dc++
		case len(e.Frames) == 1 && e.Frames[0].Kind == sess.FNotFound:
			nf++
		case uint64(len(e.Frames)) < e.Amount:
			partial++
		}
	}
	shape := fmt.Sprintf("nf%v/to%v/dc%v/part%v", nf > 0, to > 0, dc > 0, partial > 0)
	rel := "eq"
	switch {
	case sc.amount < sc.chunk:
		rel = "lt"
	case sc.amount%sc.chunk != 0:
		rel = fmt.Sprintf("%dx+r", sc.amount/sc.chunk)
	default:
		rel = fmt.Sprintf("%dx", sc.amount/sc.chunk)
	}
	class := fmt.Sprintf("p%d/c%d/len%s/%s/%s", len(sc.avail), sc.chunk, rel, shape, o.Kind)
	if sc.gone > 0 {
		shape += "/left"
	}
	if sc.delay > 0 {
		shape += fmt.Sprintf("/slow%d", sc.delay*10/reqTO)
		w.Count("slow_honest_answers", fmt.Sprintf("peers=%d chunks=%d delay=%v result=%s", len(sc.avail), (sc.amount+sc.chunk-1)/sc.chunk, sc.delay, o.Kind))
	}
	grew := false
	for _, gs := range sc.grows {
		grew = grew || len(gs) > 0
	}
	if grew {
		shape += "/grow"
		w.Count("stores", "growing")
	} else {
		w.Count("stores", "static")
	}
	class = fmt.Sprintf("p%d/c%d/len%s/%s/%s", len(sc.avail), sc.chunk, rel, shape, o.Kind)
	w.Add(term, map[string]any{"scenario": sc.name, "chunk": sc.chunk, "from": sc.from, "amount": sc.amount, "avail": sc.avail, "grows": fmt.Sprint(sc.grows), "reliable": sc.rel,
		"log": sess.Summary(log), "obs": o.Kind, "detail": o.Detail, "returned": len(o.Headers)}, class, len(sc.avail) > 1 && (nf+to+dc+partial) > 0)
	w.Count("observation", o.Kind)
	w.Count("peers", fmt.Sprint(len(sc.avail)))
	w.Count("chunk", bucket(sc.chunk))
	w.Count("length_vs_chunk", rel)
	w.Count("events", fmt.Sprint(min(len(log)/5*5, 50)))
	w.Count("answers", fmt.Sprintf("notfound=%d", min(nf, 3)))
	w.Count("answers", fmt.Sprintf("timeout=%d", min(to, 3)))
	w.Count("answers", fmt.Sprintf("disconnect=%d", min(dc, 3)))
	w.Count("answers", fmt.Sprintf("partial=%d", min(partial, 3)))
}

func bucket(c uint64) string {
	switch {
	case c <= 2:
		return fmt.Sprint(c)
	case c <= 8:
		return "3-8"
	case c <= 32:
		return "9-32"
	default:
		return "33-64"
	}
}

// one-header requests through the wire encoding: Head against one honest server; Get and GetByHeight
// against 1-3 trusted servers with different heads, for a header that (at least) the longest one holds;
// slow[i] delays server i's answer (virtual time), so that e.g. a lagging server's NOT_FOUND arrives first
func runOne(t *testing.T, w *emit.Writer, reg *vhdr.Registry, chain []H, avails []uint64, slow []time.Duration, rng *emit.Rand) {
	type res struct {
		kind   string
		served H
		got    H
		err    error
		log    []sess.Event
	}
	var out []res
	top := uint64(0)
	for _, a := range avails {
		top = max(top, a)
	}
	synctest.Test(t, func(t *testing.T) {
		wd := sess.NewWorld(t, len(avails), 4, reqTO, "a", synctest.Wait)
		var bs []*backend
		for i, a := range avails {
			bs = append(bs, startBackend(t, wd, i, chain, a))
			d := slow[i]
			wd.Proxy(i, wd.Backends[i], sess.ProxyHooks{Before: func(int) {
				if d > 0 {
					time.Sleep(d)
				}
			}})
		}
		synctest.Wait()
		ctx, cancel := context.WithTimeout(context.Background(), time.Hour)
		defer cancel()
		settle := func() []sess.Event {
			// answers that arrive after the call has returned belong to this call as well
			time.Sleep(10 * time.Second)
			synctest.Wait()
			return wd.TakeLog()
		}
		if len(avails) == 1 {
			h, err := wd.Ex.Head(ctx)
			out = append(out, res{"head", chain[top-1], h, err, settle()})
		}
		low := uint64(0)
		if len(avails) > 1 {
			low = top
			for _, a := range avails {
				low = min(low, a)
			}
		}
		for k := 0; k < 4; k++ {
			// a header above the shortest store (only some servers hold it), or anywhere for one server
			x := chain[low+uint64(rng.Intn(int(top-low)))]
			h, err := wd.Ex.GetByHeight(ctx, x.H)
			out = append(out, res{"getbyheight", x, h, err, settle()})
			h, err = wd.Ex.Get(ctx, x.Hash())
			out = append(out, res{"get", x, h, err, settle()})
		}
		for _, b := range bs {
			b.stop(t)
		}
		wd.Close()
	})
	for _, r := range out {
		got := "None"
		if r.err == nil && r.got != nil {
			got = emit.Some(reg.Term(r.got))
		}
		var answers []string
		order := ""
		for _, e := range r.log {
			var fs []string
			for _, f := range e.Frames {
				fs = append(fs, sess.FrameTerm(reg, f))
			}
			answers = append(answers, emit.List(fs))
			switch {
			case len(e.Frames) == 1 && e.Frames[0].Kind == sess.FHdr:
				order += "H"
			case len(e.Frames) == 1 && e.Frames[0].Kind == sess.FNotFound:
				order += "N"
			default:
				order += "?"
			}
		}
		term := fmt.Sprintf("(One18 (Some %d) %s %s %s)", reg.ChainNo("a"), reg.Term(r.served), emit.List(answers), got)
		w.Add(term, map[string]any{"op": r.kind, "height": r.served.H, "heads": avails, "arrival": order, "err": fmt.Sprint(r.err)},
			fmt.Sprintf("one/%s/%d/%s", r.kind, len(avails), order), len(avails) > 1)
		w.Count("one", r.kind)
		w.Count("one_arrival_order", order)
	}
}

func randomScenario(rng *emit.Rand, i int, maxChunk int) scenario {
	chunk := uint64(1 + rng.Intn(maxChunk))
	if rng.Chance(30) {
		chunk = uint64(1 + rng.Intn(4))
	}
	amount := uint64(1 + rng.Intn(int(3*chunk)))
	from := uint64(1 + rng.Intn(10))
	n := 1 + rng.Intn(5)
	to := from + 1 + amount
	sc := scenario{name: fmt.Sprintf("rand%d", i), chunk: chunk, from: from, amount: amount, rel: rng.Intn(n)}
	for p := 0; p < n; p++ {
		var a uint64
		switch rng.Intn(4) {
		case 0:
			a = 1 + uint64(rng.Intn(int(from))) // nothing of the range
		case 1, 2:
			a = from + uint64(rng.Intn(int(amount)+1)) // a prefix of the range
		default:
			a = to - 1 + uint64(rng.Intn(5))
		}
		var fs []fault
		if p == sc.rel {
			a = to - 1 + uint64(rng.Intn(5))
		} else {
			for k := rng.Intn(3); k > 0; k-- {
				switch rng.Intn(3) {
				case 0:
					fs = append(fs, fault{})
				case 1:
					fs = append(fs, fault{"timeout", rng.Intn(64)})
				default:
					fs = append(fs, fault{"disconnect", rng.Intn(64)})
				}
			}
		}
		sc.avail = append(sc.avail, a)
		sc.faults = append(sc.faults, fs)
		sc.grows = append(sc.grows, nil)
	}
	if rng.Chance(30) {
		// nobody has the whole range at first: the fault-free peer's store catches up while it is being asked
		g := 1 + rng.Intn(3)
		final := to - 1 + uint64(rng.Intn(5))
		sc.avail[sc.rel] = from + uint64(rng.Intn(int(amount)))
		if rng.Bool() {
			sc.avail[sc.rel] = 1 + uint64(rng.Intn(int(from)))
		}
		sc.grows[sc.rel] = []grow{{g, final}}
		if rng.Bool() && sc.avail[sc.rel]+1 < final {
			mid := sc.avail[sc.rel] + 1 + uint64(rng.Intn(int(final-sc.avail[sc.rel]-1)))
			sc.grows[sc.rel] = []grow{{g, mid}, {g + 1 + rng.Intn(3), final}}
		}
		for p := range sc.avail {
			if p != sc.rel && sc.avail[p] >= to-1 {
				sc.avail[p] = from + uint64(rng.Intn(int(amount)))
			}
		}
	}
	return sc
}

func TestC18(t *testing.T) {
	defer runtime.GOMAXPROCS(runtime.GOMAXPROCS(1))
	rng := emit.NewRand(emit.Seed())
	w := emit.NewWriter("Model.Verify Model.Session Oracle.C05", "case18", "chk18")
	w.PerShard(40)
	w.Rule = "GetRangeByHeight of the real p2p.Exchange against 1-5 real ExchangeServers over real stores holding prefixes 1..avail of one chain, each behind a recording " +
		"proxy that may cut an answer (timeout / disconnect after k frames); one peer without faults holds the whole range; chunk 1-64, length 1..3*chunk. " +
		"Case = (parameters, chain, availabilities, the proxies' log, result). Thorough: chunk x length swept (all lengths for chunk <= 12, boundary lengths for chunk <= 64) for 1-3 peers. " +
		"Plus Head / Get / GetByHeight through the wire against one server. Distinct by (peers, chunk, length vs chunk, kinds of answers seen, result); non-trivial = several peers and some NOT_FOUND / partial / faulty answer"
	reg := vhdr.NewRegistry()
	chain := vhdr.Chain("a", 1, 64*3+40, farPast, 10, nil)
	var drift time.Duration
	synctest.Test(t, func(t *testing.T) { drift = header.VerifClockDrift() })

	var scs []scenario
	// fixed: single peer, exact multiples, chunk 1, one header
	for _, c := range []struct{ chunk, amount uint64 }{{1, 1}, {1, 3}, {4, 4}, {4, 8}, {4, 9}, {4, 11}, {64, 1}, {64, 64}, {64, 65}, {64, 192}, {7, 20}} {
		scs = append(scs, scenario{name: fmt.Sprintf("single-c%d-l%d", c.chunk, c.amount), chunk: c.chunk, from: 3, amount: c.amount,
			avail: []uint64{3 + c.amount}, faults: [][]fault{nil}})
		scs = append(scs, scenario{name: fmt.Sprintf("prefix+full-c%d-l%d", c.chunk, c.amount), chunk: c.chunk, from: 3, amount: c.amount,
			avail: []uint64{3 + c.amount/2, 3 + c.amount, 2}, rel: 1, faults: [][]fault{{{"timeout", 1}}, nil, {{"disconnect", 0}}}})
	}
	// a peer that leaves between the session's snapshot and its pop: 2 peers / one request (the remainder of the
	// first chunk goes to the peer that left), 3 peers / two requests (remainders of both chunks)
	for _, c := range []struct {
		peers         int
		chunk, amount uint64
	}{{2, 4, 4}, {2, 8, 5}, {2, 64, 5}, {2, 3, 2}, {3, 4, 8}, {3, 2, 4}, {3, 6, 9}, {3, 5, 10}} {
		for cut := 0; cut < 2; cut++ {
			sc := scenario{name: fmt.Sprintf("left-before-pop-p%d-c%d-l%d-cut%d", c.peers, c.chunk, c.amount, cut), chunk: c.chunk, from: 3,
				amount: c.amount, gone: c.peers, cut: cut}
			for p := 0; p < c.peers; p++ {
				sc.avail = append(sc.avail, 3+c.amount+uint64(p))
				sc.faults = append(sc.faults, nil)
			}
			scs = append(scs, sc)
		}
	}
	// slow honest answers over a deadline-honouring transport: more chunks than peers, every answer takes
	// 0.6 / 0.9 x RequestTimeout, so (wait for a free peer + answer time) exceeds RequestTimeout for the later chunks
	for _, c := range []struct {
		peers         int
		chunk, amount uint64
		tenths        int
	}{{1, 2, 6, 6}, {1, 4, 16, 6}, {1, 7, 35, 6}, {1, 3, 10, 9}, {2, 2, 10, 6}, {2, 5, 15, 6}, {2, 4, 17, 9}, {2, 64, 200, 6}, {1, 1, 4, 6}} {
		sc := scenario{name: fmt.Sprintf("slow-honest-p%d-c%d-l%d-d%d", c.peers, c.chunk, c.amount, c.tenths), chunk: c.chunk, from: 3,
			amount: c.amount, delay: reqTO * time.Duration(c.tenths) / 10, dl: true}
		for p := 0; p < c.peers; p++ {
			sc.avail = append(sc.avail, 3+c.amount+uint64(p))
			sc.faults = append(sc.faults, nil)
		}
		scs = append(scs, sc)
	}
	n := 150
	maxChunk := 24
	if emit.Thorough() {
		n = 3000
		maxChunk = 64
		w.Exhaustive = true
		for chunk := uint64(2); chunk <= 16; chunk++ {
			for cut := 0; cut < int(chunk)-1; cut += 1 + int(chunk)/4 {
				for _, np := range []int{2, 3} {
					amount := chunk
					if np == 3 {
						amount = 2 * chunk
					}
					sc := scenario{name: fmt.Sprintf("left-before-pop-sweep-p%d-c%d-cut%d", np, chunk, cut), chunk: chunk, from: 2, amount: amount, gone: np, cut: cut}
					for p := 0; p < np; p++ {
						sc.avail = append(sc.avail, 2+amount+uint64(p))
						sc.faults = append(sc.faults, nil)
					}
					scs = append(scs, sc)
				}
			}
		}
		for chunk := uint64(1); chunk <= 64; chunk++ {
			var lens []uint64
			if chunk <= 12 {
				for l := uint64(1); l <= 3*chunk; l++ {
					lens = append(lens, l)
				}
			} else {
				lens = []uint64{1, chunk - 1, chunk, chunk + 1, 2*chunk - 1, 2 * chunk, 2*chunk + 1, 3*chunk - 1, 3 * chunk}
			}
			for _, l := range lens {
				np := 1 + int((chunk+l)%3)
				sc := scenario{name: fmt.Sprintf("sweep-c%d-l%d", chunk, l), chunk: chunk, from: 2, amount: l, rel: np - 1}
				for p := 0; p < np; p++ {
					a := 2 + l
					if p != sc.rel {
						a = 2 + (l*uint64(p+1))/3
					}
					sc.avail = append(sc.avail, a)
					sc.faults = append(sc.faults, nil)
				}
				scs = append(scs, sc)
			}
		}
	}
	for i := 0; i < n; i++ {
		scs = append(scs, randomScenario(rng, i, maxChunk))
	}
	for _, sc := range scs {
		runRange(t, w, reg, chain, sc, drift)
	}
	for _, a := range []uint64{1, 2, 17, 100} {
		runOne(t, w, reg, chain, []uint64{a}, []time.Duration{0}, rng)
	}
	// several trusted servers with different heads: the lagging one answers NOT_FOUND first, last, or in between
	sec := time.Second
	runOne(t, w, reg, chain, []uint64{5, 40}, []time.Duration{0, sec}, rng)
	runOne(t, w, reg, chain, []uint64{40, 5}, []time.Duration{sec, 0}, rng)
	runOne(t, w, reg, chain, []uint64{5, 40}, []time.Duration{sec, 0}, rng)
	runOne(t, w, reg, chain, []uint64{5, 40}, []time.Duration{0, 0}, rng)
	runOne(t, w, reg, chain, []uint64{5, 9, 60}, []time.Duration{0, sec / 2, sec}, rng)
	runOne(t, w, reg, chain, []uint64{60, 5, 9}, []time.Duration{sec, 0, sec / 2}, rng)
	runOne(t, w, reg, chain, []uint64{9, 60, 60}, []time.Duration{0, 2 * sec, sec}, rng)
	if err := w.Flush(); err != nil {
		t.Fatal(err)
	}
	_ = strings.Join
	t.Logf("emitted %d cases", w.Len())
}
