//go:build verif

package c18

import (
	"context"
	"fmt"
	"runtime"
	"sync"
	"testing"
	"testing/synctest"
	"time"

	"github.com/ipfs/go-datastore"
	dssync "github.com/ipfs/go-datastore/sync"

	header "github.com/celestiaorg/go-header"
	"github.com/celestiaorg/go-header/p2p"
	"github.com/celestiaorg/go-header/store"

	"verifharness/emit"
	"verifharness/sess"
	"verifharness/vhdr"
)

// Extra driver "pruned" (case type case18t / chk18t, Oracle/C18.v): honest servers over PRUNED real
// stores (DeleteRange on the real store, before and while being asked), the (tail, head) of the real
// store recorded at every answer; chains just below 2^64; the sole capable peer timing out once.

// prune: before answering its attempt-th request the peer's store is pruned so that its tail becomes `to`
type prune struct {
	attempt int
	to      uint64
}

type tscenario struct {
	name     string
	chunk    uint64
	from     uint64 // absolute height of the trusted header
	amount   uint64
	tails    []uint64 // per peer: the store holds tails[i]..heads[i] (absolute heights) at the start
	heads    []uint64
	rel      int // a peer without injected faults (its answers are never empty); -1: none
	faults   [][]fault
	prunes   [][]prune
	grows    [][]grow
	deadline time.Duration
	family   string
}

type world struct {
	base  uint64 // chain[i] has height base+1+i
	chain []H
}

func (cw *world) at(h uint64) H { return cw.chain[h-cw.base-1] }

type tbackend struct {
	st  *store.Store[H]
	srv *p2p.ExchangeServer[H]
}

func (cw *world) startPruned(t *testing.T, w *sess.World, i int, tail, head uint64) *tbackend {
	ctx, cancel := context.WithTimeout(context.Background(), time.Hour)
	defer cancel()
	st, err := store.NewStore[H](dssync.MutexWrap(datastore.NewMapDatastore()))
	if err != nil {
		t.Fatal(err)
	}
	if err := st.Start(ctx); err != nil {
		t.Fatal(err)
	}
	b := &tbackend{st: st}
	b.appendTo(t, cw, cw.base, head)
	b.pruneTo(t, tail)
	hb := w.AddBackend(i)
	b.srv, err = p2p.NewExchangeServer[H](hb, st, p2p.WithNetworkID[p2p.ServerParameters](sess.NetworkID))
	if err != nil {
		t.Fatal(err)
	}
	if err := b.srv.Start(ctx); err != nil {
		t.Fatal(err)
	}
	return b
}

// appendTo appends the chain's headers above `have` up to `to`
func (b *tbackend) appendTo(t *testing.T, cw *world, have, to uint64) {
	ctx, cancel := context.WithTimeout(context.Background(), time.Hour)
	defer cancel()
	for lo := have; lo < to; {
		n := min(uint64(64), to-lo)
		if err := b.st.Append(ctx, cw.chain[lo-cw.base:lo-cw.base+n]...); err != nil {
			t.Fatal(err)
		}
		lo += n
	}
	if err := b.st.Sync(ctx); err != nil {
		t.Fatal(err)
	}
}

// pruneTo deletes [tail, to) from the real store
func (b *tbackend) pruneTo(t *testing.T, to uint64) {
	ctx, cancel := context.WithTimeout(context.Background(), time.Hour)
	defer cancel()
	tl, _ := b.bounds()
	if to <= tl {
		return
	}
	if err := b.st.DeleteRange(ctx, tl, to); err != nil {
		t.Fatalf("DeleteRange(%d,%d): %v", tl, to, err)
	}
}

// bounds reads tail and head from the real store
func (b *tbackend) bounds() (uint64, uint64) {
	ctx, cancel := context.WithTimeout(context.Background(), time.Hour)
	defer cancel()
	tl, err1 := b.st.Tail(ctx)
	hd, err2 := b.st.Head(ctx)
	if err1 != nil || err2 != nil {
		return 1, 0 // empty
	}
	return tl.Height(), hd.Height()
}

func (b *tbackend) stop(t *testing.T) {
	ctx, cancel := context.WithTimeout(context.Background(), time.Hour)
	defer cancel()
	_ = b.srv.Stop(ctx)
	if err := b.st.Stop(ctx); err != nil {
		t.Fatal(err)
	}
}

func (cw *world) ref(reg *vhdr.Registry, h H) string {
	if h != nil && h.H > cw.base && h.H-cw.base <= uint64(len(cw.chain)) && string(cw.at(h.H).Hash()) == string(h.Hash()) {
		return fmt.Sprintf("(cno %d ch %d)", cw.base, h.H)
	}
	return reg.Term(h)
}

func runRangeT(t *testing.T, w *emit.Writer, reg *vhdr.Registry, cw *world, sc tscenario, drift time.Duration) {
	var o sess.Obs
	var log []sess.Event
	var mu sync.Mutex
	if sc.deadline == 0 {
		sc.deadline = deadline
	}
	// the return promise of C18 needs one fault-free CAPABLE peer (its store holds from+1..to-1 during the whole call);
	// without one (peers that only together hold the range) the oracle says what the model says: the exact range, or
	// the call waits for its context (the session may keep sending each request to the peer that lacks it)
	if sc.rel >= 0 {
		i := sc.rel
		capable := sc.tails[i] <= sc.from+1 && sc.heads[i] >= sc.from+sc.amount && (i >= len(sc.faults) || len(sc.faults[i]) == 0)
		if i < len(sc.prunes) {
			for _, p := range sc.prunes[i] {
				capable = capable && p.to <= sc.from+1
			}
		}
		if !capable {
			sc.rel = -1
		}
	}
	synctest.Test(t, func(t *testing.T) {
		wd := sess.NewWorld(t, len(sc.heads), sc.chunk, reqTO, "a", synctest.Wait)
		var bs []*tbackend
		for i := range sc.heads {
			b := cw.startPruned(t, wd, i, sc.tails[i], sc.heads[i])
			bs = append(bs, b)
			var fs []fault
			if i < len(sc.faults) {
				fs = sc.faults[i]
			}
			var ps []prune
			if i < len(sc.prunes) {
				ps = sc.prunes[i]
			}
			var gs []grow
			if i < len(sc.grows) {
				gs = sc.grows[i]
			}
			var tl, hd uint64
			wd.Proxy(i, wd.Backends[i], sess.ProxyHooks{
				Before: func(att int) {
					for _, g := range gs {
						if g.attempt == att {
							_, h := b.bounds()
							b.appendTo(t, cw, h, g.to)
						}
					}
					for _, p := range ps {
						if p.attempt == att {
							b.pruneTo(t, p.to)
						}
					}
					mu.Lock()
					tl, hd = b.bounds()
					mu.Unlock()
				},
				Avail: func() uint64 { mu.Lock(); defer mu.Unlock(); return hd },
				Tail:  func() uint64 { mu.Lock(); defer mu.Unlock(); return tl },
				Fault: func(att, n int) (int, sess.Tail, string) {
					if att >= len(fs) || fs[att].kind == "" {
						return n, sess.TClose, ""
					}
					keep := 0
					if n > 0 {
						keep = fs[att].keep % n
					}
					if fs[att].kind == "timeout" {
						return keep, sess.THang, "timeout"
					}
					return keep, sess.TReset, "disconnect"
				}})
		}
		synctest.Wait()
		o = wd.Call(cw.at(sc.from), sc.from+1+sc.amount, sc.deadline)
		synctest.Wait()
		log = wd.TakeLog()
		for _, b := range bs {
			b.stop(t)
		}
		wd.Close()
	})
	ch := make([]string, len(cw.chain))
	for i := range cw.chain {
		ch[i] = reg.Term(cw.chain[i])
	}
	peers := make([]string, len(sc.heads))
	for i := range peers {
		peers[i] = emit.N(uint64(i))
	}
	ths := make([]string, len(log))
	evs := make([]string, len(log))
	pruned, below := 0, 0
	for i, e := range log {
		ths[i] = emit.Pair(emit.N(e.TailH), emit.N(e.Avail))
		fs := make([]string, len(e.Frames))
		for j, f := range e.Frames {
			if f.Kind == sess.FHdr {
				fs[j] = "(FHdr " + cw.ref(reg, f.H) + ")"
			} else {
				fs[j] = sess.FrameTerm(reg, f)
			}
		}
		evs[i] = fmt.Sprintf("(LogEv %d %s %d %d %s)", e.Peer, emit.Z(e.Now), e.Origin, e.Amount, emit.List(fs))
		if e.TailH > cw.base+1 {
			pruned++
		}
		if e.Origin < e.TailH {
			below++
		}
	}
	var obs string
	if o.Kind == "ok" {
		xs := make([]string, len(o.Headers))
		for i, h := range o.Headers {
			xs[i] = cw.ref(reg, h)
		}
		obs = "(OOk " + emit.List(xs) + ")"
	} else {
		obs = o.Term(reg)
	}
	rel := "None"
	if sc.rel >= 0 {
		rel = fmt.Sprintf("(Some %d)", sc.rel)
	}
	basec := fmt.Sprintf("(Case05 %s 0 %d %d %s %d %s %s %s)", emit.Z(int64(drift)), sess.MaxCap, sc.chunk,
		cw.ref(reg, cw.at(sc.from)), sc.from+1+sc.amount, emit.List(peers), emit.List(evs), obs)
	term := fmt.Sprintf("(let ch := %s in Range18t %s %d ch %s %s)", emit.List(ch), basec, cw.base, emit.List(ths), rel)
	nf, to, dc, partial := 0, 0, 0, 0
	for _, e := range log {
		switch {
		case e.Behave == "timeout":
			to++
		case e.Behave == "disconnect":
			dc++
		case len(e.Frames) == 1 && e.Frames[0].Kind == sess.FNotFound:
			nf++
		case uint64(len(e.Frames)) < e.Amount:
			partial++
		}
	}
	lrel := "eq"
	switch {
	case sc.amount < sc.chunk:
		lrel = "lt"
	case sc.amount%sc.chunk != 0:
		lrel = fmt.Sprintf("%dx+r", sc.amount/sc.chunk)
	default:
		lrel = fmt.Sprintf("%dx", sc.amount/sc.chunk)
	}
	class := fmt.Sprintf("%s/p%d/c%d/len%s/nf%v/to%v/dc%v/part%v/pruned%v/below%v/%s", sc.family, len(sc.heads), sc.chunk, lrel,
		nf > 0, to > 0, dc > 0, partial > 0, pruned > 0, below > 0, o.Kind)
	w.Add(term, map[string]any{"scenario": sc.name, "chunk": sc.chunk, "from": sc.from, "amount": sc.amount, "tails": sc.tails, "heads": sc.heads,
		"prunes": fmt.Sprint(sc.prunes), "grows": fmt.Sprint(sc.grows), "reliable": sc.rel, "log": sess.Summary(log), "obs": o.Kind, "detail": o.Detail,
		"returned": len(o.Headers)}, class, pruned > 0 || cw.base > 0 || sc.rel < 0)
	w.Count("family", sc.family)
	w.Count("capable_fault_free_peer", fmt.Sprintf("%s/%v/%s", sc.family, sc.rel >= 0, o.Kind))
	w.Count("observation", sc.family+"/"+o.Kind)
	w.Count("peers", fmt.Sprint(len(sc.heads)))
	w.Count("chunk", bucket(sc.chunk))
	w.Count("length_vs_chunk", lrel)
	w.Count("events", fmt.Sprint(min(len(log)/5*5, 50)))
	w.Count("answers_from_pruned_store", fmt.Sprint(min(pruned, 5)))
	w.Count("requests_below_tail", fmt.Sprint(min(below, 5)))
	w.Count("answers", fmt.Sprintf("notfound=%d", min(nf, 3)))
	w.Count("answers", fmt.Sprintf("timeout=%d", min(to, 3)))
	w.Count("answers", fmt.Sprintf("disconnect=%d", min(dc, 3)))
	w.Count("answers", fmt.Sprintf("partial=%d", min(partial, 3)))
}

func randomPruned(rng *emit.Rand, i int, maxChunk int, top uint64) tscenario {
	chunk := uint64(1 + rng.Intn(maxChunk))
	if rng.Chance(30) {
		chunk = uint64(1 + rng.Intn(4))
	}
	amount := uint64(1 + rng.Intn(int(3*chunk)))
	from := uint64(2 + rng.Intn(20))
	n := 1 + rng.Intn(4)
	to := from + 1 + amount
	sc := tscenario{name: fmt.Sprintf("rand%d", i), family: "pruned", chunk: chunk, from: from, amount: amount, rel: rng.Intn(n)}
	for p := 0; p < n; p++ {
		// head anywhere from below the range to above it, tail anywhere from 1 to the head
		hd := uint64(1 + rng.Intn(int(min(to+5, top))))
		if rng.Bool() {
			hd = min(to-1+uint64(rng.Intn(5)), top)
		}
		tl := uint64(1 + rng.Intn(int(hd)))
		var fs []fault
		var ps []prune
		if p == sc.rel {
			hd = min(to-1+uint64(rng.Intn(5)), top)
			tl = uint64(1 + rng.Intn(int(from+1)))
		} else {
			for k := rng.Intn(3); k > 0; k-- {
				switch rng.Intn(3) {
				case 0:
					fs = append(fs, fault{})
				case 1:
					fs = append(fs, fault{"timeout", rng.Intn(64)})
				default:
					fs = append(fs, fault{"disconnect", rng.Intn(64)})
				}
			}
			if rng.Chance(40) && tl < hd {
				// pruned further while being asked
				ps = append(ps, prune{rng.Intn(3), tl + 1 + uint64(rng.Intn(int(hd-tl)))})
			}
		}
		sc.tails = append(sc.tails, tl)
		sc.heads = append(sc.heads, hd)
		sc.faults = append(sc.faults, fs)
		sc.prunes = append(sc.prunes, ps)
	}
	return sc
}

func TestC18Pruned(t *testing.T) {
	defer runtime.GOMAXPROCS(runtime.GOMAXPROCS(1))
	rng := emit.NewRand(emit.Seed() + 18)
	w := emit.NewWriter("Model.Verify Model.Session Oracle.C05 Oracle.C18", "case18t", "chk18t")
	w.PerShard(40)
	w.Rule = "GetRangeByHeight of the real p2p.Exchange against 1-4 real ExchangeServers over real stores holding tail..head of one chain, pruned with the real " +
		"DeleteRange before and while being asked (the store's own Tail()/Head() recorded at every answer), behind recording proxies that may cut an answer; " +
		"one fault-free peer holds the range; the world in which two peers only together hold the range. Case = (parameters, chain, (tail, head) per answer, log, result); " +
		"every logged answer must be a prefix of honest_answer_t for the recorded tail and head, the model replays the log, the result must be the exact range"
	reg := vhdr.NewRegistry()
	var drift time.Duration
	synctest.Test(t, func(t *testing.T) { drift = header.VerifClockDrift() })
	nlow := 140
	if emit.Thorough() {
		nlow = 64*3 + 40 // from <= 21, length <= 3*64: every random range lies inside the chain
	}
	low := &world{base: 0, chain: vhdr.Chain("a", 1, nlow, farPast, 10, nil)}

	var scs []tscenario
	// peers that only together hold the range: A holds 1..50, B holds 40..100 (pruned)
	for _, c := range []struct{ chunk, from, amount uint64 }{{16, 10, 80}, {7, 30, 40}, {64, 5, 94}, {1, 47, 6}, {10, 39, 20}} {
		for order := 0; order < 2; order++ {
			sc := tscenario{name: fmt.Sprintf("together-c%d-f%d-l%d-o%d", c.chunk, c.from, c.amount, order), family: "together", chunk: c.chunk,
				from: c.from, amount: c.amount, tails: []uint64{1, 40}, heads: []uint64{50, 100}, rel: 0}
			if order == 1 {
				sc.tails, sc.heads = []uint64{40, 1}, []uint64{100, 50}
			}
			scs = append(scs, sc)
		}
	}
	// fixed pruned worlds: the request starts at the tail, just below it, just above it; pruned while being asked
	for _, c := range []struct {
		chunk, from, amount uint64
		tails, heads        []uint64
		prunes              [][]prune
	}{
		{4, 9, 10, []uint64{10}, []uint64{30}, nil},
		{4, 9, 10, []uint64{11, 1}, []uint64{30, 30}, nil},
		{4, 9, 10, []uint64{9, 14}, []uint64{19, 30}, nil},
		{5, 3, 15, []uint64{1, 1}, []uint64{18, 18}, [][]prune{{{1, 9}}, nil}},
		{3, 20, 9, []uint64{15, 2}, []uint64{40, 29}, [][]prune{{{0, 25}}, nil}},
		{64, 2, 100, []uint64{3, 50}, []uint64{120, 120}, nil},
	} {
		scs = append(scs, tscenario{name: fmt.Sprintf("fixed-c%d-f%d-l%d-t%v", c.chunk, c.from, c.amount, c.tails), family: "pruned", chunk: c.chunk,
			from: c.from, amount: c.amount, tails: c.tails, heads: c.heads, prunes: c.prunes, rel: len(c.tails) - 1})
	}
	n := 60
	maxChunk := 24
	if emit.Thorough() {
		n = 1200
		maxChunk = 64
	}
	for i := 0; i < n; i++ {
		scs = append(scs, randomPruned(rng, i, maxChunk, uint64(len(low.chain))))
	}
	for _, sc := range scs {
		runRangeT(t, w, reg, low, sc, drift)
	}
	// heights just below 2^64: the chain 2^64-259 .. 2^64-2; ranges that end with to = 2^64-1 (the largest `to`: the
	// last header that a range request can fetch is 2^64-2, an honest server resets a request whose origin+amount wraps);
	// a slice of the chunk x length sweep, 1-2 servers (the second one pruned, holding the upper part only)
	const maxU = ^uint64(0)
	high := &world{base: maxU - 259, chain: vhdr.Chain("a", maxU-258, 258, farPast, 10, nil)}
	var hs []tscenario
	chunks := []uint64{1, 2, 5, 16, 64}
	if emit.Thorough() {
		chunks = []uint64{1, 2, 3, 4, 5, 7, 8, 16, 31, 32, 63, 64}
	}
	for ci, chunk := range chunks {
		seen := map[uint64]bool{}
		for li, l := range []uint64{1, chunk - 1, chunk, chunk + 1, 2 * chunk, 2*chunk + 1, 3 * chunk} {
			if l == 0 || l > 250 || seen[l] {
				continue
			}
			seen[l] = true
			to := maxU
			if (ci+li)%4 == 3 {
				to = maxU - 1 - uint64(li)
			}
			from := to - 1 - l
			// the stores end at 2^64-2, the last header of the largest range (a real store that is given the header of
			// height 2^64-1 never finishes advancing its head: Height()+1 wraps to 0 - outside this property)
			head := maxU - 1
			sc := tscenario{name: fmt.Sprintf("nearmax-c%d-l%d-to-%d", chunk, l, maxU-to), family: "nearmax", chunk: chunk, from: from, amount: l,
				tails: []uint64{high.base + 1}, heads: []uint64{head}, rel: 0}
			if (ci+li)%3 == 0 {
				// a second, pruned server that holds only the upper half of the range; it is asked first or second
				sc.tails = append(sc.tails, from+1+l/2)
				sc.heads = append(sc.heads, maxU-1)
			}
			hs = append(hs, sc)
		}
	}
	for _, sc := range hs {
		runRangeT(t, w, reg, high, sc, drift)
	}
	// the liveness limit, observed: the sole capable peer times out ONCE (no frame within RequestTimeout). The session
	// drops it for the rest of the call (only a NOT_FOUND answer returns a peer to the queue): the model says the call
	// waits for the caller's context, and so does the real Exchange. k = the attempt that times out; the other peers
	// (if any) hold nothing of what is still missing and answer NOT_FOUND for ever.
	to0 := []fault{{"timeout", 0}}
	to1 := []fault{{}, {"timeout", 0}}
	for _, c := range []struct {
		name                string
		chunk, from, amount uint64
		tails, heads        []uint64
		faults              [][]fault
		dl                  time.Duration
	}{
		{"one-peer-1chunk", 8, 5, 8, []uint64{1}, []uint64{40}, [][]fault{to0}, 10 * time.Minute},
		{"one-peer-3chunks", 4, 5, 12, []uint64{1}, []uint64{40}, [][]fault{to0}, 10 * time.Minute},
		{"one-peer-2nd-request", 4, 5, 12, []uint64{1}, []uint64{40}, [][]fault{to1}, 10 * time.Minute},
		{"one-pruned-peer", 5, 20, 11, []uint64{15}, []uint64{60}, [][]fault{to0}, 10 * time.Minute},
		{"other-lacks-range", 6, 9, 6, []uint64{1, 1}, []uint64{40, 7}, [][]fault{to0, nil}, 3 * time.Minute},
		{"other-holds-prefix", 3, 9, 9, []uint64{1, 1}, []uint64{40, 13}, [][]fault{to0, nil}, 3 * time.Minute},
		{"other-pruned-above", 3, 9, 9, []uint64{1, 14}, []uint64{40, 40}, [][]fault{to0, nil}, 3 * time.Minute},
	} {
		runRangeT(t, w, reg, low, tscenario{name: "sole-timeout-" + c.name, family: "sole-timeout", chunk: c.chunk, from: c.from, amount: c.amount,
			tails: c.tails, heads: c.heads, faults: c.faults, rel: 0, deadline: c.dl}, drift)
	}
	if err := w.Flush(); err != nil {
		t.Fatal(err)
	}
	t.Logf("emitted %d cases", w.Len())
}
