//go:build verif

package storeh

import (
	"context"
	"fmt"
	"sort"
	"sync"
	"testing"
	"testing/synctest"
	"time"

	"github.com/celestiaorg/go-header/store"

	"verifharness/emit"
	"verifharness/vhdr"
)

// RunPar: heights 1..k flushed, tail-side DeleteRange(1, to) on the PARALLEL deletion path
// (threshold lowered through the verif hook) with a scripted handler failure, then the retry
// from the new tail without failures. Returns a Coq [pcase] term.
func RunPar(t *testing.T, rng *emit.Rand, cfg Config, k, to uint64, fails ...Fail) (string, map[string]any) {
	var term string
	descr := map[string]any{}
	old := store.VerifSetDeleteRangeParallelThreshold(2)
	defer store.VerifSetDeleteRangeParallelThreshold(old)
	synctest.Test(t, func(t *testing.T) {
		r := &runner{t: t, cfg: cfg, rng: rng, reg: vhdr.NewRegistry()}
		r.rec = NewRecDS()
		r.ds = r.rec
		r.chain = vhdr.Chain("a", 1, cfg.U, time.Now().UnixNano(), 1000, nil)
		chainTerms := make([]string, len(r.chain))
		for i, h := range r.chain {
			chainTerms[i] = r.reg.Term(h)
		}
		ctx := context.Background()
		var mu sync.Mutex
		r.logMu = &mu
		r.newStore()
		if err := r.s.Start(ctx); err != nil {
			t.Fatal(err)
		}
		_ = r.s.Append(ctx, r.chain[:k]...)
		_ = r.s.Sync(ctx)
		quiesce()
		step := func(from uint64, fails []Fail) (string, string, string) {
			r.log = nil
			r.fails = fails
			out := "OOk"
			func() {
				defer func() {
					if p := recover(); p != nil {
						out = "OPanic"
					}
				}()
				c2, cancel := context.WithTimeout(ctx, time.Hour)
				defer cancel()
				if err := r.s.DeleteRange(c2, from, to); err != nil {
					out = "OFail"
				}
			}()
			quiesce()
			lg := append([]string(nil), r.log...)
			sort.Strings(lg)
			p := r.probe()
			return out, emit.List(lg), "(" + p[len("(Some "):]
		}
		o1, l1, p1 := step(1, fails)
		var from2 uint64 = 1
		if h, err := r.s.Tail(ctx); err == nil {
			from2 = h.Height()
		}
		o2, l2, p2 := step(from2, nil)
		_ = r.s.Stop(ctx)
		fl := make([]string, len(fails))
		for i, f := range fails {
			fl[i] = fmt.Sprintf("(%d%%nat, %d, %s)", f.Handler, f.Height, emit.B(f.Panic))
		}
		term = fmt.Sprintf("CPar (PCase %s %d %d%%nat 1 %d %s %s %s %s %s %s %s)", emit.List(chainTerms), k, cfg.NH, to, emit.List(fl), o1, l1, p1, o2, l2, p2)
		fail := fails
		descr["mode"], descr["k"], descr["to"], descr["fail"], descr["handlers"], descr["out1"], descr["out2"] = "parallel", k, to, fail, cfg.NH, o1, o2
	})
	return term, descr
}
