//go:build verif

package storeh

import "verifharness/emit"

type Weights struct {
	Append, Delete, Restart int
	InvalidDelete           int // percent of deletes that are arbitrary ranges
	FailPct                 int // percent of deletes with a scripted handler failure
}

// RandomGen produces structured, mostly valid histories.
func RandomGen(rng *emit.Rand, cfg Config, w Weights) Gen {
	U := uint64(cfg.U)
	return func(step int, tail, head uint64) (Op, bool) {
		tot := w.Append + w.Delete + w.Restart
		x := rng.Intn(tot)
		if head == 0 && x >= w.Append && rng.Chance(70) {
			x = 0 // mostly append on an empty store
		}
		switch {
		case x < w.Append:
			n := 1 + rng.Intn(6)
			var hs []uint64
			start := uint64(1 + rng.Intn(int(U)))
			switch rng.Intn(10) {
			case 0, 1, 2, 3, 4: // continue the chain at the head
				if head != 0 && head < U {
					start = head + 1
				}
			case 5: // extend below the tail
				if tail > 1 {
					if uint64(n) >= tail {
						n = int(tail - 1)
					}
					start = tail - uint64(n)
				}
			case 6: // leave a gap above the head
				if head != 0 && head+2 <= U {
					start = head + 2 + uint64(rng.Intn(2))
				}
			}
			if start > U {
				start = U
			}
			for i := 0; i < n && start+uint64(i) <= U; i++ {
				hs = append(hs, start+uint64(i))
			}
			if len(hs) == 0 {
				hs = []uint64{start}
			}
			switch rng.Intn(8) {
			case 0: // out of order
				for i := len(hs) - 1; i > 0; i-- {
					j := rng.Intn(i + 1)
					hs[i], hs[j] = hs[j], hs[i]
				}
			case 1: // with a hole
				if len(hs) > 2 {
					k := 1 + rng.Intn(len(hs)-2)
					hs = append(hs[:k], hs[k+1:]...)
				}
			case 2: // with a repeat
				hs = append(hs, hs[rng.Intn(len(hs))])
			}
			return Op{Kind: Append, Heights: hs}, true
		case x < w.Append+w.Delete:
			var from, to uint64
			if head == 0 || rng.Chance(w.InvalidDelete) {
				from = uint64(rng.Intn(int(U) + 2))
				to = uint64(rng.Intn(int(U) + 3))
			} else {
				switch rng.Intn(7) {
				case 0, 1, 2: // tail side
					from = tail
					to = tail + 1 + uint64(rng.Intn(int(head-tail)+1))
				case 3, 4: // head side
					to = head + 1
					from = head - uint64(rng.Intn(int(head-tail)+1))
				case 5: // whole
					from, to = tail, head+1
				default: // middle / beyond
					from = tail + uint64(rng.Intn(int(head-tail)+2))
					to = from + 1 + uint64(rng.Intn(4))
				}
			}
			op := Op{Kind: Delete, From: from, To: to}
			if cfg.NH > 0 && rng.Chance(w.FailPct) && to > from {
				nf := 1 + rng.Intn(2)
				for i := 0; i < nf; i++ {
					op.Fails = append(op.Fails, Fail{Handler: rng.Intn(cfg.NH), Height: from + uint64(rng.Intn(int(to-from))), Panic: rng.Chance(30)})
				}
			}
			return op, true
		default:
			switch rng.Intn(5) {
			case 0, 1:
				return Op{Kind: Restart}, true
			case 2:
				op := Op{Kind: StopSync}
				if head != 0 && head < U {
					op.Heights = []uint64{head + 1}
					if head+2 <= U && rng.Bool() {
						op.Heights = append(op.Heights, head+2)
					}
				}
				return op, true
			}
			return Op{Kind: Reopen}, true
		}
	}
}

// Scripted replays a fixed list of operations.
func Scripted(ops []Op) Gen {
	return func(step int, tail, head uint64) (Op, bool) {
		if step >= len(ops) {
			return Op{}, false
		}
		return ops[step], true
	}
}

func A(hs ...uint64) Op     { return Op{Kind: Append, Heights: hs} }
func D(from, to uint64) Op  { return Op{Kind: Delete, From: from, To: to} }
func R() Op                 { return Op{Kind: Restart} }
func O() Op                 { return Op{Kind: Reopen} }

// CorpusCase is a minimised past failure (or a hand-written edge case); the corpus runs first, forever.
type CorpusCase struct {
	Name  string
	Batch int
	Ops   []Op
}

// Corpus: witnesses of the defects repaired by fix: commits (known_findings.json, status fixed).
var Corpus = []CorpusCase{
	{"F1-delete-unflushed", 64, []Op{A(1, 2, 3, 4, 5, 6, 7, 8, 9, 10), D(1, 5), A(11, 12), O(), D(11, 13)}},
	{"F2-wipe", 4, []Op{A(1, 2, 3, 4, 5, 6, 7, 8, 9, 10), D(1, 11), A(11, 12, 13), O()}},
	{"F2-wipe-unflushed", 64, []Op{A(1, 2, 3, 4, 5, 6, 7, 8, 9, 10), D(1, 11), A(11, 12, 13), R()}},
	{"F3-first-batch-gap", 64, []Op{A(5, 7), A(6), A(8)}},
	{"F3-first-batch-unordered", 2, []Op{A(5, 3), A(4), A(6)}},
	{"F4-height-after-head-delete", 3, []Op{A(1, 2, 3, 4, 5, 6, 7, 8, 9, 10), D(6, 11), A(6)}},
	{"F13-wipe-island-stop", 64, []Op{A(1, 2, 3), A(7), D(1, 4), R(), A(8)}},
	{"F14-head-delete-stale-tail-key", 2, []Op{A(5, 6), A(2, 3), A(4), D(4, 7), O()}},
	{"F14-tail-delete-stale-head-key", 2, []Op{A(1, 2), A(4, 5), A(3), D(1, 4), O()}},
	{"F11-head-delete-crash", 4, []Op{A(1, 2, 3, 4, 5, 6, 7, 8, 9, 10), D(5, 11)}},
	{"F15-stop-right-after-append", 64, []Op{A(1), A(2, 3, 4, 5, 6, 7, 8, 9, 10), O(), A(11)}},
	{"F18-delete-persists-pointers-over-unflushed-headers", 3, []Op{A(1, 2, 3), A(6, 7, 8), A(4), A(5), D(1, 2)}},
}
