//go:build verif

package storeh

import (
	"fmt"
	"testing"

	"verifharness/emit"
)

type Weights struct {
	Append, Delete, Restart int
	InvalidDelete           int // percent of deletes that are arbitrary ranges
	FailPct                 int // percent of deletes with a scripted handler failure
}

// RandomGen produces structured, mostly valid histories.
func RandomGen(rng *emit.Rand, cfg Config, w Weights) Gen {
	U := uint64(cfg.U)
	return func(step int, tail, head uint64) (Op, bool) {
		tot := w.Append + w.Delete + w.Restart
		x := rng.Intn(tot)
		if head == 0 && x >= w.Append && rng.Chance(70) {
			x = 0 // mostly append on an empty store
		}
		switch {
		case x < w.Append:
			n := 1 + rng.Intn(6)
			var hs []uint64
			start := uint64(1 + rng.Intn(int(U)))
			switch rng.Intn(10) {
			case 0, 1, 2, 3, 4: // continue the chain at the head
				if head != 0 && head < U {
					start = head + 1
				}
			case 5: // extend below the tail
				if tail > 1 {
					if uint64(n) >= tail {
						n = int(tail - 1)
					}
					start = tail - uint64(n)
				}
			case 6: // leave a gap above the head
				if head != 0 && head+2 <= U {
					start = head + 2 + uint64(rng.Intn(2))
				}
			}
			if start > U {
				start = U
			}
			for i := 0; i < n && start+uint64(i) <= U; i++ {
				hs = append(hs, start+uint64(i))
			}
			if len(hs) == 0 {
				hs = []uint64{start}
			}
			switch rng.Intn(8) {
			case 0: // out of order
				for i := len(hs) - 1; i > 0; i-- {
					j := rng.Intn(i + 1)
					hs[i], hs[j] = hs[j], hs[i]
				}
			case 1: // with a hole
				if len(hs) > 2 {
					k := 1 + rng.Intn(len(hs)-2)
					hs = append(hs[:k], hs[k+1:]...)
				}
			case 2: // with a repeat
				hs = append(hs, hs[rng.Intn(len(hs))])
			}
			return Op{Kind: Append, Heights: hs}, true
		case x < w.Append+w.Delete:
			var from, to uint64
			if head == 0 || rng.Chance(w.InvalidDelete) {
				from = uint64(rng.Intn(int(U) + 2))
				to = uint64(rng.Intn(int(U) + 3))
			} else {
				switch rng.Intn(7) {
				case 0, 1, 2: // tail side
					from = tail
					to = tail + 1 + uint64(rng.Intn(int(head-tail)+1))
				case 3, 4: // head side
					to = head + 1
					from = head - uint64(rng.Intn(int(head-tail)+1))
				case 5: // whole
					from, to = tail, head+1
				default: // middle / beyond
					from = tail + uint64(rng.Intn(int(head-tail)+2))
					to = from + 1 + uint64(rng.Intn(4))
				}
			}
			op := Op{Kind: Delete, From: from, To: to}
			if cfg.NH > 0 && rng.Chance(w.FailPct) && to > from {
				nf := 1 + rng.Intn(2)
				for i := 0; i < nf; i++ {
					op.Fails = append(op.Fails, Fail{Handler: rng.Intn(cfg.NH), Height: from + uint64(rng.Intn(int(to-from))), Panic: rng.Chance(30)})
				}
			}
			return op, true
		default:
			switch rng.Intn(5) {
			case 0, 1:
				return Op{Kind: Restart}, true
			case 2:
				op := Op{Kind: StopSync}
				if head != 0 && head < U {
					op.Heights = []uint64{head + 1}
					if head+2 <= U && rng.Bool() {
						op.Heights = append(op.Heights, head+2)
					}
				}
				return op, true
			}
			return Op{Kind: Reopen}, true
		}
	}
}

// Scripted replays a fixed list of operations.
func Scripted(ops []Op) Gen {
	return func(step int, tail, head uint64) (Op, bool) {
		if step >= len(ops) {
			return Op{}, false
		}
		return ops[step], true
	}
}

func A(hs ...uint64) Op    { return Op{Kind: Append, Heights: hs} }
func D(from, to uint64) Op { return Op{Kind: Delete, From: from, To: to} }
func R() Op                { return Op{Kind: Restart} }

// DW is a DeleteRange during which the write attempts with the given indices (counted from the start of the call) fail.
func DW(from, to uint64, wfails ...int) Op {
	return Op{Kind: Delete, From: from, To: to, WFails: wfails}
}

// Retry is the retry of the tail-side / whole-store deletion before it: Run replaces From by the current Tail when that lies inside the range.
func Retry(from, to uint64) Op { return Op{Kind: Delete, From: from, To: to, Retry: true} }
func O() Op                    { return Op{Kind: Reopen} }

// CorpusCase is a minimised past failure (or a hand-written edge case); the corpus runs first, forever.
type CorpusCase struct {
	Name  string
	Batch int
	Ops   []Op
}

// Faulty: the history has a DeleteRange with failing datastore writes (rendered as an [fcase]: Result.FaultTerm).
func (c CorpusCase) Faulty() bool {
	for _, o := range c.Ops {
		if len(o.WFails) > 0 {
			return true
		}
	}
	return false
}

// Corpus: witnesses of the defects repaired by fix: commits (known_findings.json, status fixed).
var Corpus = []CorpusCase{
	{"F1-delete-unflushed", 64, []Op{A(1, 2, 3, 4, 5, 6, 7, 8, 9, 10), D(1, 5), A(11, 12), O(), D(11, 13)}},
	{"F2-wipe", 4, []Op{A(1, 2, 3, 4, 5, 6, 7, 8, 9, 10), D(1, 11), A(11, 12, 13), O()}},
	{"F2-wipe-unflushed", 64, []Op{A(1, 2, 3, 4, 5, 6, 7, 8, 9, 10), D(1, 11), A(11, 12, 13), R()}},
	{"F3-first-batch-gap", 64, []Op{A(5, 7), A(6), A(8)}},
	{"F3-first-batch-unordered", 2, []Op{A(5, 3), A(4), A(6)}},
	{"F4-height-after-head-delete", 3, []Op{A(1, 2, 3, 4, 5, 6, 7, 8, 9, 10), D(6, 11), A(6)}},
	{"F13-wipe-island-stop", 64, []Op{A(1, 2, 3), A(7), D(1, 4), R(), A(8)}},
	{"F14-head-delete-stale-tail-key", 2, []Op{A(5, 6), A(2, 3), A(4), D(4, 7), O()}},
	{"F14-tail-delete-stale-head-key", 2, []Op{A(1, 2), A(4, 5), A(3), D(1, 4), O()}},
	{"F11-head-delete-crash", 4, []Op{A(1, 2, 3, 4, 5, 6, 7, 8, 9, 10), D(5, 11)}},
	{"F15-stop-right-after-append", 64, []Op{A(1), A(2, 3, 4, 5, 6, 7, 8, 9, 10), O(), A(11)}},
	{"F18-delete-persists-pointers-over-unflushed-headers", 3, []Op{A(1, 2, 3), A(6, 7, 8), A(4), A(5), D(1, 2)}},
	// F29: the header and its height index were deleted by two separate writes; the second one failing left a header
	// that is gone by hash and still indexed: the tail (head) stayed at a deleted header
	{"F29-tail-delete-second-write-fails", 4, []Op{A(1, 2, 3, 4, 5, 6, 7, 8, 9, 10), DW(1, 6, 3), Retry(1, 6), A(11), O()}},
	{"F29-head-delete-second-write-fails", 4, []Op{A(1, 2, 3, 4, 5, 6, 7, 8, 9, 10), DW(6, 11, 2), A(6, 7), O()}},
	// F33 (open): a failing write of a pointer key inside DeleteRange, then a clean restart (nothing pending): the stale persisted pointer wins
	{"F33-tail-key-write-fails-then-restart", 4, []Op{A(1, 2, 3, 4, 5, 6, 7, 8, 9, 10), DW(1, 6, 5)}},
	{"F33-head-key-restore-fails-then-restart", 1, []Op{A(5, 6), {Kind: Delete, From: 6, To: 7, WFails: []int{1}, Fails: []Fail{{Handler: 0, Height: 6}}}}},
}

// FaultCases runs the "failing writes inside DeleteRange" dimension and hands every history to add:
// the faulty corpus; every single-failure placement for stores of 10 headers (given batch sizes: 4 = everything
// flushed, 64 = everything pending, so that Sync's commit is the first attempt), tail side / head side / whole
// store, both datastore flavours, followed by the retry, a continuation append and a reopen; and nrand random
// histories ending in a deletion with 1..3 random failing attempts (sometimes together with a failing handler),
// its retry and a random continuation.
func FaultCases(t *testing.T, rng *emit.Rand, batches, nhs []int, nrand int, add func(res Result, class string)) {
	// nh = 0: no OnDelete handler reads the header right before it is deleted, so the header cache does not
	// hold (and mask the absence of) a header whose datastore entry is gone
	base := func(batch, nh int, ctxds bool) Config {
		return Config{Batch: batch, Cache: []int{4, 512}[rng.Intn(2)], ICache: []int{4, 2048}[rng.Intn(2)], U: 16, NH: nh, ProbeEvery: true, Ranges: 1, CtxDS: ctxds}
	}
	for _, cc := range Corpus {
		if !cc.Faulty() {
			continue
		}
		for _, nh := range []int{0, 1} {
			if nh == 0 && len(cc.Ops[len(cc.Ops)-1].Fails) > 0 {
				continue // the witness scripts a handler failure
			}
			res := Run(t, rng, base(cc.Batch, nh, false), len(cc.Ops), Scripted(cc.Ops))
			add(res, fmt.Sprintf("corpus/%s/%d", cc.Name, nh))
		}
	}
	all := []uint64{1, 2, 3, 4, 5, 6, 7, 8, 9, 10}
	for _, ctxds := range []bool{false, true} {
		for _, batch := range batches {
			for _, nh := range nhs {
				for _, rg := range [][2]uint64{{1, 6}, {6, 11}, {1, 11}} {
					for i := 0; i < 40; i++ {
						ops := []Op{A(all...), DW(rg[0], rg[1], i)}
						if rg[0] == 1 {
							ops = append(ops, Retry(rg[0], rg[1]))
						}
						ops = append(ops, A(11, 12), O())
						res := Run(t, rng, base(batch, nh, ctxds), len(ops), Scripted(ops))
						if res.WFailed == 0 {
							break // the call made fewer than i+1 write attempts
						}
						add(res, fmt.Sprintf("single/%v/%d/%d/%d-%d/%d", ctxds, batch, nh, rg[0], rg[1], i))
					}
				}
			}
		}
	}
	for k := 0; k < nrand; k++ {
		cfg := Config{Batch: []int{1, 2, 3, 5, 64}[rng.Intn(5)], Cache: []int{4, 8, 512}[rng.Intn(3)], ICache: []int{4, 2048}[rng.Intn(2)],
			U: 16, NH: rng.Intn(3), ProbeEvery: true, Ranges: 1, CtxDS: rng.Bool()}
		pre := 1 + rng.Intn(6)
		prefix := RandomGen(rng, cfg, Weights{Append: 70, Delete: 18, Restart: 12, InvalidDelete: 10})
		rest := RandomGen(rng, cfg, Weights{Append: 60, Delete: 20, Restart: 20, InvalidDelete: 10})
		var from, to uint64
		tailSide := false
		gen := func(step int, tail, head uint64) (Op, bool) {
			switch {
			case step < pre || head == 0 && step <= pre+2:
				if head == 0 {
					return A(1, 2, 3, 4, 5, 6), true
				}
				return prefix(step, tail, head)
			case to == 0:
				switch rng.Intn(8) {
				case 0, 1, 2:
					from, to = tail, tail+1+uint64(rng.Intn(int(head-tail)+1))
				case 3, 4:
					from, to = head-uint64(rng.Intn(int(head-tail)+1)), head+1
				case 5, 6:
					from, to = tail, head+1
				default:
					from, to = uint64(rng.Intn(int(head)+2)), 1+uint64(rng.Intn(int(head)+2))
				}
				tailSide = from == tail && to > from
				op := DW(from, to, rng.Intn(6))
				for rng.Chance(35) && len(op.WFails) < 3 {
					op.WFails = append(op.WFails, rng.Intn(10))
				}
				if cfg.NH > 0 && to > from && rng.Chance(25) {
					op.Fails = []Fail{{Handler: rng.Intn(cfg.NH), Height: from + uint64(rng.Intn(int(to-from))), Panic: rng.Chance(30)}}
				}
				return op, true
			case tailSide:
				tailSide = false
				return Retry(from, to), true
			default:
				return rest(step, tail, head)
			}
		}
		res := Run(t, rng, cfg, pre+3+rng.Intn(4), gen)
		add(res, "rand/")
	}
}
