//go:build verif

package storeh

import (
	"context"
	"strings"
	"sync"

	"github.com/ipfs/go-datastore"
	"github.com/ipfs/go-datastore/query"
)

// WOp is one write inside a log entry.
type WOp struct {
	Del   bool
	Key   string
	Value []byte
}

// RecDS is a recording, fault-injecting in-memory datastore: every direct
// Put/Delete and every batch Commit is one atomic entry of Log.
type RecDS struct {
	mu    sync.Mutex
	inner *datastore.MapDatastore
	Log   [][]WOp
	// FailWrites: write attempts (direct or commit) with index in [FailFrom, FailFrom+FailN) fail
	FailFrom, FailN int
	// FailAt: write attempts (direct or commit) with these absolute indices fail as well
	FailAt   map[int]bool
	attempts int
	Failed   int
	// FailHdrFrom/FailHdrN: commits that carry header puts (flushes) with index in
	// [FailHdrFrom, FailHdrFrom+FailHdrN) fail (transient datastore write failures)
	FailHdrFrom, FailHdrN int
	hdrCommits            int
	// OnGet, when set, is called (without the lock held) before a Get returns; it may block.
	OnGet func(key string, found bool)
	// OnCommit, when set, is called before a batch commit is applied; it may block.
	OnCommit func()
	// OnWrite, when set, is called (without the lock held) before any write is applied; it may block.
	OnWrite func()
}

var ErrInjected = errInjected{}

type errInjected struct{}

func (errInjected) Error() string { return "injected datastore write failure" }

func NewRecDS() *RecDS {
	return &RecDS{inner: datastore.NewMapDatastore(), FailFrom: -1, FailHdrFrom: -1}
}

// Rebuild returns a fresh datastore holding the first k log entries.
func (d *RecDS) Rebuild(k int) *RecDS {
	n := NewRecDS()
	ctx := context.Background()
	for _, e := range d.Log[:k] {
		for _, w := range e {
			if w.Del {
				_ = n.inner.Delete(ctx, datastore.NewKey(w.Key))
			} else {
				_ = n.inner.Put(ctx, datastore.NewKey(w.Key), w.Value)
			}
		}
	}
	return n
}

func (d *RecDS) attempt() error {
	i := d.attempts
	d.attempts++
	if (d.FailFrom >= 0 && i >= d.FailFrom && i < d.FailFrom+d.FailN) || d.FailAt[i] {
		d.Failed++
		return ErrInjected
	}
	return nil
}

func (d *RecDS) apply(ops []WOp) error {
	if hook := d.OnWrite; hook != nil {
		hook()
	}
	d.mu.Lock()
	defer d.mu.Unlock()
	if err := d.attempt(); err != nil {
		return err
	}
	if d.FailHdrFrom >= 0 && len(ops) > 1 {
		flush := false
		for _, w := range ops {
			if !w.Del && !strings.HasSuffix(w.Key, "/head") && !strings.HasSuffix(w.Key, "/tail") {
				flush = true
			}
		}
		if flush {
			i := d.hdrCommits
			d.hdrCommits++
			if i >= d.FailHdrFrom && i < d.FailHdrFrom+d.FailHdrN {
				d.Failed++
				return ErrInjected
			}
		}
	}
	ctx := context.Background()
	for _, w := range ops {
		if w.Del {
			_ = d.inner.Delete(ctx, datastore.NewKey(w.Key))
		} else {
			_ = d.inner.Put(ctx, datastore.NewKey(w.Key), w.Value)
		}
	}
	d.Log = append(d.Log, ops)
	return nil
}

func (d *RecDS) Get(ctx context.Context, key datastore.Key) ([]byte, error) {
	d.mu.Lock()
	v, err := d.inner.Get(ctx, key)
	hook := d.OnGet
	d.mu.Unlock()
	if hook != nil {
		hook(key.String(), err == nil)
	}
	return v, err
}
func (d *RecDS) Has(ctx context.Context, key datastore.Key) (bool, error) {
	d.mu.Lock()
	defer d.mu.Unlock()
	return d.inner.Has(ctx, key)
}
func (d *RecDS) GetSize(ctx context.Context, key datastore.Key) (int, error) {
	d.mu.Lock()
	defer d.mu.Unlock()
	return d.inner.GetSize(ctx, key)
}
func (d *RecDS) Query(ctx context.Context, q query.Query) (query.Results, error) {
	d.mu.Lock()
	defer d.mu.Unlock()
	return d.inner.Query(ctx, q)
}
func (d *RecDS) Put(ctx context.Context, key datastore.Key, value []byte) error {
	return d.apply([]WOp{{Key: key.String(), Value: append([]byte(nil), value...)}})
}
func (d *RecDS) Delete(ctx context.Context, key datastore.Key) error {
	return d.apply([]WOp{{Del: true, Key: key.String()}})
}
func (d *RecDS) Sync(ctx context.Context, prefix datastore.Key) error { return nil }
func (d *RecDS) Close() error                                         { return nil }
func (d *RecDS) Batch(ctx context.Context) (datastore.Batch, error)   { return &recBatch{d: d}, nil }

type recBatch struct {
	d   *RecDS
	ops []WOp
}

func (b *recBatch) Put(ctx context.Context, key datastore.Key, value []byte) error {
	b.ops = append(b.ops, WOp{Key: key.String(), Value: append([]byte(nil), value...)})
	return nil
}
func (b *recBatch) Delete(ctx context.Context, key datastore.Key) error {
	b.ops = append(b.ops, WOp{Del: true, Key: key.String()})
	return nil
}
func (b *recBatch) Commit(ctx context.Context) error {
	if len(b.ops) == 0 {
		return nil
	}
	ops := b.ops
	if hook := b.d.OnCommit; hook != nil {
		hook()
	}
	if err := b.d.apply(ops); err != nil {
		return err
	}
	b.ops = nil
	return nil
}

var _ datastore.Batching = (*RecDS)(nil)

// NewTransaction provides read-only snapshot transactions (datastore.TxnFeature), as the
// context-aware flavour of the Store uses them to couple related reads.
func (d *RecDS) NewTransaction(ctx context.Context, readOnly bool) (datastore.Txn, error) {
	if !readOnly {
		return nil, datastore.ErrBatchUnsupported
	}
	d.mu.Lock()
	defer d.mu.Unlock()
	res, err := d.inner.Query(ctx, query.Query{})
	if err != nil {
		return nil, err
	}
	es, err := res.Rest()
	if err != nil {
		return nil, err
	}
	snap := datastore.NewMapDatastore()
	for _, e := range es {
		_ = snap.Put(ctx, datastore.NewKey(e.Key), e.Value)
	}
	return &recTxn{snap: snap, d: d}, nil
}

type recTxn struct {
	snap *datastore.MapDatastore
	d    *RecDS
}

func (t *recTxn) Get(ctx context.Context, key datastore.Key) ([]byte, error) {
	v, err := t.snap.Get(ctx, key)
	if hook := t.d.OnGet; hook != nil {
		hook(key.String(), err == nil)
	}
	return v, err
}
func (t *recTxn) Has(ctx context.Context, key datastore.Key) (bool, error) {
	return t.snap.Has(ctx, key)
}
func (t *recTxn) GetSize(ctx context.Context, key datastore.Key) (int, error) {
	return t.snap.GetSize(ctx, key)
}
func (t *recTxn) Query(ctx context.Context, q query.Query) (query.Results, error) {
	return t.snap.Query(ctx, q)
}
func (t *recTxn) Put(ctx context.Context, key datastore.Key, value []byte) error {
	return datastore.ErrBatchUnsupported
}
func (t *recTxn) Delete(ctx context.Context, key datastore.Key) error {
	return datastore.ErrBatchUnsupported
}
func (t *recTxn) Commit(ctx context.Context) error { return nil }
func (t *recTxn) Discard(ctx context.Context)      {}

var _ datastore.TxnFeature = (*RecDS)(nil)

// FailRelative makes the write attempts with the given indices, counted from now on, fail
// (nil: no scripted failures); it returns the current attempt counter.
func (d *RecDS) FailRelative(rel []int) int {
	d.mu.Lock()
	defer d.mu.Unlock()
	d.FailAt = nil
	if len(rel) > 0 {
		d.FailAt = map[int]bool{}
		for _, i := range rel {
			d.FailAt[d.attempts+i] = true
		}
	}
	return d.attempts
}

// Attempts returns the number of write attempts seen so far.
func (d *RecDS) Attempts() int {
	d.mu.Lock()
	defer d.mu.Unlock()
	return d.attempts
}

// HdrCommits returns the number of flush commits (commits carrying header puts) attempted so far:
// FailHdrFrom is an index into that sequence.
func (d *RecDS) HdrCommits() int {
	d.mu.Lock()
	defer d.mu.Unlock()
	return d.hdrCommits
}
