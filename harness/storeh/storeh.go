//go:build verif

// Package storeh runs operation histories against the real store.Store and
// renders the observations as Coq [scase] terms (Oracle/StoreCase.v).
package storeh

import (
	"context"
	"encoding/hex"
	"encoding/json"
	"errors"
	"fmt"
	"sort"
	"strconv"
	"strings"
	"sync"
	"testing"
	"testing/synctest"
	"time"

	"github.com/ipfs/go-datastore"
	contextds "github.com/ipfs/go-datastore/context"
	"github.com/ipfs/go-datastore/query"

	header "github.com/celestiaorg/go-header"
	"github.com/celestiaorg/go-header/store"

	"verifharness/emit"
	"verifharness/vhdr"
)

type OpKind int

const (
	Append OpKind = iota
	Delete
	Restart
	Reopen
	StopSync // Stop racing with a concurrent Sync, then Start (model: Restart)
)

type Fail struct {
	Handler int
	Height  uint64
	Panic   bool
}

type Op struct {
	Kind     OpKind
	Heights  []uint64 // Append
	From, To uint64   // Delete
	Fails    []Fail
	During   []uint64 // Delete: headers outside the range that handler 0 appended and synced in the middle of this deletion (recorded by Run; honoured when Config.Replay is set)
	Rushed   bool     // Append: the next operation followed immediately (recorded; honoured when Config.Replay is set)
	NoWait   bool     // Append: probed right after Sync without waiting for quiescence (recorded; honoured when Config.Replay is set)
	WFails   []int    // Delete: the datastore write attempts with these indices, counted from the start of this DeleteRange call, fail (only the first such operation of a history is rendered as the faulty call of an [fcase])
	Retry    bool     // Delete: the retry of the faulty tail-side / whole-store deletion right before it (oracle clause (c))
}

type Config struct {
	Batch, Cache, ICache  int
	U                     int  // universe: chain heights 1..U
	NH                    int  // registered OnDelete handlers
	Par                   bool // every DeleteRange of >= 2 headers takes the parallel path (only with NH == 0: same outcome as the sequential path)
	DuringPct             int  // percent of accepted deletions during which handler 0 appends (and syncs) stored headers outside the range
	ProbeEvery            bool
	Ranges                int  // random GetRange probes per probe
	Crash                 int  // number of write-log prefixes to reopen (0 = none, <0 = all)
	FailHdrFrom, FailHdrN int  // transient failures of flush commits (FailHdrN = 0: none)
	CtxDS                 bool // context-aware datastore flavour: write batches and read transactions via the context
	Replay                bool // re-run of a recorded script: the runner's own random choices (append+flush inside a deletion, rushed appends) are taken from the ops
}

// Gen decides the next op given the current head/tail heights (0,0 = empty) and the step index.
type Gen func(step int, tail, head uint64) (Op, bool)

type Result struct {
	Term           string
	Descr          map[string]any
	Ops            int
	Deletes        int
	DelOK          int
	Restarts       int
	During         int // deletions with an append + flush in the middle
	Gapped         bool
	NonTriv        bool
	HandlerCalls   int
	CrashTerm      string // Coq [ccase] term (when cfg.Crash != 0)
	LogLen         int
	CrashPts       int
	Rushed         int // appends immediately followed by the next operation
	SyncProbes     int // probes taken right after Sync returned, without waiting for quiescence
	CommitFailures int
	FaultTerm      string // Coq [fcase] term (Oracle/StoreFault.v) when an operation had failing writes (Op.WFails); Term is empty then
	WAttempts      int    // write attempts of the faulty DeleteRange
	WFailed        int    // ... of which failed
}

type runner struct {
	t     *testing.T
	cfg   Config
	ds    datastore.Batching
	rec   *RecDS
	s     *store.Store[*vhdr.Header]
	chain []*vhdr.Header
	reg   *vhdr.Registry
	rng   *emit.Rand
	fails []Fail
	// during a deletion: headers outside the range that handler 0 appends again and syncs at its first call
	// (a flush of the write batch in the middle of DeleteRange); duringDone / duringErr report what happened
	during     []uint64
	duringDone bool
	duringErr  bool
	log        []string
	logMu      *sync.Mutex // set when handlers may run concurrently (parallel deletion)
}

func (r *runner) newStore() {
	s, err := store.NewStore[*vhdr.Header](r.ds,
		store.WithWriteBatchSize(r.cfg.Batch), store.WithStoreCacheSize(r.cfg.Cache), store.WithIndexCacheSize(r.cfg.ICache))
	if err != nil {
		r.t.Fatal(err)
	}
	for k := 0; k < r.cfg.NH; k++ {
		k := k
		s.OnDelete(func(ctx context.Context, height uint64) error {
			c2, cancel := context.WithTimeout(ctx, time.Second)
			h, err := s.GetByHeight(c2, height)
			cancel()
			readable := err == nil && h != nil && h.Height() == height
			if r.logMu != nil {
				r.logMu.Lock()
			}
			r.log = append(r.log, fmt.Sprintf("HObs %d%%nat %d %s", k, height, emit.B(readable)))
			fails := r.fails
			var during []uint64
			if k == 0 && !r.duringDone && len(r.during) > 0 {
				during, r.duringDone = r.during, true
			}
			if r.logMu != nil {
				r.logMu.Unlock()
			}
			if len(during) > 0 {
				hs := make([]*vhdr.Header, len(during))
				for j, n := range during {
					hs[j] = r.chain[n-1]
				}
				// not the handler's context: that one may carry DeleteRange's write batch
				if err := s.Append(context.Background(), hs...); err != nil {
					r.duringErr = true
				}
				if err := s.Sync(context.Background()); err != nil {
					r.duringErr = true
				}
			}
			for _, f := range fails {
				if f.Handler == k && f.Height == height {
					// what a handler fails WITH is its own business: also errors (and panic values) that
					// wrap the not-found sentinels the store uses internally
					switch kind := (uint64(k) + height) % 3; {
					case f.Panic && kind == 1:
						panic(fmt.Errorf("scripted handler panic: %w", datastore.ErrNotFound))
					case f.Panic:
						panic("scripted handler panic")
					case kind == 1:
						return fmt.Errorf("scripted handler error: aux data: %w", datastore.ErrNotFound)
					case kind == 2:
						return fmt.Errorf("scripted handler error: %w", header.ErrNotFound)
					}
					return errors.New("scripted handler error")
				}
			}
			return nil
		})
	}
	r.s = s
}

func (r *runner) lookup(n uint64) string {
	ctx, cancel := context.WithTimeout(context.Background(), time.Second)
	defer cancel()
	h, err := r.s.GetByHeight(ctx, n)
	return r.robs(h, err)
}

func (r *runner) robs(h *vhdr.Header, err error) string {
	switch {
	case err == nil && h != nil:
		return fmt.Sprintf("(RFound %d %d)", h.Height(), r.reg.ID(h.Hash()))
	case errors.Is(err, header.ErrNotFound):
		return "RNotFound"
	case errors.Is(err, context.DeadlineExceeded):
		return "RBlocks"
	default:
		return "RErr"
	}
}

func (r *runner) ptr(h *vhdr.Header, err error) string {
	if err != nil || h == nil {
		return "None"
	}
	return fmt.Sprintf("(Some (%d, %d))", h.Height(), r.reg.ID(h.Hash()))
}

func (r *runner) probe() string {
	ctx := context.Background()
	hd, herr := r.s.Head(ctx)
	tl, terr := r.s.Tail(ctx)
	var rows []string
	for n := uint64(0); n <= uint64(r.cfg.U)+2; n++ {
		gbh := r.lookup(n)
		get, has := "RNotFound", false
		if n >= 1 && n <= uint64(r.cfg.U) {
			hash := r.chain[n-1].Hash()
			c2, cancel := context.WithTimeout(ctx, time.Second)
			h, err := r.s.Get(c2, hash)
			cancel()
			get = r.robs(h, err)
			has, _ = r.s.Has(ctx, hash)
		}
		rows = append(rows, fmt.Sprintf("PRow %d %s %s %s %s", n, gbh, get, emit.B(has), emit.B(r.s.HasAt(ctx, n))))
	}
	var ranges []string
	for i := 0; i < r.cfg.Ranges; i++ {
		from := uint64(r.rng.Intn(r.cfg.U + 2))
		to := from + uint64(r.rng.Intn(6))
		if r.rng.Chance(10) {
			to = uint64(r.rng.Intn(r.cfg.U + 3))
		}
		c2, cancel := context.WithTimeout(ctx, time.Second)
		hs, err := r.s.GetRange(c2, from, to)
		cancel()
		var o string
		switch {
		case err == nil:
			ps := make([]string, len(hs))
			for i, h := range hs {
				ps[i] = fmt.Sprintf("(%d, %d)", h.Height(), r.reg.ID(h.Hash()))
			}
			o = "(RRFound " + emit.List(ps) + ")"
		case errors.Is(err, header.ErrNotFound):
			o = "RRNotFound"
		case errors.Is(err, context.DeadlineExceeded):
			o = "RRBlocks"
		default:
			o = "RRErr"
		}
		ranges = append(ranges, fmt.Sprintf("(%d, %d, %s)", from, to, o))
	}
	return fmt.Sprintf("(Some (Probe %s %s %d %s %s))", r.ptr(hd, herr), r.ptr(tl, terr), r.s.Height(), emit.List(rows), emit.List(ranges))
}

func (r *runner) dump() string {
	res, err := r.ds.Query(context.Background(), query.Query{})
	if err != nil {
		r.t.Fatal(err)
	}
	es, _ := res.Rest()
	var hdrs, idx []string
	head, tail := "None", "None"
	ptrID := func(v []byte) string {
		var s string
		if json.Unmarshal(v, &s) != nil {
			return "(Some 0)"
		}
		b, _ := hex.DecodeString(s)
		return fmt.Sprintf("(Some %d)", r.reg.ID(b))
	}
	sort.Slice(es, func(i, j int) bool { return es[i].Key < es[j].Key })
	for _, e := range es {
		k := strings.TrimPrefix(e.Key, "/headers/")
		switch {
		case k == "head":
			head = ptrID(e.Value)
		case k == "tail":
			tail = ptrID(e.Value)
		default:
			if n, err := strconv.ParseUint(k, 10, 64); err == nil && len(k) < 20 {
				idx = append(idx, fmt.Sprintf("(%d, %d)", n, r.reg.ID(e.Value)))
			} else {
				b, _ := hex.DecodeString(k)
				hdrs = append(hdrs, emit.N(r.reg.ID(b)))
			}
		}
	}
	return fmt.Sprintf("(Some (Dump %s %s %s %s))", emit.List(hdrs), emit.List(idx), head, tail)
}

// quiesce lets virtual time pass (flush retries back off, failed lookups take a microsecond)
// and waits until every goroutine of the bubble is blocked.
func quiesce() {
	time.Sleep(time.Minute)
	synctest.Wait()
}

// Run executes one generated history inside a synctest bubble.
func Run(t *testing.T, rng *emit.Rand, cfg Config, maxOps int, gen Gen) Result {
	var out Result
	synctest.Test(t, func(t *testing.T) {
		r := &runner{t: t, cfg: cfg, rng: rng, reg: vhdr.NewRegistry()}
		if cfg.Par && cfg.NH == 0 {
			old := store.VerifSetDeleteRangeParallelThreshold(2)
			defer store.VerifSetDeleteRangeParallelThreshold(old)
		}
		r.rec = NewRecDS()
		if cfg.FailHdrN > 0 {
			r.rec.FailHdrFrom, r.rec.FailHdrN = cfg.FailHdrFrom, cfg.FailHdrN
		}
		r.ds = r.rec
		if cfg.CtxDS {
			r.ds = contextds.WrapDatastore(r.rec).(datastore.Batching)
		}
		// every failed height lookup of the datastore takes a little virtual time: the flush goroutine
		// (advanceHead/recedeTail end in one) is then still busy when a caller continues right after
		// Append/Sync returned, which makes "Sync returned, so everything is readable" a sharp test
		r.rec.OnGet = func(key string, found bool) {
			if !found {
				time.Sleep(time.Microsecond)
			}
		}
		r.chain = vhdr.Chain("a", 1, cfg.U, time.Now().UnixNano(), 1000, nil)
		chainTerms := make([]string, len(r.chain))
		for i, h := range r.chain {
			chainTerms[i] = r.reg.Term(h)
		}
		ctx := context.Background()
		r.newStore()
		if err := r.s.Start(ctx); err != nil {
			t.Fatal(err)
		}
		var steps []string
		var descr []string
		var loglens []string
		var script []Op // the operations as executed: with Config, enough to re-run the history (Scripted) and to shrink it
		forceRestart := false
		faultAt, faultHead, retryFlag := -1, "", false // index into steps of the faulty DeleteRange, its fields up to the log, whether the retry follows
		for i := 0; i < maxOps; i++ {
			var tl, hd uint64
			if h, err := r.s.Head(ctx); err == nil {
				hd = h.Height()
			}
			if h, err := r.s.Tail(ctx); err == nil {
				tl = h.Height()
			}
			op, ok := gen(i, tl, hd)
			if !ok {
				break
			}
			if forceRestart {
				op, forceRestart = Op{Kind: Restart}, false
			}
			var extra []uint64
			out.Ops++
			script = append(script, op)
			r.log = nil
			outc := "OOk"
			var opTerm string
			func() {
				defer func() {
					if p := recover(); p != nil {
						outc = "OPanic"
					}
				}()
				switch op.Kind {
				case Append:
					hs := make([]*vhdr.Header, len(op.Heights))
					ns := make([]string, len(op.Heights))
					for j, n := range op.Heights {
						hs[j] = r.chain[n-1]
						ns[j] = emit.N(n)
					}
					opTerm = "IAppend " + emit.List(ns)
					if err := r.s.Append(ctx, hs...); err != nil {
						outc = "OFail"
					}
					sorted := sort.SliceIsSorted(op.Heights, func(a, b int) bool { return op.Heights[a] < op.Heights[b] })
					if !sorted {
						out.Gapped = true
					}
					for j := 1; j < len(op.Heights); j++ {
						if op.Heights[j] != op.Heights[j-1]+1 {
							out.Gapped = true
						}
					}
				case Delete:
					out.Deletes++
					if op.Retry {
						// the retry is issued from the tail the store reports once its writes are synced: after a failed
						// commit of the delete batch (context-aware datastore) the headers of the range are still on disk
						// and that Sync walks the in-memory tail back over them
						_ = r.s.Sync(ctx)
						quiesce()
						tl = 0
						if h, err := r.s.Tail(ctx); err == nil {
							tl = h.Height()
						}
					}
					if op.Retry && tl != 0 && tl > op.From && tl < op.To {
						op.From = tl // the retry starts at the tail the failed deletion left
						script[len(script)-1].From = tl
					}
					fs := make([]string, len(op.Fails))
					for j, f := range op.Fails {
						fs[j] = fmt.Sprintf("(%d%%nat, %d, %s)", f.Handler, f.Height, emit.B(f.Panic))
					}
					opTerm = fmt.Sprintf("IDelete %d %d %d%%nat %s", op.From, op.To, cfg.NH, emit.List(fs))
					r.fails = op.Fails
					r.during, r.duringDone, r.duringErr = nil, false, false
					if cfg.Replay {
						r.during = op.During
					} else if cfg.NH > 0 && tl > 0 && op.From < op.To && r.rng.Chance(cfg.DuringPct) {
						var cand []uint64
						for n := tl; n <= hd; n++ {
							if n < op.From || n >= op.To {
								cand = append(cand, n)
							}
						}
						if len(cand) > 0 {
							k := 1 + r.rng.Intn(min(3, len(cand)))
							at := r.rng.Intn(len(cand) - k + 1)
							r.during = cand[at : at+k]
						}
					}
					faulty := len(op.WFails) > 0 && faultAt < 0
					var before, failedBefore int
					if faulty {
						// the attempt indices count from the start of the call: nothing of an earlier (rushed) Append is in flight
						quiesce()
						failedBefore = r.rec.Failed
						before = r.rec.FailRelative(op.WFails)
					}
					c2, cancel := context.WithTimeout(ctx, time.Hour)
					err := r.s.DeleteRange(c2, op.From, op.To)
					cancel()
					if faulty {
						out.WAttempts, out.WFailed = r.rec.Attempts()-before, r.rec.Failed-failedBefore
						r.rec.FailRelative(nil)
						faultAt = len(steps)
						ws := make([]string, len(op.WFails))
						for j, i := range op.WFails {
							ws[j] = emit.Nat(i)
						}
						faultHead = fmt.Sprintf("%d %d %d%%nat %s %s", op.From, op.To, cfg.NH, emit.List(fs), emit.List(ws))
					} else if op.Retry && faultAt >= 0 && faultAt == len(steps)-1 {
						retryFlag = true
					}
					if err != nil {
						outc = "OFail"
					} else {
						out.DelOK++
					}
					if r.duringDone {
						// for the model the append comes after the deletion: the headers are stored and outside
						// the range, so the order makes no difference to any observation
						extra = r.during
						forceRestart = !cfg.Replay && r.rng.Bool()
						script[len(script)-1].During = append([]uint64(nil), r.during...)
						out.During++
					}
					r.during = nil
				case Restart, Reopen, StopSync:
					out.Restarts++
					opTerm = "IRestart"
					if op.Kind == StopSync && len(op.Heights) > 0 {
						// Stop racing a Sync while a batch is being flushed: the flush goroutine is parked in a
						// failed height lookup, a Sync and the Stop signal queue up behind it, then it is released
						// (whether the loop then serves the Sync or the queue first is the runtime's random choice)
						gate := make(chan struct{})
						var once sync.Once
						old := r.rec.OnGet
						r.rec.OnGet = func(key string, found bool) {
							if !found {
								once.Do(func() { <-gate })
							}
						}
						hs := make([]*vhdr.Header, len(op.Heights))
						ns := make([]string, len(op.Heights))
						for j, n := range op.Heights {
							hs[j] = r.chain[n-1]
							ns[j] = emit.N(n)
						}
						_ = r.s.Append(ctx, hs...)
						synctest.Wait()
						steps = append(steps, fmt.Sprintf("SStep (IAppend %s) OOk [] None", emit.List(ns)))
						loglens = append(loglens, emit.Nat(len(r.rec.Log)))
						descr = append(descr, "IAppend "+emit.List(ns)+" => (parked)")
						st := r.s
						go func() { _ = st.Sync(ctx) }()
						stopped := make(chan error, 1)
						go func() { stopped <- st.Stop(ctx) }()
						synctest.Wait()
						close(gate)
						if err := <-stopped; err != nil {
							outc = "OFail"
						}
						r.rec.OnGet = old
					} else if err := r.s.Stop(ctx); err != nil {
						outc = "OFail"
					}
					if op.Kind == Reopen {
						opTerm = "IReopen"
						r.newStore()
					}
					if err := r.s.Start(ctx); err != nil {
						outc = "OFail"
					}
				}
			}()
			// sometimes the next operation follows an Append immediately (no quiescence in between):
			// the batch is then still in the writes queue when a Stop / DeleteRange / Append arrives
			isFault := faultAt == len(steps) || (retryFlag && faultAt == len(steps)-1)
			rush := op.Kind == Append && i < maxOps-1 && r.rng.Chance(30)
			nowait := op.Kind == Append && !rush && cfg.FailHdrN == 0 && r.rng.Chance(45)
			if cfg.Replay {
				rush, nowait = op.Kind == Append && i < maxOps-1 && op.Rushed, op.Kind == Append && cfg.FailHdrN == 0 && op.NoWait && !op.Rushed
			}
			script[len(script)-1].Rushed, script[len(script)-1].NoWait = rush, nowait
			probe := "None"
			if nowait {
				// Sync, then probe at once (no quiescence): what was appended before Sync returned must be readable
				steps = append(steps, fmt.Sprintf("SStep (%s) %s %s None", opTerm, outc, emit.List(r.log)))
				loglens = append(loglens, emit.Nat(len(r.rec.Log)))
				descr = append(descr, opTerm+" => "+outc)
				opTerm, outc, r.log = "ISync", "OOk", nil
				if err := r.s.Sync(ctx); err != nil {
					outc = "OFail"
				}
				probe = r.probe()
				out.SyncProbes++
			} else if !rush {
				quiesce()
				if cfg.ProbeEvery || i == maxOps-1 || isFault || r.rng.Chance(60) {
					probe = r.probe()
				}
			} else {
				out.Rushed++
			}
			out.HandlerCalls += len(r.log)
			steps = append(steps, fmt.Sprintf("SStep (%s) %s %s %s", opTerm, outc, emit.List(r.log), probe))
			loglens = append(loglens, emit.Nat(len(r.rec.Log)))
			descr = append(descr, opTerm+" => "+outc)
			if len(extra) > 0 {
				ns := make([]string, len(extra))
				for j, n := range extra {
					ns[j] = emit.N(n)
				}
				eo := "OOk"
				if r.duringErr {
					eo = "OFail"
				}
				steps = append(steps, fmt.Sprintf("SStep (IAppend %s) %s [] None", emit.List(ns), eo))
				loglens = append(loglens, emit.Nat(len(r.rec.Log)))
				descr = append(descr, "IAppend "+emit.List(ns)+" (by handler 0 during the deletion above, then Sync) => "+eo)
			}
		}
		// final step: a real restart with a probe; then the raw datastore is dumped while the
		// store is running (the model's datastore after the same IRestart step must equal it)
		if err := r.s.Stop(ctx); err != nil {
			t.Fatal("final stop:", err)
		}
		if err := r.s.Start(ctx); err != nil {
			t.Fatal("final start:", err)
		}
		quiesce()
		steps = append(steps, fmt.Sprintf("SStep (IRestart) OOk [] %s", r.probe()))
		loglens = append(loglens, emit.Nat(len(r.rec.Log)))
		dump := r.dump()
		if err := r.s.Stop(ctx); err != nil {
			t.Fatal("final stop 2:", err)
		}
		out.Term = fmt.Sprintf("SCase %d %s %s %s", cfg.Batch, emit.List(chainTerms), emit.List(steps), dump)
		if faultAt >= 0 {
			// SStep (IDelete ...) out log (Some (Probe ...))  ->  out, log, probe of the [fcase]
			fs := steps[faultAt]
			k := strings.Index(fs, ") O")
			rest := fs[k+2:] // "OFail [..] (Some (Probe ..))"
			j := strings.LastIndex(rest, "(Some (Probe ")
			outLog, pr := rest[:j], rest[j+len("(Some "):len(rest)-1]
			out.FaultTerm = fmt.Sprintf("FCase %s %d %s %s %s %s %s %s %s %s", emit.B(cfg.CtxDS), cfg.Batch, emit.List(chainTerms), emit.List(steps[:faultAt]),
				faultHead, outLog, pr, emit.B(retryFlag), emit.List(steps[faultAt+1:]), dump)
			out.Term = ""
		}
		out.Descr = map[string]any{"ctxds": cfg.CtxDS, "batch": cfg.Batch, "cache": cfg.Cache, "icache": cfg.ICache, "handlers": cfg.NH, "ops": descr,
			"script": map[string]any{"cfg": cfg, "ops": script}}
		out.NonTriv = out.Ops >= 3
		if cfg.Crash != 0 {
			out.LogLen = len(r.rec.Log)
			crashes := r.explore(cfg.Crash)
			out.CrashPts = len(crashes)
			out.CommitFailures = r.rec.Failed
			out.CrashTerm = fmt.Sprintf("CCase (%s) %s %s %s", out.Term, emit.List(loglens), r.logTerm(), emit.List(crashes))
		}
	})
	return out
}

// ProbeOf renders a full probe (without the Some wrapper) of a running store.
func ProbeOf(s *store.Store[*vhdr.Header], chain []*vhdr.Header, reg *vhdr.Registry, u int) string {
	r := &runner{s: s, chain: chain, reg: reg, cfg: Config{U: u}, rng: emit.NewRand(1)}
	p := r.probe()
	return "(" + p[len("(Some "):]
}
