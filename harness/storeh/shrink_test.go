//go:build verif

package storeh

// TestShrinkStore: one round of delta debugging of a store history (used by `check` after a violation of
// C04 / C06 / C08 / C14).  Input ($VERIF_SHRINK_IN, JSON): {"cfg": Config, "ops": [Op], "wrap": "%s" | "CSeq (%s)",
// "crash": bool, "imports", "case_type", "chk"}.  Output: candidate 0 is the input history itself (re-run; the
// internal random choices of Run — probes, rushed appends — come from a fixed stream), the others are one-step
// reductions (an operation dropped, one height of an Append dropped, a scripted handler failure dropped, a failing write attempt dropped, the
// configuration simplified); each is run against the real code and emitted as a case; candidates.json holds
// the scripts in the same order.
import (
	"encoding/json"
	"fmt"
	"os"
	"path/filepath"
	"testing"

	"verifharness/emit"
)

type shrinkIn struct {
	Cfg      Config `json:"cfg"`
	Ops      []Op   `json:"ops"`
	Wrap     string `json:"wrap"`
	Crash    bool   `json:"crash"`
	Imports  string `json:"imports"`
	CaseType string `json:"case_type"`
	Chk      string `json:"chk"`
}

type cand struct {
	Cfg  Config `json:"cfg"`
	Ops  []Op   `json:"ops"`
	What string `json:"what"`
}

func cloneOps(ops []Op) []Op {
	out := make([]Op, len(ops))
	for i, o := range ops {
		o.Heights = append([]uint64(nil), o.Heights...)
		o.Fails = append([]Fail(nil), o.Fails...)
		o.WFails = append([]int(nil), o.WFails...)
		out[i] = o
	}
	return out
}

func TestShrinkStore(t *testing.T) {
	p := os.Getenv("VERIF_SHRINK_IN")
	if p == "" {
		t.Skip("no VERIF_SHRINK_IN")
	}
	b, err := os.ReadFile(p)
	if err != nil {
		t.Fatal(err)
	}
	var in shrinkIn
	if err := json.Unmarshal(b, &in); err != nil {
		t.Fatal(err)
	}
	if in.Wrap == "" {
		in.Wrap = "%s"
	}
	cands := []cand{{in.Cfg, cloneOps(in.Ops), "the history itself"}}
	// ddmin: first try to drop whole chunks (halves, quarters, eighths), then single operations
	for parts := 2; parts <= 8 && len(in.Ops) >= 2*parts; parts *= 2 {
		sz := len(in.Ops) / parts
		for at := 0; at < len(in.Ops); at += sz {
			end := min(at+sz, len(in.Ops))
			ops := cloneOps(in.Ops)
			cands = append(cands, cand{in.Cfg, append(ops[:at], ops[end:]...), fmt.Sprintf("operations %d..%d dropped", at, end-1)})
		}
	}
	for i := range in.Ops {
		ops := cloneOps(in.Ops)
		cands = append(cands, cand{in.Cfg, append(ops[:i], ops[i+1:]...), fmt.Sprintf("operation %d dropped", i)})
	}
	for i, o := range in.Ops {
		if (o.Kind == Append || o.Kind == StopSync) && len(o.Heights) > 1 {
			for j := range o.Heights {
				ops := cloneOps(in.Ops)
				ops[i].Heights = append(ops[i].Heights[:j], ops[i].Heights[j+1:]...)
				cands = append(cands, cand{in.Cfg, ops, fmt.Sprintf("height %d of operation %d dropped", o.Heights[j], i)})
			}
		}
		for j := range o.WFails {
			ops := cloneOps(in.Ops)
			ops[i].WFails = append(ops[i].WFails[:j], ops[i].WFails[j+1:]...)
			cands = append(cands, cand{in.Cfg, ops, fmt.Sprintf("failing write attempt %d of operation %d dropped", o.WFails[j], i)})
		}
		if o.Retry {
			ops := cloneOps(in.Ops)
			ops[i].Retry = false
			cands = append(cands, cand{in.Cfg, ops, fmt.Sprintf("operation %d is no longer marked as the retry", i)})
		}
		for j := range o.Fails {
			ops := cloneOps(in.Ops)
			ops[i].Fails = append(ops[i].Fails[:j], ops[i].Fails[j+1:]...)
			cands = append(cands, cand{in.Cfg, ops, fmt.Sprintf("scripted handler failure %d of operation %d dropped", j, i)})
		}
	}
	simpler := func(what string, f func(c *Config) bool) {
		c := in.Cfg
		if f(&c) {
			cands = append(cands, cand{c, cloneOps(in.Ops), "configuration: " + what})
		}
	}
	simpler("no append+flush inside deletions", func(c *Config) bool { ch := c.DuringPct != 0; c.DuringPct = 0; return ch })
	simpler("sequential delete path", func(c *Config) bool { ch := c.Par; c.Par = false; return ch })
	simpler("plain datastore", func(c *Config) bool { ch := c.CtxDS; c.CtxDS = false; return ch })
	simpler("no random GetRange probes", func(c *Config) bool { ch := c.Ranges != 0; c.Ranges = 0; return ch })
	simpler("large caches", func(c *Config) bool {
		ch := c.Cache != 512 || c.ICache != 2048
		c.Cache, c.ICache = 512, 2048
		return ch
	})
	simpler("one handler fewer", func(c *Config) bool {
		if c.NH == 0 {
			return false
		}
		for _, o := range in.Ops {
			for _, f := range o.Fails {
				if f.Handler >= c.NH-1 {
					return false
				}
			}
		}
		c.NH--
		return true
	})
	if len(cands) > 48 {
		// keep rounds short: the first candidates are the largest reductions
		cands = append(cands[:40], cands[len(cands)-8:]...)
	}
	w := emit.NewWriter(in.Imports, in.CaseType, in.Chk)
	w.PerShard(12)
	w.Rule = "delta-debugging round: the failing history and its one-step reductions"
	for k, c := range cands {
		cfg := c.Cfg
		cfg.Replay = true
		if in.Crash && cfg.Crash == 0 {
			cfg.Crash = -1
		}
		res := Run(t, emit.NewRand(7), cfg, len(c.Ops), Scripted(c.Ops))
		term := res.Term
		if in.Crash {
			term = res.CrashTerm
		}
		term = fmt.Sprintf(in.Wrap, term)
		if res.FaultTerm != "" {
			// a history with failing writes inside a DeleteRange is an [fcase] (case type case14 only)
			term = "CFault (" + res.FaultTerm + ")"
		}
		w.Add(term, res.Descr, fmt.Sprint(k), true)
	}
	if err := w.Flush(); err != nil {
		t.Fatal(err)
	}
	cb, _ := json.Marshal(cands)
	if err := os.WriteFile(filepath.Join(os.Getenv("VERIF_OUT"), "candidates.json"), cb, 0o644); err != nil {
		t.Fatal(err)
	}
}
