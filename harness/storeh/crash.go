//go:build verif

package storeh

import (
	"context"
	"encoding/hex"
	"encoding/json"
	"fmt"
	"strconv"
	"strings"

	"verifharness/emit"
	"verifharness/vhdr"
)

// logTerm renders the recorded write log as a Coq [list wop].
func (r *runner) logTerm() string {
	entries := make([]string, len(r.rec.Log))
	for i, e := range r.rec.Log {
		ops := make([]string, len(e))
		for j, w := range e {
			ops[j] = r.wTerm(w)
		}
		entries[i] = emit.List(ops)
	}
	return emit.List(entries)
}

func (r *runner) wTerm(w WOp) string {
	k := strings.TrimPrefix(w.Key, "/headers/")
	ptr := func(v []byte) uint64 {
		var s string
		if json.Unmarshal(v, &s) != nil {
			return 0
		}
		b, _ := hex.DecodeString(s)
		return r.reg.ID(b)
	}
	switch {
	case k == "head":
		if w.Del {
			return "WDelHead"
		}
		return fmt.Sprintf("(WPutHead %d)", ptr(w.Value))
	case k == "tail":
		if w.Del {
			return "WDelTail"
		}
		return fmt.Sprintf("(WPutTail %d)", ptr(w.Value))
	}
	if n, err := strconv.ParseUint(k, 10, 64); err == nil && len(k) < 20 {
		if w.Del {
			return fmt.Sprintf("(WDelI %d)", n)
		}
		return fmt.Sprintf("(WPutI %d %d)", n, r.reg.ID(w.Value))
	}
	b, _ := hex.DecodeString(k)
	if w.Del {
		return fmt.Sprintf("(WDelH %d)", r.reg.ID(b))
	}
	h := new(vhdr.Header)
	if err := h.UnmarshalBinary(w.Value); err != nil {
		return fmt.Sprintf("(WPutH %d hdr_nil)", r.reg.ID(b))
	}
	return fmt.Sprintf("(WPutH %d %s)", r.reg.ID(b), r.reg.Term(h))
}

// explore reopens a fresh Store on the datastore image of write-log prefixes, probes it,
// appends the continuation of the chain and probes again.
func (r *runner) explore(n int) []string {
	total := len(r.rec.Log)
	var ks []int
	if n < 0 || n >= total+1 {
		for k := 0; k <= total; k++ {
			ks = append(ks, k)
		}
	} else {
		seen := map[int]bool{}
		for len(ks) < n {
			k := r.rng.Intn(total + 1)
			if !seen[k] {
				seen[k] = true
				ks = append(ks, k)
			}
		}
	}
	full := r.rec
	var out []string
	ctx := context.Background()
	for _, k := range ks {
		r.rec = full.Rebuild(k)
		r.ds = r.rec
		r.newStore()
		startOK := r.s.Start(ctx) == nil
		if !startOK {
			// a Store that refuses to start on a crash image is the observation (nothing to probe: its loop is not running)
			out = append(out, fmt.Sprintf("Crash %s false None [] None", emit.Nat(k)))
			continue
		}
		quiesce()
		p1 := r.probe()
		// continuation: everything from above the reopened head (or tail, or 0) up to two above the highest stored height
		var base, top uint64
		if h, err := r.s.Head(ctx); err == nil {
			base = h.Height()
		} else if h, err := r.s.Tail(ctx); err == nil {
			base = h.Height()
		}
		for n := uint64(1); n <= uint64(r.cfg.U); n++ {
			if ok, _ := r.s.Has(ctx, r.chain[n-1].Hash()); ok && n > top {
				top = n
			}
		}
		if top < base {
			top = base
		}
		var ns []string
		var hs []*vhdr.Header
		for n := base + 1; n <= top+2 && n <= uint64(r.cfg.U); n++ {
			ns = append(ns, emit.N(n))
			hs = append(hs, r.chain[n-1])
		}
		p2 := "None"
		if len(hs) > 0 {
			_ = r.s.Append(ctx, hs...)
			_ = r.s.Sync(ctx)
			quiesce()
			p2 = r.probe()
		}
		_ = r.s.Stop(ctx)
		out = append(out, fmt.Sprintf("Crash %s %s %s %s %s", emit.Nat(k), emit.B(startOK), p1, emit.List(ns), p2))
	}
	r.rec = full
	r.ds = full
	return out
}
