(** C10, continued — (a) "nor hangs beyond its timeouts" as a theorem over the
    call log, and (b) every theorem of Props/C10.v again with a failure mode PER
    KIND of store call.

    [handle_dk kf e rq] is requestHandler (p2p/server.go) from the decoded
    request on, [e : env] the store content each store call sees (an arbitrary
    content per call; [fun _ => st] = a quiescent store, [handle_k kf st]), and
    [kf : ckind -> fault] the failure mode of each kind of context-taking store
    call: Head, GetRange and Get are each healthy (FNone), block until the
    request context's deadline and return its error (FSlow), or fail at once
    (FErr).  So "HasAt says no, Head answers, GetRange times out" is an input.
    [handle f] / [handle_d f] of Props/C10.v are the instances [kf = same f]. *)
From GH Require Import Base.Prelude Model.Server Proofs.ServerP.

(** * (a) one request context, a bounded sequence of store calls under it

    requestHandler makes ONE context.WithTimeout(serv.ctx, RequestTimeout) and
    every store call of the request takes it; the calls are sequential.  For
    EVERY request, store history and failure modes the call log [cs]
    - has one of the exact shapes [], [Head], [Get h], [HasAt n; Head],
      [HasAt n; GetRange ..], [HasAt n; Head; GetRange ..]  ([log_shape]),
    - so has at most 3 calls,
    - a call that failed or blocked is the LAST call (no retry, no further call
      after an error),
    - in the time model of Model/Server.v (a call started at t that would take
      [d c] on its own returns at min(t + d c, T): store calls honour their
      context — an assumption about the store, stated there), whatever the
      durations [d], the last call has returned by the deadline T = RequestTimeout,
    - and under the harness's modes (a blocking call never returns by itself,
      the others return at once) it returns exactly at T when a call of the log
      blocks, at 0 otherwise. *)
Lemma C10_one_blocking_call : forall (kf : kfault) (e : env) (rq : req),
  let cs := snd (handle_dk kf e rq) in
  log_shape cs = true
  /\ (length cs <= 3)%nat
  /\ (forall pre c post, cs = pre ++ c :: post -> fault_of kf c <> FNone -> post = [])
  /\ (forall (T : N) (d : call -> N), finish T d 0 cs <= T)
  /\ (forall T : N, finish T (fault_dur kf T) 0 cs
                    = if existsb (fun c => is_slow (fault_of kf c)) cs then T else 0).
Proof. exact one_blocking_call. Qed.

(** * (b) a failure mode per call kind *)

(** the definitions of Props/C10.v are the special case "same mode for every kind",
    and a quiescent store is the constant history *)
Theorem C10_per_kind_generalises : forall (f : fault) (st : store) (rq : req) (e : env),
  handle f st rq = handle_k (same f) st rq /\ handle_d f e rq = handle_dk (same f) e rq.
Proof. exact same_mode_is_instance. Qed.

Theorem C10_k_quiescent_is_instance : forall (kf : kfault) (st : store) (rq : req),
  handle_dk kf (fun _ => st) rq = handle_k kf st rq.
Proof. exact static_is_instance_k. Qed.

(** ** quiescent store *)

Theorem C10_k_total : forall (kf : kfault) (st : store) (rq : req), fst (handle_k kf st rq) <> Panic.
Proof. exact handle_k_total. Qed.

Theorem C10_k_bounded_calls : forall (kf : kfault) (st : store) (o a : N), o < two64 -> a < two64 ->
  let cs := range_calls (snd (handle_k kf st (ROrigin o a))) in
  (length cs <= 1)%nat /\
  Forall (fun c => let '(from, to, _, _) := c in
            from = o /\ o < to /\ to <= o + a /\ to - from <= N.min a max_req) cs.
Proof. exact origin_bounded_calls_k. Qed.

Theorem C10_k_bounded_reads : forall (kf : kfault) (st : store) (o a : N),
  wf_store st -> o < two64 -> a < two64 ->
  let rd := heights_read (snd (handle_k kf st (ROrigin o a))) in
  (forall n, In n rd -> o <= n /\ n < o + a)
  /\ N.of_nat (length rd) <= N.min a max_req
  /\ NoDup rd.
Proof. exact origin_bounded_reads_k. Qed.

Theorem C10_k_reply_shape : forall (kf : kfault) (st : store) (o a : N),
  wf_store st -> 1 <= o -> o < two64 -> a < two64 ->
  let r := fst (handle_k kf st (ROrigin o a)) in
  r = NotFound \/ r = Reset \/
  exists l, r = Ok l
    /\ (1 <= length l)%nat /\ N.of_nat (length l) <= a
    /\ tail_h st <= o /\ o + N.of_nat (length l) - 1 <= head_h st
    /\ (forall j, (j < length l)%nat ->
          exists h, nth_error l j = Some h /\ get_height st (o + N.of_nat j) = Some h
                    /\ h_height h = o + N.of_nat j /\ In h (s_chain st))
    /\ (N.of_nat (length l) < a -> o + N.of_nat (length l) - 1 = head_h st).
Proof. exact origin_reply_shape_k. Qed.

(** whatever fails, the reply is the healthy store's reply or a refusal — never something else *)
Theorem C10_k_healthy_or_refused : forall (kf : kfault) (st : store) (rq : req),
  fst (handle_k kf st rq) = fst (handle FNone st rq)
  \/ fst (handle_k kf st rq) = Reset \/ fst (handle_k kf st rq) = NotFound.
Proof. exact handle_k_healthy_or_refused. Qed.

Theorem C10_k_only_true_data : forall (kf : kfault) (st : store) (rq : req) (l : list hdr),
  fst (handle_k kf st rq) = Ok l -> l <> [] /\ forall x, In x l -> In x (all_hdrs st).
Proof. exact only_true_data_k. Qed.

(** ** store changing while the request is served (any content per call) *)

Theorem C10_dk_total : forall (kf : kfault) (e : env) (rq : req), fst (handle_dk kf e rq) <> Panic.
Proof. exact handle_d_totalk. Qed.

Theorem C10_dk_bounded_calls : forall (kf : kfault) (e : env) (o a : N), o < two64 -> a < two64 ->
  let cs := range_calls (snd (handle_dk kf e (ROrigin o a))) in
  (length cs <= 1)%nat /\
  Forall (fun c => let '(from, to, _, _) := c in
            from = o /\ o < to /\ to <= o + a /\ to - from <= N.min a max_req) cs.
Proof. exact origin_bounded_calls_dk. Qed.

Theorem C10_dk_bounded_reads : forall (kf : kfault) (e : env) (o a : N),
  (forall hist, wf_store (e hist)) -> o < two64 -> a < two64 ->
  let rd := heights_read (snd (handle_dk kf e (ROrigin o a))) in
  (forall n, In n rd -> o <= n /\ n < o + a)
  /\ N.of_nat (length rd) <= N.min a max_req
  /\ NoDup rd.
Proof. exact origin_bounded_reads_dk. Qed.

Theorem C10_dk_reply_shape : forall (kf : kfault) (e : env) (o a : N),
  (forall hist, wf_store (e hist)) -> 1 <= o -> o < two64 -> a < two64 ->
  let r := fst (handle_dk kf e (ROrigin o a)) in
  r = NotFound \/ r = Reset \/
  exists l S, r = Ok l /\ (S = e [KHasAt] \/ S = e [KHasAt; KHead])
    /\ (1 <= length l)%nat /\ N.of_nat (length l) <= a
    /\ (forall j, (j < length l)%nat ->
          exists h, nth_error l j = Some h /\ get_height S (o + N.of_nat j) = Some h
                    /\ h_height h = o + N.of_nat j /\ In h (all_hdrs S))
    /\ (N.of_nat (length l) < a ->
          exists hd, head_of (e [KHasAt]) = Some hd /\ o + N.of_nat (length l) - 1 = h_height hd).
Proof. exact origin_reply_shape_dk. Qed.

Theorem C10_dk_only_true_data : forall (kf : kfault) (e : env) (rq : req) (l : list hdr),
  fst (handle_dk kf e rq) = Ok l -> l <> [] /\ exists hist, forall x, In x l -> In x (all_hdrs (e hist)).
Proof. exact only_true_data_dk. Qed.

(** A failing or stuck store call is never papered over: if ANY call the handler
    made came back failed or blocked until the deadline, the reply is a reset or
    NOT_FOUND ... *)
Theorem C10_dk_store_failure_refused : forall (kf : kfault) (e : env) (rq : req),
  (exists c, In c (snd (handle_dk kf e rq)) /\ fault_of kf c <> FNone) ->
  fst (handle_dk kf e rq) = Reset \/ fst (handle_dk kf e rq) = NotFound.
Proof. exact store_failure_refused_dk. Qed.

(** ... exactly: NOT_FOUND when it was GetRange that ran into the deadline
    (server.go maps context.DeadlineExceeded from GetRange to ErrNotFound), a reset
    in every other case (Head or Get failing or timing out, GetRange failing). *)
Theorem C10_dk_store_failure_reply : forall (kf : kfault) (e : env) (rq : req) (c : call),
  In c (snd (handle_dk kf e rq)) -> fault_of kf c <> FNone ->
  fst (handle_dk kf e rq) =
    match c, fault_of kf c with CGetRange _ _ _ _, FSlow => NotFound | _, _ => Reset end.
Proof. exact store_failure_reply_dk. Qed.

(** by request kind: no hash answer without Get, no head answer without Head, no
    range answer without GetRange *)
Theorem C10_dk_failure_refused_by_kind : forall (kf : kfault) (e : env),
  (forall id a, kf KGet <> FNone -> fst (handle_dk kf e (RHash id a)) = Reset)
  /\ (forall a, kf KHead <> FNone -> fst (handle_dk kf e (ROrigin 0 a)) = Reset)
  /\ (forall o a, kf KGetRange <> FNone -> 1 <= o ->
        fst (handle_dk kf e (ROrigin o a)) = Reset \/ fst (handle_dk kf e (ROrigin o a)) = NotFound).
Proof. exact failure_refused_by_kind_dk. Qed.

(** ** non-vacuity: the pruned store of Props/C10.v (tail 5, head 8); the partial-range
    path HasAt false -> Head OK -> GetRange in each GetRange mode, Head failing on it,
    Head failing where it is not needed, and the instants of the replies for T = 7000 *)
Definition exm_h (n : N) : hdr := Hdr false 1 n 0%Z (100 + n) (100 + n - 1) true.
Definition exm_st : store := Store [exm_h 5; exm_h 6; exm_h 7; exm_h 8] [exm_h 11].
Definition exm_kf (hd rg : fault) : kfault :=
  fun k => match k with KHead => hd | KGetRange => rg | _ => FNone end.

Example C10_more_ex :
  wf_store exm_st
  /\ handle_k (exm_kf FNone FNone) exm_st (ROrigin 7 64) = (Ok [exm_h 7; exm_h 8], [CHasAt 70; CHead; CGetRange 7 9 [8; 7] 2])
  /\ handle_k (exm_kf FNone FSlow) exm_st (ROrigin 7 64) = (NotFound, [CHasAt 70; CHead; CGetRange 7 9 [] 0])
  /\ handle_k (exm_kf FNone FErr) exm_st (ROrigin 7 64) = (Reset, [CHasAt 70; CHead; CGetRange 7 9 [] 0])
  /\ handle_k (exm_kf FSlow FNone) exm_st (ROrigin 7 64) = (Reset, [CHasAt 70; CHead])
  /\ handle_k (exm_kf FErr FSlow) exm_st (ROrigin 7 64) = (Reset, [CHasAt 70; CHead])
  /\ handle_k (exm_kf FErr FNone) exm_st (ROrigin 6 2) = (Ok [exm_h 6; exm_h 7], [CHasAt 7; CGetRange 6 8 [7; 6] 2])
  /\ handle_k (exm_kf FErr FNone) exm_st (ROrigin 0 1) = (Reset, [CHead])
  /\ handle_k (exm_kf FNone FErr) exm_st (ROrigin 0 1) = (Ok [exm_h 8], [CHead])
  /\ finish 7000 (fault_dur (exm_kf FNone FSlow) 7000) 0 (snd (handle_k (exm_kf FNone FSlow) exm_st (ROrigin 7 64))) = 7000
  /\ finish 7000 (fault_dur (exm_kf FSlow FNone) 7000) 0 (snd (handle_k (exm_kf FSlow FNone) exm_st (ROrigin 7 64))) = 7000
  /\ finish 7000 (fault_dur (exm_kf FSlow FNone) 7000) 0 (snd (handle_k (exm_kf FSlow FNone) exm_st (ROrigin 6 2))) = 0
  /\ finish 7000 (fun _ => 5000) 0 (snd (handle_k (exm_kf FNone FNone) exm_st (ROrigin 7 64))) = 7000
  /\ finish 7000 (fun _ => 2000) 0 (snd (handle_k (exm_kf FNone FNone) exm_st (ROrigin 7 64))) = 6000.
Proof. vm_compute. repeat split; reflexivity. Qed.

Print Assumptions C10_one_blocking_call.
Print Assumptions C10_per_kind_generalises.
Print Assumptions C10_k_quiescent_is_instance.
Print Assumptions C10_k_total.
Print Assumptions C10_k_bounded_calls.
Print Assumptions C10_k_bounded_reads.
Print Assumptions C10_k_reply_shape.
Print Assumptions C10_k_healthy_or_refused.
Print Assumptions C10_k_only_true_data.
Print Assumptions C10_dk_total.
Print Assumptions C10_dk_bounded_calls.
Print Assumptions C10_dk_bounded_reads.
Print Assumptions C10_dk_reply_shape.
Print Assumptions C10_dk_only_true_data.
Print Assumptions C10_dk_store_failure_refused.
Print Assumptions C10_dk_store_failure_reply.
Print Assumptions C10_dk_failure_refused_by_kind.
