(** C01, audit follow-up - Verify() when the answers of the header type's own Verify are Go
    OBJECTS (Model/Verify.v [tvx], [Verify_x]): the verifier depends on both arguments, a
    wrapper has an identity, the *VerifyError may be a typed nil, and it may be an instance the
    type keeps and returns again (its SoftFailure field is a memory cell [heap]; follows /repo
    dd31b07, which fixed finding F32: Verify used to write into that cell).
    Statements only; proofs in Proofs/VerifyP.v. For every clock, drift, verifier and memory. *)
From GH Require Import Base.Prelude Model.Verify Proofs.VerifyP.

(** every call is the pure Verify of Props/C01.v on the shapes as the memory shows them AT THAT
    MOMENT - so C01_accept_iff / C01_reject_reason / C01_soft_iff carry over call by call *)
Theorem C01_x_refines_pure : forall now drift (tv : hdr -> hdr -> tvx) (h : heap) (t u : hdr),
  tv t u <> XTypedNil \/ verify_mand now drift t u <> None ->
  forall tvp : hdr -> hdr -> tvres,
  (forall r, tvx_pure h (tv t u) = Some r -> tvp t u = r) ->
  xres_pure (fst (Verify_x now drift tv h t u)) = Some (Verify now drift tvp t u).
Proof. exact verify_x_refines. Qed.

Theorem C01_x_accept_iff : forall now drift (tv : hdr -> hdr -> tvx) (h : heap) (t u : hdr),
  fst (Verify_x now drift tv h t u) = XNil <-> (mand_ok now drift t u /\ tv t u = XOk).
Proof. exact x_accept_iff. Qed.

(** SoftFailure exactly when non-adjacent or the type's object says soft ([tvx_soft h]: read from the
    memory, which is what the type put there since no call writes - C01_x_sequence_no_write) *)
Theorem C01_x_soft_iff : forall now drift (tv : hdr -> hdr -> tvx) (h : heap) (t u : hdr) r s via,
  fst (Verify_x now drift tv h t u) = XErr r s via ->
  (s = true <->
   mand_ok now drift t u /\ tv t u <> XOk /\ (adjacent t u = false \/ tvx_soft h (tv t u) = true)).
Proof. exact x_soft_iff. Qed.

(** "or the type's own error", wrapped shape: the result carries the INNER type error and never
    the wrapper (errors.As hands out the inner *VerifyError; errors.Is(result, wrapper) is false) *)
Theorem C01_x_reject_reason : forall now drift (tv : hdr -> hdr -> tvx) (h : heap) (t u : hdr) r s via,
  fst (Verify_x now drift tv h t u) = XErr r s via ->
  (exists sn, r = RSent sn /\ s = false /\ sentinel_matches now drift sn t u) \/
  (exists id, r = RType id /\ mand_ok now drift t u /\ tvx_err_id (tv t u) = Some id).
Proof. exact x_reject_reason. Qed.

Theorem C01_x_wrapper_dropped : forall now drift (tv : hdr -> hdr -> tvx) (h : heap) (t u : hdr) r s via,
  fst (Verify_x now drift tv h t u) = XErr r s via -> via = None.
Proof. exact x_wrapper_dropped. Qed.

(** typed nil: a nil dereference exactly for a non-adjacent header that passed the mandatory checks,
    the nil pointer as a non-nil error exactly for an adjacent one; never an acceptance *)
Theorem C01_x_typed_nil_panics_iff : forall now drift (tv : hdr -> hdr -> tvx) (h : heap) (t u : hdr),
  fst (Verify_x now drift tv h t u) = XPanic <->
  (mand_ok now drift t u /\ tv t u = XTypedNil /\ adjacent t u = false).
Proof. exact x_panic_iff. Qed.

Theorem C01_x_typed_nil_returned_iff : forall now drift (tv : hdr -> hdr -> tvx) (h : heap) (t u : hdr),
  fst (Verify_x now drift tv h t u) = XNilPtr <->
  (mand_ok now drift t u /\ tv t u = XTypedNil /\ adjacent t u = true).
Proof. exact x_nilptr_iff. Qed.

(** no call writes the type's objects (/repo dd31b07; finding F32 was the write) *)
Theorem C01_x_no_write : forall now drift (tv : hdr -> hdr -> tvx) (h : heap) (t u : hdr),
  snd (Verify_x now drift tv h t u) = h.
Proof. exact x_no_write. Qed.

(** any sequence of calls, any verifier - fresh objects, kept instances, typed nil: the memory at the
    end is the memory at the start and every call answers as if it were the only one *)
Theorem C01_x_sequence_no_write : forall drift (tv : hdr -> hdr -> tvx) calls (h : heap),
  snd (Verify_seq drift tv h calls) = h /\
  fst (Verify_seq drift tv h calls)
    = map (fun c => fst (Verify_x (fst (fst c)) drift tv h (snd (fst c)) (snd c))) calls.
Proof. exact seq_no_write. Qed.

(** the typed nil apart, every call of every sequence is the pure Verify of Props/C01.v on the shapes
    as the TYPE made them ([h]: what the type put into its kept instances): C01_accept_iff,
    C01_reject_reason and C01_soft_iff hold call by call for kept instances too *)
Theorem C01_x_sequence_is_pure : forall drift (tv : hdr -> hdr -> tvx) (tvp : hdr -> hdr -> tvres) (h : heap) calls,
  (forall t u, tv t u <> XTypedNil) ->
  (forall t u r, tvx_pure h (tv t u) = Some r -> tvp t u = r) ->
  map xres_pure (fst (Verify_seq drift tv h calls))
    = map (fun c => Some (Verify (fst (fst c)) drift tvp (snd (fst c)) (snd c))) calls
  /\ snd (Verify_seq drift tv h calls) = h.
Proof. exact seq_pure. Qed.

(** SoftFailure of the k-th result of any sequence: exactly when THAT header is non-adjacent or the
    TYPE reported soft - whatever was verified before, kept instance or not (F32 refuted this) *)
Theorem C01_x_soft_iff_in_any_sequence :
  forall drift (tv : hdr -> hdr -> tvx) (h : heap) calls k now t u r s via,
  nth_error calls k = Some (now, t, u) ->
  nth_error (fst (Verify_seq drift tv h calls)) k = Some (XErr r s via) ->
  (s = true <->
   mand_ok now drift t u /\ tv t u <> XOk /\ (adjacent t u = false \/ tvx_soft h (tv t u) = true)).
Proof. exact seq_soft_iff. Qed.

(** non-vacuity, the witness of F32: one kept hard instance, a non-adjacent failure, then an adjacent
    one - the second result is hard (it was soft before dd31b07) *)
Example C01_kept_instance_far_then_adjacent_stays_hard :
  fst (Verify_seq 0%Z (fun _ _ => XShared None 1 8) (fun _ => false)
        [(10%Z, Hdr false 1 5 0%Z 1 0 true, Hdr false 1 9 1%Z 2 0 true);
         (10%Z, Hdr false 1 5 0%Z 1 0 true, Hdr false 1 6 1%Z 3 1 true)])
  = [XErr (RType 8) true None; XErr (RType 8) false None].
Proof. vm_compute. reflexivity. Qed.

(** ... and a kept instance the type created soft stays soft for an adjacent failure *)
Example C01_kept_soft_instance_adjacent_soft :
  fst (Verify_x 10%Z 0%Z (fun _ _ => XShared (Some 4) 1 8) (fun _ => true)
        (Hdr false 1 5 0%Z 1 0 true) (Hdr false 1 6 1%Z 3 1 true))
  = XErr (RType 8) true None.
Proof. vm_compute. reflexivity. Qed.

Print Assumptions C01_x_refines_pure.
Print Assumptions C01_x_accept_iff.
Print Assumptions C01_x_soft_iff.
Print Assumptions C01_x_reject_reason.
Print Assumptions C01_x_wrapper_dropped.
Print Assumptions C01_x_typed_nil_panics_iff.
Print Assumptions C01_x_typed_nil_returned_iff.
Print Assumptions C01_x_no_write.
Print Assumptions C01_x_sequence_no_write.
Print Assumptions C01_x_sequence_is_pure.
Print Assumptions C01_x_soft_iff_in_any_sequence.
