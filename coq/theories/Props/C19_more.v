(** C19, extension: the single flight of sync/sync_head.go and the caller's options.

    Statements only; proofs are in Proofs/SyncHeadP.v. [crun p tv (cinit s) l] runs the thread
    machine of Model/SyncHead.v from the Syncer state [s] over the schedule [l] (any interleaving
    of the atomic actions of Head() callers with clock advances, gossip heads and sync-loop
    progress); [gets_of tr] = the TrustedHead options of the underlying getter.Head calls in
    order of issue -- flight [g] is the [g]-th of them; [c_pc c i = PWait k g]: caller [i], who
    decided it needs a request of kind [k], waits for the result of flight [g]. *)
From GH Require Import Base.Prelude Model.Verify Model.SyncHead Proofs.SyncHeadP.

(** The statement one wants ("(re)initialisation only adopts a head from trusted peers"), over
    ALL parameters, verifiers, states and schedules:

      forall p tv s l, init_joins_only_init_flights p tv s l

    i.e. a caller that decided (re)initialisation (no subjective head, or an expired one) only ever
    waits for -- and so only ever takes the answer of -- a request issued WITHOUT a trusted head.
    It is FALSE of the faithful model of the current code: syncHead.Head ignores the joiner's
    options, a waiter takes whatever the leader's call returned. *)
Theorem C19_init_joins_only_init_flights_refuted :
  ~ (forall (p : params) (tv : hdr -> hdr -> tvres) (s : sstate) (l : list cev),
       init_joins_only_init_flights p tv s l).
Proof. exact f31_not_all. Qed.

(** THE WITNESS (candidate finding F31), in full. Trusting period 100, recency threshold 3*10;
    the subjective head [f31_sbj] (height 17, time 0) is stale but not expired at time 99.
    [f31_l1]: caller 0 calls Head(), decides a stale-head request and opens the flight WITH
    WithTrustedHead(17); 2 ns pass -- the subjective head is now expired; caller 1 calls Head(),
    decides (re)initialisation and joins the open flight. [f31_l2]: the flight is answered with
    [f31_new] (height 20; obtained with the trusted-head option, i.e. possibly from tracked peers,
    verified against the now-expired head); caller 1 takes it, passes the "not expired" test of
    subjectiveHead, and adopts it: it is what caller 1 returns and the new local head -- while the
    only underlying request ever made carried the trusted head. *)
Theorem C19_init_adopts_answer_of_stale_flight_witness :
  (let '(c, tr) := crun f31_p (fun _ _ => TVOk) (cinit f31_s) f31_l1 in
   c_pc c 1%nat = PWait KInit 0 /\ nth_error (gets_of tr) 0 = Some (Some f31_sbj) /\
   decide f31_p (c_s c) = DRequest KInit /\ is_expired f31_p (s_now (c_s c)) f31_sbj = true) /\
  (let '(c, tr) := crun f31_p (fun _ _ => TVOk) (cinit f31_s) (f31_l1 ++ f31_l2) in
   gets_of tr = [Some f31_sbj] /\ In (OGot 1 (GOk f31_new)) tr /\ In (ORet 1 (ROk f31_new)) tr /\
   local_head (c_s c) = Some f31_new).
Proof. exact f31_refuted. Qed.

Print Assumptions C19_init_joins_only_init_flights_refuted.
Print Assumptions C19_init_adopts_answer_of_stale_flight_witness.
