(** C03 - the Syncer only ever stores one contiguous chain of verified headers.

    Model: Model/Syncer.v, the small-step machine: any number of gossip
    verifier calls (serialised by incomingMu as in the code) and Head() calls
    interleaved with the sync loop at the granularity of single accesses to
    the shim's cached head, the pending ranges, the Store, the trigger and the
    getter (DESIGN 3.1 "Concurrency").
    These theorems quantify over EVERY schedule [es : list event] and arbitrary
    inputs: arbitrary gossip headers (forged, forked, wrong chain, future,
    stale, duplicates, any order) at any clock value, verified by header.Verify
    with any type-level verifier [tv]; arbitrary Head() answers; getter range
    answers that are errors, empty, start at a wrong height, are longer than
    requested - anything, as long as a returned list is height-contiguous
    (what the getter contract promises; a sparse list is refused when the shim
    checks it, see C03_sparse_answer_refused); bifurcation verdicts with any
    promoted heads above the tail.  Inputs only carry heights below 2^64-1
    ([wf_event]).  Not modelled: tail pruning, Store.Append failing. *)
From Coq Require Import List.
From GH Require Import Base.Prelude Model.Verify Model.Ranges Model.Syncer
  Proofs.RangesP Proofs.SyncerP Proofs.SyncerInvP Proofs.SyncerLiveP.

Section c03.
Variables (drift : Z) (tv : hdr -> hdr -> tvres).

(** The Store is one gap-free run Tail..Head at every moment of every schedule:
    every height from the tail to Head() is stored, nothing is stored below
    the tail, and whatever is stored above Head() is connected to it through
    headers whose Store.Append is already committed by the shim and in flight
    ([reserved]); when no Append is in flight the stored heights are exactly
    Tail..Head.  The shim's cached head never leaves the chain. *)
Theorem C03_store_contiguous : forall (tail : N) (a : hdr) (l : list hdr) (es : list event),
  consec (a :: l) -> Forall hok (a :: l) -> h_height a = tail ->
  Forall (wf_event tail) es ->
  let c := run drift tv (init_cfg tail (a :: l)) es in
  let s := c_store c in
  rs_tail s = tail /\
  (forall n, tail <= n <= rs_head s -> rs_has n (rs_log s) = true) /\
  (forall n, rs_has n (rs_log s) = true -> tail <= n) /\
  (forall n, rs_has n (rs_log s) = true -> rs_head s < n ->
     forall m, rs_head s < m <= n -> rs_has m (rs_log s) = true \/ In m (map h_height (reserved c))) /\
  (reserved c = [] -> forall n, rs_has n (rs_log s) = true <-> tail <= n <= rs_head s) /\
  tail <= h_height (c_cache c).
Proof. exact (store_contiguous_run drift tv). Qed.

(** Every header the configuration ever holds - in the Store, as the shim's
    head, in the pending ranges (the sync target / localHead), in the sync
    loop's or a learner call's hands - was in the initial store or was let in
    by [enters]: a range answer that passed requestHeaders' checks, a gossip
    header that verify() accepted against the subjective head of that moment
    (directly or through bifurcation), a head bifurcation promoted, a head
    Head() adopted from the trusted getter. *)
Theorem C03_only_allowed_provenance : forall (tail : N) (a : hdr) (l : list hdr) (es : list event) (y : hdr),
  consec (a :: l) -> Forall hok (a :: l) -> h_height a = tail ->
  Forall (wf_event tail) es ->
  let c0 := init_cfg tail (a :: l) in
  In y (all_hdrs (run drift tv c0 es)) ->
  In y (all_hdrs c0) \/
  exists es1 e es2, es = es1 ++ e :: es2 /\ In y (enters drift tv (run drift tv c0 es1) e).
Proof. exact (provenance_run drift tv). Qed.

(** A gossip header whose verification against the subjective head [t] fails
    - hard, or softly with bifurcation refusing - is answered with an error
    (the call's verdict flag is false, and it keeps it until it returns:
    C03_verdict_kept) and is not let in: the only headers that verifier call
    lets in are the ones bifurcation promoted. *)
Theorem C03_rejected_never_target : forall now (pr : list hdr) (ok : bool) (t x : hdr) (e : verr),
  Verify now drift tv t x = Some e -> (ve_soft e = false \/ ok = false) ->
  (forall y, In y (fst (vwork drift tv t x now (Bif pr ok))) -> In y pr) /\
  snd (vwork drift tv t x now (Bif pr ok)) = false /\
  (verdict drift tv now (Bif pr ok) t x = TDone false \/
   exists w r, verdict drift tv now (Bif pr ok) t x = TRun true false w SL0 r /\ forall y, In y (w :: r) -> In y pr).
Proof. exact (refused_verdict drift tv). Qed.

Theorem C03_verdict_kept : forall (i : nat) (c : cfg) mu res x st rest,
  nth_error (c_thr c) i = Some (TRun mu res x st rest) ->
  nth_error (c_thr (t_step drift tv i c)) i = Some (TDone res) \/
  exists x' st' rest', nth_error (c_thr (t_step drift tv i c)) i = Some (TRun mu res x' st' rest').
Proof. exact (res_kept drift tv). Qed.

(** a learner call (gossip verifier, bifurcation promotion, Head() answer) never
    replaces the header at the shim's head: a header of the cached head's height
    with another hash - e.g. a late network head answer after gossip brought that
    height - is refused by the shim (errNonAdjacent, which setLocalHead ignores);
    store, cache, pending and trigger are as before when setLocalHead returns *)
Theorem C03_head_not_replaced : forall (i : nat) (c : cfg) mu res x rest,
  nth_error (c_thr c) i = Some (TRun mu res x SL0 rest) ->
  h_height (c_cache c) < two64 -> h_height x = h_height (c_cache c) -> h_id x <> h_id (c_cache c) ->
  let c1 := t_step drift tv i c in
  let c2 := t_step drift tv i c1 in
  nth_error (c_thr c1) i = Some (TRun mu res x SL3 rest) /\
  c_store c2 = c_store c /\ c_cache c2 = c_cache c /\ c_pend c2 = c_pend c /\ c_trig c2 = c_trig c /\
  nth_error (c_thr c2) i = Some (match rest with [] => TDone res | y :: r => TRun mu res y SL0 r end).
Proof. exact (head_not_replaced drift tv). Qed.

End c03.

(** the shim's check path accepts exactly the lists that walk on from the
    cached head ([wrun]: each header is the rolling head again - same height and
    hash - or one above it); in particular every run consecutive from the head;
    anything else (a sparse or shifted list) is refused as a whole: nothing is
    written, the attempt ends with errNonAdjacent *)
Theorem C03_shim_accepts_iff_run : forall (c : hdr) (hs : list hdr),
  hs <> [] -> (forall y, In y (c :: hs) -> hok y) -> h_height c <= h_height (hd hdr_nil hs) ->
  ((exists nh, shim_check c hs = ShimOk nh) <-> wrun c hs).
Proof. exact shim_check_ok_iff. Qed.

Theorem C03_consecutive_is_run : forall (c : hdr) (hs : list hdr), consec (c :: hs) -> wrun c hs.
Proof. exact consec_wrun. Qed.

Theorem C03_sparse_answer_refused : forall (a : ganswer) (c : cfg) k hs,
  c_loop c = LApp0 k hs -> shim_check (c_cache c) hs = ShimNonAdj ->
  let c' := l_step a c in
  c_store c' = c_store c /\ c_cache c' = c_cache c /\ c_pend c' = c_pend c /\ c_loop c' = LIdle /\
  ss_err (c_state c') = Some SENonAdj.
Proof. exact nonadjacent_refused. Qed.

(** The theorems above speak about every schedule of the machine [step], in
    which each program counter of a syncStore.Append (check / head := / write) is
    a step of its own.  Since /repo 40dc6a8 an Append holds a lock and is ONE step
    ([astep]); every run of [astep] is a run of [step], so everything above holds
    for the code as it is.  With the Append atomic, in addition, for every
    schedule and arbitrary inputs: the shim's head is the highest header ever
    handed to the Store and at quiescence it is the Store's head. *)
Theorem C03_atomic_append_runs_are_runs : forall drift tv (es : list event) (c : cfg),
  exists es', arun drift tv c es = run drift tv c es' /\
    (forall W : event -> Prop, W (EL GErr) -> (forall i, W (ET i)) -> Forall W es -> Forall W es').
Proof. exact arun_run. Qed.

Theorem C03_quiescent_shim_head_is_store_head : forall (tail : N) (c : cfg),
  Ainv tail c -> all_quiet c -> h_height (c_cache c) = rs_head (c_store c).
Proof. exact quiet_shim_is_store. Qed.

(** EVERY schedule of the machine as it is since /repo f604e5b - an Append is one
    step, and an underlying Store.Append may FAIL at will ([XLF]: the sync loop's,
    [XTF i]: learner call i's; nothing has changed when it does: the shim's head
    moves only after the write) - and arbitrary well-formed inputs, in EVERY
    configuration, not only at quiescence: the Store holds exactly the heights
    tail..head (one gap-free run, nothing above the head), nothing above the
    shim's head; Syncer.Head() has not moved back; at quiescence the shim's head
    is the Store's head and, without a pending error, nothing is pending.
    (Before f604e5b a failed write left the shim's head ahead of the Store and
    the next adjacent header was written above a hole: finding F25,
    harness/c03 TestFailedWriteWitness and the corpus cases failwrite_loop /
    failwrite_gossip.) *)
Theorem C03_store_one_run_in_every_state : forall drift tv (tail : N) (a : hdr) (l : list hdr) (xs : list xevent),
  consec (a :: l) -> Forall hok (a :: l) -> h_height a = tail -> Forall (wf_x tail) xs ->
  let c := xrun drift tv (init_cfg tail (a :: l)) xs in
  Ainv tail c /\
  (let s := c_store c in
   rs_tail s = tail /\
   (forall n, tail <= n <= rs_head s -> rs_has n (rs_log s) = true) /\
   (forall n, rs_has n (rs_log s) = true <-> tail <= n <= rs_head s)) /\
  (forall y, In y (rs_log (c_store c)) -> h_height y <= h_height (c_cache c)) /\
  h_height (local_head (init_cfg tail (a :: l))) <= h_height (local_head c) /\
  (all_quiet c -> h_height (c_cache c) = rs_head (c_store c) /\
                  (ss_err (c_state c) = None -> ranges_all (c_pend c) = [] /\ local_head c = c_cache c)).
Proof. exact xrun_safe. Qed.

(** non-vacuity: a schedule with a forged head, a duplicate, a stale head, an
    over-long answer racing a verifier call inside syncStore.Append *)
Example C03_example :
  let tvf := fun t u : hdr => if h_prev u =? h_id t then TVOk else if h_height u =? h_height t + 1 then TVPlain 1 else TVOk in
  let forged := Hdr false 1 19 19%Z 919 918 true in
  let c0 := init_cfg 15 [wch 15; wch 16; wch 17] in
  let es := [ EGossip (wch 30) 100%Z (Bif [] false); ET 0; ET 0; ET 0; ET 0; ET 0; ET 0
            ; EL GErr; EL GErr; EL GErr; EL GErr; EL GErr; EL GErr
            ; EGossip forged 100%Z (Bif [] false); ET 1; ET 1
            ; EL (GList [wch 18; wch 19; wch 20; wch 21]); EL GErr; EL GErr
            ; EGossip (wch 16) 100%Z (Bif [] false); ET 2; ET 2
            ; EL GErr ] in
  let c := run 10%Z tvf c0 es in
  (rs_head (c_store c), h_height (c_cache c), map h_height (reserved c), c_thr c) =
  (21, 21, [], [TDone true; TDone false; TDone false]).
Proof. vm_compute. reflexivity. Qed.

(** the check-then-act window of setLocalHead (the shim's head is compared,
    pending.Add comes later) is inside the machine: a verifier call preempted
    there while Head() learns the next head and the loop syncs it adds a header
    BELOW the store head to pending.  Since /repo dd38a4c localHead reports the
    store head whenever the pending head is not above it, so the late header is
    never the subjective head; since 77026ec the sync it triggers drops it
    (RemoveUpTo) (C07_quiescent_nothing_pending proves that for every
    schedule); before both, it stayed behind as the subjective head for good.
    Replayed on the real code by the always-generated corpus case of
    harness/c03 and by harness/c03/stale_test.go. *)
Example C03_late_add_dropped_example :
  let es1 := [ EGossip (wch 19) 100%Z (Bif [] false); ET 0; ET 0; ET 0; ET 0
            ; EHead (Some (wch 20)); ET 1; ET 1; ET 1; ET 1; ET 1; ET 1; ET 1
            ; EL GErr; EL GErr; EL GErr; EL GErr; EL GErr; EL GErr
            ; EL (GList [wch 18; wch 19]); EL GErr; EL GErr; EL GErr; EL GErr; EL GErr; EL GErr; EL GErr; EL GErr; EL GErr; EL GErr
            ; ET 0; ET 0 ] in
  let es2 := [ EL GErr; EL GErr; EL GErr; EL GErr ] in
  let c1 := run 10%Z (fun _ _ => TVOk) (init_cfg 15 [wch 15; wch 16; wch 17]) es1 in
  let c := run 10%Z (fun _ _ => TVOk) (init_cfg 15 [wch 15; wch 16; wch 17]) (es1 ++ es2) in
  (map (fun r => map h_height (r_hdrs r)) (c_pend c1), rs_head (c_store c1), h_height (local_head c1), c_trig c1) = ([[19]], 20, 20, true) /\
  (c_loop c, ranges_all (c_pend c), rs_head (c_store c), h_height (local_head c), c_trig c) = (LIdle, [], 20, 20, false).
Proof. vm_compute. split; reflexivity. Qed.

Print Assumptions C03_store_contiguous.
Print Assumptions C03_only_allowed_provenance.
Print Assumptions C03_rejected_never_target.
Print Assumptions C03_verdict_kept.
Print Assumptions C03_head_not_replaced.
Print Assumptions C03_atomic_append_runs_are_runs.
Print Assumptions C03_quiescent_shim_head_is_store_head.
Print Assumptions C03_store_one_run_in_every_state.
Print Assumptions C03_shim_accepts_iff_run.
Print Assumptions C03_consecutive_is_run.
Print Assumptions C03_sparse_answer_refused.
