(** C16, second follow-up — the environment fails inside subjectiveTail.

    Props/C16.v proves "still one gap-free chain, nothing outside, for every outcome"
    for a network and a store that never fail. Here the k-th getter call made by
    subjectiveTail (the fetch of the new tail by Get / GetByHeight, then the
    GetRangeByHeight chunks of moveTail's downward doSync) or the k-th store write
    (Store.Append / DeleteRange) fails: [start_step_f f p times now st] is Start()
    with the fault f (Model/Tail.v, section Faults; tied to the real code by the
    extra driver harness/c16/c16_fault_test.go which fails the k-th call for EVERY k
    in 26 shapes of a tail move).

    Result: the property's store clause does NOT survive a failing environment
    ([C16_fault_tail_within_chain_refuted]); what holds for every fault, parameter
    set, chain, clock and well-formed store is the weaker invariant [lwf]
    ([C16_fault_store_partial]): the chain [Tail..Head] is still gap-free inside the
    network chain (or the store is empty), and every header retrievable outside of
    it is a header of the network chain that does not overlap it. The three shapes
    are exhibited, each with the unfaulted retry that repairs it. Statements only;
    proofs are in Proofs/TailP.v. *)
From GH Require Import Base.Prelude Model.Tail Proofs.TailP Oracle.C16.

(** ** 1. No fault (or a fault index beyond the last call): the run of Props/C16.v *)
Theorem C16_fault_none : forall p times now st,
  start_step_f FNone p times now st = start_step p times now st.
Proof. exact start_step_f_none. Qed.

(** ** 2. A fault never passes silently — FULL: either the run is exactly the
    unfaulted one (the fault did not fire) or Start reports an error; never a panic,
    never a half-done move reported as success *)
Theorem C16_fault_surfaces : forall f p times now st,
  start_step_f f p times now st = start_step p times now st \/
  o_out (start_step_f f p times now st) = OErr.
Proof. exact start_step_f_out. Qed.

(** ** 3. The store after a faulted run — PARTIAL with respect to the property
    text (full statement: [wf (o_store ...) n], refuted below); FULL for the
    weaker invariant: every fault, parameter set, chain, clock, well-formed store *)
Theorem C16_fault_store_partial : forall f p times now st,
  let n := net_head times in
  wf st n -> n + 2 < two64 ->
  lwf (o_store (start_step_f f p times now st)) n.
Proof. exact start_step_f_store. Qed.

(** ** 4. REFUTED: a well-formed non-empty store, a failing Store.Append after the
    wipe of restartFromTail: Start fails and the store is EMPTY with the new tail
    left as a detached header (not one gap-free chain, no 1 <= Tail <= Head) *)
Theorem C16_fault_tail_within_chain_refuted :
  exists f p times now st,
    wf st (net_head times) /\ net_head times + 2 < two64 /\ s_tail st <> 0 /\
    o_out (start_step_f f p times now st) = OErr /\
    ~ wf (o_store (start_step_f f p times now st)) (net_head times) /\
    s_tail (o_store (start_step_f f p times now st)) = 0.
Proof. exact fault_refutes_chain. Qed.

(** the three shapes (store [90..95] resp. [1..50], network head 100), each followed
    by the unfaulted retry with the same parameters, which ends in one chain again *)
Example C16_fault_island_below_tail :
  start_step_f (FGet 2) (wf_params 24) wf_times wf_now (Store 90 95 []) =
    Obs OErr [24] (Store 90 95 (hseq 24 65)) /\
  start_step (wf_params 24) wf_times wf_now (Store 90 95 (hseq 24 65)) = Obs OOk [] (Store 24 100 []).
Proof. exact wfault_island. Qed.

Example C16_fault_detached_tail :
  start_step_f (FWrite 1) (wf_params 80) wf_times wf_now (Store 1 50 []) = Obs OErr [80] (Store 1 50 [80]) /\
  start_step (wf_params 80) wf_times wf_now (Store 1 50 [80]) = Obs OOk [80] (Store 80 100 []).
Proof. exact wfault_detached. Qed.

Example C16_fault_emptied_store :
  start_step_f (FWrite 2) (wf_params 80) wf_times wf_now (Store 1 50 []) = Obs OErr [80] (Store 0 0 [80]) /\
  start_step (wf_params 80) wf_times wf_now (Store 0 0 [80]) = Obs OOk [80] (Store 80 100 []).
Proof. exact wfault_emptied. Qed.

(** ** 5. The oracle of the fault driver and the model *)
Theorem C16_fault_oracle_store : forall f p times now st,
  wf st (net_head times) -> net_head times + 2 < two64 ->
  loose_store_ok times (o_store (start_step_f f p times now st)) = true.
Proof. exact model16f_loose. Qed.

(** ** 6. The gossip verifier closure that Start registers with the Subscriber
    (incomingNetworkHead(h), then subjectiveTail(h) whose error is only logged):
    [gossip_step p times st] — FULL: every parameter set, chain, store *)
Theorem C16_gossip_no_panic : forall p times st, o_out (gossip_step p times st) <> OPanic.
Proof. exact gossip_no_panic. Qed.

(** a head above the local head and not older than it is never refused, whatever
    subjectiveTail does with it (its errors are not the gossip's business) *)
Theorem C16_gossip_accepts : forall p times st,
  st_empty st = false -> s_head st < net_head times ->
  (tm0 times (s_head st) <= tm0 times (net_head times))%Z ->
  o_out (gossip_step p times st) = OOk.
Proof. exact gossip_accepts. Qed.

(** the store afterwards is one gap-free chain, for every outcome *)
Theorem C16_gossip_tail_within_chain : forall p times st,
  let n := net_head times in
  wf st n -> n + 2 < two64 -> params_valid p = true ->
  wf (o_store (gossip_step p times st)) n /\ (s_tail st <> 0 -> s_tail (o_store (gossip_step p times st)) <> 0).
Proof. exact gossip_store. Qed.

(** ** 7. The GetRangeByHeight requests of moveTail's downward sync from the new
    tail [cur] to the old tail [t], with any fault: never a hash request, each for
    at least one and at most 64 headers, all between the new and the old tail *)
Theorem C16_down_requests_between_tails : forall f t fuel g w cur r,
  In r (down_reqs fuel f g w cur t) ->
  match r with
  | GHash _ => False
  | GRange a b => cur <= a /\ a + 1 < b /\ b <= a + chunk_size + 1 /\ b <= t + 1
  end.
Proof. exact down_reqs_bounds. Qed.

Example C16_down_requests_nonvacuous :
  start_reqs (FGet 2) (wf_params 24) wf_times wf_now (Store 90 95 []) = [GRange 24 89; GRange 88 91].
Proof. vm_compute. reflexivity. Qed.

(** ** 8. A failing getter loses no header — FULL: whatever getter call of subjectiveTail
    fails (the fetch of the new tail or any chunk of the downward sync), every header
    retrievable before is still retrievable afterwards *)
Theorem C16_getter_fault_loses_nothing : forall k p times st o h,
  wf st (net_head times) ->
  subjective_tail_fault (FGet k) p times st = Some o ->
  st_has st h = true -> st_has (o_store o) h = true.
Proof. exact getter_fault_keeps. Qed.

Print Assumptions C16_fault_none.
Print Assumptions C16_fault_surfaces.
Print Assumptions C16_fault_store_partial.
Print Assumptions C16_fault_tail_within_chain_refuted.
Print Assumptions C16_fault_oracle_store.
Print Assumptions C16_gossip_no_panic.
Print Assumptions C16_gossip_accepts.
Print Assumptions C16_gossip_tail_within_chain.
Print Assumptions C16_down_requests_between_tails.
Print Assumptions C16_getter_fault_loses_nothing.
