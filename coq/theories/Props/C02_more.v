(** C02, audit follow-up - what the ROLLING trusted header of VerifyRange gives: every returned
    header was checked against its predecessor, so times and heights are ordered along the result
    and - under the hash-link policy of the harness header type (vlink_tv, twin of
    vhdr.LinkPolicy) - the result is hash-linked. Statements only; proofs in Proofs/VerifyP.v. *)
From GH Require Import Base.Prelude Model.Verify Proofs.VerifyP.

(** times never decrease and heights strictly increase along trusted :: result, for every verifier *)
Theorem C02_times_and_heights_ordered : forall now drift tv (t : hdr) (l : list hdr),
  times_from t (fst (VerifyRange now drift tv t l)) /\ heights_from t (fst (VerifyRange now drift tv t l)).
Proof. exact range_times_heights. Qed.

(** every returned header is non-nil, on the trusted chain, above trusted, inside [trusted.T, now+drift] *)
Theorem C02_all_in_window : forall now drift tv (t : hdr) (l : list hdr) (u : hdr),
  In u (fst (VerifyRange now drift tv t l)) ->
  h_nil u = false /\ h_chain u = h_chain t /\ h_height t < h_height u /\
  (h_time t <= h_time u <= now + drift)%Z.
Proof. exact range_all_in_window. Qed.

(** under the link policy the result is hash-linked from its second element on - the type-level
    check saw the predecessor, not the original trusted header - and linked to trusted as well when
    its first element is adjacent to it *)
Theorem C02_link_policy_hash_linked : forall trust now drift (t : hdr) (l : list hdr),
  let v := fst (VerifyRange now drift (vlink_tv trust) t l) in
  match v with
  | [] => True
  | a :: r => linked_from a r /\ (wrap64 (h_height t + 1) = h_height a -> h_prev a = h_id t)
  end.
Proof. exact range_link_policy. Qed.

(** non-vacuity: a header at the right height that names another parent ends the result before it,
    although it passes every check against the ORIGINAL trusted header *)
Example C02_badlink_cut :
  let h n p := Hdr false 1 n 0%Z n p true in
  VerifyRange 0%Z 0%Z (vlink_tv 0) (h 100 99) [h 101 100; h 102 77; h 103 102]
    = ([h 101 100], Some (VErr (RType 1) false)) /\
  Verify 0%Z 0%Z (vlink_tv 0) (h 100 99) (h 102 77) = None.
Proof. split; vm_compute; reflexivity. Qed.

Print Assumptions C02_times_and_heights_ordered.
Print Assumptions C02_all_in_window.
Print Assumptions C02_link_policy_hash_linked.
