(** C13 - Exchange.Get / Exchange.GetByHeight return only validated, correctly
    bound headers.

    Universe of the statements: every header type (wire bodies [B], codec
    [decode : B -> dres] which may fail AND may panic - Exchange.request
    recovers, a panicking body is an ordinary bad answer), every
    case-folding [fold] of chain ids, every configured chain id [want]
    (0 = none), every number [n] of trusted peers, and every event list [evs]:
    arbitrary answers of the peers ([SFail]: the stream cannot be opened;
    [SData fs e]: arbitrary frames with arbitrary status codes and bodies, then
    a clean end or a read error - truncation, oversize, garbage, reset, hang
    until the deadline) in ANY arrival order, interleaved anywhere with the end
    of the caller's context and the stop of the Exchange.  [Ok h] is the Go
    result (h, nil); [Err e] is (zero, e).

    Vocabulary (Proofs/RequestP.v):
      frame_carries want f h   := f_status f = OK /\ decode (f_body f) = DHdr h /\
                                  h_ok h = true (Validate) /\ chain_accepted want (h_chain h)
      answers_validly want s h := s = SData (f :: _) _ with frame_carries want f h
      answers_badly want s     := forall h, ~ answers_validly want s h
      first_valid_answer want n evs s h :=
          evs = map Arrive pre ++ Arrive s :: post, |pre| < n, all of pre answer badly,
          s answers validly with h
      codec_nonzero := forall b h, decode b = DHdr h -> h_nil h = false *)
From GH Require Import Base.Prelude Model.Request Proofs.RequestP.

(** the vocabulary means what the comment above says *)
Theorem C13_vocabulary : forall (B : Type) (decode : B -> dres) (fold : N -> N) want n evs s h,
  (answers_validly B decode fold want s h <->
     exists f rest e, s = SData (f :: rest) e /\ f_status f = status_OK /\
       decode (f_body f) = DHdr h /\ h_ok h = true /\ (want = 0 \/ fold want = fold (h_chain h))) /\
  (first_valid_answer B decode fold want n evs s h <->
     exists pre post, evs = map Arrive pre ++ Arrive s :: post /\ (length pre < n)%nat /\
       Forall (fun s' => forall h', ~ answers_validly B decode fold want s' h') pre /\
       answers_validly B decode fold want s h).
Proof. exact vocabulary. Qed.

(** Get(hash) returns a header whose Hash() equals the requested hash, or an error *)
Theorem C13_get_binds_hash : forall (B : Type) (decode : B -> dres) (fold : N -> N) want n evs hash h,
  get B decode fold want n evs hash = Ok h -> h_id h = hash.
Proof. exact get_binds_hash. Qed.

(** Get and GetByHeight return only a header that decoded, passed Validate and
    carries the configured chain id, taken from the first trusted peer (in
    arrival order) that answers validly. *)
Theorem C13_only_validated : forall (B : Type) (decode : B -> dres) (fold : N -> N) want n evs hash height h,
  (get B decode fold want n evs hash = Ok h ->
     exists s, first_valid_answer B decode fold want n evs s h) /\
  (get_by_height B decode fold want n evs height = Ok h ->
     height <> 0 /\ exists s, first_valid_answer B decode fold want n evs s h).
Proof. exact only_validated. Qed.

(** conversely the first valid answer wins: GetByHeight returns it, Get returns
    it iff it has the requested hash (no later, better answer is waited for) *)
Theorem C13_first_valid_wins : forall (B : Type) (decode : B -> dres) (fold : N -> N) want n evs s h hash height,
  first_valid_answer B decode fold want n evs s h ->
  get B decode fold want n evs hash = (if h_id h =? hash then Ok h else Err EHash) /\
  (height <> 0 -> get_by_height B decode fold want n evs height = Ok h).
Proof. exact first_valid_wins. Qed.

(** when all [n] trusted peers have answered and none validly (any subset
    failing, lying, sending garbage), both calls fail with an error: "no trusted
    peers" for n = 0, otherwise the error of the peer that answered last *)
Theorem C13_all_bad_is_error : forall (B : Type) (decode : B -> dres) (fold : N -> N) want n ss rest hash height,
  length ss = n -> Forall (answers_badly B decode fold want) ss ->
  (exists e, get B decode fold want n (map Arrive ss ++ rest) hash = Err e) /\
  (exists e, get_by_height B decode fold want n (map Arrive ss ++ rest) height = Err e) /\
  (exists e, perform B decode fold want 1 n (map Arrive ss ++ rest) = Err e /\
     (n = O -> e = ENoPeers) /\
     (forall d, n <> O -> request B decode fold want 1 (List.last ss d) = Err e)).
Proof. exact all_bad_full. Qed.

(** the caller's context ends, or the Exchange is stopped, before any valid answer: error *)
Theorem C13_ended_is_error : forall (B : Type) (decode : B -> dres) (fold : N -> N) want n pre rest hash height,
  (length pre < n)%nat -> Forall (answers_badly B decode fold want) pre ->
  get B decode fold want n (map Arrive pre ++ CtxDone :: rest) hash = Err ECtx /\
  get B decode fold want n (map Arrive pre ++ ExStopped :: rest) hash = Err EStopped /\
  (height <> 0 ->
     get_by_height B decode fold want n (map Arrive pre ++ CtxDone :: rest) height = Err ECtx /\
     get_by_height B decode fold want n (map Arrive pre ++ ExStopped :: rest) height = Err EStopped).
Proof. exact ended_is_error. Qed.

(** GetByHeight(0) is an error, whatever the peers do *)
Theorem C13_height_zero_is_error : forall (B : Type) (decode : B -> dres) (fold : N -> N) want n evs,
  get_by_height B decode fold want n evs 0 = Err EHeightZero.
Proof. exact height_zero_is_error. Qed.

(** never a zero header with a nil error (for header types whose decoded
    headers are not IsZero - true of every pointer type with a nil-check IsZero) *)
Theorem C13_never_zero_nil : forall (B : Type) (decode : B -> dres) (fold : N -> N) want n evs hash height h,
  codec_nonzero B decode ->
  (get B decode fold want n evs hash = Ok h \/ get_by_height B decode fold want n evs height = Ok h) ->
  h_nil h = false.
Proof. exact never_zero_nil. Qed.

(** no response list - empty, truncated, oversized, unknown status code,
    arbitrary bytes - makes the client panic, for EVERY codec, including one
    whose UnmarshalBinary panics on some bodies (Exchange.request recovers) *)
Theorem C13_total : forall (B : Type) (decode : B -> dres) (fold : N -> N) want n evs hash height,
  get B decode fold want n evs hash <> Panic /\ get_by_height B decode fold want n evs height <> Panic.
Proof. exact total. Qed.

(** a response body on which the codec panics is a bad answer like any other
    (with C13_first_valid_wins: the next valid answer still wins; with
    C13_all_bad_is_error: if it is the last one its recovered error is returned) *)
Theorem C13_panic_body_is_bad_answer : forall (B : Type) (decode : B -> dres) (fold : N -> N) want f rest e,
  decode (f_body f) = DPanic ->
  answers_badly B decode fold want (SData (f :: rest) e) /\
  (f_status f = status_OK -> request B decode fold want 1 (SData (f :: rest) e) = Err EPanic).
Proof. exact panic_body_is_bad. Qed.

(** once all n answers (or a context end) have been delivered the calls have returned *)
Theorem C13_returns : forall (B : Type) (decode : B -> dres) (fold : N -> N) want n evs hash height,
  (n <= length evs)%nat ->
  get B decode fold want n evs hash <> Blocks /\ get_by_height B decode fold want n evs height <> Blocks.
Proof. exact returns_when_all_arrive. Qed.

(** Exchange.request for any Amount (also used by Head): at least one and at
    most Amount headers, each carried by a frame of the peer's stream *)
Theorem C13_request_sound : forall (B : Type) (decode : B -> dres) (fold : N -> N) want amount s hs,
  request B decode fold want amount s = Ok hs ->
  hs <> [] /\ (length hs <= amount)%nat /\
  exists fs e, s = SData fs e /\
    Forall (fun h => exists f, In f fs /\ frame_carries B decode fold want f h) hs.
Proof. exact request_sound. Qed.

(** ** Non-vacuity *)
Definition ex_h (chain id : N) (ok : bool) : hdr := Hdr false chain 7 1000%Z id 2 ok.
Definition ex_id (d : dres) : dres := d.
Definition ex_fold (c : N) : N := c / 16.

(** a lying peer (other hash), a wrong-chain peer, an invalid header and garbage
    arrive before the honest peer: Get returns the honest answer *)
Example C13_mixed_peers :
  get dres ex_id ex_fold 16 5
    [Arrive (SData [Frame 1%Z DErr] EndEOF);
     Arrive (SData [Frame 1%Z (DHdr (ex_h 32 1 true))] EndEOF);
     Arrive (SData [Frame 1%Z (DHdr (ex_h 16 1 false))] EndEOF);
     Arrive (SData [] EndErr);
     Arrive (SData [Frame 1%Z (DHdr (ex_h 17 1 true)); Frame 9%Z DErr] EndErr)] 1
  = Ok (ex_h 17 1 true).
Proof. vm_compute. reflexivity. Qed.

(** the first valid answer has another hash: Get fails although a later peer is honest *)
Example C13_first_valid_wrong_hash :
  get dres ex_id ex_fold 16 2
    [Arrive (SData [Frame 1%Z (DHdr (ex_h 16 9 true))] EndEOF);
     Arrive (SData [Frame 1%Z (DHdr (ex_h 16 1 true))] EndEOF)] 1 = Err EHash /\
  get_by_height dres ex_id ex_fold 16 2
    [Arrive (SData [Frame 1%Z (DHdr (ex_h 16 9 true))] EndEOF);
     Arrive (SData [Frame 1%Z (DHdr (ex_h 16 1 true))] EndEOF)] 7 = Ok (ex_h 16 9 true).
Proof. split; vm_compute; reflexivity. Qed.

(** a body on which the codec panics is just a bad answer: alone it yields an
    error, and the next valid answer still wins *)
Example C13_codec_panic_is_a_bad_answer :
  get dres ex_id ex_fold 16 1 [Arrive (SData [Frame 1%Z DPanic] EndEOF)] 1 = Err EPanic /\
  get dres ex_id ex_fold 16 2
    [Arrive (SData [Frame 1%Z DPanic] EndEOF);
     Arrive (SData [Frame 1%Z (DHdr (ex_h 16 1 true))] EndEOF)] 1 = Ok (ex_h 16 1 true) /\
  get_by_height dres ex_id ex_fold 16 2
    [Arrive (SData [Frame 1%Z DPanic] EndEOF);
     Arrive (SData [Frame 1%Z (DHdr (ex_h 16 1 true))] EndEOF)] 7 = Ok (ex_h 16 1 true).
Proof. repeat split; vm_compute; reflexivity. Qed.

Print Assumptions C13_vocabulary.
Print Assumptions C13_get_binds_hash.
Print Assumptions C13_only_validated.
Print Assumptions C13_first_valid_wins.
Print Assumptions C13_all_bad_is_error.
Print Assumptions C13_ended_is_error.
Print Assumptions C13_height_zero_is_error.
Print Assumptions C13_never_zero_nil.
Print Assumptions C13_total.
Print Assumptions C13_panic_body_is_bad_answer.
Print Assumptions C13_returns.
Print Assumptions C13_request_sound.
