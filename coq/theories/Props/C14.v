(** C14 placeholder while the refinement proof is being written *)
From GH Require Import Base.Prelude Model.Store Model.StoreSpec.
Theorem C14_placeholder : True. Proof. exact I. Qed.
Print Assumptions C14_placeholder.
