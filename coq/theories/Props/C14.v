(** C14 — OnDelete handlers run once per removed header, before it becomes unreadable.

    Setting as in Props/C04.v and Props/C08.v: [s := run c (st0 b) ops] is the state after ANY
    history (flushed and unflushed headers, earlier partial and whole-store deletions, restarts);
    [delete_range s (script_of fails) nh from to = (s', log, out)] is DeleteRange(from, to) with
    [nh] registered handlers, handler [j] failing (error, or panic caught by the recover wrapper)
    at height [n] iff [script_of fails j n <> HOk]; [log] is the list of handler invocations
    [HCall handler height readable] in call order, where [readable] records whether
    GetByHeight(height) returned that header at the moment of the call.
    [count_call j n log] = number of calls of handler [j] for height [n]. *)
From Coq Require Import NArith List Bool.
From stdpp Require Import gmap.
From GH Require Import Base.Prelude Model.Store Model.StoreSpec Oracle.StoreCase.
From GH Require Import Proofs.StoreP Proofs.StoreMainP Proofs.StoreC04P Proofs.StoreC08P Proofs.StoreC14P.
Import ListNotations.
Open Scope N_scope.

(** for every header a DeleteRange removes (readable before, not readable after) each
    registered handler was called exactly once with that height, and returned nil *)
Theorem C14_handlers_once_per_removed_header : forall c U, chain_hyps c U -> forall b ops, Forall (op_ok U) ops ->
  forall from to nh fails s' log out,
  let s := run c (st0 b) ops in
  delete_range s (script_of fails) nh from to = (s', log, out) ->
  forall n, get_by_height s n = Found (c n) -> (forall h, get_by_height s' n <> Found h) ->
  forall j, (j < nh)%nat -> count_call j n log = 1%nat /\ script_of fails j n = HOk.
Proof. exact @hist_handlers_once. Qed.

(** every handler call was made while the header was still readable through GetByHeight
    ([readable] recorded at call time), for a registered handler, a height of the range whose
    header existed; and unless DeleteRange failed, that header is gone afterwards *)
Theorem C14_called_while_readable : forall c U, chain_hyps c U -> forall b ops, Forall (op_ok U) ops ->
  forall from to nh fails s' log out,
  let s := run c (st0 b) ops in
  delete_range s (script_of fails) nh from to = (s', log, out) ->
  forall x, In x log ->
  hc_readable x = true /\ (hc_handler x < nh)%nat /\ from <= hc_height x < to /\
  get_by_height s (hc_height x) = Found (c (hc_height x)) /\
  ((forall h, get_by_height s' (hc_height x) <> Found h) \/ out = Fail).
Proof. exact @hist_calls_readable. Qed.

(** if a handler returns an error or panics (an accepted range returning an error), the header
    [k] it failed for is NOT removed and remains readable by height and hash; the handlers up
    to the failing one [j] were called once for it, the later ones not at all; everything
    before [k] had been removed *)
Theorem C14_failure_keeps_header : forall c U, chain_hyps c U -> forall b ops, Forall (op_ok U) ops ->
  forall from to nh fails s' log hd tl,
  let s := run c (st0 b) ops in
  headp s = Some hd -> tailp s = Some tl -> valid_shape (h_height tl) (h_height hd) from to ->
  delete_range s (script_of fails) nh from to = (s', log, Fail) ->
  exists k j, from <= k < to /\ (j < nh)%nat /\ script_of fails j k <> HOk /\
    get_by_height s' k = Found (c k) /\ get s' (h_id (c k)) = Found (c k) /\
    (forall i, count_call i k log = if (i <=? j)%nat then 1%nat else 0%nat) /\
    (forall n, from <= n < k -> forall h, get_by_height s' n <> Found h).
Proof. exact @hist_failure_keeps_header. Qed.

(** the error is returned, never a crash: DeleteRange does not panic in ANY state with ANY handlers *)
Theorem C14_never_panics : forall s script nh from to,
  snd (delete_range s script nh from to) <> Panic.
Proof. exact delete_never_panics. Qed.

(** a retry of a tail-side deletion (from the new Tail [k]) invokes every handler for [k] again *)
Theorem C14_retry_calls_again : forall c U, chain_hyps c U -> forall b ops, Forall (op_ok U) ops ->
  forall from to nh fails s1 log1 hd tl,
  let s := run c (st0 b) ops in
  headp s = Some hd -> tailp s = Some tl -> from = h_height tl ->
  valid_shape (h_height tl) (h_height hd) from to ->
  delete_range s (script_of fails) nh from to = (s1, log1, Fail) ->
  exists k, from <= k < to /\ tailp s1 = Some (c k) /\
    forall nh' fails', no_fail_in fails' k to ->
    exists s2 log2, delete_range s1 (script_of fails') nh' k to = (s2, log2, Ok) /\
      forall j, (j < nh')%nat -> count_call j k log2 = 1%nat.
Proof. exact @hist_retry_calls_again. Qed.

(** non-vacuity: two handlers; whole-store deletion over flushed (1, 2) and pending (3)
    headers; handler 1 panics at height 2 *)
Example C14_history :
  let c := simple_chain in
  let s := run c (st0 2) [IAppend [1; 2]; IAppend [3]] in
  let '(s1, lg1, out1) := delete_range s (script_of [(1%nat, 2, true)]) 2 1 4 in
  out1 = Fail /\
  lg1 = [HCall 0 1 true; HCall 1 1 true; HCall 0 2 true; HCall 1 2 true] /\
  get_by_height s1 2 = Found (c 2) /\ get_by_height s1 1 = NotFound /\
  let '(s2, lg2, out2) := delete_range s1 (script_of []) 2 2 4 in
  out2 = Ok /\ lg2 = [HCall 0 2 true; HCall 1 2 true; HCall 0 3 true; HCall 1 3 true] /\
  headp s2 = None.
Proof. vm_compute. repeat split. Qed.

Print Assumptions C14_handlers_once_per_removed_header.
Print Assumptions C14_called_while_readable.
Print Assumptions C14_failure_keeps_header.
Print Assumptions C14_never_panics.
Print Assumptions C14_retry_calls_again.
