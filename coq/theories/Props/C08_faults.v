(** C08 (with C14, C06) — failing datastore writes INSIDE DeleteRange (finding F29).

    [delete_range_f ctxf wf s script nh from to] (Model/StoreFault.v) is DeleteRange(from, to) on the
    datastore flavour [ctxf] ([false] = plain, [true] = context-aware: the deletes of a pass sit in one write
    batch) during which the write ATTEMPTS whose indices (counted from the start of the call) are listed in
    [wf] fail: Sync's flush commit (retried by the flush loop), the head side's pre-persisted pointers, the
    ONE delete entry [hash key; height key] of each header (repo fix of F29: deleteKeys), the commit of the
    write batch, the pointer writes of setTail / setHead / wipe / the head-key restore.  It returns the error
    where the code returns it and leaves memory and datastore as the code leaves them.

    WHAT IS PROVED HERE (for every state, every range, every handler script, every placement of failures):
    the all-succeeding plain case IS Model/Store.v's [delete_range] (so every theorem of Props/C04 C06 C08 C14
    speaks about it); a failing attempt changes neither memory nor datastore nor the write log; on a plain
    datastore a pass that stops — at a failing handler or at a failing delete entry — leaves the Store exactly
    as the complete fault-free pass over the heights below the stopping point (no "hash deleted, index still
    there" state exists any more); on a context-aware datastore the pass writes nothing and its one commit
    applies all buffered deletes or none.

    WHAT IS NOT PROVED (checked on every run by the relational oracle of Oracle/StoreFault.v on the
    implementation's observations — every single-failure placement on both sides and the whole store, both
    flavours, plus random placements; Model/StoreFault.v reproduces every one of them): the clauses
      (a) outside the range untouched, (b) Tail and Head resolve by height and by hash with Tail <= Head and
      all of [Tail, Head] readable, (c) the retry of a tail-side deletion completes it, (d) handlers only for
      readable headers, also on the retry, (e) the disk invariant of C06 after every write-log entry
    for EVERY reachable store as theorems over [delete_range_f].  The route is laid by
    [C08f_stopped_pass_is_a_shorter_pass]: the state after the loop is the state after the successful
    DeleteRange(from, k) of Props/C08.v, to which setTail / setHead with possibly failing pointer writes
    is applied.

    ONE CLAUSE IS FALSE of the repaired code and is stated as refuted below: a clean Stop/Start does not
    preserve Tail (or Head) after a failing POINTER write inside DeleteRange (finding F33). *)
From Coq Require Import NArith List Bool.
From stdpp Require Import gmap.
From GH Require Import Base.Prelude Model.Store Model.StoreFault.
From GH Require Import Proofs.StoreC04P Proofs.StoreFaultP.
Import ListNotations.
Open Scope N_scope.

(** No write fails, plain datastore: DeleteRange with a failure oracle is DeleteRange (state, write log,
    handler log and outcome). *)
Theorem C08f_no_failure_is_delete_range : forall s script nh from to,
  delete_range_f false [] s script nh from to = delete_range s script nh from to.
Proof. exact delete_range_f_nofail. Qed.

(** A write attempt either fails and changes nothing at all (memory, datastore, write log), or is the
    atomic write of the fault-free model. *)
Theorem C08f_failing_write_changes_nothing : forall wf s a w,
  wtry wf s a w = (s, S a, false) \/ wtry wf s a w = (write s w, S a, true).
Proof. exact wtry_cases. Qed.

(** Plain datastore, any placement of failures: whatever makes deleteSequential stop at height [actual]
    (a failing handler, the failing delete entry of that header, or the end of the range), the Store is
    then EXACTLY in the state the complete fault-free pass over [from, actual) produces — every header below
    [actual] is gone by hash AND by height, every header from [actual] on is there by hash AND by height. *)
Theorem C08f_stopped_pass_is_a_shorter_pass : forall wf script nh cnt s a from log s' a' wb' log' actual ok,
  delete_seq_f false wf s a [] script nh from cnt log = (s', a', wb', log', actual, ok) ->
  wb' = [] /\ from <= actual <= from + N.of_nat cnt /\ (ok = true -> actual = from + N.of_nat cnt) /\
  exists l, delete_seq s script nh from (N.to_nat (actual - from)) log = (s', l, actual, true).
Proof. exact delete_seq_f_plain_trunc. Qed.

(** Context-aware datastore: the pass touches neither the datastore nor the write log nor the pointers ... *)
Theorem C08f_ctx_pass_writes_nothing : forall wf script nh cnt s a wb from log s' a' wb' log' actual ok,
  delete_seq_f true wf s a wb script nh from cnt log = (s', a', wb', log', actual, ok) ->
  a' = a /\ wlog s' = wlog s /\ d_hdr s' = d_hdr s /\ d_idx s' = d_idx s /\ d_head s' = d_head s /\ d_tail s' = d_tail s /\
  headp s' = headp s /\ tailp s' = tailp s /\ hsh s' = hsh s.
Proof. exact delete_seq_f_ctx_disk. Qed.

(** ... and its one commit applies every buffered delete or none of them. *)
Theorem C08f_ctx_commit_all_or_nothing : forall wf s a script nh from cnt s2 a2 log actual ok,
  delete_raw_f true wf s a script nh from cnt = (s2, a2, log, actual, ok) ->
  exists s1 wb, wlog s1 = wlog s /\ d_hdr s1 = d_hdr s /\ d_idx s1 = d_idx s /\
    (s2 = s1 \/ (wb <> [] /\ s2 = write s1 wb)).
Proof. exact delete_raw_f_ctx_all_or_nothing. Qed.

(** non-vacuity, and the witness of F29 on the repaired code: 10 headers, batch 4, plain datastore,
    DeleteRange(1, 6) with the 4th write attempt failing (now the delete entry of header 4): an error,
    Tail = 4, Head = 10, every height of [4, 10] readable by height and by hash, 1..3 gone both ways;
    the retry DeleteRange(4, 6) completes the deletion.  Head-side twin: DeleteRange(6, 11), 3rd attempt. *)
Definition f29_store : st := fst (append (st0 4) (map simple_chain [1; 2; 3; 4; 5; 6; 7; 8; 9; 10])).
Definition f29_obs (s : st) :=
  (option_map h_height (tailp s), option_map h_height (headp s),
   map (fun n => (match get_by_height s n with Found _ => true | _ => false end,
                  match get s (h_id (simple_chain n)) with Found _ => true | _ => false end))
       [1; 2; 3; 4; 5; 6; 7; 8; 9; 10]).
Example C08f_witness_tail :
  let '(s1, _, out1) := delete_range_f false [3%nat] f29_store (fun _ _ => HOk) 0 1 6 in
  let '(s2, _, out2) := delete_range s1 (fun _ _ => HOk) 0 4 6 in
  (out1, f29_obs s1, out2, f29_obs s2) =
  (Fail, (Some 4, Some 10, [(false, false); (false, false); (false, false); (true, true); (true, true);
                            (true, true); (true, true); (true, true); (true, true); (true, true)]),
   Ok, (Some 6, Some 10, [(false, false); (false, false); (false, false); (false, false); (false, false);
                          (true, true); (true, true); (true, true); (true, true); (true, true)])).
Proof. vm_compute. reflexivity. Qed.
Example C08f_witness_head :
  let '(s1, _, out1) := delete_range_f false [2%nat] f29_store (fun _ _ => HOk) 0 6 11 in
  (out1, f29_obs s1) =
  (Fail, (Some 1, Some 5, [(true, true); (true, true); (true, true); (true, true); (true, true);
                           (false, false); (true, true); (true, true); (true, true); (true, true)])).
Proof. vm_compute. reflexivity. Qed.

(** FALSE of the repaired code (finding F33, open): "a clean Stop/Start preserves Tail and Head also after a
    DeleteRange in which a write failed".  Witness: the Put(tail key) of setTail fails (attempt 5 of
    DeleteRange(1, 6) above): in memory Tail = 6; the persisted tail key still names header 1, which is
    deleted; Stop has nothing pending and writes no pointer; Start drops the dangling key: Tail is lost. *)
Theorem C08f_clean_restart_after_failed_pointer_write_refuted :
  exists s wf from to,
    let '(s1, _, _) := delete_range_f false wf s (fun _ _ => HOk) 0 from to in
    let '(s2, _, _) := step s1 ORestart in
    option_map h_height (tailp s1) = Some 6 /\ option_map h_height (headp s1) = Some 10 /\
    tailp s2 = None /\ option_map h_height (headp s2) = Some 10.
Proof. exists f29_store, [5%nat], 1, 6. vm_compute. auto. Qed.

Print Assumptions C08f_no_failure_is_delete_range.
Print Assumptions C08f_failing_write_changes_nothing.
Print Assumptions C08f_stopped_pass_is_a_shorter_pass.
Print Assumptions C08f_ctx_pass_writes_nothing.
Print Assumptions C08f_ctx_commit_all_or_nothing.
Print Assumptions C08f_clean_restart_after_failed_pointer_write_refuted.
