(** C04 — Store is a gap-free chain Tail..Head with consistent height and hash lookups.

    Setting.  [c : N -> hdr] is one chain over the heights [1, U] with
    [chain_hyps c U]: U < 2^64 - 1, [h_height (c n) = n], hashes injective,
    [h_prev (c (n+1)) = h_id (c n)], [h_prev (c 1)] is no hash of the chain.
    A history [ops : list iop] is any sequence of
      [IAppend ns]            Append of the chain headers of the heights [ns]
                              (any order, gaps, repeats; heights in [1, U]: [op_ok]),
      [IDelete from to nh fails]  DeleteRange(from, to) with [nh] OnDelete handlers failing
                              (error or panic) at the scripted (handler, height) pairs,
      [IRestart] / [IReopen]  Stop; Start on the same object / on a new Store over the datastore,
    applied by the model [Model/Store.v] ([run c (st0 b) ops], batch size [b], every
    operation at write-queue quiescence = after Store.Sync) and, in parallel, by the abstract
    specification [Model/StoreSpec.v] ([run_spec spec0 ops]: the set of stored heights and
    the two ends of the contiguous run).  The 2Q caches are not part of the model state
    (see Model/Store.v); the harness runs cache sizes 1, 2, 8, 512 against it. *)
From Coq Require Import NArith List Bool.
From stdpp Require Import gmap.
From GH Require Import Base.Prelude Model.Store Model.StoreSpec Model.StoreCache Oracle.StoreCase.
From GH Require Import Proofs.StoreP Proofs.StoreMainP Proofs.StoreC04P Proofs.StoreCacheP.
Import ListNotations.
Open Scope N_scope.

(** Refinement: after every history every read of the store — Head, Tail, Height,
    GetByHeight (all heights), Get by hash, Has, HasAt, GetRange (all ranges) — equals the
    same read of the specification state reached by the same operations. *)
Theorem C04_refines_spec : forall c U, chain_hyps c U -> forall b ops, Forall (op_ok U) ops ->
  let s := run c (st0 b) ops in
  let sp := run_spec spec0 ops in
  headp s = option_map (fun th => c (snd th)) (sHT sp) /\
  tailp s = option_map (fun th => c (fst th)) (sHT sp) /\
  hsh s = spec_height sp /\
  (forall n, get_by_height s n = spec_gbh c sp n) /\
  (forall n, inr U n -> get s (h_id (c n)) = spec_get c sp n) /\
  (forall n, inr U n -> has s (h_id (c n)) = bool_decide (n ∈ sS sp)) /\
  (forall n, has_at s n = spec_has_at sp n) /\
  (forall from to, get_range s from to = spec_range c sp from to).
Proof. exact history_refines. Qed.

(** Tail <= Head (and both pointers are set or unset together) *)
Theorem C04_tail_le_head : forall c U, chain_hyps c U -> forall b ops, Forall (op_ok U) ops ->
  let s := run c (st0 b) ops in
  (headp s = None <-> tailp s = None) /\
  (forall hd tl, headp s = Some hd -> tailp s = Some tl -> 1 <= h_height tl /\ h_height tl <= h_height hd).
Proof. exact @hist_tail_le_head. Qed.

(** every height in [Tail, Head] is returned by GetByHeight with that exact height,
    Get(hash) returns the same header, Has and HasAt say yes *)
Theorem C04_range_retrievable : forall c U, chain_hyps c U -> forall b ops, Forall (op_ok U) ops ->
  let s := run c (st0 b) ops in
  forall hd tl, headp s = Some hd -> tailp s = Some tl ->
  forall n, h_height tl <= n <= h_height hd ->
  get_by_height s n = Found (c n) /\ h_height (c n) = n /\ get s (h_id (c n)) = Found (c n) /\
  has s (h_id (c n)) = true /\ has_at s n = true.
Proof. exact @hist_range_retrievable. Qed.

(** HasAt is exactly membership in [Tail, Head] *)
Theorem C04_has_at_iff : forall c U, chain_hyps c U -> forall b ops n, Forall (op_ok U) ops ->
  let s := run c (st0 b) ops in
  has_at s n = true <->
  exists hd tl, headp s = Some hd /\ tailp s = Some tl /\ n <> 0 /\ h_height tl <= n <= h_height hd.
Proof. exact @hist_has_at_iff. Qed.

(** Has, Get by hash and GetByHeight agree on every height; Get never errs *)
Theorem C04_lookups_agree : forall c U, chain_hyps c U -> forall b ops n, Forall (op_ok U) ops -> inr U n ->
  let s := run c (st0 b) ops in
  (has s (h_id (c n)) = true <-> get s (h_id (c n)) = Found (c n)) /\
  (get s (h_id (c n)) = Found (c n) <-> get_by_height s n = Found (c n)) /\
  (get s (h_id (c n)) = Found (c n) \/ get s (h_id (c n)) = NotFound).
Proof. exact @hist_lookups_agree. Qed.

(** GetRange / GetRangeByHeight return exactly the requested consecutive heights, or an error *)
Theorem C04_get_range_exact : forall c U, chain_hyps c U -> forall b ops from to l, Forall (op_ok U) ops ->
  let s := run c (st0 b) ops in
  get_range s from to = Found l ->
  from < to /\ l = map c (seqN from (N.to_nat (to - from))) /\
  map h_height l = seqN from (N.to_nat (to - from)).
Proof. exact @hist_get_range_exact. Qed.

(** Height() = Head().Height() (0 when the store is empty) *)
Theorem C04_height_is_head : forall c U, chain_hyps c U -> forall b ops, Forall (op_ok U) ops ->
  let s := run c (st0 b) ops in
  hsh s = match headp s with Some hd => h_height hd | None => 0 end.
Proof. exact @hist_height_is_head. Qed.

(** Head is the top (Tail the bottom) of the contiguous run: the next height is not stored,
    i.e. Head does not move past a gap *)
Theorem C04_head_is_top_of_run : forall c U, chain_hyps c U -> forall b ops, Forall (op_ok U) ops ->
  let s := run c (st0 b) ops in
  (forall hd h, headp s = Some hd -> get_by_height s (h_height hd + 1) <> Found h) /\
  (forall tl h, tailp s = Some tl -> get_by_height s (h_height tl - 1) <> Found h).
Proof. exact @hist_head_is_top. Qed.

(** ... and never moves down on Append: together with [C04_range_retrievable] and
    [C04_head_is_top_of_run] the new Head is the top of the run above the old Head, so it
    advances by itself once a gap is filled *)
Theorem C04_append_head_monotone : forall c U, chain_hyps c U -> forall b ops ns hd,
  Forall (op_ok U) ops -> Forall (inr U) ns ->
  headp (run c (st0 b) ops) = Some hd ->
  exists hd', headp (run c (st0 b) (ops ++ [IAppend ns])) = Some hd' /\ h_height hd <= h_height hd'.
Proof. exact @append_head_monotone. Qed.

(** every appended header is readable by height and by hash right after the Append, for every
    batch size (whether it sits in the write batch or the datastore) *)
Theorem C04_appended_readable : forall c U, chain_hyps c U -> forall b ops ns n,
  Forall (op_ok U) ops -> Forall (inr U) ns -> In n ns ->
  let s := run c (st0 b) (ops ++ [IAppend ns]) in
  get_by_height s n = Found (c n) /\ get s (h_id (c n)) = Found (c n) /\ has s (h_id (c n)) = true.
Proof. exact @appended_readable. Qed.

(** The two 2Q caches (Store.cache hash -> header, heightIndex.cache height -> hash) cannot be
    observed: for the cache-augmented model of Model/StoreCache.v (Get / HashByHeight fill the
    caches from datastore reads, Has asks the cache first, deleteSingle removes, deinit purges, a
    new Store starts empty) and for EVERY pair of eviction oracles [evh], [evi] (applied after
    every cache Add and after every operation: every cache size and replacement policy), the
    cached Store walks through exactly the states of the cache-free model, every read returns
    the cache-free result, and the caches stay sub-maps of the datastore (no stale entry
    survives a delete).  Hence all theorems of C04 / C06 / C08 / C14 hold for the cached Store. *)
Theorem C04_cache_independent : forall c U, chain_hyps c U -> forall (evh evi : nat -> N -> bool) b ops,
  Forall (op_ok U) ops ->
  let X := crun evh evi (cst0 b) (map (to_op c) ops) in
  let s := run c (st0 b) ops in
  c_st X = s /\
  (forall n, snd (cget_by_height evh evi X n) = get_by_height s n) /\
  (forall id, snd (cget evh X id) = get s id) /\
  (forall id, chas X id = has s id) /\
  (forall from to, snd (cget_range evh evi X from to) = get_range s from to) /\
  (forall id h, c_hc X !! id = Some h -> d_hdr s !! id = Some h) /\
  (forall n id, c_ic X !! n = Some id -> d_idx s !! n = Some id).
Proof. exact @cache_independent. Qed.

(** the caches do fill up (keep-everything oracle); a DeleteRange removes exactly its entries *)
Example C04_caches_fill :
  let c := simple_chain in
  let keep := fun (_ : nat) (_ : N) => true in
  let X := crun keep keep (cst0 1) (map (to_op c) [IAppend [1; 2; 3; 4]]) in
  let X1 := fst (cget_by_height keep keep (fst (cget_by_height keep keep X 2)) 3) in
  (size (c_hc X), size (c_ic X), size (c_hc X1), size (c_ic X1)) = (0%nat, 0%nat, 2%nat, 2%nat) /\
  let X2 := fst (fst (cstep keep keep X1 (to_op c (IDelete 1 3 0 [])))) in
  (size (c_hc X2), size (c_ic X2), c_ic X2 !! 3) = (1%nat, 1%nat, Some (h_id (c 3))).
Proof. vm_compute. split; reflexivity. Qed.

(** non-vacuity: an infinite chain satisfying the hypotheses, and a history with a gap that is
    filled later, a head-side delete, a restart *)
Definition c04_chain : N -> hdr := simple_chain.   (* Hdr false 1 n 0 (n + 1) n true *)

Example C04_chain_hyps_inhabited : chain_hyps c04_chain 1000000.
Proof. exact (simple_chain_hyps 1000000 eq_refl). Qed.

Example C04_history :
  let ops := [IAppend [5; 7]; IAppend [3; 6]; IDelete 7 8 1 []; IReopen; IAppend [8; 4]] in
  let s := run c04_chain (st0 2) ops in
  option_map h_height (headp s) = Some 6 /\ option_map h_height (tailp s) = Some 3 /\ hsh s = 6 /\
  get_by_height s 8 = Found (c04_chain 8) /\ get_by_height s 7 = Blocks /\ get_by_height s 4 = Found (c04_chain 4) /\
  sHT (run_spec spec0 ops) = Some (3, 6).
Proof. vm_compute. repeat split. Qed.

Print Assumptions C04_refines_spec.
Print Assumptions C04_tail_le_head.
Print Assumptions C04_range_retrievable.
Print Assumptions C04_has_at_iff.
Print Assumptions C04_lookups_agree.
Print Assumptions C04_get_range_exact.
Print Assumptions C04_height_is_head.
Print Assumptions C04_head_is_top_of_run.
Print Assumptions C04_append_head_monotone.
Print Assumptions C04_appended_readable.
Print Assumptions C04_cache_independent.
