(** C04 placeholder while the refinement proof is being written *)
From GH Require Import Base.Prelude Model.Store Model.StoreSpec.
Theorem C04_placeholder : True. Proof. exact I. Qed.
Print Assumptions C04_placeholder.
