(** C02 — VerifyRange returns exactly the verified, height-adjacent prefix of its input. *)
From GH Require Import Base.Prelude Model.Verify Proofs.VerifyP.

Theorem C02_prefix : forall now drift tv (t : hdr) (l : list hdr),
  exists s, l = fst (VerifyRange now drift tv t l) ++ s.
Proof. exact range_prefix. Qed.

(** each returned header passed Verify against its predecessor (trusted for the first) *)
Theorem C02_each_verified : forall now drift tv (t : hdr) (l : list hdr),
  chain_verified now drift tv t (fst (VerifyRange now drift tv t l)).
Proof. exact range_each_verified. Qed.

(** heights increase by exactly one from the first element on *)
Theorem C02_adjacent_from_first : forall now drift tv (t : hdr) (l : list hdr),
  consecutive (fst (VerifyRange now drift tv t l)).
Proof. exact range_consecutive. Qed.

Theorem C02_nil_error_iff_whole_nonempty : forall now drift tv (t : hdr) (l : list hdr),
  snd (VerifyRange now drift tv t l) = None <-> (fst (VerifyRange now drift tv t l) = l /\ l <> []).
Proof. exact range_nil_iff_whole. Qed.

Theorem C02_empty_is_error : forall now drift tv (t : hdr),
  snd (VerifyRange now drift tv t []) <> None.
Proof. exact range_empty_is_error. Qed.

(** on error the result stops exactly before a header that fails verification
    (against its predecessor) or adjacency (adjacency only from the second on) *)
Theorem C02_first_bad_excluded : forall now drift tv (t : hdr) (l : list hdr),
  l <> [] -> snd (VerifyRange now drift tv t l) <> None ->
  let v := fst (VerifyRange now drift tv t l) in
  exists u s, l = v ++ u :: s /\
    bad_at now drift tv (match v with [] => true | _ => false end) (last v t) u.
Proof. exact range_first_bad_excluded. Qed.

(** non-vacuity: the first element may be non-adjacent to trusted, later ones may not *)
Example C02_first_may_be_nonadjacent :
  let h n := Hdr false 1 n 0%Z n (n - 1) true in
  VerifyRange 0%Z 0%Z (fun _ _ => TVOk) (h 100) [h 151; h 152] = ([h 151; h 152], None) /\
  fst (VerifyRange 0%Z 0%Z (fun _ _ => TVOk) (h 100) [h 151; h 153]) = [h 151].
Proof. split; vm_compute; reflexivity. Qed.

Print Assumptions C02_prefix.
Print Assumptions C02_each_verified.
Print Assumptions C02_adjacent_from_first.
Print Assumptions C02_nil_error_iff_whole_nonempty.
Print Assumptions C02_empty_is_error.
Print Assumptions C02_first_bad_excluded.
