(** C07, audit follow-up - the range requests of the sync loop.  Statements only; proofs in
    Proofs/SyncerReqP.v.

    Machine: [astep] of Model/Syncer.v (as of /repo 40dc6a8: a syncStore.Append is one step; gossip verifier
    calls and Head() calls interleaved with the sync loop at every other access).  [c_reqs] is the ghost list of
    the range requests issued so far, (from height, reqTo), newest first; [hc c] is the height of the shim's
    head - the last header handed to the Store.  Quantified over: every initial configuration satisfying the
    invariant [Ainv] (in particular the one after Start, [Ainv_init]), every schedule, arbitrary well-formed
    inputs ([wf_event]: headers with heights below 2^64-1 passing Validate, promoted heads above the tail, range
    answers height-contiguous - errors, empty, shifted, over-long answers allowed). *)
From Coq Require Import List NArith.
From GH Require Import Base.Prelude Model.Verify Model.Ranges Model.Syncer Proofs.RangesP Proofs.SyncerP Proofs.SyncerInvP
  Proofs.SyncerLiveP Proofs.SyncerReqP.
Import ListNotations.
Local Open Scope N_scope.

(** "the sync resumes from the store head": whenever a step pushes a request (f, t) onto [c_reqs] - only the
    request step of the loop does -, at that moment f is at or below the shim's head (with interleaved learner
    calls the Store may have moved on since the loop read its [from]; never the other way round: nothing is
    requested above a hole), the request asks for at least one and at most MaxRangeRequestSize = 64 headers
    (f < t <= f + 65, t = reqTo is exclusive) and not beyond the target of the attempt. *)
Theorem C07_requests_resume_from_store_head :
  forall (drift : Z) (tv : hdr -> hdr -> tvres) (tail : N) (c0 : cfg) (es : list event) (e : event) (f t : N),
  Ainv tail c0 -> Tinv c0 -> Forall (wf_event tail) es ->
  let c := arun drift tv c0 es in
  c_reqs (astep drift tv c e) = (f, t) :: c_reqs c ->
  f <= hc c /\
  exists k from to, c_loop c = LReq k from to /\ f = h_height from /\ f < to /\ t = req_to f to /\
                    (to < two64 - 1 -> f < t <= f + 65 /\ t <= to + 1).
Proof. exact requests_resume. Qed.

(** function level, for EVERY configuration (no invariant): a request is pushed by no other step than the
    loop's request step with from < to, and it is (from, reqTo) *)
Theorem C07_only_the_request_step_asks :
  forall (drift : Z) (tv : hdr -> hdr -> tvres) (c : cfg) (e : event) (f t : N),
  c_reqs (astep drift tv c e) = (f, t) :: c_reqs c ->
  exists a k from to, e = EL a /\ c_loop c = LReq k from to /\ f = h_height from /\ f < to /\ t = req_to f to.
Proof. exact astep_push. Qed.

(** non-vacuity: after Start on [5 6 7], gossip of 80 (accepted by the verifier [tv := TVOk]) makes the loop ask
    for (7, 72): 64 headers from the store head *)
Definition ex_h (n id prev : N) : hdr := Hdr false 1 n 0%Z id prev true.
Definition ex_c0 : cfg := init_cfg 5 [ex_h 5 1 0; ex_h 6 2 1; ex_h 7 3 2].
Definition ex_es : list event :=
  EGossip (ex_h 80 99 98) 1000%Z (Bif [] false) :: repeat (ET 0%nat) 9 ++ repeat (EL GErr) 6.

Example C07_requests_example :
  let c := arun 10%Z (fun _ _ => TVOk) ex_c0 ex_es in
  c_reqs c = [] /\ c_reqs (astep 10%Z (fun _ _ => TVOk) c (EL GErr)) = [(7, 72)] /\ hc c = 7.
Proof. vm_compute. repeat split. Qed.

From GH Require Import Oracle.C07.

(** ** SyncWait inside a sync (second follow-up; tied by the extra driver [wait]):
    SyncWait blocks only while the recorded sync target is above the height the store
    reports and the store does not serve the target — i.e. only while a sync is in progress *)
Theorem C07_sync_wait_blocks_only_during_sync : forall c : cfg,
  sync_wait_returns c = false ->
  state_height c < ss_to (c_state c) /\ rs_has (ss_to (c_state c)) (rs_log (c_store c)) = false.
Proof. exact sync_wait_blocks_only_during_sync. Qed.

(** a SyncWait call that returned at once has returned at the end of every run *)
Theorem C07_sync_wait_stays_returned : forall c final : cfg,
  fst (wait_model c final) = true -> snd (wait_model c final) = true.
Proof. exact wait_model_mono. Qed.

Print Assumptions C07_requests_resume_from_store_head.
Print Assumptions C07_only_the_request_step_asks.
Print Assumptions C07_sync_wait_blocks_only_during_sync.
Print Assumptions C07_sync_wait_stays_returned.
