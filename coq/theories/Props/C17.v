(** C17 — Concurrent Store use keeps Head monotone and readers never see torn state.

    All Appends are serialised by the [writes] channel into the single flush goroutine;
    readers (Head, Height, GetByHeight, Get) run between any two of its synchronised steps.
    [conc_run s q] (Model/StoreConc.v) lists, in order, every state a reader can observe while
    the queue [q] of batches is drained starting from the state [s]: per batch the micro-states
      pending.Append | ensureInit | advanceHead | recedeTail | batch.Commit | pending.Reset.
    [s := run c (st0 b) ops] is the state after ANY history (Props/C04.v: appends, deletes incl.
    whole-store ones — so also an uninitialised store —, restarts), [q] any queue of batches of
    chain headers of in-range heights (any order, gaps, repeats).  [observe17 x] is what a
    reader sees in state [x]: Head(), Height(), and whether GetByHeight(Head().Height()) and
    Get(Head().Hash()) return that very header.

    History of this property: with the order ensureInit | pending.Append of the original code the
    first micro-state of the first batch on an uninitialised store was torn
    (Head() = c 5 but Get(c5.Hash()) = NotFound; witness [conc_run (st0 4) [[c 5]]]); found by this
    proof, repaired in the code (pending.Append first), and the model follows the repaired order. *)
From Coq Require Import NArith List Bool.
From stdpp Require Import gmap.
From GH Require Import Base.Prelude Model.Store Model.StoreSpec Model.StoreConc Oracle.StoreCase.
From GH Require Import Proofs.StoreP Proofs.StoreMainP Proofs.StoreC04P Proofs.StoreConcP.
From GH Require Import Model.StoreDelConc Proofs.StoreDelConc5P Proofs.StoreDelConc6P.
From GH Require Import Oracle.C17Del Proofs.C17DelTieP.
Import ListNotations.
Open Scope N_scope.

(** Head().Height() ([head_h], 0 = no head) and Height() never decrease from one observable
    state to the next ([mono_from p l]: along [p :: l] both are non-decreasing) *)
Theorem C17_head_and_height_monotone : forall c U, chain_hyps c U -> forall b ops q,
  Forall (op_ok U) ops -> Forall (Forall (inr U)) q ->
  let s := run c (st0 b) ops in
  mono_from s (conc_run s (map (map c) q)).
Proof. exact @hist_conc_mono. Qed.

(** in every observable state the header returned by Head() is itself retrievable by height and by hash *)
Theorem C17_never_torn : forall c U, chain_hyps c U -> forall b ops q,
  Forall (op_ok U) ops -> Forall (Forall (inr U)) q ->
  let s := run c (st0 b) ops in
  forall x, In x (conc_run s (map (map c) q)) ->
  o_head_by_height (observe17 x) = true /\ o_head_by_hash (observe17 x) = true.
Proof. exact @hist_conc_torn_free. Qed.

(** every header of a batch is readable by height and by hash in every observable state from
    the first micro-state of its own batch on (hence after its Append was followed by Sync),
    whatever is appended later *)
Theorem C17_appended_stays_readable : forall c U, chain_hyps c U -> forall b ops q1 ns q2 n,
  Forall (op_ok U) ops -> Forall (Forall (inr U)) q1 -> Forall (inr U) ns -> Forall (Forall (inr U)) q2 ->
  In n ns ->
  let s := run c (st0 b) ops in
  forall x, In x (conc_run (seq_run s (map (map c) q1)) (map (map c) (ns :: q2))) ->
  get_by_height x n = Found (c n) /\ get x (h_id (c n)) = Found (c n).
Proof. exact @hist_conc_batch_readable. Qed.

(** after all writers finish the Store is what the sequential execution of the same appends
    produces (for EVERY state [s] and queue [q]) ... *)
Theorem C17_final_is_sequential : forall q s, last (conc_run s q) s = seq_run s q.
Proof. exact conc_run_last. Qed.

Theorem C17_run_splits : forall q q' s, conc_run s (q ++ q') = conc_run s q ++ conc_run (seq_run s q) q'.
Proof. exact conc_run_app. Qed.

(** ... whose every read equals the read of the specification after the same appends ... *)
Theorem C17_sequential_refines_spec : forall c U, chain_hyps c U -> forall b ops q,
  Forall (op_ok U) ops -> Forall (Forall (inr U)) q ->
  let s := run c (st0 b) ops in
  let x := seq_run s (map (map c) q) in
  let sp := fold_left spec_append q (run_spec spec0 ops) in
  headp x = option_map (fun th => c (snd th)) (sHT sp) /\
  tailp x = option_map (fun th => c (fst th)) (sHT sp) /\
  hsh x = spec_height sp /\
  (forall n, get_by_height x n = spec_gbh c sp n) /\
  (forall n, inr U n -> get x (h_id (c n)) = spec_get c sp n) /\
  (forall n, inr U n -> has x (h_id (c n)) = bool_decide (n ∈ sS sp)) /\
  (forall n, has_at x n = spec_has_at sp n) /\
  (forall from to, get_range x from to = spec_range c sp from to).
Proof. exact @hist_seq_run_refines. Qed.

(** ... and, once the store is initialised, does not depend on the order in which the channel
    delivered the batches: every read agrees for every permutation of the queue *)
Theorem C17_order_independent : forall c U, chain_hyps c U -> forall b ops q q',
  Forall (op_ok U) ops ->
  let s := run c (st0 b) ops in
  headp s <> None -> Permutation q q' -> Forall (Forall (inr U)) q ->
  let x := seq_run s (map (map c) q) in
  let y := seq_run s (map (map c) q') in
  headp x = headp y /\ tailp x = tailp y /\ hsh x = hsh y /\
  (forall n, get_by_height x n = get_by_height y n) /\
  (forall n, inr U n -> get x (h_id (c n)) = get y (h_id (c n)) /\ has x (h_id (c n)) = has y (h_id (c n))) /\
  (forall n, has_at x n = has_at y n) /\
  (forall from to, get_range x from to = get_range y from to).
Proof. exact @hist_seq_run_order_independent. Qed.

(** non-vacuity: a fresh store, batch size 2: the observations along [[5]; [7]; [6]] *)
Example C17_run :
  let c := simple_chain in
  map (fun x => (o_head (observe17 x), o_height (observe17 x)))
      (conc_run (st0 2) (map (map c) [[5]; [7]; [6]])) =
  [(None, 0); (Some (5, 6), 5); (Some (5, 6), 5); (Some (5, 6), 5);
   (Some (5, 6), 5); (Some (5, 6), 5); (Some (5, 6), 5); (Some (5, 6), 5); (Some (5, 6), 5); (Some (5, 6), 5);
   (Some (5, 6), 5); (Some (5, 6), 5); (Some (7, 8), 7); (Some (7, 8), 7)].
Proof. vm_compute. reflexivity. Qed.

(** uninitialised store is the case where the order matters: first batch decides Tail *)
Example C17_order_matters_when_uninitialised :
  let c := simple_chain in
  option_map h_height (tailp (seq_run (st0 8) (map (map c) [[5]; [7]]))) = Some 5 /\
  option_map h_height (tailp (seq_run (st0 8) (map (map c) [[7]; [5]]))) = Some 7.
Proof. vm_compute. split; reflexivity. Qed.

(** ** "A tail-side DeleteRange racing with appends at the head leaves a gap-free chain"

    Model/StoreDelConc.v: two actors over the shared state.  The flush goroutine drains the
    queue [q] (per batch: pending.Append | ensureInit | advanceHead | recedeTail | load of the
    batch and the two pointers under ptrMu | batch.Commit + unlock | pending.Reset); the deleter
    runs DeleteRange(T, to) with T = Tail < to <= Head: Sync (a flush(nil) it waits for) | Head() |
    Tail() + checks | deleteSequential: per height HashByHeight | OnDelete handlers (they only
    read) | Delete(hash key) | Delete(height key) | cache/pending removal; commit of the write
    batch | setTail: getByHeight(to) | ptrMu + tailHeader.Store | Put(tail key) | Head() |
    Put(head key) + unlock.  [ctxf] is the datastore flavour (plain: the deletes hit the datastore
    one by one; context-aware: they are buffered in one write batch, reads through a snapshot).
    A schedule [sch] is a list of actors ([true] = deleter); an actor that cannot move (waiting
    for the Sync, for ptrMu, or finished) leaves its turn to the other one; [run_sched] is the
    list of configurations reached.  [s] is the state after ANY history with
    [sHT (run_spec spec0 ops) = Some (T, H)] (Tail() = c T, Head() = c H: C04_refines_spec);
    [q] any queue of batches of heights above that head (any order, gaps, repeats).

    In EVERY state of EVERY schedule: Head().Height(), Height() and the set of stored heights at
    or above [to] only grow from one state to the next ([grows_from]: [head_h], [hsh],
    [stored]), the header returned by Head() is retrievable by height and by hash, and every
    height of [to, Head] is readable by height and by hash. *)
Theorem C17_delete_race_every_state : forall c U, chain_hyps c U -> forall b ops T H to ctxf q sch,
  Forall (op_ok U) ops -> sHT (run_spec spec0 ops) = Some (T, H) -> T < to -> to <= H ->
  Forall (Forall (fun n => H < n /\ n <= U)) q ->
  let s := run c (st0 b) ops in
  let tr := map c_st (run_sched T to ctxf (cfg0 s (map (map c) q)) sch) in
  grows_from to s tr /\
  forall x, In x tr ->
    (o_head_by_height (observe17 x) = true /\ o_head_by_hash (observe17 x) = true) /\
    exists Hx, headp x = Some (c Hx) /\ hsh x = Hx /\ to <= Hx /\
      forall n, to <= n <= Hx -> get_by_height x n = Found (c n) /\ get x (h_id (c n)) = Found (c n).
Proof. exact @hist_race. Qed.

(** When both actors are done ([finished]: queue empty, flush goroutine idle, DeleteRange
    returned) the store is observationally the sequential result: every read (Head, Tail, Height,
    GetByHeight, Get, Has, HasAt, GetRange: [obs_equal], the eight equations of C04_refines_spec)
    equals the read of the specification state "delete, then the appends"; with an empty write
    batch the persisted pointers name that Head and Tail; a clean restart (same object or a new
    Store over the datastore) reproduces the same reads.  (Before repo commit 923f13e the
    persisted-pointer part was false: see the two examples below.) *)
Theorem C17_delete_race_final_is_sequential : forall c U, chain_hyps c U -> forall b ops T H to ctxf q sch x,
  Forall (op_ok U) ops -> sHT (run_spec spec0 ops) = Some (T, H) -> T < to -> to <= H ->
  Forall (Forall (fun n => H < n /\ n <= U)) q ->
  let s := run c (st0 b) ops in
  let spE := fold_left spec_append q (fst (spec_delete (run_spec spec0 ops) T to None)) in
  In x (run_sched T to ctxf (cfg0 s (map (map c) q)) sch) -> finished x ->
  obs_equal c U (c_st x) spE /\
  (forall Tf Hf, sHT spE = Some (Tf, Hf) -> pend_h (c_st x) = ∅ ->
     d_head (c_st x) = Some (h_id (c Hf)) /\ d_tail (c_st x) = Some (h_id (c Tf))) /\
  (exists s', step (c_st x) ORestart = (s', [], Ok) /\ obs_equal c U s' spE) /\
  (exists s', step (c_st x) OReopen = (s', [], Ok) /\ obs_equal c U s' spE).
Proof. exact @hist_race_final_obs. Qed.

(** ... and every schedule with at least (7 per queued batch + 23 + 5 per height to delete)
    entries does end with both actors done: nobody waits for ever (no deadlock on ptrMu, the
    Sync is served), so the theorem above speaks about every complete run *)
Theorem C17_delete_race_terminates : forall c U, chain_hyps c U -> forall b ops T H to ctxf q sch,
  Forall (op_ok U) ops -> sHT (run_spec spec0 ops) = Some (T, H) -> T < to -> to <= H ->
  Forall (Forall (fun n => H < n /\ n <= U)) q ->
  let x0 := cfg0 (run c (st0 b) ops) (map (map c) q) in
  (7 * length q + 23 + 5 * N.to_nat (to - T - 1) <= length sch)%nat ->
  finished (last (run_sched T to ctxf x0 sch) x0).
Proof. exact @hist_race_terminates. Qed.

(** "delete first, then the appends" and "the appends first, then delete" are the same
    specification state ... *)
Theorem C17_delete_race_order_irrelevant : forall c U, chain_hyps c U -> forall ops T H to q,
  Forall (op_ok U) ops -> sHT (run_spec spec0 ops) = Some (T, H) -> T < to -> to <= H ->
  Forall (Forall (fun n => H < n /\ n <= U)) q ->
  fold_left spec_append q (fst (spec_delete (run_spec spec0 ops) T to None)) =
  fst (spec_delete (fold_left spec_append q (run_spec spec0 ops)) T to None).
Proof. exact @hist_del_comm. Qed.

(** ... in which Tail = [to], the chain [to, Head'] is gap-free, nothing of [T, to) is left, and
    exactly the other stored and appended heights are stored *)
Theorem C17_delete_race_gap_free : forall c U, chain_hyps c U -> forall ops T H to q,
  Forall (op_ok U) ops -> sHT (run_spec spec0 ops) = Some (T, H) -> T < to -> to <= H ->
  Forall (Forall (fun n => H < n /\ n <= U)) q ->
  let sp := run_spec spec0 ops in
  let spE := fold_left spec_append q (fst (spec_delete sp T to None)) in
  exists H', sHT spE = Some (to, H') /\ H <= H' /\
    (forall n, to <= n <= H' -> n ∈ sS spE) /\
    (forall n, T <= n < to -> n ∉ sS spE) /\
    (forall n, n ∈ sS spE <-> (n ∈ sS sp \/ exists ns, In ns q /\ In n ns) /\ ~ (T <= n < to)).
Proof. exact @hist_final_shape. Qed.

(** non-vacuity: store 1..6 (batch size 1), DeleteRange(1, 3) racing Append(7, 8) and Append(9):
    deleter up to its Put(head key), one flush step, ... ; the schedule ends with both actors
    done, Tail = 3, Head = 9, both pointers persisted, 1 and 2 gone *)
Definition c17_race_sched : list bool :=
  repeat true 12 ++ repeat false 4 ++ repeat true 9 ++ repeat false 5 ++ repeat true 20 ++ repeat false 30.
Example C17_delete_race_run :
  let c := simple_chain in
  let s := fst (append (st0 1) (map c [1; 2; 3; 4; 5; 6])) in
  forall ctxf,
  let tr := run_sched 1 3 ctxf (cfg0 s (map (map c) [[7; 8]; [9]])) c17_race_sched in
  let x := last tr (cfg0 s []) in
  finishedb x = true /\
  option_map h_height (headp (c_st x)) = Some 9 /\ option_map h_height (tailp (c_st x)) = Some 3 /\
  d_head (c_st x) = Some (h_id (c 9)) /\ d_tail (c_st x) = Some (h_id (c 3)) /\
  map (fun n => match get_by_height (c_st x) n with Found _ => true | _ => false end) [1; 2; 3; 4; 5; 6; 7; 8; 9]
  = [false; false; true; true; true; true; true; true; true].
Proof. intros c s [|]; vm_compute; repeat split; reflexivity. Qed.

(** the two schedules that, before ptrMu (findings F27, F28), left a stale head / tail pointer
    on disk: the deleter parked before Put(head key) while a whole Append is flushed; the flush
    goroutine parked between its load and its Commit while setTail runs.  With the lock the
    parked actor's rival cannot enter its section (it leaves its turns to the other one), and
    both schedules end with the right pointers. *)
Example C17_delete_race_fixed_witnesses :
  let c := simple_chain in
  let s := fst (append (st0 1) (map c [1; 2; 3; 4; 5; 6])) in
  let xa := last (run_sched 1 3 false (cfg0 s (map (map c) [[7; 8]]))
                    (repeat true 23 ++ repeat false 7 ++ repeat true 1 ++ repeat false 7)) (cfg0 s []) in
  let xb := last (run_sched 1 3 false (cfg0 s (map (map c) [[7]]))
                    (repeat true 19 ++ repeat false 5 ++ repeat true 5 ++ repeat false 2 ++ repeat true 5)) (cfg0 s []) in
  (finishedb xa = true /\ d_head (c_st xa) = Some (h_id (c 8)) /\ d_tail (c_st xa) = Some (h_id (c 3))) /\
  (finishedb xb = true /\ d_head (c_st xb) = Some (h_id (c 7)) /\ d_tail (c_st xb) = Some (h_id (c 3))).
Proof. vm_compute. repeat split; reflexivity. Qed.

(** the correspondence of the race cases (Oracle/C17Del.v): for a well-formed case ([wf17d]: the
    chain list passes [chain_ok], Tail = from < to <= Head after the initial Append, the racing
    batches are above that head, the fuel of the oracle suffices) a case the model reproduces
    ([agree17d]: every observation along the script, the final probe, the persisted pointers, the
    probe after the reopen) satisfies the property oracle ([ok17d]) *)
Theorem C17_delete_race_oracle_tie : forall x, wf17d x = true -> agree17d x = true -> ok17d x = true.
Proof. exact agree17d_ok. Qed.

Print Assumptions C17_head_and_height_monotone.
Print Assumptions C17_never_torn.
Print Assumptions C17_appended_stays_readable.
Print Assumptions C17_final_is_sequential.
Print Assumptions C17_run_splits.
Print Assumptions C17_sequential_refines_spec.
Print Assumptions C17_order_independent.
Print Assumptions C17_delete_race_every_state.
Print Assumptions C17_delete_race_final_is_sequential.
Print Assumptions C17_delete_race_order_irrelevant.
Print Assumptions C17_delete_race_gap_free.
Print Assumptions C17_delete_race_terminates.
Print Assumptions C17_delete_race_oracle_tie.
