(** C17 — Concurrent Store use keeps Head monotone and readers never see torn state.

    All Appends are serialised by the [writes] channel into the single flush goroutine;
    readers (Head, Height, GetByHeight, Get) run between any two of its synchronised steps.
    [conc_run s q] (Model/StoreConc.v) lists, in order, every state a reader can observe while
    the queue [q] of batches is drained starting from the state [s]: per batch the micro-states
      pending.Append | ensureInit | advanceHead | recedeTail | batch.Commit | pending.Reset.
    [s := run c (st0 b) ops] is the state after ANY history (Props/C04.v: appends, deletes incl.
    whole-store ones — so also an uninitialised store —, restarts), [q] any queue of batches of
    chain headers of in-range heights (any order, gaps, repeats).  [observe17 x] is what a
    reader sees in state [x]: Head(), Height(), and whether GetByHeight(Head().Height()) and
    Get(Head().Hash()) return that very header.

    History of this property: with the order ensureInit | pending.Append of the original code the
    first micro-state of the first batch on an uninitialised store was torn
    (Head() = c 5 but Get(c5.Hash()) = NotFound; witness [conc_run (st0 4) [[c 5]]]); found by this
    proof, repaired in the code (pending.Append first), and the model follows the repaired order. *)
From Coq Require Import NArith List Bool.
From stdpp Require Import gmap.
From GH Require Import Base.Prelude Model.Store Model.StoreSpec Model.StoreConc Oracle.StoreCase.
From GH Require Import Proofs.StoreP Proofs.StoreMainP Proofs.StoreC04P Proofs.StoreConcP.
Import ListNotations.
Open Scope N_scope.

(** Head().Height() ([head_h], 0 = no head) and Height() never decrease from one observable
    state to the next ([mono_from p l]: along [p :: l] both are non-decreasing) *)
Theorem C17_head_and_height_monotone : forall c U, chain_hyps c U -> forall b ops q,
  Forall (op_ok U) ops -> Forall (Forall (inr U)) q ->
  let s := run c (st0 b) ops in
  mono_from s (conc_run s (map (map c) q)).
Proof. exact @hist_conc_mono. Qed.

(** in every observable state the header returned by Head() is itself retrievable by height and by hash *)
Theorem C17_never_torn : forall c U, chain_hyps c U -> forall b ops q,
  Forall (op_ok U) ops -> Forall (Forall (inr U)) q ->
  let s := run c (st0 b) ops in
  forall x, In x (conc_run s (map (map c) q)) ->
  o_head_by_height (observe17 x) = true /\ o_head_by_hash (observe17 x) = true.
Proof. exact @hist_conc_torn_free. Qed.

(** every header of a batch is readable by height and by hash in every observable state from
    the first micro-state of its own batch on (hence after its Append was followed by Sync),
    whatever is appended later *)
Theorem C17_appended_stays_readable : forall c U, chain_hyps c U -> forall b ops q1 ns q2 n,
  Forall (op_ok U) ops -> Forall (Forall (inr U)) q1 -> Forall (inr U) ns -> Forall (Forall (inr U)) q2 ->
  In n ns ->
  let s := run c (st0 b) ops in
  forall x, In x (conc_run (seq_run s (map (map c) q1)) (map (map c) (ns :: q2))) ->
  get_by_height x n = Found (c n) /\ get x (h_id (c n)) = Found (c n).
Proof. exact @hist_conc_batch_readable. Qed.

(** after all writers finish the Store is what the sequential execution of the same appends
    produces (for EVERY state [s] and queue [q]) ... *)
Theorem C17_final_is_sequential : forall q s, last (conc_run s q) s = seq_run s q.
Proof. exact conc_run_last. Qed.

Theorem C17_run_splits : forall q q' s, conc_run s (q ++ q') = conc_run s q ++ conc_run (seq_run s q) q'.
Proof. exact conc_run_app. Qed.

(** ... whose every read equals the read of the specification after the same appends ... *)
Theorem C17_sequential_refines_spec : forall c U, chain_hyps c U -> forall b ops q,
  Forall (op_ok U) ops -> Forall (Forall (inr U)) q ->
  let s := run c (st0 b) ops in
  let x := seq_run s (map (map c) q) in
  let sp := fold_left spec_append q (run_spec spec0 ops) in
  headp x = option_map (fun th => c (snd th)) (sHT sp) /\
  tailp x = option_map (fun th => c (fst th)) (sHT sp) /\
  hsh x = spec_height sp /\
  (forall n, get_by_height x n = spec_gbh c sp n) /\
  (forall n, inr U n -> get x (h_id (c n)) = spec_get c sp n) /\
  (forall n, inr U n -> has x (h_id (c n)) = bool_decide (n ∈ sS sp)) /\
  (forall n, has_at x n = spec_has_at sp n) /\
  (forall from to, get_range x from to = spec_range c sp from to).
Proof. exact @hist_seq_run_refines. Qed.

(** ... and, once the store is initialised, does not depend on the order in which the channel
    delivered the batches: every read agrees for every permutation of the queue *)
Theorem C17_order_independent : forall c U, chain_hyps c U -> forall b ops q q',
  Forall (op_ok U) ops ->
  let s := run c (st0 b) ops in
  headp s <> None -> Permutation q q' -> Forall (Forall (inr U)) q ->
  let x := seq_run s (map (map c) q) in
  let y := seq_run s (map (map c) q') in
  headp x = headp y /\ tailp x = tailp y /\ hsh x = hsh y /\
  (forall n, get_by_height x n = get_by_height y n) /\
  (forall n, inr U n -> get x (h_id (c n)) = get y (h_id (c n)) /\ has x (h_id (c n)) = has y (h_id (c n))) /\
  (forall n, has_at x n = has_at y n) /\
  (forall from to, get_range x from to = get_range y from to).
Proof. exact @hist_seq_run_order_independent. Qed.

(** non-vacuity: a fresh store, batch size 2: the observations along [[5]; [7]; [6]] *)
Example C17_run :
  let c := simple_chain in
  map (fun x => (o_head (observe17 x), o_height (observe17 x)))
      (conc_run (st0 2) (map (map c) [[5]; [7]; [6]])) =
  [(None, 0); (Some (5, 6), 5); (Some (5, 6), 5); (Some (5, 6), 5);
   (Some (5, 6), 5); (Some (5, 6), 5); (Some (5, 6), 5); (Some (5, 6), 5); (Some (5, 6), 5); (Some (5, 6), 5);
   (Some (5, 6), 5); (Some (5, 6), 5); (Some (7, 8), 7); (Some (7, 8), 7)].
Proof. vm_compute. reflexivity. Qed.

(** uninitialised store is the case where the order matters: first batch decides Tail *)
Example C17_order_matters_when_uninitialised :
  let c := simple_chain in
  option_map h_height (tailp (seq_run (st0 8) (map (map c) [[5]; [7]]))) = Some 5 /\
  option_map h_height (tailp (seq_run (st0 8) (map (map c) [[7]; [5]]))) = Some 7.
Proof. vm_compute. split; reflexivity. Qed.

Print Assumptions C17_head_and_height_monotone.
Print Assumptions C17_never_torn.
Print Assumptions C17_appended_stays_readable.
Print Assumptions C17_final_is_sequential.
Print Assumptions C17_run_splits.
Print Assumptions C17_sequential_refines_spec.
Print Assumptions C17_order_independent.
