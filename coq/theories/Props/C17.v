(** C17 placeholder while the proofs are being written *)
From GH Require Import Base.Prelude Model.Store Model.StoreConc.
Theorem C17_placeholder : True. Proof. exact I. Qed.
Print Assumptions C17_placeholder.
