(** C19 — Syncer.Head is fresh, monotone and never adopts an expired header.
    Statements only; proofs live in Proofs/SyncHeadP.v.  All theorems hold for
    every parameter set [p] (trusting period, block time, recency threshold,
    clock drift, request timeout), every type-level verifier [tv], every clock
    reading and every answer of the getter / outcome of subjectiveTail / outcome
    of a bifurcation (these are inputs of the events). *)
From GH Require Import Base.Prelude Model.Verify Proofs.VerifyP Model.SyncHead Proofs.SyncHeadP.

(** *** Monotonicity, sequential histories.
    For every history of clock advances, gossip heads, sync-loop progress and
    Head() calls (each with an arbitrary getter answer), from every initial
    state: the heights of the heads returned with a nil error never decrease
    (and none is below the local head the history started from).  "Sequential"
    means that no two API calls (Head, gossip verifier) overlap: each event is a
    call that has returned before the next one starts (overlapping calls, with
    setLocalHead split in two, are covered by C19_monotone). *)
Theorem C19_monotone_seq : forall p tv (s : sstate) (history : list sev),
  nondecr_from (L s) (ok_heights (snd (srun p tv s history))).
Proof. intros. apply srun_monotone. Qed.

(** *** A recent subjective head is returned without network traffic. *)
Theorem C19_recent_no_traffic : forall p tv (s : sstate) (sbj : hdr) (i : hin),
  local_head s = Some sbj ->
  is_expired p (s_now s) sbj = false -> is_recent p (s_now s) sbj = true ->
  head_seq p tv s i = HOut s (ROk sbj) [].
Proof. exact recent_no_traffic. Qed.

(** *** A stale (not recent, not expired) subjective head triggers exactly one
    head request, and that request carries the subjective head as TrustedHead. *)
Theorem C19_stale_one_request : forall p tv (s : sstate) (sbj : hdr) (i : hin),
  local_head s = Some sbj ->
  is_expired p (s_now s) sbj = false -> is_recent p (s_now s) sbj = false ->
  o_calls (head_seq p tv s i) = [Some sbj].
Proof. exact stale_one_request. Qed.

(** ... a failing, hanging or not-higher answer (or a soft answer that cannot be
    verified) leaves the subjective head as the result and changes no head *)
Theorem C19_stale_failure_keeps_head : forall p tv (s : sstate) (sbj : hdr) (i : hin),
  local_head s = Some sbj ->
  is_expired p (s_now s) sbj = false -> is_recent p (s_now s) sbj = false ->
  match i_ans i with
  | GFail | GHang => True
  | GOk nh => h_nil nh = false /\ h_height nh <= h_height sbj
  | GSoft nh => h_nil nh = false /\ snd (incoming p tv s nh (i_b1 i)) = false /\
                same_heads s (fst (incoming p tv s nh (i_b1 i)))
  end ->
  o_res (head_seq p tv s i) = ROk sbj /\ same_heads s (o_st (head_seq p tv s i)).
Proof. exact stale_fail_keeps. Qed.

(** ... a higher answer becomes the new local head and is returned *)
Theorem C19_stale_higher_adopted : forall p tv (s : sstate) (sbj : hdr) (i : hin) (nh : hdr),
  wf s -> local_head s = Some sbj ->
  is_expired p (s_now s) sbj = false -> is_recent p (s_now s) sbj = false ->
  i_ans i = GOk nh -> h_nil nh = false -> h_height sbj < h_height nh -> i_tail i = TOk None ->
  o_res (head_seq p tv s i) = ROk nh /\ local_head (o_st (head_seq p tv s i)) = Some nh.
Proof. exact stale_higher_adopts. Qed.

(** *** Subjective (re)initialisation: empty store, or stored head older than the
    trusting period.  Exactly one request, WITHOUT a trusted head ... *)
Theorem C19_init_one_untrusted_request : forall p tv (s : sstate) (i : hin),
  needs_init p s -> o_calls (head_seq p tv s i) = [None].
Proof. exact init_one_untrusted_request. Qed.

(** ... unless the trusted peers answer with a header that is itself not expired,
    the call fails with an error and no head changes ... *)
Theorem C19_init_rejects_expired : forall p tv (s : sstate) (i : hin),
  needs_init p s -> ~ fresh_answer p (s_now s) (i_ans i) ->
  match o_res (head_seq p tv s i) with RGetter | RCtx | RExpired | RPanic => True | _ => False end /\
  same_heads s (o_st (head_seq p tv s i)).
Proof. exact init_rejects. Qed.

(** ... so a nil error implies a non-expired trusted-peer head *)
Theorem C19_init_ok_only_if_fresh : forall p tv (s : sstate) (i : hin) (v : hdr),
  needs_init p s -> o_res (head_seq p tv s i) = ROk v -> fresh_answer p (s_now s) (i_ans i).
Proof. exact init_ok_only_if_fresh. Qed.

(** ... on an empty store the fetched tail is stored and the fresh head, verified
    against it, is adopted *)
Theorem C19_init_empty_adopts_fresh : forall p tv (s : sstate) (i : hin) (nh t : hdr),
  s_store s = None -> s_pend s = None ->
  i_ans i = GOk nh -> h_nil nh = false -> is_expired p (s_now s) nh = false ->
  i_tail i = TOk (Some t) -> Verify (s_now s) (p_drift p) tv t nh = None ->
  o_res (head_seq p tv s i) = ROk nh /\ local_head (o_st (head_seq p tv s i)) = Some nh.
Proof. exact init_empty_adopts. Qed.

(** ... over an expired stored head a fresh trusted head that verifies is adopted *)
Theorem C19_reinit_adopts_fresh : forall p tv (s : sstate) (i : hin) (sbj nh : hdr),
  wf s -> local_head s = Some sbj -> is_expired p (s_now s) sbj = true ->
  i_ans i = GOk nh -> h_nil nh = false -> is_expired p (s_now s) nh = false ->
  i_tail i = TOk None -> Verify (s_now s) (p_drift p) tv sbj nh = None ->
  o_res (head_seq p tv s i) = ROk nh /\ local_head (o_st (head_seq p tv s i)) = Some nh.
Proof. exact reinit_adopts. Qed.

(** ... and the point DESIGN singled out: a fresh trusted head that does NOT verify
    against the expired stored head is not adopted; nothing changes and Head()
    returns the expired stored head with a NIL error (no expired header is
    adopted, but an expired one is handed to the caller) *)
Theorem C19_reinit_unverified_returns_expired : forall p tv (s : sstate) (i : hin) (sbj nh : hdr) (e : verr),
  local_head s = Some sbj -> is_expired p (s_now s) sbj = true ->
  i_ans i = GOk nh -> h_nil nh = false -> is_expired p (s_now s) nh = false ->
  i_tail i = TOk None -> Verify (s_now s) (p_drift p) tv sbj nh = Some e -> ve_soft e = false ->
  head_seq p tv s i = HOut s (ROk sbj) [None].
Proof. exact reinit_unverified_returns_old. Qed.

(** *** Monotonicity for concurrent callers, real-time order, for EVERY schedule.
    The machine [prun]: threads are Head() calls whose atomic actions (reads of the
    local head, the single-flight mutex, incomingMu) interleave freely with each
    other, with clock advances, gossip heads and sync-loop progress, and the two
    halves of setLocalHead - store.Append + comparison with the store head, and
    pending.Add, which the code runs under no common lock - may be separated by
    any other actions (gossip verifier: PGossipA/B; networkHead: PHeadA/B).
    If call a returned va in the first part of a run and thread b is not inside a
    call when that part ends (so whatever b returns later belongs to a call that
    STARTED after a returned), then b's later successful results are >= va.
    (This was false before /repo dd38a4c - finding F19: a late pending.Add put a
    header below the store head in front; localHead is now the higher of the two.) *)
Theorem C19_monotone : forall p tv (s : sstate) (sched1 sched2 : list pev)
    (p1 : pstate) (t1 : list obs) (p2 : pstate) (t2 : list obs) (a b : nat) (va vb : hdr),
  prun p tv (pinit s) sched1 = (p1, t1) -> prun p tv p1 sched2 = (p2, t2) ->
  In (ORet a (ROk va)) t1 -> c_pc (p_c p1) b = PIdle -> In (ORet b (ROk vb)) t2 ->
  h_height va <= h_height vb.
Proof. exact monotone_full. Qed.

(** In the machines a read of the local head is ONE action; in the code localHead reads
    the pending head and then the store head, and the sync loop (store a range, remove
    it from pending), other calls and either half of a setLocalHead may run in between.
    With that order the header it returns lies between the local head at its first read
    and the local head at its second read - so treating it as one action loses nothing
    for C19_monotone.  [read2 pend st] is localHead's result from a pending head [pend]
    and a store head [st] read at different moments.  (In the opposite order the result
    can drop below an earlier one: Example two_reads_reversed in Proofs/SyncHeadP.v, and
    seeded change C19_r4m1.) *)
Theorem C19_local_head_two_reads : forall p tv (ps : pstate) (sched : list pev) (ps' : pstate) (tr : list obs),
  sbj_below (p_c ps) -> prun p tv ps sched = (ps', tr) ->
  L (c_s (p_c ps)) <= hgt (read2 (s_pend (c_s (p_c ps))) (s_store (c_s (p_c ps')))) <= L (c_s (p_c ps')).
Proof. exact two_reads. Qed.

(** the thread machine [crun] of the other theorems is [prun] restricted to schedules
    that never split setLocalHead *)
Theorem C19_atomic_schedules_are_crun : forall p tv (sched : list cev) (c : cstate),
  prun p tv (PState c None []) (map PEv sched) =
  let '(c', tr) := crun p tv c sched in (PState c' None [], tr).
Proof. exact prun_atomic. Qed.

(** *** Single flight, for every schedule of the thread machine (the single flight
    does not depend on how setLocalHead is split): underlying getter Head calls never
    overlap - between any two of them the first one has been answered ... *)
Theorem C19_singleflight_one_call_at_a_time : forall p tv (s : sstate) (sched : list cev) (c : cstate)
    (t1 : list obs) (i : nat) (x : option hdr) (t2 : list obs) (j : nat) (y : option hdr) (t3 : list obs),
  crun p tv (cinit s) sched = (c, t1 ++ OGet i x :: t2 ++ OGet j y :: t3) ->
  exists k a, In (OAns k a) t2.
Proof. exact getter_calls_never_overlap. Qed.

(** ... and a caller that arrived while a flight was open (OJoin) issues no call of
    its own and receives (OGot) exactly the answer [a] of the most recent
    underlying call, which completed after it joined. *)
Theorem C19_singleflight_shared_result : forall p tv (s : sstate) (sched : list cev) (c : cstate)
    (t1 : list obs) (w : nat) (a : gans) (t2 : list obs),
  crun p tv (cinit s) sched = (c, t1 ++ OGot w a :: t2) ->
  exists ta l' tb, t1 = ta ++ OAns l' a :: tb /\
    (forall l'' a'', ~ In (OAns l'' a'') tb) /\ ~ In (OJoin w) tb.
Proof. exact waiter_shares_flight. Qed.

(** ... n callers released together on the canonical schedule (all decide, all
    enter the flight, the getter answers, all finish) cause exactly ONE underlying
    call, carrying the subjective head (none at all if the head is recent) *)
Theorem C19_singleflight_n_callers_one_call : forall p tv (s : sstate) (n : nat) (i : hin) (w : bool) (d : N),
  n <> 0%nat ->
  gets_of (snd (crun p tv (cinit s) (conc_sched n i w d))) =
  match decide p s with DReturn _ => [] | DRequest k => [trusted_of k] end.
Proof. exact conc_calls. Qed.

(** ... and all of them see the result of that one request: after a failing,
    hanging or not-higher answer to a request verified against [sbj] every one of
    the n callers returns [sbj]; at (re)initialisation, an answer that is not a
    non-expired header (judged at the time the answer arrives) makes every one of
    them fail with an initialisation error *)
Theorem C19_singleflight_group_keeps : forall p tv (s : sstate) (n : nat) (i : hin) (w : bool) (d : N) (sbj : hdr),
  decide p s = DRequest (KStale sbj) -> keeps sbj (i_ans i) -> n <> 0%nat ->
  forall r, In r (rets_of (snd (crun p tv (cinit s) (conc_sched n i w d)))) -> r = ROk sbj.
Proof. exact group_keeps. Qed.

Theorem C19_singleflight_group_init_fails : forall p tv (s : sstate) (n : nat) (i : hin) (w : bool) (d : N),
  decide p s = DRequest KInit -> unfresh p (s_now s + Z.of_N d) (i_ans i) -> n <> 0%nat ->
  forall r, In r (rets_of (snd (crun p tv (cinit s) (conc_sched n i w d)))) -> init_err r.
Proof. exact group_init_fails. Qed.

(** *** The state invariant [wf] (a pending head lies above a non-empty store head)
    assumed by the two "adopts" theorems holds in every state reached by a
    sequential history whose oracles are sane (bifurcations promote no
    intermediate header; subjectiveTail appends only onto an empty store or not
    above the store head), from any wf state - e.g. any state without pending head. *)
Theorem C19_wf_invariant : forall p tv (history : list sev) (s : sstate),
  wf s -> sane p tv s history -> wf (fst (srun p tv s history)).
Proof. exact wf_srun. Qed.

(** *** Re-delivering the header that already is the store head (a soft answer that
    verifies directly: networkHead calls setLocalHead twice; or the second of several
    callers sharing one flight) changes nothing and - since /repo 80904e6 - makes
    syncStore.Append return no errNonAdjacent, whatever is pending. *)
Theorem C19_redelivered_head_is_noop : forall (s : sstate) (h : hdr),
  s_store s = Some h -> set_local_head s h = s /\ store_append_err (s_store s) h = false.
Proof. exact slh_redeliver. Qed.

(** *** The store shim as of /repo 7d16f07.  The machines use single-header appends
    ([store_append], unaffected by that change) and represent the sync loop's list
    appends by the events sync_part / sync_done, which put the store head AT the
    synced header.  That is what the shim now guarantees for lists too: for one
    header the list form is [store_append]; and an accepted list never leaves the head
    pointer below a header it contains, even when it starts below the head and reaches
    above it (the "straddle" that used to leave the pointer stale: Head() 22 -> 21). *)
Theorem C19_shim_single_header : forall (st : option hdr) (h : hdr),
  store_append_list st [h] = (store_append st h, store_append_err st h).
Proof. exact store_append_list_single. Qed.

Theorem C19_shim_list_head_covers : forall (sh : hdr) (l : list hdr) (st' : option hdr),
  h_height sh + 1 < two64 -> (forall x, In x l -> h_height x + 1 < two64) ->
  store_append_list (Some sh) l = (st', false) ->
  h_height sh <= hgt st' /\ forall x, In x l -> h_height x <= hgt st'.
Proof. exact store_append_list_covers. Qed.

(** *** The sequential function IS the thread machine run without interleaving. *)
Theorem C19_seq_is_solo_thread : forall p tv (c : cstate) (i : nat) (cto : Z) (a : gans) (b1 : bifres) (t : tans) (b2 : bifres),
  c_pc c i = PIdle -> f_open (c_f c) = None -> a <> GHang ->
  let o := head_seq p tv (c_s c) (HIn cto a b1 t b2) in
  let '(c', tr) := crun p tv c (solo i a b1 t b2) in
  c_s c' = o_st o /\ rets_of tr = [o_res o] /\ gets_of tr = o_calls o /\ c_pc c' i = PIdle.
Proof. exact solo_eq. Qed.

(** *** Non-vacuity: concrete runs that meet the hypotheses. *)
Definition ex_p : params := Params 600 10 0 10 2.
Definition ex_h (n : N) (t : Z) : hdr := Hdr false 1 n t n (n - 1) true.
Definition ex_tv (t u : hdr) : tvres := TVOk.

(* stale head 5 (time 0, now 100): one request with TrustedHead = 5; higher answer 9 adopted *)
Example ex_stale : head_seq ex_p ex_tv (SState (Some (ex_h 5 0)) None 100)
    (HIn 5 (GOk (ex_h 9 95)) ([], false) (TOk None) ([], false))
  = HOut (SState (Some (ex_h 5 0)) (Some (ex_h 9 95)) 100) (ROk (ex_h 9 95)) [Some (ex_h 5 0)].
Proof. vm_compute. reflexivity. Qed.

(* expired head 5 (now 700): trusted peers answer with an expired header: error, nothing adopted *)
Example ex_reinit_expired : head_seq ex_p ex_tv (SState (Some (ex_h 5 0)) None 700)
    (HIn 5 (GOk (ex_h 9 50)) ([], false) (TOk None) ([], false))
  = HOut (SState (Some (ex_h 5 0)) None 700) RExpired [None].
Proof. vm_compute. reflexivity. Qed.

(* expired head 5 (now 700), fresh trusted head BELOW it: not adopted, expired head returned, nil error *)
Example ex_reinit_unverified : head_seq ex_p ex_tv (SState (Some (ex_h 5 0)) None 700)
    (HIn 5 (GOk (ex_h 4 690)) ([], false) (TOk None) ([], false))
  = HOut (SState (Some (ex_h 5 0)) None 700) (ROk (ex_h 5 0)) [None].
Proof. vm_compute. reflexivity. Qed.

(* three overlapping callers on a stale head: one underlying call, all return 9 *)
Example ex_three_callers :
  let '(c, tr) := crun ex_p ex_tv (cinit (SState (Some (ex_h 5 0)) None 100))
      (conc_sched 3 (HIn 5 (GOk (ex_h 9 95)) ([], false) (TOk None) ([], false)) false 0) in
  gets_of tr = [Some (ex_h 5 0)] /\ rets_of tr = [ROk (ex_h 9 95); ROk (ex_h 9 95); ROk (ex_h 9 95)].
Proof. vm_compute. split; reflexivity. Qed.

(* a history whose results are 5, 5, 9, 9 *)
Example ex_history :
  ok_heights (snd (srun ex_p ex_tv (SState (Some (ex_h 5 0)) None 20)
    [SvHead (HIn 5 GFail ([], false) (TOk None) ([], false));
     SvTick 80;
     SvHead (HIn 5 (GOk (ex_h 3 90)) ([], false) (TOk None) ([], false));
     SvGossip (ex_h 9 95) ([], false) (TOk None);
     SvHead (HIn 5 GFail ([], false) (TOk None) ([], false));
     SvSyncDone;
     SvHead (HIn 5 GFail ([], false) (TOk None) ([], false))])) = [5; 5; 9; 9].
Proof. vm_compute. reflexivity. Qed.

(* the schedule of the former finding F19 (a gossip head parked inside setLocalHead): the late
   pending.Add(19) no longer shows: the local head stays 20 and caller 3 returns 20 *)
Example ex_f19_fixed :
  let '(p1, t1) := prun rf_p rf_tv (pinit rf_s) rf_sched1 in
  let '(p2, t2) := prun rf_p rf_tv p1 rf_sched2 in
  In (ORet 2 (ROk (rf_h 20))) t1 /\ s_pend (c_s (p_c p2)) = Some (rf_h 19) /\
  local_head (c_s (p_c p2)) = Some (rf_h 20) /\ In (ORet 3 (ROk (rf_h 20))) t2.
Proof. vm_compute. auto 12. Qed.

(* the straddle schedule of harness/c03/straddle_test.go as a schedule of [prun]: four Head()
   calls (each its own flight, subjective head 17) receive 18, 19, 20, 21 and stay parked after
   their answers (pc PGot, not scheduled); gossip brings 19..22 (pending head 22); the four calls
   go on, each storing its header adjacent to the store head (store head 21) and return 22; the
   sync loop finishes (store head 22, nothing pending); a fifth call returns 22 - never 21 *)
Definition st_call (i : nat) (n : N) : list pev :=
  [PEv (CStep i ICall); PEv (CStep i INone); PEv (CStep i (IAns (GOk (rf_h n))))].
Definition st_fin (i : nat) : list pev :=
  [PEv (CStep i (ITail (TOk None))); PEv (CStep i (IBif rf_nob)); PEv (CStep i INone)].
Definition st_sched : list pev :=
  st_call 1 18 ++ st_call 2 19 ++ st_call 3 20 ++ st_call 4 21 ++
  map (fun n => PEv (CGossip (rf_h n) rf_nob (TOk None))) [19; 20; 21; 22] ++
  map (fun i => PEv (CStep i (IBif rf_nob))) [1; 2; 3; 4]%nat ++
  st_fin 1 ++ st_fin 2 ++ st_fin 3 ++ st_fin 4 ++
  [PEv CSyncDone] ++
  [PEv (CStep 5 ICall); PEv (CStep 5 INone); PEv (CStep 5 (IAns GFail)); PEv (CStep 5 (IBif rf_nob))].
Example ex_straddle :
  let '(p1, tr) := prun rf_p rf_tv (pinit rf_s) st_sched in
  rets_of tr = [ROk (rf_h 22); ROk (rf_h 22); ROk (rf_h 22); ROk (rf_h 22); ROk (rf_h 22)] /\
  s_store (c_s (p_c p1)) = Some (rf_h 22) /\ s_pend (c_s (p_c p1)) = None.
Proof. vm_compute. auto. Qed.

Print Assumptions C19_monotone_seq.
Print Assumptions C19_recent_no_traffic.
Print Assumptions C19_stale_one_request.
Print Assumptions C19_stale_failure_keeps_head.
Print Assumptions C19_stale_higher_adopted.
Print Assumptions C19_init_one_untrusted_request.
Print Assumptions C19_init_rejects_expired.
Print Assumptions C19_init_ok_only_if_fresh.
Print Assumptions C19_init_empty_adopts_fresh.
Print Assumptions C19_reinit_adopts_fresh.
Print Assumptions C19_reinit_unverified_returns_expired.
Print Assumptions C19_monotone.
Print Assumptions C19_atomic_schedules_are_crun.
Print Assumptions C19_singleflight_one_call_at_a_time.
Print Assumptions C19_singleflight_shared_result.
Print Assumptions C19_singleflight_n_callers_one_call.
Print Assumptions C19_seq_is_solo_thread.
Print Assumptions C19_singleflight_group_keeps.
Print Assumptions C19_singleflight_group_init_fails.
Print Assumptions C19_wf_invariant.
Print Assumptions C19_redelivered_head_is_noop.
Print Assumptions C19_shim_single_header.
Print Assumptions C19_shim_list_head_covers.
Print Assumptions C19_local_head_two_reads.
