(** C09 — Exchange.Head returns the quorum/highest head and honours the trusted head.
    Statements only; proofs live in Proofs/HeadQuorumP.v.

    Reading guide. One call of Head asks [n] peers. [arr : list ans] is what the
    per-peer goroutines put on the channel, in ARRIVAL order (every list is an
    arrival order; peers that never answer are simply absent, so
    [length arr < n] means somebody hangs until the context ends).
    [head_run n arr = (k, outs)]: Head returned after consuming [k] answers with
    one of the outcomes [outs] (a singleton except when sort.Slice has to break
    a tie between highest headers). [count_id id l] = how many answers of [l]
    carry the header with hash [id]; [no_quorum q l] = none was reported [q]
    times; [hdrs_of l] = the headers supplied; [last_soft id l] = the soft error
    on record for [id] after [l]. [Head now drift tv want t n resps] runs the
    per-response step (request checks, Verify against the trusted head [t] when
    [h_nil t = false]) in front, for every clock, drift and type-level Verify. *)
From GH Require Import Base.Prelude Model.Verify Model.HeadQuorum Proofs.HeadQuorumP.
From Coq Require Import Permutation.
Local Open Scope nat_scope.

(** quorum arithmetic, for every peer count: all of them for one or two peers,
    otherwise the least k with 3k >= 2n; never more than n, and always a strict
    majority *)
Theorem C09_quorum_arith : forall n : nat,
  (n <= 2 -> min_resp n = n) /\
  (3 <= n -> 2 * n <= 3 * min_resp n /\ forall k, 2 * n <= 3 * k -> min_resp n <= k) /\
  min_resp n <= n /\
  (1 <= n -> 1 <= min_resp n /\ n < 2 * min_resp n).
Proof. exact quorum_arith. Qed.

(** at most one header can be reported by a quorum of the asked peers *)
Theorem C09_quorum_unique : forall (n : nat) (l : list ans) (id1 id2 : N),
  1 <= n -> length l <= n ->
  min_resp n <= count_id id1 l -> min_resp n <= count_id id2 l -> id1 = id2.
Proof. exact quorum_unique. Qed.

(** first quorum wins, at the shortest prefix, in every arrival order: as soon
    as the answers [p ++ [AHdr h e]] contain a quorum for [h] (and [p] contains
    none) Head returns [h] — whatever would arrive later ([rest]), even nothing *)
Theorem C09_first_quorum_wins : forall (n : nat) (p : list ans) (h : hdr) (e : option verr) (rest : list ans),
  length p < n -> no_quorum (min_resp n) p -> h_nil h = false ->
  min_resp n <= count_id (h_id h) (p ++ [AHdr h e]) ->
  head_run n (p ++ AHdr h e :: rest) =
  (length p + 1, [OHead h (last_soft (h_id h) (p ++ [AHdr h e]))]).
Proof. exact head_run_quorum. Qed.

(** ... and whenever the arrived answers contain a quorum, that is what happens *)
Theorem C09_quorum_found : forall (n : nat) (arr : list ans),
  length arr <= n -> has_quorum (min_resp n) arr ->
  exists p h e rest,
    arr = p ++ AHdr h e :: rest /\ no_quorum (min_resp n) p /\ h_nil h = false /\
    min_resp n <= count_id (h_id h) (p ++ [AHdr h e]) /\
    head_run n arr = (length p + 1, [OHead h (last_soft (h_id h) (p ++ [AHdr h e]))]).
Proof. exact quorum_found. Qed.

(** all n answered, no quorum, somebody supplied a header: a header of maximal
    height among those supplied, with the soft error on record for its hash *)
Theorem C09_else_highest : forall (n : nat) (arr : list ans),
  length arr = n -> no_quorum (min_resp n) arr -> hdrs_of arr <> [] ->
  exists outs, head_run n arr = (n, outs) /\ outs <> [] /\
    forall o, In o outs <->
      exists h, In h (hdrs_of arr) /\ (forall h', In h' (hdrs_of arr) -> (h_height h' <= h_height h)%N) /\
                o = OHead h (last_soft (h_id h) arr).
Proof. exact else_highest. Qed.

(** nobody supplied a header: ErrNotFound with the zero header — and only then *)
Theorem C09_none_notfound : forall (n : nat) (arr : list ans),
  length arr = n -> hdrs_of arr = [] -> head_run n arr = (n, [ONotFound]).
Proof. exact none_notfound. Qed.

Theorem C09_notfound_only_if_none : forall (n : nat) (arr : list ans),
  length arr <= n -> In ONotFound (head_fold n arr) -> length arr = n /\ hdrs_of arr = [].
Proof. exact notfound_only_if_none. Qed.

(** fewer than n answers and no quorum among them: the context's error with the
    zero header — and only then *)
Theorem C09_hanging_ctx : forall (n : nat) (arr : list ans),
  length arr < n -> no_quorum (min_resp n) arr -> head_run n arr = (length arr, [OCtx]).
Proof. exact hanging_ctx. Qed.

Theorem C09_ctx_only_if_hanging : forall (n : nat) (arr : list ans),
  length arr <= n -> In OCtx (head_fold n arr) -> length arr < n /\ no_quorum (min_resp n) arr.
Proof. exact ctx_only_if_hanging. Qed.

(** Head always has an outcome *)
Theorem C09_total : forall (n : nat) (arr : list ans), length arr <= n -> head_fold n arr <> [].
Proof. exact head_fold_nonempty. Qed.

(** trusted-head soundness (and what is returned without one): a returned
    header was supplied by a peer, passed Validate and the chain-id check;
    without a trusted head the error is nil; with a trusted head [t] the header
    never hard-fails Verify against [t], a nil error means it passed, and an
    error is a SoftFailure VerifyError — that of an answer with the same hash,
    hence the header's own when the hash identifies the header *)
Theorem C09_trusted_head_sound :
  forall (now drift : Z) (tv : hdr -> hdr -> tvres) (want : option N) (t : hdr)
         (n : nat) (resps : list resp) (h : hdr) (e : option verr),
  length resps <= n -> In (OHead h e) (snd (Head now drift tv want t n resps)) ->
  In (RGot h) resps /\ h_nil h = false /\ h_ok h = true /\ chain_ok want h = true /\
  (h_nil t = true -> e = None) /\
  (h_nil t = false ->
   (forall v, Verify now drift tv t h = Some v -> ve_soft v = true) /\
   (e = None -> Verify now drift tv t h = None) /\
   (forall v, e = Some v -> ve_soft v = true /\
      exists h', In (RGot h') resps /\ h_id h' = h_id h /\ Verify now drift tv t h' = Some v) /\
   (hash_inj resps -> forall v, e = Some v -> Verify now drift tv t h = Some v)).
Proof. exact head_returned_sound. Qed.

(** closure under permutation of the arrivals: the allowed outcomes are a
    function of the multiset of answers that arrive *)
Theorem C09_permutation_closed : forall (n : nat) (arr arr' : list ans),
  Permutation arr arr' -> length arr <= n -> consistent arr ->
  forall o, In o (head_fold n arr) <-> In o (head_fold n arr').
Proof. exact permutation_closed. Qed.

Theorem C09_permutation_closed_head :
  forall (now drift : Z) (tv : hdr -> hdr -> tvres) (want : option N) (t : hdr)
         (n : nat) (resps resps' : list resp),
  Permutation resps resps' -> length resps <= n -> hash_inj resps ->
  forall o, In o (snd (Head now drift tv want t n resps)) <-> In o (snd (Head now drift tv want t n resps')).
Proof. exact head_permutation_closed. Qed.

(** whom Head asks: the trusted peers; with a trusted head the tracked peers
    (at most maxUntrustedHeadRequests), falling back to the trusted peers when
    none is tracked *)
Theorem C09_asked_peers : forall ntrusted ntracked maxreq : nat,
  asked_count false ntrusted ntracked maxreq = ntrusted /\
  (1 <= ntracked -> 1 <= maxreq -> asked_count true ntrusted ntracked maxreq = Nat.min ntracked maxreq) /\
  (ntracked = 0 -> asked_count true ntrusted ntracked maxreq = ntrusted).
Proof. exact asked_count_spec. Qed.

(** non-vacuity *)
Definition exA : hdr := Hdr false 1 12 100%Z 1 0 true.
Definition exB : hdr := Hdr false 1 12 100%Z 2 0 true.
Definition exC : hdr := Hdr false 1 15 100%Z 3 0 true.
Definition exSoft : verr := VErr (RType 7) true.

(* four peers, quorum 3: the third A (fourth answer) decides, a hanging rest does not matter *)
Example C09_ex_quorum :
  min_resp 4 = 3 /\
  head_run 4 [AHdr exA None; AHdr exB None; AHdr exA None; AHdr exA None] = (4, [OHead exA None]) /\
  head_run 6 [AHdr exA None; NoHdr; AHdr exA None; AHdr exB None; AHdr exA None; AHdr exA None] = (6, [OHead exA None]) /\
  head_run 3 [AHdr exC (Some exSoft); AHdr exC (Some exSoft)] = (2, [OHead exC (Some exSoft)]).
Proof. vm_compute. repeat split. Qed.

Example C09_ex_first_quorum_hyps :
  length [AHdr exA None; AHdr exB None; AHdr exA None] < 4 /\
  no_quorum (min_resp 4) [AHdr exA None; AHdr exB None; AHdr exA None] /\
  min_resp 4 <= count_id (h_id exA) ([AHdr exA None; AHdr exB None; AHdr exA None] ++ [AHdr exA None]).
Proof. split; [cbn; lia|]. split; [apply nqb_true; reflexivity | vm_compute; lia]. Qed.

(* no quorum: the highest, with its soft error; ties are allowed outcomes *)
Example C09_ex_highest :
  head_run 3 [AHdr exA None; AHdr exC (Some exSoft); NoHdr] = (3, [OHead exC (Some exSoft)]) /\
  head_run 3 [AHdr exA None; NoHdr; AHdr exB None] = (3, [OHead exA None; OHead exB None]) /\
  head_run 2 [NoHdr; NoHdr] = (2, [ONotFound]) /\
  head_run 0 [] = (0, [ONotFound]) /\
  head_run 3 [AHdr exA None; NoHdr] = (2, [OCtx]).
Proof. vm_compute. repeat split. Qed.

Print Assumptions C09_quorum_arith.
Print Assumptions C09_quorum_unique.
Print Assumptions C09_first_quorum_wins.
Print Assumptions C09_quorum_found.
Print Assumptions C09_else_highest.
Print Assumptions C09_none_notfound.
Print Assumptions C09_notfound_only_if_none.
Print Assumptions C09_hanging_ctx.
Print Assumptions C09_ctx_only_if_hanging.
Print Assumptions C09_total.
Print Assumptions C09_trusted_head_sound.
Print Assumptions C09_permutation_closed.
Print Assumptions C09_permutation_closed_head.
Print Assumptions C09_asked_peers.
