(** C07 - with an honest getter the Syncer reaches every verified target; errors delay it.

    Model: Model/Syncer.v (the sync-loop goroutine as a small-step machine over
    the shim-wrapped Store, the pending ranges, State and the trigger channel).
    The world these theorems quantify over ("honest histories"):
      - the true chain is any [ch : N -> hdr] with [h_height (ch n) = n]; every
        delivered / Head()-supplied / getter-supplied header is a chain header
        with height below 2^64-1 ([good]);
      - a history is any list of events [hev]: gossip deliveries of chain
        headers at any clock value with any verification outcome of
        header.Verify (any type-level verifier [tv], any drift; soft failures
        with any bifurcation verdict that promotes ascending chain headers),
        Head() calls adopting a chain header, and single small steps of the
        sync loop, where each range request is answered by an error or by a
        non-empty prefix (any length up to the requested size) of the true
        chain ([honest_run]);  heads therefore arrive between ANY two steps of
        the loop (idle, mid-request, between Append's cache update and its
        store write, between Append and Remove, ...);
      - a learner call (verifier call / Head() call) runs to completion before
        the next event.  For ARBITRARY interleavings of learner calls with the
        loop (and arbitrary inputs) see the last three theorems of this file:
        the loop never panics, rangeAmount never exceeds the slice, and at
        quiescence without error nothing is pending (no head is left behind or
        below the store head); C03's theorems cover contiguity and provenance. *)
From Coq Require Import List.
From GH Require Import Base.Prelude Model.Verify Model.Ranges Model.Syncer Proofs.RangesP Proofs.SyncerP Proofs.SyncerInvP Proofs.SyncerLiveP.

Section c07.
Variables (drift : Z) (tv : hdr -> hdr -> tvres) (ch : N -> hdr).
Hypothesis Hch : forall n, h_height (ch n) = n.

(** From the state after ANY honest history (store tail..tail+k initially),
    running the loop against ANY honest getter [g] (every request answered by a
    non-empty prefix of the requested range) reaches quiescence within the
    stated number of steps, never panics, issues at most (target - Store head)
    range requests, and - unless the loop was idle
    without trigger after a failed attempt, where it waits for the next head
    (C07_next_head_resumes) - ends with: nothing pending, Store head = cache =
    the newest verified head, State without error and finished, SyncWait
    returning, the store being the true chain tail..head.
    This is the statement for histories with ATOMIC learner calls, on the finer
    machine [step] (every program counter of an Append a step of its own); it
    allows getter errors anywhere and counts the range requests.  The statement
    for interleaved learner calls is C07_reaches_target below (machine as of
    /repo 40dc6a8).  History: the interleaved form was false until /repo
    4d8c5ce + 77026ec (a head added below the store head stayed for good; a
    slice out of range), until 7d16f07 (finding F23: a list straddling the
    shim's head was passed through and the head left behind) and until 40dc6a8
    (finding F24: lost update on the shim's head between concurrent Appends);
    each defeating schedule is a corpus case of the checks and an Example
    below. *)
Theorem C07_reaches_target_atomic_calls : forall (tail : N) (k : nat) (es : list hev) (g : N -> N -> ganswer),
  tail + N.of_nat k + 1 < two64 ->
  let c0 := init_cfg tail (crun ch tail (S k)) in
  honest_run drift tv ch 0 c0 es -> honest_getter ch g ->
  let c := run drift tv c0 (compile 0 es) in
  let H := newest_height c in
  exists n, (n <= pot H c)%nat /\
    let c' := l_iter g n c in
    quiescent c' /\ c_loop c' <> LPanic /\
    (length (c_reqs c') <= length (c_reqs c) + N.to_nat (H - rs_head (c_store c)))%nat /\
    (waiting_after_error c \/ reached ch H c').
Proof. exact (reaches_target drift tv ch Hch). Qed.

(** the same with gaps in the pending set (several non-adjacent runs learned
    while a sync was running): they are filled by range requests *)
Theorem C07_gapped_pending : forall (tail : N) (k : nat) (es : list hev) (g : N -> N -> ganswer),
  tail + N.of_nat k + 1 < two64 ->
  let c0 := init_cfg tail (crun ch tail (S k)) in
  honest_run drift tv ch 0 c0 es -> honest_getter ch g ->
  let c := run drift tv c0 (compile 0 es) in
  (2 <= length (ranges_first (c_pend c)))%nat -> ~ waiting_after_error c ->
  exists n, let c' := l_iter g n c in quiescent c' /\ reached ch (newest_height c) c'.
Proof. exact (gapped_pending drift tv ch Hch). Qed.

(** a getter error (or an empty answer, or one starting at the wrong height)
    aborts only the current attempt: store, cache, pending and trigger are
    untouched, the loop is idle again and State reports the error *)
Theorem C07_error_aborts_only_attempt : forall (c : cfg) k from to a e,
  c_loop c = LReq k from to -> h_height from < to ->
  ((a = GErr /\ e = SEGetter) \/ (a = GList [] /\ e = SEEmpty) \/
   (exists x l, a = GList (x :: l) /\ h_height x <> wrap64 (h_height from + 1) /\ e = SEFirst)) ->
  let c' := l_step a c in
  c_store c' = c_store c /\ c_cache c' = c_cache c /\ c_pend c' = c_pend c /\ c_trig c' = c_trig c /\
  c_loop c' = LIdle /\ ss_err (c_state c') = Some e /\
  ss_id (c_state c') = ss_id (c_state c) /\ ss_from (c_state c') = ss_from (c_state c) /\ ss_to (c_state c') = ss_to (c_state c).
Proof. exact error_aborts. Qed.

(** nothing partial is lost: whatever any step of any goroutine does, what was
    appended to the store stays *)
Theorem C07_nothing_lost : forall (c : cfg) (e : event),
  exists l, rs_log (c_store (step drift tv c e)) = l ++ rs_log (c_store c).
Proof. exact (store_grows drift tv). Qed.

(** after any honest history - in particular after any finite run of getter
    errors - the next head that verify() accepts or Head() adopts is reached *)
Theorem C07_next_head_resumes : forall (tail : N) (k : nat) (es : list hev) (g : N -> N -> ganswer) (x : hdr) (e : hev),
  tail + N.of_nat k + 1 < two64 ->
  let c0 := init_cfg tail (crun ch tail (S k)) in
  honest_run drift tv ch 0 c0 es -> honest_getter ch g ->
  let c1 := run drift tv c0 (compile 0 es) in
  good ch x -> h_height (local_head c1) < h_height x ->
  (e = HHead (Some x) \/ exists now b, e = HGossip x now b /\ Verify now drift tv (local_head c1) x = None) ->
  let c := run drift tv c1 (compile1 (length (c_thr c1)) e) in
  let H := newest_height c in
  h_height x <= H /\
  exists n, (n <= pot H c)%nat /\ let c' := l_iter g n c in quiescent c' /\ reached ch H c'.
Proof. exact (next_head_resumes drift tv ch Hch). Qed.

(** no lost trigger: in every reachable state, if the loop is idle while heads
    are pending, then the trigger token is set - or the last attempt failed
    (and the next head will set it) *)
Theorem C07_no_lost_trigger : forall (tail : N) (k : nat) (es : list hev),
  tail + N.of_nat k + 1 < two64 ->
  let c0 := init_cfg tail (crun ch tail (S k)) in
  honest_run drift tv ch 0 c0 es ->
  let c := run drift tv c0 (compile 0 es) in
  c_loop c = LIdle -> ranges_all (c_pend c) <> [] -> c_trig c = true \/ ss_err (c_state c) <> None.
Proof. exact (no_lost_trigger drift tv ch Hch). Qed.

(** Get/Remove never leave the slice in any state reachable by an honest history *)
Theorem C07_no_slice_panic : forall (tail : N) (k : nat) (es : list hev),
  tail + N.of_nat k + 1 < two64 ->
  let c0 := init_cfg tail (crun ch tail (S k)) in
  honest_run drift tv ch 0 c0 es ->
  c_loop (run drift tv c0 (compile 0 es)) <> LPanic.
Proof. exact (no_slice_panic drift tv ch Hch). Qed.

End c07.

(** ** every schedule, arbitrary inputs (the machine of C03) *)

(** headerRange.rangeAmount never exceeds the number of headers, for ALL start,
    length and end (uint64 wrap-around included): Get/Remove/RemoveUpTo cannot
    slice out of range *)
Theorem C07_range_amount_never_exceeds : forall start len e : N, range_amount start len e <= len.
Proof. exact range_amount_le. Qed.

(** no step of any goroutine, from any configuration, under any inputs, makes
    the sync loop panic *)
Theorem C07_no_panic_any_schedule : forall drift tv (es : list event) (c : cfg),
  c_loop c <> LPanic -> c_loop (run drift tv c es) <> LPanic.
Proof. exact no_panic_run. Qed.

(** the subjective head (localHead, what Syncer.Head() reports and new heads are
    verified against) is never below the shim's store head, in ANY configuration
    (since /repo dd38a4c localHead takes the higher of pending head and store head) *)
Theorem C07_head_never_below_store_head : forall c : cfg, h_height (c_cache c) <= h_height (local_head c).
Proof. exact local_head_ge_cache. Qed.

(** For every schedule - learner calls interleaved with the loop at every
    single access, in particular setLocalHead's check-then-act (shim head
    compared, pending.Add later) - and arbitrary well-formed inputs: whenever
    the Syncer is quiescent (loop idle, no trigger token, every learner call
    returned) and the last attempt did not fail, NOTHING is pending: no head is
    left behind and none sits at or below the store head; the subjective head
    (localHead, what Syncer.Head() reports) is the shim's store head, which lies
    on the stored chain. *)
Theorem C07_quiescent_nothing_pending : forall drift tv (tail : N) (a : hdr) (l : list hdr) (es : list event),
  consec (a :: l) -> Forall hok (a :: l) -> h_height a = tail ->
  Forall (wf_event tail) es ->
  let c := run drift tv (init_cfg tail (a :: l)) es in
  all_quiet c -> ss_err (c_state c) = None ->
  ranges_all (c_pend c) = [] /\ local_head c = c_cache c /\
  tail <= h_height (c_cache c) <= rs_head (c_store c).
Proof. exact quiet_run. Qed.

(** non-vacuity: a concrete honest history (skipping head, partial answers, a
    head learned during the sync leaving a gap, an error) and its outcome *)
Example C07_example :
  let ch := wch in
  let tvf := fun _ _ : hdr => TVOk in
  let c0 := init_cfg 15 (crun ch 15 3) in
  let es := [ HGossip (ch 30) 100%Z (Bif [] false); HStep GErr; HStep GErr; HStep GErr; HStep GErr; HStep GErr; HStep GErr
            ; HStep (GList (crun ch 18 2)); HGossip (ch 40) 100%Z (Bif [] false); HStep GErr; HStep GErr; HStep GErr
            ; HStep GErr (* the getter fails *) ] in
  let c := run 10%Z tvf c0 (compile 0 es) in
  let g := fun f to => GList (crun ch (f + 1) (N.to_nat (req_size f to))) in
  let c' := l_iter g 200 c in
  (rs_head (c_store c), ss_err (c_state c), c_trig c, length (c_pend c)) = (19, Some SEGetter, true, 2%nat) /\
  (rs_head (c_store c'), ss_err (c_state c'), c_trig c', c_loop c', ranges_all (c_pend c'), length (c_reqs c')) = (40, None, false, LIdle, [], 4%nat).
Proof. vm_compute. split; reflexivity. Qed.

(** *** schedules that defeated the interleaved form before /repo 7d16f07

    Until 7d16f07 syncStore.Append passed a list whose first height is below
    the shim's head through unchecked and left the shim's head where it was,
    also when the list ended ABOVE that head.  Head() calls that captured
    their subjective head before newer heads were gossiped, and set their
    (adjacent) answers afterwards, move the shim head into the middle of what
    the loop is about to append: honest schedules then ended quiescent with the
    shim head (State().Height, Syncer.Head()) one below the Store head and the
    sync never Finished, or with a spurious errNonAdjacent and the target left
    pending without trigger (finding F23; harness/c03/straddle_test.go replays
    both on the real code).  Since 7d16f07 the walk applies to the part of the
    list at or above the head; the same schedules now end [reached]. *)
Definition cx_load (i : nat) (n : N) : list event := EHead (Some (wch n)) :: repeat (ET i) 2.     (* Head(): subjective head captured, answer n in flight *)
Definition cx_gossip (i : nat) (n : N) : list event := EGossip (wch n) 100%Z (Bif [] false) :: repeat (ET i) 6.   (* a complete verifier call *)
Definition cx_view (c : cfg) :=
  (rs_head (c_store c), h_height (c_cache c), h_height (local_head c), c_trig c, ranges_all (c_pend c), c_loop c,
   forallb (fun t => match t with TDone _ => true | _ => false end) (c_thr c), ss_err (c_state c), ss_to (c_state c), state_finished c).

(** a pending range straddling the shim head *)
Example C07_straddling_range_example :
  let tvf := fun _ _ : hdr => TVOk in
  let c0 := init_cfg 15 (crun wch 15 3) in
  let es1 := cx_load 0 18 ++ cx_load 1 19 ++ cx_load 2 20 ++ cx_load 3 21          (* four Head() calls ask with subjective head 17 *)
             ++ cx_gossip 4 19 ++ repeat (EL GErr) 6                               (* gossip 19; the loop requests (17,19) *)
             ++ cx_gossip 5 20 ++ cx_gossip 6 21 ++ cx_gossip 7 22 in             (* pending [19 20 21 22] *)
  let es2 := repeat (ET 0) 5 ++ repeat (ET 1) 5 ++ repeat (ET 2) 5 ++ repeat (ET 3) 5   (* the answers 18..21 are set: shim head 21 *)
             ++ [EL (GList [wch 18])] ++ repeat (EL GErr) 30 in                   (* the request is served in full; the loop runs until idle *)
  let c1 := run 10%Z tvf c0 es1 in
  let c := run 10%Z tvf c0 (es1 ++ es2) in
  h_height (local_head c1) = 22 /\
  cx_view c = (22, 22, 22, false, [], LIdle, true, None, 22, true).
Proof. vm_compute. split; reflexivity. Qed.

(** a range answer straddling the shim head *)
Example C07_straddling_answer_example :
  let tvf := fun _ _ : hdr => TVOk in
  let c0 := init_cfg 15 (crun wch 15 3) in
  let es := cx_load 0 18 ++ cx_load 1 19 ++ cx_gossip 2 21 ++ repeat (EL GErr) 6    (* pending [21]; the loop requests (17,21) *)
            ++ repeat (ET 0) 5 ++ repeat (ET 1) 5                                   (* the answers 18, 19 are set: shim head 19 *)
            ++ [EL (GList [wch 18; wch 19; wch 20])] ++ repeat (EL GErr) 30 in
  let c := run 10%Z tvf c0 es in
  cx_view c = (21, 21, 21, false, [], LIdle, true, None, 21, true).
Proof. vm_compute. split; reflexivity. Qed.

(** *** a lost update on the shim's head (finding F24, repaired in /repo 40dc6a8)

    Until 40dc6a8 syncStore.Append loaded its head, checked the list against it
    and stored the new head later (program counters SL0 / SL1 of a learner call,
    LApp0 / LApp1 of the loop) with nothing excluding another Append in between
    (incomingMu only serialises gossip calls: Head() calls and the sync loop
    append concurrently).  On the finer machine [run], which still has these
    program counters, a call preempted between load and store overwrites a
    newer head with its older one: honest schedule, quiescent end, nothing
    pending, no error, every head stored (Store head 20) - but the shim head,
    State().Height and Syncer.Head() are 18 (Syncer.Head() was 20 before).
    On the machine as of 40dc6a8 ([arun]: the Append is one step) the same events
    end with shim head = Store head = Syncer.Head() = 20.  Real code: corpus case
    append_lock of the C03/C07 checks; harness/c03/straddle_test.go
    TestShimRaceWitness. *)
Example C07_shim_lost_update_example :
  let tvf := fun _ _ : hdr => TVOk in
  let c0 := init_cfg 15 (crun wch 15 3) in
  let es1 := [EHead (Some (wch 18))] ++ repeat (ET 0) 4                  (* Head() learns 18: inside Append (finer machine: head 17 loaded, 18 not yet stored into the shim) *)
             ++ [EHead (Some (wch 18))] ++ repeat (ET 1) 7                (* three complete Head() calls learn 18, 19, 20 *)
             ++ [EHead (Some (wch 19))] ++ repeat (ET 2) 7
             ++ [EHead (Some (wch 20))] ++ repeat (ET 3) 7 in
  let es2 := repeat (ET 0) 4 in                                          (* the first call goes on *)
  let c1 := run 10%Z tvf c0 es1 in
  let c := run 10%Z tvf c0 (es1 ++ es2) in
  let c' := arun 10%Z tvf c0 (es1 ++ es2) in
  h_height (local_head c1) = 20 /\
  cx_view c = (20, 18, 18, false, [], LIdle, true, None, 0, true) /\
  cx_view c' = (20, 20, 20, false, [], LIdle, true, None, 0, true).
Proof. vm_compute. repeat split; reflexivity. Qed.

(** *** interleaved learner calls: the machine as of /repo 40dc6a8

    [astep] is the small-step machine with syncStore.Append as ONE step (40dc6a8
    holds a lock from loading the shim's head to the return of Store.Append);
    gossip verifier calls and Head() calls are split at every other read and
    write (incomingMu, pending.Head, the store head, the verdict, the Append,
    the already-synced check, pending.Add, wantSync), the loop at every access.
    Every run of [astep] is a run of the finer machine [step], goroutine by
    goroutine: what Props/C03.v and the theorems above prove for every schedule
    of [step] holds for [astep]. *)
Theorem C07_atomic_append_machine_refines : forall drift tv (es : list event) (c : cfg),
  exists es', arun drift tv c es = run drift tv c es' /\
    (forall W : event -> Prop, W (EL GErr) -> (forall i, W (ET i)) -> Forall W es -> Forall W es').
Proof. exact arun_run. Qed.

(** EVERY schedule, arbitrary well-formed inputs, the finer machine (hence also
    [astep]): a step that is enabled - the loop unless idle without trigger, a
    learner call unless returned or waiting for incomingMu - strictly decreases
    the measure [mu D E] as long as no new call is spawned and the getter's
    answers stay below height D: no schedule runs forever, whatever the order,
    with or without errors.  [bnd D E] holds of a configuration for
    D = [Dof c], E = [Eof c] (heights in play; pending entries present or still
    to come). *)
Theorem C07_every_enabled_step_progresses : forall drift tv (tail : N) (D E : nat) (c : cfg) (e : event),
  Inv tail c -> Sinv c -> bnd D E c -> wf_event tail e -> ans_ok D e -> enabled c e ->
  (mu D E (step drift tv c e) < mu D E c)%nat /\ bnd D E (step drift tv c e).
Proof. exact step_decreases. Qed.

(** ... and when nothing is enabled the Syncer is quiescent: loop idle, no
    trigger token, every learner call returned (a call waiting for incomingMu
    implies a call holding it, which can move) *)
Theorem C07_nothing_enabled_is_quiescent : forall (c : cfg),
  Sinv c -> c_loop c <> LPanic -> ~ l_enabled c -> (forall i, ~ t_enabled i c) -> all_quiet c.
Proof. exact stuck_quiet. Qed.

(** EVERY schedule of [astep], arbitrary inputs: Syncer.Head() never moves
    back, and at quiescence the shim's head (State().Height) is the Store's
    head ([Ainv] is the invariant of [astep] runs, established by [Ainv_init]) *)
Theorem C07_head_never_moves_back : forall drift tv (tail : N) (es : list event) (c : cfg),
  Ainv tail c -> Tinv c -> Forall (wf_event tail) es ->
  Ainv tail (arun drift tv c es) /\ Tinv (arun drift tv c es) /\ Lh c <= Lh (arun drift tv c es) /\
  forall n, covered n c -> covered n (arun drift tv c es).
Proof. exact Ainv_arun. Qed.

Theorem C07_quiescent_shim_head_is_store_head : forall (tail : N) (c : cfg),
  Ainv tail c -> all_quiet c -> hc c = rs_head (c_store c).
Proof. exact quiet_shim_is_store. Qed.

Section c07live.
Variables (drift : Z) (tv : hdr -> hdr -> tvres) (tail : N) (ch : N -> hdr).
Hypothesis Hch : forall n, h_height (ch n) = n.

(** C07 for INTERLEAVED learner calls.
    [es]: any history of [astep] events - gossip deliveries and Head() calls of
    true chain headers spawned at any point (any clock, any type-level
    verifier, any bifurcation verdict promoting chain headers), their steps and
    the loop's steps in any order, range answers that are errors or lists of
    chain headers ([wf_event], [hev1]).
    [ds] (the drain): from then on no new call is spawned, every range request is
    answered by a non-empty prefix of what was asked ([dans]), and every step
    taken is enabled when it is taken ([drain]) - nothing else is assumed about
    the order.  Then:
    - [ds] is at most [mu (Dof c0) (Eof c0) c0] steps long (the bound, a function
      of the configuration the drain starts from);
    - no sync attempt fails during the drain (State().Error is cleared or left
      as it was);
    - when nothing is enabled any more ([stuck]: the schedule is maximal) the
      Syncer is quiescent, and unless State().Error is still the one of an
      attempt aborted BEFORE the drain: nothing is pending, Store head = shim
      head = Syncer.Head() = [Lh c'], State finished without error, SyncWait
      returns, the Store is the true chain tail..head; this head is at or above
      Syncer.Head() at the start of the drain and above every header a learner
      call in flight had adopted ([twork]) - the newest verified head. *)
Theorem C07_reaches_target : forall (a : hdr) (l : list hdr) (es ds : list event),
  consec (a :: l) -> Forall (good ch) (a :: l) -> h_height a = tail ->
  Forall (fun e => wf_event tail e /\ hev1 ch e) es ->
  let c0 := arun drift tv (init_cfg tail (a :: l)) es in
  drain drift tv ch c0 ds ->
  let c' := arun drift tv c0 ds in
  let D := Dof c0 in let E := Eof c0 in
  (length ds + mu D E c' <= mu D E c0)%nat /\
  (ss_err (c_state c') = None \/ ss_err (c_state c') = ss_err (c_state c0)) /\
  (stuck c' ->
     all_quiet c' /\
     (ss_err (c_state c') = None ->
        reached ch (Lh c') c' /\ h_height (local_head c0) <= Lh c' /\
        forall y, In y (flat_map twork (c_thr c0)) -> h_height y <= Lh c')).
Proof. exact (reaches_target_interleaved drift tv tail ch Hch). Qed.

(** the same as a run to quiescence under an explicit scheduler.  The only
    thing asked of the scheduler ([sched_ok]): whenever something can move it
    picks a step that can - some learner call's, or the loop's with the honest
    getter's answer.  No fairness between goroutines is needed (every enabled
    step makes progress): driving the machine for [mu] steps ends quiescent. *)
Theorem C07_reaches_target_run_to_quiescence : forall (a : hdr) (l : list hdr) (es : list event) (sched : cfg -> event),
  consec (a :: l) -> Forall (good ch) (a :: l) -> h_height a = tail ->
  Forall (fun e => wf_event tail e /\ hev1 ch e) es -> sched_ok tail ch sched ->
  let c0 := arun drift tv (init_cfg tail (a :: l)) es in
  let c' := drive drift tv sched (mu (Dof c0) (Eof c0) c0) c0 in
  all_quiet c' /\
  (ss_err (c_state c') = None \/ ss_err (c_state c') = ss_err (c_state c0)) /\
  (ss_err (c_state c') = None ->
     reached ch (Lh c') c' /\ h_height (local_head c0) <= Lh c' /\
     forall y, In y (flat_map twork (c_thr c0)) -> h_height y <= Lh c').
Proof. exact (reaches_target_fair drift tv tail ch Hch). Qed.

(** such schedulers exist *)
Theorem C07_scheduler_exists : sched_ok tail ch (first_sched ch).
Proof. exact (first_sched_ok tail ch Hch). Qed.

(** C07_reaches_target after a history in which the underlying Store.Append FAILED at will
    ([xrun]: [XLF] the sync loop's write, [XTF i] learner call i's; since /repo f604e5b a
    failed write changes nothing).  Only the drain is free of failing writes - exactly as
    for getter errors: a failed write of the sync loop aborts the attempt with State().Error
    set and leaves the target pending; if nothing is learned afterwards the Syncer waits in
    that state (second conjunct: the error is the one from before the drain, and then
    nothing more is claimed); the next learned head restarts the sync, which completes and
    clears the error (C07_failed_write_example below shows both).  A learner call's failed
    write leaves its header to pending and the loop, which stores it in the drain. *)
Theorem C07_reaches_target_after_write_failures : forall (a : hdr) (l : list hdr) (xs : list xevent) (ds : list event),
  consec (a :: l) -> Forall (good ch) (a :: l) -> h_height a = tail ->
  Forall (fun x => wf_x tail x /\ hevx ch x) xs ->
  let c0 := xrun drift tv (init_cfg tail (a :: l)) xs in
  drain drift tv ch c0 ds ->
  let c' := arun drift tv c0 ds in
  let D := Dof c0 in let E := Eof c0 in
  (length ds + mu D E c' <= mu D E c0)%nat /\
  (ss_err (c_state c') = None \/ ss_err (c_state c') = ss_err (c_state c0)) /\
  (stuck c' ->
     all_quiet c' /\
     (ss_err (c_state c') = None ->
        reached ch (Lh c') c' /\ h_height (local_head c0) <= Lh c' /\
        forall y, In y (flat_map twork (c_thr c0)) -> h_height y <= Lh c')).
Proof. exact (reaches_target_after_write_failures drift tv tail ch Hch). Qed.

End c07live.

(** a failed write of the sync loop: the attempt ends with the error, the target stays
    pending and the Syncer waits (nothing is enabled); the next learned head restarts the
    sync, which completes: Store head = shim head = Syncer.Head() = 21, no error.  The
    same run on the real code: corpus case failwrite_loop of the C03 and C07 checks. *)
Example C07_failed_write_example :
  let tvf := fun _ _ : hdr => TVOk in
  let c0 := init_cfg 15 (crun wch 15 3) in
  let xs1 := map XE (cx_gossip 0 20 ++ repeat (EL GErr) 6 ++ [EL (GList [wch 18; wch 19])]) ++ [XLF] in
  let xs2 := map XE (cx_gossip 1 21 ++ repeat (EL GErr) 6 ++ [EL (GList [wch 18; wch 19])] ++ repeat (EL GErr) 30) in
  let c1 := xrun 10%Z tvf c0 xs1 in
  let c2 := xrun 10%Z tvf c0 (xs1 ++ xs2) in
  cx_view c1 = (17, 17, 20, false, [wch 20], LIdle, true, Some SEStore, 20, false) /\
  cx_view c2 = (21, 21, 21, false, [], LIdle, true, None, 21, true).
Proof. vm_compute. split; reflexivity. Qed.

Print Assumptions C07_reaches_target_atomic_calls.
Print Assumptions C07_gapped_pending.
Print Assumptions C07_error_aborts_only_attempt.
Print Assumptions C07_nothing_lost.
Print Assumptions C07_next_head_resumes.
Print Assumptions C07_no_lost_trigger.
Print Assumptions C07_no_slice_panic.
Print Assumptions C07_range_amount_never_exceeds.
Print Assumptions C07_no_panic_any_schedule.
Print Assumptions C07_head_never_below_store_head.
Print Assumptions C07_quiescent_nothing_pending.
Print Assumptions C07_atomic_append_machine_refines.
Print Assumptions C07_every_enabled_step_progresses.
Print Assumptions C07_nothing_enabled_is_quiescent.
Print Assumptions C07_head_never_moves_back.
Print Assumptions C07_quiescent_shim_head_is_store_head.
Print Assumptions C07_reaches_target.
Print Assumptions C07_reaches_target_run_to_quiescence.
Print Assumptions C07_scheduler_exists.
Print Assumptions C07_reaches_target_after_write_failures.
