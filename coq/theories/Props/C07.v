(** C07 - with an honest getter the Syncer reaches every verified target; errors delay it.

    Model: Model/Syncer.v (the sync-loop goroutine as a small-step machine over
    the shim-wrapped Store, the pending ranges, State and the trigger channel).
    The world these theorems quantify over ("honest histories"):
      - the true chain is any [ch : N -> hdr] with [h_height (ch n) = n]; every
        delivered / Head()-supplied / getter-supplied header is a chain header
        with height below 2^64-1 ([good]);
      - a history is any list of events [hev]: gossip deliveries of chain
        headers at any clock value with any verification outcome of
        header.Verify (any type-level verifier [tv], any drift; soft failures
        with any bifurcation verdict that promotes ascending chain headers),
        Head() calls adopting a chain header, and single small steps of the
        sync loop, where each range request is answered by an error or by a
        non-empty prefix (any length up to the requested size) of the true
        chain ([honest_run]);  heads therefore arrive between ANY two steps of
        the loop (idle, mid-request, between Append's cache update and its
        store write, between Append and Remove, ...);
      - a learner call (verifier call / Head() call) runs to completion before
        the next event: see C07_reaches_target_refuted for what the model shows
        without this (finer interleavings are C03's subject). *)
From Coq Require Import List.
From GH Require Import Base.Prelude Model.Verify Model.Ranges Model.Syncer Proofs.RangesP Proofs.SyncerP.

Section c07.
Variables (drift : Z) (tv : hdr -> hdr -> tvres) (ch : N -> hdr).
Hypothesis Hch : forall n, h_height (ch n) = n.

(** From the state after ANY honest history (store tail..tail+k initially),
    running the loop against ANY honest getter [g] (every request answered by a
    non-empty prefix of the requested range) reaches quiescence within the
    stated number of steps, never panics, issues at most (target - Store head)
    range requests, and - unless the loop was idle
    without trigger after a failed attempt, where it waits for the next head
    (C07_next_head_resumes) - ends with: nothing pending, Store head = cache =
    the newest verified head, State without error and finished, SyncWait
    returning, the store being the true chain tail..head.
    Partial only in the granularity of learner calls (atomic). *)
Theorem C07_reaches_target_partial : forall (tail : N) (k : nat) (es : list hev) (g : N -> N -> ganswer),
  tail + N.of_nat k + 1 < two64 ->
  let c0 := init_cfg tail (crun ch tail (S k)) in
  honest_run drift tv ch 0 c0 es -> honest_getter ch g ->
  let c := run drift tv c0 (compile 0 es) in
  let H := newest_height c in
  exists n, (n <= pot H c)%nat /\
    let c' := l_iter g n c in
    quiescent c' /\ c_loop c' <> LPanic /\
    (length (c_reqs c') <= length (c_reqs c) + N.to_nat (H - rs_head (c_store c)))%nat /\
    (waiting_after_error c \/ reached ch H c').
Proof. exact (reaches_target drift tv ch Hch). Qed.

(** the same with gaps in the pending set (several non-adjacent runs learned
    while a sync was running): they are filled by range requests *)
Theorem C07_gapped_pending : forall (tail : N) (k : nat) (es : list hev) (g : N -> N -> ganswer),
  tail + N.of_nat k + 1 < two64 ->
  let c0 := init_cfg tail (crun ch tail (S k)) in
  honest_run drift tv ch 0 c0 es -> honest_getter ch g ->
  let c := run drift tv c0 (compile 0 es) in
  (2 <= length (ranges_first (c_pend c)))%nat -> ~ waiting_after_error c ->
  exists n, let c' := l_iter g n c in quiescent c' /\ reached ch (newest_height c) c'.
Proof. exact (gapped_pending drift tv ch Hch). Qed.

(** a getter error (or an empty answer, or one starting at the wrong height)
    aborts only the current attempt: store, cache, pending and trigger are
    untouched, the loop is idle again and State reports the error *)
Theorem C07_error_aborts_only_attempt : forall (c : cfg) k from to a e,
  c_loop c = LReq k from to -> h_height from < to ->
  ((a = GErr /\ e = SEGetter) \/ (a = GList [] /\ e = SEEmpty) \/
   (exists x l, a = GList (x :: l) /\ h_height x <> wrap64 (h_height from + 1) /\ e = SEFirst)) ->
  let c' := l_step a c in
  c_store c' = c_store c /\ c_cache c' = c_cache c /\ c_pend c' = c_pend c /\ c_trig c' = c_trig c /\
  c_loop c' = LIdle /\ ss_err (c_state c') = Some e /\
  ss_id (c_state c') = ss_id (c_state c) /\ ss_from (c_state c') = ss_from (c_state c) /\ ss_to (c_state c') = ss_to (c_state c).
Proof. exact error_aborts. Qed.

(** nothing partial is lost: whatever any step of any goroutine does, what was
    appended to the store stays *)
Theorem C07_nothing_lost : forall (c : cfg) (e : event),
  exists l, rs_log (c_store (step drift tv c e)) = l ++ rs_log (c_store c).
Proof. exact (store_grows drift tv). Qed.

(** after any honest history - in particular after any finite run of getter
    errors - the next head that verify() accepts or Head() adopts is reached *)
Theorem C07_next_head_resumes : forall (tail : N) (k : nat) (es : list hev) (g : N -> N -> ganswer) (x : hdr) (e : hev),
  tail + N.of_nat k + 1 < two64 ->
  let c0 := init_cfg tail (crun ch tail (S k)) in
  honest_run drift tv ch 0 c0 es -> honest_getter ch g ->
  let c1 := run drift tv c0 (compile 0 es) in
  good ch x -> h_height (local_head c1) < h_height x ->
  (e = HHead (Some x) \/ exists now b, e = HGossip x now b /\ Verify now drift tv (local_head c1) x = None) ->
  let c := run drift tv c1 (compile1 (length (c_thr c1)) e) in
  let H := newest_height c in
  h_height x <= H /\
  exists n, (n <= pot H c)%nat /\ let c' := l_iter g n c in quiescent c' /\ reached ch H c'.
Proof. exact (next_head_resumes drift tv ch Hch). Qed.

(** no lost trigger: in every reachable state, if the loop is idle while heads
    are pending, then the trigger token is set - or the last attempt failed
    (and the next head will set it) *)
Theorem C07_no_lost_trigger : forall (tail : N) (k : nat) (es : list hev),
  tail + N.of_nat k + 1 < two64 ->
  let c0 := init_cfg tail (crun ch tail (S k)) in
  honest_run drift tv ch 0 c0 es ->
  let c := run drift tv c0 (compile 0 es) in
  c_loop c = LIdle -> ranges_all (c_pend c) <> [] -> c_trig c = true \/ ss_err (c_state c) <> None.
Proof. exact (no_lost_trigger drift tv ch Hch). Qed.

(** Get/Remove never leave the slice in any state reachable by an honest history *)
Theorem C07_no_slice_panic : forall (tail : N) (k : nat) (es : list hev),
  tail + N.of_nat k + 1 < two64 ->
  let c0 := init_cfg tail (crun ch tail (S k)) in
  honest_run drift tv ch 0 c0 es ->
  c_loop (run drift tv c0 (compile 0 es)) <> LPanic.
Proof. exact (no_slice_panic drift tv ch Hch). Qed.

End c07.

(** Without atomic learner calls the statement is false of the model: a gossip
    verifier call preempted between setLocalHead's "already synced?" check and
    pending.Add, a Head() call adopting the next head and a complete sync in
    between make pending hold a header one below the sync target's height;
    rangeAmount then yields len+1 and the sync loop's Get slices out of range.
    All heads are valid, the getter is honest.  (Model-level schedule: the
    window lies between Remove and First inside processHeaders, where the code
    offers no injectable yield point, so it is not replayed on the real code.) *)
Theorem C07_reaches_target_refuted :
  exists (c0 : cfg) (sched : list event),
    c_loop (run 10%Z (fun _ _ => TVOk) c0 sched) = LPanic.
Proof. exact interleaved_learner_panics_ex. Qed.

(** non-vacuity: a concrete honest history (skipping head, partial answers, a
    head learned during the sync leaving a gap, an error) and its outcome *)
Example C07_example :
  let ch := wch in
  let tvf := fun _ _ : hdr => TVOk in
  let c0 := init_cfg 15 (crun ch 15 3) in
  let es := [ HGossip (ch 30) 100%Z (Bif [] false); HStep GErr; HStep GErr; HStep GErr; HStep GErr; HStep GErr
            ; HStep (GList (crun ch 18 2)); HGossip (ch 40) 100%Z (Bif [] false); HStep GErr; HStep GErr; HStep GErr
            ; HStep GErr (* the getter fails *) ] in
  let c := run 10%Z tvf c0 (compile 0 es) in
  let g := fun f to => GList (crun ch (f + 1) (N.to_nat (req_size f to))) in
  let c' := l_iter g 200 c in
  (rs_head (c_store c), ss_err (c_state c), c_trig c, length (c_pend c)) = (19, Some SEGetter, true, 2%nat) /\
  (rs_head (c_store c'), ss_err (c_state c'), c_trig c', c_loop c', ranges_all (c_pend c'), length (c_reqs c')) = (40, None, false, LIdle, [], 4%nat).
Proof. vm_compute. split; reflexivity. Qed.

Print Assumptions C07_reaches_target_partial.
Print Assumptions C07_gapped_pending.
Print Assumptions C07_error_aborts_only_attempt.
Print Assumptions C07_nothing_lost.
Print Assumptions C07_next_head_resumes.
Print Assumptions C07_no_lost_trigger.
Print Assumptions C07_no_slice_panic.
Print Assumptions C07_reaches_target_refuted.
