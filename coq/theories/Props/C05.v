(** C05 — Exchange.GetRangeByHeight yields a verified contiguous run from from+1 or fails.

    Statements only; proofs are in Proofs/SessionP.v. The model (Model/Session.v) runs one
    call: [GetRangeByHeight drift tv maxcap per from to peers evs] is what the call has
    returned ([None] = still waiting) after the events [evs]. The theorems quantify over
    ALL event lists: which request goes to which idle peer, in which order answers arrive,
    and what every answer contains (any list of frames: valid, shifted, duplicated,
    reordered, forged, wrong-chain, undecodable, panicking, partial, overlong, empty),
    over every clock reading per answer, every type-level verifier [tv], chunk size
    [per >= 1] and peer set. uint64 arithmetic is explicit ([two64], [wrap64]);
    [h_height from < two64] and [to < two64] say that these are uint64 values.
    The header type's own Verify [tvp] may also PANIC ([TVPanics]): [GetRangeByHeight_p] is the
    call with such a verifier (session.processResponses and verifyChunkBoundaries recover);
    [Verify_p ... = Some None] means "verified without error and without panic". *)
From GH Require Import Base.Prelude Model.Verify Model.Session Proofs.SessionP.

(** If the call returns headers they are exactly the heights from+1 .. to-1 in ascending
    order (no gap, no duplicate, [to - from - 1 >= 1] many); every one of them was sent by
    some peer, passed Validate and lies below [to]. *)
Theorem C05_result_shape :
  forall (drift : Z) (tvp : hdr -> hdr -> tvres_p) (maxcap per : N) (from : hdr) (to : N)
         (peers : list N) (evs : list event) (res : list hdr),
  h_nil from = false -> h_height from < two64 -> to < two64 -> 1 <= per ->
  GetRangeByHeight_p drift tvp maxcap per from to peers evs = Some (ROk res) ->
  h_height from + 1 < to /\
  res <> [] /\
  map h_height res = seqN (h_height from + 1) (N.to_nat (to - (h_height from + 1))) /\
  (forall h, In h res -> h_height h < to /\ h_ok h = true /\ In h (evs_hdrs evs)).
Proof. exact result_heights_p. Qed.

(** "... and Verify starting from from": the returned slice is ONE Verify chain. Every
    returned header passed [Verify] (at the clock reading of one of the answers) against the
    header returned just before it, the first one against [from]:
    inside an answer chunk by VerifyRange(from, chunk), across chunks by
    verifyChunkBoundaries. *)
Theorem C05_result_verified :
  forall (drift : Z) (tvp : hdr -> hdr -> tvres_p) (maxcap per : N) (from : hdr) (to : N)
         (peers : list N) (evs : list event) (res : list hdr),
  h_nil from = false -> h_height from < two64 -> to < two64 -> 1 <= per ->
  GetRangeByHeight_p drift tvp maxcap per from to peers evs = Some (ROk res) ->
  chain (verified_during_p drift tvp evs) from res.
Proof. exact result_verified_p. Qed.

(** Degenerate requests - every (from, to) with to <= from.Height()+1, including
    from.Height() = 2^64-1 for which every [to] is degenerate - return ErrRangeMixUp at once
    (whatever the events: before any of them; no hang, no panic). *)
Theorem C05_degenerate_is_error :
  forall drift tvp maxcap per (from : hdr) (to : N) peers evs,
  h_height from < two64 -> to <= h_height from + 1 ->
  GetRangeByHeight_p drift tvp maxcap per from to peers evs = Some (RErr ERangeMixUp).
Proof. exact degenerate_is_error_p. Qed.

(** No peer answer can crash the client: once the call has started, no sequence of answers
    leads to a panic, whatever the header type's own Verify does with the received headers -
    including panicking: the recovered decode / Validate / Verify panic while an answer is
    processed, the recovered panic of the boundary check, the unguarded h[0], the
    prepareRequests(...)[0] of the re-request, chunks[i][0] and prev[len(prev)-1] are all
    covered. The premise says the caller's own range fits in a slice ([maxcap] = largest
    capacity [make] accepts); see [C05_range_beyond_slice_limit]. *)
Theorem C05_no_response_can_crash :
  forall drift (tvp : hdr -> hdr -> tvres_p) maxcap per (from : hdr) (to : N) peers evs,
  h_nil from = false -> h_height from < two64 -> to < two64 -> 1 <= per ->
  to - (h_height from + 1) <= maxcap ->
  GetRangeByHeight_p drift tvp maxcap per from to peers evs <> Some RPanic /\
  GetRangeByHeight_p drift tvp maxcap per from to peers evs <> Some RFuel.
Proof. exact no_response_crashes_p. Qed.

(** every panic of the type-level Verify is recovered: the call behaves exactly as with a
    verifier that rejects where the original one panics *)
Theorem C05_verify_panics_are_rejections :
  forall drift (tvp : hdr -> hdr -> tvres_p) maxcap per (from : hdr) (to : N) peers evs,
  GetRangeByHeight_p drift tvp maxcap per from to peers evs =
  GetRangeByHeight drift (recovered tvp) maxcap per from to peers evs.
Proof. exact outcome_p_eq. Qed.

(** documented limit of the premise above (outside the property: the caller asks for a
    range longer than any slice; prepareRequests / make([]H, 0, amount) panic) *)
Theorem C05_range_beyond_slice_limit :
  forall drift (tv : hdr -> hdr -> tvres) maxcap per (from : hdr) (to : N) peers evs,
  h_height from + 1 < two64 -> to < two64 -> 1 <= per ->
  h_height from + 1 < to -> maxcap < to - (h_height from + 1) ->
  GetRangeByHeight drift tv maxcap per from to peers evs = Some RPanic.
Proof. exact huge_range_panics. Qed.

(** the only errors are: mixed-up range (at once, only for degenerate requests), context
    ended, exchange stopped, and the boundary check ([ENotChain]: a header that does not verify
    against the one below it, or a recovered panic of that verification) *)
Theorem C05_errors_have_a_cause :
  forall drift tvp maxcap per (from : hdr) (to : N) peers evs e,
  h_height from < two64 -> to < two64 -> 1 <= per ->
  GetRangeByHeight_p drift tvp maxcap per from to peers evs = Some (RErr e) ->
  (e = ERangeMixUp /\ to <= h_height from + 1) \/
  (e = ECtx /\ In ECtxDone evs) \/ (e = EClosed /\ In EStop evs) \/
  (e = ENotChain /\ exists p now fs, In (ERespond p now fs) evs).
Proof. exact errors_have_a_cause_p. Qed.

(** non-vacuity: two chunks answered out of order by two peers *)
Example C05_two_chunks :
  GetRangeByHeight 0%Z ex_tv 100 3 (ex_hdr 10) 16 [0; 1]
    [EDispatch 0 (Req 11 3); EDispatch 1 (Req 14 2);
     ERespond 1 5%Z [FHdr (ex_hdr 14); FHdr (ex_hdr 15)];
     ERespond 0 5%Z [FHdr (ex_hdr 11); FHdr (ex_hdr 12); FHdr (ex_hdr 13)]]
  = Some (ROk [ex_hdr 11; ex_hdr 12; ex_hdr 13; ex_hdr 14; ex_hdr 15]).
Proof. vm_compute. reflexivity. Qed.

(** a shifted answer, a short answer and an overlong answer: the shifted chunk is refused
    and asked again, the rest of the short one is re-requested, the overlong one is cut *)
Example C05_shifted_partial_overlong :
  GetRangeByHeight 0%Z ex_tv 100 3 (ex_hdr 10) 16 [0; 1; 2]
    [EDispatch 0 (Req 11 3); ERespond 0 5%Z [FHdr (ex_hdr 12); FHdr (ex_hdr 13); FHdr (ex_hdr 14)];
     EDispatch 1 (Req 14 2); ERespond 1 5%Z [FHdr (ex_hdr 14)];
     EDispatch 1 (Req 11 3); ERespond 1 6%Z [FHdr (ex_hdr 11); FHdr (ex_hdr 12); FHdr (ex_hdr 13); FHdr (ex_hdr 14)];
     EDispatch 2 (Req 15 1); ERespond 2 7%Z [FHdr (ex_hdr 15)]]
  = Some (ROk [ex_hdr 11; ex_hdr 12; ex_hdr 13; ex_hdr 14; ex_hdr 15]).
Proof. vm_compute. reflexivity. Qed.

(** the chunk boundary is checked: a second sub-request answered with an internally linked
    fork that passes non-adjacent verification against [from], but does not link to the
    first chunk, makes the call fail (before 30b80c8 it was returned) *)
Example C05_unlinked_chunk_is_refused :
  GetRangeByHeight 0%Z ex_tv 100 3 (ex_hdr 10) 16 [0; 1]
    [EDispatch 0 (Req 11 3); EDispatch 1 (Req 14 2);
     ERespond 0 5%Z [FHdr (ex_hdr 11); FHdr (ex_hdr 12); FHdr (ex_hdr 13)];
     ERespond 1 5%Z [FHdr (ex_fork 14); FHdr (ex_fork 15)]]
  = Some (RErr ENotChain) /\
  Verify 5%Z 0%Z ex_tv (ex_hdr 10) (ex_fork 14) = None.
Proof. split; vm_compute; reflexivity. Qed.

(** a panic of the type-level Verify inside an answer chunk is recovered: the answer fails, the
    request is asked again (here: answered honestly by the other peer) *)
Example C05_verify_panic_in_chunk_is_recovered :
  GetRangeByHeight_p 0%Z ex_tvp 100 3 (ex_hdr 10) 14 [0; 1]
    [EDispatch 0 (Req 11 3); ERespond 0 5%Z [FHdr (ex_hdr 11); FHdr (ex_panic_hdr 12); FHdr (ex_hdr 13)];
     EDispatch 1 (Req 11 3); ERespond 1 5%Z [FHdr (ex_hdr 11); FHdr (ex_hdr 12); FHdr (ex_hdr 13)]]
  = Some (ROk [ex_hdr 11; ex_hdr 12; ex_hdr 13]).
Proof. vm_compute. reflexivity. Qed.

(** ... and so is a panic in the chunk-boundary check (before 1b6d0f8 it reached the caller):
    the second chunk starts with a header on which Verify panics only when it is verified
    against the header directly below it *)
Example C05_verify_panic_at_boundary_is_an_error :
  GetRangeByHeight_p 0%Z ex_tvp 100 3 (ex_hdr 10) 17 [0; 1]
    [EDispatch 0 (Req 11 3); EDispatch 1 (Req 14 3);
     ERespond 0 5%Z [FHdr (ex_hdr 11); FHdr (ex_hdr 12); FHdr (ex_hdr 13)];
     ERespond 1 5%Z [FHdr (ex_panic_hdr 14); FHdr (Hdr false 1 15 0%Z 15 999 true); FHdr (Hdr false 1 16 0%Z 16 15 true)]]
  = Some (RErr ENotChain) /\
  Verify_p 5%Z 0%Z ex_tvp (ex_hdr 13) (ex_panic_hdr 14) = None /\
  Verify_p 5%Z 0%Z ex_tvp (ex_hdr 10) (ex_panic_hdr 14) = Some None.
Proof. repeat split; vm_compute; reflexivity. Qed.

(** from at the largest height: an error at once, also for to > 0 *)
Example C05_from_at_max_height :
  GetRangeByHeight 0%Z ex_tv 100 3 (Hdr false 1 (two64 - 1) 0%Z 1 0 true) 5 [0; 1] [] = Some (RErr ERangeMixUp).
Proof. vm_compute. reflexivity. Qed.

Print Assumptions C05_result_shape.
Print Assumptions C05_result_verified.
Print Assumptions C05_degenerate_is_error.
Print Assumptions C05_no_response_can_crash.
Print Assumptions C05_verify_panics_are_rejections.
Print Assumptions C05_range_beyond_slice_limit.
Print Assumptions C05_errors_have_a_cause.
