(** C05 — Exchange.GetRangeByHeight yields a verified contiguous run from from+1 or fails.

    Statements only; proofs are in Proofs/SessionP.v. The model (Model/Session.v) runs one
    call: [GetRangeByHeight drift tv maxcap per from to peers evs] is what the call has
    returned ([None] = still waiting) after the events [evs]. The theorems quantify over
    ALL event lists: which request goes to which idle peer, in which order answers arrive,
    and what every answer contains (any list of frames: valid, shifted, duplicated,
    reordered, forged, wrong-chain, undecodable, panicking, partial, overlong, empty),
    over every clock reading per answer, every type-level verifier [tv], chunk size
    [per >= 1] and peer set. uint64 arithmetic is explicit ([two64], [wrap64]). *)
From GH Require Import Base.Prelude Model.Verify Model.Session Proofs.SessionP.

(** If the call returns headers they are exactly the heights from+1 .. to-1 in ascending
    order (no gap, no duplicate, [to - from - 1 >= 1] many); every one of them was sent by
    some peer, passed Validate and lies below [to]. *)
Theorem C05_result_shape :
  forall (drift : Z) (tv : hdr -> hdr -> tvres) (maxcap per : N) (from : hdr) (to : N)
         (peers : list N) (evs : list event) (res : list hdr),
  h_nil from = false -> h_height from + 1 < two64 -> to < two64 -> 1 <= per ->
  GetRangeByHeight drift tv maxcap per from to peers evs = Some (ROk res) ->
  h_height from + 1 < to /\
  res <> [] /\
  map h_height res = seqN (h_height from + 1) (N.to_nat (to - (h_height from + 1))) /\
  (forall h, In h res -> h_height h < to /\ h_ok h = true /\ In h (evs_hdrs evs)).
Proof. exact result_heights. Qed.

(** "... and Verify starting from from". What the code guarantees: every returned header
    passed [Verify] - at the clock reading of the answer that carried it - against [from]
    itself or against the header returned just before it (the first one always against
    [from]): each answer chunk is checked by VerifyRange(from, chunk), so the first header
    of a chunk is verified (non-adjacently) against [from].
    Full statement (one Verify chain from -> res[0] -> res[1] -> ...):
      [chain (verified_during drift tv evs) from res]
    is false of the code, see [C05_result_verified_refuted]: the first header of a chunk is
    never checked against the last header of the previous chunk (known finding 3). *)
Theorem C05_result_verified_partial :
  forall (drift : Z) (tv : hdr -> hdr -> tvres) (maxcap per : N) (from : hdr) (to : N)
         (peers : list N) (evs : list event) (res : list hdr),
  h_nil from = false -> h_height from + 1 < two64 -> to < two64 -> 1 <= per ->
  GetRangeByHeight drift tv maxcap per from to peers evs = Some (ROk res) ->
  linked (verified_during drift tv evs) from from res.
Proof. exact result_verified. Qed.

(** a run whose result is not one Verify chain: two peers, the second answers its
    sub-request with an internally linked fork that passes non-adjacent verification
    against [from]; header 14' is returned after header 13 although it fails Verify against it *)
Theorem C05_result_verified_refuted :
  exists drift tv maxcap per (from : hdr) (to : N) peers evs res pre a b post,
    h_nil from = false /\ h_height from + 1 < two64 /\ to < two64 /\ 1 <= per /\
    GetRangeByHeight drift tv maxcap per from to peers evs = Some (ROk res) /\
    res = pre ++ a :: b :: post /\
    forall now, Verify now drift tv a b <> None.
Proof. exact result_verified_refuted. Qed.

(** the remaining uint64 value of from.Height(): nothing is ever returned *)
Theorem C05_from_at_max_height_returns_nothing :
  forall drift tv maxcap per (from : hdr) (to : N) peers evs res,
  h_nil from = false -> h_height from + 1 = two64 -> to < two64 -> 1 <= per ->
  GetRangeByHeight drift tv maxcap per from to peers evs <> Some (ROk res).
Proof. exact max_height_never_ok. Qed.

(** Degenerate requests return ErrRangeMixUp at once (before any event: no hang, no panic).
    Full statement: [forall from to, h_height from < two64 -> to <= h_height from + 1 -> ...];
    it fails for h_height from = 2^64-1 (from.Height()+1 wraps), see the refutation below. *)
Theorem C05_degenerate_is_error_partial :
  forall drift tv maxcap per (from : hdr) (to : N) peers evs,
  h_height from + 1 < two64 -> to <= h_height from + 1 ->
  GetRangeByHeight drift tv maxcap per from to peers evs = Some (RErr ERangeMixUp).
Proof. exact degenerate_is_error. Qed.

(** known finding 1: a degenerate request that waits for the caller's context *)
Theorem C05_degenerate_refuted :
  exists (from : hdr) (to : N),
    h_nil from = false /\ h_height from < two64 /\ to < two64 /\ to <= h_height from + 1 /\
    forall drift tv maxcap per peers evs,
      1 <= per -> to <= maxcap -> ~ In ECtxDone evs -> ~ In EStop evs ->
      GetRangeByHeight drift tv maxcap per from to peers evs = None.
Proof.
  exists (Hdr false 1 (two64 - 1) 0%Z 1 0 true), 5.
  split; [reflexivity|]. split; [vm_compute; reflexivity|]. split; [reflexivity|]. split; [vm_compute; discriminate|].
  intros. apply max_height_hangs; try assumption; try (vm_compute; reflexivity); vm_compute; discriminate.
Qed.

(** No peer answer can crash the client: once the call has started, no sequence of
    answers leads to a panic (the recovered decode panic, the unguarded h[0], the
    prepareRequests(...)[0] of the re-request are all covered). *)
Theorem C05_no_response_can_crash :
  forall drift tv maxcap per (from : hdr) (to : N) peers evs,
  h_nil from = false -> h_height from < two64 -> to < two64 -> 1 <= per ->
  to - wrap64 (h_height from + 1) <= maxcap ->
  GetRangeByHeight drift tv maxcap per from to peers evs <> Some RPanic /\
  GetRangeByHeight drift tv maxcap per from to peers evs <> Some RFuel.
Proof. exact no_response_crashes. Qed.

(** known finding 2: the caller's own [to] can: a range longer than the largest slice
    capacity panics in prepareRequests / make([]H, 0, amount) *)
Theorem C05_total_refuted :
  exists (from : hdr) (to : N),
    h_nil from = false /\ h_height from + 1 < to /\ to < two64 /\
    forall drift tv per peers evs, 1 <= per ->
      GetRangeByHeight drift tv (2 ^ 45) per from to peers evs = Some RPanic.
Proof.
  exists (ex_hdr 7), (two64 - 1).
  split; [reflexivity|]. split; [vm_compute; reflexivity|]. split; [vm_compute; reflexivity|].
  intros. apply huge_range_panics; try assumption; vm_compute; reflexivity.
Qed.

(** the only errors are: mixed-up range (at once), context ended, exchange stopped *)
Theorem C05_errors_have_a_cause :
  forall drift tv maxcap per (from : hdr) (to : N) peers evs e,
  h_height from < two64 -> to < two64 -> 1 <= per ->
  GetRangeByHeight drift tv maxcap per from to peers evs = Some (RErr e) ->
  (e = ERangeMixUp /\ to <= wrap64 (h_height from + 1)) \/
  (e = ECtx /\ In ECtxDone evs) \/ (e = EClosed /\ In EStop evs).
Proof. exact errors_have_a_cause. Qed.

(** non-vacuity: two chunks answered out of order by two peers *)
Example C05_two_chunks :
  GetRangeByHeight 0%Z ex_tv 100 3 (ex_hdr 10) 16 [0; 1]
    [EDispatch 0 (Req 11 3); EDispatch 1 (Req 14 2);
     ERespond 1 5%Z [FHdr (ex_hdr 14); FHdr (ex_hdr 15)];
     ERespond 0 5%Z [FHdr (ex_hdr 11); FHdr (ex_hdr 12); FHdr (ex_hdr 13)]]
  = Some (ROk [ex_hdr 11; ex_hdr 12; ex_hdr 13; ex_hdr 14; ex_hdr 15]).
Proof. vm_compute. reflexivity. Qed.

(** a shifted answer, a short answer and an overlong answer: the shifted chunk is refused
    and asked again, the rest of the short one is re-requested, the overlong one is cut *)
Example C05_shifted_partial_overlong :
  GetRangeByHeight 0%Z ex_tv 100 3 (ex_hdr 10) 16 [0; 1; 2]
    [EDispatch 0 (Req 11 3); ERespond 0 5%Z [FHdr (ex_hdr 12); FHdr (ex_hdr 13); FHdr (ex_hdr 14)];
     EDispatch 1 (Req 14 2); ERespond 1 5%Z [FHdr (ex_hdr 14)];
     EDispatch 1 (Req 11 3); ERespond 1 6%Z [FHdr (ex_hdr 11); FHdr (ex_hdr 12); FHdr (ex_hdr 13); FHdr (ex_hdr 14)];
     EDispatch 2 (Req 15 1); ERespond 2 7%Z [FHdr (ex_hdr 15)]]
  = Some (ROk [ex_hdr 11; ex_hdr 12; ex_hdr 13; ex_hdr 14; ex_hdr 15]).
Proof. vm_compute. reflexivity. Qed.

(** What the code does NOT guarantee: the first header of a chunk is verified against
    [from] only. A peer answering the second sub-request with an internally linked fork
    that passes non-adjacent verification against [from] gets it returned next to the
    true first chunk, although header 14' does not link to header 13. *)
Example C05_chunk_boundary_is_not_linked :
  GetRangeByHeight 0%Z ex_tv 100 3 (ex_hdr 10) 16 [0; 1]
    [EDispatch 0 (Req 11 3); EDispatch 1 (Req 14 2);
     ERespond 0 5%Z [FHdr (ex_hdr 11); FHdr (ex_hdr 12); FHdr (ex_hdr 13)];
     ERespond 1 5%Z [FHdr (ex_fork 14); FHdr (ex_fork 15)]]
  = Some (ROk [ex_hdr 11; ex_hdr 12; ex_hdr 13; ex_fork 14; ex_fork 15]) /\
  Verify 5%Z 0%Z ex_tv (ex_hdr 13) (ex_fork 14) <> None /\
  Verify 5%Z 0%Z ex_tv (ex_hdr 10) (ex_fork 14) = None.
Proof. split; [vm_compute; reflexivity|]. split; vm_compute; [discriminate | reflexivity]. Qed.

Print Assumptions C05_result_shape.
Print Assumptions C05_result_verified_partial.
Print Assumptions C05_result_verified_refuted.
Print Assumptions C05_from_at_max_height_returns_nothing.
Print Assumptions C05_degenerate_is_error_partial.
Print Assumptions C05_degenerate_refuted.
Print Assumptions C05_no_response_can_crash.
Print Assumptions C05_total_refuted.
Print Assumptions C05_errors_have_a_cause.
