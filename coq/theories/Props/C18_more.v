(** C18 — further theorems (audit follow-up).  Same model and notions as Props/C18.v. *)
From GH Require Import Base.Prelude Model.Verify Model.Session Proofs.SessionP Proofs.SessionLiveP Oracle.C05 Oracle.C18.

(** RETURN itself, scheduler-free: from EVERY reachable state of an honest run in which the call
    has not returned - whatever was dispatched to whom, whatever is still in flight - with one
    reliable peer [p] (its answers so far were never empty) whose store holds [tp]..[top] with
    tp <= from+1 (not pruned into the range) and to-1 <= top, a chunk size that servers accept
    (per <= header.MaxRangeRequestSize = 64: an honest server resets a longer request), and a
    clock reading [now] at which the chain verifies, there EXISTS a finite honest continuation
    [evs'] (every other in-flight request times out with the empty answer, [p] answers what it
    holds in flight with the whole honest answer, then every queued request is dispatched to [p]
    and answered whole) after which GetRangeByHeight has returned exactly the chain's headers
    from+1 .. to-1; it is at most 2 * mu s + |s_flight s| events long, and [p] stays reliable.
    No fairness assumption: the continuation is exhibited; which continuation the real
    scheduler takes is outside the statement (C18_no_deadlock says one is always enabled). *)
Theorem C18_completion_always_reachable :
  forall drift tv maxcap per (from : hdr) (to : N) peers (c : N -> hdr) (top : N),
  h_nil from = false -> h_height from + 1 < two64 -> to < two64 -> 1 <= per -> top < two64 ->
  (forall n, n <= top -> h_height (c n) = n) -> (forall n, n <= top -> h_ok (c n) = true) ->
  forall (evs : list event) (p tp : N) (now : Z),
  In p peers ->
  honest_run drift tv maxcap from c top (get_range maxcap per from to peers) evs ->
  reliable drift tv from c top p evs ->
  per <= max_range_request -> tp <= h_height from + 1 ->
  to <= top + 1 -> chain_verifies drift tv from c top now ->
  let s := run drift tv maxcap from (get_range maxcap per from to peers) evs in
  s_res s = None ->
  exists evs',
    (length evs' <= 2 * N.to_nat (mu s) + length (s_flight s))%nat /\
    honest_run drift tv maxcap from c top (get_range maxcap per from to peers) (evs ++ evs') /\
    reliable drift tv from c top p (evs ++ evs') /\
    GetRangeByHeight drift tv maxcap per from to peers (evs ++ evs') =
    Some (ROk (map c (seqN (h_height from + 1) (N.to_nat (to - (h_height from + 1)))))).
Proof. exact completion_always_reachable. Qed.

(** non-vacuity: the stuck-looking state of C18_partial_peers (peer 2 timed out and is gone,
    peers 0 and 1 lack the rest) is completed by a peer 3 that holds the chain: 11..17 *)
Example C18_completion_example :
  let evs :=
    [EDispatch 0 (Req 11 3); ERespond 0 1%Z [FNotFound];
     EDispatch 2 (Req 14 3); ERespond 2 1%Z [];
     EDispatch 1 (Req 17 1)] in
  let evs' :=
    [ERespond 1 5%Z [];
     EDispatch 3 (Req 11 3); ERespond 3 5%Z (map (fun n => FHdr (ex_hdr n)) [11; 12; 13]);
     EDispatch 3 (Req 14 3); ERespond 3 5%Z (map (fun n => FHdr (ex_hdr n)) [14; 15; 16]);
     EDispatch 3 (Req 17 1); ERespond 3 5%Z [FHdr (ex_hdr 17)]] in
  let s := run 0%Z ex_tv 100 (ex_hdr 10) (get_range 100 3 (ex_hdr 10) 18 [0; 1; 2; 3]) evs in
  s_res s = None /\ mu s = 7 /\ length (s_flight s) = 1%nat /\ (length evs' <= 2 * 7 + 1)%nat /\
  GetRangeByHeight 0%Z ex_tv 100 3 (ex_hdr 10) 18 [0; 1; 2; 3] (evs ++ evs')
  = Some (ROk (map ex_hdr [11; 12; 13; 14; 15; 16; 17])).
Proof. vm_compute. repeat split; try reflexivity; lia. Qed.

(** honest peers are servers over stores tail..head of the chain, pruned ones included
    ([honest_run]: every answer is a prefix of [honest_answer_t c tail head r] for some tail and
    some head <= top).  Peers that only TOGETHER hold the range - A holds 1..13, B holds 12..40
    (pruned below 12: it answers NOT_FOUND to a request starting below its tail) - return it *)
Example C18_pruned_peers_together :
  let c := ex_hdr in
  let evs :=
    [EDispatch 1 (Req 11 3); ERespond 1 1%Z (honest_answer_t c 12 40 (Req 11 3));      (* NOT_FOUND: 11 is pruned *)
     EDispatch 0 (Req 11 3); ERespond 0 1%Z (honest_answer_t c 1 13 (Req 11 3));       (* 11 12 13 *)
     EDispatch 0 (Req 14 3); ERespond 0 2%Z (honest_answer_t c 1 13 (Req 14 3));       (* NOT_FOUND: above its head *)
     EDispatch 1 (Req 14 3); ERespond 1 2%Z (honest_answer_t c 12 40 (Req 14 3));      (* 14 15 16 *)
     EDispatch 1 (Req 17 1); ERespond 1 3%Z (honest_answer_t c 12 40 (Req 17 1))] in
  honest_answer_t c 12 40 (Req 11 3) = [FNotFound] /\
  honest_answer_t c 1 13 (Req 14 3) = [FNotFound] /\
  honest_answer_t c 1 100 (Req 14 65) = [] /\
  honest_evs_tb 0%Z ex_tv 100 (ex_hdr 10) c 40 (get_range 100 3 (ex_hdr 10) 18 [0; 1]) evs
                [(12, 40); (1, 13); (1, 13); (12, 40); (12, 40)] = true /\
  GetRangeByHeight 0%Z ex_tv 100 3 (ex_hdr 10) 18 [0; 1] evs = Some (ROk (map ex_hdr [11; 12; 13; 14; 15; 16; 17])).
Proof. vm_compute. repeat split; reflexivity. Qed.


(** the exact-range theorem applies to every log the decidable check [honest_evs_tb] accepts
    (the k-th answer is a prefix of what a server whose store holds tail_k .. head_k of the chain
    answers - pruned stores included; the pairs are what the driver "pruned" reads from the real
    stores at every answer): whatever the chunk size, the peers, the order of dispatches and
    answers, a call that returns headers returns exactly the chain's from+1 .. to-1 *)
Theorem C18_exact_range_for_checked_pruned_logs :
  forall drift tv maxcap per (from : hdr) (to : N) peers (c : N -> hdr) (top : N)
         (evs : list event) (ths : list (N * N)) (res : list hdr),
  h_nil from = false -> h_height from + 1 < two64 -> to < two64 -> 1 <= per ->
  (forall n, n <= top -> h_height (c n) = n) ->
  honest_evs_tb drift tv maxcap from c top (get_range maxcap per from to peers) evs ths = true ->
  GetRangeByHeight drift tv maxcap per from to peers evs = Some (ROk res) ->
  res = map c (seqN (h_height from + 1) (N.to_nat (to - (h_height from + 1)))).
Proof. exact pruned_logs_exact_range. Qed.

(** the liveness LIMIT, as the model has it: a peer whose answer was empty (a timeout) or an
    error other than NOT_FOUND is not returned to the session's queue.  Once no peer is idle and
    no request is in flight (e.g. the sole capable peer timed out once), NO sequence of
    dispatches and answers makes the call return: it waits until the caller's context ends or
    the exchange is stopped *)
Theorem C18_no_peer_left_waits_for_context :
  forall drift tv maxcap per (from : hdr) (to : N) peers (evs0 evs : list event),
  let s := run drift tv maxcap from (get_range maxcap per from to peers) evs0 in
  s_res s = None -> s_idle s = [] -> s_flight s = [] ->
  ~ In ECtxDone evs -> ~ In EStop evs ->
  GetRangeByHeight drift tv maxcap per from to peers (evs0 ++ evs) = None.
Proof. exact stuck_waits. Qed.

(** non-vacuity: one peer holding the whole chain, three chunks; its first answer times out
    (empty): no idle peer, nothing in flight, all three requests queued, no result *)
Example C18_sole_peer_timeout_example :
  let s := run 0%Z ex_tv 100 (ex_hdr 10) (get_range 100 3 (ex_hdr 10) 18 [0])
               [EDispatch 0 (Req 11 3); ERespond 0 1%Z []] in
  s_res s = None /\ s_idle s = [] /\ s_flight s = [] /\ length (s_queue s) = 3%nat /\
  model_obs false s = Some OCtx.
Proof. vm_compute. repeat split; reflexivity. Qed.

(** the case oracle of the driver "pruned": whenever the model reproduces the observation of a
    case (agree) the property check accepts it (ok) *)
Theorem C18_chk18t_sound : forall c, agree18t c = true -> ok18t c = true.
Proof. exact chk18t_sound. Qed.

(** a chain just below 2^64 (heights 2^64-5 .. 2^64-2, [cno] with offset 2^64-6): two chunks *)
Example C18_near_max_height_example :
  let off := two64 - 6 in
  let ch := map (fun k => Hdr false 1 (off + k) 0%Z (off + k) (off + k - 1) true) [1; 2; 3; 4] in
  let c := cno off ch in
  let evs := [EDispatch 0 (Req (off + 2) 2); ERespond 0 1%Z (honest_answer_t c (off + 1) (off + 4) (Req (off + 2) 2));
              EDispatch 0 (Req (off + 4) 1); ERespond 0 1%Z (honest_answer_t c (off + 1) (off + 4) (Req (off + 4) 1))] in
  honest_answer_t c (off + 1) (off + 4) (Req (off + 4) 2) = [] /\      (* origin+amount wraps: reset *)
  GetRangeByHeight 0%Z ex_tv 100 2 (c (off + 1)) (two64 - 1) [0] evs = Some (ROk [c (off + 2); c (off + 3); c (off + 4)]).
Proof. vm_compute. repeat split; reflexivity. Qed.

Print Assumptions C18_completion_always_reachable.
Print Assumptions C18_exact_range_for_checked_pruned_logs.
Print Assumptions C18_no_peer_left_waits_for_context.
Print Assumptions C18_chk18t_sound.
