(** C06 placeholder while the proofs are being written *)
From GH Require Import Base.Prelude Model.Store Model.StoreCrash.
Theorem C06_placeholder : True. Proof. exact I. Qed.
Print Assumptions C06_placeholder.
