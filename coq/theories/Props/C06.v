(** C06 — Store survives restart and crash without loss or dangling head/tail pointers.

    Setting as in Props/C04.v: [s := run c (st0 b) ops] is the state after ANY history
    (Appends, DeleteRanges with failing handlers, Syncs, restarts).  The model records every
    datastore write — each direct Put/Delete and each batch commit, taken as atomic — in the ghost
    field [wlog s].  [image b (wlog s) k] is the datastore content after the first [k] entries
    (a crash right after the k-th write, k = 0 .. length, i.e. at EVERY write boundary of every
    operation, also in the middle of a DeleteRange), [reopen b (wlog s) k] a fresh Store started
    on that image (Model/StoreCrash.v; Start drops a pointer whose header is missing).
    [start] is total in the model: the reopened Store always starts.

    History of this property: the proof found that a DeleteRange over a store whose Head had been
    lifted by headers still sitting in the write batch persisted a Head pointer past the headers
    that were only pending; a crash then left Head = 8, Tail = 2 with 4, 5 missing
    (batch 3, [1;2;3] [6;7;8] [4] [5], DeleteRange(1,2)).  Repaired in the code (DeleteRange's
    Sync flushes the pending batch first); the model follows, and the theorems below hold without
    any precondition on the history. *)
From Coq Require Import NArith List Bool.
From stdpp Require Import gmap.
From GH Require Import Base.Prelude Model.Store Model.StoreSpec Model.StoreCrash Oracle.StoreCase.
From GH Require Import Proofs.StoreP Proofs.StoreMainP Proofs.StoreC04P Proofs.StoreCrash4P.
Import ListNotations.
Open Scope N_scope.

(** After a clean Stop and Start (same object, or a new Store on the same datastore) — and
    after Sync — the Store reports the same Head, Tail, Height and the same result for every
    GetByHeight, Get, Has, HasAt and GetRange as before: everything appended before Stop is there. *)
Theorem C06_clean_restart : forall c U, chain_hyps c U -> forall b ops o,
  Forall (op_ok U) ops -> o = ISync \/ o = IRestart \/ o = IReopen ->
  let s := run c (st0 b) ops in
  let s' := run c (st0 b) (ops ++ [o]) in
  snd (mstep c s o) = Ok /\
  headp s' = headp s /\ tailp s' = tailp s /\ hsh s' = hsh s /\
  (forall n, get_by_height s' n = get_by_height s n) /\
  (forall n, inr U n -> get s' (h_id (c n)) = get s (h_id (c n)) /\ has s' (h_id (c n)) = has s (h_id (c n))) /\
  (forall n, has_at s' n = has_at s n) /\
  (forall from to, get_range s' from to = get_range s from to).
Proof. exact @hist_clean_restart. Qed.

(** The datastore invariant after EVERY write-log entry: stored headers are chain headers under
    their own hash and indexed by their height; index entries and pointer keys are well-formed;
    and whenever both pointer keys resolve to stored headers, Tail <= Head and every height
    between them is stored — the persisted pointers never claim more than the datastore holds. *)
Theorem C06_disk_invariant_at_every_write : forall c U, chain_hyps c U -> forall b ops k,
  Forall (op_ok U) ops ->
  let s := run c (st0 b) ops in
  (k <= length (wlog s))%nat ->
  let img := image b (wlog s) k in
  (forall id h, d_hdr img !! id = Some h ->
     exists n, inr U n /\ h = c n /\ id = h_id (c n) /\ d_idx img !! n = Some id) /\
  (forall n id, d_idx img !! n = Some id -> inr U n /\ id = h_id (c n)) /\
  (forall id, d_head img = Some id -> exists n, inr U n /\ id = h_id (c n)) /\
  (forall id, d_tail img = Some id -> exists n, inr U n /\ id = h_id (c n)) /\
  (forall T H, d_tail img = Some (h_id (c T)) -> d_head img = Some (h_id (c H)) -> inr U T -> inr U H ->
     d_hdr img !! h_id (c T) = Some (c T) -> d_hdr img !! h_id (c H) = Some (c H) ->
     T <= H /\ forall n, T <= n <= H -> d_hdr img !! h_id (c n) = Some (c n)).
Proof. exact @hist_image_facts. Qed.

(** Head and Tail of the reopened Store, when present, are the chain headers the persisted
    pointer keys name, stored in the image, and retrievable by height: no dangling pointers *)
Theorem C06_reopened_pointers_resolve : forall c U, chain_hyps c U -> forall b ops k,
  Forall (op_ok U) ops ->
  let s := run c (st0 b) ops in
  (k <= length (wlog s))%nat ->
  let img := image b (wlog s) k in
  let r := reopen b (wlog s) k in
  (forall h, headp r = Some h -> exists n, inr U n /\ h = c n /\ d_head img = Some (h_id (c n)) /\
                                  d_hdr img !! h_id (c n) = Some (c n) /\ get_by_height r n = Found (c n)) /\
  (forall h, tailp r = Some h -> exists n, inr U n /\ h = c n /\ d_tail img = Some (h_id (c n)) /\
                                  d_hdr img !! h_id (c n) = Some (c n) /\ get_by_height r n = Found (c n)).
Proof. exact @hist_reopen_pointers_resolve. Qed.

(** when both are present, Tail <= Head and every height between them is retrievable by height and hash *)
Theorem C06_reopened_gap_free : forall c U, chain_hyps c U -> forall b ops k,
  Forall (op_ok U) ops ->
  let s := run c (st0 b) ops in
  (k <= length (wlog s))%nat ->
  let r := reopen b (wlog s) k in
  forall hd tl, headp r = Some hd -> tailp r = Some tl ->
  h_height tl <= h_height hd /\
  forall n, h_height tl <= n <= h_height hd ->
  get_by_height r n = Found (c n) /\ get r (h_id (c n)) = Found (c n).
Proof. exact @hist_reopen_gap_free. Qed.

(** every header of a committed batch that was not later deleted (= indexed and stored in the
    image) is retrievable from the reopened Store by height and by hash *)
Theorem C06_committed_headers_retrievable : forall c U, chain_hyps c U -> forall b ops k n id h,
  Forall (op_ok U) ops ->
  let s := run c (st0 b) ops in
  (k <= length (wlog s))%nat ->
  let img := image b (wlog s) k in
  let r := reopen b (wlog s) k in
  d_idx img !! n = Some id -> d_hdr img !! id = Some h ->
  h = c n /\ get_by_height r n = Found (c n) /\ get r (h_id (c n)) = Found (c n).
Proof. exact @hist_reopen_finds_committed. Qed.

(** appending the continuation of the chain — the [len] consecutive heights above the reopened
    Head (else Tail, else 0: [cont_base]), reaching above everything stored in the image —
    makes Head advance to the new tip *)
Theorem C06_continuation_reaches_tip : forall c U, chain_hyps c U -> forall b ops k len,
  Forall (op_ok U) ops ->
  let s := run c (st0 b) ops in
  (k <= length (wlog s))%nat ->
  let img := image b (wlog s) k in
  let r := reopen b (wlog s) k in
  let base := cont_base r in
  let last := base + N.of_nat len in
  len <> 0%nat -> last <= U ->
  (forall m, last < m -> inr U m -> d_hdr img !! h_id (c m) <> Some (c m)) ->
  headp (fst (append r (map c (seqN (base + 1) len)))) = Some (c last).
Proof. exact @hist_reopen_continuation. Qed.

(** non-vacuity: the history of the repaired finding; every crash point is listed with the
    reopened (Head, Tail) and what heights 1..8 answer *)
Example C06_crash_points :
  let c := simple_chain in
  let s := run c (st0 3) [IAppend [1; 2; 3]; IAppend [6; 7; 8]; IAppend [4]; IAppend [5]; IDelete 1 2 0 []] in
  map (fun k => let r := reopen 3 (wlog s) k in
                (option_map h_height (headp r), option_map h_height (tailp r),
                 map (fun n => match get_by_height r n with Found _ => true | _ => false end) [1; 2; 3; 4; 5; 6; 7; 8]))
      (seq 0 (S (length (wlog s)))) =
  [ (None, None, [false; false; false; false; false; false; false; false]);
    (Some 3, Some 1, [true; true; true; false; false; false; false; false]);
    (Some 3, Some 1, [true; true; true; false; false; true; true; true]);
    (Some 8, Some 1, [true; true; true; true; true; true; true; true]);
    (Some 8, None, [false; true; true; true; true; true; true; true]);
    (Some 8, Some 2, [false; true; true; true; true; true; true; true]);
    (Some 8, Some 2, [false; true; true; true; true; true; true; true]) ].
Proof. vm_compute. reflexivity. Qed.

Print Assumptions C06_clean_restart.
Print Assumptions C06_disk_invariant_at_every_write.
Print Assumptions C06_reopened_pointers_resolve.
Print Assumptions C06_reopened_gap_free.
Print Assumptions C06_committed_headers_retrievable.
Print Assumptions C06_continuation_reaches_tip.

(** * C06_keys_* — the byte-level contract of the datastore layout (also serving C04)

    The theorems above speak about a datastore with ABSTRACT keys (hash id / height / head / tail)
    and abstract values.  Model/Keys.v models the bytes: Hash.String / MarshalJSON / UnmarshalJSON
    with encoding/hex.Decode, strconv.FormatUint, datastore.NewKey (path.Clean of a rooted path),
    the namespace prefix, store/keys.go, the batch of Store.flush and init's reading of the head
    pointer.  Strings are [list byte] with the 256-constructor [byte], so "for every byte string"
    carries no side condition.  Tied to the code by the extra driver harness/keys (TestKeys):
    real header.Hash methods, real datastore.NewKey, and a real store.Store over a recording
    datastore whose recorded keys and values are compared byte by byte. *)
From GH Require Import Model.Keys Proofs.KeysP Oracle.Keys.

(** the pointer codec round-trips: what writeHeaderHashTo stores, readByKey decodes to the same hash *)
Theorem C06_keys_pointer_round_trip : forall h : bytes, unmarshal_json (marshal_json h) = DOk h.
Proof. exact pointer_round_trip. Qed.

(** UnmarshalJSON is total (four outcomes, no panic: [dres]) and accepts EXACTLY a double quote,
    pairs of hex digits of either case ([from_hex] = reverseHexTable), a double quote; the result
    is the bytes the pairs spell *)
Theorem C06_keys_decode_accepts_exactly : forall d h,
  unmarshal_json d = DOk h <-> exists s, d = dq :: s ++ [dq] /\ hexpairs s h.
Proof. exact unmarshal_ok_iff. Qed.

(** ... equivalently: accepted iff the independent recogniser [wf_ptr] of the oracle says so
    (length >= 2, quoted, an even number of characters in between, all of them hex digits);
    everything else — odd length, a non-hex byte, missing quotes, length < 2 — is rejected *)
Theorem C06_keys_decode_accepts_iff_wellformed : forall d,
  (exists h, unmarshal_json d = DOk h) <-> wf_ptr d = true.
Proof. exact unmarshal_accepts_iff_wf. Qed.

(** what decode accepts beyond the encoder's output (lower-case digits) is harmless: upper-cased,
    every accepted input IS the canonical encoding of its result, and decodes to the same bytes *)
Theorem C06_keys_decode_case_insensitive : forall d h,
  unmarshal_json d = DOk h ->
  map to_upper d = marshal_json h /\ unmarshal_json (map to_upper d) = DOk h.
Proof. exact unmarshal_canonical. Qed.

(** hashKey is injective on ALL byte strings (the empty hash gets the root key) *)
Theorem C06_keys_hash_key_injective : forall h1 h2 : bytes, hash_key h1 = hash_key h2 -> h1 = h2.
Proof. exact hash_key_inj. Qed.

(** heightKey is injective — decimal printing is injective on all of N (no enumeration, no bound;
    FormatUint only ever sees n < 2^64) *)
Theorem C06_keys_height_key_injective : forall n m : N, height_key n = height_key m -> n = m.
Proof. exact height_key_inj. Qed.

(** the pointer keys differ from each other, from every hash key and from every height key *)
Theorem C06_keys_pointer_keys_disjoint :
  head_key <> tail_key /\
  (forall h : bytes, hash_key h <> head_key /\ hash_key h <> tail_key) /\
  (forall n : N, height_key n <> head_key /\ height_key n <> tail_key).
Proof. exact (conj head_tail_differ (conj hash_key_not_ptr height_key_not_ptr)). Qed.

(** a hash key equals a height key ONLY IF the hash is non-empty, at most 10 bytes long, and its hex
    form consists of decimal digits only (it is then the decimal print of that height) *)
Theorem C06_keys_hash_height_collision_only_if : forall (h : bytes) (n : N),
  n < two64 -> hash_key h = height_key n ->
  h <> [] /\ hash_string h = dec n /\ (length h <= 10)%nat /\ forallb is_dec_digit (hash_string h) = true.
Proof. exact hash_height_collision. Qed.

(** ... and such short hashes really collide: the hash [0x12] and the height 12 share the key
    "/12" (the index write of the same batch then overwrites the header: the driver's `collide`
    cases observe a Store that can no longer start).  Real header hashes (32 bytes) are outside
    this region. *)
Theorem C06_keys_disjoint_for_all_hashes_refuted :
  exists (h : bytes) (n : N), n < two64 /\ hash_key h = height_key n /\ hash_safe h = false.
Proof. exact (ex_intro _ [Byte.x12] (ex_intro _ 12 (conj eq_refl short_hash_collides))). Qed.

(** the exact condition under which hash keys and height keys are disjoint — which is what
    justifies the abstract keys of Model/Store.v: the hash is longer than 10 bytes, or its hex form
    contains a letter ([hash_safe]) *)
Theorem C06_keys_safe_hash_never_collides : forall (h : bytes) (n : N),
  hash_safe h = true -> n < two64 -> hash_key h <> height_key n.
Proof. exact hash_safe_no_collision. Qed.

(** refinement, keys: over a hash table [tbl : id -> bytes] that is injective and [hash_safe] on
    the ids in use [D], the byte form of the abstract keys (under any namespace prefix that is a
    key, i.e. starts with a slash) is injective: the byte-level datastore and the four abstract
    components of Model/Store.v are in bijection on the keys the Store writes *)
Theorem C06_keys_enc_key_injective : forall (p' : bytes) (tbl : N -> bytes) (D : N -> Prop),
  (forall i j, D i -> D j -> tbl i = tbl j -> i = j) ->
  (forall i, D i -> hash_safe (tbl i) = true) ->
  forall k1 k2, key_ok D k1 -> key_ok D k2 ->
  enc_key (slash :: p') tbl k1 = enc_key (slash :: p') tbl k2 -> k1 = k2.
Proof. exact enc_key_inj. Qed.

(** refinement, contents: replaying ANY prefix of ANY write log of the abstract model as byte-level
    Puts / Deletes ([bapply]: header bytes under the hash key, raw hash under the height key, JSON
    pointers under head / tail) yields a byte-level datastore that holds, under the byte form of
    every abstract key, exactly the encoding of what the abstract image ([image], the object of the
    crash theorems above) holds there *)
Theorem C06_keys_image_refines : forall (p' : bytes) (tbl : N -> bytes) (D : N -> Prop),
  (forall i j, D i -> D j -> tbl i = tbl j -> i = j) ->
  (forall i, D i -> hash_safe (tbl i) = true) ->
  forall (enc_hdr : hdr -> bytes) b log k,
  Forall (Forall (w1_ok tbl D enc_hdr)) log ->
  repr p' tbl D enc_hdr (image b log k) (fold_left (bapply p' tbl enc_hdr) (firstn k log) []).
Proof. exact image_refines. Qed.

(** refinement, Start: on a byte-level datastore representing [s], init's reading of the head
    pointer ([start_head]: Get, UnmarshalJSON, Get by hash key, Delete of a dangling pointer)
    computes what the abstract [read_head] does: no pointer / dropped pointer / Head set, and the
    datastore it leaves represents [read_head s] *)
Theorem C06_keys_start_head_refines : forall (p' : bytes) (tbl : N -> bytes) (D : N -> Prop),
  (forall i j, D i -> D j -> tbl i = tbl j -> i = j) ->
  (forall i, D i -> hash_safe (tbl i) = true) ->
  forall (enc_hdr : hdr -> bytes) decodes s m,
  repr p' tbl D enc_hdr s m -> pend_i s = ∅ ->
  (forall id, d_head s = Some id -> D id) ->
  (forall id h, d_hdr s !! id = Some h -> decodes (enc_hdr h) = true) ->
  let '(r, m') := start_head decodes (slash :: p') m in
  repr p' tbl D enc_hdr (read_head s) m' /\
  r = match d_head s with
      | None => SNoPointer
      | Some id => match d_hdr s !! id with Some _ => SHead (tbl id) | None => SDropped end
      end /\
  (forall id h, r = SHead (tbl id) -> D id -> d_hdr s !! id = Some h -> headp (read_head s) = Some h).
Proof. exact start_head_refines. Qed.

(** the oracle of the keys driver is tied to the model: the model's own answers pass [okKeys] *)
Theorem C06_keys_oracle_tie :
  (forall h, okKeys (KStr h (hash_string h) (marshal_json h)) = true) /\
  (forall d, okKeys (KUnm d (unmarshal_json d)) = true) /\
  (forall s, okKeys (KKey s (new_key s)) = true) /\
  (forall p' h n bin, n < two64 -> hash_safe h = true -> kh_decodes bin = true -> forall t,
     let '(l, o) := model_store (slash :: p') h n bin t in okKeys (KStore (slash :: p') h n bin t l o) = true).
Proof. exact (conj model_ok_str (conj model_ok_unm (conj model_ok_key model_ok_store))). Qed.

(** non-vacuity: concrete bytes *)
Example C06_keys_examples :
  hash_key (B [171; 205]) = B [47; 65; 66; 67; 68] /\                       (* "/ABCD" *)
  height_key 18446744073709551615 = B [47; 49;56;52;52;54;55;52;52;48;55;51;55;48;57;53;53;49;54;49;53] /\
  hash_key [] = B [47] /\ ns_key default_prefix (hash_key []) = default_prefix /\
  marshal_json (B [171; 205]) = B [34; 65; 66; 67; 68; 34] /\
  unmarshal_json (B [34; 97; 98; 67; 100; 34]) = DOk (B [171; 205]) /\   (* "abCd" *)
  unmarshal_json (B [34; 97; 98; 67; 34]) = DErrLen /\
  unmarshal_json (B [34; 97; 103; 34]) = DErrByte (Nb 103) /\
  unmarshal_json (B [34]) = DErrQuote /\
  hash_safe (B [18]) = false /\ hash_safe (B [26]) = true.
Proof. vm_compute. repeat split; reflexivity. Qed.

(** non-vacuity of the refinement hypotheses: an injective, safe hash table exists
    (11 zero bytes followed by one byte per unit of the id ... here: ids 0..255) *)
Example C06_keys_table_exists :
  let tbl := fun i : N => B [0;0;0;0;0;0;0;0;0;0;0] ++ [Nb i] in
  let D := fun i : N => i < 256 in
  (forall i j, D i -> D j -> tbl i = tbl j -> i = j) /\ (forall i, D i -> hash_safe (tbl i) = true).
Proof.
  split.
  - intros i j Hi Hj H. apply app_inv_head in H. injection H as H.
    rewrite <- (bN_Nb i Hi), <- (bN_Nb j Hj), H. reflexivity.
  - intros i Hi. reflexivity.
Qed.

Print Assumptions C06_keys_pointer_round_trip.
Print Assumptions C06_keys_decode_accepts_exactly.
Print Assumptions C06_keys_decode_accepts_iff_wellformed.
Print Assumptions C06_keys_decode_case_insensitive.
Print Assumptions C06_keys_hash_key_injective.
Print Assumptions C06_keys_height_key_injective.
Print Assumptions C06_keys_pointer_keys_disjoint.
Print Assumptions C06_keys_hash_height_collision_only_if.
Print Assumptions C06_keys_disjoint_for_all_hashes_refuted.
Print Assumptions C06_keys_safe_hash_never_collides.
Print Assumptions C06_keys_enc_key_injective.
Print Assumptions C06_keys_image_refines.
Print Assumptions C06_keys_start_head_refines.
Print Assumptions C06_keys_oracle_tie.
