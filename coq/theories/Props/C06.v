(** C06 — Store survives restart and crash without loss or dangling head/tail pointers.

    Setting as in Props/C04.v: [s := run c (st0 b) ops] is the state after ANY history
    (Appends, DeleteRanges with failing handlers, Syncs, restarts).  The model records every
    datastore write — each direct Put/Delete and each batch commit, taken as atomic — in the ghost
    field [wlog s].  [image b (wlog s) k] is the datastore content after the first [k] entries
    (a crash right after the k-th write, k = 0 .. length, i.e. at EVERY write boundary of every
    operation, also in the middle of a DeleteRange), [reopen b (wlog s) k] a fresh Store started
    on that image (Model/StoreCrash.v; Start drops a pointer whose header is missing).
    [start] is total in the model: the reopened Store always starts.

    History of this property: the proof found that a DeleteRange over a store whose Head had been
    lifted by headers still sitting in the write batch persisted a Head pointer past the headers
    that were only pending; a crash then left Head = 8, Tail = 2 with 4, 5 missing
    (batch 3, [1;2;3] [6;7;8] [4] [5], DeleteRange(1,2)).  Repaired in the code (DeleteRange's
    Sync flushes the pending batch first); the model follows, and the theorems below hold without
    any precondition on the history. *)
From Coq Require Import NArith List Bool.
From stdpp Require Import gmap.
From GH Require Import Base.Prelude Model.Store Model.StoreSpec Model.StoreCrash Oracle.StoreCase.
From GH Require Import Proofs.StoreP Proofs.StoreMainP Proofs.StoreC04P Proofs.StoreCrash4P.
Import ListNotations.
Open Scope N_scope.

(** After a clean Stop and Start (same object, or a new Store on the same datastore) — and
    after Sync — the Store reports the same Head, Tail, Height and the same result for every
    GetByHeight, Get, Has, HasAt and GetRange as before: everything appended before Stop is there. *)
Theorem C06_clean_restart : forall c U, chain_hyps c U -> forall b ops o,
  Forall (op_ok U) ops -> o = ISync \/ o = IRestart \/ o = IReopen ->
  let s := run c (st0 b) ops in
  let s' := run c (st0 b) (ops ++ [o]) in
  snd (mstep c s o) = Ok /\
  headp s' = headp s /\ tailp s' = tailp s /\ hsh s' = hsh s /\
  (forall n, get_by_height s' n = get_by_height s n) /\
  (forall n, inr U n -> get s' (h_id (c n)) = get s (h_id (c n)) /\ has s' (h_id (c n)) = has s (h_id (c n))) /\
  (forall n, has_at s' n = has_at s n) /\
  (forall from to, get_range s' from to = get_range s from to).
Proof. exact @hist_clean_restart. Qed.

(** The datastore invariant after EVERY write-log entry: stored headers are chain headers under
    their own hash and indexed by their height; index entries and pointer keys are well-formed;
    and whenever both pointer keys resolve to stored headers, Tail <= Head and every height
    between them is stored — the persisted pointers never claim more than the datastore holds. *)
Theorem C06_disk_invariant_at_every_write : forall c U, chain_hyps c U -> forall b ops k,
  Forall (op_ok U) ops ->
  let s := run c (st0 b) ops in
  (k <= length (wlog s))%nat ->
  let img := image b (wlog s) k in
  (forall id h, d_hdr img !! id = Some h ->
     exists n, inr U n /\ h = c n /\ id = h_id (c n) /\ d_idx img !! n = Some id) /\
  (forall n id, d_idx img !! n = Some id -> inr U n /\ id = h_id (c n)) /\
  (forall id, d_head img = Some id -> exists n, inr U n /\ id = h_id (c n)) /\
  (forall id, d_tail img = Some id -> exists n, inr U n /\ id = h_id (c n)) /\
  (forall T H, d_tail img = Some (h_id (c T)) -> d_head img = Some (h_id (c H)) -> inr U T -> inr U H ->
     d_hdr img !! h_id (c T) = Some (c T) -> d_hdr img !! h_id (c H) = Some (c H) ->
     T <= H /\ forall n, T <= n <= H -> d_hdr img !! h_id (c n) = Some (c n)).
Proof. exact @hist_image_facts. Qed.

(** Head and Tail of the reopened Store, when present, are the chain headers the persisted
    pointer keys name, stored in the image, and retrievable by height: no dangling pointers *)
Theorem C06_reopened_pointers_resolve : forall c U, chain_hyps c U -> forall b ops k,
  Forall (op_ok U) ops ->
  let s := run c (st0 b) ops in
  (k <= length (wlog s))%nat ->
  let img := image b (wlog s) k in
  let r := reopen b (wlog s) k in
  (forall h, headp r = Some h -> exists n, inr U n /\ h = c n /\ d_head img = Some (h_id (c n)) /\
                                  d_hdr img !! h_id (c n) = Some (c n) /\ get_by_height r n = Found (c n)) /\
  (forall h, tailp r = Some h -> exists n, inr U n /\ h = c n /\ d_tail img = Some (h_id (c n)) /\
                                  d_hdr img !! h_id (c n) = Some (c n) /\ get_by_height r n = Found (c n)).
Proof. exact @hist_reopen_pointers_resolve. Qed.

(** when both are present, Tail <= Head and every height between them is retrievable by height and hash *)
Theorem C06_reopened_gap_free : forall c U, chain_hyps c U -> forall b ops k,
  Forall (op_ok U) ops ->
  let s := run c (st0 b) ops in
  (k <= length (wlog s))%nat ->
  let r := reopen b (wlog s) k in
  forall hd tl, headp r = Some hd -> tailp r = Some tl ->
  h_height tl <= h_height hd /\
  forall n, h_height tl <= n <= h_height hd ->
  get_by_height r n = Found (c n) /\ get r (h_id (c n)) = Found (c n).
Proof. exact @hist_reopen_gap_free. Qed.

(** every header of a committed batch that was not later deleted (= indexed and stored in the
    image) is retrievable from the reopened Store by height and by hash *)
Theorem C06_committed_headers_retrievable : forall c U, chain_hyps c U -> forall b ops k n id h,
  Forall (op_ok U) ops ->
  let s := run c (st0 b) ops in
  (k <= length (wlog s))%nat ->
  let img := image b (wlog s) k in
  let r := reopen b (wlog s) k in
  d_idx img !! n = Some id -> d_hdr img !! id = Some h ->
  h = c n /\ get_by_height r n = Found (c n) /\ get r (h_id (c n)) = Found (c n).
Proof. exact @hist_reopen_finds_committed. Qed.

(** appending the continuation of the chain — the [len] consecutive heights above the reopened
    Head (else Tail, else 0: [cont_base]), reaching above everything stored in the image —
    makes Head advance to the new tip *)
Theorem C06_continuation_reaches_tip : forall c U, chain_hyps c U -> forall b ops k len,
  Forall (op_ok U) ops ->
  let s := run c (st0 b) ops in
  (k <= length (wlog s))%nat ->
  let img := image b (wlog s) k in
  let r := reopen b (wlog s) k in
  let base := cont_base r in
  let last := base + N.of_nat len in
  len <> 0%nat -> last <= U ->
  (forall m, last < m -> inr U m -> d_hdr img !! h_id (c m) <> Some (c m)) ->
  headp (fst (append r (map c (seqN (base + 1) len)))) = Some (c last).
Proof. exact @hist_reopen_continuation. Qed.

(** non-vacuity: the history of the repaired finding; every crash point is listed with the
    reopened (Head, Tail) and what heights 1..8 answer *)
Example C06_crash_points :
  let c := simple_chain in
  let s := run c (st0 3) [IAppend [1; 2; 3]; IAppend [6; 7; 8]; IAppend [4]; IAppend [5]; IDelete 1 2 0 []] in
  map (fun k => let r := reopen 3 (wlog s) k in
                (option_map h_height (headp r), option_map h_height (tailp r),
                 map (fun n => match get_by_height r n with Found _ => true | _ => false end) [1; 2; 3; 4; 5; 6; 7; 8]))
      (seq 0 (S (length (wlog s)))) =
  [ (None, None, [false; false; false; false; false; false; false; false]);
    (Some 3, Some 1, [true; true; true; false; false; false; false; false]);
    (Some 3, Some 1, [true; true; true; false; false; true; true; true]);
    (Some 8, Some 1, [true; true; true; true; true; true; true; true]);
    (Some 8, None, [false; true; true; true; true; true; true; true]);
    (Some 8, None, [false; true; true; true; true; true; true; true]);
    (Some 8, Some 2, [false; true; true; true; true; true; true; true]);
    (Some 8, Some 2, [false; true; true; true; true; true; true; true]) ].
Proof. vm_compute. reflexivity. Qed.

Print Assumptions C06_clean_restart.
Print Assumptions C06_disk_invariant_at_every_write.
Print Assumptions C06_reopened_pointers_resolve.
Print Assumptions C06_reopened_gap_free.
Print Assumptions C06_committed_headers_retrievable.
Print Assumptions C06_continuation_reaches_tip.
