(** C01 — Verify accepts only headers passing every mandatory and type-level check.
    Statements only; proofs live in Proofs/VerifyP.v. For every clock reading,
    every drift allowance and every type-level verifier [tv]. *)
From GH Require Import Base.Prelude Model.Verify Proofs.VerifyP.

(** nil iff all six mandatory conditions hold and the type's own Verify accepts *)
Theorem C01_accept_iff : forall (now drift : Z) (tv : hdr -> hdr -> tvres) (t u : hdr),
  Verify now drift tv t u = None <->
  ((h_nil t = false /\ h_nil u = false /\ h_chain u = h_chain t /\ h_height t < h_height u /\
    (h_time t <= h_time u)%Z /\ (h_time u <= now + drift)%Z) /\ tv t u = TVOk).
Proof. exact accept_iff. Qed.

(** every rejection carries the sentinel of the first failing mandatory check
    (never soft), or the type's own error once all mandatory checks passed *)
Theorem C01_reject_reason : forall (now drift : Z) (tv : hdr -> hdr -> tvres) (t u : hdr) (e : verr),
  Verify now drift tv t u = Some e ->
  (exists s, ve_reason e = RSent s /\ ve_soft e = false /\ sentinel_matches now drift s t u) \/
  (exists id, ve_reason e = RType id /\ mand_ok now drift t u /\ tv_err_id (tv t u) = Some id).
Proof. exact reject_reason. Qed.

(** SoftFailure exactly when the type's own check rejected a non-adjacent header
    or itself reported soft *)
Theorem C01_soft_iff : forall (now drift : Z) (tv : hdr -> hdr -> tvres) (t u : hdr) (e : verr),
  Verify now drift tv t u = Some e ->
  (ve_soft e = true <->
   mand_ok now drift t u /\ tv t u <> TVOk /\ (adjacent t u = false \/ tv_soft (tv t u) = true)).
Proof. exact soft_iff. Qed.

Theorem C01_mandatory_never_soft : forall (now drift : Z) (tv : hdr -> hdr -> tvres) (t u : hdr) (e : verr) (s : sentinel),
  Verify now drift tv t u = Some e -> ve_reason e = RSent s -> ve_soft e = false.
Proof. exact mandatory_never_soft. Qed.

Print Assumptions C01_accept_iff.
Print Assumptions C01_reject_reason.
Print Assumptions C01_soft_iff.
Print Assumptions C01_mandatory_never_soft.
